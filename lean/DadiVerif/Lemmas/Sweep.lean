import DadiVerif.Lemmas.Scaling
/-! Helper lemmas: linearity and re-scaling invariance of injection, kernel sweeps and the full time step,
    on the functional form of the density (`List ℕ → ℚ`). -/
namespace DadiVerif
open Gen

def lin (s t : ℚ) (A B : List ℕ → ℚ) : List ℕ → ℚ := fun idx => s * A idx + t * B idx

theorem listGetD_zipWith_lin (s t : ℚ) : ∀ (l1 l2 : List ℚ) (_ : l1.length = l2.length) (j : ℕ),
    listGetD (List.zipWith (fun x y => s * x + t * y) l1 l2) j = s * listGetD l1 j + t * listGetD l2 j
  | [], [], _, j => by simp [listGetD]
  | x :: xs, y :: ys, _, 0 => by simp [listGetD]
  | x :: xs, y :: ys, h, j + 1 => by
      have := listGetD_zipWith_lin s t xs ys (by simpa using h) j
      simpa [listGetD] using this
  | [], _ :: _, h, _ => by simp at h
  | _ :: _, [], h, _ => by simp at h

/-- C03: one kernel sweep along any axis of any dimension is linear in the density -/
theorem stepAxisFn_linear (grids : List (Array ℚ)) (k : ℕ) (P : AxisParams) (use : Bool)
    (eps : List ℕ → ℕ → ℚ) (dt s t : ℚ) (A B : List ℕ → ℚ) :
    stepAxisFn grids k P use eps dt (lin s t A B) = lin s t (stepAxisFn grids k P use eps dt A) (stepAxisFn grids k P use eps dt B) := by
  funext idx
  unfold stepAxisFn stepFam lin
  simp only
  rw [Line.step_linear, listGetD_zipWith_lin]
  rw [Line.step_length, Line.step_length]

theorem axis_scaled (p : PopParams) (β : Option ℚ) (k : ℚ) : (p.scaled k).axis β = (p.axis β).scaled k := rfl

/-- C03: one kernel sweep is unchanged by ν→kν, m→m/k, γ→γ/k, dt→k·dt -/
theorem stepAxisFn_scaled (grids : List (Array ℚ)) (ax : ℕ) (P : AxisParams) (use : Bool)
    (eps : List ℕ → ℕ → ℚ) (dt k : ℚ) (hk : 0 < k) (A : List ℕ → ℚ) :
    stepAxisFn grids ax (P.scaled k) use eps (k * dt) A = stepAxisFn grids ax P use eps dt A := by
  funext idx
  unfold stepAxisFn stepFam
  simp only
  rw [axisLine_scaled _ _ _ _ _ _ _ hk, Line.step_rescale _ _ (ne_of_gt hk)]

/-! ### injection -/
theorem inj_core (k dt θ a : ℚ) (hk : k ≠ 0) : k * dt / a * (θ / k) = dt / a * θ := by
  have h : k * k⁻¹ = 1 := mul_inv_cancel₀ hk
  rw [div_eq_mul_inv θ k]
  linear_combination (dt / a * θ) * h

theorem injectAmt_scaled (d j : ℕ) (dt θ k : ℚ) (hk : k ≠ 0) (g : ℕ → ℕ → ℚ) :
    injectAmt d j (k * dt) (θ / k) g = injectAmt d j dt θ g := by
  unfold injectAmt
  split <;> first
    | rfl
    | (simp only [Py.inject1D_0, Py.inject2D_0, Py.inject2D_1, Py.inject3D_0, Py.inject3D_1, Py.inject3D_2,
        Py.inject4D_0, Py.inject4D_1, Py.inject4D_2, Py.inject4D_3, Py.inject5D_0, Py.inject5D_1, Py.inject5D_2,
        Py.inject5D_3, Py.inject5D_4, inj_core _ _ _ _ hk])

theorem injectAmt_linear (d j : ℕ) (dt θ1 θ2 s t : ℚ) (g : ℕ → ℕ → ℚ) :
    (injectAmt d j dt (s * θ1 + t * θ2) g).getD 0
      = s * (injectAmt d j dt θ1 g).getD 0 + t * (injectAmt d j dt θ2 g).getD 0 := by
  unfold injectAmt
  split <;> first
    | (simp only [Option.getD_some, Py.inject1D_0, Py.inject2D_0, Py.inject2D_1, Py.inject3D_0, Py.inject3D_1, Py.inject3D_2,
        Py.inject4D_0, Py.inject4D_1, Py.inject4D_2, Py.inject4D_3, Py.inject5D_0, Py.inject5D_1, Py.inject5D_2,
        Py.inject5D_3, Py.inject5D_4]; ring)
    | simp

theorem sumL_map_lin (l : List ℕ) (f g : ℕ → ℚ) (s t : ℚ) :
    sumL (l.map fun k => s * f k + t * g k) = s * sumL (l.map f) + t * sumL (l.map g) := by
  induction l with
  | nil => simp
  | cons x xs ih => simp only [List.map_cons, sumL_cons, ih]; ring

/-- C03: mutation injection is linear in (density, θ0) jointly -/
theorem injectFn_linear (grids : List (Array ℚ)) (fr nm : List Bool) (dt θ1 θ2 s t : ℚ) (A B : List ℕ → ℚ) :
    injectFn grids fr nm dt (s * θ1 + t * θ2) (lin s t A B)
      = lin s t (injectFn grids fr nm dt θ1 A) (injectFn grids fr nm dt θ2 B) := by
  funext idx
  unfold injectFn lin
  simp only
  have : ∀ k, (if idx = unitIdx grids.length k ∧ injectOn grids.length k fr nm = true
        then (injectAmt grids.length k dt (s * θ1 + t * θ2) fun l j => (grids.getD l #[]).getD j 0).getD 0 else 0)
      = s * (if idx = unitIdx grids.length k ∧ injectOn grids.length k fr nm = true
        then (injectAmt grids.length k dt θ1 fun l j => (grids.getD l #[]).getD j 0).getD 0 else 0)
        + t * (if idx = unitIdx grids.length k ∧ injectOn grids.length k fr nm = true
        then (injectAmt grids.length k dt θ2 fun l j => (grids.getD l #[]).getD j 0).getD 0 else 0) := by
    intro k
    split_ifs
    · exact injectAmt_linear _ _ _ _ _ _ _ _
    · ring
  simp only [this, sumL_map_lin]
  ring

/-- C03: injection depends on (dt, θ0) only through dt·θ0 -/
theorem injectFn_scaled (grids : List (Array ℚ)) (fr nm : List Bool) (dt θ k : ℚ) (hk : k ≠ 0) (A : List ℕ → ℚ) :
    injectFn grids fr nm (k * dt) (θ / k) A = injectFn grids fr nm dt θ A := by
  funext idx
  unfold injectFn
  simp only [injectAmt_scaled _ _ _ _ _ hk]

/-! ### full time step -/
theorem sweepAxisFn_linear (grids : List (Array ℚ)) (fr : List Bool) (use : Bool) (eps : ℕ → List ℕ → ℕ → ℚ)
    (pops : List PopParams) (β : Option ℚ) (dt s t : ℚ) (A B : List ℕ → ℚ) (k : ℕ) :
    sweepAxisFn grids fr use eps pops β dt (lin s t A B) k
      = lin s t (sweepAxisFn grids fr use eps pops β dt A k) (sweepAxisFn grids fr use eps pops β dt B k) := by
  unfold sweepAxisFn
  by_cases hf : fr.getD k false = true
  · simp only [hf, if_true]
  · simp only [hf, Bool.false_eq_true, if_false]
    cases pops[k]? with
    | none => rfl
    | some p => exact stepAxisFn_linear _ _ _ _ _ _ _ _ _ _

theorem sweep_fold_linear (grids : List (Array ℚ)) (fr : List Bool) (use : Bool) (eps : ℕ → List ℕ → ℕ → ℚ)
    (pops : List PopParams) (β : Option ℚ) (dt s t : ℚ) (l : List ℕ) (A B : List ℕ → ℚ) :
    l.foldl (sweepAxisFn grids fr use eps pops β dt) (lin s t A B)
    = lin s t (l.foldl (sweepAxisFn grids fr use eps pops β dt) A) (l.foldl (sweepAxisFn grids fr use eps pops β dt) B) := by
  induction l generalizing A B with
  | nil => rfl
  | cons k ks ih => simp only [List.foldl_cons, sweepAxisFn_linear, ih]

/-- C03: the full time step is linear in (density, θ0) -/
theorem sweepFn_linear (grids : List (Array ℚ)) (fr nm : List Bool) (use : Bool) (eps : ℕ → List ℕ → ℕ → ℚ)
    (pops : List PopParams) (β : Option ℚ) (θ1 θ2 dt s t : ℚ) (A B : List ℕ → ℚ) :
    sweepFn grids fr nm use eps ⟨pops, s * θ1 + t * θ2, β⟩ dt (lin s t A B)
      = lin s t (sweepFn grids fr nm use eps ⟨pops, θ1, β⟩ dt A) (sweepFn grids fr nm use eps ⟨pops, θ2, β⟩ dt B) := by
  unfold sweepFn
  simp only
  rw [injectFn_linear, sweep_fold_linear]

theorem sweepAxisFn_scaled (grids : List (Array ℚ)) (fr : List Bool) (use : Bool) (eps : ℕ → List ℕ → ℕ → ℚ)
    (pops : List PopParams) (β : Option ℚ) (dt k : ℚ) (hk : 0 < k) (A : List ℕ → ℚ) (j : ℕ) :
    sweepAxisFn grids fr use eps (pops.map (·.scaled k)) β (k * dt) A j = sweepAxisFn grids fr use eps pops β dt A j := by
  unfold sweepAxisFn
  by_cases hf : fr.getD j false = true
  · simp only [hf, if_true]
  · simp only [hf, Bool.false_eq_true, if_false, List.getElem?_map]
    cases pops[j]? with
    | none => rfl
    | some p =>
      simp only [Option.map_some, axis_scaled]
      exact stepAxisFn_scaled _ _ _ _ _ _ _ hk _

/-- C03: the full time step is unchanged by the reference-size re-scaling -/
theorem sweepFn_scaled (grids : List (Array ℚ)) (fr nm : List Bool) (use : Bool) (eps : ℕ → List ℕ → ℕ → ℚ)
    (P : StepParams) (dt k : ℚ) (hk : 0 < k) (A : List ℕ → ℚ) :
    sweepFn grids fr nm use eps (P.scaled k) (k * dt) A = sweepFn grids fr nm use eps P dt A := by
  unfold sweepFn StepParams.scaled
  simp only
  rw [injectFn_scaled _ _ _ _ _ _ (ne_of_gt hk)]
  congr 1
  funext acc j
  exact sweepAxisFn_scaled _ _ _ _ _ _ _ _ hk _ _

end DadiVerif
