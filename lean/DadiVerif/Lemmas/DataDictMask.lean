import DadiVerif.Lemmas.DataDictFst
/-! Infrastructure for C13, part 11: the mask of `from_data_dict(…, mask_corners, polarized)` — `maskAt` is the composition of the
    constructor's corner masking (`ctorMask`) and, when unpolarised, of the mask computed by `Spectrum.fold` (`foldMask`: mask |
    reversed mask | folded-out half, then the constructor again) — in closed form, and what it hides. -/
namespace DadiVerif.DataDict
open DadiVerif.Gen.DD

theorem isCorner_iff (proj idx : List ℕ) : isCorner proj idx = true ↔ (∀ i ∈ idx, i = 0) ∨ idx = proj := by
  simp [isCorner]

theorem all_zero_iff_mirror {proj idx : List ℕ} (h : InBox idx (shapeOf proj)) :
    (∀ i ∈ idx, i = 0) ↔ mirror proj idx = proj := by
  induction proj generalizing idx with
  | nil => cases idx with
    | nil => simp [mirror]
    | cons _ _ => exact absurd h (by simp [InBox, shapeOf])
  | cons p ps ih => cases idx with
    | nil => exact absurd h (by simp [InBox, shapeOf])
    | cons i is =>
      have hi : i < p + 1 := h.1
      have := ih (idx := is) h.2
      simp only [List.mem_cons, forall_eq_or_imp, mirror, List.cons.injEq, this]
      constructor
      · rintro ⟨h0, h1⟩; exact ⟨by omega, h1⟩
      · rintro ⟨h0, h1⟩; exact ⟨by omega, h1⟩

/-- axis reversal swaps the two corners -/
theorem isCorner_mirror {proj idx : List ℕ} (h : InBox idx (shapeOf proj)) :
    isCorner proj (mirror proj idx) = isCorner proj idx := by
  rw [Bool.eq_iff_iff, isCorner_iff, isCorner_iff]
  have h1 := all_zero_iff_mirror h
  have h2 := all_zero_iff_mirror (mirror_inBox h)
  rw [mirror_mirror h] at h2
  constructor
  · rintro (a | a)
    · exact Or.inr (h2.mp a)
    · exact Or.inl (h1.mpr a)
  · rintro (a | a)
    · exact Or.inr (h1.mp a)
    · exact Or.inl (h2.mpr a)

/-- polarised output: the corners, if asked for, and nothing else -/
theorem maskAt_polarised (mc : Bool) (proj idx : List ℕ) : maskAt true mc proj idx = (mc && isCorner proj idx) := by
  simp [maskAt, ctorMask]

/-- folded output: the folded-out half, and the corners if asked for or if `fold` masks them again -/
theorem maskAt_folded (mc : Bool) (proj idx : List ℕ) (h : InBox idx (shapeOf proj)) :
    maskAt false mc proj idx
      = (decide (natSum proj / 2 < natSum idx) || ((mc || foldRemasksCorners) && isCorner proj idx)) := by
  simp only [maskAt, foldMask, ctorMask, Bool.false_eq_true, if_false, Bool.false_or, isCorner_mirror h]
  cases mc <;> cases foldRemasksCorners <;> cases isCorner proj idx <;> cases decide (natSum proj / 2 < natSum idx) <;> rfl

/-- the entries `fold` zeroes: more than half of the chromosomes carry the counted allele -/
theorem foldAt_folded_out (proj : List ℕ) (u : List ℕ → ℚ) (idx : List ℕ) (h : natSum proj / 2 < natSum idx) :
    foldAt proj u idx = 0 := by
  simp [foldAt, h]

theorem boxSum_sub (shape : List ℕ) (f g : List ℕ → ℚ) :
    boxSum shape (fun idx => f idx - g idx) = boxSum shape f - boxSum shape g := by
  have : (fun idx => f idx - g idx) = fun idx => f idx + (-1) * g idx := by funext i; ring
  rw [this, boxSum_add, boxSum_mul_left]; ring

end DadiVerif.DataDict
