import Mathlib.Tactic.FieldSimp
import DadiVerif.Lemmas.PopOps
/-! C10: folding (`foldCore`, `unfoldCore` of Model/PopOps.lean) versus re-indexing -/
namespace DadiVerif.PopOps
open Finset

/-- weight of `x i + x (mirror i)` in the folded entry of total allele count `t` (T chromosomes) -/
def foldCoef (T t : Nat) : ℚ := if 2 * t > T then 0 else if 2 * t = T then 1 / 2 else 1

/-- the data of `foldCore` as a function of shape and entry function (mask, labels play no role) -/
def foldDat (sh : List Nat) (x : Idx → ℚ) : Idx → ℚ :=
  (foldCore { shape := sh, dat := x, msk := fun _ => false, folded := false, labels := none }).dat

/-- symmetrisation: what `unfold` makes of a folded spectrum -/
def symDat (sh : List Nat) (x : Idx → ℚ) (i : Idx) : ℚ := (x i + x (mirror sh i)) / 2

theorem mirror_forall2 {i sh : List Nat} (h : List.Forall₂ (· < ·) i sh) : List.Forall₂ (· < ·) (mirror sh i) sh := by
  induction h with
  | nil => simp [mirror]
  | cons hab _ ih => simp only [mirror, List.zipWith_cons_cons]; exact List.Forall₂.cons (by omega) ih

theorem mirror_mem_box (sh : List Nat) (i : Idx) (h : i ∈ boxIdx sh) : mirror sh i ∈ boxIdx sh :=
  (mem_boxIdx _ _).2 (mirror_forall2 ((mem_boxIdx _ _).1 h))

theorem mirror_mirror (sh : List Nat) (i : Idx) (h : i ∈ boxIdx sh) : mirror sh (mirror sh i) = i := by
  rw [mem_boxIdx] at h
  induction h with
  | nil => simp [mirror]
  | cons hab _ ih =>
    simp only [mirror, List.zipWith_cons_cons] at ih ⊢
    rw [ih]; congr 1; omega

theorem mirror_sum (sh : List Nat) (i : Idx) (h : i ∈ boxIdx sh) :
    i.sum ≤ nTotal sh ∧ (mirror sh i).sum = nTotal sh - i.sum := by
  rw [mem_boxIdx] at h
  induction h with
  | nil => simp [mirror, nTotal]
  | cons hab _ ih =>
    simp only [mirror, nTotal, List.zipWith_cons_cons, List.sum_cons, List.map_cons] at ih ⊢
    omega

theorem foldCore_dat_closed (S : FS) (i : Idx) (hi : i ∈ S.box) :
    (foldCore S).dat i = foldCoef (nTotal S.shape) i.sum * (S.dat i + S.dat (mirror S.shape i)) := by
  obtain ⟨h1, h2⟩ := mirror_sum S.shape i hi
  simp only [foldCore, foldedOut, foldCoef, h2, decide_eq_true_eq]
  set T := nTotal S.shape
  set t := i.sum
  by_cases c1 : 2 * t > T
  · have e1 : t > T / 2 := by omega
    have e2 : ¬ (2 * t = T) := by omega
    have e3 : ¬ (2 * (T - t) = T) := by omega
    simp [c1, e1, e2, e3]
  · by_cases c2 : 2 * t = T
    · have e1 : ¬ (t > T / 2) := by omega
      have e2 : ¬ (T - t > T / 2) := by omega
      have e3 : 2 * (T - t) = T := by omega
      simp [c1, c2, e1, e2, e3]; ring
    · have e1 : ¬ (t > T / 2) := by omega
      have e2 : T - t > T / 2 := by omega
      have e3 : ¬ (2 * (T - t) = T) := by omega
      simp [c1, c2, e1, e2, e3]

theorem foldDat_closed (sh : List Nat) (x : Idx → ℚ) (i : Idx) (hi : i ∈ boxIdx sh) :
    foldDat sh x i = foldCoef (nTotal sh) i.sum * (x i + x (mirror sh i)) :=
  foldCore_dat_closed { shape := sh, dat := x, msk := fun _ => false, folded := false, labels := none } i hi

/-- re-indexing the mirrored entries = mirroring the re-indexed entries -/
theorem pushL_mirror (shA shB : List Nat) (f : Idx → Idx) (x : Idx → ℚ)
    (hbox : ∀ i ∈ boxIdx shA, f i ∈ boxIdx shB)
    (hmir : ∀ i ∈ boxIdx shA, f (mirror shA i) = mirror shB (f i))
    (j : Idx) (hj : j ∈ boxIdx shB) :
    pushL (boxIdx shA) f (fun i => x (mirror shA i)) j = pushL (boxIdx shA) f x (mirror shB j) := by
  rw [pushL_eq_sum _ (nodup_boxIdx _), pushL_eq_sum _ (nodup_boxIdx _)]
  apply Finset.sum_nbij' (fun i => mirror shA i) (fun i => mirror shA i)
  · intro i hi; simp at hi ⊢; exact mirror_mem_box shA i hi
  · intro i hi; simp at hi ⊢; exact mirror_mem_box shA i hi
  · intro i hi; simp at hi; exact mirror_mirror shA i hi
  · intro i hi; simp at hi; exact mirror_mirror shA i hi
  · intro i hi
    simp at hi
    rw [hmir i hi]
    by_cases h : f i = j
    · simp [h]
    · have : mirror shB (f i) ≠ mirror shB j := by
        intro hh
        apply h
        rw [← mirror_mirror shB (f i) (hbox i hi), hh, mirror_mirror shB j hj]
      simp [h, this]

theorem fold_push_comm (shA shB : List Nat) (f : Idx → Idx) (x : Idx → ℚ)
    (hbox : ∀ i ∈ boxIdx shA, f i ∈ boxIdx shB) (hsum : ∀ i ∈ boxIdx shA, (f i).sum = i.sum)
    (hT : nTotal shA = nTotal shB) (hmir : ∀ i ∈ boxIdx shA, f (mirror shA i) = mirror shB (f i))
    (j : Idx) (hj : j ∈ boxIdx shB) :
    foldDat shB (pushL (boxIdx shA) f x) j = pushL (boxIdx shA) f (foldDat shA x) j := by
  rw [foldDat_closed shB _ j hj]
  have e1 : pushL (boxIdx shA) f (foldDat shA x) j
      = pushL (boxIdx shA) f (fun i => (x i + x (mirror shA i)) * foldCoef (nTotal shB) j.sum) j := by
    apply pushL_congr
    intro i hi hij
    rw [foldDat_closed shA x i hi, hT, ← hsum i hi, hij]; ring
  rw [e1, pushL_mul_const']
  have e2 : pushL (boxIdx shA) f (fun i => x i + x (mirror shA i)) j
      = pushL (boxIdx shA) f x j + pushL (boxIdx shA) f (fun i => x (mirror shA i)) j := pushL_add _ _ _ _ _
  rw [e2, pushL_mirror shA shB f x hbox hmir j hj]; ring



theorem getD_add_sum_eraseIdx (l : List Nat) (k : Nat) : l.getD k 0 + (l.eraseIdx k).sum = l.sum := by
  induction l generalizing k with
  | nil => simp
  | cons c cs ih =>
    cases k with
    | zero => simp
    | succ k => simp only [List.getD_cons_succ, List.eraseIdx_cons_succ, List.sum_cons]; have := ih k; omega

theorem merge2_cons_zero (b c : Nat) (cs : List Nat) : merge2 0 (b + 1) (c :: cs) = (c + cs.getD b 0) :: cs.eraseIdx b := by
  simp [merge2_eq]

theorem merge2_cons_succ (a b c : Nat) (cs : List Nat) : merge2 (a + 1) (b + 1) (c :: cs) = c :: merge2 a b cs := by
  simp [merge2_eq]

theorem merge2_nil (a b : Nat) : merge2 a b [] = [] := by simp [merge2_eq]

/-- merging two axes preserves the total allele count of an entry -/
theorem merge2_sum (a b : Nat) (hab : a < b) (i : Idx) : (merge2 a b i).sum = i.sum := by
  induction i generalizing a b with
  | nil => rw [merge2_nil]
  | cons c cs ih =>
    obtain ⟨b', rfl⟩ : ∃ b', b = b' + 1 := ⟨b - 1, by omega⟩
    cases a with
    | zero =>
      rw [merge2_cons_zero]; simp only [List.sum_cons]
      have := getD_add_sum_eraseIdx cs b'; omega
    | succ a' =>
      rw [merge2_cons_succ]; simp only [List.sum_cons]
      rw [ih a' b' (by omega)]

theorem c2NewNs_eq_merge2 (a b : Nat) (ns : List Nat) : Gen.c2NewNs a b ns = merge2 a b ns := rfl

theorem nTotal_map_succ (l : List Nat) : nTotal (l.map (· + 1)) = l.sum := by
  unfold nTotal; rw [List.map_map]; congr 1
  conv_rhs => rw [← List.map_id l]
  apply List.map_congr_left; intro x _; simp

theorem nTotal_mergeShape (a b : Nat) (sh : List Nat) (hab : a < b) : nTotal (mergeShape a b sh) = nTotal sh := by
  show nTotal ((Gen.c2NewNs a b (sh.map (· - 1))).map (· + 1)) = _
  rw [nTotal_map_succ, c2NewNs_eq_merge2, merge2_sum a b hab]; rfl

/-- mirror in terms of sample sizes -/
def mirrorN (ns : List Nat) (i : Idx) : Idx := List.zipWith (· - ·) ns i

theorem mirror_eq_mirrorN (sh : List Nat) (i : Idx) : mirror sh i = mirrorN (sh.map (· - 1)) i := by
  unfold mirror mirrorN; rw [List.zipWith_map_left]

theorem mirror_map_succ (l : List Nat) (i : Idx) : mirror (l.map (· + 1)) i = mirrorN l i := by
  rw [mirror_eq_mirrorN, List.map_map]; congr 1
  conv_rhs => rw [← List.map_id l]
  apply List.map_congr_left; intro x _; simp

theorem zipWith_eraseIdx {α β γ : Type} (f : α → β → γ) (l : List α) (m : List β) (k : Nat) :
    List.zipWith f (l.eraseIdx k) (m.eraseIdx k) = (List.zipWith f l m).eraseIdx k := by
  induction l generalizing m k with
  | nil => simp
  | cons a as ih =>
    cases m with
    | nil => cases k <;> simp
    | cons b bs =>
      cases k with
      | zero => simp
      | succ k => simp [ih]

theorem getD_mirrorN {ns i : List Nat} (h : List.Forall₂ (· ≤ ·) i ns) (k : Nat) :
    (mirrorN ns i).getD k 0 = ns.getD k 0 - i.getD k 0 := by
  induction h generalizing k with
  | nil => simp [mirrorN]
  | cons hab _ ih =>
    cases k with
    | zero => simp [mirrorN]
    | succ k => simpa [mirrorN] using ih k

theorem merge2_mirrorN (a b : Nat) (hab : a < b) {ns i : List Nat} (h : List.Forall₂ (· ≤ ·) i ns) :
    mirrorN (merge2 a b ns) (merge2 a b i) = merge2 a b (mirrorN ns i) := by
  induction h generalizing a b with
  | nil => simp [mirrorN, merge2_nil]
  | @cons c n cs ns' hcn hrest ih =>
    obtain ⟨b', rfl⟩ : ∃ b', b = b' + 1 := ⟨b - 1, by omega⟩
    cases a with
    | zero =>
      have e : mirrorN (n :: ns') (c :: cs) = (n - c) :: mirrorN ns' cs := rfl
      rw [merge2_cons_zero, merge2_cons_zero, e, merge2_cons_zero]
      show (n + ns'.getD b' 0 - (c + cs.getD b' 0)) :: mirrorN (ns'.eraseIdx b') (cs.eraseIdx b') = _
      rw [getD_mirrorN hrest b']
      have := forall2_getD_le hrest b'
      unfold mirrorN; rw [zipWith_eraseIdx]
      congr 1; omega
    | succ a' =>
      have e : mirrorN (n :: ns') (c :: cs) = (n - c) :: mirrorN ns' cs := rfl
      rw [merge2_cons_succ, merge2_cons_succ, e, merge2_cons_succ]
      show (n - c) :: mirrorN (merge2 a' b' ns') (merge2 a' b' cs) = _
      rw [ih a' b' (by omega)]

/-- merging commutes with the mirror (minor/major allele exchange) -/
theorem merge2_mirror (a b : Nat) (sh : List Nat) (hab : a < b) (i : Idx) (hi : i ∈ boxIdx sh) :
    mirror (mergeShape a b sh) (merge2 a b i) = merge2 a b (mirror sh i) := by
  show mirror ((Gen.c2NewNs a b (sh.map (· - 1))).map (· + 1)) _ = _
  rw [mirror_map_succ, c2NewNs_eq_merge2, mirror_eq_mirrorN]
  exact merge2_mirrorN a b hab (forall2_lt_le ((mem_boxIdx _ _).1 hi))

theorem shape_of_ns2 (sh : List ℕ) (h : ∀ s ∈ sh, 1 ≤ s) : (sh.map (· - 1)).map (· + 1) = sh := by
  rw [List.map_map]
  conv_rhs => rw [← List.map_id sh]
  apply List.map_congr_left
  intro s hs; have := h s hs; simp; omega

theorem getD_map_pred (sh : List Nat) (k : Nat) : (sh.map (· - 1)).getD k 0 = sh.getD k 0 - 1 := by
  induction sh generalizing k with
  | nil => simp
  | cons s ss ih =>
    cases k with
    | zero => simp
    | succ k => simpa using ih k

theorem map_eraseIdx' {α β : Type} (f : α → β) (l : List α) (k : Nat) : (l.eraseIdx k).map f = (l.map f).eraseIdx k := by
  induction l generalizing k with
  | nil => simp
  | cons a as ih => cases k <;> simp [ih]

theorem mergeShape_explicit (a b : Nat) (sh : List Nat) (hab : a < b) (hb : b < sh.length) (hpos : ∀ s ∈ sh, 1 ≤ s) :
    mergeShape a b sh = (sh.set a (sh.getD a 0 + sh.getD b 0 - 1)).eraseIdx b := by
  rw [mergeShape_eq, map_eraseIdx', List.map_set, shape_of_ns2 sh hpos, getD_map_pred, getD_map_pred]
  have h1 : 1 ≤ sh.getD a 0 := by
    have : sh.getD a 0 = sh[a]'(by omega) := by simp [List.getD_eq_getElem?_getD, List.getElem?_eq_getElem (show a < sh.length by omega)]
    rw [this]; exact hpos _ (List.getElem_mem _)
  have h2 : 1 ≤ sh.getD b 0 := by
    have : sh.getD b 0 = sh[b]'hb := by simp [List.getD_eq_getElem?_getD, List.getElem?_eq_getElem hb]
    rw [this]; exact hpos _ (List.getElem_mem _)
  congr 2; omega

theorem dropAxes_mirror (ks : List Nat) (sh : List Nat) (i : Idx) :
    dropAxes ks (mirror sh i) = mirror (dropAxes ks sh) (dropAxes ks i) := by
  induction ks generalizing sh i with
  | nil => rfl
  | cons k ks ih =>
    rw [dropAxes_cons, dropAxes_cons, dropAxes_cons, ← ih]
    congr 1
    unfold mirror; rw [zipWith_eraseIdx]

theorem foldCoef_add (T t : Nat) (ht : t ≤ T) : foldCoef T t + foldCoef T (T - t) = 1 := by
  unfold foldCoef
  split_ifs <;> first | (exfalso; omega) | norm_num

/-- folding a symmetrised spectrum = folding the spectrum -/
theorem fold_sym (sh : List Nat) (y : Idx → ℚ) (j : Idx) (hj : j ∈ boxIdx sh) :
    foldDat sh (symDat sh y) j = foldDat sh y j := by
  rw [foldDat_closed sh _ j hj, foldDat_closed sh _ j hj]
  unfold symDat
  rw [mirror_mirror sh j hj]; ring

theorem push_sym (shA shB : List Nat) (f : Idx → Idx) (x : Idx → ℚ)
    (hbox : ∀ i ∈ boxIdx shA, f i ∈ boxIdx shB)
    (hmir : ∀ i ∈ boxIdx shA, f (mirror shA i) = mirror shB (f i))
    (j : Idx) (hj : j ∈ boxIdx shB) :
    pushL (boxIdx shA) f (symDat shA x) j = symDat shB (pushL (boxIdx shA) f x) j := by
  have : symDat shA x = fun i => (x i + x (mirror shA i)) * (1 / 2) := by funext i; unfold symDat; ring
  rw [this, pushL_mul_const', pushL_add, pushL_mirror shA shB f x hbox hmir j hj]
  unfold symDat; ring

theorem fold_marg_sym (ks : List Nat) (sh : List Nat) (x : Idx → ℚ) (j : Idx) (hj : j ∈ boxIdx (dropAxes ks sh)) :
    foldDat (dropAxes ks sh) (pushL (boxIdx sh) (dropAxes ks) (symDat sh x)) j
      = foldDat (dropAxes ks sh) (pushL (boxIdx sh) (dropAxes ks) x) j := by
  have hbox : ∀ i ∈ boxIdx sh, dropAxes ks i ∈ boxIdx (dropAxes ks sh) := fun i hi => dropAxes_mem_box ks sh i hi
  have hmir : ∀ i ∈ boxIdx sh, dropAxes ks (mirror sh i) = mirror (dropAxes ks sh) (dropAxes ks i) :=
    fun i _ => dropAxes_mirror ks sh i
  rw [← fold_sym (dropAxes ks sh) (pushL (boxIdx sh) (dropAxes ks) x) j hj]
  rw [foldDat_closed _ _ j hj, foldDat_closed _ _ j hj]
  rw [push_sym sh _ _ x hbox hmir j hj,
      push_sym sh _ _ x hbox hmir _ (mirror_mem_box _ j hj)]

theorem unfold_fold_dat (S : FS) (i : Idx) (hi : i ∈ S.box) :
    (unfoldCore (foldCore S)).dat i = symDat S.shape S.dat i := by
  have hm := mirror_mem_box S.shape i hi
  obtain ⟨h1, h2⟩ := mirror_sum S.shape i hi
  show ((foldCore S).dat i + (foldCore S).dat (mirror S.shape i)) / 2 = _
  rw [foldCore_dat_closed S i hi, foldCore_dat_closed S _ hm, mirror_mirror S.shape i hi, h2]
  unfold symDat
  have := foldCoef_add (nTotal S.shape) i.sum h1
  have e : foldCoef (nTotal S.shape) (nTotal S.shape - i.sum) = 1 - foldCoef (nTotal S.shape) i.sum := by linarith
  rw [e]; ring



theorem map_getD_range (l : List Nat) : (List.range l.length).map (fun a => l.getD a 0) = l := by
  apply List.ext_getElem (by simp)
  intro n h1 h2
  simp [List.getD_eq_getElem?_getD, List.getElem?_eq_getElem h2]

/-- a permutation of the axes preserves the total allele count of an entry -/
theorem permIdx_sum (axes : List Nat) (i : Idx) (hp : axes.Perm (List.range i.length)) : (permIdx 0 axes i).sum = i.sum := by
  unfold permIdx
  rw [(hp.map _).sum_eq, map_getD_range]

theorem getD_mirror {sh i : List Nat} (h : List.Forall₂ (· < ·) i sh) (a : Nat) :
    (mirror sh i).getD a 0 = sh.getD a 0 - 1 - i.getD a 0 := by
  induction h generalizing a with
  | nil => simp [mirror]
  | cons hab _ ih =>
    cases a with
    | zero => simp [mirror]
    | succ a => simpa [mirror] using ih a

theorem permIdx_mirror (axes : List Nat) (sh : List Nat) (i : Idx) (hi : i ∈ boxIdx sh) :
    mirror (permIdx 0 axes sh) (permIdx 0 axes i) = permIdx 0 axes (mirror sh i) := by
  have h := (mem_boxIdx _ _).1 hi
  unfold permIdx
  show List.zipWith (fun s c => s - 1 - c) (axes.map _) (axes.map _) = _
  rw [List.zipWith_map_left, List.zipWith_map_right, List.zipWith_self]
  apply List.map_congr_left
  intro a _
  exact (getD_mirror h a).symm

theorem nTotal_permIdx (axes : List Nat) (sh : List Nat) (hp : axes.Perm (List.range sh.length)) :
    nTotal (permIdx 0 axes sh) = nTotal sh := by
  unfold nTotal
  have : (permIdx 0 axes sh).map (· - 1) = permIdx 0 axes (sh.map (· - 1)) := by
    unfold permIdx; rw [List.map_map]
    apply List.map_congr_left; intro a _
    exact (getD_map_pred sh a).symm
  rw [this, permIdx_sum axes _ (by simpa using hp)]

/-- reordering populations commutes with folding -/
theorem fold_reorder_comm (axes : List Nat) (sh : List Nat) (hp : axes.Perm (List.range sh.length)) (x : Idx → ℚ)
    (j : Idx) (hj : j ∈ boxIdx (permIdx 0 axes sh)) :
    foldDat (permIdx 0 axes sh) (pushL (boxIdx sh) (permIdx 0 axes) x) j = pushL (boxIdx sh) (permIdx 0 axes) (foldDat sh x) j := by
  have hval : ∀ a ∈ axes, a < sh.length := fun a ha => by simpa using hp.mem_iff.1 ha
  exact fold_push_comm sh _ (permIdx 0 axes) x (fun i hi => permIdx_mem_box axes sh hval i hi)
    (fun i hi => permIdx_sum axes i (by rw [mem_box_length sh i hi]; exact hp))
    (nTotal_permIdx axes sh hp).symm (fun i hi => (permIdx_mirror axes sh i hi).symm) j hj

end DadiVerif.PopOps
