import Mathlib.LinearAlgebra.Lagrange
import Mathlib.Analysis.SpecialFunctions.Log.Base
import Mathlib.Tactic.Ring
import Mathlib.Tactic.FieldSimp
import Mathlib.Tactic.Linarith
import DadiVerif.Model.Extrap
/-!
Helper lemmas for C07 (grid extrapolation).

* `lagSum xs ys` — the canonical Lagrange value at 0: `Σ_i y_i Π_{j≠i} x_j / (x_j − x_i)`, over any field.
* `lagSum_eval` — it returns `f(0)` for every polynomial of degree `< k` sampled at `k` distinct points
  (from Mathlib's `Lagrange.eq_interpolate`; Appendix F of DESIGN.md, generalised from ℚ to a field).
* `lagSum_poly` — coefficient form; `lagSum_perm` — invariance under a simultaneous permutation of the pairs.
* `lagSum_expand` — the erase-product written as a full product with `if`, so that `Fin.sum_univ_*`/`Fin.prod_univ_*` expand it.
* `abs_logb_gt_iff` — `m < |log₁₀ r| ↔ 10^m < r ∨ r < (10^m)⁻¹` for `r > 0`.
* `argminIdx` facts.
-/
namespace DadiVerif
open Polynomial Finset

section Lagrange
variable {K : Type} [Field K]

/-- canonical k-point Lagrange extrapolation to x = 0 -/
def lagSum {k : ℕ} (xs ys : Fin k → K) : K :=
  ∑ i, ys i * ∏ j ∈ univ.erase i, xs j / (xs j - xs i)

theorem lagSum_eval {k : ℕ} (xs : Fin k → K) (hinj : Function.Injective xs) (f : K[X])
    (hdeg : f.degree < k) :
    lagSum xs (fun i => f.eval (xs i)) = f.eval 0 := by
  unfold lagSum
  have h := Lagrange.eq_interpolate (s := univ) (v := xs) (f := f) (hinj.injOn) (by simpa using hdeg)
  conv_rhs => rw [h]
  simp only [Lagrange.interpolate_apply, eval_finsetSum, eval_mul, eval_C, Lagrange.basis, eval_prod,
    Lagrange.basisDivisor, eval_sub, eval_X, zero_sub]
  refine Finset.sum_congr rfl (fun i _ => ?_)
  congr 1
  refine Finset.prod_congr rfl (fun j hj => ?_)
  have hne : xs j - xs i ≠ 0 := by
    have : j ≠ i := (Finset.mem_erase.mp hj).1
    exact sub_ne_zero.mpr (fun e => this (hinj e))
  have hne' : xs i - xs j ≠ 0 := by
    intro e; apply hne
    have := congrArg Neg.neg e
    simpa using this
  field_simp
  ring

/-- coefficient form: data `y_i = Σ_{p<n+1} c_p x_i^p` extrapolate to `c_0` -/
theorem lagSum_poly {n : ℕ} (xs : Fin (n+1) → K) (hinj : Function.Injective xs) (c : Fin (n+1) → K) :
    lagSum xs (fun i => ∑ p : Fin (n+1), c p * xs i ^ (p : ℕ)) = c 0 := by
  have hdeg := Polynomial.degree_sum_fin_lt c
  have h := lagSum_eval xs hinj (∑ p : Fin (n+1), C (c p) * X ^ (p : ℕ)) hdeg
  simp only [eval_finsetSum, eval_mul, eval_C, eval_pow, eval_X] at h
  rw [h, Fin.sum_univ_succ]
  simp

theorem lagSum_perm {k : ℕ} (xs ys : Fin k → K) (σ : Equiv.Perm (Fin k)) :
    lagSum (xs ∘ σ) (ys ∘ σ) = lagSum xs ys := by
  unfold lagSum
  rw [← Equiv.sum_comp σ (fun i => ys i * ∏ j ∈ univ.erase i, xs j / (xs j - xs i))]
  refine Finset.sum_congr rfl (fun i _ => ?_)
  simp only [Function.comp]
  congr 1
  have : (univ.erase (σ i) : Finset (Fin k)) = (univ.erase i).map σ.toEmbedding := by
    rw [Finset.map_erase]; simp
  rw [this, Finset.prod_map]
  rfl

theorem lagSum_expand {k : ℕ} (xs ys : Fin k → K) :
    lagSum xs ys = ∑ i, ys i * ∏ j, if j = i then 1 else xs j / (xs j - xs i) := by
  unfold lagSum
  refine Finset.sum_congr rfl (fun i _ => ?_)
  congr 1
  rw [← Finset.filter_ne' univ i, Finset.prod_filter]
  refine Finset.prod_congr rfl (fun j _ => ?_)
  by_cases h : j = i <;> simp [h]

/-- distinct x values: every difference the formulas divide by is non-zero -/
theorem sub_ne_zero_of_injective {k : ℕ} (xs : Fin k → K) (hinj : Function.Injective xs) (i j : Fin k) (h : i ≠ j) :
    xs i - xs j ≠ 0 := sub_ne_zero.mpr (fun e => h (hinj e))

/-- one grid: the value itself -/
theorem lagSum_one (xs ys : Fin 1 → K) : lagSum xs ys = ys 0 := by
  rw [lagSum_expand]; simp

end Lagrange

section Log
/-- `m` decades: for a positive ratio, `|log₁₀ r| > m` iff `r` is above `10^m` or below `10^-m` -/
theorem abs_logb_gt_iff (r : ℝ) (hr : 0 < r) (m : ℕ) :
    (m : ℝ) < |Real.logb 10 r| ↔ (10 : ℝ) ^ m < r ∨ r < ((10 : ℝ) ^ m)⁻¹ := by
  have h10 : (1 : ℝ) < 10 := by norm_num
  rw [lt_abs]
  constructor
  · rintro (h | h)
    · left
      have := (Real.lt_logb_iff_rpow_lt h10 hr).mp h
      simpa [Real.rpow_natCast] using this
    · right
      have h' : Real.logb 10 r < -(m : ℝ) := by linarith
      have := (Real.logb_lt_iff_lt_rpow h10 hr).mp h'
      simpa [Real.rpow_neg, Real.rpow_natCast] using this
  · rintro (h | h)
    · left
      apply (Real.lt_logb_iff_rpow_lt h10 hr).mpr
      simpa [Real.rpow_natCast] using h
    · right
      have : Real.logb 10 r < -(m : ℝ) := by
        apply (Real.logb_lt_iff_lt_rpow h10 hr).mpr
        simpa [Real.rpow_neg, Real.rpow_natCast] using h
      linarith
end Log

section Argmin
open Extrap

theorem argminAux_spec (l : List ℚ) : ∀ (pre : List ℚ) (bv : ℚ) (bi i : ℕ),
    i = pre.length → bi < i → pre[bi]? = some bv → (∀ x ∈ pre, bv ≤ x) →
    let r := argminAux bv bi i l
    r < (pre ++ l).length ∧ ∀ x ∈ pre ++ l, (pre ++ l).getD r 0 ≤ x := by
  induction l with
  | nil =>
    intro pre bv bi i hi hb hg hmin
    simp only [argminAux, List.append_nil]
    refine ⟨by omega, fun x hx => ?_⟩
    have : pre.getD bi 0 = bv := by simp [List.getD, hg]
    rw [this]; exact hmin x hx
  | cons a l ih =>
    intro pre bv bi i hi hb hg hmin
    simp only [argminAux]
    have happ : pre ++ a :: l = (pre ++ [a]) ++ l := by simp
    by_cases h : a < bv
    · simp only [h, if_true]
      rw [happ]
      apply ih (pre ++ [a]) a i (i+1)
      · simp [hi]
      · omega
      · subst hi; simp
      · intro x hx
        rcases List.mem_append.mp hx with hx | hx
        · exact le_trans (le_of_lt h) (hmin x hx)
        · simp at hx; rw [hx]
    · simp only [h, if_false]
      rw [happ]
      apply ih (pre ++ [a]) bv bi (i+1)
      · simp [hi]
      · omega
      · rw [List.getElem?_append_left (by omega)]; exact hg
      · intro x hx
        rcases List.mem_append.mp hx with hx | hx
        · exact hmin x hx
        · simp at hx; rw [hx]; exact not_lt.mp h

/-- `argminIdx` is a valid index whose entry is a minimum of the list -/
theorem argminIdx_spec (xs : List ℚ) (hne : xs ≠ []) :
    argminIdx xs < xs.length ∧ ∀ x ∈ xs, xs.getD (argminIdx xs) 0 ≤ x := by
  cases xs with
  | nil => exact absurd rfl hne
  | cons a l =>
    have := argminAux_spec l [a] a 0 1 rfl (by omega) (by simp) (by simp)
    simpa [argminIdx] using this

end Argmin
end DadiVerif
