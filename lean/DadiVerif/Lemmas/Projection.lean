import DadiVerif.Model.Projection
import DadiVerif.Lemmas.Hypergeom
import Mathlib.Data.Nat.Factorial.Basic
import Mathlib.Data.Nat.Choose.Basic
import Mathlib.Tactic.Push
/-! Bridge between the executable projection model (Model/Projection.lean, which evaluates the
    *generated* log-gamma expression and window bounds) and the hypergeometric weights of
    Lemmas/Hypergeom.lean. -/
namespace DadiVerif
open Finset Gen.Proj

theorem fact_eq (n : ℕ) : fact n = n.factorial := by
  induction n with
  | zero => rfl
  | succ n ih => simp [fact, ih, Nat.factorial_succ]

theorem fact_pos (n : ℕ) : 0 < fact n := by rw [fact_eq]; exact Nat.factorial_pos n

/-- core `foldl` sum = Finset sum -/
theorem sumL_map_range (f : ℕ → ℚ) (n : ℕ) : sumL ((List.range n).map f) = ∑ i ∈ range n, f i := by
  have gen : ∀ (l : List ℚ) (a : ℚ), l.foldl (· + ·) a = a + l.sum := by
    intro l
    induction l with
    | nil => intro a; simp
    | cons x xs ih => intro a; simp only [List.foldl_cons, List.sum_cons, ih]; ring
  unfold sumL
  rw [gen, zero_add]
  induction n with
  | zero => simp
  | succ n ih => rw [List.range_succ, List.map_append, List.sum_append, ih, Finset.sum_range_succ]; simp

theorem any_range_iff (p : ℕ → Bool) (n : ℕ) : (List.range n).any p = true ↔ ∃ i < n, p i = true := by
  simp [List.any_eq_true, List.mem_range]

theorem mapM_option_eq {α β : Type} (f : α → Option β) (g : α → β) (l : List α) (h : ∀ a ∈ l, f a = some (g a)) :
    l.mapM f = some (l.map g) := by
  induction l with
  | nil => rfl
  | cons a t ih =>
    simp only [List.mapM_cons, List.map_cons]
    rw [h a (by simp), ih (fun b hb => h b (by simp [hb]))]
    rfl

/-- ratio of factorials = hypergeometric weight (the content of `exp(lncomb + lncomb − lncomb)`) -/
theorem fact_ratio (m n i j : ℕ) (_hm : m ≤ n) (hi : i ≤ n) (hj : j ≤ m) (hji : j ≤ i) (hw : i - j ≤ n - m) :
    ((m.factorial * (n - m).factorial * (i.factorial * (n - i).factorial) : ℕ) : ℚ)
      / ((j.factorial * (m - j).factorial * ((i - j).factorial * ((n - m) - (i - j)).factorial) * n.factorial : ℕ) : ℚ)
      = hyp m n i j := by
  rw [hyp_of_le hji]
  have h1 := Nat.choose_mul_factorial_mul_factorial hj
  have h2 := Nat.choose_mul_factorial_mul_factorial hw
  have h3 := Nat.choose_mul_factorial_mul_factorial hi
  have p1 : (0:ℚ) < (j.factorial : ℚ) := by exact_mod_cast Nat.factorial_pos j
  have p2 : (0:ℚ) < ((m - j).factorial : ℚ) := by exact_mod_cast Nat.factorial_pos _
  have p3 : (0:ℚ) < ((i - j).factorial : ℚ) := by exact_mod_cast Nat.factorial_pos _
  have p4 : (0:ℚ) < (((n - m) - (i - j)).factorial : ℚ) := by exact_mod_cast Nat.factorial_pos _
  have p5 : (0:ℚ) < (n.factorial : ℚ) := by exact_mod_cast Nat.factorial_pos _
  have p6 : (0:ℚ) < ((n.choose i : ℕ) : ℚ) := by exact_mod_cast Nat.choose_pos hi
  have q1 : ((m.choose j : ℕ) : ℚ) * j.factorial * (m - j).factorial = m.factorial := by exact_mod_cast h1
  have q2 : (((n - m).choose (i - j) : ℕ) : ℚ) * (i - j).factorial * ((n - m) - (i - j)).factorial = (n - m).factorial := by
    exact_mod_cast h2
  have q3 : ((n.choose i : ℕ) : ℚ) * i.factorial * (n - i).factorial = n.factorial := by exact_mod_cast h3
  push_cast
  rw [div_eq_div_iff (by positivity) (by positivity)]
  rw [← q1, ← q2, ← q3]
  ring

/-- **T tie, weights**: evaluating the generated log-space expression gives the hypergeometric weight
    on the whole row (and exact zeros, through the gammaln poles, outside the support). -/
theorem projWeight?_eq (m n i j : ℕ) (hm : m ≤ n) (hi : i ≤ n) (hj : j ≤ m) :
    projWeight? m n i j = some (hyp m n i j) := by
  unfold projWeight? expLnGamma
  have hpos : (lncontrib (m:ℤ) (n:ℤ) (i:ℤ) (j:ℤ)).any (fun t => t.pos && lgPole t) = false := by
    simp only [lncontrib, lncomb, lgNeg, lgPole, List.map_cons, List.map_nil, List.cons_append, List.nil_append,
      List.any_cons, List.any_nil, Bool.not_true, Bool.not_false, Bool.true_and, Bool.false_and, Bool.or_false,
      Bool.false_or, Bool.or_eq_false_iff, decide_eq_false_iff_not]
    omega
  rw [hpos]
  simp only [Bool.false_eq_true, if_false]
  by_cases hwin : j ≤ i ∧ i - j ≤ n - m
  · obtain ⟨hji, hw⟩ := hwin
    have hneg : (lncontrib (m:ℤ) (n:ℤ) (i:ℤ) (j:ℤ)).any (fun t => !t.pos && lgPole t) = false := by
      simp only [lncontrib, lncomb, lgNeg, lgPole, List.map_cons, List.map_nil, List.cons_append, List.nil_append,
        List.any_cons, List.any_nil, Bool.not_true, Bool.not_false, Bool.true_and, Bool.false_and, Bool.or_false,
        Bool.false_or, Bool.or_eq_false_iff, decide_eq_false_iff_not]
      omega
    rw [hneg]
    simp only [Bool.false_eq_true, if_false]
    congr 1
    have e1 : ((m:ℤ) + 1 - 1).toNat = m := by omega
    have e2 : ((j:ℤ) + 1 - 1).toNat = j := by omega
    have e3 : ((m:ℤ) - j + 1 - 1).toNat = m - j := by omega
    have e4 : ((n:ℤ) - m + 1 - 1).toNat = n - m := by omega
    have e5 : ((i:ℤ) - j + 1 - 1).toNat = i - j := by omega
    have e6 : ((n:ℤ) - m - (i - j) + 1 - 1).toNat = (n - m) - (i - j) := by omega
    have e7 : ((n:ℤ) + 1 - 1).toNat = n := by omega
    have e8 : ((i:ℤ) + 1 - 1).toNat = i := by omega
    have e9 : ((n:ℤ) - i + 1 - 1).toNat = n - i := by omega
    simp only [lncontrib, lncomb, lgNeg, List.map_cons, List.map_nil, List.cons_append, List.nil_append, lgNum, lgDen,
      gammaInt, Bool.not_true, Bool.not_false, if_true, if_false, Bool.false_eq_true, e1, e2, e3, e4, e5, e6, e7, e8, e9,
      fact_eq, Nat.mul_one, Nat.one_mul]
    rw [← fact_ratio m n i j hm hi hj hji hw]
    congr 1
    · push_cast; ring
    · push_cast; ring
  · have hneg : (lncontrib (m:ℤ) (n:ℤ) (i:ℤ) (j:ℤ)).any (fun t => !t.pos && lgPole t) = true := by
      simp only [lncontrib, lncomb, lgNeg, lgPole, List.map_cons, List.map_nil, List.cons_append, List.nil_append,
        List.any_cons, List.any_nil, Bool.not_true, Bool.not_false, Bool.true_and, Bool.false_and, Bool.or_false,
        Bool.false_or, Bool.or_eq_true, decide_eq_true_eq]
      omega
    rw [hneg]
    simp only [if_true]
    have h0 : hyp m n i j = 0 := by
      by_contra hc
      exact hwin ((hyp_ne_zero_iff m n i j hm hi hj).mp hc)
    rw [h0]

theorem projW_eq (m n i j : ℕ) (hm : m ≤ n) (hi : i ≤ n) (hj : j ≤ m) : projW m n i j = hyp m n i j := by
  unfold projW; rw [projWeight?_eq m n i j hm hi hj]; rfl

/-- **T tie, window**: the generated `least ≤ j ≤ most` is the support of the weights -/
theorem inWindow_iff (m n i j : ℕ) (hm : m ≤ n) :
    inWindow m n i j = true ↔ (j ≤ i ∧ i - j ≤ n - m ∧ j ≤ m) := by
  unfold inWindow least most
  rw [Bool.and_eq_true, decide_eq_true_iff, decide_eq_true_iff]
  omega

theorem inWindow_iff_hyp (m n i j : ℕ) (hm : m ≤ n) (hi : i ≤ n) (hj : j ≤ m) :
    inWindow m n i j = true ↔ hyp m n i j ≠ 0 := by
  rw [inWindow_iff m n i j hm, hyp_ne_zero_iff m n i j hm hi hj]
  constructor
  · rintro ⟨a, b, _⟩; exact ⟨a, b⟩
  · rintro ⟨a, b⟩; exact ⟨a, b, hj⟩

theorem hitsCount_toNat (n : ℕ) : (hitsCount (n:ℤ)).toNat = n + 1 := by
  simp only [hitsCount]; omega

/-- the windowed accumulation of the code = the full hypergeometric sum -/
theorem projLineW_eq (w : ℕ → ℕ → ℚ) (m n : ℕ) (x : ℕ → ℚ) (j : ℕ) (hm : m ≤ n) (hj : j ≤ m)
    (hw : ∀ i ≤ n, w i j = hyp m n i j) :
    projLineW w m n x j = ∑ i ∈ range (n+1), x i * hyp m n i j := by
  unfold projLineW
  rw [hitsCount_toNat, sumL_map_range]
  refine Finset.sum_congr rfl (fun i hi => ?_)
  have hi' : i ≤ n := by simp at hi; omega
  by_cases hwin : inWindow m n i j = true
  · rw [if_pos hwin, hw i hi']
  · rw [if_neg hwin]
    have : hyp m n i j = 0 := by
      by_contra hc
      exact hwin ((inWindow_iff_hyp m n i j hm hi' hj).mpr hc)
    rw [this, mul_zero]

theorem projLineData_eq (m n : ℕ) (x : ℕ → ℚ) (j : ℕ) (hm : m ≤ n) (hj : j ≤ m) :
    projLineData m n x j = ∑ i ∈ range (n+1), x i * hyp m n i j :=
  projLineW_eq (projW m n) m n x j hm hj (fun i hi => projW_eq m n i j hm hi hj)

/-- the per-axis weight table of the driver returns the same weights -/
theorem tableW_eq (m n i j : ℕ) (hi : i ≤ n) (hj : j ≤ m) : tableW (weightTable m n) i j = projW m n i j := by
  unfold tableW weightTable
  have h1 : i < n + 1 := by omega
  have h2 : j < m + 1 := by omega
  simp [Array.getD, h1, h2]

theorem projLineMask_iff (m n : ℕ) (b : ℕ → Bool) (j : ℕ) (hm : m ≤ n) (hj : j ≤ m) :
    projLineMask m n b j = true ↔ ∃ i ≤ n, b i = true ∧ hyp m n i j ≠ 0 := by
  unfold projLineMask
  rw [hitsCount_toNat, any_range_iff]
  constructor
  · rintro ⟨i, hi, h⟩
    rw [Bool.and_eq_true] at h
    have hi' : i ≤ n := by omega
    exact ⟨i, hi', h.2, (inWindow_iff_hyp m n i j hm hi' hj).mp h.1⟩
  · rintro ⟨i, hi, hb, hh⟩
    refine ⟨i, by omega, ?_⟩
    rw [Bool.and_eq_true]
    exact ⟨(inWindow_iff_hyp m n i j hm hi hj).mpr hh, hb⟩

/-! ### tabulated arrays: `ofFn` followed by `get` inside the box -/

/-- `idx` is a valid multi-index of the box `shape` -/
def InBox (shape idx : List ℕ) : Prop := List.Forall₂ (fun i s => i < s) idx shape

theorem flatIdx_lt : ∀ (sh idx : List ℕ), InBox sh idx → flatIdx sh idx < prodL sh := by
  intro sh idx h
  induction h with
  | nil => simp [flatIdx, prodL]
  | @cons i s is ss his _ ih =>
    simp only [flatIdx, prodL]
    calc i * prodL ss + flatIdx ss is < i * prodL ss + prodL ss := by omega
      _ = (i + 1) * prodL ss := by ring
      _ ≤ s * prodL ss := Nat.mul_le_mul_right _ his

theorem unflat_flatIdx : ∀ (sh idx : List ℕ), InBox sh idx → unflat sh (flatIdx sh idx) = idx := by
  intro sh idx h
  induction h with
  | nil => simp [unflat]
  | @cons i s is ss his hrest ih =>
    have hr := flatIdx_lt ss is hrest
    have hP : 0 < prodL ss := by omega
    simp only [flatIdx, unflat]
    have e1 : (i * prodL ss + flatIdx ss is) / prodL ss = i := by
      rw [Nat.add_comm, Nat.add_mul_div_right _ _ hP, Nat.div_eq_of_lt hr, zero_add]
    have e2 : (i * prodL ss + flatIdx ss is) % prodL ss = flatIdx ss is := by
      rw [Nat.add_comm, Nat.add_mul_mod_self_right, Nat.mod_eq_of_lt hr]
    rw [e1, e2, ih]

theorem Spec.ofFn_getD (sh : List ℕ) (f : List ℕ → ℚ) (g : List ℕ → Bool) (fl : Bool) (idx : List ℕ) (h : InBox sh idx) :
    (Spec.ofFn sh f g fl).getD idx = f idx := by
  have hlt := flatIdx_lt sh idx h
  simp [Spec.getD, Spec.ofFn, Array.getD, hlt, unflat_flatIdx sh idx h]

theorem Spec.ofFn_getM (sh : List ℕ) (f : List ℕ → ℚ) (g : List ℕ → Bool) (fl : Bool) (idx : List ℕ) (h : InBox sh idx) :
    (Spec.ofFn sh f g fl).getM idx = g idx := by
  have hlt := flatIdx_lt sh idx h
  simp [Spec.getM, Spec.ofFn, Array.getD, hlt, unflat_flatIdx sh idx h]

/-- component `k` of a valid multi-index is below the extent of axis `k` -/
theorem InBox.getD_lt {sh idx : List ℕ} (h : InBox sh idx) (k : ℕ) (hk : k < sh.length) : idx.getD k 0 < sh.getD k 0 := by
  unfold InBox at h
  rw [List.forall₂_iff_get] at h
  obtain ⟨hl, hget⟩ := h
  have hk' : k < idx.length := by omega
  have := hget k hk' hk
  simpa [List.getD_eq_getElem?_getD, hk, hk'] using this

end DadiVerif
