import DadiVerif.Lemmas.FromPhiND
import Mathlib.Data.List.Sort
import Mathlib.Data.List.Perm.Basic
/-! C05 — `Spectrum.marginalize(over)`: several populations, listed in any order.

    * the generated iteration order (`margSumOrder`, read off the source) is a permutation of `over` sorted in descending
      order, hence the same for every listing of the same populations, and a *valid* sequence of axis numbers (each one
      exists in the array left by the previous sums) whenever `over` lists distinct populations of the spectrum;
    * the array loop `margLoop` is the pointwise iterated sum `margFn` (entry by entry);
    * summing a sampled spectrum over a valid sequence of axes = sampling the density with those axes integrated out, for any
      list of linear line operators with a mass law (`sampleND_margFn`, iterating `sampleND_marginal`). -/
namespace DadiVerif.FromPhi
open Finset Gen.FromPhi

/-! ### the order of the loop -/

theorem sortNat_perm (l : List ℕ) : (sortNat l).Perm l := List.mergeSort_perm l _

theorem sortNat_sorted (l : List ℕ) : (sortNat l).Pairwise (· ≤ ·) := by
  have h := List.pairwise_mergeSort (le := fun a b : ℕ => decide (a ≤ b))
    (fun a b c hab hbc => by simp only [decide_eq_true_eq] at *; omega)
    (fun a b => by simp only [Bool.or_eq_true, decide_eq_true_eq]; omega) l
  exact h.imp (fun hab => by simpa using hab)

/-- descending: every element is ≥ all later ones -/
def Desc (l : List ℕ) : Prop := l.Pairwise (· ≥ ·)

theorem desc_eq_of_perm {l₁ l₂ : List ℕ} (hp : l₁.Perm l₂) (h₁ : Desc l₁) (h₂ : Desc l₂) : l₁ = l₂ :=
  List.Perm.eq_of_pairwise (fun _ _ _ _ hab hba => Nat.le_antisymm hba hab) h₁ h₂ hp

theorem sortNat_reverse_desc (l : List ℕ) : Desc (sortNat l).reverse := by
  unfold Desc
  rw [List.pairwise_reverse]
  exact (sortNat_sorted l).imp (fun h => h)

/-- a sequence of axis numbers that can be summed out one after the other of an m-dimensional array -/
def ValidSeq : List ℕ → ℕ → Prop
  | [], _ => True
  | a :: as, m => a < m ∧ ValidSeq as (m - 1)

theorem validSeq_of_desc : ∀ (l : List ℕ) (m : ℕ), l.Pairwise (· > ·) → (∀ a ∈ l, a < m) → ValidSeq l m := by
  intro l
  induction l with
  | nil => intro m _ _; trivial
  | cons a as ih =>
    intro m hp hm
    rw [List.pairwise_cons] at hp
    refine ⟨hm a (List.mem_cons_self ..), ih (m - 1) hp.2 ?_⟩
    intro b hb
    have h1 := hp.1 b hb
    have h2 := hm a (List.mem_cons_self ..)
    omega

theorem desc_nodup_strict {l : List ℕ} (hd : Desc l) (hn : l.Nodup) : l.Pairwise (· > ·) := by
  unfold Desc at hd
  rw [List.nodup_iff_pairwise_ne] at hn
  exact (hd.and hn).imp (fun h => by omega)

/-! ### positions removed from a list -/

/-- remove the listed positions one after the other (each number refers to the list left by the previous removals) -/
def eraseAll {α : Type} : List ℕ → List α → List α
  | [], l => l
  | a :: as, l => eraseAll as (l.eraseIdx a)

theorem eraseAll_length {α : Type} : ∀ (as : List ℕ) (l : List α), ValidSeq as l.length → (eraseAll as l).length + as.length = l.length := by
  intro as
  induction as with
  | nil => intro l _; simp [eraseAll]
  | cons a as ih =>
    intro l h
    obtain ⟨ha, hv⟩ := h
    have hl : (l.eraseIdx a).length = l.length - 1 := List.length_eraseIdx_of_lt ha
    have := ih (l.eraseIdx a) (by rw [hl]; exact hv)
    simp only [eraseAll, List.length_cons]
    omega

theorem eraseAll_map {α β : Type} (f : α → β) : ∀ (as : List ℕ) (l : List α), eraseAll as (l.map f) = (eraseAll as l).map f := by
  intro as
  induction as with
  | nil => intro l; rfl
  | cons a as ih => intro l; simp only [eraseAll, List.eraseIdx_map, ih]

theorem eraseIdx_zip {α β : Type} : ∀ (a : ℕ) (l : List α) (l' : List β), (l.zip l').eraseIdx a = (l.eraseIdx a).zip (l'.eraseIdx a) := by
  intro a
  induction a with
  | zero =>
    intro l l'
    cases l with
    | nil => simp
    | cons x l => cases l' with
      | nil => simp
      | cons y l' => simp
  | succ a ih =>
    intro l l'
    cases l with
    | nil => simp
    | cons x l => cases l' with
      | nil => simp
      | cons y l' => simp [ih l l']

/-! ### multi-indices -/

theorem InBox.length_eq {sh idx : List ℕ} (h : InBox sh idx) : idx.length = sh.length := List.Forall₂.length_eq h

theorem InBox_insertIdx : ∀ (a : ℕ) (sh idx : List ℕ) (i : ℕ), a < sh.length → InBox (sh.eraseIdx a) idx → i < sh.getD a 0 →
    InBox sh (idx.insertIdx a i) := by
  intro a
  induction a with
  | zero =>
    intro sh idx i ha h hi
    cases sh with
    | nil => simp at ha
    | cons s ss =>
      simp only [List.eraseIdx_cons_zero] at h
      simp only [List.getD_cons_zero] at hi
      simp only [List.insertIdx_zero]
      exact List.Forall₂.cons hi h
  | succ a ih =>
    intro sh idx i ha h hi
    cases sh with
    | nil => simp at ha
    | cons s ss =>
      simp only [List.eraseIdx_cons_succ] at h
      simp only [List.getD_cons_succ] at hi
      cases h with
      | @cons j _ js _ hj hjs =>
        simp only [List.insertIdx_succ_cons]
        exact List.Forall₂.cons hj (ih ss js i (by simpa using ha) hjs hi)

/-! ### the iterated sum, pointwise, and the array loop -/

/-- `for a in as: f = f.sum(axis=a)` pointwise; `sh` is the shape of the array `f` tabulates -/
def margFn : List ℕ → List ℕ → (List ℕ → ℚ) → (List ℕ → ℚ)
  | [], _, f => f
  | a :: as, sh, f => margFn as (sh.eraseIdx a) (sumAxisFn (sh.getD a 0) a f)

theorem sumAxisFn_eq (n a : ℕ) (f : List ℕ → ℚ) (idx : List ℕ) :
    sumAxisFn n a f idx = ∑ i ∈ range n, f (idx.insertIdx a i) := by
  unfold sumAxisFn; rw [sumRange_eq]

/-- the iterated sum reads the array only inside its box -/
theorem margFn_congr : ∀ (as sh : List ℕ) (f g : List ℕ → ℚ), ValidSeq as sh.length → (∀ idx, InBox sh idx → f idx = g idx) →
    ∀ jdx, InBox (eraseAll as sh) jdx → margFn as sh f jdx = margFn as sh g jdx := by
  intro as
  induction as with
  | nil => intro sh f g _ h jdx hj; exact h jdx hj
  | cons a as ih =>
    intro sh f g hv h jdx hj
    obtain ⟨ha, hv'⟩ := hv
    have hl : (sh.eraseIdx a).length = sh.length - 1 := List.length_eraseIdx_of_lt ha
    simp only [margFn]
    apply ih (sh.eraseIdx a) _ _ (by rw [hl]; exact hv') _ jdx hj
    intro idx hidx
    rw [sumAxisFn_eq, sumAxisFn_eq]
    apply Finset.sum_congr rfl
    intro i hi
    exact h _ (InBox_insertIdx a sh idx i ha hidx (Finset.mem_range.mp hi))

/-- **the array loop is the pointwise iterated sum**: for a valid sequence of axes `margLoop` succeeds, removes exactly those
    positions from the shape, and its entries are `margFn` of the entries of the input -/
theorem margLoop_get : ∀ (as : List ℕ) (T : ND), ValidSeq as T.shape.length →
    ∃ R, margLoop as T = .ok R ∧ R.shape = eraseAll as T.shape ∧
      ∀ jdx, InBox R.shape jdx → R.get jdx = margFn as T.shape T.get jdx := by
  intro as
  induction as with
  | nil => intro T _; exact ⟨T, rfl, rfl, fun _ _ => rfl⟩
  | cons a as ih =>
    intro T hv
    obtain ⟨ha, hv'⟩ := hv
    have hshape : (sumAxis T a).shape = T.shape.eraseIdx a := rfl
    have hl : (T.shape.eraseIdx a).length = T.shape.length - 1 := List.length_eraseIdx_of_lt ha
    obtain ⟨R, hR, hRs, hRg⟩ := ih (sumAxis T a) (by rw [hshape, hl]; exact hv')
    refine ⟨R, ?_, ?_, ?_⟩
    · simp only [margLoop, if_pos ha]; exact hR
    · rw [hRs, hshape]; rfl
    · intro jdx hj
      rw [hRg jdx hj, hshape]
      simp only [margFn]
      apply margFn_congr as _ _ _ (by rw [hl]; exact hv')
      · intro idx hidx
        unfold sumAxis
        rw [get_ofFn _ _ _ hidx]
      · rw [hRs, hshape] at hj; exact hj

/-- an axis sequence the loop rejects: the model reports numpy's error -/
theorem margLoop_error (a : ℕ) (as : List ℕ) (T : ND) (h : ¬ a < T.shape.length) : margLoop (a :: as) T = .error "AxisError" := by
  simp [margLoop, h]

/-! ### marginalising a sampled spectrum over several axes -/

theorem set_insertIdx_self : ∀ (a : ℕ) (l : List ℕ) (x y : ℕ), a ≤ l.length → (l.insertIdx a x).set a y = l.insertIdx a y := by
  intro a
  induction a with
  | zero => intro l x y _; simp
  | succ a ih =>
    intro l x y h
    cases l with
    | nil => simp at h
    | cons b l => simp only [List.insertIdx_succ_cons, List.set_cons_succ, ih l x y (by simpa using h)]

/-- `sampleND_marginal` with the summed axis written as an insertion into the multi-index of the result -/
theorem sampleND_marginal_ins (ops : List LineOp) (hlin : ∀ o ∈ ops, o.Linear) (a : ℕ) (op : LineOp) (w : ℕ → ℚ)
    (hget : ops[a]? = some op) (hm : op.Mass w) (φ : List ℕ → ℚ) (jdx : List ℕ) (ha : a ≤ jdx.length) :
    ∑ i ∈ range op.nOut, sampleND ops φ (jdx.insertIdx a i)
      = sampleND (ops.eraseIdx a) (fun js => ∑ k ∈ range op.nIn, w k * φ (js.insertIdx a k)) jdx := by
  have hlen : a < (jdx.insertIdx a 0).length := by rw [List.length_insertIdx_of_le_length ha]; omega
  have key := sampleND_marginal ops hlin a op w hget hm φ (jdx.insertIdx a 0) hlen
  rw [List.eraseIdx_insertIdx_self] at key
  rw [← key]
  exact Finset.sum_congr rfl fun i _ => by rw [set_insertIdx_self a jdx 0 i ha]

/-- the density with the listed axes integrated out one after the other with the node weights `ws` (number of grid points,
    weight per node) -/
def margPhi : List ℕ → List (ℕ × (ℕ → ℚ)) → (List ℕ → ℚ) → (List ℕ → ℚ)
  | [], _, φ => φ
  | a :: as, ws, φ =>
    margPhi as (ws.eraseIdx a)
      (fun js => ∑ k ∈ range (ws.getD a (0, fun _ => 0)).1, (ws.getD a (0, fun _ => 0)).2 k * φ (js.insertIdx a k))

/-- **summing a sampled spectrum over a valid sequence of axes = sampling the density integrated over those axes**, for any
    linear line operators with a mass law -/
theorem sampleND_margFn : ∀ (as : List ℕ) (ops : List LineOp) (ws : List (ℕ → ℚ)), (∀ o ∈ ops, o.Linear) → ops.length = ws.length →
    (∀ p ∈ ops.zip ws, p.1.Mass p.2) → ValidSeq as ops.length → ∀ (φ : List ℕ → ℚ) (jdx : List ℕ),
    InBox (eraseAll as (ops.map (·.nOut))) jdx →
    margFn as (ops.map (·.nOut)) (sampleND ops φ) jdx
      = sampleND (eraseAll as ops) (margPhi as ((ops.map (·.nIn)).zip ws) φ) jdx := by
  intro as
  induction as with
  | nil => intro ops ws _ _ _ _ φ jdx _; rfl
  | cons a as ih =>
    intro ops ws hlin hlen hmass hv φ jdx hj
    obtain ⟨ha, hv'⟩ := hv
    have haw : a < ws.length := by omega
    have hop : ops[a]? = some ops[a] := List.getElem?_eq_getElem ha
    have hzip : (ops[a], ws[a]) ∈ ops.zip ws := by
      have : (ops.zip ws)[a]? = some (ops[a], ws[a]) := by
        simp [ha, haw]
      exact List.mem_of_getElem? this
    have hm : ops[a].Mass ws[a] := hmass _ hzip
    have hl : ((ops.map (·.nOut)).eraseIdx a).length = (ops.map (·.nOut)).length - 1 :=
      List.length_eraseIdx_of_lt (by simpa using ha)
    have hl' : (ops.eraseIdx a).length = ops.length - 1 := List.length_eraseIdx_of_lt ha
    simp only [margFn, eraseAll]
    -- step 1: inside the box of the array left by the first sum, that sum is the sampling of the integrated density
    have step : ∀ idx, InBox ((ops.map (·.nOut)).eraseIdx a) idx →
        sumAxisFn ((ops.map (·.nOut)).getD a 0) a (sampleND ops φ) idx
          = sampleND (ops.eraseIdx a) (fun js => ∑ k ∈ range ops[a].nIn, ws[a] k * φ (js.insertIdx a k)) idx := by
      intro idx hidx
      have hn : (ops.map (·.nOut)).getD a 0 = ops[a].nOut := by
        simp [List.getD_eq_getElem?_getD, ha]
      rw [sumAxisFn_eq, hn]
      have hal : a ≤ idx.length := by
        have := hidx.length_eq
        rw [hl] at this
        simp only [List.length_map] at this
        omega
      exact sampleND_marginal_ins ops hlin a ops[a] ws[a] hop hm φ idx hal
    have hv'' : ValidSeq as ((ops.map (·.nOut)).eraseIdx a).length := by
      rw [hl]; simpa using hv'
    simp only [eraseAll] at hj
    rw [margFn_congr as _ _ _ hv'' step jdx hj]
    -- step 2: induction on the remaining axes
    have hlin' : ∀ o ∈ ops.eraseIdx a, o.Linear := fun o ho => hlin o (List.mem_of_mem_eraseIdx ho)
    have hlen' : (ops.eraseIdx a).length = (ws.eraseIdx a).length := by
      rw [hl', List.length_eraseIdx_of_lt haw, hlen]
    have hzip' : ∀ p ∈ (ops.eraseIdx a).zip (ws.eraseIdx a), p.1.Mass p.2 := by
      intro p hp
      rw [← eraseIdx_zip] at hp
      exact hmass p (List.mem_of_mem_eraseIdx hp)
    have hmap : (ops.eraseIdx a).map (·.nOut) = (ops.map (·.nOut)).eraseIdx a := by rw [List.eraseIdx_map]
    have := ih (ops.eraseIdx a) (ws.eraseIdx a) hlin' hlen' hzip' (by rw [hl']; exact hv')
      (fun js => ∑ k ∈ range ops[a].nIn, ws[a] k * φ (js.insertIdx a k)) jdx (by rw [hmap]; exact hj)
    rw [hmap] at this
    rw [this]
    -- the integrated density is `margPhi`'s first step
    have hw : ((ops.map (·.nIn)).zip ws).getD a (0, fun _ => 0) = (ops[a].nIn, ws[a]) := by
      simp [List.getD_eq_getElem?_getD, ha, haw]
    simp only [margPhi, hw]
    rw [eraseIdx_zip, List.eraseIdx_map]

/-! ### the whole of `marginalize` on a sampled spectrum -/

theorem delLoop_ok : ∀ (as ids : List ℕ), ValidSeq as ids.length → delLoop as ids = .ok (eraseAll as ids) := by
  intro as
  induction as with
  | nil => intro ids _; rfl
  | cons a as ih =>
    intro ids hv
    obtain ⟨ha, hv'⟩ := hv
    have hl : (ids.eraseIdx a).length = ids.length - 1 := List.length_eraseIdx_of_lt ha
    simp only [delLoop, if_pos ha, eraseAll]
    exact ih _ (by rw [hl]; exact hv')

/-- `marginalize(over)` applied to the array of a spectrum sampled with the operators `ops`, when the generated iteration
    order is a valid axis sequence (which `C05_marginalize_order` establishes for every listing of distinct populations):
    it succeeds, the labels left and the axes left are the same positions, and every entry is the spectrum sampled from the
    density integrated over the removed axes -/
theorem marginalize_sampled (ops : List LineOp) (ws : List (ℕ → ℚ)) (hlin : ∀ o ∈ ops, o.Linear) (hlen : ops.length = ws.length)
    (hmass : ∀ p ∈ ops.zip ws, p.1.Mass p.2) (over : List ℕ) (hv : ValidSeq (margSumOrder over) ops.length)
    (hids : margIdsOrder over = margSumOrder over) (φ : List ℕ → ℚ) (T : ND) (hTs : T.shape = ops.map (·.nOut))
    (hT : ∀ idx, InBox T.shape idx → T.get idx = sampleND ops φ idx) :
    ∃ R, marginalize over T = .ok (eraseAll (margSumOrder over) (List.range ops.length), R)
      ∧ R.shape = eraseAll (margSumOrder over) T.shape
      ∧ ∀ jdx, InBox R.shape jdx →
          R.get jdx = sampleND (eraseAll (margSumOrder over) ops)
                        (margPhi (margSumOrder over) ((ops.map (·.nIn)).zip ws) φ) jdx := by
  have hlT : T.shape.length = ops.length := by rw [hTs]; simp
  obtain ⟨R, hR, hRs, hRg⟩ := margLoop_get (margSumOrder over) T (by rw [hlT]; exact hv)
  refine ⟨R, ?_, hRs, ?_⟩
  · unfold marginalize
    rw [hR, hids, delLoop_ok _ _ (by simpa [hlT] using hv), hlT]
  · intro jdx hj
    rw [hRg jdx hj, margFn_congr _ _ _ _ (by rw [hlT]; exact hv) hT jdx (by rw [← hRs]; exact hj), hTs]
    exact sampleND_margFn _ ops ws hlin hlen hmass hv φ jdx (by rw [← hTs, ← hRs]; exact hj)

end DadiVerif.FromPhi
