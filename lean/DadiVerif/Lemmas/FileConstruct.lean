import DadiVerif.Lemmas.FileFormat
/-!
# C14: lemmas about the primitives the TRANSLATED constructor is made of

`Gen.FileIO.spectrumNew` / `maskCornersM` / `unmaskAllM` / `arrayFinalize` (Generated/FileIO.lean) are produced statement by
statement from `Spectrum.__new__`, `Spectrum.mask_corners`, `Spectrum.unmask_all`, `Spectrum.__array_finalize__` by
tools/gen_FileIO.py.  Props/C14.lean (`C14_new_*`, `C14_construct_translated`) proves the generated constructor equal to the
normal form `FileFormat.construct` on which the round-trip lemmas are stated.  This file holds what those proofs need about the
model-level primitives only (`setFlat`, `maskArgBits`, `zipWith (· || ·)`, `Obj.toSpec`); it mentions no generated definition.
-/
set_option linter.unusedVariables false
set_option linter.unusedSimpArgs false
namespace DadiVerif.FileFormat

theorem zipWith_or_replicate_false (l : List Bool) : List.zipWith (· || ·) (List.replicate l.length false) l = l := by
  induction l with
  | nil => rfl
  | cons a l ih => simp [List.replicate_succ, ih]

theorem zipWith_or_false_right (l : List Bool) : List.zipWith (· || ·) l (List.replicate l.length false) = l := by
  induction l with
  | nil => rfl
  | cons a l ih => simp [List.replicate_succ, ih]

theorem zipWith_or_replicate_false' (n : Nat) (l : List Bool) (h : l.length = n) :
    List.zipWith (· || ·) (List.replicate n false) l = l := by
  subst h; exact zipWith_or_replicate_false l

theorem zipWith_or_false_right' (n : Nat) (l : List Bool) (h : l.length = n) :
    List.zipWith (· || ·) l (List.replicate n false) = l := by
  subst h; exact zipWith_or_false_right l

/-- `mask.flat[0] = mask.flat[-1] = True` on a mask with at least one entry: the two corners -/
theorem setFlat_corners (m : List Bool) (h : m ≠ []) :
    (setFlat m 0 true).bind (fun t => setFlat t (-1) true) = some (maskCorners m) := by
  cases m with
  | nil => exact absurd rfl h
  | cons a l =>
    have h1 : setFlat (a :: l) 0 true = some (true :: l) := by
      simp [setFlat]
    rw [h1]
    simp only [Option.bind_some, setFlat, maskCorners, List.length_cons, List.set_cons_zero]
    have hneg : ((-1 : Int) < 0) := by decide
    simp only [hneg, if_true]
    have hj : (-1 : Int) + ((l.length + 1 : Nat) : Int) = (l.length : Int) := by push_cast; omega
    rw [hj]
    have hc : (0 : Int) ≤ (l.length : Int) ∧ (l.length : Int) < ((l.length + 1 : Nat) : Int) := by
      constructor <;> push_cast <;> omega
    simp only [hc, and_self, if_true, Int.toNat_natCast, Nat.add_sub_cancel]

/-- … and an IndexError on an array without entries -/
theorem setFlat_nil (i : Int) (v : Bool) : setFlat [] i v = none := by
  unfold setFlat
  by_cases h : i < 0 <;> simp [h]

/-- whichever way "every entry" is spelled: if the assignment goes through, every entry is set -/
theorem setAll_some (m : List Bool) (idx : SliceIdx) (v : Bool) (r : List Bool) (h : setAll m idx v = some r) :
    r = List.replicate m.length v := by
  cases idx <;> simp [setAll] at h <;> exact h.symm

theorem toSpec_mk (shape : List Nat) (data : List Str) (mask : List Bool) (fill : PyVal) (f : Bool)
    (p : Option (List Str)) (x : Option Str) (w : List Str) :
    Obj.toSpec { shape := shape, data := data, mask := mask, fillValue := fill, folded := some (.bool f),
                 popIds := some (labelsVal p), extrapX := some (numVal x), warnings := w }
      = some { shape := shape, data := data, mask := mask, folded := f, popIds := p, extrapX := x } := by
  cases p <;> cases x <;> rfl

/-- the typed view does not look at the warnings -/
theorem toSpec_warnings (o : Obj) (w : List Str) : Obj.toSpec { o with warnings := w } = Obj.toSpec o := rfl

/-! ## the stages of the constructor on untyped values

`ctorFoldedV` / `ctorPopV` say which VALUE the attribute gets (any Python value may be passed); composed with the typed view
(`asBool`, `asLabels`) they are the stages `ctorFolded` / `ctorPopIds` of the normal form. -/

/-- the value `subarr.folded` gets (`none` = ValueError: contradicts the folding status of `data`) -/
def ctorFoldedV (df : PyVal) (own : Option Spec) : Option PyVal :=
  match own with
  | none => some (if isNone df then .bool false else df)
  | some fs => if isNone df || pyEq df (.bool fs.folded) then some (.bool fs.folded) else none

/-- the value `subarr.pop_ids` gets and the warning logged (`none` = ValueError / TypeError) -/
def ctorPopV (p : PyVal) (own : Option Spec) (ndim : Nat) (msg : Str) : Option (PyVal × List Str) :=
  match own with
  | none => if isNone p then some (p, []) else (pyLen p).bind fun n => if n = ndim then some (p, []) else none
  | some fs =>
    if isNone p || pyEq p (labelsVal fs.popIds) then some (labelsVal fs.popIds, [])
    else (pyLen p).bind fun n => if n = ndim then some (p, [msg]) else none

theorem ctorFolded_of_V (df : PyVal) (own : Option Spec) :
    ctorFolded df own = (ctorFoldedV df own).bind fun fv => (truthy df).bind fun _ => asBool fv := by
  cases own with
  | none => cases df <;> simp [ctorFolded, ctorFoldedV, isNone, truthy, asBool]
  | some fs =>
    cases df <;> simp [ctorFolded, ctorFoldedV, isNone, truthy, asBool, pyEq]
    rename_i b
    by_cases h : b = fs.folded <;> simp [h]

theorem asLabels_labelsVal (p : Option (List Str)) : asLabels (labelsVal p) = some p := by cases p <;> rfl
theorem asNum_numVal (x : Option Str) : asNum (numVal x) = some x := by cases x <;> rfl

theorem ctorPopIds_of_V (p : PyVal) (own : Option Spec) (ndim : Nat) (msg : Str) :
    ctorPopIds p own ndim = (ctorPopV p own ndim msg).bind fun pv => asLabels pv.1 := by
  cases own with
  | none =>
    cases p <;> simp [ctorPopIds, ctorPopV, isNone, pyLen, asLabels]
    · rename_i l
      by_cases h : l.length = ndim <;> simp [h, asLabels]
    · rename_i s
      by_cases h : s.length = ndim <;> simp [h, asLabels]
  | some fs =>
    cases hp : fs.popIds with
    | none =>
      cases p <;> simp [ctorPopIds, ctorPopV, isNone, pyLen, asLabels, pyEq, labelsVal, hp]
      · rename_i l
        by_cases h : l.length = ndim <;> simp [h, asLabels]
      · rename_i s
        by_cases h : s.length = ndim <;> simp [h, asLabels]
    | some l' =>
      cases p <;> simp [ctorPopIds, ctorPopV, isNone, pyLen, asLabels, pyEq, labelsVal, hp]
      · rename_i l
        by_cases h : l' = l
        · subst h; simp [asLabels]
        · have h2 : ¬ l = l' := fun e => h e.symm
          simp [h, h2]
          by_cases hl : l.length = ndim <;> simp [hl, asLabels]
      · rename_i s
        by_cases h : s.length = ndim <;> simp [h, asLabels]

/-- the object after `asanyarray`, the `nomask` block, `masked_array(...)` and `.view(subtype)`: entries and shape of `data`, the
    mask `m`, fill value `t`; a plain array has `folded = 'unspecified'`, no labels, no `extrap_x` at this point, a Spectrum
    passed as `data` has handed its own on -/
def baseObj (shape : List Nat) (toks : List Str) (own : Option Spec) (m : List Bool) (t : Str) : Obj :=
  { shape := shape, data := toks, mask := m, fillValue := .num t,
    folded := some ((own.map fun fs => PyVal.bool fs.folded).getD (.str UNSPECIFIED)),
    popIds := some ((own.map fun fs => labelsVal fs.popIds).getD .none),
    extrapX := some ((own.map fun fs => numVal fs.extrapX).getD .none),
    warnings := [] }

/-- the warnings of the folding check (`m1`, `m2` = the two messages): entries whose index sum exceeds half the total sample
    size are "folded out"; with `check_folding`, a non-zero entry there and an unmasked entry there are each reported once -/
def foldingWarnings (m1 m2 : Str) (cf : Bool) (shape : List Nat) (data : List Str) (mask : List Bool) : List Str :=
  let wh := gtEach (idxSums shape) (intHalf (totalSamples shape))
  (if cf && !allZeroAt data wh then [m1] else []) ++ (if cf && !allTrueAt mask wh then [m2] else [])

theorem baseOf_cases (data : PyVal) (shape : List Nat) (toks : List Str) (own : Option Spec)
    (hb : baseOf data = some (shape, toks, own)) :
    (data = .arr shape toks ∧ own = none) ∨ (∃ fs, data = .spec fs ∧ own = some fs ∧ fs.mask.length = toks.length) := by
  cases data <;> simp [baseOf] at hb
  · obtain ⟨_, rfl, rfl, rfl⟩ := hb; exact Or.inl ⟨rfl, rfl⟩
  · obtain ⟨⟨h1, h2⟩, rfl, rfl, rfl⟩ := hb; exact Or.inr ⟨_, rfl, rfl, h2⟩

end DadiVerif.FileFormat
