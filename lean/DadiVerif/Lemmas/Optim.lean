import Mathlib.Tactic.Ring
import Mathlib.Tactic.Linarith
import Mathlib.Data.List.Basic
import DadiVerif.Model.Optim
/-! Helper lemmas for C12 (Props/C12.lean): the two projections, the bound loops of `_object_func`, runs of an arbitrary
    optimiser strategy.  All about the executable definitions of Model/Optim.lean and Generated/Optim.lean. -/
namespace DadiVerif.Optim
open Gen.Optim

theorem down_up (fixed : Fixed) : ∀ (free : List ℚ),
    free.length = nFree fixed → projectDown (projectUp free fixed) fixed = free := by
  induction fixed with
  | nil => intro free h; cases free <;> simp_all [projectUp, projectDown, nFree]
  | cons f fs ih =>
    intro free h
    cases f with
    | some v =>
      simp [projectUp, projectDown, upTakesFree, downKeeps]
      exact ih free (by simpa [nFree] using h)
    | none =>
      cases free with
      | nil => simp [nFree] at h
      | cons p ps =>
        simp [projectUp, projectDown, upTakesFree, downKeeps]
        exact ih ps (by simpa [nFree] using h)

theorem up_fixed (fixed : Fixed) : ∀ (free : List ℚ) (j : ℕ) (v : ℚ),
    fixed[j]? = some (some v) → (projectUp free fixed)[j]? = some v := by
  induction fixed with
  | nil => intro free j v h; simp at h
  | cons f fs ih =>
    intro free j v h
    cases j with
    | zero =>
      simp at h; subst h; simp [projectUp, upTakesFree]
    | succ k =>
      simp at h
      cases f with
      | some w => simp [projectUp, upTakesFree]; exact ih free k v h
      | none =>
        cases free with
        | nil => simp [projectUp, upTakesFree]; exact ih [] k v h
        | cons p ps => simp [projectUp, upTakesFree]; exact ih ps k v h

theorem up_length (fixed : Fixed) : ∀ (free : List ℚ), (projectUp free fixed).length = fixed.length := by
  induction fixed with
  | nil => intro free; simp [projectUp]
  | cons f fs ih =>
    intro free
    cases f with
    | some w => simp [projectUp, upTakesFree, ih]
    | none =>
      cases free with
      | nil => simp [projectUp, upTakesFree, ih]
      | cons p ps => simp [projectUp, upTakesFree, ih]

/-! ### element types: the typed projection / objective / run are the untyped ones PROVIDED the output array of
    `_project_params_up` keeps every value exactly (hypothesis `hs`; `Props/C12.lean` `C12_up_store` proves it from the generated
    `upOutDtype`, i.e. from the allocation statement of the current source) -/

theorem projectUpT_eq (hs : ∀ (dt : DType) (x : ℚ), (upOutDtype dt).store x = x) (dt : DType) (free : List ℚ) (fixed : Fixed) :
    projectUpT dt free fixed = projectUp free fixed := by
  have h : (upOutDtype dt).store = id := by funext x; exact hs dt x
  simp [projectUpT, h]

theorem projectUpTO_eq (hs : ∀ (dt : DType) (x : ℚ), (upOutDtype dt).store x = x) (dt : DType) (free : List ℚ) (fixed : Option Fixed) :
    projectUpTO dt free fixed = projectUpO free fixed := by
  cases fixed <;> simp [projectUpTO, projectUpO, projectUpT_eq hs]

theorem objectFuncT_eq (hs : ∀ (dt : DType) (x : ℚ), (upOutDtype dt).store x = x) (dt : DType) (lower upper : Option Bounds)
    (fixed : Option Fixed) (s : ℚ) (m : ModelFn) (params : List ℚ) :
    objectFuncT dt lower upper fixed s m params = objectFunc lower upper fixed s m params := by
  simp only [objectFuncT, objectFunc, projectUpTO_eq hs]

theorem evalVT_eq (hs : ∀ (dt : DType) (x : ℚ), (upOutDtype dt).store x = x) (dp da : DType) (expF logF : ℚ → ℚ) (pb : Problem)
    (xopt : List ℚ) : ∀ e : VE, evalVT dp da expF logF pb xopt e = evalV expF logF pb xopt e := by
  intro e
  induction e with
  | log e ih => simp [evalVT, evalV, ih]
  | exp e ih => simp [evalVT, evalV, ih]
  | down e ih => simp [evalVT, evalV, ih]
  | up e ih =>
    simp only [evalVT, evalV, ih]
    congr 1
    funext v
    exact projectUpTO_eq hs _ v pb.fixed
  | clip e lo hi ih _ _ => simp only [evalVT, evalV, ih]
  | _ => simp [evalVT, evalV]

theorem wrapperObjectiveT_eq (hs : ∀ (dt : DType) (x : ℚ), (upOutDtype dt).store x = x) (dq : DType) (w : Wrapper) (expF logF : ℚ → ℚ)
    (pb : Problem) (m : ModelFn) : wrapperObjectiveT dq w expF logF pb m = wrapperObjective w expF logF pb m := by
  funext x
  simp only [wrapperObjectiveT, wrapperObjective, objectFuncT_eq hs]

theorem runWrapperT_eq (hs : ∀ (dt : DType) (x : ℚ), (upOutDtype dt).store x = x) (dp dq da : DType) (w : Wrapper) (expF logF : ℚ → ℚ)
    (pb : Problem) (m : ModelFn) (opt : Opt) (fuel : ℕ) :
    runWrapperT dp dq da w expF logF pb m opt fuel = runWrapper w expF logF pb m opt fuel := by
  have hv : ∀ x, evalVT dp da expF logF pb x = evalV expF logF pb x := fun x => funext (evalVT_eq hs dp da expF logF pb x)
  simp only [runWrapperT, runWrapper, wrapperObjectiveT_eq hs, hv]

/-- `p0` with the fixed values written over it -/
def overwrite (full : List ℚ) (fixed : Fixed) : List ℚ := List.zipWith (fun p f => f.getD p) full fixed

theorem up_down (fixed : Fixed) : ∀ (full : List ℚ), full.length = fixed.length →
    projectUp (projectDown full fixed) fixed = overwrite full fixed := by
  induction fixed with
  | nil => intro full h; simp [projectUp, overwrite]
  | cons f fs ih =>
    intro full h
    cases full with
    | nil => simp at h
    | cons p ps =>
      have h' : ps.length = fs.length := by simpa using h
      cases f with
      | some w => simp [projectUp, projectDown, upTakesFree, downKeeps, overwrite]; exact ih ps h'
      | none => simp [projectUp, projectDown, upTakesFree, downKeeps, overwrite]; exact ih ps h'

/-- pointwise meaning of "inside the box" (entries without a bound, and entries beyond the shorter list, are free) -/
def AboveP (v : List ℚ) (lower : Option Bounds) : Prop :=
  ∀ bs, lower = some bs → ∀ (i : ℕ) (x b : ℚ), v[i]? = some x → bs[i]? = some (some b) → b ≤ x
def BelowP (v : List ℚ) (upper : Option Bounds) : Prop :=
  ∀ bs, upper = some bs → ∀ (i : ℕ) (x b : ℚ), v[i]? = some x → bs[i]? = some (some b) → x ≤ b
def InBoxP (lower upper : Option Bounds) (v : List ℚ) : Prop := AboveP v lower ∧ BelowP v upper

theorem zipAny_false_iff (viol : ℚ → Option ℚ → Bool) : ∀ (v : List ℚ) (bs : Bounds),
    (List.zipWith viol v bs).any id = false ↔
      ∀ (i : ℕ) (x : ℚ) (b : Option ℚ), v[i]? = some x → bs[i]? = some b → viol x b = false := by
  intro v
  induction v with
  | nil => intro bs; simp
  | cons x xs ih =>
    intro bs
    cases bs with
    | nil => simp
    | cons b bs' =>
      simp only [List.zipWith_cons_cons, List.any_cons, id, Bool.or_eq_false_iff, ih bs']
      constructor
      · rintro ⟨h0, hr⟩ i y c hy hc
        cases i with
        | zero => simp at hy hc; subst hy; subst hc; exact h0
        | succ k => simp at hy hc; exact hr k y c hy hc
      · intro h
        refine ⟨h 0 x b (by simp) (by simp), ?_⟩
        intro i y c hy hc
        exact h (i+1) y c (by simpa using hy) (by simpa using hc)

theorem lower_ok_iff (v : List ℚ) (lower : Option Bounds) :
    anyViolated lowerViolated v lower = false ↔ AboveP v lower := by
  cases lower with
  | none => simp [anyViolated, AboveP]
  | some bs =>
    simp only [anyViolated, zipAny_false_iff, AboveP, Option.some.injEq, forall_eq']
    constructor
    · intro h i x b hx hb
      have := h i x (some b) hx hb
      simpa [lowerViolated] using this
    · intro h i x b hx hb
      cases b with
      | none => simp [lowerViolated]
      | some c => simpa [lowerViolated] using h i x c hx hb

theorem upper_ok_iff (v : List ℚ) (upper : Option Bounds) :
    anyViolated upperViolated v upper = false ↔ BelowP v upper := by
  cases upper with
  | none => simp [anyViolated, BelowP]
  | some bs =>
    simp only [anyViolated, zipAny_false_iff, BelowP, Option.some.injEq, forall_eq']
    constructor
    · intro h i x b hx hb
      have := h i x (some b) hx hb
      simpa [upperViolated] using this
    · intro h i x b hx hb
      cases b with
      | none => simp [upperViolated]
      | some c => simpa [upperViolated] using h i x c hx hb

/-- `_object_func` calls the model only inside the box, and then exactly at the folded-in point -/
theorem objectFunc_eval (lower upper : Option Bounds) (fixed : Option Fixed) (s : ℚ) (m : ModelFn) (params pu : List ℚ)
    (h : (objectFunc lower upper fixed s m params).2 = some pu) :
    pu = projectUpO params fixed ∧ InBoxP lower upper pu := by
  by_cases h1 : anyViolated lowerViolated (projectUpO params fixed) lower = true
  · simp [objectFunc, h1] at h
  · by_cases h2 : anyViolated upperViolated (projectUpO params fixed) upper = true
    · simp [objectFunc, h1, h2] at h
    · simp [objectFunc, h1, h2] at h
      subst h
      exact ⟨rfl, (lower_ok_iff _ _).mp (by simpa using h1), (upper_ok_iff _ _).mp (by simpa using h2)⟩

theorem objectFunc_inside (lower upper : Option Bounds) (fixed : Option Fixed) (s : ℚ) (m : ModelFn) (params : List ℚ)
    (h : InBoxP lower upper (projectUpO params fixed)) :
    objectFunc lower upper fixed s m params =
      (objReturn ((m (projectUpO params fixed)).getD nanResult) s, some (projectUpO params fixed)) := by
  have h1 := (lower_ok_iff _ _).mpr h.1
  have h2 := (upper_ok_iff _ _).mpr h.2
  simp [objectFunc, h1, h2]

theorem objectFunc_outside (lower upper : Option Bounds) (fixed : Option Fixed) (s : ℚ) (m : ModelFn) (params : List ℚ)
    (h : ¬ InBoxP lower upper (projectUpO params fixed)) :
    objectFunc lower upper fixed s m params = (100000000 / s, none) := by
  unfold objectFunc
  simp only
  by_cases h1 : anyViolated lowerViolated (projectUpO params fixed) lower = true
  · simp [h1, oobReturnLower, outOfBoundsVal]
  · by_cases h2 : anyViolated upperViolated (projectUpO params fixed) upper = true
    · simp [h1, h2, oobReturnUpper, outOfBoundsVal]
    · exfalso; apply h
      exact ⟨(lower_ok_iff _ _).mp (by simpa using h1), (upper_ok_iff _ _).mp (by simpa using h2)⟩

/-! ## runs of an arbitrary strategy -/

theorem runOpt_evals (obj : List ℚ → ℚ × Option (List ℚ)) (strat : Strategy) (P : List ℚ → Prop)
    (hP : ∀ x e, (obj x).2 = some e → P e) :
    ∀ (n : ℕ) (h : History), ∀ e ∈ (runOpt obj strat n h).evals, P e := by
  intro n
  induction n with
  | zero => intro h e he; simp [runOpt] at he
  | succ k ih =>
    intro h e he
    unfold runOpt at he
    cases hs : strat h with
    | stop x f => simp [hs] at he
    | query x =>
      simp only [hs, List.mem_append] at he
      rcases he with he | he
      · cases ho : (obj x).2 with
        | none => simp [ho] at he
        | some e' =>
          simp [ho] at he; rw [he]; exact hP x e' ho
      · exact ih _ e he

/-- every recorded value is the objective's value at the recorded query -/
theorem runOpt_history (obj : List ℚ → ℚ × Option (List ℚ)) (strat : Strategy) :
    ∀ (n : ℕ) (h : History), ∀ q ∈ (runOpt obj strat n h).history, q.2 = (obj q.1).1 := by
  intro n
  induction n with
  | zero => intro h q hq; simp [runOpt] at hq
  | succ k ih =>
    intro h q hq
    unfold runOpt at hq
    cases hs : strat h with
    | stop x f => simp [hs] at hq
    | query x =>
      simp only [hs, List.mem_cons] at hq
      rcases hq with hq | hq
      · subst hq; rfl
      · exact ih _ q hq

theorem runOpt_first (obj : List ℚ → ℚ × Option (List ℚ)) (strat : Strategy) (n : ℕ) (h : History) (x : List ℚ)
    (hs : strat h = .query x) :
    (runOpt obj strat (n + 1) h).history.head? = some (x, (obj x).1) ∧
    ∀ e, (obj x).2 = some e → (runOpt obj strat (n + 1) h).evals.head? = some e := by
  unfold runOpt
  simp only [hs]
  refine ⟨by simp, ?_⟩
  intro e he
  simp [he]


/-! ## the executable clause tests of `checkTrace` mean what the theorems say -/

theorem zipAll_iff (ok : ℚ → Option ℚ → Bool) : ∀ (v : List ℚ) (bs : Bounds),
    (List.zipWith ok v bs).all id = true ↔
      ∀ (i : ℕ) (x : ℚ) (b : Option ℚ), v[i]? = some x → bs[i]? = some b → ok x b = true := by
  intro v
  induction v with
  | nil => intro bs; simp
  | cons x xs ih =>
    intro bs
    cases bs with
    | nil => simp
    | cons b bs' =>
      simp only [List.zipWith_cons_cons, List.all_cons, id, Bool.and_eq_true, ih bs']
      constructor
      · rintro ⟨h0, hr⟩ i y c hy hc
        cases i with
        | zero => simp at hy hc; subst hy; subst hc; exact h0
        | succ k => simp at hy hc; exact hr k y c hy hc
      · intro h
        refine ⟨h 0 x b (by simp) (by simp), ?_⟩
        intro i y c hy hc
        exact h (i+1) y c (by simpa using hy) (by simpa using hc)

theorem geTol_zero (v b : ℚ) : geTol 0 v b = true ↔ b ≤ v := by simp [geTol]

/-- the executable box test of `checkTrace` at tolerance 0 is the pointwise box of the theorems -/
theorem inBox_zero_iff (pb : Problem) (v : List ℚ) : inBox 0 pb v = true ↔ InBoxP pb.lower pb.upper v := by
  have ha : aboveAll 0 v pb.lower = true ↔ AboveP v pb.lower := by
    cases h : pb.lower with
    | none => simp [aboveAll, AboveP]
    | some bs =>
      simp only [aboveAll, AboveP, Option.some.injEq, forall_eq']
      rw [zipAll_iff (geOpt 0)]
      constructor
      · intro hh i x b hx hb
        have := hh i x (some b) hx hb
        simpa [geOpt, leOpt, geTol_zero] using this
      · intro hh i x b hx hb
        cases b with
        | none => rfl
        | some c => simpa [geOpt, leOpt, geTol_zero] using hh i x c hx hb
  have hb : belowAll 0 v pb.upper = true ↔ BelowP v pb.upper := by
    cases h : pb.upper with
    | none => simp [belowAll, BelowP]
    | some bs =>
      simp only [belowAll, BelowP, Option.some.injEq, forall_eq']
      rw [zipAll_iff (leOpt 0)]
      constructor
      · intro hh i x b hx hb
        have := hh i x (some b) hx hb
        simpa [geOpt, leOpt, geTol_zero] using this
      · intro hh i x b hx hb
        cases b with
        | none => rfl
        | some c => simpa [geOpt, leOpt, geTol_zero] using hh i x c hx hb
  simp only [inBox, InBoxP, Bool.and_eq_true, ha, hb]


/-- the executable fixed-value test of `checkTrace` is the pointwise statement (plus: full length) -/
theorem fixedOk_iff (fx : Fixed) (v : List ℚ) :
    fixedOk (some fx) v = true ↔ v.length = fx.length ∧ ∀ (j : ℕ) (c : ℚ), fx[j]? = some (some c) → v[j]? = some c := by
  simp only [fixedOk, Bool.and_eq_true, beq_iff_eq, zipAll_iff eqOpt]
  constructor
  · rintro ⟨hl, hz⟩
    refine ⟨hl, ?_⟩
    intro j c hj
    have hjl : j < fx.length := (List.getElem?_eq_some_iff.mp hj).1
    have hv : v[j]? = some v[j] := List.getElem?_eq_getElem (by omega)
    have := hz j v[j] (some c) hv hj
    simp only [eqOpt, beq_iff_eq] at this
    rw [hv, this]
  · rintro ⟨hl, hp⟩
    refine ⟨hl, ?_⟩
    intro i x b hx hb
    cases b with
    | none => rfl
    | some c =>
      have := hp i c hb
      rw [hx] at this
      simp only [Option.some.injEq] at this
      simp [eqOpt, this]

/-! ## decidable well-formedness flags of a generated wrapper row -/

/-- the objective bounds of a wrapper are the caller's, or absent -/
def Wrapper.objBoundsOk (w : Wrapper) : Bool :=
  (w.objLower == none || w.objLower == some .lower) && (w.objUpper == none || w.objUpper == some .upper)

/-- the returned vector is assembled by `_project_params_up` in every wrapper of the current source … -/
def Wrapper.resultIsUp (w : Wrapper) : Bool := match w.result with | .up _ => true | _ => false

/-- a bound expression that went through `_project_params_down` (so that it lines up with the contracted start vector) -/
def VE.isProjected : VE → Bool
  | .down _ => true
  | .log e => e.isProjected
  | .exp e => e.isProjected
  | .nanToNone e => e.isProjected
  | .noneToInf e => e.isProjected
  | .maxConst e _ => e.isProjected
  | _ => false

/-- the start handed to the optimiser is the contracted `p0`, in the parameterisation of the objective -/
def Wrapper.startOk (w : Wrapper) : Bool := w.start == some (if w.objLog then .log (.down .p0) else .down .p0)

/-- the returned vector is the expanded, un-transformed optimiser answer, and the reported value is the optimiser's -/
def Wrapper.resultOk (w : Wrapper) : Bool :=
  w.result == (if w.objLog then .up (.exp .xopt) else .up .xopt) && w.reportsFopt

/-- a wrapper row around an enumeration of its whole search grid: no start, no bounds anywhere (the grid IS the box), natural
    parameters, `fixed_params` handed on -/
def Wrapper.gridOk (w : Wrapper) : Bool :=
  w.start == none && w.optLower == none && w.optUpper == none && w.objLower == none && w.objUpper == none &&
  w.objFixed && !w.objLog && !w.negated && w.resultOk

/-- the call of `_object_func` forwards the wrapper's own options by NAME: `sig` = parameters of `_object_func` after `params`,
    `req` = those without a default -/
def ObjCall.forwardsOk (sig req : List String) (c : ObjCall) : Bool :=
  -- only parameters `_object_func` has, each at most once, the required ones all given
  c.binding.all (fun pa => sig.contains pa.1) && (c.binding.map (·.1)).eraseDups.length == c.binding.length &&
  req.all (fun r => c.binding.any (·.1 == r)) &&
  -- an own option that `_object_func` also has is never handed to a parameter of ANOTHER name …
  c.binding.all (fun pa => !(c.own.contains pa.2 && sig.contains pa.2) || pa.1 == pa.2) &&
  -- … and is handed to the parameter of its own name (the two bound lists may be withheld — `None` or left at the default `None` —
  -- when the wrapper gives them to its optimiser instead)
  c.own.all (fun o => !(sig.contains o) || c.binding.contains (o, o) ||
    ((o == "lower_bound" || o == "upper_bound") && (c.binding.contains (o, "None") || !(c.binding.any (·.1 == o)))))

/-- what the model row uses of the call is what the binding says, looked up by parameter name -/
def rowMatchesCall (w : Wrapper) (c : ObjCall) : Bool :=
  w.name == c.wrapper &&
  w.objFixed == c.binding.contains ("fixed_params", "fixed_params") &&
  w.objLlScale == c.binding.contains ("ll_scale", "ll_scale") &&
  (w.objLower.isSome == (c.binding.contains ("lower_bound", "lower_bound") || c.binding.contains ("lower_bound", "upper_bound"))) &&
  (w.objUpper.isSome == (c.binding.contains ("upper_bound", "upper_bound") || c.binding.contains ("upper_bound", "lower_bound")))

end DadiVerif.Optim
