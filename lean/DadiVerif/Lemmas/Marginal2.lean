import DadiVerif.Lemmas.Marginal
import DadiVerif.Lemmas.Sweep
import Mathlib.Tactic.IntervalCases
import Mathlib.Algebra.BigOperators.Fin
/-!
# Isolated marginals (C04), part 2: mutation injection (Theorem C)

* `injectAmt_drop` / `injectAmt_eraseIdx`: the algebraic core, for the *generated* increments `Py.inject{d}D_k`, d ≤ 5:
  (increment of population k in the (d+1)-system) × (trapezoid weight x_p[1]/2 of node 0 of a removed population p)
  = increment of population k in the d-system without p.  Removing several populations = iterating.
* `marginal_2D_pop0_step` / `marginal_2D_pop0_integrate`: everything put together (Theorems A–D) for d = 2, S = {population 0}:
  `sweepFn` and `integrateConst` of the 2-population system vs the 1-population system.
* `marginal_inject` / `marginal_inject_inv`: the marginal of `injectFn` of the d-system equals `injectFn` of the S-system at
  every non-corner S-index, for an abstract splitting of the d-dimensional multi-index into (S-index, complement index).
-/
namespace DadiVerif
open Gen Finset

/-! ### 1. algebraic core for the generated increments -/
/-- renumbering of the axes when population `p` is removed: axis `l` of the smaller system is axis `skipAx p l` -/
def skipAx (p l : ℕ) : ℕ := if l < p then l else l + 1

/-- the accessor `injectFn` uses: node j of grid l -/
def gridAt (grids : List (Array ℚ)) (l j : ℕ) : ℚ := (grids.getD l #[]).getD j 0

theorem gridAt_eraseIdx (grids : List (Array ℚ)) (p : ℕ) :
    (fun l => gridAt grids (skipAx p l)) = gridAt (grids.eraseIdx p) := by
  funext l j
  unfold gridAt skipAx
  congr 1
  simp only [List.getD_eq_getElem?_getD, List.getElem?_eraseIdx]
  split <;> rfl

theorem gridW_zero (xs : Array ℚ) (h2 : 2 ≤ xs.size) (hx0 : xs.getD 0 0 = 0) : gridW xs 0 = xs.getD 1 0 / 2 := by
  unfold gridW Line.w Line.dxL Line.dxR
  simp only [if_true]
  rw [if_pos (by show 0 + 1 < xs.size; omega), hx0]
  ring

macro "inject_drop_tac" : tactic => `(tactic|
  (simp [injectAmt, skipAx, Py.inject1D_0, Py.inject2D_0, Py.inject2D_1, Py.inject3D_0, Py.inject3D_1, Py.inject3D_2,
        Py.inject4D_0, Py.inject4D_1, Py.inject4D_2, Py.inject4D_3, Py.inject5D_0, Py.inject5D_1, Py.inject5D_2,
        Py.inject5D_3, Py.inject5D_4]
   try field_simp
   try ring))

theorem injectAmt_drop1 (k p : ℕ) (hk : k < 1) (hp : p ≤ 1) (dt θ : ℚ) (g : ℕ → ℕ → ℚ) (hg : g p 1 ≠ 0) :
    (injectAmt (1+1) (skipAx p k) dt θ g).getD 0 * (g p 1 / 2)
      = (injectAmt 1 k dt θ (fun l => g (skipAx p l))).getD 0 := by
  interval_cases k; interval_cases p <;> inject_drop_tac

theorem injectAmt_drop2 (k p : ℕ) (hk : k < 2) (hp : p ≤ 2) (dt θ : ℚ) (g : ℕ → ℕ → ℚ) (hg : g p 1 ≠ 0) :
    (injectAmt (2+1) (skipAx p k) dt θ g).getD 0 * (g p 1 / 2)
      = (injectAmt 2 k dt θ (fun l => g (skipAx p l))).getD 0 := by
  interval_cases k <;> interval_cases p <;> inject_drop_tac

theorem injectAmt_drop3 (k p : ℕ) (hk : k < 3) (hp : p ≤ 3) (dt θ : ℚ) (g : ℕ → ℕ → ℚ) (hg : g p 1 ≠ 0) :
    (injectAmt (3+1) (skipAx p k) dt θ g).getD 0 * (g p 1 / 2)
      = (injectAmt 3 k dt θ (fun l => g (skipAx p l))).getD 0 := by
  interval_cases k <;> interval_cases p <;> inject_drop_tac

theorem injectAmt_drop4 (k p : ℕ) (hk : k < 4) (hp : p ≤ 4) (dt θ : ℚ) (g : ℕ → ℕ → ℚ) (hg : g p 1 ≠ 0) :
    (injectAmt (4+1) (skipAx p k) dt θ g).getD 0 * (g p 1 / 2)
      = (injectAmt 4 k dt θ (fun l => g (skipAx p l))).getD 0 := by
  interval_cases k <;> interval_cases p <;> inject_drop_tac


theorem injectAmt_drop (d k p : ℕ) (hd : d ≤ 4) (hk : k < d) (hp : p ≤ d) (dt θ : ℚ) (g : ℕ → ℕ → ℚ)
    (hg : g p 1 ≠ 0) :
    (injectAmt (d+1) (skipAx p k) dt θ g).getD 0 * (g p 1 / 2)
      = (injectAmt d k dt θ (fun l => g (skipAx p l))).getD 0 := by
  interval_cases d
  · omega
  · exact injectAmt_drop1 k p hk hp dt θ g hg
  · exact injectAmt_drop2 k p hk hp dt θ g hg
  · exact injectAmt_drop3 k p hk hp dt θ g hg
  · exact injectAmt_drop4 k p hk hp dt θ g hg

/-- the same for the grids `injectFn` reads: removing population p = erasing its grid -/
theorem injectAmt_eraseIdx (grids : List (Array ℚ)) (d k p : ℕ) (hd : d ≤ 4) (hk : k < d) (hp : p ≤ d) (dt θ : ℚ)
    (hg : gridAt grids p 1 ≠ 0) :
    (injectAmt (d+1) (skipAx p k) dt θ (gridAt grids)).getD 0 * (gridAt grids p 1 / 2)
      = (injectAmt d k dt θ (gridAt (grids.eraseIdx p))).getD 0 := by
  rw [← gridAt_eraseIdx]
  exact injectAmt_drop d k p hd hk hp dt θ (gridAt grids) hg

/-! ### 2. the marginal of `injectFn` -/

theorem sumL_map_reindex (inS : ℕ → Bool) (F G : ℕ → ℚ) (l : List ℕ)
    (hin : ∀ i (hi : i < (l.filter inS).length), F (l.filter inS)[i] = G i)
    (hout : ∀ a ∈ l, inS a = false → F a = 0) :
    sumL (l.map F) = sumL ((List.range (l.filter inS).length).map G) := by
  unfold sumL
  rw [List.foldl_map, List.foldl_map, List.range_eq_range']
  exact marginal_invariant_sweep (fun x y : ℚ => x = y) inS (fun x a => x + F a) (fun y i => y + G i) l 0
    (fun i hi x y hxy => by rw [hxy, hin i hi]; simp)
    (fun a ha hs x y hxy => by rw [hxy, hout a ha hs]; simp) 0 0 rfl

theorem sum_mul_sumL {κ : Type} [Fintype κ] (W : κ → ℚ) (l : List ℕ) (f : κ → ℕ → ℚ) :
    ∑ k, W k * sumL (l.map (f k)) = sumL (l.map fun p => ∑ k, W k * f k p) := by
  induction l with
  | nil => simp
  | cons a l ih =>
    simp only [List.map_cons, sumL_cons, mul_add, Finset.sum_add_distrib, ih]

/-- **Theorem C** (injection), identity form.  The d-dimensional multi-index of (S-index `t`, complement index `k`) is
    `emb t k`, the S-dimensional multi-index of `t` is `embS t`; `k0` is the all-zero index of the complement and `W k0` its
    weight; `inS` says which d-axes belong to S, S-axis `q` being d-axis `((List.range d).filter inS)[q]`.
    `hIn`: the unit index e_p of a population p ∈ S sits at (e_q of the S-grid, k0).  `hOut`: the unit index of a population
    outside S sits above a corner (the all-zero index) of the S-grid.  `hamt`: weight × d-dimensional increment = S-dimensional
    increment (discharged by `injectAmt_drop`/`injectAmt_eraseIdx` for the generated formulas, d ≤ 5).
    Then at every non-corner S-index the marginal of the d-dimensional increment is the S-dimensional increment. -/
theorem marginal_inject {τ κ : Type} [Fintype κ] [DecidableEq κ] (W : κ → ℚ) (k0 : κ)
    (emb : τ → κ → List ℕ) (embS : τ → List ℕ) (Corner : τ → Prop) (inS : ℕ → Bool)
    (gridsD gridsS : List (Array ℚ)) (frD nmD frS nmS : List Bool) (dt θ : ℚ)
    (hlen : gridsS.length = ((List.range gridsD.length).filter inS).length)
    (hIn : ∀ q (hq : q < ((List.range gridsD.length).filter inS).length), ∀ t k,
      emb t k = unitIdx gridsD.length ((List.range gridsD.length).filter inS)[q]
        ↔ (embS t = unitIdx gridsS.length q ∧ k = k0))
    (hOut : ∀ p < gridsD.length, inS p = false → ∀ t k, emb t k = unitIdx gridsD.length p → Corner t)
    (hon : ∀ q (hq : q < ((List.range gridsD.length).filter inS).length),
      injectOn gridsD.length ((List.range gridsD.length).filter inS)[q] frD nmD = injectOn gridsS.length q frS nmS)
    (hamt : ∀ q (hq : q < ((List.range gridsD.length).filter inS).length),
      W k0 * (injectAmt gridsD.length ((List.range gridsD.length).filter inS)[q] dt θ
          (gridAt gridsD)).getD 0
        = (injectAmt gridsS.length q dt θ (gridAt gridsS)).getD 0)
    (T U : List ℕ → ℚ) (t : τ) (ht : ¬ Corner t) :
    ∑ k, W k * injectFn gridsD frD nmD dt θ T (emb t k) - ∑ k, W k * T (emb t k)
      = injectFn gridsS frS nmS dt θ U (embS t) - U (embS t) := by
  unfold injectFn
  simp only [mul_add, Finset.sum_add_distrib, add_sub_cancel_left]
  have hr : List.range gridsS.length = List.range ((List.range gridsD.length).filter inS).length := by rw [hlen]
  rw [sum_mul_sumL, hr]
  refine sumL_map_reindex inS _ _ _ ?_ ?_
  · intro q hq
    simp only [hIn q hq, hon q hq]
    by_cases hc : embS t = unitIdx gridsS.length q ∧ injectOn gridsS.length q frS nmS = true
    · have ha := hamt q hq
      unfold gridAt at ha
      rw [if_pos hc, ← ha]
      rw [Finset.sum_eq_single k0]
      · rw [if_pos ⟨⟨hc.1, rfl⟩, hc.2⟩]
      · intro k _ hk
        rw [if_neg (fun h => hk h.1.2)]; ring
      · intro h; exact absurd (Finset.mem_univ _) h
    · rw [if_neg hc]
      refine Finset.sum_eq_zero (fun k _ => ?_)
      rw [if_neg (fun h => hc ⟨h.1.1, h.2⟩)]; ring
  · intro p hp hs
    refine Finset.sum_eq_zero (fun k _ => ?_)
    rw [if_neg (fun h => ht (hOut p (List.mem_range.mp hp) hs t k h.1))]; ring

/-- Theorem C in invariant form -/
theorem marginal_inject_inv {τ κ : Type} [Fintype κ] [DecidableEq κ] (W : κ → ℚ) (k0 : κ)
    (emb : τ → κ → List ℕ) (embS : τ → List ℕ) (Corner : τ → Prop) (inS : ℕ → Bool)
    (gridsD gridsS : List (Array ℚ)) (frD nmD frS nmS : List Bool) (dt θ : ℚ)
    (hlen : gridsS.length = ((List.range gridsD.length).filter inS).length)
    (hIn : ∀ q (hq : q < ((List.range gridsD.length).filter inS).length), ∀ t k,
      emb t k = unitIdx gridsD.length ((List.range gridsD.length).filter inS)[q]
        ↔ (embS t = unitIdx gridsS.length q ∧ k = k0))
    (hOut : ∀ p < gridsD.length, inS p = false → ∀ t k, emb t k = unitIdx gridsD.length p → Corner t)
    (hon : ∀ q (hq : q < ((List.range gridsD.length).filter inS).length),
      injectOn gridsD.length ((List.range gridsD.length).filter inS)[q] frD nmD = injectOn gridsS.length q frS nmS)
    (hamt : ∀ q (hq : q < ((List.range gridsD.length).filter inS).length),
      W k0 * (injectAmt gridsD.length ((List.range gridsD.length).filter inS)[q] dt θ (gridAt gridsD)).getD 0
        = (injectAmt gridsS.length q dt θ (gridAt gridsS)).getD 0)
    (T U : List ℕ → ℚ) (hinv : ∀ t, ¬ Corner t → ∑ k, W k * T (emb t k) = U (embS t)) :
    ∀ t, ¬ Corner t → ∑ k, W k * injectFn gridsD frD nmD dt θ T (emb t k) = injectFn gridsS frS nmS dt θ U (embS t) := by
  intro t ht
  have h := marginal_inject W k0 emb embS Corner inS gridsD gridsS frD nmD frS nmS dt θ hlen hIn hOut hon hamt T U t ht
  have h2 := hinv t ht
  linarith

/-! ### 3. end-to-end instance: d = 2, S = {population 0} -/
theorem pivotsOk_map_indep (a b c r r' : ℕ → ℚ) (l : List ℕ) : ∀ (β cp : ℚ),
    PivotsOk β cp (l.map fun j => (⟨a j, b j, c j, r j⟩ : Row)) → PivotsOk β cp (l.map fun j => (⟨a j, b j, c j, r' j⟩ : Row)) := by
  induction l with
  | nil => intro _ _ h; exact h
  | cons x l ih =>
    intro β cp h
    exact ⟨h.1, ih _ _ h.2⟩

theorem Line.pivotsOk_indep (L : Line) (φ φ' : ℕ → ℚ) (h : PivotsOk 1 0 (L.rows φ)) : PivotsOk 1 0 (L.rows φ') :=
  pivotsOk_map_indep L.a L.b L.c _ _ _ 1 0 h

theorem GridOk.strictMono {xs : Array ℚ} (hg : GridOk xs) : ∀ j i, i < j → j < xs.size → xs.getD i 0 < xs.getD j 0 := by
  intro j
  induction j with
  | zero => intro i hi; omega
  | succ j ih =>
    intro i hi hj
    have h1 := hg.2 j hj
    rcases Nat.lt_succ_iff_lt_or_eq.mp hi with h | h
    · exact lt_trans (ih i h (by omega)) h1
    · rw [h]; exact h1

theorem GridOk.interior {xs : Array ℚ} (hg : GridOk xs) (hx0 : xs.getD 0 0 = 0) (hx1 : xs.getD (xs.size - 1) 0 = 1)
    (t : ℕ) (h0 : 0 < t) (h1 : t + 1 < xs.size) : xs.getD t 0 ≠ 0 ∧ xs.getD t 0 ≠ 1 := by
  have a := hg.strictMono t 0 h0 (by omega)
  have b := hg.strictMono (xs.size - 1) t (by omega) (by omega)
  rw [hx0] at a; rw [hx1] at b
  exact ⟨ne_of_gt a, ne_of_lt b⟩

/-- invariant for d = 2, S = {population 0} -/
def Marg2D0 (xs : Array ℚ) (T U : List ℕ → ℚ) : Prop :=
  ∀ i, 0 < i → i + 1 < xs.size → ∑ k : Fin xs.size, gridW xs k * T [i, k] = U [i]

theorem marg2D0_axis0 (xs : Array ℚ) (hN : 3 ≤ xs.size) (hx0 : xs.getD 0 0 = 0) (hx1 : xs.getD (xs.size - 1) 0 = 1)
    (Pd Ps : AxisParams) (hgd : Pd.gamma = 0) (hmd : ∀ m ∈ Pd.ms, m = 0) (hgs : Ps.gamma = 0) (hms : ∀ m ∈ Ps.ms, m = 0)
    (hnu : Pd.nu = Ps.nu) (hV : ∀ u, Pd.V u = Ps.V u) (used uses : Bool) (epsD epsS : List ℕ → ℕ → ℚ) (dt : ℚ)
    (hpd : ∀ ys eps φ, PivotsOk 1 0 ((axisLine xs Pd ys used eps dt).rows φ))
    (hps : ∀ ys eps φ, PivotsOk 1 0 ((axisLine xs Ps ys uses eps dt).rows φ))
    (T U : List ℕ → ℚ) (h : Marg2D0 xs T U) :
    Marg2D0 xs (stepAxisFn [xs, xs] 0 Pd used epsD dt T) (stepAxisFn [xs] 0 Ps uses epsS dt U) := by
  have res := marginal_stepAxisFn_in_S (σ := Unit) (κ := Fin xs.size) (fun k => gridW xs k) [xs, xs] [xs] 0 0 Pd Ps
    used uses epsD epsS dt (fun _ k => [k.val]) (fun _ => []) T U rfl (fun _ _ => Nat.zero_le _) (fun _ => Nat.zero_le _)
    hN hx0 hx1 hgd hmd hgs hms hnu hV (fun _ _ _ => rfl) (fun _ _ _ => rfl)
    (fun _ _ => hpd _ _ _) (fun _ => hps _ _ _)
    (fun _ j hj hnc => h j (Nat.pos_of_ne_zero (fun e => hnc.1 ⟨rfl, e⟩))
      (lt_of_le_of_ne hj (fun e => hnc.2 ⟨rfl, e⟩)))
  intro i h0 h1
  exact res () i (by show i < xs.size; omega) ⟨fun e => by have := e.2; omega, fun e => by have : i + 1 = xs.size := e.2; omega⟩

theorem all_single (x c : ℚ) : ([x].all (· == c) = false) ↔ x ≠ c := by simp

theorem marg2D0_axis1 (xs : Array ℚ) (hg : GridOk xs) (hx0 : xs.getD 0 0 = 0) (hx1 : xs.getD (xs.size - 1) 0 = 1)
    (P : AxisParams) (use : Bool) (eps : List ℕ → ℕ → ℚ) (dt : ℚ) (hdt : dt ≠ 0)
    (hp : ∀ ys eps φ, PivotsOk 1 0 ((axisLine xs P ys use eps dt).rows φ))
    (T U : List ℕ → ℚ) (h : Marg2D0 xs T U) :
    Marg2D0 xs (stepAxisFn [xs, xs] 1 P use eps dt T) U := by
  have res := marginal_stepAxisFn_outside_S (τ := ℕ) (κ' := Unit) (fun _ => 1) [xs, xs] 1 hg P
    (fun t => [xs.getD t 0]) use eps dt hdt (fun t _ => [t]) T (fun t => U [t]) (fun _ _ => le_refl _)
    (fun _ _ h => h) (fun _ _ h => h) (fun _ _ => hp _ _ _)
    (fun t h0 h1 => by
      rw [all_single] at h0 h1
      have ht0 : 0 < t := Nat.pos_of_ne_zero (fun e => h0 (by rw [e]; exact hx0))
      have htN : t < xs.size := by
        by_contra hc
        apply h0
        simp [Array.getD, hc]
      have ht1 : t + 1 < xs.size := by
        rcases Nat.lt_or_ge (t + 1) xs.size with h' | h'
        · exact h'
        · exfalso; apply h1
          have : t = xs.size - 1 := by omega
          rw [this]; exact hx1
      have := h t ht0 ht1
      simp only [Fintype.sum_unique, one_mul]
      show ∑ j ∈ range xs.size, gridW xs j * T [t, j] = U [t]
      rw [Finset.sum_range]
      exact this)
  intro i h0 h1
  have hi := hg.interior hx0 hx1 i h0 h1
  have := res i ((all_single _ _).mpr hi.1) ((all_single _ _).mpr hi.2)
  simp only [Fintype.sum_unique, one_mul] at this
  have this' : ∑ j ∈ range xs.size, gridW xs j * stepAxisFn [xs, xs] 1 P use eps dt T [i, j] = U [i] := this
  rw [Finset.sum_range] at this'
  exact this'

theorem filter_axis0 : (List.range 2).filter (fun p => p == 0) = [0] := by decide

theorem marg2D0_inject (xs : Array ℚ) (hg : GridOk xs) (hx0 : xs.getD 0 0 = 0)
    (frD nmD frS nmS : List Bool) (hfr : frD.getD 0 false = frS.getD 0 false) (hnm : nmD.getD 0 false = false)
    (dt θ : ℚ) (T U : List ℕ → ℚ) (h : Marg2D0 xs T U) :
    Marg2D0 xs (injectFn [xs, xs] frD nmD dt θ T) (injectFn [xs] frS nmS dt θ U) := by
  have hpos : 0 < xs.size := by have := hg.1; omega
  have hx1 : xs.getD 1 0 ≠ 0 := by
    have := hg.2 0 (by have := hg.1; omega)
    rw [hx0] at this; exact ne_of_gt this
  have res := marginal_inject_inv (τ := ℕ) (κ := Fin xs.size) (fun k => gridW xs k) ⟨0, hpos⟩
    (fun t k => [t, k.val]) (fun t => [t]) (fun t => t = 0 ∨ xs.size ≤ t + 1) (fun p => p == 0)
    [xs, xs] [xs] frD nmD frS nmS dt θ (by simp [filter_axis0]) ?_ ?_ ?_ ?_ T U
    (fun t ht => h t (by omega) (by omega))
  · intro i h0 h1
    exact res i (by omega)
  · intro q hq t k
    have hq0 : q = 0 := by simpa [filter_axis0] using hq
    subst hq0
    simp only [List.length_cons, List.length_nil]
    constructor
    · intro h
      have h' : [t, k.val] = [1, 0] := h
      simp only [List.cons.injEq, and_true] at h'
      exact ⟨by rw [h'.1]; rfl, Fin.ext h'.2⟩
    · rintro ⟨h1, h2⟩
      have h' : [t] = [1] := h1
      simp only [List.cons.injEq, and_true] at h'
      subst h2; rw [h']; rfl
  · intro p hp hs t k h
    have hp2 : p < 2 := hp
    have : p = 1 := by
      rcases (by omega : p = 0 ∨ p = 1) with rfl | rfl
      · simp at hs
      · rfl
    subst this
    have h' : [t, k.val] = [0, 1] := h
    simp only [List.cons.injEq, and_true] at h'
    exact Or.inl h'.1
  · intro q hq
    have hq0 : q = 0 := by simpa [filter_axis0] using hq
    subst hq0
    show injectOn 2 0 frD nmD = injectOn 1 0 frS nmS
    unfold injectOn
    rw [hfr, hnm]
    simp
  · intro q hq
    have hq0 : q = 0 := by simpa [filter_axis0] using hq
    subst hq0
    have h := injectAmt_eraseIdx [xs, xs] 1 0 1 (by omega) (by omega) (by omega) dt θ hx1
    have e1 : skipAx 1 0 = 0 := rfl
    have e2 : ([xs, xs] : List (Array ℚ)).eraseIdx 1 = [xs] := rfl
    have e3 : gridW xs 0 = gridAt [xs, xs] 1 1 / 2 := gridW_zero xs hg.1 hx0
    rw [e1, e2] at h
    simp only [List.length_cons, List.length_nil]
    rw [e3, mul_comm]
    exact h

/-- **End-to-end instance (d = 2, S = {population 0})**: one full time step `sweepFn` of the 2-population system and of the
    1-population system preserve "trapezoid marginal over population 1 = 1-D density at every interior node", when population 0
    has no selection and receives no migrants (population 1 is arbitrary: selection and immigration there only move mass along
    its own axis). -/
theorem marginal_2D_pop0_step (xs : Array ℚ) (hg : GridOk xs) (hN : 3 ≤ xs.size) (hx0 : xs.getD 0 0 = 0)
    (hx1 : xs.getD (xs.size - 1) 0 = 1) (frD nmD frS nmS : List Bool)
    (hfr : frD.getD 0 false = frS.getD 0 false) (hnm : nmD.getD 0 false = false)
    (useD useS : Bool) (epsD epsS : ℕ → List ℕ → ℕ → ℚ) (PD PS : StepParams) (p0 p1 q0 : PopParams)
    (hPD : PD.pops = [p0, p1]) (hPS : PS.pops = [q0]) (hθ : PD.theta0 = PS.theta0)
    (hg0 : p0.gamma = 0) (hm0 : ∀ m ∈ p0.ms, m = 0) (hgq : q0.gamma = 0) (hmq : ∀ m ∈ q0.ms, m = 0)
    (hnu : p0.nu = q0.nu) (hV : ∀ u, (p0.axis PD.beta).V u = (q0.axis PS.beta).V u)
    (dt : ℚ) (hdt : dt ≠ 0)
    (hpiv0 : ∀ ys eps φ, PivotsOk 1 0 ((axisLine xs (p0.axis PD.beta) ys useD eps dt).rows φ))
    (hpiv1 : ∀ ys eps φ, PivotsOk 1 0 ((axisLine xs (p1.axis PD.beta) ys useD eps dt).rows φ))
    (hpivq : ∀ ys eps φ, PivotsOk 1 0 ((axisLine xs (q0.axis PS.beta) ys useS eps dt).rows φ)) :
    ∀ T U, Marg2D0 xs T U →
      Marg2D0 xs (sweepFn [xs, xs] frD nmD useD epsD PD dt T) (sweepFn [xs] frS nmS useS epsS PS dt U) := by
  refine marginal_invariant_step (Marg2D0 xs) (fun p => p == 0) [xs, xs] [xs] frD nmD frS nmS useD useS epsD epsS PD PS dt
    (by simp [filter_axis0]) ?_ ?_ ?_
  · intro T U h
    rw [hθ]
    exact marg2D0_inject xs hg hx0 frD nmD frS nmS hfr hnm dt _ T U h
  · intro i hi T U h
    have hi0 : i = 0 := by simpa [filter_axis0] using hi
    subst hi0
    show Marg2D0 xs (sweepAxisFn [xs, xs] frD useD epsD PD.pops PD.beta dt T 0) (sweepAxisFn [xs] frS useS epsS PS.pops PS.beta dt U 0)
    unfold sweepAxisFn
    rw [hPD, hPS, hfr]
    by_cases hf : frS.getD 0 false = true
    · rw [if_pos hf, if_pos hf]; exact h
    · rw [if_neg hf, if_neg hf]
      exact marg2D0_axis0 xs hN hx0 hx1 (p0.axis PD.beta) (q0.axis PS.beta) hg0 hm0 hgq hmq hnu hV useD useS _ _ dt
        hpiv0 hpivq T U h
  · intro a ha hs T U h
    have ha2 : a < 2 := ha
    have : a = 1 := by
      rcases (by omega : a = 0 ∨ a = 1) with rfl | rfl
      · simp at hs
      · rfl
    subst this
    unfold sweepAxisFn
    rw [hPD]
    by_cases hf : frD.getD 1 false = true
    · rw [if_pos hf]; exact h
    · rw [if_neg hf]
      exact marg2D0_axis1 xs hg hx0 hx1 (p1.axis PD.beta) useD _ dt hdt hpiv1 T U h

/-- …and therefore whole integrations (constant parameters), provided both systems take the same positive time steps -/
theorem marginal_2D_pop0_integrate (xs : Array ℚ) (hg : GridOk xs) (hN : 3 ≤ xs.size) (hx0 : xs.getD 0 0 = 0)
    (hx1 : xs.getD (xs.size - 1) 0 = 1) (frD nmD frS nmS : List Bool)
    (hfr : frD.getD 0 false = frS.getD 0 false) (hnm : nmD.getD 0 false = false)
    (useD useS : Bool) (epsD epsS : ℕ → List ℕ → ℕ → ℚ) (PD PS : StepParams) (p0 p1 q0 : PopParams)
    (hPD : PD.pops = [p0, p1]) (hPS : PS.pops = [q0]) (hθ : PD.theta0 = PS.theta0)
    (hg0 : p0.gamma = 0) (hm0 : ∀ m ∈ p0.ms, m = 0) (hgq : q0.gamma = 0) (hmq : ∀ m ∈ q0.ms, m = 0)
    (hnu : p0.nu = q0.nu) (hV : ∀ u, (p0.axis PD.beta).V u = (q0.axis PS.beta).V u)
    (tf Tend : ℚ) (hdtEq : stepDt tf PD = stepDt tf PS) (hpos : ∀ d, stepDt tf PS = some d → 0 < d)
    (hpiv0 : ∀ dt, 0 < dt → ∀ ys eps φ, PivotsOk 1 0 ((axisLine xs (p0.axis PD.beta) ys useD eps dt).rows φ))
    (hpiv1 : ∀ dt, 0 < dt → ∀ ys eps φ, PivotsOk 1 0 ((axisLine xs (p1.axis PD.beta) ys useD eps dt).rows φ))
    (hpivq : ∀ dt, 0 < dt → ∀ ys eps φ, PivotsOk 1 0 ((axisLine xs (q0.axis PS.beta) ys useS eps dt).rows φ)) :
    ∀ (fuel : ℕ) (t : ℚ) (T U : List ℕ → ℚ), Marg2D0 xs T U →
      Marg2D0 xs (integrateConst (sweepFn [xs, xs] frD nmD useD epsD) tf PD Tend fuel t T)
        (integrateConst (sweepFn [xs] frS nmS useS epsS) tf PS Tend fuel t U) :=
  marginal_invariant_integrate (Marg2D0 xs) _ _ tf PD PS Tend hdtEq hpos
    (fun dt hdt => marginal_2D_pop0_step xs hg hN hx0 hx1 frD nmD frS nmS hfr hnm useD useS epsD epsS PD PS p0 p1 q0
      hPD hPS hθ hg0 hm0 hgq hmq hnu hV dt (ne_of_gt hdt) (hpiv0 dt hdt) (hpiv1 dt hdt) (hpivq dt hdt))

/-! ### 4. non-vacuity -/
namespace MarginalExample

def xs3 : Array ℚ := #[0, 1/2, 1]

theorem filt : (List.range 2).filter (fun p => p == 0) = [0] := by decide

/-- all hypotheses of Theorem C hold: d = 2 on the grid {0, 1/2, 1}², S = {population 0}; S-index `t : ℕ`, complement index
    `k : Fin 3`, weights = trapezoid weights, corner = the all-zero S-index; `hamt` is discharged by `injectAmt_eraseIdx` -/
example (dt θ : ℚ) (T U : List ℕ → ℚ) (hinv : ∀ t : ℕ, ¬ t = 0 → ∑ k : Fin 3, W k * T [t, k.val] = U [t]) :
    ∀ t : ℕ, ¬ t = 0 →
      ∑ k : Fin 3, W k * injectFn [xs3, xs3] [false, false] [false, false] dt θ T [t, k.val]
        = injectFn [xs3] [false] [false] dt θ U [t] := by
  refine marginal_inject_inv W (0 : Fin 3) (fun t k => [t, k.val]) (fun t => [t]) (fun t => t = 0) (fun p => p == 0)
    [xs3, xs3] [xs3] [false, false] [false, false] [false] [false] dt θ ?_ ?_ ?_ ?_ ?_ T U hinv
  · simp [filt]
  · intro q hq t k
    have hq0 : q = 0 := by simpa [filt] using hq
    subst hq0
    simp only [List.length_cons, List.length_nil]
    constructor
    · intro h
      have h' : [t, k.val] = [1, 0] := h
      simp only [List.cons.injEq, and_true] at h'
      exact ⟨by rw [h'.1]; rfl, Fin.ext h'.2⟩
    · rintro ⟨h1, h2⟩
      have h' : [t] = [1] := h1
      simp only [List.cons.injEq, and_true] at h'
      subst h2; rw [h']; rfl
  · intro p hp hs t k h
    have hp2 : p < 2 := hp
    have : p = 1 := by
      rcases (by omega : p = 0 ∨ p = 1) with rfl | rfl
      · simp at hs
      · rfl
    subst this
    have h' : [t, k.val] = [0, 1] := h
    simp only [List.cons.injEq, and_true] at h'
    exact h'.1
  · intro q hq
    have hq0 : q = 0 := by simpa [filt] using hq
    subst hq0
    rfl
  · intro q hq
    have hq0 : q = 0 := by simpa [filt] using hq
    subst hq0
    have h := injectAmt_eraseIdx [xs3, xs3] 1 0 1 (by omega) (by omega) (by omega) dt θ
      (by norm_num [gridAt, xs3, Array.getD])
    have e1 : skipAx 1 0 = 0 := rfl
    have e2 : ([xs3, xs3] : List (Array ℚ)).eraseIdx 1 = [xs3] := rfl
    have e3 : W 0 = gridAt [xs3, xs3] 1 1 / 2 := by norm_num [gridAt, xs3, Array.getD, W]
    rw [e1, e2] at h
    simp only [List.length_cons, List.length_nil]
    rw [e3, mul_comm]
    exact h


def pop2 : PopParams := { nu := 1, gamma := 0, h := 1/2, ms := [0] }
def pop1 : PopParams := { nu := 1, gamma := 0, h := 1/2, ms := [] }

/-- all hypotheses of `marginal_2D_pop0_step` hold: grid {0, 1/2, 1}, ν = 1, dt = 1, the 2-population system with the d-D drift
    function (`beta = none`), the 1-population system with the 1-D kernel's `Vfunc_beta`, β = 1 -/
example (epsD epsS : ℕ → List ℕ → ℕ → ℚ) (T U : List ℕ → ℚ) (h : Marg2D0 xs3 T U) :
    Marg2D0 xs3 (sweepFn [xs3, xs3] [false, false] [false, false] true epsD ⟨[pop2, pop2], 1, none⟩ 1 T)
      (sweepFn [xs3] [false] [false] false epsS ⟨[pop1], 1, some 1⟩ 1 U) :=
  marginal_2D_pop0_step xs3 gridOk (by decide) (by norm_num [xs3, Array.getD]) (by norm_num [xs3, Array.getD])
    [false, false] [false, false] [false] [false] rfl rfl true false epsD epsS ⟨[pop2, pop2], 1, none⟩ ⟨[pop1], 1, some 1⟩
    pop2 pop2 pop1 rfl rfl rfl rfl (by simp [pop2]) rfl (by simp [pop1]) rfl
    (fun u => (AxisParams.V_beta_one (pop1.axis (some 1)) (pop2.axis none) rfl rfl rfl u).symm)
    1 one_ne_zero
    (fun ys eps φ => pivots' _ rfl rfl (by simp [pop2, PopParams.axis]) (fun u => by simp [AxisParams.V, PopParams.axis, pop2, C.Vfunc]) ys _ eps φ)
    (fun ys eps φ => pivots' _ rfl rfl (by simp [pop2, PopParams.axis]) (fun u => by simp [AxisParams.V, PopParams.axis, pop2, C.Vfunc]) ys _ eps φ)
    (fun ys eps φ => pivots' _ rfl rfl (by simp [pop1, PopParams.axis])
      (fun u => by simp [AxisParams.V, PopParams.axis, pop1, C.Vfunc_beta]; ring) ys _ eps φ)
    T U h

/-- the invariant is satisfiable non-trivially: on the 3-point grid it constrains exactly the node i = 1 -/
example : Marg2D0 xs3 (fun idx => (idx.getD 0 0 : ℚ) + 2 * (idx.getD 1 0 : ℚ)) (fun idx => if idx = [1] then 3 else 0) := by
  intro i h0 h1
  have h3 : i + 1 < 3 := h1
  have : i = 1 := by omega
  subst this
  show (∑ k : Fin 3, gridW xs3 k * (((1:ℕ):ℚ) + 2 * ((k.val : ℕ) : ℚ))) = 3
  rw [Fin.sum_univ_three]
  norm_num [gridW, Line.w, Line.dxL, Line.dxR, xs3, Array.getD]
end MarginalExample

end DadiVerif
