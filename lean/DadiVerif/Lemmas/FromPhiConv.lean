import DadiVerif.Lemmas.FromPhiInb
import DadiVerif.Lemmas.FromPhiND
import Mathlib.Data.Nat.Choose.Multinomial
import Mathlib.Data.Multiset.Sort
import Mathlib.Data.List.Sort
import Mathlib.Tactic.Ring
import Mathlib.Tactic.Linarith
/-! C05 — `BetaBinomConvolution`: the sum over the partitions `Numerics.part` lists, with multinomial coefficients of the
    value counts, is the multinomial expansion of (Σ_v BB(v))^n; hence the convolved probabilities sum to one. -/
namespace DadiVerif.FromPhi
open Finset

/-! ### `part` lists all and only the sorted bounded vectors of given length and sum, each once -/

theorem mem_part (n : ℕ) : ∀ (x minv maxv : ℕ) (l : List ℕ),
    l ∈ part n x minv maxv ↔
      l.length = n ∧ l.sum = x ∧ (∀ v ∈ l, minv ≤ v ∧ v ≤ maxv) ∧ l.Pairwise (· ≤ ·) := by
  induction n with
  | zero =>
    intro x minv maxv l
    unfold part
    constructor
    · intro h
      split_ifs at h with hx
      · simp at h; subst h; simp [hx]
      · simp at h
    · rintro ⟨hl, hs, _, _⟩
      have : l = [] := List.length_eq_zero_iff.mp hl
      subst this
      simp at hs
      simp [hs.symm]
  | succ n ih =>
    intro x minv maxv l
    unfold part
    constructor
    · intro h
      split_ifs at h with hb
      · simp only [List.mem_flatMap, List.mem_range'_1] at h
        obtain ⟨v, ⟨hv1, hv2⟩, hmem⟩ := h
        split_ifs at hmem with hvx
        · simp only [List.mem_map] at hmem
          obtain ⟨t, ht, rfl⟩ := hmem
          obtain ⟨h1, h2, h3, h4⟩ := (ih (x - v) v maxv t).mp ht
          refine ⟨by simp [h1], by simp [h2]; omega, ?_, ?_⟩
          · intro w hw
            rcases List.mem_cons.mp hw with rfl | hw'
            · omega
            · have := h3 w hw'; omega
          · exact List.pairwise_cons.mpr ⟨fun w hw => (h3 w hw).1, h4⟩
        · simp at hmem
      · simp at h
    · rintro ⟨hl, hs, hb, hp⟩
      cases l with
      | nil => simp at hl
      | cons v t =>
        have hlt : t.length = n := by simpa using hl
        have hvb := hb v (List.mem_cons_self)
        have hpc := List.pairwise_cons.mp hp
        have hsum : v + t.sum = x := by simpa using hs
        have htb : ∀ w ∈ t, v ≤ w ∧ w ≤ maxv := fun w hw => ⟨hpc.1 w hw, (hb w (List.mem_cons_of_mem _ hw)).2⟩
        have hlow : t.length * v ≤ t.sum := by
          clear hlt hsum hp hpc hb hs hl
          induction t with
          | nil => simp
          | cons w ws ihw =>
            have := (htb w (List.mem_cons_self)).1
            have := ihw (fun u hu => htb u (List.mem_cons_of_mem _ hu))
            simp [Nat.succ_mul]; omega
        have hhigh : t.sum ≤ t.length * maxv := by
          clear hlt hsum hp hpc hb hs hl hlow
          induction t with
          | nil => simp
          | cons w ws ihw =>
            have := (htb w (List.mem_cons_self)).2
            have := ihw (fun u hu => htb u (List.mem_cons_of_mem _ hu))
            simp [Nat.succ_mul]; omega
        have hguard : (n+1) * minv ≤ x ∧ x ≤ (n+1) * maxv := by
          rw [hlt] at hlow hhigh
          have h1 : n * minv ≤ n * v := Nat.mul_le_mul_left _ hvb.1
          constructor
          · rw [Nat.succ_mul]; omega
          · rw [Nat.succ_mul]; omega
        rw [if_pos hguard]
        simp only [List.mem_flatMap, List.mem_range'_1]
        refine ⟨v, ⟨hvb.1, by omega⟩, ?_⟩
        have hvx : v ≤ x := by omega
        rw [if_pos hvx]
        simp only [List.mem_map]
        refine ⟨t, (ih (x - v) v maxv t).mpr ⟨hlt, by omega, htb, hpc.2⟩, rfl⟩

theorem part_nodup (n : ℕ) : ∀ (x minv maxv : ℕ), (part n x minv maxv).Nodup := by
  induction n with
  | zero =>
    intro x minv maxv
    unfold part
    split_ifs <;> simp
  | succ n ih =>
    intro x minv maxv
    unfold part
    split_ifs with hb
    · rw [List.nodup_flatMap]
      constructor
      · intro v _
        split_ifs
        · exact (ih _ _ _).map (fun a b h => by simpa using h)
        · exact List.nodup_nil
      · have hnd : (List.range' minv (maxv + 1 - minv)).Nodup := List.nodup_range'
        refine hnd.imp ?_
        intro v w hvw l h1 h2
        dsimp only at h1 h2
        split_ifs at h1 h2 <;> simp only [List.mem_map, List.not_mem_nil] at h1 h2
        obtain ⟨t1, _, rfl⟩ := h1
        obtain ⟨t2, _, h⟩ := h2
        exact hvw (List.cons.inj h).1.symm
    · exact List.nodup_nil

/-! ### from the list enumeration to a finite set of vectors -/

theorem sumL_eq_sum (l : List ℚ) : sumL l = l.sum := by
  have gen : ∀ (l : List ℚ) (a : ℚ), l.foldl (· + ·) a = a + l.sum := by
    intro l
    induction l with
    | nil => intro a; simp
    | cons x xs ih => intro a; simp only [List.foldl_cons, List.sum_cons, ih]; ring
  unfold sumL
  rw [gen, zero_add]

/-- all non-decreasing vectors of length n with entries ≤ P (every possible total) -/
def allParts (n P : ℕ) : Finset (List ℕ) := (range (P * n + 1)).biUnion fun x => (part n x 0 P).toFinset

theorem sum_le_of_bounded (q : List ℕ) (P : ℕ) (h : ∀ v ∈ q, v ≤ P) : q.sum ≤ P * q.length := by
  induction q with
  | nil => simp
  | cons w ws ih =>
    have h1 := h w (List.mem_cons_self)
    have h2 := ih fun v hv => h v (List.mem_cons_of_mem _ hv)
    simp only [List.sum_cons, List.length_cons, Nat.mul_succ]
    omega

theorem mem_allParts (n P : ℕ) (q : List ℕ) :
    q ∈ allParts n P ↔ q.length = n ∧ (∀ v ∈ q, v ≤ P) ∧ q.Pairwise (· ≤ ·) := by
  unfold allParts
  simp only [mem_biUnion, mem_range, List.mem_toFinset, mem_part]
  constructor
  · rintro ⟨x, _, hl, _, hb, hp⟩
    exact ⟨hl, fun v hv => (hb v hv).2, hp⟩
  · rintro ⟨hl, hb, hp⟩
    refine ⟨q.sum, ?_, hl, rfl, fun v hv => ⟨Nat.zero_le _, hb v hv⟩, hp⟩
    have := sum_le_of_bounded q P hb
    rw [hl] at this
    omega

theorem sum_parts (n P : ℕ) (T : List ℕ → ℚ) :
    ∑ x ∈ range (P * n + 1), sumL ((part n x 0 P).map T) = ∑ q ∈ allParts n P, T q := by
  unfold allParts
  rw [Finset.sum_biUnion]
  · refine Finset.sum_congr rfl fun x _ => ?_
    rw [sumL_eq_sum, List.sum_toFinset _ (part_nodup n x 0 P)]
  · intro x _ y _ hxy
    rw [Function.onFun, Finset.disjoint_left]
    intro q hq1 hq2
    rw [List.mem_toFinset, mem_part] at hq1 hq2
    exact hxy (hq1.2.1.symm.trans hq2.2.1)

/-! ### the multinomial theorem over the value counts -/

theorem count_sum_eq_length (q : List ℕ) (P : ℕ) (h : ∀ v ∈ q, v ≤ P) : ∑ v ∈ range (P+1), q.count v = q.length := by
  have h1 := Multiset.toFinset_sum_count_eq (q : Multiset ℕ)
  simp only [Multiset.coe_count, Multiset.coe_card] at h1
  rw [← h1]
  symm
  apply Finset.sum_subset
  · intro v hv
    rw [Multiset.mem_toFinset, Multiset.mem_coe] at hv
    exact mem_range.mpr (by have := h v hv; omega)
  · intro v _ hv
    rw [Multiset.mem_toFinset, Multiset.mem_coe] at hv
    exact List.count_eq_zero_of_not_mem hv

theorem conv_sum_core {R : Type*} [CommSemiring R] (n P : ℕ) (f : ℕ → R) :
    ∑ q ∈ allParts n P, ((Nat.multinomial (range (P+1)) (fun v => q.count v) : ℕ) : R) * ∏ v ∈ range (P+1), f v ^ q.count v
      = (∑ v ∈ range (P+1), f v) ^ n := by
  rw [Finset.sum_pow_eq_sum_piAntidiag]
  refine Finset.sum_bij (fun q _ => fun v => q.count v) ?_ ?_ ?_ ?_
  · -- lands in the antidiagonal
    intro q hq
    obtain ⟨hl, hb, _⟩ := (mem_allParts n P q).mp hq
    rw [mem_piAntidiag]
    refine ⟨by rw [count_sum_eq_length q P hb, hl], ?_⟩
    intro v hv
    have : v ∈ q := List.count_pos_iff.mp (Nat.pos_of_ne_zero hv)
    exact mem_range.mpr (by have := hb v this; omega)
  · -- injective: equal counts + sorted
    intro q1 h1 q2 h2 he
    obtain ⟨_, _, hp1⟩ := (mem_allParts n P q1).mp h1
    obtain ⟨_, _, hp2⟩ := (mem_allParts n P q2).mp h2
    have hperm : q1.Perm q2 := List.perm_iff_count.mpr fun v => congrFun he v
    exact hperm.eq_of_pairwise' hp1 hp2
  · -- surjective: sort the multiset with the prescribed counts
    intro k hk
    rw [mem_piAntidiag] at hk
    obtain ⟨hsum, hsupp⟩ := hk
    let m : Multiset ℕ := ∑ v ∈ range (P+1), k v • ({v} : Multiset ℕ)
    have hcount : ∀ w, m.count w = k w := by
      intro w
      simp only [m, Multiset.count_sum', Multiset.count_nsmul, Multiset.count_singleton]
      by_cases hw : w ∈ range (P+1)
      · rw [Finset.sum_eq_single w]
        · simp
        · intro b _ hb; simp [Ne.symm hb]
        · intro h; exact absurd hw h
      · have : k w = 0 := by
          by_contra hne; exact hw (hsupp w hne)
        rw [this]
        refine Finset.sum_eq_zero fun b hb => ?_
        have : w ≠ b := fun e => hw (e ▸ hb)
        simp [this]
    have hcard : Multiset.card m = n := by
      show Multiset.card (∑ v ∈ range (P+1), k v • ({v} : Multiset ℕ)) = n
      rw [Multiset.card_sum]
      simpa using hsum
    have hmem : ∀ v ∈ m, v ≤ P := by
      intro v hv
      have : m.count v ≠ 0 := (Multiset.count_pos.mpr hv).ne'
      rw [hcount] at this
      have := mem_range.mp (hsupp v this)
      omega
    refine ⟨m.sort (· ≤ ·), ?_, ?_⟩
    · rw [mem_allParts]
      refine ⟨by rw [Multiset.length_sort, hcard], ?_, Multiset.pairwise_sort m _⟩
      intro v hv
      exact hmem v ((Multiset.mem_sort _).mp hv)
    · funext w
      rw [← Multiset.coe_count, Multiset.sort_eq, hcount]
  · intro q _
    rfl

/-! ### the model's term is the multinomial term -/

theorem foldl_add_eq_sum (l : List ℕ) : l.foldl (· + ·) 0 = l.sum := by
  have gen : ∀ (l : List ℕ) (a : ℕ), l.foldl (· + ·) a = a + l.sum := by
    intro l
    induction l with
    | nil => intro a; simp
    | cons x xs ih => intro a; simp only [List.foldl_cons, List.sum_cons, ih]; omega
  rw [gen, zero_add]

theorem foldl_mul_eq_prod (l : List ℕ) : l.foldl (· * ·) 1 = l.prod := by
  have gen : ∀ (l : List ℕ) (a : ℕ), l.foldl (· * ·) a = a * l.prod := by
    intro l
    induction l with
    | nil => intro a; simp
    | cons x xs ih => intro a; simp only [List.foldl_cons, List.prod_cons, ih]; ring
  rw [gen, one_mul]

theorem multinomial_eq (P : ℕ) (c : ℕ → ℕ) :
    multinomial ((List.range (P+1)).map c) = Nat.multinomial (range (P+1)) c := by
  unfold multinomial Nat.multinomial
  rw [foldl_add_eq_sum, foldl_mul_eq_prod, fact_eq, List.map_map]
  have h1 : ((List.range (P+1)).map c).sum = ∑ v ∈ range (P+1), c v := by
    rw [← List.sum_toFinset _ (List.nodup_range), List.toFinset_range]
  have h2 : ((List.range (P+1)).map (fact ∘ c)).prod = ∏ v ∈ range (P+1), (c v).factorial := by
    rw [← List.prod_toFinset _ (List.nodup_range), List.toFinset_range]
    exact Finset.prod_congr rfl fun v _ => fact_eq _
  rw [h1, h2]

theorem listProd_range (P : ℕ) (g : ℕ → ℚ) : listProd ((List.range (P+1)).map g) = ∏ v ∈ range (P+1), g v := by
  have gen : ∀ (l : List ℚ) (a : ℚ), l.foldl (· * ·) a = a * l.prod := by
    intro l
    induction l with
    | nil => intro a; simp
    | cons x xs ih => intro a; simp only [List.foldl_cons, List.prod_cons, ih]; ring
  unfold listProd
  rw [gen, one_mul, ← List.prod_toFinset _ (List.nodup_range), List.toFinset_range]

theorem convTerm_eq (P : ℕ) (f : ℕ → ℚ) (q : List ℕ) :
    convTerm P f q = ((Nat.multinomial (range (P+1)) (fun v => q.count v) : ℕ) : ℚ) * ∏ v ∈ range (P+1), f v ^ q.count v := by
  unfold convTerm
  rw [multinomial_eq, listProd_range]

/-- Σ over all totals of the partition sums = (Σ_v f v)^n -/
theorem conv_sum (n P : ℕ) (f : ℕ → ℚ) :
    ∑ x ∈ range (P * n + 1), sumL ((part n x 0 P).map (convTerm P f)) = (∑ v ∈ range (P+1), f v) ^ n := by
  rw [sum_parts]
  simp only [convTerm_eq]
  exact conv_sum_core n P f

/-- **the convolved beta-binomial sampling probabilities sum to one** -/
theorem betaBinomConv_sum (n P : ℕ) (a b : ℚ) (hab : 0 < a + b) :
    ∑ i ∈ range (P * n + 1), betaBinomConv i n a b P = 1 := by
  unfold betaBinomConv
  rw [conv_sum, betaBinom_sum P a b hab, one_pow]

/-! ### the inbreeding operator has the mass law -/

/-- (dimension, axis) pairs for which an inbreeding function exists -/
def ValidInbAxis (dim a : ℕ) : Prop := 1 ≤ dim ∧ dim ≤ 3 ∧ a < dim

theorem inb_params_sum (dim a : ℕ) (h : ValidInbAxis dim a) (N : ℕ) (x : ℕ → ℚ) (F : ℚ) (k : ℕ) :
    inbAlpha dim a N x F k + inbBeta dim a N x F k = (1 - F) / F := by
  obtain ⟨h1, h3, ha⟩ := h
  have hd : dim = 1 ∨ dim = 2 ∨ dim = 3 := by omega
  unfold inbAlpha inbBeta
  rcases hd with rfl | rfl | rfl
  · have : a = 0 := by omega
    subst this
    split_ifs <;> simp only [Gen.FromPhi.inbAlphaLast, Gen.FromPhi.inbBetaLast, Gen.FromPhi.inbAlphaFirst,
      Gen.FromPhi.inbBetaFirst, Gen.FromPhi.inbAlphaMid, Gen.FromPhi.inbBetaMid] <;> ring
  · have : a = 0 ∨ a = 1 := by omega
    rcases this with rfl | rfl <;> split_ifs <;> simp only [Gen.FromPhi.inbAlphaLast, Gen.FromPhi.inbBetaLast,
      Gen.FromPhi.inbAlphaFirst, Gen.FromPhi.inbBetaFirst, Gen.FromPhi.inbAlphaMid, Gen.FromPhi.inbBetaMid] <;> ring
  · have : a = 0 ∨ a = 1 ∨ a = 2 := by omega
    rcases this with rfl | rfl | rfl <;> split_ifs <;> simp only [Gen.FromPhi.inbAlphaLast, Gen.FromPhi.inbBetaLast,
      Gen.FromPhi.inbAlphaFirst, Gen.FromPhi.inbBetaFirst, Gen.FromPhi.inbAlphaMid, Gen.FromPhi.inbBetaMid] <;> ring

theorem inbHetFactor_eq (dim a : ℕ) (h : ValidInbAxis dim a) (x : ℚ) : Gen.FromPhi.inbHetFactor dim a x = x * (1 - x) := by
  obtain ⟨h1, h3, ha⟩ := h
  have hd : dim = 1 ∨ dim = 2 ∨ dim = 3 := by omega
  rcases hd with rfl | rfl | rfl
  · have : a = 0 := by omega
    subst this; simp only [Gen.FromPhi.inbHetFactor]
  · have : a = 0 ∨ a = 1 := by omega
    rcases this with rfl | rfl <;> simp only [Gen.FromPhi.inbHetFactor]
  · have : a = 0 ∨ a = 1 ∨ a = 2 := by omega
    rcases this with rfl | rfl | rfl <;> simp only [Gen.FromPhi.inbHetFactor]

/-- at every grid point the inbred sampling probabilities (F strictly between 0 and 1, sample size a multiple of the ploidy)
    sum to the ascertainment multiplier (1 without ascertainment) -/
theorem inbWeight_sum (dim a : ℕ) (h : ValidInbAxis dim a) (m P N : ℕ) (F : ℚ) (hF0 : 0 < F) (hF1 : F < 1) (het : Bool)
    (x : ℕ → ℚ) (k : ℕ) (hP : 0 < P) :
    ∑ i ∈ range (P * m + 1), inbWeight dim a (P * m) P N F het x k i = hetMult het (x k) := by
  have hne : F ≠ 0 := hF0.ne'
  have hdiv : P * m / P = m := Nat.mul_div_cancel_left m hP
  have hab : 0 < inbAlpha dim a N x F k + inbBeta dim a N x F k := by
    rw [inb_params_sum dim a h]; exact div_pos (by linarith) hF0
  have hs := betaBinomConv_sum m P _ _ hab
  unfold inbWeight hetMult
  simp only [if_neg hne, hdiv]
  cases het
  · simpa using hs
  · simp only [if_true, inbHetFactor_eq dim a h]
    rw [← Finset.sum_mul, hs, one_mul]

theorem inbOp_mass (dim a : ℕ) (h : ValidInbAxis dim a) (m P N : ℕ) (F : ℚ) (hF0 : 0 < F) (hF1 : F < 1) (het : Bool)
    (x : ℕ → ℚ) (hP : 0 < P) :
    (inbOp dim a (P * m) P N F het x).Mass (fun k => tw N x k * hetMult het (x k)) := by
  intro f
  show ∑ i ∈ range (P * m + 1), (inbOp dim a (P * m) P N F het x).app f i = ∑ k ∈ range N, _
  simp only [inbOp_app, trapz_eq_nodes]
  rw [Finset.sum_comm]
  refine Finset.sum_congr rfl fun k _ => ?_
  rw [← Finset.mul_sum]
  have : ∑ i ∈ range (P * m + 1), inbWeight dim a (P * m) P N F het x k i * f k = hetMult het (x k) * f k := by
    rw [← Finset.sum_mul, inbWeight_sum dim a h m P N F hF0 hF1 het x k hP]
  rw [this]; ring

end DadiVerif.FromPhi
