import DadiVerif.Lemmas.KernelSweep
import DadiVerif.Lemmas.Step
/-!
Kernel programs, part 2 — what the statements of the expected kernel program do for ONE line.

`lineExec_expected`: executing the statements of `expected d ax false` (compute_dx / dfactor / xInt, the V / VInt / MInt
tabulations, Mfirst / Mlast, compute_delj, compute_abc_nobc, the load `r = phi[…]/dt`, the two corner terms, the solver, the
store) writes, at the flat positions the store index evaluates to, the implicit step `axisLine … .step` of the values read at
those positions — given what the coordinate arguments evaluate to (`ys`) and what the flat index evaluates to (`ix`), which
`Lemmas/KernelIndex.lean` supplies for every (d, ax).  `lineExec_expected_pre`: the same for the pre-computed-coefficient kernels.
-/
namespace DadiVerif
open Gen
namespace KProg

/-! ### state projections -/
@[simp] theorem setArr_arr (s : WState) (w w' : WArr) (f : ℕ → ℚ) : (s.setArr w f).arr w' = if w' = w then f else s.arr w' := rfl
@[simp] theorem setArr_sc (s : WState) (w : WArr) (f : ℕ → ℚ) : (s.setArr w f).sc = s.sc := rfl
@[simp] theorem setArr_phi (s : WState) (w : WArr) (f : ℕ → ℚ) : (s.setArr w f).phi = s.phi := rfl
@[simp] theorem setSc_arr (s : WState) (w : WSc) (v : ℚ) : (s.setSc w v).arr = s.arr := rfl
@[simp] theorem setSc_sc (s : WState) (w w' : WSc) (v : ℚ) : (s.setSc w v).sc w' = if w' = w then v else s.sc w' := rfl
@[simp] theorem setSc_phi (s : WState) (w : WSc) (v : ℚ) : (s.setSc w v).phi = s.phi := rfl
@[simp] theorem init_arr (phi : Array ℚ) (w : WArr) : (initState phi).arr w = fun _ => 0 := rfl
@[simp] theorem init_sc (phi : Array ℚ) (w : WSc) : (initState phi).sc w = 0 := rfl
@[simp] theorem init_phi (phi : Array ℚ) : (initState phi).phi = phi := rfl

/-! ### the calls -/
theorem callFn_Mfunc (d : ℕ) (u : ℚ) (ys ms : List ℚ) (g h : ℚ) (hy : ys.length = d - 1) (hm : ms.length = d - 1) :
    callFn (.Mfunc d) (u :: (ys ++ ms ++ [g, h])) = (Mkernel u ms ys g h).getD 0 := by
  have e1 : (ys ++ ms ++ [g, h]).take (d - 1) = ys := by
    rw [List.append_assoc]; exact List.take_left' hy
  have e2 : ((ys ++ ms ++ [g, h]).drop (d - 1)).take (d - 1) = ms := by
    rw [List.append_assoc, List.drop_left' hy]; exact List.take_left' hm
  have hlen : (ys ++ ms).length = 2 * (d - 1) := by rw [List.length_append, hy, hm]; ring
  have e3 : (ys ++ ms ++ [g, h]).getD (2 * (d - 1)) 0 = g := by
    rw [List.getD_eq_getElem?_getD, List.getElem?_append_right (by omega), hlen]; simp
  have e4 : (ys ++ ms ++ [g, h]).getD (2 * (d - 1) + 1) 0 = h := by
    rw [List.getD_eq_getElem?_getD, List.getElem?_append_right (by omega), hlen]; simp
  simp only [callFn, List.drop_succ_cons, List.drop_zero, List.getD_cons_zero, e1, e2, e3, e4]

theorem getD_of_isSome {α : Type} (o : Option α) (a b : α) (h : o.isSome) : o.getD a = o.getD b := by
  cases o with
  | none => simp at h
  | some x => rfl

theorem range_map_getD (l : List ℚ) (n : ℕ) (h : l.length = n) : (List.range n).map (fun i => l.getD i 0) = l := by
  subst h
  apply List.ext_getElem
  · simp
  · intro i h1 h2
    simp [List.getD_eq_getElem?_getD, List.getElem?_eq_getElem (by simpa using h1 : i < l.length)]

/-- arguments of an `Mfunc{d}D` call of the expected program: first argument, the coordinates, the rates, γ, h -/
theorem map_mArgs (d ax : ℕ) (env : KEnv) (vals : List ℕ) (s : WState) (j : ℕ) (e : RExpr) (ys : List ℚ)
    (hys : ∀ s j, (coordArgs d ax).map (evalExpr env vals s j) = ys) (hms : env.P.ms.length = d - 1) :
    (mArgs d ax e).map (evalExpr env vals s j) = evalExpr env vals s j e :: (ys ++ env.P.ms ++ [env.P.gamma, env.P.h]) := by
  simp only [mArgs, List.map_cons, List.map_append, hys s j, List.map_nil, evalExpr, evalSc, List.append_assoc]
  congr 2
  simp only [migArgs, List.map_map]
  have : (evalExpr env vals s j ∘ fun i => RExpr.sc (RScalar.mig i)) = fun i => env.P.ms.getD i 0 := by
    funext i; simp [evalExpr, evalSc]
  rw [this, range_map_getD _ _ hms]

/-- the guards of the corner terms test exactly the coordinates handed to `Mfunc` -/
theorem all_guardCmps (d ax n : ℕ) (env : KEnv) (vals : List ℕ) (s : WState) (ys : List ℚ)
    (hys : ∀ s j, (coordArgs d ax).map (evalExpr env vals s j) = ys) :
    (guardCmps d ax n).all (evalCmp env vals s) = ys.all (· == (n : ℚ)) := by
  rw [← hys s 0]
  simp only [guardCmps, coordArgs, List.all_map]
  rfl

theorem callFn_vFn (d : ℕ) (env : KEnv) (vals : List ℕ) (s : WState) (j : ℕ) (e : RExpr)
    (hβ : if d = 1 then env.P.beta.isSome = true else env.P.beta = none) :
    callFn (vFn d) ((vArgs d e).map (evalExpr env vals s j)) = env.P.V (evalExpr env vals s j e) := by
  by_cases hd : d = 1
  · rw [if_pos hd] at hβ
    obtain ⟨β, hb⟩ := Option.isSome_iff_exists.mp hβ
    simp [vFn, vArgs, hd, callFn, evalExpr, evalSc, AxisParams.V, hb]
  · rw [if_neg hd] at hβ
    simp [vFn, vArgs, hd, callFn, evalExpr, evalSc, AxisParams.V, hβ]

/-! ### `compute_dfactor` and the `Line` -/
theorem dfactorOf_eq_df (xs : Array ℚ) (hN : 2 ≤ xs.size) (V M : ℚ → ℚ) (delj : ℕ → ℚ) (nu dt : ℚ) (z o : Bool)
    (k : ℕ) (hk : k < xs.size) :
    dfactorOf (fun i => xs.getD (i + 1) 0 - xs.getD i 0) xs.size k = (mkLine xs V M delj nu z o dt).df k := by
  show _ = 2 / (Line.dxL _ k + Line.dxR _ k)
  unfold Line.dxL Line.dxR dfactorOf
  beta_reduce
  show _ = 2 / ((if k = 0 then 0 else xs.getD k 0 - xs.getD (k-1) 0) + (if k + 1 < xs.size then xs.getD (k+1) 0 - xs.getD k 0 else 0))
  by_cases h0 : k = 0
  · subst h0
    rw [if_pos rfl, if_pos rfl, if_pos (by omega)]; simp
  · rw [if_neg h0, if_neg h0]
    by_cases h1 : k + 1 = xs.size
    · rw [if_pos h1, if_neg (by omega)]
      have e : xs.size - 2 + 1 = k := by omega
      have e2 : xs.size - 2 = k - 1 := by omega
      rw [e, e2]; simp
    · rw [if_neg h1, if_pos (by omega)]
      have e : k - 1 + 1 = k := by omega
      rw [e, add_comm]

theorem bne_switch (use : Bool) : ((if use = true then (1 : ℚ) else 0) != 0) = use := by
  cases use <;> simp

/-- **the a, b (corner terms included), c arrays the statements build are the rows of the `Line`** -/
theorem rows_eq_line (xs : Array ℚ) (hN : 2 ≤ xs.size) (P : AxisParams) (ys : List ℚ) (use : Bool) (eps : ℕ → ℚ) (dt : ℚ)
    (Mc : ℚ → ℚ) (hMc : ∀ u, Mc u = (Mkernel u P.ms ys P.gamma P.h).getD (Mgen u P.ms ys P.gamma P.h)) (j : ℕ) (hj : j < xs.size) :
    let x : ℕ → ℚ := fun i => xs.getD i 0
    let dx : ℕ → ℚ := fun i => xs.getD (i + 1) 0 - xs.getD i 0
    let xInt : ℕ → ℚ := fun i => (1/2 : ℚ) * (xs.getD (i + 1) 0 + xs.getD i 0)
    let MI : ℕ → ℚ := fun i => Mc (xInt i)
    let VF : ℕ → ℚ := fun i => P.V (x i)
    let VI : ℕ → ℚ := fun i => P.V (xInt i)
    let dj := deljC use eps MI VI dx
    let df := dfactorOf dx xs.size
    let L := axisLine xs P ys use eps dt
    abcA dx df dj MI VF j = L.a j ∧
    abcB dx df dj MI VF dt xs.size j
        + (if ((ys.all (· == 0)) = true ∧ Mc (x 0) ≤ 0) ∧ j = 0 then C.bcFirst P.nu (Mc (x 0)) (dx 0) else 0)
        + (if ((ys.all (· == 1)) = true ∧ Mc (x (xs.size - 1)) ≥ 0) ∧ j = xs.size - 1 then
            C.bcLast P.nu (Mc (x (xs.size - 1))) (dx (xs.size - 2)) else 0)
      = L.b j ∧
    abcC dx df dj MI VF xs.size j = L.c j := by
  intro x dx xInt MI VF VI dj df L
  have hdf : ∀ k, k < xs.size → df k = L.df k := fun k hk => dfactorOf_eq_df xs hN _ _ _ _ _ _ _ k hk
  have hAt : ∀ k, L.At k = C.atemp (MI (k-1)) (dj (k-1)) (VF (k-1)) (VF k) (dx (k-1)) := by
    intro k
    simp only [L, axisLine, mkLine, MI, dj, VF, dx, xInt, x, VI, hMc]
  have hCt : ∀ k, L.Ct k = C.ctemp (MI (k-1)) (dj (k-1)) (VF (k-1)) (VF k) (dx (k-1)) := by
    intro k
    simp only [L, axisLine, mkLine, MI, dj, VF, dx, xInt, x, VI, hMc]
  have hLN : L.N = xs.size := rfl
  refine ⟨?_, ?_, ?_⟩
  · unfold abcA Line.a
    by_cases h0 : j = 0
    · simp [h0]
    · rw [if_neg h0, if_neg h0, hdf j hj, hAt]
  · unfold abcB Line.b
    rw [hLN, hAt, hCt, hdf j hj]
    have hbc : L.bc j =
        (if j = 0 ∧ (ys.all (· == 0)) = true ∧ Mc (x 0) ≤ 0 then C.bcFirst P.nu (Mc (x 0)) (dx 0) else 0)
        + (if j + 1 = xs.size ∧ (ys.all (· == 1)) = true ∧ Mc (x (xs.size - 1)) ≥ 0 then
            C.bcLast P.nu (Mc (x (xs.size - 1))) (dx (xs.size - 2)) else 0) := by
      simp only [L, axisLine, mkLine, hMc, x, dx]
    rw [hbc]
    have hj1 : (j = xs.size - 1) ↔ (j + 1 = xs.size) := by omega
    have e0 : (if ((ys.all (· == 0)) = true ∧ Mc (x 0) ≤ 0) ∧ j = 0 then C.bcFirst P.nu (Mc (x 0)) (dx 0) else 0)
        = (if j = 0 ∧ (ys.all (· == 0)) = true ∧ Mc (x 0) ≤ 0 then C.bcFirst P.nu (Mc (x 0)) (dx 0) else 0) := by
      by_cases c : j = 0 ∧ (ys.all (· == 0)) = true ∧ Mc (x 0) ≤ 0
      · rw [if_pos c, if_pos ⟨⟨c.2.1, c.2.2⟩, c.1⟩]
      · rw [if_neg c, if_neg (fun hc => c ⟨hc.2, hc.1.1, hc.1.2⟩)]
    have e1 : (if ((ys.all (· == 1)) = true ∧ Mc (x (xs.size - 1)) ≥ 0) ∧ j = xs.size - 1 then
            C.bcLast P.nu (Mc (x (xs.size - 1))) (dx (xs.size - 2)) else 0)
        = (if j + 1 = xs.size ∧ (ys.all (· == 1)) = true ∧ Mc (x (xs.size - 1)) ≥ 0 then
            C.bcLast P.nu (Mc (x (xs.size - 1))) (dx (xs.size - 2)) else 0) := by
      simp only [hj1]
      by_cases c : j + 1 = xs.size ∧ (ys.all (· == 1)) = true ∧ Mc (x (xs.size - 1)) ≥ 0
      · rw [if_pos c, if_pos ⟨⟨c.2.1, c.2.2⟩, c.1⟩]
      · rw [if_neg c, if_neg (fun hc => c ⟨hc.2, hc.1.1, hc.1.2⟩)]
    rw [e0, e1]
    have edt : L.dt = dt := rfl
    rw [edt]
    simp only [Nat.add_sub_cancel]
    by_cases h0 : j = 0
    · simp [h0]; ring
    · simp only [if_neg h0]; ring
  · unfold abcC Line.c
    rw [hLN]
    by_cases h1 : j + 1 < xs.size
    · rw [if_pos h1, if_pos h1, hdf j hj, hCt]; simp
    · rw [if_neg h1, if_neg h1]

/-! ### one line of the on-the-fly kernels -/
theorem eval_bcFirstExpr (env : KEnv) (vals : List ℕ) (s : WState) :
    evalExpr env vals s 0 bcFirstExpr = C.bcFirst env.P.nu (s.sc .Mfirst) (s.arr .dx 0) := by
  simp [bcFirstExpr, half, evalExpr, evalSc, lookRef, evalIx, evalBound, C.bcFirst]

theorem eval_bcLastExpr (ax : ℕ) (env : KEnv) (vals : List ℕ) (s : WState) :
    evalExpr env vals s 0 (bcLastExpr ax) = C.bcLast env.P.nu (s.sc .Mlast) (s.arr .dx (env.shape.getD ax 0 - 2)) := by
  simp [bcLastExpr, half, evalExpr, evalSc, lookRef, evalIx, evalBound, C.bcLast]

theorem exec_tridiagMalloc (env : KEnv) (vals : List ℕ) (s : WState) (args : List RArg) :
    execStmt env vals s (.proc .tridiagMalloc args) = s := rfl

theorem lineExec_expected (d ax : ℕ) (env : KEnv) (vals : List ℕ) (phi : Array ℚ)
    (hβ : if d = 1 then env.P.beta.isSome = true else env.P.beta = none)
    (hsize : (env.grids.getD ax #[]).size = env.shape.getD ax 0) (hN : 2 ≤ env.shape.getD ax 0)
    (ys : List ℚ) (hys : ∀ s j, (coordArgs d ax).map (evalExpr env vals s j) = ys)
    (hlen : ys.length = d - 1) (hms : env.P.ms.length = d - 1) (hd : d ≤ 5)
    (ix : ℕ → ℕ) (hix : ∀ j, evalIdx env vals j (expIdx d ax) = ix j) :
    lineExec (expected d ax false) env vals phi
      = writeLine (env.shape.getD ax 0) ix
          (fun j => listGetD ((axisLine (env.grids.getD ax #[]) env.P ys env.use (env.eps vals) env.dt).step
                      (fun j => phi.getD (ix j) 0)) j) phi := by
  have hM := fun s j e => map_mArgs d ax env vals s j e ys hys hms
  have hV := fun s j e => callFn_vFn d env vals s j e hβ
  have hG0 := fun s => all_guardCmps d ax 0 env vals s ys hys
  have hG1 := fun s => all_guardCmps d ax 1 env vals s ys hys
  set Mc : ℚ → ℚ := fun u => (Mkernel u env.P.ms ys env.P.gamma env.P.h).getD 0 with hMcdef
  have hcall : ∀ u, callFn (.Mfunc d) (u :: (ys ++ env.P.ms ++ [env.P.gamma, env.P.h])) = Mc u :=
    fun u => callFn_Mfunc d u ys env.P.ms env.P.gamma env.P.h hlen hms
  have hMc : ∀ u, Mc u = (Mkernel u env.P.ms ys env.P.gamma env.P.h).getD (Mgen u env.P.ms ys env.P.gamma env.P.h) :=
    fun u => getD_of_isSome _ _ _ (Mkernel_isSome u env.P.ms ys env.P.gamma env.P.h (by rw [hms, hlen]) (by omega))
  set xs := env.grids.getD ax #[] with hxs
  have hstm : (expected d ax false).stmts.foldl (execStmt env vals) (initState phi)
      = ((expStmts d ax).drop (if d = 1 then 0 else 1)).foldl (execStmt env vals) (initState phi) := by
    simp only [expected, Bool.false_eq_true, if_false, expStmts]
    split_ifs <;> simp [exec_tridiagMalloc]
  unfold lineExec
  rw [hstm]
  have hdrop : (expStmts d ax).drop (if d = 1 then 0 else 1) = (expStmts d ax).drop ((if d = 1 then [] else [RStmt.proc .tridiagMalloc [.ext (.dim ax 0)]] : List RStmt).length) := by
    split_ifs <;> rfl
  rw [hdrop]
  simp only [expStmts, List.drop_left, List.foldl_cons, List.foldl_nil]
  simp only [execStmt, execProc, wk, List.getD_cons_zero, List.getD_cons_succ, RArg.out, RArg.ref, RArg.bound, RArg.expr, lookRef,
    setArr_arr, setArr_sc, setArr_phi, setSc_arr, setSc_sc, setSc_phi, init_arr, init_sc, init_phi, reduceCtorEq, if_false, if_true,
    evalExpr, evalSc, evalIx, evalVar, evalBound, hM, hV, hcall, List.all_append, hG0, hG1, List.all_cons, List.all_nil, evalCmp,
    List.headD_cons, eval_bcFirstExpr, eval_bcLastExpr, bne_switch, Nat.sub_zero, Nat.zero_add, Nat.add_zero, hix, ← hxs, ← hsize,
    Bool.and_true, Bool.and_eq_true, decide_eq_true_eq, beq_iff_eq, Nat.cast_zero, Nat.cast_one]
  unfold writeLine
  congr 1
  funext a j
  congr 2
  unfold Line.step Line.rows
  congr 1
  have hLN : (axisLine xs env.P ys env.use (env.eps vals) env.dt).N = xs.size := rfl
  rw [hLN]
  apply List.map_congr_left
  intro k hk
  have hk' : k < xs.size := List.mem_range.mp hk
  obtain ⟨ha, hb, hc⟩ := rows_eq_line xs (by omega) env.P ys env.use (env.eps vals) env.dt Mc hMc k hk'
  simp only [Nat.zero_add] at ha hb hc
  rw [Row.mk.injEq]
  exact ⟨ha, hb, hc, rfl⟩

/-! ### one line of the pre-computed-coefficient kernels -/
theorem lineExec_expected_pre (d ax : ℕ) (env : KEnv) (vals : List ℕ) (phi : Array ℚ)
    (ix : ℕ → ℕ) (hix : ∀ j, evalIdx env vals j (expIdx d ax) = ix j) :
    lineExec (expected d ax true) env vals phi
      = writeLine (env.shape.getD ax 0) ix
          (fun j => listGetD (thomas ((List.range (env.shape.getD ax 0)).map fun j =>
              (⟨(env.coefs.getD 0 #[]).getD (ix j) 0, (env.coefs.getD 1 #[]).getD (ix j) 0 + 1 / env.dt,
                (env.coefs.getD 2 #[]).getD (ix j) 0, phi.getD (ix j) 0 / env.dt⟩ : Row))) j) phi := by
  unfold lineExec
  simp only [expected, if_true, expPreStmts, List.foldl_cons, List.foldl_nil, exec_tridiagMalloc]
  simp only [execStmt, execProc, wk, List.getD_cons_zero, List.getD_cons_succ, RArg.out, RArg.ref, RArg.bound, lookRef,
    setArr_arr, setArr_sc, setArr_phi, init_arr, init_phi, reduceCtorEq, if_false, if_true,
    evalExpr, evalSc, evalIx, evalVar, evalBound, List.headD_cons, Nat.sub_zero, Nat.zero_add, Nat.add_zero, hix, Nat.cast_one, div_one]
  unfold writeLine
  congr 1
  funext a j
  congr 3
  apply List.map_congr_left
  intro k _
  rw [Row.mk.injEq]
  refine ⟨rfl, rfl, rfl, ?_⟩
  rw [one_div, mul_comm, div_eq_mul_inv]

end KProg
end DadiVerif
