import DadiVerif.Lemmas.DemesGraph
import DadiVerif.Lemmas.DemesProgGraph
/-! C16 (round 5) — importing a SLICED graph (whole graph): every row of integration parameters the importer computes for the sliced graph on an
    interval `(x, y)`, `y ≥ 0`, is the row it computes for the original graph on `(x + t, y + t)`: live demes (same order), migration matrix,
    integration time, frozen flags, and the sizes of every live deme (values; constant, linear, exponential, cut epoch included). -/
namespace DadiVerif.DemesConv
open Gen.Demes

/-- a sliced epoch with its end size evaluated (`es = none` does not occur for constant / linear / exponential epochs) -/
def OutEpoch.toIn (ex lg : ℚ → ℚ) (pw : ℚ → ℚ → ℚ) (o : OutEpoch) : InEpoch :=
  { fn := o.fn, ss := o.ss, es := (o.es.map (Sym.eval ex lg pw)).getD 0, et := o.et }

/-- the sliced graph as a graph the importer reads -/
def sliceIn (ex lg : ℚ → ℚ) (pw : ℚ → ℚ → ℚ) (t : ℚ) (g : Graph InEpoch) : Graph InEpoch :=
  { demes := (sliceGraph t g).demes.map fun d =>
      { name := d.name, start := d.start, ancestors := d.ancestors, proportions := d.proportions, epochs := d.epochs.map (OutEpoch.toIn ex lg pw) }
    migs := (sliceGraph t g).migs, pulses := (sliceGraph t g).pulses }

/-- a time `t` earlier (`inf` stays) -/
def tadd (a : ETime) (t : ℚ) : ETime :=
  match a with
  | none => none
  | some v => some (v + t)

/-- shifting a time by `t` (`inf` stays) -/
theorem tge_tsub (a : ETime) (x t : ℚ) : tge (tsub a t) (some x) = tge a (some (x + t)) := by
  cases a with
  | none => rfl
  | some v => simp only [tsub, tge, decide_eq_decide]; constructor <;> intro h <;> linarith

theorem tle_tsub (v y t : ℚ) : tle (some (v - t)) (some y) = tle (some v) (some (y + t)) := by
  simp only [tle, tge, decide_eq_decide]; constructor <;> intro h <;> linarith

theorem tle_max0 (v y t : ℚ) (hy : 0 ≤ y) : tle (some (ratMax 0 (v - t))) (some y) = tle (some v) (some (y + t)) := by
  simp only [tle, tge, ratMax]
  split_ifs with h
  · rw [decide_eq_decide]; constructor <;> intro h' <;> linarith
  · rw [decide_eq_decide]
    constructor
    · intro _; linarith
    · intro _; exact hy

/-! ### migration -/

/-- `_migration_rate_in_interval` on the sliced graph (asymmetric migrations: a resolved graph) -/
theorem migRate_slice (hstep : ∀ (r : ℚ) (m : GMig) (s d : DName) (i0 i1 : ETime), m.sym = none →
      migRateStep r m s d i0 i1 = if (m.source == s && m.dest == d && (tge m.st i0 && tle (some m.et) i1)) then m.rate else r)
    (t : ℚ) (ht : t ≠ 0) (g : Graph InEpoch) (hasym : ∀ m ∈ g.migs, m.sym = none) (s d : DName) (x : ETime) (y : ℚ) (hy : 0 ≤ y)
    (hx : tgt x (some y) = true) :
    migRate (sliceGraph t g).migs s d x (some y) = migRate g.migs s d (tadd x t) (some (y + t)) := by
  have h0 : (t == 0) = false := by simpa using ht
  unfold migRate sliceGraph
  simp only [h0, Bool.false_eq_true, if_false]
  generalize migRateInit = r0
  have hgen : ∀ (l : List GMig), (∀ m ∈ l, m.sym = none) → ∀ r : ℚ,
      (l.filterMap (fun (m : GMig) => (if (tle m.st (some t)) then none else some { m with st := (tsub m.st t), et := (ratMax (0 : ℚ) (m.et - t)) }))).foldl
          (fun r m => migRateStep r m s d x (some y)) r
        = l.foldl (fun r m => migRateStep r m s d (tadd x t) (some (y + t))) r := by
    intro l
    induction l with
    | nil => intro _ r; rfl
    | cons m ms ih =>
      intro hl r
      have hm := hl m List.mem_cons_self
      have ih' := ih (fun q hq => hl q (List.mem_cons_of_mem _ hq))
      rw [List.filterMap_cons, List.foldl_cons, hstep r m s d _ _ hm]
      by_cases hk : tle m.st (some t) = true
      · -- dropped: it does not cover the shifted interval either (the interval starts after `t`)
        simp only [hk, if_true]
        have hno : tge m.st (tadd x t) = false := by
          unfold tadd
          cases x with
          | none =>
            cases hst : m.st with
            | none => rw [hst] at hk; simp [tle, tge] at hk
            | some v => rfl
          | some v =>
            cases hst : m.st with
            | none => rw [hst] at hk; simp [tle, tge] at hk
            | some w =>
              rw [hst] at hk
              simp only [tle, tge, decide_eq_true_eq] at hk
              have hv : y < v := by
                have := hx
                simp only [tgt, tle, tge, Bool.not_eq_true', decide_eq_false_iff_not, not_le] at this
                exact this
              simp only [tge, decide_eq_false_iff_not, not_le]
              linarith
        rw [hno]
        simp only [Bool.false_and, Bool.and_false, Bool.false_eq_true, if_false]
        exact ih' r
      · simp only [hk, Bool.false_eq_true, if_false, List.foldl_cons]
        rw [hstep r _ s d _ _ (by simpa using hm)]
        have h1 : tge (tsub m.st t) x = tge m.st (tadd x t) := by
          unfold tadd
          cases x with
          | none => cases m.st <;> rfl
          | some v => exact tge_tsub m.st v t
        simp only [h1, tle_max0 m.et y t hy]
        exact ih' _
  exact hgen g.migs hasym r0

/-! ### sizes of one deme -/

/-- `_sizes_at_time` on a list of epoch objects -/
def sizesOn (eps : List Epoch) (i0 i1 : ETime) : Option (SizeFn × Sym × Sym) :=
  match epochSearch eps i0 i1 with
  | none => none
  | some e => (epochSizes e i0 i1).map fun p => (e.fn, p.1, p.2)

theorem demeSizes_eq (d : GDeme InEpoch) (i0 i1 : ETime) : demeSizes d i0 i1 = sizesOn (epochsOf d.start d.epochs) i0 i1 := rfl

/-- the facts about the generated `_sizes_at_time` / `_size_at` / epoch search the whole-deme statement rests on (proved in `Props/C16.lean`) -/
structure SliceFacts (ex lg : ℚ → ℚ) (pw : ℚ → ℚ → ℚ) : Prop where
  search : ∀ (eps : List Epoch) (i0 i1 : ETime), epochSearch eps i0 i1 = forBreak (fun e => tge e.st i0 && tle e.et i1) eps
  /-- an epoch with finite start that is not cut: moved by `t` -/
  shift : ∀ (fn : SizeFn) (ss es s et x y t : ℚ),
    sizesAt fn ss es (some (s - t)) (some (et - t)) (s - et) (some x) (some y) = sizesAt fn ss es (some s) (some et) (s - et) (some (x + t)) (some (y + t))
  /-- the (constant) epoch that starts at `inf` -/
  const : ∀ (ss : ℚ) (st et : ETime) (sp : ℚ) (i0 i1 : ETime), sizesAt SizeFn.constant ss ss st et sp i0 i1 = some (Sym.r ss, Sym.r ss)
  /-- the cut epoch (`C16_slice_sizes`) -/
  cut : ∀ (fn : SizeFn) (t ss es s et es' : ℚ), ss ≠ 0 → s - et ≠ 0 → s - t ≠ 0 → et ≤ t → (fn = SizeFn.constant → es = ss) →
    (sliceSizeAt fn t ss es (some s) et).map (Sym.eval ex lg pw) = some es' → ∀ (x y : ℚ), 0 ≤ y →
    (sizesAt fn ss es' (some (s - t)) (some 0) (s - t - 0) (some x) (some y)).map (evalPair ex lg pw)
      = (sizesAt fn ss es (some s) (some et) (s - et) (some (x + t)) (some (y + t))).map (evalPair ex lg pw)
  cutSome : ∀ (fn : SizeFn) (t ss es : ℚ) (st : ETime) (et : ℚ), fn ≠ SizeFn.other → (sliceSizeAt fn t ss es st et).isSome = true
  cutConst : ∀ (t ss es : ℚ) (st : ETime) (et : ℚ), sliceSizeAt SizeFn.constant t ss es st et = some (Sym.r ss)

/-- well-formed epochs of a deme starting at `st`: end times strictly decreasing and below the start, sizes non-zero, a known size function,
    an epoch that starts at `inf` constant, a constant epoch with equal start and end size -/
def epochsWf : ETime → List InEpoch → Prop
  | _, [] => True
  | st, e :: rest => tgt st (some e.et) = true ∧ e.ss ≠ 0 ∧ e.fn ≠ SizeFn.other ∧ ((st = none → e.fn = SizeFn.constant) ∧ (e.fn = SizeFn.constant → e.es = e.ss))
      ∧ epochsWf (some e.et) rest

theorem forBreak_cons_true {α : Type} (c : α → Bool) (a : α) (l : List α) (h : c a = true) : forBreak c (a :: l) = some a := by
  simp [forBreak, List.find?_cons, h]

theorem forBreak_cons_false {α : Type} (c : α → Bool) (a : α) (l : List α) (h : c a = false) (hl : ∃ b ∈ l, c b = true) : forBreak c (a :: l) = forBreak c l := by
  obtain ⟨b, hb, hcb⟩ := hl
  have h1 : (l.find? c).isSome = true := by
    rw [List.find?_isSome]; exact ⟨b, hb, hcb⟩
  unfold forBreak
  rw [List.find?_cons, h]
  cases hf : l.find? c with
  | none => rw [hf] at h1; cases h1
  | some v => rfl

/-- later epochs of the original deme (starting at or before the slice time) never cover an interval that ends at or after it and has positive length -/
theorem no_cover_after (st : ETime) (E : List InEpoch) (hwf : epochsWf st E) (t : ℚ) (hst : tle st (some t) = true) (x : ETime) (y : ℚ) (hy : 0 ≤ y)
    (hx : tgt x (some y) = true) : ∀ e ∈ epochsOf st E, (tge e.st (tadd x t) && tle e.et (some (y + t))) = false := by
  induction E generalizing st with
  | nil => intro e he; cases he
  | cons a rest ih =>
    intro e he
    obtain ⟨h1, _, _, _, h5⟩ := hwf
    simp only [epochsOf, List.mem_cons] at he
    have hstv : ∃ v, st = some v ∧ v ≤ t := by
      cases st with
      | none => simp [tle, tge] at hst
      | some v => exact ⟨v, rfl, by simpa [tle, tge] using hst⟩
    obtain ⟨v, rfl, hv⟩ := hstv
    have hlt : tge (some v) (tadd x t) = false := by
      unfold tadd
      cases x with
      | none => rfl
      | some w =>
        have hw : y < w := by simpa [tgt, tle, tge] using hx
        simp only [tge, decide_eq_false_iff_not, not_le]
        linarith
    rcases he with rfl | he
    · simp [hlt]
    · have ha : a.et < v := by simpa [tgt, tle, tge] using h1
      exact ih (some a.et) h5 (by simp [tle, tge]; linarith) e he

theorem tge_tsub' (a x : ETime) (t : ℚ) : tge (tsub a t) x = tge a (tadd x t) := by
  unfold tadd
  cases x with
  | none => cases a <;> rfl
  | some v => exact tge_tsub a v t

def covers (x : ETime) (y : ℚ) (e : Epoch) : Bool := tge e.st x && tle e.et (some y)

abbrev epochObj (st : ETime) (a : InEpoch) : Epoch := { fn := a.fn, ss := a.ss, es := a.es, st := st, et := some a.et }

abbrev cutIn (ex lg : ℚ → ℚ) (pw : ℚ → ℚ → ℚ) (t : ℚ) (st : ETime) (a : InEpoch) : InEpoch :=
  OutEpoch.toIn ex lg pw { fn := a.fn, ss := a.ss, es := sliceSizeAt a.fn t a.ss a.es st a.et, et := 0 }

theorem epochsOf_cons (st : ETime) (a : InEpoch) (rest : List InEpoch) : epochsOf st (a :: rest) = epochObj st a :: epochsOf (some a.et) rest := rfl

theorem sizesOn_cons_true {ex lg : ℚ → ℚ} {pw : ℚ → ℚ → ℚ} (F : SliceFacts ex lg pw) (e : Epoch) (l : List Epoch) (x : ETime) (y : ℚ)
    (h : covers x y e = true) : sizesOn (e :: l) x (some y) = (epochSizes e x (some y)).map fun p => (e.fn, p.1, p.2) := by
  unfold sizesOn
  rw [F.search, show (fun e : Epoch => tge e.st x && tle e.et (some y)) = covers x y from rfl, forBreak_cons_true _ _ _ h]

theorem sizesOn_cons_false {ex lg : ℚ → ℚ} {pw : ℚ → ℚ → ℚ} (F : SliceFacts ex lg pw) (e : Epoch) (l : List Epoch) (x : ETime) (y : ℚ)
    (h : covers x y e = false) (hl : ∃ b ∈ l, covers x y b = true) : sizesOn (e :: l) x (some y) = sizesOn l x (some y) := by
  unfold sizesOn
  rw [F.search, F.search, show (fun e : Epoch => tge e.st x && tle e.et (some y)) = covers x y from rfl, forBreak_cons_false _ _ _ h hl]

/-- **`_sizes_at_time` on a sliced deme** = `_sizes_at_time` on the original deme for the interval moved by the slice time: the same epoch is
    chosen, and its sizes (values) are the same — uncut epochs are merely shifted, the cut epoch carries the size `_size_at` computed -/
theorem sizesOn_slice {ex lg : ℚ → ℚ} {pw : ℚ → ℚ → ℚ} (F : SliceFacts ex lg pw) (t : ℚ) (st : ETime) (E : List InEpoch) (hwf : epochsWf st E)
    (hst : tgt st (some t) = true) (x : ETime) (y : ℚ) (hy : 0 ≤ y) (hx : tgt x (some y) = true)
    (hcov : ∃ e ∈ epochsOf st E, covers (tadd x t) (y + t) e = true) :
    (∃ e ∈ epochsOf (tsub st t) ((sliceSpec t st E).map (OutEpoch.toIn ex lg pw)), covers x y e = true)
    ∧ (sizesOn (epochsOf (tsub st t) ((sliceSpec t st E).map (OutEpoch.toIn ex lg pw))) x (some y)).map (evalSizes ex lg pw)
        = (sizesOn (epochsOf st E) (tadd x t) (some (y + t))).map (evalSizes ex lg pw) := by
  induction E generalizing st with
  | nil => obtain ⟨e, he, _⟩ := hcov; cases he
  | cons a rest ih =>
    obtain ⟨h1, hss, hfn, hinf, h5⟩ := hwf
    rw [epochsOf_cons] at hcov ⊢
    by_cases hcut : a.et ≤ t
    · -- the epoch that contains the slice time
      have hrest : ∀ e ∈ epochsOf (some a.et) rest, covers (tadd x t) (y + t) e = false :=
        no_cover_after (some a.et) rest h5 t (by simp [tle, tge]; exact hcut) x y hy hx
      have hhead : covers (tadd x t) (y + t) (epochObj st a) = true := by
        obtain ⟨e, he, hc⟩ := hcov
        rcases List.mem_cons.1 he with rfl | he
        · exact hc
        · rw [hrest e he] at hc; cases hc
      have hge : tge st (tadd x t) = true := by
        simp only [covers, Bool.and_eq_true] at hhead; exact hhead.1
      have hsl : (sliceSpec t st (a :: rest)).map (OutEpoch.toIn ex lg pw) = [cutIn ex lg pw t st a] := by
        simp only [sliceSpec, hcut, if_true, List.map_cons, List.map_nil]
      rw [hsl, epochsOf_cons]
      have hc' : covers x y (epochObj (tsub st t) (cutIn ex lg pw t st a)) = true := by
        simp only [covers, Bool.and_eq_true]
        refine ⟨by rw [tge_tsub']; exact hge, ?_⟩
        simp only [OutEpoch.toIn, tle, tge, decide_eq_true_eq]
        exact hy
      refine ⟨⟨_, List.mem_cons_self, hc'⟩, ?_⟩
      rw [sizesOn_cons_true F _ _ _ _ hc', sizesOn_cons_true F _ _ _ _ hhead]
      simp only [epochSizes, Epoch.span, OutEpoch.toIn, tval, Option.map_map]
      cases st with
      | none =>
        have hc1 := hinf.1 rfl
        have hc2 := hinf.2 hc1
        simp only [hc1, hc2, F.cutConst, Option.map_some, Sym.eval, Option.getD_some, F.const, Function.comp, evalSizes]
      | some s =>
        cases x with
        | none => simp [tadd, tge] at hge
        | some xv =>
          have hs : a.et < s := by simpa [tgt, tle, tge] using h1
          have hst' : t < s := by simpa [tgt, tle, tge] using hst
          have hsome := F.cutSome a.fn t a.ss a.es (some s) a.et hfn
          cases hv : sliceSizeAt a.fn t a.ss a.es (some s) a.et with
          | none => rw [hv] at hsome; cases hsome
          | some term =>
            have hcutF := F.cut a.fn t a.ss a.es s a.et (term.eval ex lg pw) hss (by linarith) (by linarith) hcut hinf.2 (by rw [hv]; rfl) xv y hy
            simp only [tsub, tval, tadd, Option.map_some, Option.getD_some, sub_zero] at hcutF ⊢
            cases h3 : sizesAt a.fn a.ss (term.eval ex lg pw) (some (s - t)) (some 0) (s - t) (some xv) (some y) <;>
              cases h4 : sizesAt a.fn a.ss a.es (some s) (some a.et) (s - a.et) (some (xv + t)) (some (y + t)) <;>
              rw [h3, h4] at hcutF <;> simp at hcutF
            all_goals first
              | rfl
              | (simp only [evalPair, Prod.mk.injEq] at hcutF
                 simp only [Option.map_some, Function.comp, evalSizes, Option.some.injEq, Prod.mk.injEq, true_and]
                 exact hcutF)
    · -- an epoch older than the slice time: shifted
      have hgt : t < a.et := not_le.1 hcut
      have hsl : (sliceSpec t st (a :: rest)).map (OutEpoch.toIn ex lg pw)
          = { fn := a.fn, ss := a.ss, es := a.es, et := a.et - t } :: (sliceSpec t (some a.et) rest).map (OutEpoch.toIn ex lg pw) := by
        simp [sliceSpec, hcut, OutEpoch.toIn, Sym.eval]
      rw [hsl, epochsOf_cons]
      by_cases hc : covers (tadd x t) (y + t) (epochObj st a) = true
      · have hc' : covers x y (epochObj (tsub st t) { fn := a.fn, ss := a.ss, es := a.es, et := a.et - t }) = true := by
          simp only [covers, Bool.and_eq_true] at hc ⊢
          rw [tge_tsub', tle_tsub]
          exact hc
        refine ⟨⟨_, List.mem_cons_self, hc'⟩, ?_⟩
        rw [sizesOn_cons_true F _ _ _ _ hc', sizesOn_cons_true F _ _ _ _ hc]
        simp only [epochSizes, Epoch.span, tval]
        cases st with
        | none =>
          have hc1 := hinf.1 rfl
          have hc2 := hinf.2 hc1
          simp only [hc1, hc2, F.const]
        | some s =>
          have hge : tge (some s) (tadd x t) = true := by simp only [covers, Bool.and_eq_true] at hc; exact hc.1
          cases x with
          | none => simp [tadd, tge] at hge
          | some xv =>
            simp only [tsub, tval, tadd]
            have : s - t - (a.et - t) = s - a.et := by ring
            rw [this, F.shift]
      · have hcf : covers (tadd x t) (y + t) (epochObj st a) = false := by simpa using hc
        have hcf' : covers x y (epochObj (tsub st t) { fn := a.fn, ss := a.ss, es := a.es, et := a.et - t }) = false := by
          simp only [covers] at hcf ⊢
          rw [tge_tsub', tle_tsub]
          exact hcf
        have hcov' : ∃ e ∈ epochsOf (some a.et) rest, covers (tadd x t) (y + t) e = true := by
          obtain ⟨e, he, hce⟩ := hcov
          rcases List.mem_cons.1 he with rfl | he
          · rw [hcf] at hce; cases hce
          · exact ⟨e, he, hce⟩
        obtain ⟨i1, i2⟩ := ih (some a.et) h5 (by simp [tgt, tle, tge]; exact hgt) hcov'
        have hts : tsub (some a.et) t = some (a.et - t) := rfl
        rw [hts] at i1 i2
        refine ⟨?_, ?_⟩
        · obtain ⟨e, he, hce⟩ := i1
          exact ⟨e, List.mem_cons_of_mem _ he, hce⟩
        · rw [sizesOn_cons_false F _ _ _ _ hcf' i1, sizesOn_cons_false F _ _ _ _ hcf hcov']
          exact i2

/-! ### the live demes of an interval -/

theorem insByStart_map_mono (f : GDeme InEpoch → GDeme InEpoch) (hf : ∀ a b : GDeme InEpoch, tge (f a).start (f b).start = tge a.start b.start)
    (d : GDeme InEpoch) (l : List (GDeme InEpoch)) : insByStart (f d) (l.map f) = (insByStart d l).map f := by
  induction l with
  | nil => rfl
  | cons x xs ih =>
    simp only [List.map_cons, insByStart, hf]
    split_ifs <;> simp [ih]

theorem orderDemes_map_mono (f : GDeme InEpoch → GDeme InEpoch) (hf : ∀ a b : GDeme InEpoch, tge (f a).start (f b).start = tge a.start b.start)
    (l : List (GDeme InEpoch)) : orderDemes (l.map f) = (orderDemes l).map f := by
  unfold orderDemes
  have : ∀ acc : List (GDeme InEpoch), (l.map f).foldl (fun acc d => insByStart d acc) (acc.map f) = (l.foldl (fun acc d => insByStart d acc) acc).map f := by
    induction l with
    | nil => intro acc; rfl
    | cons d t ih =>
      intro acc
      simp only [List.map_cons, List.foldl_cons]
      rw [insByStart_map_mono f hf, ih]
  exact this []

/-- descending by start time (ties allowed) -/
def DescS (l : List (GDeme InEpoch)) : Prop := l.Pairwise fun a b => tge a.start b.start = true

theorem mem_insByStart (d x : GDeme InEpoch) (l : List (GDeme InEpoch)) : x ∈ insByStart d l ↔ x = d ∨ x ∈ l :=
  ⟨fun h => List.mem_cons.1 ((perm_insByStart d l).subset h), fun h => (perm_insByStart d l).symm.subset (List.mem_cons.2 h)⟩

theorem insByStart_desc (d : GDeme InEpoch) (l : List (GDeme InEpoch)) (h : DescS l) : DescS (insByStart d l) := by
  induction l with
  | nil => simp [insByStart, DescS]
  | cons x xs ih =>
    have hx := List.pairwise_cons.1 h
    unfold insByStart
    by_cases hge : tge x.start d.start = true
    · simp only [hge, if_true]
      refine List.pairwise_cons.2 ⟨?_, ih hx.2⟩
      intro b hb
      rcases (mem_insByStart d b xs).1 hb with rfl | hb
      · exact hge
      · exact hx.1 b hb
    · simp only [hge, Bool.false_eq_true, if_false]
      have hlt : tge d.start x.start = true := by
        rw [tge_iff]
        have : ¬ tw d.start ≤ tw x.start := fun e => hge ((tge_iff _ _).2 e)
        exact le_of_lt (not_le.1 this)
      refine List.pairwise_cons.2 ⟨?_, h⟩
      intro b hb
      rcases List.mem_cons.1 hb with rfl | hb
      · exact hlt
      · rw [tge_iff] at hlt ⊢
        exact le_trans ((tge_iff _ _).1 (hx.1 b hb)) hlt

theorem orderDemes_desc (l : List (GDeme InEpoch)) : DescS (orderDemes l) := by
  unfold orderDemes
  have : ∀ acc : List (GDeme InEpoch), DescS acc → DescS (l.foldl (fun acc d => insByStart d acc) acc) := by
    induction l with
    | nil => intro acc h; exact h
    | cons d t ih => intro acc h; exact ih _ (insByStart_desc d acc h)
  exact this [] List.Pairwise.nil

theorem insByStart_filter (p : GDeme InEpoch → Bool) (d : GDeme InEpoch) (l : List (GDeme InEpoch)) (h : DescS l) :
    (insByStart d l).filter p = if p d then insByStart d (l.filter p) else l.filter p := by
  induction l with
  | nil => cases h : p d <;> simp [insByStart, h]
  | cons x xs ih =>
    have hx := List.pairwise_cons.1 h
    simp only [insByStart]
    by_cases hge : tge x.start d.start = true
    · simp only [hge, if_true, List.filter_cons, ih hx.2]
      cases hp : p x <;> cases hd : p d <;> simp [insByStart, hge]
    · simp only [hge, Bool.false_eq_true, if_false, List.filter_cons]
      cases hp : p x <;> cases hd : p d <;> simp [insByStart, hge]
      -- `x` is dropped and starts after `d`… every later element starts no later than `x`, hence before `d`: `d` goes in front
      have hall : ∀ b ∈ xs.filter p, tge b.start d.start = false := by
        intro b hb
        have hb' := hx.1 b (List.mem_of_mem_filter hb)
        rw [← Bool.not_eq_true, tge_iff]
        have h1 : ¬ tw d.start ≤ tw x.start := fun e => hge ((tge_iff _ _).2 e)
        have h2 := (tge_iff _ _).1 hb'
        exact fun e => h1 (le_trans e h2)
      cases hf : xs.filter p with
      | nil => rfl
      | cons b t =>
        have := hall b (by rw [hf]; exact List.mem_cons_self)
        simp [insByStart, this]

theorem orderDemes_filter (p : GDeme InEpoch → Bool) (l : List (GDeme InEpoch)) : orderDemes (l.filter p) = (orderDemes l).filter p := by
  unfold orderDemes
  have : ∀ acc : List (GDeme InEpoch), DescS acc → (l.filter p).foldl (fun acc d => insByStart d acc) (acc.filter p)
      = (l.foldl (fun acc d => insByStart d acc) acc).filter p := by
    induction l with
    | nil => intro acc _; rfl
    | cons d t ih =>
      intro acc hacc
      rw [List.foldl_cons, ← ih _ (insByStart_desc d acc hacc), insByStart_filter p d acc hacc, List.filter_cons]
      cases hd : p d <;> simp
  exact this [] List.Pairwise.nil

/-- a deme of the sliced graph, as the importer reads it -/
def sliceDemeIn (ex lg : ℚ → ℚ) (pw : ℚ → ℚ → ℚ) (t : ℚ) (d : GDeme InEpoch) : GDeme InEpoch :=
  { name := d.name, start := tsub d.start t, ancestors := d.ancestors, proportions := d.proportions,
    epochs := (sliceSpec t d.start d.epochs).map (OutEpoch.toIn ex lg pw) }

/-- end time of a deme that starts at `st` with the epochs `E` -/
def endOf (st : ETime) (E : List InEpoch) : ETime :=
  match E.getLast? with
  | some e => some e.et
  | none => st

theorem endTime_eq (d : GDeme InEpoch) : d.endTime = endOf d.start d.epochs := rfl

theorem endOf_cons (st : ETime) (a : InEpoch) (rest : List InEpoch) : endOf st (a :: rest) = endOf (some a.et) rest := by
  unfold endOf
  cases rest with
  | nil => rfl
  | cons b t =>
    rw [List.getLast?_cons_cons]
    have : ((b :: t).getLast?).isSome = true := by simp
    cases h : (b :: t).getLast? with
    | none => rw [h] at this; cases this
    | some e => rfl

theorem endOf_le (st : ETime) (E : List InEpoch) (hwf : epochsWf st E) : tle (endOf st E) st = true := by
  induction E generalizing st with
  | nil => simp only [endOf, List.getLast?_nil, tle_iff]; exact le_refl _
  | cons a rest ih =>
    obtain ⟨h1, _, _, _, h5⟩ := hwf
    rw [endOf_cons, tle_iff]
    exact le_trans ((tle_iff _ _).1 (ih _ h5)) (le_of_lt ((tgt_iff _ _).1 h1))

theorem tle_tsub' (a : ETime) (y t : ℚ) : tle (tsub a t) (some y) = tle a (some (y + t)) := by
  cases a with
  | none => rfl
  | some v => exact tle_tsub v y t

theorem endOf_slice (ex lg : ℚ → ℚ) (pw : ℚ → ℚ → ℚ) (t : ℚ) (st : ETime) (E : List InEpoch) (hwf : epochsWf st E) (y : ℚ) (hy : 0 ≤ y) :
    tle (endOf (tsub st t) ((sliceSpec t st E).map (OutEpoch.toIn ex lg pw))) (some y) = tle (endOf st E) (some (y + t)) := by
  induction E generalizing st with
  | nil => simp only [sliceSpec, List.map_nil, endOf, List.getLast?_nil]; exact tle_tsub' st y t
  | cons a rest ih =>
    obtain ⟨h1, _, _, _, h5⟩ := hwf
    by_cases hcut : a.et ≤ t
    · have hsl : (sliceSpec t st (a :: rest)).map (OutEpoch.toIn ex lg pw) = [cutIn ex lg pw t st a] := by
        simp only [sliceSpec, hcut, if_true, List.map_cons, List.map_nil]
      rw [hsl, endOf_cons]
      have h2 : tle (endOf (some a.et) rest) (some a.et) = true := endOf_le _ _ h5
      have lhs : tle (endOf (some (cutIn ex lg pw t st a).et) []) (some y) = true := by
        simp only [endOf, List.getLast?_nil, OutEpoch.toIn, tle, tge, decide_eq_true_eq]; exact hy
      rw [endOf_cons, lhs]
      symm
      rw [tle_iff] at h2 ⊢
      refine le_trans h2 ?_
      show tw (some a.et) ≤ tw (some (y + t))
      simp only [tw]
      exact WithTop.coe_le_coe.2 (by linarith)
    · have hsl : (sliceSpec t st (a :: rest)).map (OutEpoch.toIn ex lg pw)
          = { fn := a.fn, ss := a.ss, es := a.es, et := a.et - t } :: (sliceSpec t (some a.et) rest).map (OutEpoch.toIn ex lg pw) := by
        simp [sliceSpec, hcut, OutEpoch.toIn, Sym.eval]
      rw [hsl, endOf_cons, endOf_cons]
      exact ih (some a.et) h5

/-- a well-formed deme: its epochs are, and it has at least one -/
def demeWf (d : GDeme InEpoch) : Prop := epochsWf d.start d.epochs

theorem tge_tsub_tsub (a b : ETime) (t : ℚ) : tge (tsub a t) (tsub b t) = tge a b := by
  cases a <;> cases b <;> simp [tsub, tge]

/-- **the demes alive in an interval of the sliced graph** are those alive in the interval of the original moved by the slice time, in the
    same order -/
theorem liveIn_slice (hpres : ∀ s e i0 i1 : ETime, demePresent s e i0 i1 = (tge s i0 && tle e i1)) (ex lg : ℚ → ℚ) (pw : ℚ → ℚ → ℚ) (t : ℚ)
    (ht : 0 < t) (g g' : Graph InEpoch) (hsl : g'.demes = (g.demes.filter fun d => !tle d.start (some t)).map (sliceDemeIn ex lg pw t))
    (hwf : ∀ d ∈ g.demes, demeWf d) (x : ETime) (y : ℚ) (hy : 0 ≤ y) (hx : tgt x (some y) = true) :
    liveIn g' x (some y) = (liveIn g (tadd x t) (some (y + t))).map (sliceDemeIn ex lg pw t) := by
  unfold liveIn
  rw [hsl, orderDemes_map_mono (sliceDemeIn ex lg pw t) (fun a b => tge_tsub_tsub a.start b.start t), orderDemes_filter, List.filter_map, List.filter_filter]
  congr 1
  apply List.filter_congr
  intro d hd
  have hdm : d ∈ g.demes := (perm_orderDemes g.demes).subset hd
  simp only [Function.comp, hpres, endTime_eq]
  have he := endOf_slice ex lg pw t d.start d.epochs (hwf d hdm) y hy
  show (tge (tsub d.start t) x && tle (endOf (tsub d.start t) ((sliceSpec t d.start d.epochs).map (OutEpoch.toIn ex lg pw))) (some y) && !tle d.start (some t))
      = (tge d.start (tadd x t) && tle (endOf d.start d.epochs) (some (y + t)))
  rw [he, tge_tsub']
  -- a deme alive in the moved interval starts after the slice time
  cases hge : tge d.start (tadd x t)
  · simp
  · have : tle d.start (some t) = false := by
      rw [← Bool.not_eq_true, tle_iff]
      have h1 := (tge_iff _ _).1 hge
      have h2 : tw (some t) < tw (tadd x t) := by
        unfold tadd
        cases x with
        | none => exact WithTop.coe_lt_top _
        | some xv =>
          have : y < xv := by simpa [tgt, tle, tge] using hx
          show ((t : ℚ) : WithTop ℚ) < ((xv + t : ℚ) : WithTop ℚ)
          exact WithTop.coe_lt_coe.2 (by linarith)
      exact not_le.2 (lt_of_lt_of_le h2 h1)
    simp [this]

theorem demeSizes_slice {ex lg : ℚ → ℚ} {pw : ℚ → ℚ → ℚ} (F : SliceFacts ex lg pw) (t : ℚ) (d : GDeme InEpoch) (hwf : demeWf d)
    (hst : tgt d.start (some t) = true) (x : ETime) (y : ℚ) (hy : 0 ≤ y) (hx : tgt x (some y) = true)
    (hcov : ∃ e ∈ epochsOf d.start d.epochs, covers (tadd x t) (y + t) e = true) :
    (demeSizes (sliceDemeIn ex lg pw t d) x (some y)).map (evalSizes ex lg pw) = (demeSizes d (tadd x t) (some (y + t))).map (evalSizes ex lg pw) := by
  rw [demeSizes_eq, demeSizes_eq]
  exact (sizesOn_slice F t d.start d.epochs hwf hst x y hy hx hcov).2

/-- **one row of the plan of the sliced graph = the row of the original graph on the interval moved by the slice time**: integration time,
    live demes in axis order, frozen flags, migration matrix, the all-constant flag, and the sizes `_sizes_at_time` finds for every live deme
    (values) -/
theorem planRow_slice {ex lg : ℚ → ℚ} {pw : ℚ → ℚ → ℚ} (F : SliceFacts ex lg pw)
    (hpres : ∀ s e i0 i1 : ETime, demePresent s e i0 i1 = (tge s i0 && tle e i1))
    (hstep : ∀ (r : ℚ) (m : GMig) (s d : DName) (i0 i1 : ETime), m.sym = none →
      migRateStep r m s d i0 i1 = if (m.source == s && m.dest == d && (tge m.st i0 && tle (some m.et) i1)) then m.rate else r)
    (hT : ∀ (x : ETime) (y t Ne : ℚ), intTime x (some y) Ne = intTime (tadd x t) (some (y + t)) Ne)
    (t : ℚ) (ht : 0 < t) (g g' : Graph InEpoch)
    (hsl : g'.demes = (g.demes.filter fun d => !tle d.start (some t)).map (sliceDemeIn ex lg pw t)) (hmig : g'.migs = (sliceGraph t g).migs)
    (hwf : ∀ d ∈ g.demes, demeWf d) (hasym : ∀ m ∈ g.migs, m.sym = none) (fz : List DName) (Ne : ℚ) (x : ETime) (y : ℚ) (hy : 0 ≤ y)
    (hx : tgt x (some y) = true)
    (hcov : ∀ d ∈ liveIn g (tadd x t) (some (y + t)), ∃ e ∈ epochsOf d.start d.epochs, covers (tadd x t) (y + t) e = true) :
    planRow g' fz Ne (x, some y) (liveIn g' x (some y)) = planRow g fz Ne (tadd x t, some (y + t)) (liveIn g (tadd x t) (some (y + t)))
    ∧ (liveIn g' x (some y)).map (fun d => (demeSizes d x (some y)).map (evalSizes ex lg pw))
        = (liveIn g (tadd x t) (some (y + t))).map (fun d => (demeSizes d (tadd x t) (some (y + t))).map (evalSizes ex lg pw)) := by
  have hlive := liveIn_slice hpres ex lg pw t ht g g' hsl hwf x y hy hx
  have hkept : ∀ d ∈ liveIn g (tadd x t) (some (y + t)), tgt d.start (some t) = true ∧ d ∈ g.demes := by
    intro d hd
    unfold liveIn at hd
    obtain ⟨hd1, hd2⟩ := List.mem_filter.1 hd
    have hdm : d ∈ g.demes := (perm_orderDemes g.demes).subset hd1
    rw [hpres, Bool.and_eq_true] at hd2
    refine ⟨?_, hdm⟩
    rw [tgt_iff]
    have h1 := (tge_iff _ _).1 hd2.1
    have h2 : tw (some t) < tw (tadd x t) := by
      unfold tadd
      cases x with
      | none => exact WithTop.coe_lt_top _
      | some xv =>
        have : y < xv := by simpa [tgt, tle, tge] using hx
        show ((t : ℚ) : WithTop ℚ) < ((xv + t : ℚ) : WithTop ℚ)
        exact WithTop.coe_lt_coe.2 (by linarith)
    exact lt_of_lt_of_le h2 h1
  have hsz : ∀ d ∈ liveIn g (tadd x t) (some (y + t)),
      (demeSizes (sliceDemeIn ex lg pw t d) x (some y)).map (evalSizes ex lg pw) = (demeSizes d (tadd x t) (some (y + t))).map (evalSizes ex lg pw) :=
    fun d hd => demeSizes_slice F t d (hwf d (hkept d hd).2) (hkept d hd).1 x y hy hx (hcov d hd)
  have hnames : (liveIn g' x (some y)).map (·.name) = (liveIn g (tadd x t) (some (y + t))).map (·.name) := by
    rw [hlive, List.map_map]; rfl
  constructor
  · unfold planRow
    dsimp only
    rw [hnames, hT x y t Ne, hmig]
    have hM : migMatrix (sliceGraph t g).migs ((liveIn g (tadd x t) (some (y + t))).map (·.name)) x (some y) Ne
        = migMatrix g.migs ((liveIn g (tadd x t) (some (y + t))).map (·.name)) (tadd x t) (some (y + t)) Ne := by
      unfold migMatrix
      simp only [migRate_slice hstep t (ne_of_gt ht) g hasym _ _ x y hy hx]
    rw [hM]
    congr 1
    rw [hlive, List.all_map]
    apply all_congr_mem
    intro d hd
    have := hsz d hd
    simp only [Function.comp]
    cases h1 : demeSizes (sliceDemeIn ex lg pw t d) x (some y) with
    | none =>
      cases h2 : demeSizes d (tadd x t) (some (y + t)) with
      | none => rfl
      | some q => rw [h1, h2] at this; simp at this
    | some p =>
      cases h2 : demeSizes d (tadd x t) (some (y + t)) with
      | none => rw [h1, h2] at this; simp at this
      | some q =>
        rw [h1, h2] at this
        obtain ⟨f1, a1, b1⟩ := p
        obtain ⟨f2, a2, b2⟩ := q
        simp only [Option.map_some, Option.some.injEq, evalSizes, Prod.mk.injEq] at this
        simp [this.1]
  · rw [hlive, List.map_map]
    apply List.map_congr_left
    intro d hd
    exact hsz d hd

end DadiVerif.DemesConv
