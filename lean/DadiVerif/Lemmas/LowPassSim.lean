import DadiVerif.Lemmas.LowPassDeep
/-! C18 helper lemmas, part 18: the simulated regime.  `simTable pops af draws` (Model/LowPass.lean) is
    `simulate_GATK_multisample_calling` as a deterministic function of the recorded random draws.  Whatever the draws, a
    simulated table has non-negative entries and total 1 (total 0 in the degenerate case that nothing is binned), so the
    total-mass theorem needs no assumption on the simulated tables.  (The facts about the *generated* steps of the simulator —
    keep / drop complementary, call table exhaustive, … — are proved in Props/C18.lean itself, `C18_sim_steps`, so that a change
    of those steps in the source breaks that theorem only.) -/
set_option linter.unusedSimpArgs false
namespace DadiVerif.LowPass
open Finset Gen.LowPass

/-! ### a table of empirical frequencies -/

theorem sumBox_indicator : ∀ (ns x : List ℕ), inBox ns x →
    sumBox ns (fun j => if x = j then (1 : ℚ) else 0) = 1
  | [], [], _ => by simp [sumBox]
  | [], _ :: _, h => by simp [inBox] at h
  | _ :: _, [], h => by simp [inBox] at h
  | n :: ns, a :: xs, h => by
    simp only [inBox] at h
    simp only [sumBox]
    rw [Finset.sum_eq_single a]
    · have := sumBox_indicator ns xs h.2
      simpa using this
    · intro b _ hb
      have : ∀ r : List ℕ, ¬ (a :: xs = b :: r) := by
        intro r e; injection e with e1 _; exact hb e1.symm
      simp only [this, if_false]
      exact sumBox_zero ns
    · intro hn; exfalso; exact hn (by simpa using h.1)

theorem sumBox_count (ns : List ℕ) : ∀ (L : List (List ℕ)), (∀ x ∈ L, inBox ns x) →
    sumBox ns (fun j => ((L.count j : ℕ) : ℚ)) = ((L.length : ℕ) : ℚ)
  | [], _ => by simp [sumBox_zero]
  | x :: L, h => by
    have ih := sumBox_count ns L (fun y hy => h y (List.mem_cons_of_mem _ hy))
    have e : (fun j => (((x :: L).count j : ℕ) : ℚ)) = fun j => ((L.count j : ℕ) : ℚ) + (if x = j then (1 : ℚ) else 0) := by
      funext j
      rw [List.count_cons]
      by_cases hx : x = j
      · subst hx; simp
      · simp [hx]
    rw [e, sumBox_add, ih, sumBox_indicator ns x (h x List.mem_cons_self)]
    simp

theorem tableOf_nonneg (L : List (List ℕ)) (j : List ℕ) : 0 ≤ tableOf L j := by
  unfold tableOf; positivity

/-- counts divided by their total: total 1 unless nothing was counted -/
theorem tableOf_total (ns : List ℕ) (L : List (List ℕ)) (h : ∀ x ∈ L, inBox ns x) :
    sumBox ns (tableOf L) = if L = [] then 0 else 1 := by
  unfold tableOf
  have e : (fun j => ((L.count j : ℕ) : ℚ) / ((L.length : ℕ) : ℚ)) = fun j => ((L.count j : ℕ) : ℚ) * (((L.length : ℕ) : ℚ))⁻¹ := by
    funext j; rw [div_eq_mul_inv]
  rw [e, sumBox_mul_right, sumBox_count ns L h]
  split_ifs with hL
  · subst hL; simp
  · have : ((L.length : ℕ) : ℚ) ≠ 0 := by
      have : L.length ≠ 0 := fun e => hL (List.length_eq_zero_iff.mp e)
      exact_mod_cast this
    exact mul_inv_cancel₀ this

/-! ### the binned multi-indices are inside the output box -/

theorem toBoxIdx_inBox : ∀ (ns : List ℕ) (v : List ℤ) (x : List ℕ), toBoxIdx ns v = some x → inBox ns x
  | [], [], x, h => by simp [toBoxIdx] at h; subst h; trivial
  | [], _ :: _, x, h => by simp [toBoxIdx] at h
  | _ :: _, [], x, h => by simp [toBoxIdx] at h
  | n :: ns, a :: vs, x, h => by
    simp only [toBoxIdx] at h
    split_ifs at h with hc
    simp only [Option.map_eq_some_iff] at h
    obtain ⟨y, hy, rfl⟩ := h
    exact ⟨hc.2, toBoxIdx_inBox ns vs y hy⟩

theorem foldr_binned_mem (f : List ℤ → Option (List ℕ)) : ∀ (rs : List (Option (List (List ℤ)))) (L : List (List ℕ)),
    rs.foldr (fun r acc => match r, acc with
      | some rows, some l => some (rows.filterMap f ++ l)
      | _, _ => none) (some []) = some L → ∀ x ∈ L, ∃ v, f v = some x
  | [], L, h => by
    simp at h; subst h; intro x hx; simp at hx
  | r :: rs, L, h => by
    simp only [List.foldr_cons] at h
    cases r with
    | none => simp at h
    | some rows =>
      cases hacc : rs.foldr (fun r acc => match r, acc with
          | some rows, some l => some (rows.filterMap f ++ l)
          | _, _ => none) (some []) with
      | none => rw [hacc] at h; simp at h
      | some l =>
        rw [hacc] at h
        simp only [Option.some.injEq] at h
        subst h
        intro x hx
        rcases List.mem_append.mp hx with hx | hx
        · obtain ⟨v, _, hv⟩ := List.mem_filterMap.mp hx
          exact ⟨v, hv⟩
        · exact foldr_binned_mem f rs l hacc x hx

theorem simBinned_inBox (pops : List Pop) (af : List ℕ) (blocks : List BlockDraw) (L : List (List ℕ))
    (h : simBinned pops af blocks = some L) : ∀ x ∈ L, inBox (pops.map fun p => p.nsub + 1) x := by
  unfold simBinned at h
  simp only at h
  split_ifs at h with hlen
  intro x hx
  obtain ⟨v, hv⟩ := foldr_binned_mem _ _ L h x hx
  exact toBoxIdx_inBox _ v x hv

/-! ### a simulated table is a probability table, whatever the draws -/

theorem simTable_nonneg (pops : List Pop) (af : List ℕ) (blocks : List BlockDraw) (j : List ℕ) :
    0 ≤ simTable pops af blocks j := by
  unfold simTable
  cases simBinned pops af blocks with
  | none => exact le_refl _
  | some L => exact tableOf_nonneg L j

theorem simTable_total (pops : List Pop) (af : List ℕ) (blocks : List BlockDraw) :
    sumBox (pops.map fun p => p.nsub + 1) (simTable pops af blocks)
      = match simBinned pops af blocks with
        | some L => if L = [] then 0 else 1
        | none => 0 := by
  unfold simTable
  cases h : simBinned pops af blocks with
  | none => simp [sumBox_zero]
  | some L => exact tableOf_total _ L (simBinned_inBox pops af blocks L h)

theorem simTable_total_le (pops : List Pop) (af : List ℕ) (blocks : List BlockDraw) :
    sumBox (pops.map fun p => p.nsub + 1) (simTable pops af blocks) ≤ 1 := by
  rw [simTable_total]
  cases simBinned pops af blocks with
  | none => norm_num
  | some L => simp only; split_ifs <;> norm_num

/-! ### one row per locus -/

theorem transposeCols_length (n : ℕ) : ∀ (cols : List (List ℤ)) (rows : List (List ℤ)),
    transposeCols n cols = some rows → rows.length = n
  | [], rows, h => by simp [transposeCols] at h; subst h; simp
  | c :: cs, rows, h => by
    simp only [transposeCols] at h
    split_ifs at h with hc
    cases hr : transposeCols n cs with
    | none => rw [hr] at h; simp at h
    | some rows' =>
      rw [hr] at h
      simp only [Option.some.injEq] at h
      subst h
      have := transposeCols_length n cs rows' hr
      simp only [not_not] at hc
      simp [List.length_zipWith, hc, this]

theorem countP_add_filter_not {α : Type} (l : List α) (p q : α → Bool) (h : ∀ x, q x = !p x) :
    l.countP p + (l.filter q).length = l.length := by
  induction l with
  | nil => simp
  | cons a l ih =>
    by_cases hp : p a = true
    · have hq : q a = false := by rw [h a, hp]; rfl
      simp [List.countP_cons, List.filter_cons, hp, hq]; omega
    · have hp' : p a = false := by simpa using hp
      have hq : q a = true := by rw [h a, hp']; rfl
      simp [List.countP_cons, List.filter_cons, hp', hq]; omega

/-- **every simulated locus gives exactly one row**: when the draws fit the sizes (`blockRows` succeeds), the rows one block
    hands to `numpy.histogramdd` plus the loci it records directly in entry 0 are as many as the simulated loci — provided the
    generated keep / drop conditions are complementary (`C18_sim_steps`) -/
theorem blockRows_length (hkd : ∀ t : ℤ, simKeep t = !simDrop t) (pops : List Pop) (gss : List (List ℕ)) (b : BlockDraw)
    (rows : List (List ℤ)) (h : blockRows pops gss b = some rows) : rows.length = b.loci.length := by
  unfold blockRows at h
  simp only at h
  split at h
  · simp at h
  · rename_i rows' hr
    simp only [Option.some.injEq] at h
    subst h
    have hlen := transposeCols_length _ _ rows' hr
    simp only [List.length_append, List.length_replicate, hlen, List.length_map]
    have h1 := countP_add_filter_not b.loci (fun loc => simDrop (isum (List.zipWith simAlt gss loc)))
      (fun loc => simKeep (isum (List.zipWith simAlt gss loc))) (fun loc => hkd _)
    have h2 := countP_add_filter_not (b.loci.filter (fun loc => simKeep (isum (List.zipWith simAlt gss loc))))
      (fun loc => !(List.zipWith (fun (cs : List ℤ) (p : Pop) => simEnough (simCalled cs : ℕ) (p.nsub : ℕ)) (List.zipWith simCalls gss loc) pops).all id)
      (fun loc => (List.zipWith (fun (cs : List ℤ) (p : Pop) => simEnough (simCalled cs : ℕ) (p.nsub : ℕ)) (List.zipWith simCalls gss loc) pops).all id)
      (fun loc => by simp)
    omega

theorem axesOf_nOut (pops : List Pop) : (axesOf pops).map (·.nOut) = pops.map fun p => p.nsub + 1 := by
  simp [axesOf, mkAxis, List.map_map, Function.comp_def]

end DadiVerif.LowPass
