import DadiVerif.Lemmas.LowPassDeep
/-! C18 helper lemmas, part 18: the simulated regime.  `simTable pops af draws` (Model/LowPass.lean) is
    `simulate_GATK_multisample_calling` as a deterministic function of the recorded random draws.  Whatever the draws, a
    simulated table has non-negative entries and total 1 (total 0 in the degenerate case that nothing is binned), so the
    total-mass theorem needs no assumption on the simulated tables; and the generated steps of the simulator lose no locus:
    keep / drop are complementary, the four masked stores of the genotype-call table are exhaustive and disjoint, a locus that
    passes the enough-calls filter is never skipped by `subsample_genotypes_1D`. -/
set_option linter.unusedSimpArgs false
namespace DadiVerif.LowPass
open Finset Gen.LowPass

/-! ### the generated steps -/

/-- every simulated locus is either kept as polymorphic or recorded in entry 0 — never both, never neither -/
theorem simKeep_eq_not_simDrop (t : ℤ) : simKeep t = !simDrop t := by
  unfold simKeep simDrop
  by_cases h : t < 2
  · simp [h]
  · simp [h]; omega

/-- the genotype-call table: the four masked stores cover all non-negative read counts (no entry of the `numpy.empty` array
    stays uninitialised) and give 99 exactly without any read, 0 / 2 with reads of one kind only, 1 with both -/
theorem simCall_table (r a : ℤ) (hr : 0 ≤ r) (ha : 0 ≤ a) :
    simCall r a = (if r = 0 ∧ a = 0 then simNoCall else if a = 0 then 0 else if r = 0 then 2 else 1) := by
  unfold simCall simNoCall
  by_cases h1 : r = 0 <;> by_cases h2 : a = 0
  · subst h1; subst h2; simp
  · subst h1
    have : 0 < a := by omega
    simp [h2, this]
  · subst h2
    have : 0 < r := by omega
    simp [h1, this]
  · have h3 : 0 < r := by omega
    have h4 : 0 < a := by omega
    simp [h1, h2, h3, h4]

theorem simCall_range (r a : ℤ) (hr : 0 ≤ r) (ha : 0 ≤ a) :
    simCall r a = simNoCall ∨ (0 ≤ simCall r a ∧ simCall r a ≤ 2) := by
  rw [simCall_table r a hr ha]
  split_ifs <;> simp

/-- reads of an individual: non-negative, they add up to the depth, a homozygote shows reads of one kind only -/
theorem simReads (g d b : ℕ) (hg : g ≤ 2) (hb : b ≤ d) :
    0 ≤ simNRef (g : ℕ) (d : ℕ) (b : ℕ) ∧ 0 ≤ simNAlt (g : ℕ) (d : ℕ) (b : ℕ) ∧
    simNRef (g : ℕ) (d : ℕ) (b : ℕ) + simNAlt (g : ℕ) (d : ℕ) (b : ℕ) = (d : ℕ) ∧
    (g = 0 → simNAlt (g : ℕ) (d : ℕ) (b : ℕ) = 0) ∧ (g = 2 → simNRef (g : ℕ) (d : ℕ) (b : ℕ) = 0) := by
  unfold simNRef simNAlt
  interval_cases g
  · simp
  · simp; omega
  · simp

/-- a locus with enough called individuals is never skipped by `subsample_genotypes_1D`: all populations keep the same rows -/
theorem simEnough_not_skip (c n : ℤ) (h : simEnough c n = true) : simSubSkip c n = false := by
  unfold simEnough at h
  unfold simSubSkip
  simp only [decide_eq_true_eq, decide_eq_false_iff_not, not_lt] at h ⊢
  exact h

/-! ### a table of empirical frequencies -/

theorem sumBox_indicator : ∀ (ns x : List ℕ), inBox ns x →
    sumBox ns (fun j => if x = j then (1 : ℚ) else 0) = 1
  | [], [], _ => by simp [sumBox]
  | [], _ :: _, h => by simp [inBox] at h
  | _ :: _, [], h => by simp [inBox] at h
  | n :: ns, a :: xs, h => by
    simp only [inBox] at h
    simp only [sumBox]
    rw [Finset.sum_eq_single a]
    · have := sumBox_indicator ns xs h.2
      simpa using this
    · intro b _ hb
      have : ∀ r : List ℕ, ¬ (a :: xs = b :: r) := by
        intro r e; injection e with e1 _; exact hb e1.symm
      simp only [this, if_false]
      exact sumBox_zero ns
    · intro hn; exfalso; exact hn (by simpa using h.1)

theorem sumBox_count (ns : List ℕ) : ∀ (L : List (List ℕ)), (∀ x ∈ L, inBox ns x) →
    sumBox ns (fun j => ((L.count j : ℕ) : ℚ)) = ((L.length : ℕ) : ℚ)
  | [], _ => by simp [sumBox_zero]
  | x :: L, h => by
    have ih := sumBox_count ns L (fun y hy => h y (List.mem_cons_of_mem _ hy))
    have e : (fun j => (((x :: L).count j : ℕ) : ℚ)) = fun j => ((L.count j : ℕ) : ℚ) + (if x = j then (1 : ℚ) else 0) := by
      funext j
      rw [List.count_cons]
      by_cases hx : x = j
      · subst hx; simp
      · simp [hx]
    rw [e, sumBox_add, ih, sumBox_indicator ns x (h x List.mem_cons_self)]
    simp

theorem tableOf_nonneg (L : List (List ℕ)) (j : List ℕ) : 0 ≤ tableOf L j := by
  unfold tableOf; positivity

/-- counts divided by their total: total 1 unless nothing was counted -/
theorem tableOf_total (ns : List ℕ) (L : List (List ℕ)) (h : ∀ x ∈ L, inBox ns x) :
    sumBox ns (tableOf L) = if L = [] then 0 else 1 := by
  unfold tableOf
  have e : (fun j => ((L.count j : ℕ) : ℚ) / ((L.length : ℕ) : ℚ)) = fun j => ((L.count j : ℕ) : ℚ) * (((L.length : ℕ) : ℚ))⁻¹ := by
    funext j; rw [div_eq_mul_inv]
  rw [e, sumBox_mul_right, sumBox_count ns L h]
  split_ifs with hL
  · subst hL; simp
  · have : ((L.length : ℕ) : ℚ) ≠ 0 := by
      have : L.length ≠ 0 := fun e => hL (List.length_eq_zero_iff.mp e)
      exact_mod_cast this
    exact mul_inv_cancel₀ this

/-! ### the binned multi-indices are inside the output box -/

theorem toBoxIdx_inBox : ∀ (ns : List ℕ) (v : List ℤ) (x : List ℕ), toBoxIdx ns v = some x → inBox ns x
  | [], [], x, h => by simp [toBoxIdx] at h; subst h; trivial
  | [], _ :: _, x, h => by simp [toBoxIdx] at h
  | _ :: _, [], x, h => by simp [toBoxIdx] at h
  | n :: ns, a :: vs, x, h => by
    simp only [toBoxIdx] at h
    split_ifs at h with hc
    simp only [Option.map_eq_some_iff] at h
    obtain ⟨y, hy, rfl⟩ := h
    exact ⟨hc.2, toBoxIdx_inBox ns vs y hy⟩

theorem foldr_binned_mem (f : List ℤ → Option (List ℕ)) : ∀ (rs : List (Option (List (List ℤ)))) (L : List (List ℕ)),
    rs.foldr (fun r acc => match r, acc with
      | some rows, some l => some (rows.filterMap f ++ l)
      | _, _ => none) (some []) = some L → ∀ x ∈ L, ∃ v, f v = some x
  | [], L, h => by
    simp at h; subst h; intro x hx; simp at hx
  | r :: rs, L, h => by
    simp only [List.foldr_cons] at h
    cases r with
    | none => simp at h
    | some rows =>
      cases hacc : rs.foldr (fun r acc => match r, acc with
          | some rows, some l => some (rows.filterMap f ++ l)
          | _, _ => none) (some []) with
      | none => rw [hacc] at h; simp at h
      | some l =>
        rw [hacc] at h
        simp only [Option.some.injEq] at h
        subst h
        intro x hx
        rcases List.mem_append.mp hx with hx | hx
        · obtain ⟨v, _, hv⟩ := List.mem_filterMap.mp hx
          exact ⟨v, hv⟩
        · exact foldr_binned_mem f rs l hacc x hx

theorem simBinned_inBox (pops : List Pop) (af : List ℕ) (blocks : List BlockDraw) (L : List (List ℕ))
    (h : simBinned pops af blocks = some L) : ∀ x ∈ L, inBox (pops.map fun p => p.nsub + 1) x := by
  unfold simBinned at h
  simp only at h
  split_ifs at h with hlen
  intro x hx
  obtain ⟨v, hv⟩ := foldr_binned_mem _ _ L h x hx
  exact toBoxIdx_inBox _ v x hv

/-! ### a simulated table is a probability table, whatever the draws -/

theorem simTable_nonneg (pops : List Pop) (af : List ℕ) (blocks : List BlockDraw) (j : List ℕ) :
    0 ≤ simTable pops af blocks j := by
  unfold simTable
  cases simBinned pops af blocks with
  | none => exact le_refl _
  | some L => exact tableOf_nonneg L j

theorem simTable_total (pops : List Pop) (af : List ℕ) (blocks : List BlockDraw) :
    sumBox (pops.map fun p => p.nsub + 1) (simTable pops af blocks)
      = match simBinned pops af blocks with
        | some L => if L = [] then 0 else 1
        | none => 0 := by
  unfold simTable
  cases h : simBinned pops af blocks with
  | none => simp [sumBox_zero]
  | some L => exact tableOf_total _ L (simBinned_inBox pops af blocks L h)

theorem simTable_total_le (pops : List Pop) (af : List ℕ) (blocks : List BlockDraw) :
    sumBox (pops.map fun p => p.nsub + 1) (simTable pops af blocks) ≤ 1 := by
  rw [simTable_total]
  cases simBinned pops af blocks with
  | none => norm_num
  | some L => simp only; split_ifs <;> norm_num

theorem axesOf_nOut (pops : List Pop) : (axesOf pops).map (·.nOut) = pops.map fun p => p.nsub + 1 := by
  simp [axesOf, mkAxis, List.map_map, Function.comp_def]

end DadiVerif.LowPass
