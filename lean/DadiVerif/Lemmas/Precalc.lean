import DadiVerif.Lemmas.Step
/-! C02_precalc: the coefficient arrays assembled by the Python constant-parameter drivers (generated `Py.pre*` update
    expressions, read pointwise) are exactly the a/b/c of the on-the-fly C assembly (`mkLine` + `Line.a/b/c`). -/
namespace DadiVerif
open Gen

/-- the four numpy update expressions of one axis, in canonical form -/
structure FormulasOk (F : PreFormulas) : Prop where
  a_hi : ∀ m d dx v0 v1 f0 f1, F.a_hi m d dx v0 v1 f0 f1 = f1 * (-(m * d) - v0 / (2 * dx))
  b_lo : ∀ m d dx v0 v1 f0 f1, F.b_lo m d dx v0 v1 f0 f1 = f0 * (m * d + v0 / (2 * dx))
  b_hi : ∀ m d dx v0 v1 f0 f1, F.b_hi m d dx v0 v1 f0 f1 = f1 * (-(m * (1 - d)) + v1 / (2 * dx))
  c_lo : ∀ m d dx v0 v1 f0 f1, F.c_lo m d dx v0 v1 f0 f1 = f0 * (m * (1 - d) - v1 / (2 * dx))

theorem preFormulas_ok (d ax : ℕ) (F : PreFormulas) (h : preFormulas d ax = some F) : FormulasOk F := by
  unfold preFormulas at h
  split at h <;> simp at h <;> subst h <;> constructor <;> intros <;>
    simp only [Py.pre1D_a_hi, Py.pre1D_b_lo, Py.pre1D_b_hi, Py.pre1D_c_lo,
      Py.pre2Dx_a_hi, Py.pre2Dx_b_lo, Py.pre2Dx_b_hi, Py.pre2Dx_c_lo, Py.pre2Dy_a_hi, Py.pre2Dy_b_lo, Py.pre2Dy_b_hi, Py.pre2Dy_c_lo,
      Py.pre3Dx_a_hi, Py.pre3Dx_b_lo, Py.pre3Dx_b_hi, Py.pre3Dx_c_lo, Py.pre3Dy_a_hi, Py.pre3Dy_b_lo, Py.pre3Dy_b_hi, Py.pre3Dy_c_lo,
      Py.pre3Dz_a_hi, Py.pre3Dz_b_lo, Py.pre3Dz_b_hi, Py.pre3Dz_c_lo] <;> ring

/-- Python and C boundary terms coincide -/
theorem py_bc_eq (nu Mf Ml dx0 dxl : ℚ) :
    Py.pre1D_bcFirst nu Mf Ml dx0 dxl = C.bcFirst nu Mf dx0 ∧ Py.pre1D_bcLast nu Mf Ml dx0 dxl = C.bcLast nu Ml dxl ∧
    (Py.pre1D_bcFirstGuard Mf Ml = true ↔ Mf ≤ 0) ∧ (Py.pre1D_bcLastGuard Mf Ml = true ↔ Ml ≥ 0) := by
  refine ⟨by simp [Py.pre1D_bcFirst, C.bcFirst], by simp [Py.pre1D_bcLast, C.bcLast], ?_, ?_⟩
  · simp [Py.pre1D_bcFirstGuard]
  · simp [Py.pre1D_bcLastGuard]

/-- **precomputed = on the fly**, line level, any grid size ≥ 2, any V, M, delj -/
theorem preCoef_eq_line (F : PreFormulas) (hF : FormulasOk F) (xs : Array ℚ) (hN : 2 ≤ xs.size)
    (V M : ℚ → ℚ) (delj : ℕ → ℚ) (nu dt : ℚ) (z o : Bool) (j : ℕ) (hj : j < xs.size) :
    let L := mkLine xs V M delj nu z o dt
    let x : ℕ → ℚ := fun j => xs.getD j 0
    let bcF := if z = true ∧ M (x 0) ≤ 0 then C.bcFirst nu (M (x 0)) (x 1 - x 0) else 0
    let bcL := if o = true ∧ M (x (xs.size - 1)) ≥ 0 then C.bcLast nu (M (x (xs.size - 1))) (x (xs.size - 2 + 1) - x (xs.size - 2)) else 0
    let Cf := preCoef F xs V M delj bcF bcL
    Cf.a j = L.a j ∧ Cf.b j + 1 / dt = L.b j ∧ Cf.c j = L.c j := by
  intro L x bcF bcL Cf
  have hxint : ∀ i, (x i + x (i+1)) / 2 = (1/2 : ℚ) * (x (i+1) + x i) := fun i => by ring
  -- dfactor of the Python code equals the Line's df on valid nodes
  have hdf : ∀ k, k < xs.size →
      (if k = 0 then 2 / (x (0+1) - x 0) else if k + 1 = xs.size then 2 / (x (xs.size - 2 + 1) - x (xs.size - 2))
        else 2 / ((x (k-1+1) - x (k-1)) + (x (k+1) - x k))) = L.df k := by
    intro k hk
    show _ = 2 / (L.dxL k + L.dxR k)
    unfold Line.dxL Line.dxR
    show _ = 2 / ((if k = 0 then 0 else x k - x (k-1)) + (if k + 1 < xs.size then x (k+1) - x k else 0))
    by_cases h0 : k = 0
    · subst h0
      rw [if_pos rfl, if_pos rfl, if_pos (by omega)]; simp
    · rw [if_neg h0, if_neg h0]
      by_cases h1 : k + 1 = xs.size
      · rw [if_pos h1, if_neg (by omega)]
        have e : xs.size - 2 + 1 = k := by omega
        have e2 : xs.size - 2 = k - 1 := by omega
        rw [e, e2]; simp
      · rw [if_neg h1, if_pos (by omega)]
        have e : k - 1 + 1 = k := by omega
        rw [e]
  refine ⟨?_, ?_, ?_⟩
  · -- a
    show (if j = 0 then 0 else _) = (if j = 0 then 0 else - L.df j * L.At j)
    by_cases h0 : j = 0
    · rw [if_pos h0, if_pos h0]
    · rw [if_neg h0, if_neg h0]
      obtain ⟨m, rfl⟩ : ∃ m, j = m + 1 := ⟨j - 1, by omega⟩
      simp only [Nat.add_sub_cancel]
      rw [hF.a_hi]
      have := hdf (m+1) hj
      simp only [Nat.add_sub_cancel] at this
      show (if m + 1 = 0 then _ else if m + 1 + 1 = xs.size then _ else _) * _ = _
      rw [this]
      show _ = - L.df (m+1) * C.atemp (M ((1/2:ℚ) * (x (m+1) + x m))) (delj m) (V (x m)) (V (x (m+1))) (x (m+1) - x m)
      simp only [C.atemp, hxint, x]; ring
  · -- b
    show ((if j + 1 < xs.size then _ else 0) + (if j = 0 then 0 else _) + (if j = 0 then bcF else 0) + (if j + 1 = xs.size then bcL else 0)) + 1 / dt
        = 1 / dt + (if j + 1 < xs.size then L.df j * L.At (j+1) else 0) + (if j = 0 then 0 else L.df j * L.Ct j) + L.bc j
    have hbc : L.bc j = (if j = 0 then bcF else 0) + (if j + 1 = xs.size then bcL else 0) := by
      show (if j = 0 ∧ z = true ∧ M (x 0) ≤ 0 then C.bcFirst nu (M (x 0)) (x (0+1) - x 0) else 0)
          + (if j + 1 = xs.size ∧ o = true ∧ M (x (xs.size - 1)) ≥ 0 then C.bcLast nu (M (x (xs.size - 1))) (x (xs.size - 2 + 1) - x (xs.size - 2)) else 0) = _
      by_cases h0 : j = 0
      · subst h0
        have h1 : ¬ (0 + 1 = xs.size) := by omega
        have h1' : ¬ (1 = xs.size) := by omega
        simp [h1', bcF]
      · by_cases h1 : j + 1 = xs.size <;> simp [h0, h1, bcL]
    rw [hbc]
    have hlo : (if j + 1 < xs.size then
        F.b_lo (M ((x j + x (j+1)) / 2)) (delj j) (x (j+1) - x j) (V (x j)) (V (x (j+1)))
          (if j = 0 then 2 / (x (0+1) - x 0) else if j + 1 = xs.size then 2 / (x (xs.size - 2 + 1) - x (xs.size - 2)) else 2 / ((x (j-1+1) - x (j-1)) + (x (j+1) - x j)))
          (if j + 1 = 0 then 2 / (x (0+1) - x 0) else if j + 1 + 1 = xs.size then 2 / (x (xs.size - 2 + 1) - x (xs.size - 2)) else 2 / ((x (j+1-1+1) - x (j+1-1)) + (x (j+1+1) - x (j+1))))
        else 0) = (if j + 1 < xs.size then L.df j * L.At (j+1) else 0) := by
      by_cases h : j + 1 < xs.size
      · rw [if_pos h, if_pos h, hF.b_lo, hdf j hj]
        show _ = L.df j * C.atemp (M ((1/2:ℚ) * (x (j+1-1+1) + x (j+1-1)))) (delj (j+1-1)) (V (x (j+1-1))) (V (x (j+1))) (x (j+1-1+1) - x (j+1-1))
        simp only [Nat.add_sub_cancel, C.atemp, hxint, x]
        try ring
      · rw [if_neg h, if_neg h]
    have hhi : (if j = 0 then (0:ℚ) else
        F.b_hi (M ((x (j-1) + x (j-1+1)) / 2)) (delj (j-1)) (x (j-1+1) - x (j-1)) (V (x (j-1))) (V (x (j-1+1)))
          (if j - 1 = 0 then 2 / (x (0+1) - x 0) else if j - 1 + 1 = xs.size then 2 / (x (xs.size - 2 + 1) - x (xs.size - 2)) else 2 / ((x (j-1-1+1) - x (j-1-1)) + (x (j-1+1) - x (j-1))))
          (if j - 1 + 1 = 0 then 2 / (x (0+1) - x 0) else if j - 1 + 1 + 1 = xs.size then 2 / (x (xs.size - 2 + 1) - x (xs.size - 2)) else 2 / ((x (j-1+1-1+1) - x (j-1+1-1)) + (x (j-1+1+1) - x (j-1+1)))))
        = (if j = 0 then 0 else L.df j * L.Ct j) := by
      by_cases h0 : j = 0
      · rw [if_pos h0, if_pos h0]
      · rw [if_neg h0, if_neg h0, hF.b_hi]
        obtain ⟨m, rfl⟩ : ∃ m, j = m + 1 := ⟨j - 1, by omega⟩
        have := hdf (m+1) hj
        simp only [Nat.add_sub_cancel] at this ⊢
        rw [this]
        show _ = L.df (m+1) * C.ctemp (M ((1/2:ℚ) * (x (m+1) + x m))) (delj m) (V (x m)) (V (x (m+1))) (x (m+1) - x m)
        simp only [C.ctemp, hxint, x]; ring
    show ((if j + 1 < xs.size then _ else 0) + (if j = 0 then 0 else _) + _ + _) + 1 / dt = _
    have e1 := hlo; have e2 := hhi
    simp only [preCoef] at *
    linarith [hlo, hhi]
  · -- c
    show (if j + 1 < xs.size then _ else 0) = (if j + 1 < xs.size then - L.df j * L.Ct (j+1) else 0)
    by_cases h : j + 1 < xs.size
    · rw [if_pos h, if_pos h, hF.c_lo]
      have := hdf j hj
      show (if j = 0 then _ else if j + 1 = xs.size then _ else _) * _ = _
      rw [this]
      show _ = - L.df j * C.ctemp (M ((1/2:ℚ) * (x (j+1-1+1) + x (j+1-1)))) (delj (j+1-1)) (V (x (j+1-1))) (V (x (j+1))) (x (j+1-1+1) - x (j+1-1))
      simp only [Nat.add_sub_cancel, C.ctemp, hxint, x]; ring
    · rw [if_neg h, if_neg h]

end DadiVerif

namespace DadiVerif
open Gen

/-- the tridiagonal system the pre-computed path hands to the solver is, row for row, the on-the-fly system -/
theorem preCoef_rows_eq (F : PreFormulas) (hF : FormulasOk F) (xs : Array ℚ) (hN : 2 ≤ xs.size)
    (V M : ℚ → ℚ) (delj : ℕ → ℚ) (nu dt : ℚ) (z o : Bool) (φ : ℕ → ℚ) :
    let x : ℕ → ℚ := fun j => xs.getD j 0
    let bcF := if z = true ∧ M (x 0) ≤ 0 then C.bcFirst nu (M (x 0)) (x 1 - x 0) else 0
    let bcL := if o = true ∧ M (x (xs.size - 1)) ≥ 0 then C.bcLast nu (M (x (xs.size - 1))) (x (xs.size - 2 + 1) - x (xs.size - 2)) else 0
    (preCoef F xs V M delj bcF bcL).rows xs.size dt φ = (mkLine xs V M delj nu z o dt).rows φ := by
  intro x bcF bcL
  unfold PreCoef.rows Line.rows
  show List.map _ (List.range xs.size) = List.map _ (List.range xs.size)
  apply List.map_congr_left
  intro j hj
  have hjN : j < xs.size := List.mem_range.mp hj
  obtain ⟨ha, hb, hc⟩ := preCoef_eq_line F hF xs hN V M delj nu dt z o j hjN
  simp only at ha hb hc
  show (⟨_, _, _, _⟩ : Row) = ⟨_, _, _, _⟩
  congr 1

/-- …hence the pre-computed step and the on-the-fly step are the same list of numbers -/
theorem preCoef_step_eq (F : PreFormulas) (hF : FormulasOk F) (xs : Array ℚ) (hN : 2 ≤ xs.size)
    (V M : ℚ → ℚ) (delj : ℕ → ℚ) (nu dt : ℚ) (z o : Bool) (φ : ℕ → ℚ) :
    let x : ℕ → ℚ := fun j => xs.getD j 0
    let bcF := if z = true ∧ M (x 0) ≤ 0 then C.bcFirst nu (M (x 0)) (x 1 - x 0) else 0
    let bcL := if o = true ∧ M (x (xs.size - 1)) ≥ 0 then C.bcLast nu (M (x (xs.size - 1))) (x (xs.size - 2 + 1) - x (xs.size - 2)) else 0
    thomas ((preCoef F xs V M delj bcF bcL).rows xs.size dt φ) = (mkLine xs V M delj nu z o dt).step φ := by
  intro x bcF bcL
  unfold Line.step
  rw [preCoef_rows_eq F hF xs hN V M delj nu dt z o φ]

end DadiVerif
