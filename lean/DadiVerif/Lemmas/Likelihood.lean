import DadiVerif.Model.Likelihood
import DadiVerif.Lemmas.LikAnalysis
import Mathlib.Analysis.SpecialFunctions.Log.Basic
import Mathlib.Tactic.FieldSimp
import Mathlib.Tactic.Ring
import Mathlib.Tactic.Linarith
/-!
# Lemmas for C11 (likelihoods) — the model of Model/Likelihood.lean instantiated at `ℝ`

* bookkeeping: what `maSum`, `llPerBinL`, `intersect`, `optimalScalingL`, `foldCells` compute, expressed through
  `joint m d` = the list of (model, data) values of the entries masked in neither;
* analysis on lists of pairs: the Poisson sum as a function of the scaling, its maximiser, Gibbs' inequality.
-/
namespace DadiVerif.Lik
open Gen.Lik
noncomputable section

/-! ### vocabulary -/

/-- (model value, data value) of the entries masked in neither spectrum, in array order -/
def joint (m d : List (Cell ℝ)) : List (ℝ × ℝ) :=
  ((m.zip d).filter fun p => !p.1.mask && !p.2.mask).map fun p => (p.1.val, p.2.val)

/-- the model that is actually compared with the data: folded when the data are folded and it is not -/
def effModel (M D : MSpec ℝ) : MSpec ℝ := if D.folded && !M.folded then foldSpec M else M

/-- situations in which the `dadi.Spectrum(...)` re-wrapping inside `intersect_masks` does not change the joint mask -/
def CornerOK (m d : List (Cell ℝ)) : Prop :=
  intersectMaskCorners = false ∨ m.map Cell.mask = d.map Cell.mask ∨ maskCorners (jointMask m d) = jointMask m d

theorem autofold_true (M D : MSpec ℝ) : autofold true M D = effModel M D := by
  simp [autofold, effModel]

/-! ### entry-wise facts (unfolding the generated formulas) -/

@[simp] theorem llCell_val (log lgam : ℝ → ℝ) (m d : Cell ℝ) :
    (llPerBinCell log lgam m d).val = -m.val + d.val * log m.val - lgam (d.val + 1) := by
  simp [llPerBinCell, Cell.sub, Cell.add, Cell.neg, Cell.mul, Cell.dataOf, Cell.maLog, Cell.map, Cell.nat, Cell.plain]

@[simp] theorem llCell_mask (log lgam : ℝ → ℝ) (m d : Cell ℝ) :
    (llPerBinCell log lgam m d).mask = (m.mask || d.mask || !decide (0 < m.val)) := by
  simp [llPerBinCell, Cell.sub, Cell.add, Cell.neg, Cell.mul, Cell.dataOf, Cell.maLog, Cell.map, Cell.nat, Cell.plain]
  cases m.mask <;> cases d.mask <;> simp

/-! ### sums over visible entries -/

theorem maSum_val (cs : List (Cell ℝ)) : (maSum cs).val = ((cs.filter fun c => !c.mask).map Cell.val).sum := rfl
theorem maSum_mask (cs : List (Cell ℝ)) : (maSum cs).mask = cs.all (fun c => c.mask) := rfl

theorem ll_list_val (log lgam : ℝ → ℝ) (m d : List (Cell ℝ)) :
    (maSum (llPerBinL log lgam m d)).val
      = (((joint m d).filter fun p => decide (0 < p.1)).map (pterm log lgam)).sum := by
  induction m generalizing d with
  | nil => simp [maSum_val, llPerBinL, joint]
  | cons a m ih =>
    cases d with
    | nil => simp [maSum_val, llPerBinL, joint]
    | cons b d =>
      have ih' := ih d
      simp only [maSum_val, llPerBinL, joint] at ih' ⊢
      simp only [List.zipWith_cons_cons, List.zip_cons_cons, List.filter_cons, llCell_mask]
      cases ha : a.mask <;> cases hb : b.mask <;> by_cases hp : 0 < a.val <;>
        simp [hp, ih', pterm]

theorem ll_list_mask (log lgam : ℝ → ℝ) (m d : List (Cell ℝ)) :
    (llPerBinL log lgam m d).map Cell.mask
      = List.zipWith (fun a b => a.mask || b.mask || !decide (0 < a.val)) m d := by
  induction m generalizing d with
  | nil => simp [llPerBinL]
  | cons a m ih =>
    cases d with
    | nil => simp [llPerBinL]
    | cons b d =>
      have := ih d
      simp only [llPerBinL] at this ⊢
      simp [this]

/-! ### `intersect_masks` and the optimal scaling -/

theorem vis_eq_masks (m d : List (Cell ℝ)) (h : m.map Cell.mask = d.map Cell.mask) :
    ((m.filter fun c => !c.mask).map Cell.val) = (joint m d).map Prod.fst ∧
    ((d.filter fun c => !c.mask).map Cell.val) = (joint m d).map Prod.snd := by
  induction m generalizing d with
  | nil =>
    cases d with
    | nil => simp [joint]
    | cons b d => simp at h
  | cons a m ih =>
    cases d with
    | nil => simp at h
    | cons b d =>
      simp only [List.map_cons, List.cons.injEq] at h
      obtain ⟨h1, h2⟩ := h
      obtain ⟨i1, i2⟩ := ih d h2
      simp only [joint] at i1 i2 ⊢
      cases ha : a.mask <;> simp [ha, ← h1, i1, i2]

theorem vis_orMask (m d : List (Cell ℝ)) :
    (((List.zipWith Cell.orMask m (jointMask m d)).filter fun c => !c.mask).map Cell.val) = (joint m d).map Prod.fst ∧
    (((List.zipWith Cell.orMask d (jointMask m d)).filter fun c => !c.mask).map Cell.val) = (joint m d).map Prod.snd := by
  induction m generalizing d with
  | nil => simp [joint, jointMask]
  | cons a m ih =>
    cases d with
    | nil => simp [joint, jointMask]
    | cons b d =>
      obtain ⟨i1, i2⟩ := ih d
      simp only [joint, jointMask] at i1 i2 ⊢
      cases ha : a.mask <;> cases hb : b.mask <;>
        simp [Cell.orMask, ha, hb, i1, i2]

theorem intersect_vis (m d : List (Cell ℝ)) (hc : CornerOK m d) :
    (((intersect m d).1.filter fun c => !c.mask).map Cell.val) = (joint m d).map Prod.fst ∧
    (((intersect m d).2.filter fun c => !c.mask).map Cell.val) = (joint m d).map Prod.snd := by
  unfold intersect
  by_cases he : m.map Cell.mask = d.map Cell.mask
  · rw [if_pos he]; exact vis_eq_masks m d he
  · rw [if_neg he]
    have hj : (if intersectMaskCorners = true then maskCorners (jointMask m d) else jointMask m d) = jointMask m d := by
      rcases hc with h | h | h
      · simp [h]
      · exact absurd h he
      · simp [h]
    simp only [hj]
    exact vis_orMask m d

theorem optScale_val (a b : Cell ℝ) : (optScale a b).val = a.val / b.val := by
  simp [optScale, Cell.div]
theorem optScale_mask (a b : Cell ℝ) : (optScale a b).mask = (a.mask || b.mask) := by
  simp [optScale, Cell.div]

theorem theta_val (m d : List (Cell ℝ)) (hc : CornerOK m d) :
    (optimalScalingL m d).val = sumD (joint m d) / sumM (joint m d) := by
  obtain ⟨h1, h2⟩ := intersect_vis m d hc
  simp only [optimalScalingL, optScale_val, maSum_val, h1, h2, sumD, sumM]

theorem all_mask_false_of_vis_ne_nil (cs : List (Cell ℝ)) (h : ((cs.filter fun c => !c.mask).map Cell.val) ≠ []) :
    cs.all (fun c => c.mask) = false := by
  induction cs with
  | nil => simp at h
  | cons c cs ih =>
    cases hc : c.mask
    · simp [hc]
    · simp only [List.filter_cons, hc, Bool.not_true] at h
      simp [hc, ih h]

theorem theta_mask (m d : List (Cell ℝ)) (hc : CornerOK m d) (hne : joint m d ≠ []) :
    (optimalScalingL m d).mask = false := by
  obtain ⟨h1, h2⟩ := intersect_vis m d hc
  simp only [optimalScalingL, optScale_mask, maSum_mask]
  rw [all_mask_false_of_vis_ne_nil _ (by rw [h2]; simpa using hne),
      all_mask_false_of_vis_ne_nil _ (by rw [h1]; simpa using hne)]
  rfl

/-! ### scaling a model -/

theorem joint_scale (θ : Cell ℝ) (hθ : θ.mask = false) (m d : List (Cell ℝ)) :
    joint (m.map (Cell.mul θ)) d = (joint m d).map fun p => (θ.val * p.1, p.2) := by
  induction m generalizing d with
  | nil => simp [joint]
  | cons a m ih =>
    cases d with
    | nil => simp [joint]
    | cons b d =>
      have := ih d
      simp only [joint] at this ⊢
      cases ha : a.mask <;> cases hb : b.mask <;>
        simp [Cell.mul, hθ, ha, hb, this]

theorem ll_scaled_val (log lgam : ℝ → ℝ) (θ : Cell ℝ) (hθ : θ.mask = false) (m d : List (Cell ℝ)) :
    (maSum (llPerBinL log lgam (m.map (Cell.mul θ)) d)).val
      = ((((joint m d).map fun p => (θ.val * p.1, p.2)).filter fun p => decide (0 < p.1)).map (pterm log lgam)).sum := by
  rw [ll_list_val, joint_scale θ hθ]

theorem filter_pos_scaled (l : List (ℝ × ℝ)) (θ : ℝ) (hθ : 0 < θ) (hm : ∀ p ∈ l, 0 < p.1) :
    ((l.map fun p => (θ * p.1, p.2)).filter fun p => decide (0 < p.1)) = l.map fun p => (θ * p.1, p.2) := by
  rw [List.filter_eq_self]
  intro q hq
  obtain ⟨p, hp, rfl⟩ := List.mem_map.mp hq
  simpa using mul_pos hθ (hm p hp)

/-! ### `Spectrum.fold` commutes with scaling -/

theorem foldCell_scale (θ : Cell ℝ) (shape : List Nat) (n k : Nat) (x y : Cell ℝ) :
    foldCell shape n k (Cell.mul θ x) (Cell.mul θ y) = Cell.mul θ (foldCell shape n k x y) := by
  simp only [foldCell, Cell.mul, Cell.mk.injEq]
  refine ⟨?_, ?_, ?_⟩
  · split_ifs <;> push_cast <;> ring
  · cases θ.mask <;> simp
  · cases θ.bad <;> simp

theorem foldCells_scale (θ : Cell ℝ) (shape : List Nat) (cs : List (Cell ℝ)) :
    foldCells shape (cs.map (Cell.mul θ)) = (foldCells shape cs).map (Cell.mul θ) := by
  simp only [foldCells, List.length_map, ← List.map_reverse, List.zip_map, List.zipWith_map_right, List.map_zipWith]
  congr 1
  funext k p
  exact foldCell_scale θ shape cs.length k p.1 p.2

theorem effModel_scale (θ : Cell ℝ) (M D : MSpec ℝ) :
    effModel (scaleSpec θ M) D = scaleSpec θ (effModel M D) := by
  by_cases h : (D.folded && !M.folded) = true
  · simp only [effModel, scaleSpec, h, if_true, foldSpec, foldCells_scale]
  · simp only [effModel, scaleSpec, h]
    rfl

/-! ### the spectrum-level functions (auto-fold switches read from the generated file) -/

theorem flag_ll_per_bin : autofold_ll_per_bin = true := rfl
theorem flag_optimal_sfs_scaling : autofold_optimal_sfs_scaling = true := rfl
theorem flag_linear : autofold_linear_Poisson_residual = true := rfl
theorem flag_anscombe : autofold_Anscombe_Poisson_residual = true := rfl

theorem llPerBin_eq (log lgam : ℝ → ℝ) (M D : MSpec ℝ) :
    llPerBin log lgam M D = llPerBinL log lgam (effModel M D).cells D.cells := by
  simp [llPerBin, flag_ll_per_bin, autofold_true]

theorem optimalScaling_eq (M D : MSpec ℝ) :
    optimalScaling M D = optimalScalingL (effModel M D).cells D.cells := by
  simp [optimalScaling, flag_optimal_sfs_scaling, autofold_true]

theorem ll_val (log lgam : ℝ → ℝ) (M D : MSpec ℝ) :
    (ll log lgam M D).val
      = (((joint (effModel M D).cells D.cells).filter fun p => decide (0 < p.1)).map (pterm log lgam)).sum := by
  rw [ll, llPerBin_eq, ll_list_val]

theorem ll_scaled_spec_val (log lgam : ℝ → ℝ) (θ : Cell ℝ) (hθ : θ.mask = false) (M D : MSpec ℝ) :
    (ll log lgam (scaleSpec θ M) D).val
      = ((((joint (effModel M D).cells D.cells).map fun p => (θ.val * p.1, p.2)).filter
            fun p => decide (0 < p.1)).map (pterm log lgam)).sum := by
  rw [ll, llPerBin_eq, effModel_scale]
  exact ll_scaled_val log lgam θ hθ _ _

theorem llMultinom_val (log lgam : ℝ → ℝ) (M D : MSpec ℝ) (hc : CornerOK (effModel M D).cells D.cells)
    (hne : joint (effModel M D).cells D.cells ≠ []) :
    (llMultinom log lgam M D).val
      = ((((joint (effModel M D).cells D.cells).map fun p =>
              (sumD (joint (effModel M D).cells D.cells) / sumM (joint (effModel M D).cells D.cells) * p.1, p.2)).filter
            fun p => decide (0 < p.1)).map (pterm log lgam)).sum := by
  have h := ll_scaled_spec_val log lgam (optimalScaling M D)
    (by rw [optimalScaling_eq]; exact theta_mask _ _ hc hne) M D
  rw [optimalScaling_eq, theta_val _ _ hc] at h
  simpa [llMultinom, llMultinomPerBin, ll, optimalScaling_eq] using h

theorem effModel_idem (M D : MSpec ℝ) : effModel (effModel M D) D = effModel M D := by
  cases hD : D.folded <;> cases hM : M.folded <;> simp [effModel, foldSpec, hD, hM]

theorem linResid_eq (sqrt : ℝ → ℝ) (mk : Option ℝ) (M D : MSpec ℝ) :
    linResid sqrt mk M D = List.zipWith (linResidCell sqrt mk) (effModel M D).cells D.cells := by
  simp [linResid, flag_linear, autofold_true]

theorem anscombe_eq (pw : Int → Nat → ℝ → ℝ) (mk : Option ℝ) (M D : MSpec ℝ) :
    anscombe pw mk M D = List.zipWith (anscombeCell pw mk) (effModel M D).cells D.cells := by
  simp [anscombe, flag_anscombe, autofold_true]

theorem llMultinomPerBin_eq (log lgam : ℝ → ℝ) (M D : MSpec ℝ) :
    llMultinomPerBin log lgam M D
      = llPerBinL log lgam ((effModel M D).cells.map (Cell.mul (optimalScalingL (effModel M D).cells D.cells))) D.cells := by
  rw [llMultinomPerBin, llPerBin_eq, effModel_scale, optimalScaling_eq]
  rfl

/-! ### re-scaling the model by a constant -/

theorem sc_apply (c : ℝ) (x : Cell ℝ) : Cell.mul (Cell.plain c) x = ⟨c * x.val, x.mask, x.bad⟩ := by
  simp [Cell.mul, Cell.plain]

theorem maSum_scale (c : ℝ) (l : List (Cell ℝ)) :
    maSum (l.map (Cell.mul (Cell.plain c))) = ⟨c * (maSum l).val, (maSum l).mask, (maSum l).bad⟩ := by
  induction l with
  | nil => simp [maSum]
  | cons a l ih =>
    simp only [maSum, Cell.mk.injEq] at ih ⊢
    obtain ⟨i1, i2, i3⟩ := ih
    simp only [List.map_cons, sc_apply, List.filter_cons, List.all_cons]
    cases ha : a.mask
    · simp only [Bool.not_false, if_true, List.map_cons, List.sum_cons, List.any_cons, i1, i2, i3, mul_add,
        Bool.false_and, and_self]
    · simp only [Bool.not_true, Bool.false_eq_true, if_false, i1, i2, i3, Bool.true_and, and_self]

theorem zipWith_orMask_scale (c : ℝ) (m : List (Cell ℝ)) (j : List Bool) :
    List.zipWith Cell.orMask (m.map (Cell.mul (Cell.plain c))) j
      = (List.zipWith Cell.orMask m j).map (Cell.mul (Cell.plain c)) := by
  induction m generalizing j with
  | nil => simp
  | cons a m ih =>
    cases j with
    | nil => simp
    | cons b j =>
      simp only [List.map_cons, List.zipWith_cons_cons, ih, sc_apply, Cell.orMask]

theorem intersect_scale (c : ℝ) (m d : List (Cell ℝ)) :
    intersect (m.map (Cell.mul (Cell.plain c))) d
      = ((intersect m d).1.map (Cell.mul (Cell.plain c)), (intersect m d).2) := by
  have hm : (m.map (Cell.mul (Cell.plain c))).map Cell.mask = m.map Cell.mask := by
    simp [Cell.mul, Cell.plain, Function.comp_def]
  have hj : jointMask (m.map (Cell.mul (Cell.plain c))) d = jointMask m d := by
    simp [jointMask, List.zipWith_map_left, Cell.mul, Cell.plain]
  unfold intersect
  rw [hm, hj]
  by_cases he : m.map Cell.mask = d.map Cell.mask
  · simp [he]
  · simp only [he, if_false, zipWith_orMask_scale]

theorem optimalScalingL_scale (c : ℝ) (hc : c ≠ 0) (m d : List (Cell ℝ)) :
    optimalScalingL (m.map (Cell.mul (Cell.plain c))) d
      = ⟨(optimalScalingL m d).val / c, (optimalScalingL m d).mask, (optimalScalingL m d).bad⟩ := by
  simp only [optimalScalingL, intersect_scale, maSum_scale, optScale, Cell.div, Cell.mk.injEq]
  refine ⟨?_, trivial, ?_⟩
  · rw [div_div, mul_comm]
  · simp [hc]

theorem mul_theta_scale (c : ℝ) (hc : c ≠ 0) (θ x : Cell ℝ) :
    Cell.mul ⟨θ.val / c, θ.mask, θ.bad⟩ (Cell.mul (Cell.plain c) x) = Cell.mul θ x := by
  simp only [Cell.mul, Cell.plain, Cell.mk.injEq]
  refine ⟨?_, by simp, by simp⟩
  field_simp

theorem llMultinom_scale (log lgam : ℝ → ℝ) (c : ℝ) (hc : c ≠ 0) (M D : MSpec ℝ) :
    llMultinom log lgam (scaleSpec (Cell.plain c) M) D = llMultinom log lgam M D := by
  have h : scaleSpec (optimalScaling (scaleSpec (Cell.plain c) M) D) (scaleSpec (Cell.plain c) M)
      = scaleSpec (optimalScaling M D) M := by
    rw [optimalScaling_eq, effModel_scale, optimalScaling_eq]
    simp only [scaleSpec, optimalScalingL_scale c hc, List.map_map]
    congr 1
    apply List.map_congr_left
    intro x _
    exact mul_theta_scale c hc _ x
  simp only [llMultinom, llMultinomPerBin, h]

/-! ### the model proportional to the data -/

/-- "model == data·const": values `c·data`, the masks of `M'`, folded like the data -/
def propModel (c : ℝ) (M' D : MSpec ℝ) : MSpec ℝ :=
  ⟨M'.shape, List.zipWith (fun a b => (⟨c * b.val, a.mask, false⟩ : Cell ℝ)) M'.cells D.cells, D.folded⟩

theorem effModel_propModel (c : ℝ) (M' D : MSpec ℝ) : effModel (propModel c M' D) D = propModel c M' D := by
  simp [effModel, propModel]

theorem joint_propModel (c : ℝ) (m d : List (Cell ℝ)) :
    joint (List.zipWith (fun a b => (⟨c * b.val, a.mask, false⟩ : Cell ℝ)) m d) d
      = (joint m d).map fun p => (c * p.2, p.2) := by
  induction m generalizing d with
  | nil => simp [joint]
  | cons a m ih =>
    cases d with
    | nil => simp [joint]
    | cons b d =>
      have := ih d
      simp only [joint] at this ⊢
      cases ha : a.mask <;> cases hb : b.mask <;> simp [ha, hb, this]

theorem sumD_map_prop (c : ℝ) (l : List (ℝ × ℝ)) : sumD (l.map fun p => (c * p.2, p.2)) = sumD l := by
  induction l with
  | nil => simp
  | cons p l ih => simp [ih]

theorem sumM_map_prop (c : ℝ) (l : List (ℝ × ℝ)) : sumM (l.map fun p => (c * p.2, p.2)) = c * sumD l := by
  induction l with
  | nil => simp
  | cons p l ih => simp [ih, mul_add]

theorem llMultinom_max_aux (lgam : ℝ → ℝ) (M D : MSpec ℝ) (θ : ℝ) (hθ : 0 < θ)
    (hc : CornerOK (effModel M D).cells D.cells)
    (hm : ∀ p ∈ joint (effModel M D).cells D.cells, 0 < p.1)
    (hD : 0 < sumD (joint (effModel M D).cells D.cells)) :
    (ll Real.log lgam (scaleSpec (Cell.plain θ) M) D).val ≤ (llMultinom Real.log lgam M D).val := by
  have hne := ne_nil_of_sumD_pos _ hD
  have hM := sumM_pos _ hm hne
  rw [ll_scaled_spec_val Real.log lgam (Cell.plain θ) rfl, llMultinom_val Real.log lgam M D hc hne]
  simp only [Cell.plain]
  rw [filter_pos_scaled _ θ hθ hm, filter_pos_scaled _ _ (div_pos hD hM) hm, List.map_map, List.map_map]
  exact multinom_max_list lgam _ θ hθ hm hD

theorem llMultinom_gibbs_aux (lgam : ℝ → ℝ) (hg : lgam 1 = 0) (M D : MSpec ℝ) (c : ℝ) (hc0 : 0 < c)
    (hc : CornerOK (effModel M D).cells D.cells)
    (hcP : CornerOK (propModel c (effModel M D) D).cells D.cells)
    (hm : ∀ p ∈ joint (effModel M D).cells D.cells, 0 < p.1)
    (hd : ∀ p ∈ joint (effModel M D).cells D.cells, 0 ≤ p.2)
    (hD : 0 < sumD (joint (effModel M D).cells D.cells)) :
    (llMultinom Real.log lgam M D).val ≤ (llMultinom Real.log lgam (propModel c (effModel M D) D) D).val := by
  have hne := ne_nil_of_sumD_pos _ hD
  have hM := sumM_pos _ hm hne
  set l := joint (effModel M D).cells D.cells with hl
  have hjP : joint (effModel (propModel c (effModel M D) D) D).cells D.cells = l.map fun p => (c * p.2, p.2) := by
    rw [effModel_propModel]; exact joint_propModel c _ _
  have hneP : joint (effModel (propModel c (effModel M D) D) D).cells D.cells ≠ [] := by
    rw [hjP]; simpa using hne
  rw [llMultinom_val Real.log lgam M D hc hne,
      llMultinom_val Real.log lgam _ D (by rw [effModel_propModel]; exact hcP) hneP]
  rw [hjP, sumD_map_prop, sumM_map_prop, ← hl]
  rw [filter_pos_scaled _ _ (div_pos hD hM) hm, List.map_map, List.map_map]
  have hmap : (l.map ((fun p : ℝ × ℝ => (sumD l / (c * sumD l) * p.1, p.2)) ∘ fun p => (c * p.2, p.2)))
      = l.map fun p => (p.2, p.2) := by
    apply List.map_congr_left
    intro p _
    simp only [Function.comp, Prod.mk.injEq, and_true]
    field_simp
  rw [hmap]
  rw [sum_filter_of_zero]
  · rw [List.map_map]
    exact gibbs_ll_list lgam l hd hm hD
  · intro q hq hq0
    obtain ⟨p, hp, rfl⟩ := List.mem_map.mp hq
    have h0 : p.2 = 0 := le_antisymm (by simpa using hq0) (hd p hp)
    simp [pterm, h0, hg]

/-! ### the closed form of `ll_multinom` -/

theorem llMultinom_closed_aux (lgam : ℝ → ℝ) (M D : MSpec ℝ)
    (hc : CornerOK (effModel M D).cells D.cells)
    (hm : ∀ p ∈ joint (effModel M D).cells D.cells, 0 < p.1)
    (hD : 0 < sumD (joint (effModel M D).cells D.cells)) :
    (llMultinom Real.log lgam M D).val
      = (ll Real.log lgam M D).val
        + sumD (joint (effModel M D).cells D.cells)
            * Real.log (sumD (joint (effModel M D).cells D.cells) / sumM (joint (effModel M D).cells D.cells))
        - (sumD (joint (effModel M D).cells D.cells) / sumM (joint (effModel M D).cells D.cells) - 1)
            * sumM (joint (effModel M D).cells D.cells) := by
  have hne := ne_nil_of_sumD_pos _ hD
  have hM := sumM_pos _ hm hne
  rw [llMultinom_val Real.log lgam M D hc hne, ll_val, filter_pos_scaled _ _ (div_pos hD hM) hm, List.map_map,
    List.filter_eq_self.mpr (fun p hp => by simpa using hm p hp)]
  exact sum_pterm_scaled_closed lgam _ _ (div_pos hD hM) hm

/-- the closed form evaluated with each spectrum's OWN mask (`data.sum()`, `model.sum()` of the two masked arrays), as a
    re-implementation that skips `ll_multinom_per_bin` would compute it -/
def closedFormOwn (lgam : ℝ → ℝ) (M D : MSpec ℝ) : ℝ :=
  (ll Real.log lgam M D).val + (maSum D.cells).val * Real.log (optimalScaling M D).val
    - ((optimalScaling M D).val - 1) * (maSum (effModel M D).cells).val

theorem closedFormOwn_eq_of_masks_eq (lgam : ℝ → ℝ) (M D : MSpec ℝ)
    (he : (effModel M D).cells.map Cell.mask = D.cells.map Cell.mask)
    (hm : ∀ p ∈ joint (effModel M D).cells D.cells, 0 < p.1)
    (hD : 0 < sumD (joint (effModel M D).cells D.cells)) :
    closedFormOwn lgam M D = (llMultinom Real.log lgam M D).val := by
  have hc : CornerOK (effModel M D).cells D.cells := Or.inr (Or.inl he)
  obtain ⟨v1, v2⟩ := vis_eq_masks _ _ he
  rw [llMultinom_closed_aux lgam M D hc hm hD]
  unfold closedFormOwn
  rw [optimalScaling_eq, theta_val _ _ hc, maSum_val, maSum_val, v1, v2]
  rfl

end
end DadiVerif.Lik
