import DadiVerif.Model.Tridiag
import Mathlib.Algebra.Order.Field.Rat
import Mathlib.Tactic.FieldSimp
import Mathlib.Tactic.Ring
import Mathlib.Tactic.Linarith
/-! Helper lemmas for M3 (Thomas sweep).  Property theorems live in Props/. -/
namespace DadiVerif

/-- functional Thomas sweep; state = (bet_prev, c_prev, u_prev) of tridiag.c -/
theorem solveAux_spec (rows : List Row) : ∀ (β cp up : ℚ), PivotsOk β cp rows →
    match rows, solveAux β cp up rows with
    | [], _ => True
    | row :: rs, x :: xs =>
        (row.b - row.a * (cp / β)) * x + row.c * xs.headD 0 = row.r - row.a * up ∧ Solves x rs xs
    | _, _ => False := by
  induction rows with
  | nil => intro β cp up _; trivial
  | cons row rest ih =>
    intro β cp up hp
    obtain ⟨hbet, hrest⟩ := hp
    simp only [solveAux]
    set bet := row.b - row.a * (cp / β) with hbetdef
    set u := (row.r - row.a * up) / bet with hu
    have ih' := ih bet row.c u hrest
    refine ⟨?_, ?_⟩
    · rw [hu]; field_simp; ring
    · cases rest with
      | nil => simp [solveAux, Solves]
      | cons row' rest' =>
        simp only [solveAux] at ih' ⊢
        obtain ⟨h1, h2⟩ := ih'
        refine ⟨?_, h2⟩
        simp only [List.headD_cons]
        generalize ((row'.r - row'.a * u) / (row'.b - row'.a * (row.c / bet)) -
          row'.c / (row'.b - row'.a * (row.c / bet)) *
            (solveAux (row'.b - row'.a * (row.c / bet)) row'.c
              ((row'.r - row'.a * u) / (row'.b - row'.a * (row.c / bet))) rest').headD 0) = x1 at h1 ⊢
        generalize (solveAux (row'.b - row'.a * (row.c / bet)) row'.c
              ((row'.r - row'.a * u) / (row'.b - row'.a * (row.c / bet))) rest').headD 0 = x2 at h1 ⊢
        have e : row'.a * (u - row.c / bet * x1) = row'.a * u - row'.a * (row.c / bet) * x1 := by ring
        rw [e]
        linarith

theorem thomas_solves (rows : List Row) (hp : PivotsOk 1 0 rows) : Solves 0 rows (thomas rows) := by
  have h := solveAux_spec rows 1 0 0 hp
  unfold thomas
  cases rows with
  | nil => simp [solveAux, Solves]
  | cons row rest =>
    simp only [solveAux] at h ⊢
    obtain ⟨h1, h2⟩ := h
    refine ⟨?_, h2⟩
    simp at h1 ⊢
    linarith
-- #print axioms thomas_solves  ⇒  [propext, Classical.choice, Quot.sound]



/-- uniqueness: the homogeneous reduced system has only the zero solution -/
theorem solves_zero (rows : List Row) : ∀ (β cp xprev : ℚ) (xs : List ℚ), PivotsOk β cp rows →
    (∀ row ∈ rows, row.r = 0) →
    -- reduced first equation + remaining equations
    (match rows, xs with
     | [], [] => True
     | row :: rs, x :: xs' => (row.b - row.a * (cp / β)) * x + row.c * xs'.headD 0 = 0 ∧ Solves x rs xs'
     | _, _ => False) →
    ∀ x ∈ xs, x = 0 := by
  intro β cp xprev xs
  induction rows generalizing β cp xprev xs with
  | nil =>
    intro _ _ h
    cases xs with
    | nil => intro x hx; cases hx
    | cons _ _ => exact h.elim
  | cons row rest ih =>
    intro hp hr h
    cases xs with
    | nil => exact h.elim
    | cons x xs' =>
      obtain ⟨hbet, hrest⟩ := hp
      obtain ⟨h1, h2⟩ := h
      -- show the tail satisfies the reduced system with pivot bet, then x = 0 from h1
      have hr' : ∀ r ∈ rest, r.r = 0 := fun r hr0 => hr r (List.mem_cons_of_mem _ hr0)
      cases rest with
      | nil =>
        cases xs' with
        | nil =>
          simp at h1
          intro y hy
          simp at hy
          subst hy
          rcases h1 with h1 | h1
          · exact absurd h1 hbet
          · exact h1
        | cons _ _ => exact h2.elim
      | cons row' rest' =>
        cases xs' with
        | nil => exact h2.elim
        | cons x1 xs'' =>
          obtain ⟨e1, e2⟩ := h2
          have hr1 : row'.r = 0 := hr' row' (List.mem_cons_self)
          simp only [List.headD_cons] at h1 e1
          -- x = -(c/bet) x1
          have hx : x = - (row.c / (row.b - row.a * (cp / β))) * x1 := by
            have h0 : x = (-(row.c * x1)) / (row.b - row.a * (cp / β)) := by
              rw [eq_div_iff hbet]; linarith
            rw [h0]; ring
          have tail := ih (row.b - row.a * (cp / β)) row.c x (x1 :: xs'') hrest hr'
            ⟨by
              rw [hr1] at e1
              rw [hx] at e1
              have : (row'.b - row'.a * (row.c / (row.b - row.a * (cp / β)))) * x1 + row'.c * xs''.headD 0
                  = row'.a * (-(row.c / (row.b - row.a * (cp / β))) * x1) + row'.b * x1 + row'.c * xs''.headD 0 := by ring
              rw [this]; exact e1, e2⟩
          intro y hy
          rcases List.mem_cons.mp hy with rfl | hy'
          · have hx1 : x1 = 0 := tail x1 (List.mem_cons_self)
            rw [hx, hx1]; ring
          · exact tail y hy'



theorem solveAux_length (rows : List Row) : ∀ (β cp up : ℚ), (solveAux β cp up rows).length = rows.length := by
  induction rows with
  | nil => intros; rfl
  | cons row rest ih => intro β cp up; simp [solveAux, ih]

def Row.scale (k : ℚ) (row : Row) : Row := ⟨k * row.a, k * row.b, k * row.c, k * row.r⟩

/-- C03: multiplying every coefficient and the right-hand side by k ≠ 0 leaves the solve unchanged.
    (This is the re-scaling ν→cν, m→m/c, γ→γ/c, dt→c·dt of one implicit step, with k = 1/c.) -/
theorem solveAux_scale (k : ℚ) (hk : k ≠ 0) (rows : List Row) :
    ∀ (β β' cp cp' up : ℚ), cp' / β' = cp / β →
      solveAux β' cp' up (rows.map (Row.scale k)) = solveAux β cp up rows := by
  induction rows with
  | nil => intros; rfl
  | cons row rest ih =>
    intro β β' cp cp' up hratio
    simp only [List.map_cons, solveAux, Row.scale]
    have hbet : k * row.b - k * row.a * (cp' / β') = k * (row.b - row.a * (cp / β)) := by
      rw [hratio]; ring
    have hu : (k * row.r - k * row.a * up) / (k * row.b - k * row.a * (cp' / β'))
        = (row.r - row.a * up) / (row.b - row.a * (cp / β)) := by
      rw [hbet, show k * row.r - k * row.a * up = k * (row.r - row.a * up) by ring,
          mul_div_mul_left _ _ hk]
    have hc : k * row.c / (k * row.b - k * row.a * (cp' / β')) = row.c / (row.b - row.a * (cp / β)) := by
      rw [hbet, mul_div_mul_left _ _ hk]
    have hrec := ih (row.b - row.a * (cp / β)) (k * row.b - k * row.a * (cp' / β')) row.c (k * row.c)
      ((row.r - row.a * up) / (row.b - row.a * (cp / β))) hc
    rw [hu, hc, hrec]

theorem thomas_scale (k : ℚ) (hk : k ≠ 0) (rows : List Row) :
    thomas (rows.map (Row.scale k)) = thomas rows :=
  solveAux_scale k hk rows 1 1 0 0 0 rfl

/-- right-hand sides only: same a,b,c, r := s*r1 + t*r2 -/
def Row.comb (s t : ℚ) (p : Row × ℚ) : Row := ⟨p.1.a, p.1.b, p.1.c, s * p.1.r + t * p.2⟩
def Row.withR (p : Row × ℚ) : Row := ⟨p.1.a, p.1.b, p.1.c, p.2⟩

/-- C03: the solve is linear in the right-hand side (rows carry r1, the second rhs r2 rides along) -/
theorem solveAux_linear (s t : ℚ) (rows : List (Row × ℚ)) :
    ∀ (β cp up1 up2 : ℚ),
      solveAux β cp (s * up1 + t * up2) (rows.map (Row.comb s t))
        = List.zipWith (fun x y => s * x + t * y)
            (solveAux β cp up1 (rows.map Prod.fst)) (solveAux β cp up2 (rows.map Row.withR)) := by
  induction rows with
  | nil => intros; rfl
  | cons p rest ih =>
    intro β cp up1 up2
    simp only [List.map_cons, solveAux, Row.comb, Row.withR, List.zipWith_cons_cons]
    have hu : (s * p.1.r + t * p.2 - p.1.a * (s * up1 + t * up2)) / (p.1.b - p.1.a * (cp / β))
        = s * ((p.1.r - p.1.a * up1) / (p.1.b - p.1.a * (cp / β)))
          + t * ((p.2 - p.1.a * up2) / (p.1.b - p.1.a * (cp / β))) := by ring
    rw [hu, ih]
    congr 1
    -- head of zipWith
    have l1 := solveAux_length (rest.map Prod.fst) (p.1.b - p.1.a * (cp / β)) p.1.c ((p.1.r - p.1.a * up1) / (p.1.b - p.1.a * (cp / β)))
    have l2 := solveAux_length (rest.map Row.withR) (p.1.b - p.1.a * (cp / β)) p.1.c ((p.2 - p.1.a * up2) / (p.1.b - p.1.a * (cp / β)))
    cases h1 : solveAux (p.1.b - p.1.a * (cp / β)) p.1.c ((p.1.r - p.1.a * up1) / (p.1.b - p.1.a * (cp / β))) (rest.map Prod.fst) with
    | nil =>
      cases h2 : solveAux (p.1.b - p.1.a * (cp / β)) p.1.c ((p.2 - p.1.a * up2) / (p.1.b - p.1.a * (cp / β))) (rest.map Row.withR) with
      | nil => simp
      | cons z zs => rw [h1] at l1; rw [h2] at l2; simp at l1 l2; omega
    | cons y ys =>
      cases h2 : solveAux (p.1.b - p.1.a * (cp / β)) p.1.c ((p.2 - p.1.a * up2) / (p.1.b - p.1.a * (cp / β))) (rest.map Row.withR) with
      | nil => rw [h1] at l1; rw [h2] at l2; simp at l1 l2; omega
      | cons z zs => simp; ring



/-- index form of `Solves`: unknown before the first row is `xprev`, after the last row 0 -/
theorem solves_iff_idx (rows : List Row) : ∀ (xprev : ℚ) (xs : List ℚ),
    Solves xprev rows xs ↔ SolvesIdx xprev rows xs := by
  induction rows with
  | nil =>
    intro xprev xs
    cases xs with
    | nil => simp [Solves, SolvesIdx]
    | cons x xs => simp [Solves, SolvesIdx]
  | cons row rest ih =>
    intro xprev xs
    cases xs with
    | nil => simp [Solves, SolvesIdx]
    | cons x xs' =>
      simp only [Solves]
      rw [ih x xs']
      unfold SolvesIdx
      constructor
      · rintro ⟨h0, hlen, hall⟩
        refine ⟨by simp [hlen], ?_⟩
        intro j hj
        cases j with
        | zero =>
          simp only [List.getElem_cons_zero, if_true, List.getD_cons_zero, zero_add]
          have : (x :: xs').getD 1 0 = xs'.headD 0 := by cases xs' <;> simp
          rw [this]; exact h0
        | succ k =>
          have hk : k < rest.length := by simpa using hj
          have := hall k hk
          simp only [List.getElem_cons_succ, Nat.succ_ne_zero, if_false, Nat.add_sub_cancel,
            List.getD_cons_succ]
          by_cases hk0 : k = 0
          · subst hk0
            simpa using this
          · simp only [hk0, if_false] at this
            have e : (x :: xs').getD k 0 = xs'.getD (k-1) 0 := by
              cases k with
              | zero => exact absurd rfl hk0
              | succ m => simp
            rw [e]; exact this
      · rintro ⟨hlen, hall⟩
        have hlen' : rest.length = xs'.length := by simpa using hlen
        refine ⟨?_, hlen', ?_⟩
        · have := hall 0 (by simp)
          simp only [List.getElem_cons_zero, if_true, List.getD_cons_zero, zero_add] at this
          have e : (x :: xs').getD 1 0 = xs'.headD 0 := by cases xs' <;> simp
          rw [e] at this; exact this
        · intro k hk
          have := hall (k+1) (by simpa using hk)
          simp only [List.getElem_cons_succ, Nat.succ_ne_zero, if_false, Nat.add_sub_cancel,
            List.getD_cons_succ] at this
          by_cases hk0 : k = 0
          · subst hk0
            simpa using this
          · simp only [hk0, if_false]
            have e : (x :: xs').getD k 0 = xs'.getD (k-1) 0 := by
              cases k with
              | zero => exact absurd rfl hk0
              | succ m => simp
            rw [e] at this; exact this

end DadiVerif
