import DadiVerif.Lemmas.DemesProgEvents
/-! C16 (round 5) — export followed by import, at one `Split` record of the exported program.

`Demes.output` gives every population a new name at every `Split` record (`d<era>_<i>`): the older demes `O[0..n-1]` end at the record's
time `t`, the younger ones `Y[0..n]` start there; `Y[i]` (i < n) has the single ancestor `O[i]`, the new population `Y[n]` has as ancestors
the older demes with a non-zero proportion.  `classifyEvents` (the demes library) turns that into discrete events, `_apply_event` applies
them.  Here: what the application does with the two shapes of event lists (general in n and in the names); `Props/C16.lean` ties the
shapes to `classifyEvents` for every n dadi supports. -/
namespace DadiVerif.DemesConv

/-- the events one after the other from the populations `ids` (as `_compute_sfs` does with the events of one time): calls, populations -/
def applyAll {ν : Type} : List DName → List DEvt → Option (List (PCall ν) × List DName)
  | ids, [] => some ([], ids)
  | ids, e :: es => (applyEventSpec (ν := ν) ids e).bind fun r => (applyAll r.2 es).map fun q => (r.1 ++ q.1, q.2)

/-- name `d<era>_<i+1>` that `output` generates (era < 10 populations per era) -/
def eraName (era i : ℕ) : DName := ⟨10 * era + i, []⟩

/-- the part of an exported graph around a `Split` record with proportions `props` (one entry per older population) at time `t`, as `output`
    builds it: the older demes `d1_*` end at `t`; the younger demes `d2_*` start at `t`, `d2_i` (i < n) with the single ancestor `d1_i`, the new
    population `d2_n` with the older demes of non-zero proportion as ancestors -/
def boundaryGraph (props : List Rat) (t : Rat) : Graph InEpoch :=
  let n := props.length
  let older : List (GDeme InEpoch) := (List.range n).map fun j =>
    { name := eraName 1 j, start := none, ancestors := [], proportions := [], epochs := [{ fn := SizeFn.constant, ss := 1, es := 1, et := t }] }
  let younger : List (GDeme InEpoch) := (List.range n).map fun i =>
    { name := eraName 2 i, start := some t, ancestors := [eraName 1 i], proportions := [1], epochs := [{ fn := SizeFn.constant, ss := 1, es := 1, et := 0 }] }
  let newpop : GDeme InEpoch :=
    { name := eraName 2 n, start := some t, ancestors := ((List.range n).filter fun j => props.getD j 0 != 0).map (eraName 1),
      proportions := props.filter (· != 0), epochs := [{ fn := SizeFn.constant, ss := 1, es := 1, et := 0 }] }
  { demes := older ++ younger ++ [newpop], migs := [], pulses := [] }

/-- what the import does at the record: the library's events in the order `_get_demographic_events` stores them, applied by `_apply_event`
    from the older populations in axis order -/
def importBoundary (props : List Rat) (t : Rat) : Option (List (PCall Nat) × List DName) :=
  applyAll ((List.range props.length).map (eraName 1)) ((classifyEvents (boundaryGraph props t)).toList.map (·.2))

/-- the proportion vector of a new population that copies population `p` of `n` -/
def unitProps (n p : ℕ) : List Rat := (List.range n).map fun j => if j = p then 1 else 0

/-- a proportion vector with equal non-zero entries at the positions of the bit mask `m` -/
def maskProps (n m : ℕ) : List Rat :=
  let k := ((List.range n).filter fun j => m.testBit j).length
  (List.range n).map fun j => if m.testBit j then 1 / (k : Rat) else 0

/-- demes' validity rule for a pulse (`Builder.add_pulse`): not at the destination's end time, not at a source's start time -/
def pulseValid (g : Graph InEpoch) (p : GPulse) : Bool :=
  !decide (some p.time = g.endTimeOf p.dest) && p.sources.all fun s => !decide (some p.time = g.startTimeOf s)


end DadiVerif.DemesConv
