import DadiVerif.Lemmas.Projection
import Mathlib.Algebra.Order.BigOperators.Group.Finset
import Mathlib.Algebra.Order.BigOperators.Ring.Finset
/-! C08, whole arrays, part 1 (no `Spec` yet): sums over index boxes (the Fubini machinery `sumBox`, `sumBox_swap`, …
    is the one of Lemmas/LowPassND.lean, restated here word for word so that the C08 build does not depend on
    Generated/LowPass.lean, which is regenerated from LowPass.py on every run), the product kernel Π_k hyp(m_k, n_k, i_k, j_k) of a d-dimensional
    projection — row sums, composition, mirror symmetry, support, corners — and the function-level form of the
    per-axis loop of `Spectrum.project` with its closed form. -/
namespace DadiVerif
namespace PBox
open Finset

/-! ### sums over a box (as in Lemmas/LowPassND.lean) -/

/-- Σ over all multi-indices of a box -/
def sumBox : List ℕ → (List ℕ → ℚ) → ℚ
  | [], f => f []
  | n :: ns, f => ∑ i ∈ range n, sumBox ns fun r => f (i :: r)

/-- membership in a box -/
def inBox : List ℕ → List ℕ → Prop
  | [], [] => True
  | n :: ns, i :: is => i < n ∧ inBox ns is
  | _, _ => False

theorem sumBox_congr (ns : List ℕ) (f g : List ℕ → ℚ) (h : ∀ i, inBox ns i → f i = g i) :
    sumBox ns f = sumBox ns g := by
  induction ns generalizing f g with
  | nil => exact h [] trivial
  | cons n ns ih =>
    simp only [sumBox]
    refine Finset.sum_congr rfl (fun i hi => ih _ _ (fun r hr => h (i :: r) ⟨by simpa using hi, hr⟩))

theorem sumBox_le (ns : List ℕ) (f g : List ℕ → ℚ) (h : ∀ i, inBox ns i → f i ≤ g i) :
    sumBox ns f ≤ sumBox ns g := by
  induction ns generalizing f g with
  | nil => exact h [] trivial
  | cons n ns ih =>
    simp only [sumBox]
    refine Finset.sum_le_sum (fun i hi => ih _ _ (fun r hr => h (i :: r) ⟨by simpa using hi, hr⟩))

theorem sumBox_add (ns : List ℕ) (f g : List ℕ → ℚ) :
    sumBox ns (fun i => f i + g i) = sumBox ns f + sumBox ns g := by
  induction ns generalizing f g with
  | nil => rfl
  | cons n ns ih => simp only [sumBox, ih, Finset.sum_add_distrib]

theorem sumBox_mul_left (ns : List ℕ) (c : ℚ) (f : List ℕ → ℚ) :
    sumBox ns (fun i => c * f i) = c * sumBox ns f := by
  induction ns generalizing f with
  | nil => rfl
  | cons n ns ih => simp only [sumBox, ih, Finset.mul_sum]

theorem sumBox_zero (ns : List ℕ) : sumBox ns (fun _ => 0) = 0 := by
  induction ns with
  | nil => rfl
  | cons n ns ih => simp only [sumBox, ih, Finset.sum_const_zero]

theorem sumBox_sum (ns : List ℕ) (n : ℕ) (g : ℕ → List ℕ → ℚ) :
    sumBox ns (fun j => ∑ i ∈ range n, g i j) = ∑ i ∈ range n, sumBox ns (g i) := by
  induction ns generalizing g with
  | nil => rfl
  | cons m ns ih =>
    simp only [sumBox, ih]
    rw [Finset.sum_comm]

/-- Fubini for two boxes -/
theorem sumBox_swap (ms ns : List ℕ) (F : List ℕ → List ℕ → ℚ) :
    sumBox ms (fun j => sumBox ns (fun i => F i j)) = sumBox ns (fun i => sumBox ms (fun j => F i j)) := by
  induction ns generalizing F with
  | nil => rfl
  | cons n ns ih =>
    simp only [sumBox]
    rw [sumBox_sum]
    refine Finset.sum_congr rfl (fun i _ => ?_)
    exact ih (fun r j => F (i :: r) j)

/-! ### boxes -/

/-- the shape of a spectrum with sample sizes `ns` -/
def box1 (ns : List ℕ) : List ℕ := ns.map (· + 1)

@[simp] theorem box1_nil : box1 [] = [] := rfl
@[simp] theorem box1_cons (n : ℕ) (ns : List ℕ) : box1 (n :: ns) = (n + 1) :: box1 ns := rfl
@[simp] theorem box1_length (ns : List ℕ) : (box1 ns).length = ns.length := by simp [box1]

theorem revIdx_cons (s : ℕ) (ss : List ℕ) (i : ℕ) (is : List ℕ) :
    Spec.revIdx (s :: ss) (i :: is) = (s - 1 - i) :: Spec.revIdx ss is := rfl

/-- the two box predicates of the framework agree -/
theorem inBox_iff : ∀ (sh idx : List ℕ), inBox sh idx ↔ InBox sh idx
  | [], [] => by simp [inBox, InBox]
  | [], _ :: _ => by simp [inBox, InBox]
  | _ :: _, [] => by simp [inBox, InBox]
  | s :: ss, i :: is => by
      have ih := inBox_iff ss is
      simp only [inBox, InBox, List.forall₂_cons] at ih ⊢
      rw [ih]

theorem inBox_length : ∀ {sh idx : List ℕ}, inBox sh idx → idx.length = sh.length
  | [], [], _ => rfl
  | [], _ :: _, h => h.elim
  | _ :: _, [], h => h.elim
  | _ :: ss, _ :: is, h => by simp [inBox_length (sh := ss) (idx := is) h.2]

theorem inBox_rev : ∀ {sh idx : List ℕ}, inBox sh idx → inBox sh (Spec.revIdx sh idx)
  | [], [], _ => trivial
  | [], _ :: _, h => h.elim
  | _ :: _, [], h => h.elim
  | s :: ss, i :: is, h => by
      rw [revIdx_cons]
      exact ⟨by have := h.1; omega, inBox_rev h.2⟩

theorem revIdx_invol : ∀ {sh idx : List ℕ}, inBox sh idx → Spec.revIdx sh (Spec.revIdx sh idx) = idx
  | [], [], _ => rfl
  | [], _ :: _, h => h.elim
  | _ :: _, [], h => h.elim
  | s :: ss, i :: is, h => by
      rw [revIdx_cons, revIdx_cons, revIdx_invol h.2]
      have := h.1
      congr 1; omega

/-! ### more box sums -/

theorem sumBox_mul_right (ns : List ℕ) (c : ℚ) (f : List ℕ → ℚ) :
    sumBox ns (fun i => f i * c) = sumBox ns f * c := by
  have : (fun i => f i * c) = fun i => c * f i := funext fun i => mul_comm _ _
  rw [this, sumBox_mul_left, mul_comm]

theorem sumBox_nonneg (ns : List ℕ) (f : List ℕ → ℚ) (h : ∀ i, inBox ns i → 0 ≤ f i) : 0 ≤ sumBox ns f := by
  have := sumBox_le ns (fun _ => 0) f h
  rwa [sumBox_zero] at this

/-- a sum of non-negative terms over a box vanishes iff every term does -/
theorem sumBox_eq_zero_iff (ns : List ℕ) (f : List ℕ → ℚ) (h0 : ∀ i, inBox ns i → 0 ≤ f i) :
    sumBox ns f = 0 ↔ ∀ i, inBox ns i → f i = 0 := by
  induction ns generalizing f with
  | nil =>
    constructor
    · intro h i hi
      cases i with
      | nil => exact h
      | cons _ _ => exact hi.elim
    · intro h; exact h [] trivial
  | cons n ns ih =>
    simp only [sumBox]
    rw [Finset.sum_eq_zero_iff_of_nonneg
      (fun i hi => sumBox_nonneg ns _ (fun r hr => h0 (i :: r) ⟨by simpa using hi, hr⟩))]
    constructor
    · intro h i hi
      cases i with
      | nil => exact hi.elim
      | cons i0 is =>
        exact (ih (fun r => f (i0 :: r)) (fun r hr => h0 (i0 :: r) ⟨hi.1, hr⟩)).mp
          (h i0 (by simpa using hi.1)) is hi.2
    · intro h i hi
      exact (ih (fun r => f (i :: r)) (fun r hr => h0 (i :: r) ⟨by simpa using hi, hr⟩)).mpr
        (fun r hr => h (i :: r) ⟨by simpa using hi, hr⟩)

/-- reversing every axis permutes the box -/
theorem sumBox_reflect (sh : List ℕ) (h : List ℕ → ℚ) :
    sumBox sh (fun idx => h (Spec.revIdx sh idx)) = sumBox sh h := by
  induction sh generalizing h with
  | nil => simp [sumBox, Spec.revIdx]
  | cons s ss ih =>
    simp only [sumBox, revIdx_cons]
    rw [← Finset.sum_range_reflect (fun i => sumBox ss fun r => h (i :: r)) s]
    exact Finset.sum_congr rfl (fun i _ => ih (fun r => h ((s - 1 - i) :: r)))

theorem sum_range_mul_split (s P : ℕ) (h : ℕ → ℚ) :
    ∑ k ∈ range (s * P), h k = ∑ i ∈ range s, ∑ r ∈ range P, h (i * P + r) := by
  induction s with
  | zero => simp
  | succ s ih => rw [Nat.succ_mul, Finset.sum_range_add, ih, Finset.sum_range_succ]

/-- the sum over the box in row-major order is the sum over the flat array -/
theorem sumBox_flat (sh : List ℕ) (h : ℕ → ℚ) :
    sumBox sh (fun idx => h (flatIdx sh idx)) = ∑ k ∈ range (prodL sh), h k := by
  induction sh generalizing h with
  | nil => simp [sumBox, flatIdx, prodL]
  | cons s ss ih =>
    simp only [sumBox, flatIdx, prodL]
    rw [sum_range_mul_split]
    exact Finset.sum_congr rfl (fun i _ => ih (fun r => h (i * prodL ss + r)))

/-! ### the identity projection -/

theorem hyp_self (n i j : ℕ) (hi : i ≤ n) : hyp n n i j = if i = j then 1 else 0 := by
  by_cases hji : j ≤ i
  · rw [hyp_of_le hji, Nat.sub_self]
    by_cases e : i = j
    · subst e
      rw [if_pos rfl, Nat.sub_self, Nat.choose_zero_right, Nat.mul_one]
      exact div_self (choose_pos_q hi)
    · rw [if_neg e, Nat.choose_eq_zero_of_lt (by omega : 0 < i - j)]
      simp
  · rw [hyp_of_lt (Nat.not_le.mp hji), if_neg (by omega)]

/-! ### the product kernel -/

/-- Π_k hyp(m_k, n_k, i_k, j_k): probability that independent subsampling without replacement in every population
    turns the source entry `is` into the target entry `js` -/
def kerL : List ℕ → List ℕ → List ℕ → List ℕ → ℚ
  | m :: ms, n :: ns, i :: is, j :: js => hyp m n i j * kerL ms ns is js
  | [], [], [], [] => 1
  | _, _, _, _ => 0

theorem kerL_nonneg (ms ns is js : List ℕ) : 0 ≤ kerL ms ns is js := by
  fun_induction kerL ms ns is js with
  | case1 m ms n ns i is j js ih => exact mul_nonneg (hyp_nonneg m n i j) ih
  | case2 => exact zero_le_one
  | case3 => exact le_refl 0

/-- target sizes not larger than source sizes, axis by axis -/
abbrev LeL (ms ns : List ℕ) : Prop := List.Forall₂ (· ≤ ·) ms ns

theorem kerL_rowsum {ms ns : List ℕ} (h : LeL ms ns) :
    ∀ src, inBox (box1 ns) src → sumBox (box1 ms) (fun tgt => kerL ms ns src tgt) = 1 := by
  induction h with
  | nil =>
    intro src hs
    cases src with
    | nil => simp [sumBox, kerL]
    | cons _ _ => exact hs.elim
  | @cons m n ms ns hmn _ ih =>
    intro src hs
    cases src with
    | nil => exact hs.elim
    | cons i is =>
      simp only [box1_cons, inBox] at hs
      simp only [box1_cons, sumBox, kerL]
      have : ∀ j ∈ range (m + 1), sumBox (box1 ms) (fun r => hyp m n i j * kerL ms ns is r) = hyp m n i j := by
        intro j _
        rw [sumBox_mul_left, ih is hs.2, mul_one]
      rw [Finset.sum_congr rfl this, hyp_rowsum m n i hmn (by omega)]

theorem kerL_compose {ks ms : List ℕ} (h1 : LeL ks ms) : ∀ {ns : List ℕ}, LeL ms ns →
    ∀ src tgt, inBox (box1 ns) src → inBox (box1 ks) tgt →
      sumBox (box1 ms) (fun mid => kerL ms ns src mid * kerL ks ms mid tgt) = kerL ks ns src tgt := by
  induction h1 with
  | nil =>
    intro ns h2 src tgt hs ht
    cases h2
    cases src with
    | nil =>
      cases tgt with
      | nil => simp [sumBox, kerL]
      | cons _ _ => exact ht.elim
    | cons _ _ => exact hs.elim
  | @cons k m ks ms hkm _ ih =>
    intro ns h2 src tgt hs ht
    cases h2 with
    | @cons _ n _ ns hmn h2' =>
      cases src with
      | nil => exact hs.elim
      | cons i is =>
        cases tgt with
        | nil => exact ht.elim
        | cons l ls =>
          simp only [box1_cons, inBox] at hs ht
          simp only [box1_cons, sumBox, kerL]
          have : ∀ j ∈ range (m + 1),
              sumBox (box1 ms) (fun r => hyp m n i j * kerL ms ns is r * (hyp k m j l * kerL ks ms r ls))
                = (hyp m n i j * hyp k m j l) * kerL ks ns is ls := by
            intro j _
            rw [← ih h2' is ls hs.2 ht.2, ← sumBox_mul_left]
            exact sumBox_congr _ _ _ (fun r _ => by ring)
          rw [Finset.sum_congr rfl this, ← Finset.sum_mul, hyp_compose k m n i l hkm hmn (by omega) (by omega)]

theorem kerL_mirror {ms ns : List ℕ} (h : LeL ms ns) : ∀ src tgt, inBox (box1 ns) src → inBox (box1 ms) tgt →
    kerL ms ns (Spec.revIdx (box1 ns) src) (Spec.revIdx (box1 ms) tgt) = kerL ms ns src tgt := by
  induction h with
  | nil =>
    intro src tgt hs ht
    cases src with
    | nil =>
      cases tgt with
      | nil => rfl
      | cons _ _ => exact ht.elim
    | cons _ _ => exact hs.elim
  | @cons m n ms ns hmn _ ih =>
    intro src tgt hs ht
    cases src with
    | nil => exact hs.elim
    | cons i is =>
      cases tgt with
      | nil => exact ht.elim
      | cons j js =>
        simp only [box1_cons, inBox] at hs ht
        simp only [box1_cons, revIdx_cons, kerL, Nat.add_sub_cancel]
        rw [hyp_mirror m n i j hmn (by omega) (by omega), ih is js hs.2 ht.2]

/-- the support of the product kernel: every axis inside its window -/
def Reach : List ℕ → List ℕ → List ℕ → List ℕ → Prop
  | m :: ms, n :: ns, i :: is, j :: js => (j ≤ i ∧ i - j ≤ n - m) ∧ Reach ms ns is js
  | [], [], [], [] => True
  | _, _, _, _ => False

theorem kerL_ne_zero_iff {ms ns : List ℕ} (h : LeL ms ns) : ∀ src tgt, inBox (box1 ns) src → inBox (box1 ms) tgt →
    (kerL ms ns src tgt ≠ 0 ↔ Reach ms ns src tgt) := by
  induction h with
  | nil =>
    intro src tgt hs ht
    cases src with
    | nil =>
      cases tgt with
      | nil => simp [kerL, Reach]
      | cons _ _ => exact ht.elim
    | cons _ _ => exact hs.elim
  | @cons m n ms ns hmn _ ih =>
    intro src tgt hs ht
    cases src with
    | nil => exact hs.elim
    | cons i is =>
      cases tgt with
      | nil => exact ht.elim
      | cons j js =>
        simp only [box1_cons, inBox] at hs ht
        simp only [kerL, Reach]
        rw [mul_ne_zero_iff, hyp_ne_zero_iff m n i j hmn (by omega) (by omega), ih is js hs.2 ht.2]

/-- `Reach` read axis by axis -/
theorem reach_iff : ∀ (ms ns src tgt : List ℕ), ms.length = ns.length → src.length = ns.length → tgt.length = ns.length →
    (Reach ms ns src tgt ↔ ∀ k, k < ns.length →
      tgt.getD k 0 ≤ src.getD k 0 ∧ src.getD k 0 - tgt.getD k 0 ≤ ns.getD k 0 - ms.getD k 0)
  | [], [], [], [], _, _, _ => by simp [Reach]
  | m :: ms, n :: ns, i :: is, j :: js, h1, h2, h3 => by
      have ih := reach_iff ms ns is js (by simpa using h1) (by simpa using h2) (by simpa using h3)
      simp only [Reach, ih, List.length_cons]
      constructor
      · rintro ⟨h0, hr⟩ k hk
        cases k with
        | zero => simpa using h0
        | succ k => simpa using hr k (by omega)
      · intro h
        refine ⟨by simpa using h 0 (by omega), fun k hk => ?_⟩
        simpa using h (k + 1) (by omega)
  | [], _ :: _, _, _, h, _, _ => by simp at h
  | _ :: _, [], _, _, h, _, _ => by simp at h
  | _, [], _ :: _, _, _, h, _ => by simp at h
  | _, _ :: _, [], _, _, h, _ => by simp at h
  | _, [], _, _ :: _, _, _, h => by simp at h
  | _, _ :: _, _, [], _, _, h => by simp at h

/-! ### the per-axis loop on functions of the multi-index -/

/-- one axis, data: entry `idx` of the new function is Σ_i f(idx with i at axis k) · hyp(m, n, i, idx_k) -/
def PAx (k m n : ℕ) (f : List ℕ → ℚ) : List ℕ → ℚ :=
  fun idx => ∑ i ∈ range (n + 1), f (idx.set k i) * hyp m n i (idx.getD k 0)

/-- one axis, mask: masked iff a masked source entry of the line has a non-zero weight -/
def MAx (k m n : ℕ) (G : List ℕ → Prop) : List ℕ → Prop :=
  fun idx => ∃ i, i ≤ n ∧ G (idx.set k i) ∧ hyp m n i (idx.getD k 0) ≠ 0

def FoldF (ks ms ns : List ℕ) (f : List ℕ → ℚ) : List ℕ → ℚ :=
  ks.foldl (fun f k => PAx k (ms.getD k 0) (ns.getD k 0) f) f

def FoldM (ks ms ns : List ℕ) (G : List ℕ → Prop) : List ℕ → Prop :=
  ks.foldl (fun G k => MAx k (ms.getD k 0) (ns.getD k 0) G) G

/-- closed form of the whole projection, data: expected count under independent subsampling of every population -/
def closedF (ms ns : List ℕ) (f : List ℕ → ℚ) : List ℕ → ℚ :=
  fun tgt => sumBox (box1 ns) (fun src => f src * kerL ms ns src tgt)

/-- closed form, mask: some masked source entry can contribute -/
def closedM (ms ns : List ℕ) (G : List ℕ → Prop) : List ℕ → Prop :=
  fun tgt => ∃ src, inBox (box1 ns) src ∧ G src ∧ kerL ms ns src tgt ≠ 0

theorem FoldF_shift (ks : List ℕ) (m : ℕ) (ms : List ℕ) (n : ℕ) (ns : List ℕ) :
    ∀ (h : List ℕ → ℚ) (j : ℕ) (js : List ℕ),
      FoldF (ks.map Nat.succ) (m :: ms) (n :: ns) h (j :: js) = FoldF ks ms ns (fun r => h (j :: r)) js := by
  induction ks with
  | nil => intro h j js; rfl
  | cons k ks ih =>
    intro h j js
    simp only [FoldF, List.map_cons, List.foldl_cons] at ih ⊢
    rw [ih]
    congr 1

theorem FoldM_shift (ks : List ℕ) (m : ℕ) (ms : List ℕ) (n : ℕ) (ns : List ℕ) :
    ∀ (G : List ℕ → Prop) (j : ℕ) (js : List ℕ),
      FoldM (ks.map Nat.succ) (m :: ms) (n :: ns) G (j :: js) = FoldM ks ms ns (fun r => G (j :: r)) js := by
  induction ks with
  | nil => intro h j js; rfl
  | cons k ks ih =>
    intro h j js
    simp only [FoldM, List.map_cons, List.foldl_cons] at ih ⊢
    rw [ih]
    congr 1

/-- the loop over all axes computes the closed form (data) -/
theorem FoldF_range : ∀ (ms ns : List ℕ) (f : List ℕ → ℚ) (tgt : List ℕ), ms.length = ns.length →
    tgt.length = ns.length → FoldF (List.range ns.length) ms ns f tgt = closedF ms ns f tgt
  | [], [], f, [], _, _ => by simp [FoldF, closedF, sumBox, kerL]
  | m :: ms, n :: ns, f, j :: js, h1, h2 => by
      have ih := FoldF_range ms ns (fun r => PAx 0 m n f (j :: r)) js (by simpa using h1) (by simpa using h2)
      rw [List.length_cons, List.range_succ_eq_map]
      have e : FoldF (0 :: (List.range ns.length).map Nat.succ) (m :: ms) (n :: ns) f
          = FoldF ((List.range ns.length).map Nat.succ) (m :: ms) (n :: ns) (PAx 0 m n f) := by
        simp [FoldF]
      rw [e, FoldF_shift, ih]
      simp only [closedF, box1_cons, sumBox, kerL, PAx, List.set_cons_zero, List.getD_cons_zero]
      rw [← sumBox_sum]
      refine sumBox_congr _ _ _ (fun r _ => ?_)
      rw [Finset.sum_mul]
      exact Finset.sum_congr rfl (fun i _ => by ring)
  | [], _ :: _, _, _, h, _ => by simp at h
  | _ :: _, [], _, _, h, _ => by simp at h
  | [], [], _, _ :: _, _, h => by simp at h
  | _ :: _, _ :: _, _, [], _, h => by simp at h

/-- the loop over all axes computes the closed form (mask) -/
theorem FoldM_range : ∀ (ms ns : List ℕ) (G : List ℕ → Prop) (tgt : List ℕ), ms.length = ns.length →
    tgt.length = ns.length → (FoldM (List.range ns.length) ms ns G tgt ↔ closedM ms ns G tgt)
  | [], [], G, [], _, _ => by
      simp only [FoldM, closedM, List.length_nil, List.range_zero, List.foldl_nil, box1_nil]
      constructor
      · intro h; exact ⟨[], trivial, h, by simp [kerL]⟩
      · rintro ⟨src, hs, hg, _⟩
        cases src with
        | nil => exact hg
        | cons _ _ => exact hs.elim
  | m :: ms, n :: ns, G, j :: js, h1, h2 => by
      have ih := FoldM_range ms ns (fun r => MAx 0 m n G (j :: r)) js (by simpa using h1) (by simpa using h2)
      rw [List.length_cons, List.range_succ_eq_map]
      have e : FoldM (0 :: (List.range ns.length).map Nat.succ) (m :: ms) (n :: ns) G
          = FoldM ((List.range ns.length).map Nat.succ) (m :: ms) (n :: ns) (MAx 0 m n G) := by
        simp [FoldM]
      rw [e, FoldM_shift, ih]
      simp only [closedM, box1_cons, MAx, List.set_cons_zero, List.getD_cons_zero]
      constructor
      · rintro ⟨src, hs, ⟨i, hi, hg, hh⟩, hk⟩
        exact ⟨i :: src, ⟨by omega, hs⟩, hg, by simp only [kerL]; exact mul_ne_zero hh hk⟩
      · rintro ⟨src, hs, hg, hk⟩
        cases src with
        | nil => exact hs.elim
        | cons i is =>
          simp only [kerL] at hk
          exact ⟨is, hs.2, ⟨i, by have := hs.1; omega, hg, (mul_ne_zero_iff.mp hk).1⟩, (mul_ne_zero_iff.mp hk).2⟩
  | [], _ :: _, _, _, h, _ => by simp at h
  | _ :: _, [], _, _, h, _ => by simp at h
  | [], [], _, _ :: _, _, h => by simp at h
  | _ :: _, _ :: _, _, [], _, h => by simp at h

/-! ### properties of the closed form -/

theorem closedF_congr (ms ns : List ℕ) (f g : List ℕ → ℚ) (h : ∀ src, inBox (box1 ns) src → f src = g src)
    (tgt : List ℕ) : closedF ms ns f tgt = closedF ms ns g tgt :=
  sumBox_congr _ _ _ (fun src hs => by rw [h src hs])

theorem closedM_congr (ms ns : List ℕ) (G H : List ℕ → Prop) (h : ∀ src, inBox (box1 ns) src → (G src ↔ H src))
    (tgt : List ℕ) : closedM ms ns G tgt ↔ closedM ms ns H tgt := by
  constructor
  · rintro ⟨src, hs, hg, hk⟩; exact ⟨src, hs, (h src hs).mp hg, hk⟩
  · rintro ⟨src, hs, hg, hk⟩; exact ⟨src, hs, (h src hs).mpr hg, hk⟩

/-- **total**: the sum over the target box equals the sum over the source box -/
theorem closedF_total {ms ns : List ℕ} (h : LeL ms ns) (f : List ℕ → ℚ) :
    sumBox (box1 ms) (closedF ms ns f) = sumBox (box1 ns) f := by
  unfold closedF
  rw [sumBox_swap (box1 ms) (box1 ns) (fun src tgt => f src * kerL ms ns src tgt)]
  refine sumBox_congr _ _ _ (fun src hs => ?_)
  rw [sumBox_mul_left, kerL_rowsum h src hs, mul_one]

/-- **two stages = one**, data -/
theorem closedF_compose {ks ms ns : List ℕ} (h1 : LeL ks ms) (h2 : LeL ms ns) (f : List ℕ → ℚ) (tgt : List ℕ)
    (ht : inBox (box1 ks) tgt) : closedF ks ms (closedF ms ns f) tgt = closedF ks ns f tgt := by
  unfold closedF
  have e1 : ∀ mid, (sumBox (box1 ns) fun src => f src * kerL ms ns src mid) * kerL ks ms mid tgt
      = sumBox (box1 ns) fun src => f src * (kerL ms ns src mid * kerL ks ms mid tgt) := by
    intro mid
    rw [← sumBox_mul_right]
    exact sumBox_congr _ _ _ (fun src _ => by ring)
  simp only [e1]
  rw [sumBox_swap (box1 ms) (box1 ns) (fun src mid => f src * (kerL ms ns src mid * kerL ks ms mid tgt))]
  refine sumBox_congr _ _ _ (fun src hs => ?_)
  rw [sumBox_mul_left, kerL_compose h1 h2 src tgt hs ht]

/-- **two stages = one**, mask -/
theorem closedM_compose {ks ms ns : List ℕ} (h1 : LeL ks ms) (h2 : LeL ms ns) (G : List ℕ → Prop) (tgt : List ℕ)
    (ht : inBox (box1 ks) tgt) : closedM ks ms (closedM ms ns G) tgt ↔ closedM ks ns G tgt := by
  unfold closedM
  constructor
  · rintro ⟨mid, hm, ⟨src, hs, hg, hk1⟩, hk2⟩
    refine ⟨src, hs, hg, ?_⟩
    rw [← kerL_compose h1 h2 src tgt hs ht]
    intro h0
    have := (sumBox_eq_zero_iff _ _ (fun r _ => mul_nonneg (kerL_nonneg _ _ _ _) (kerL_nonneg _ _ _ _))).mp h0 mid hm
    exact (mul_ne_zero hk1 hk2) this
  · rintro ⟨src, hs, hg, hk⟩
    rw [← kerL_compose h1 h2 src tgt hs ht] at hk
    have : ¬ ∀ mid, inBox (box1 ms) mid → kerL ms ns src mid * kerL ks ms mid tgt = 0 := fun hall =>
      hk ((sumBox_eq_zero_iff _ _ (fun r _ => mul_nonneg (kerL_nonneg _ _ _ _) (kerL_nonneg _ _ _ _))).mpr hall)
    simp only [not_forall] at this
    obtain ⟨mid, hm, hne⟩ := this
    exact ⟨mid, hm, ⟨src, hs, hg, (mul_ne_zero_iff.mp hne).1⟩, (mul_ne_zero_iff.mp hne).2⟩

/-- **mirror**: projecting the reversed array gives the reversed projection, data -/
theorem closedF_mirror {ms ns : List ℕ} (h : LeL ms ns) (f : List ℕ → ℚ) (tgt : List ℕ) (ht : inBox (box1 ms) tgt) :
    closedF ms ns (fun src => f (Spec.revIdx (box1 ns) src)) tgt = closedF ms ns f (Spec.revIdx (box1 ms) tgt) := by
  unfold closedF
  rw [← sumBox_reflect (box1 ns) (fun src => f src * kerL ms ns src (Spec.revIdx (box1 ms) tgt))]
  refine sumBox_congr _ _ _ (fun src hs => ?_)
  rw [← kerL_mirror h src tgt hs ht]

/-- **mirror**, mask -/
theorem closedM_mirror {ms ns : List ℕ} (h : LeL ms ns) (G : List ℕ → Prop) (tgt : List ℕ) (ht : inBox (box1 ms) tgt) :
    closedM ms ns (fun src => G (Spec.revIdx (box1 ns) src)) tgt ↔ closedM ms ns G (Spec.revIdx (box1 ms) tgt) := by
  unfold closedM
  constructor
  · rintro ⟨src, hs, hg, hk⟩
    exact ⟨Spec.revIdx (box1 ns) src, inBox_rev hs, hg, by rwa [kerL_mirror h src tgt hs ht]⟩
  · rintro ⟨src, hs, hg, hk⟩
    refine ⟨Spec.revIdx (box1 ns) src, inBox_rev hs, by show G (Spec.revIdx _ (Spec.revIdx _ src)); rwa [revIdx_invol hs], ?_⟩
    rw [← kerL_mirror h _ tgt (inBox_rev hs) ht, revIdx_invol hs]
    exact hk

/-- **axes commute**, data -/
theorem PAx_comm (a b m₁ n₁ m₂ n₂ : ℕ) (hab : a ≠ b) (f : List ℕ → ℚ) :
    PAx b m₂ n₂ (PAx a m₁ n₁ f) = PAx a m₁ n₁ (PAx b m₂ n₂ f) := by
  funext idx
  simp only [PAx, Finset.sum_mul]
  rw [Finset.sum_comm]
  refine Finset.sum_congr rfl (fun i _ => Finset.sum_congr rfl (fun i' _ => ?_))
  rw [List.set_comm _ _ hab.symm]
  have e1 : (idx.set b i').getD a 0 = idx.getD a 0 := by
    simp [List.getD_eq_getElem?_getD, List.getElem?_set_ne hab.symm]
  have e2 : (idx.set a i).getD b 0 = idx.getD b 0 := by
    simp [List.getD_eq_getElem?_getD, List.getElem?_set_ne hab]
  rw [e1, e2]
  ring

/-- **axes commute**, mask -/
theorem MAx_comm (a b m₁ n₁ m₂ n₂ : ℕ) (hab : a ≠ b) (G : List ℕ → Prop) (idx : List ℕ) :
    MAx b m₂ n₂ (MAx a m₁ n₁ G) idx ↔ MAx a m₁ n₁ (MAx b m₂ n₂ G) idx := by
  have e1 : ∀ i', (idx.set b i').getD a 0 = idx.getD a 0 := fun i' => by
    simp [List.getD_eq_getElem?_getD, List.getElem?_set_ne hab.symm]
  have e2 : ∀ i, (idx.set a i).getD b 0 = idx.getD b 0 := fun i => by
    simp [List.getD_eq_getElem?_getD, List.getElem?_set_ne hab]
  simp only [MAx, e1, e2]
  constructor
  · rintro ⟨i', hi', ⟨i, hi, hg, hh⟩, hh'⟩
    exact ⟨i, hi, ⟨i', hi', by rwa [List.set_comm _ _ hab], hh'⟩, hh⟩
  · rintro ⟨i, hi, ⟨i', hi', hg, hh'⟩, hh⟩
    exact ⟨i', hi', ⟨i, hi, by rwa [List.set_comm _ _ hab.symm], hh⟩, hh'⟩

end PBox
end DadiVerif
