import DadiVerif.Lemmas.Integrate
import Mathlib.Tactic.LinearCombination
/-! Helper lemmas: homogeneity of the time-step rule, re-scaling and linearity of injection, sweeps and drivers. -/
namespace DadiVerif
open Gen

/-- a test `γ == 0` does not see the reference size -/
theorem div_beq_zero (g k : ℚ) (hk : k ≠ 0) : (g / k == 0) = (g == 0) := by
  by_cases h : g = 0
  · simp [h]
  · have : g / k ≠ 0 := div_ne_zero h hk
    simp [h, this]

/-! ### time-step rule -/
theorem ratMax_div (a b k : ℚ) (hk : 0 < k) : ratMax (a / k) (b / k) = ratMax a b / k := by
  unfold ratMax
  have : a / k ≤ b / k ↔ a ≤ b := div_le_div_iff_of_pos_right hk
  by_cases h : a ≤ b
  · rw [if_pos h, if_pos (this.mpr h)]
  · rw [if_neg h, if_neg (fun h' => h (this.mp h'))]

theorem ratMin_mul (a b k : ℚ) (hk : 0 < k) : ratMin (k * a) (k * b) = k * ratMin a b := by
  unfold ratMin
  have : k * a ≤ k * b ↔ a ≤ b := mul_le_mul_iff_right₀ hk
  by_cases h : a ≤ b
  · rw [if_pos h, if_pos (this.mpr h)]
  · rw [if_neg h, if_neg (fun h' => h (this.mp h'))]

theorem ratAbs_div (a k : ℚ) (hk : 0 < k) : ratAbs (a / k) = ratAbs a / k := by
  unfold ratAbs
  have : a / k < 0 ↔ a < 0 := by rw [div_lt_iff₀ hk]; simp
  by_cases h : a < 0
  · rw [if_pos h, if_pos (this.mpr h)]; ring
  · rw [if_neg h, if_neg (fun h' => h (this.mp h'))]

/-- `_compute_dt`: maxVM is homogeneous of degree −1 under ν→kν, Σm→Σm/k, γ→γ/k -/
theorem maxVM_scaled (nu s g h k : ℚ) (hk : 0 < k) :
    Py.maxVM (k * nu) (s / k) (g / k) h = Py.maxVM nu s g h / k := by
  unfold Py.maxVM
  rw [ratAbs_div g k hk]
  have e1 : (1 : ℚ) / 4 / (k * nu) = (1 / 4 / nu) / k := by
    rw [div_div, div_div, div_div]; congr 1; ring
  rw [e1, ratMax_div _ _ k hk]
  set A := ratMax (ratAbs (h + (1 - 2 * h) * (1 / 2)) * (1 / 2) * (1 - 1 / 2))
    (ratAbs (h + (1 - 2 * h) * (1 / 4)) * (1 / 4) * (1 - 1 / 4)) with hA
  have e2 : ratAbs g / k * 2 * A = (ratAbs g * 2 * A) / k := by ring
  rw [e2, ratMax_div _ _ k hk]

theorem computeDt_scaled (tf nu s g h k : ℚ) (hk : 0 < k) :
    Py.computeDt tf (k * nu) (s / k) (g / k) h = (Py.computeDt tf nu s g h).map (k * ·) := by
  unfold Py.computeDt
  rw [maxVM_scaled nu s g h k hk]
  have : Py.maxVM nu s g h / k > 0 ↔ Py.maxVM nu s g h > 0 := by
    show 0 < Py.maxVM nu s g h / k ↔ 0 < Py.maxVM nu s g h
    rw [lt_div_iff₀ hk]; simp
  by_cases hp : Py.maxVM nu s g h > 0
  · rw [if_pos hp, if_pos (this.mpr hp)]
    simp only [Option.map_some]
    congr 1
    have hk0 : k ≠ 0 := ne_of_gt hk
    field_simp
  · rw [if_neg hp, if_neg (fun h' => hp (this.mp h'))]; rfl

/-! ### parameters relative to another reference size -/
def PopParams.scaled (p : PopParams) (k : ℚ) : PopParams :=
  { nu := k * p.nu, gamma := p.gamma / k, h := p.h, ms := p.ms.map (· / k) }
def StepParams.scaled (P : StepParams) (k : ℚ) : StepParams :=
  { pops := P.pops.map (·.scaled k), theta0 := P.theta0 / k, beta := P.beta }

theorem sumL_map_div (l : List ℚ) (k : ℚ) : sumL (l.map (· / k)) = sumL l / k := by
  induction l with
  | nil => simp
  | cons x xs ih => simp only [List.map_cons, sumL_cons, ih]; ring

theorem popDt_scaled (tf : ℚ) (p : PopParams) (k : ℚ) (hk : 0 < k) :
    popDt tf (p.scaled k) = (popDt tf p).map (k * ·) := by
  unfold popDt PopParams.scaled
  simp only [List.isEmpty_map]
  have : (if p.ms.isEmpty then (0:ℚ) else sumL (p.ms.map (· / k))) = (if p.ms.isEmpty then 0 else sumL p.ms) / k := by
    split_ifs
    · simp
    · exact sumL_map_div _ _
  rw [this, computeDt_scaled _ _ _ _ _ k hk]

theorem optMin_map (a b : Option ℚ) (k : ℚ) (hk : 0 < k) :
    optMin (a.map (k * ·)) (b.map (k * ·)) = (optMin a b).map (k * ·) := by
  cases a <;> cases b <;> simp [optMin, ratMin_mul _ _ k hk]

theorem foldl_optMin_map (l : List (Option ℚ)) (acc : Option ℚ) (k : ℚ) (hk : 0 < k) :
    (l.map (·.map (k * ·))).foldl optMin (acc.map (k * ·)) = (l.foldl optMin acc).map (k * ·) := by
  induction l generalizing acc with
  | nil => rfl
  | cons x xs ih => simp only [List.map_cons, List.foldl_cons, optMin_map _ _ k hk, ih]

/-- C03: the time-step rule promises dt' = k·dt after re-scaling -/
theorem stepDt_scaled (tf : ℚ) (P : StepParams) (k : ℚ) (hk : 0 < k) :
    stepDt tf (P.scaled k) = (stepDt tf P).map (k * ·) := by
  unfold stepDt StepParams.scaled
  simp only [List.map_map]
  have : (popDt tf ∘ fun x => x.scaled k) = (fun o => o.map (k * ·)) ∘ popDt tf := by
    funext p; exact popDt_scaled tf p k hk
  rw [this, ← List.map_map]
  exact foldl_optMin_map _ none k hk

theorem thisDt_scaled (dt : Option ℚ) (rem k : ℚ) (hk : 0 < k) :
    thisDt (dt.map (k * ·)) (k * rem) = k * thisDt dt rem := by
  cases dt with
  | none => rfl
  | some d => simp [thisDt, ratMin_mul _ _ k hk]

/-! ### drivers under re-scaling (any state type, any step function that is itself invariant) -/
theorem integrateConst_scaled {σ : Type} (step : StepParams → ℚ → σ → σ) (tf : ℚ) (P : StepParams) (T k : ℚ)
    (hk : 0 < k) (hstep : ∀ dt φ, step (P.scaled k) (k * dt) φ = step P dt φ) :
    ∀ (fuel : ℕ) (t : ℚ) (φ : σ),
      integrateConst step tf (P.scaled k) (k * T) fuel (k * t) φ = integrateConst step tf P T fuel t φ := by
  intro fuel
  induction fuel with
  | zero => intros; rfl
  | succ n ih =>
    intro t φ
    simp only [integrateConst]
    have hlt : k * t < k * T ↔ t < T := mul_lt_mul_iff_right₀ hk
    by_cases h : t < T
    · rw [if_pos h, if_pos (hlt.mpr h)]
      have e : k * T - k * t = k * (T - t) := by ring
      rw [stepDt_scaled tf P k hk, e, thisDt_scaled _ _ k hk, hstep, ← mul_add]
      exact ih _ _
    · rw [if_neg h, if_neg (fun h' => h (hlt.mp h'))]

theorem integrateFn_scaled {σ : Type} (step : StepParams → ℚ → σ → σ) (tf : ℚ) (Pf : ℚ → StepParams) (T k : ℚ)
    (hk : 0 < k) (hstep : ∀ P dt φ, step (P.scaled k) (k * dt) φ = step P dt φ) :
    ∀ (fuel : ℕ) (t : ℚ) (Pc : StepParams) (φ : σ),
      integrateFn step tf (fun τ => (Pf (τ / k)).scaled k) (k * T) fuel (k * t) (Pc.scaled k) φ
        = integrateFn step tf Pf T fuel t Pc φ := by
  intro fuel
  induction fuel with
  | zero => intros; rfl
  | succ n ih =>
    intro t Pc φ
    simp only [integrateFn]
    have hlt : k * t < k * T ↔ t < T := mul_lt_mul_iff_right₀ hk
    have hk0 : k ≠ 0 := ne_of_gt hk
    by_cases h : t < T
    · rw [if_pos h, if_pos (hlt.mpr h)]
      have e : k * T - k * t = k * (T - t) := by ring
      rw [stepDt_scaled tf Pc k hk, e, thisDt_scaled _ _ k hk, ← mul_add]
      have e2 : k * (t + thisDt (stepDt tf Pc) (T - t)) / k = t + thisDt (stepDt tf Pc) (T - t) := by
        field_simp
      rw [e2, hstep]
      exact ih _ _ _
    · rw [if_neg h, if_neg (fun h' => h (hlt.mp h'))]

end DadiVerif
