import DadiVerif.Model.ModelDSL
/-!
# Lemmas for C15: the normaliser, the dimension checker and the relabelling are sound for every interpretation
of the primitives that satisfies the stated laws (core Lean only).
-/
namespace DadiVerif.ModelDSL

/-- the laws the normaliser relies on: `1*x = x*1 = x` and `x - 0 = x` for the scalars, and the integrators listed in `ints` return
    their input when `T = 0` and `initial_t = 0` (dadi/Integration.py: `if T - initial_t == 0: return phi`). -/
structure Lawful (I : Interp) (ints : List Name) : Prop where
  mul_one_left : ∀ x, I.mul (I.lit 1 1) x = x
  mul_one_right : ∀ x, I.mul x (I.lit 1 1) = x
  sub_zero : ∀ x, I.sub x (I.lit 0 1) = x
  zero_duration : ∀ fn, fn ∈ ints → ∀ (φ : I.Φ) (args : List (Name × Val I.S)),
      args.lookup (nm! "T") = some (.scalar (I.lit 0 1)) → args.lookup (nm! "initial_t") = some (.scalar (I.lit 0 1)) →
      I.step fn φ args = some φ

section Norm
variable {I : Interp} {ints : List Name} (hI : Lawful I ints) (ρ : Name → I.S)

theorem scalarShape_mkMul (a b : Expr) : scalarShape (mkMul a b) = true := by
  unfold mkMul
  split
  · next h => exact h.2
  · split
    · next h => exact h.2
    · rfl

theorem scalarShape_mkSub (a b : Expr) : scalarShape (mkSub a b) = true := by
  unfold mkSub
  split
  · next h => exact h.2
  · rfl

theorem scalarShape_simp (e : Expr) : scalarShape (simp e) = scalarShape e := by
  cases e <;> try rfl
  case mul a b => simp only [simp]; rw [scalarShape_mkMul]; rfl
  case sub a b => simp only [simp]; rw [scalarShape_mkSub]; rfl

include hI in
theorem evalS_mkMul (τ : I.S) (a b : Expr) :
    evalS I ρ τ (mkMul a b) = I.mul (evalS I ρ τ a) (evalS I ρ τ b) := by
  unfold mkMul
  split
  · next h => rw [h.1]; show _ = I.mul (I.lit 1 1) _; rw [hI.mul_one_left]
  · split
    · next h => rw [h.1]; show _ = I.mul _ (I.lit 1 1); rw [hI.mul_one_right]
    · rfl

include hI in
theorem evalS_mkSub (τ : I.S) (a b : Expr) :
    evalS I ρ τ (mkSub a b) = I.sub (evalS I ρ τ a) (evalS I ρ τ b) := by
  unfold mkSub
  split
  · next h => rw [h.1]; show _ = I.sub _ (I.lit 0 1); rw [hI.sub_zero]
  · rfl

include hI in
theorem evalS_simp (τ : I.S) (e : Expr) : evalS I ρ τ (simp e) = evalS I ρ τ e := by
  induction e with
  | mul a b iha ihb => simp only [simp]; rw [evalS_mkMul hI]; simp only [evalS, iha, ihb]
  | neg e ih => simp only [simp, evalS, ih]
  | add a b iha ihb => simp only [simp, evalS, iha, ihb]
  | sub a b iha ihb => simp only [simp]; rw [evalS_mkSub hI]; simp only [evalS, iha, ihb]
  | div a b iha ihb => simp only [simp, evalS, iha, ihb]
  | pow a b iha ihb => simp only [simp, evalS, iha, ihb]
  | call1 f e ih => simp only [simp, evalS, ih]
  | lam b _ => rfl
  | app f a _ _ => rfl
  | tcons h t _ _ => rfl
  | param n => rfl
  | tvar => rfl
  | lit a b => rfl
  | sym s => rfl
  | tnil => rfl

theorem evalTuple_of_scalarShape (e : Expr) (h : scalarShape e = true) : evalTuple I ρ e = [] := by
  cases e <;> first | rfl | (simp [scalarShape] at h)

theorem evalV_of_scalarShape (e : Expr) (h : scalarShape e = true) :
    evalV I ρ e = .scalar (evalS I ρ (I.sym (nm! "t")) e) := by
  cases e <;> first | rfl | (simp [scalarShape] at h)

include hI in
theorem evalTuple_simp (e : Expr) : evalTuple I ρ (simp e) = evalTuple I ρ e := by
  induction e with
  | tcons h t _ iht => simp only [simp, evalTuple]; rw [evalS_simp hI, iht]
  | mul a b _ _ =>
      rw [evalTuple_of_scalarShape ρ _ (by rw [scalarShape_simp]; rfl)]; rfl
  | sub a b _ _ =>
      rw [evalTuple_of_scalarShape ρ _ (by rw [scalarShape_simp]; rfl)]; rfl
  | lam b _ => rfl
  | tnil => rfl
  | neg e _ => rfl
  | add a b _ _ => rfl
  | div a b _ _ => rfl
  | pow a b _ _ => rfl
  | call1 f e _ => rfl
  | app f a _ _ => rfl
  | param n => rfl
  | tvar => rfl
  | lit a b => rfl
  | sym s => rfl

include hI in
theorem evalV_simp (e : Expr) : evalV I ρ (simp e) = evalV I ρ e := by
  by_cases h : scalarShape e = true
  · rw [evalV_of_scalarShape ρ _ (by rw [scalarShape_simp]; exact h), evalV_of_scalarShape ρ _ h, evalS_simp hI]
  · cases e <;> try (simp [scalarShape] at h)
    case lam b =>
      show Val.fn _ = Val.fn _
      congr 1; funext τ; exact evalS_simp hI ρ τ b
    case tnil => rfl
    case tcons hd tl =>
      show Val.tup (evalTuple I ρ (simp (.tcons hd tl))) = Val.tup (evalTuple I ρ (.tcons hd tl))
      rw [evalTuple_simp hI]

include hI in
theorem evalArgs_simpArgs (args : List (Name × Expr)) : evalArgs I ρ (simpArgs args) = evalArgs I ρ args := by
  induction args with
  | nil => rfl
  | cons a r ih => obtain ⟨k, e⟩ := a; simp only [simpArgs, evalArgs, ih, evalV_simp hI]

theorem lookup_evalArgs (args : List (Name × Expr)) (k : Name) :
    (evalArgs I ρ args).lookup k = (args.lookup k).map (evalV I ρ) := by
  induction args with
  | nil => rfl
  | cons a r ih =>
      obtain ⟨k', e⟩ := a
      simp only [evalArgs, List.lookup]
      cases (k == k') <;> simp [ih]

include hI in
theorem step_zeroDur (c : Call) (h : isZeroDur ints (simpCall c) = true) (φ : I.Φ) :
    I.step c.fn φ (evalArgs I ρ c.args) = some φ := by
  simp only [isZeroDur, simpCall, Bool.and_eq_true, List.contains_iff_mem, beq_iff_eq] at h
  obtain ⟨⟨hm, hT⟩, hi⟩ := h
  rw [← evalArgs_simpArgs hI]
  apply hI.zero_duration _ hm
  · rw [lookup_evalArgs, hT]; rfl
  · rw [lookup_evalArgs, hi]; rfl

include hI in
theorem runSteps_norm (cs : List Call) (φ : I.Φ) :
    runSteps I ρ φ (normSteps ints cs) = runSteps I ρ φ cs := by
  induction cs generalizing φ with
  | nil => rfl
  | cons c rest ih =>
      unfold normSteps
      split
      · next hz =>
          rw [ih]
          conv => rhs; unfold runSteps
          rw [step_zeroDur hI ρ c hz]
      · conv => lhs; unfold runSteps
        conv => rhs; unfold runSteps
        simp only [simpCall, evalArgs_simpArgs hI]
        cases I.step c.fn φ (evalArgs I ρ c.args) with
        | none => rfl
        | some φ' => exact ih φ'

include hI in
theorem runRun_norm (r : Run) : runRun I ρ (normRun ints r) = runRun I ρ r := by
  simp only [runRun, normRun, simpCall, evalArgs_simpArgs hI, runSteps_norm hI]

include hI in
/-- **the normaliser preserves the meaning of a trace in every lawful interpretation** -/
theorem runTr_norm (t : Tr) : runTr I ρ (normTr ints t) = runTr I ρ t := by
  induction t with
  | leaf r => exact runRun_norm hI ρ r
  | ite c a b iha ihb => simp only [normTr, runTr, evalS_simp hI, iha, ihb]

end Norm

/-- two models with the same normal form mean the same in every lawful interpretation -/
theorem sem_eq_of_normalForm_eq {I : Interp} {tbl : List Model} {sigs : List Sig} (hI : Lawful I (integrators sigs))
    (ρ : Name → I.S) {a b : Name} {argsA argsB : List Expr} {t : Tr}
    (ha : normalForm tbl sigs a argsA = some t) (hb : normalForm tbl sigs b argsB = some t) :
    sem I ρ tbl sigs a argsA = sem I ρ tbl sigs b argsB := by
  unfold normalForm at ha hb
  unfold sem
  cases hsa : symbolicRun tbl sigs a argsA with
  | none => rw [hsa] at ha; cases ha
  | some ta =>
    cases hsb : symbolicRun tbl sigs b argsB with
    | none => rw [hsb] at hb; cases hb
    | some tb =>
      rw [hsa] at ha; rw [hsb] at hb
      simp only [Option.map_some, Option.some.injEq] at ha hb
      show runTr I ρ ta = runTr I ρ tb
      rw [← runTr_norm hI ρ ta, ← runTr_norm hI ρ tb, ha, hb]

/-- `nestOK` is a sound test: model `a` at the parameter expressions `args` means what model `b` means -/
theorem nestOK_sound {I : Interp} {tbl : List Model} {sigs : List Sig} (hI : Lawful I (integrators sigs))
    (ρ : Name → I.S) {a b : Name} {args : List Expr} (h : nestOK tbl sigs a b args = true) :
    ∃ mb, findModel tbl b = some mb ∧
      sem I ρ tbl sigs a args = sem I ρ tbl sigs b (mb.paramNames.map .param) := by
  unfold nestOK at h
  cases hb : findModel tbl b with
  | none => rw [hb] at h; cases h
  | some mb =>
    rw [hb] at h
    simp only at h
    refine ⟨mb, rfl, ?_⟩
    cases hna : normalForm tbl sigs a args with
    | none => rw [hna] at h; cases h
    | some ta =>
      cases hnb : normalForm tbl sigs b (mb.paramNames.map .param) with
      | none => rw [hna, hnb] at h; cases h
      | some tb =>
        rw [hna, hnb] at h
        have : ta = tb := by simpa using h
        subst this
        exact sem_eq_of_normalForm_eq hI ρ hna hnb

/-! ## one branch of a model with `if`s -/

/-- the comparisons along `path` come out as the path says (in interpretation `I`, valuation `ρ`) -/
def PathHolds (I : Interp) (ρ : Name → I.S) : List Bool → Tr → Prop
  | b :: bs, .ite c x y =>
      I.cmp c.op (evalS I ρ (I.sym (nm! "t")) c.lhs) (evalS I ρ (I.sym (nm! "t")) c.rhs) = b
        ∧ PathHolds I ρ bs (if b then x else y)
  | _, _ => True

theorem runTr_selectBranch {I : Interp} (ρ : Name → I.S) (path : List Bool) (t t' : Tr)
    (hsel : selectBranch path t = some t') (hp : PathHolds I ρ path t) : runTr I ρ t = runTr I ρ t' := by
  induction path generalizing t with
  | nil => simp only [selectBranch, Option.some.injEq] at hsel; rw [hsel]
  | cons b bs ih =>
      cases t with
      | leaf r => simp [selectBranch] at hsel
      | ite c x y =>
          simp only [selectBranch] at hsel
          obtain ⟨hc, hrest⟩ := hp
          conv => lhs; unfold runTr
          rw [hc]
          cases b with
          | true => simpa using ih x hsel hrest
          | false => simpa using ih y hsel hrest

/-- `nestOKAt` is a sound test: whenever the comparisons along the path come out as stated, model `a` at `argsA` means what
    model `b` at `argsB` means -/
theorem nestOKAt_sound {I : Interp} {tbl : List Model} {sigs : List Sig} (hI : Lawful I (integrators sigs))
    (ρ : Name → I.S) {a b : Name} {argsA argsB : List Expr} {path : List Bool}
    (h : nestOKAt tbl sigs a argsA path b argsB = true) :
    ∃ ta, normalForm tbl sigs a argsA = some ta ∧
      (PathHolds I ρ path ta → sem I ρ tbl sigs a argsA = sem I ρ tbl sigs b argsB) := by
  unfold nestOKAt at h
  cases hna : normalForm tbl sigs a argsA with
  | none => rw [hna] at h; cases h
  | some ta =>
    cases hnb : normalForm tbl sigs b argsB with
    | none => rw [hna, hnb] at h; cases h
    | some tb =>
      rw [hna, hnb] at h
      have hsel : selectBranch path ta = some tb := by simpa using h
      refine ⟨ta, rfl, fun hp => ?_⟩
      unfold normalForm at hna hnb
      unfold sem
      cases hsa : symbolicRun tbl sigs a argsA with
      | none => rw [hsa] at hna; cases hna
      | some ta0 =>
        cases hsb : symbolicRun tbl sigs b argsB with
        | none => rw [hsb] at hnb; cases hnb
        | some tb0 =>
          rw [hsa] at hna; rw [hsb] at hnb
          simp only [Option.map_some, Option.some.injEq] at hna hnb
          show runTr I ρ ta0 = runTr I ρ tb0
          rw [← runTr_norm hI ρ ta0, ← runTr_norm hI ρ tb0, hna, hnb]
          exact runTr_selectBranch ρ path ta tb hsel hp

/-! ## the dimension checker -/

/-- an interpretation whose primitives accept a density of the dimension their signature states (and `from_phi` one
    grid per population) and produce a density of the stated dimension -/
structure Typed (I : Interp) (sigs : List Sig) (dim : I.Φ → Nat) : Prop where
  start_ok : ∀ s ∈ sigs, s.kind = .start → ∀ args, ∃ φ, I.start s.fn args = some φ ∧ dim φ = s.dimOut
  step_ok : ∀ s ∈ sigs, s.kind = .step → ∀ φ args, dim φ = s.dimIn →
      ∃ φ', I.step s.fn φ args = some φ' ∧ dim φ' = s.dimOut
  finish_ok : ∀ s ∈ sigs, s.kind = .finish → ∀ φ args, (s.dimIn = 0 ∨ s.dimIn = dim φ) →
      (∀ g ∈ s.perPopParams, ∃ l, args.lookup g = some (.tup l) ∧ l.length = dim φ) →
      ∃ o, I.finish s.fn φ args = some o

theorem findSig_some {sigs : List Sig} {fn : Name} {s : Sig} (h : findSig sigs fn = some s) :
    s ∈ sigs ∧ s.fn = fn := by
  unfold findSig at h
  exact ⟨List.mem_of_find?_eq_some h, by simpa using List.find?_some h⟩

section Check
variable {I : Interp} {sigs : List Sig} {dim : I.Φ → Nat} (hT : Typed I sigs dim) (ρ : Name → I.S)

theorem tupleLen_evalTuple (e : Expr) (d : Nat) (h : tupleLen e = some d) : (evalTuple I ρ e).length = d := by
  induction e generalizing d with
  | tnil => simp [tupleLen] at h; subst h; rfl
  | tcons hd tl _ iht =>
      simp only [tupleLen, Option.map_eq_some_iff] at h
      obtain ⟨d', hd', rfl⟩ := h
      simp only [evalTuple, List.length_cons, iht d' hd']
  | _ => simp [tupleLen] at h

theorem tupleLen_evalV (e : Expr) (d : Nat) (h : tupleLen e = some d) :
    ∃ l, evalV I ρ e = .tup l ∧ l.length = d := by
  cases e with
  | tnil => simp [tupleLen] at h; subst h; exact ⟨[], rfl, rfl⟩
  | tcons hd tl => exact ⟨_, rfl, tupleLen_evalTuple ρ _ d h⟩
  | _ => simp [tupleLen] at h

theorem argsOk_perPop (s : Sig) (d : Nat) (c : Call) (h : argsOk s d c = true) :
    ∀ g ∈ s.perPopParams, ∃ l, (evalArgs I ρ c.args).lookup g = some (.tup l) ∧ l.length = d := by
  intro g hg
  simp only [argsOk, Bool.and_eq_true, List.all_eq_true] at h
  have h1 := h.1.2 g hg
  rw [lookup_evalArgs]
  cases hl : c.args.lookup g with
  | none => rw [hl] at h1; cases h1
  | some e =>
      rw [hl] at h1
      simp only [Bool.and_eq_true, beq_iff_eq] at h1
      obtain ⟨l, hv, hlen⟩ := tupleLen_evalV ρ e d h1.1
      exact ⟨l, by simp [hv], hlen⟩

include hT in
theorem checkSteps_sound (cs : List Call) (d d' : Nat) (φ : I.Φ) (h : checkSteps sigs d cs = some d')
    (hφ : dim φ = d) : ∃ φ', runSteps I ρ φ cs = some φ' ∧ dim φ' = d' := by
  induction cs generalizing d φ with
  | nil => simp only [checkSteps, Option.some.injEq] at h; subst h; exact ⟨φ, rfl, hφ⟩
  | cons c rest ih =>
      unfold checkSteps at h
      cases hs : findSig sigs c.fn with
      | none => rw [hs] at h; cases h
      | some s =>
          rw [hs] at h
          simp only at h
          split at h
          · next hc =>
              simp only [Bool.and_eq_true, beq_iff_eq] at hc
              obtain ⟨hm, hfn⟩ := findSig_some hs
              obtain ⟨φ', hstep, hdim⟩ := hT.step_ok s hm hc.1.1 φ (evalArgs I ρ c.args) (hφ.trans hc.1.2.symm)
              obtain ⟨φ'', hrun, hd''⟩ := ih s.dimOut φ' h hdim
              refine ⟨φ'', ?_, hd''⟩
              unfold runSteps
              rw [← hfn, hstep]; exact hrun
          · cases h

include hT in
/-- **soundness of the checker**: a run that passes `checkRun` executes to the end in every typed interpretation —
    every primitive is applied to a density of the dimension it expects, `from_phi` gets one grid per population -/
theorem checkRun_sound (r : Run) (h : checkRun sigs r = true) : ∃ o, runRun I ρ r = some o := by
  unfold checkRun at h
  cases hs : findSig sigs r.start.fn with
  | none => rw [hs] at h; cases h
  | some s =>
      rw [hs] at h
      simp only [Bool.and_eq_true, beq_iff_eq] at h
      obtain ⟨⟨hk, _⟩, h2⟩ := h
      obtain ⟨hm, hfn⟩ := findSig_some hs
      obtain ⟨φ, hstart, hdim⟩ := hT.start_ok s hm hk (evalArgs I ρ r.start.args)
      cases hcs : checkSteps sigs s.dimOut r.steps with
      | none => rw [hcs] at h2; cases h2
      | some d =>
          rw [hcs] at h2
          simp only at h2
          obtain ⟨φ', hrun, hd'⟩ := checkSteps_sound hT ρ r.steps s.dimOut d φ hcs hdim
          unfold checkFinish at h2
          cases hf : findSig sigs r.fin.fn with
          | none => rw [hf] at h2; cases h2
          | some sf =>
              rw [hf] at h2
              simp only [Bool.and_eq_true, Bool.or_eq_true, beq_iff_eq] at h2
              obtain ⟨hmf, hfnf⟩ := findSig_some hf
              have hdimf : sf.dimIn = 0 ∨ sf.dimIn = dim φ' := by
                rcases h2.1.2 with h0 | h0
                · exact Or.inl h0
                · exact Or.inr (h0.trans hd'.symm)
              obtain ⟨o, ho⟩ := hT.finish_ok sf hmf h2.1.1 φ' (evalArgs I ρ r.fin.args) hdimf
                (by rw [hd']; exact argsOk_perPop ρ sf d r.fin h2.2)
              refine ⟨o, ?_⟩
              unfold runRun
              rw [← hfn, hstart]; simp only [hrun]; rw [← hfnf]; exact ho

include hT in
theorem checkTr_sound (t : Tr) (h : checkTr sigs t = true) : ∃ o, runTr I ρ t = some o := by
  induction t with
  | leaf r => exact checkRun_sound hT ρ r h
  | ite c a b iha ihb =>
      simp only [checkTr, Bool.and_eq_true] at h
      unfold runTr
      split
      · exact iha h.1
      · exact ihb h.2

end Check

/-! ## arity -/

/-- a model whose body starts with `a, b, c = params` refuses every parameter vector of another length
    (Python: `ValueError: too many / not enough values to unpack`) -/
theorem exec_unpack_arity {tbl : List Model} {m : Model} (hf : findModel tbl m.name = some m)
    {names : List Name} {rest : Prog} (hb : m.body = .unpack names rest) (args : List Expr)
    (hlen : args.length ≠ names.length) : exec tbl m.name args = none := by
  unfold exec delegationFuel execFuel
  rw [hf]
  simp only [hb]
  unfold execBody
  rw [if_neg (fun h => hlen h.symm)]

theorem headOk_unpack {m : Model} (h : headOk m = true) (hne : m.paramNames ≠ []) :
    ∃ rest, m.body = .unpack m.paramNames rest := by
  unfold headOk at h
  split at h
  · next names rest hb =>
      simp only [Bool.and_eq_true, beq_iff_eq] at h
      exact ⟨rest, by rw [hb, h.1]⟩
  · cases h
  · simp only [Bool.and_eq_true, beq_iff_eq] at h
    exact absurd h.1.1 hne

/-- **exact arity**: a well-formed model with named parameters runs on the vector of its named parameters and
    refuses every vector of another length -/
theorem wellFormed_arity {tbl : List Model} {sigs : List Sig} {m : Model} (hw : wellFormed tbl sigs m = true)
    (hf : findModel tbl m.name = some m) (hne : m.paramNames ≠ []) :
    (exec tbl m.name (m.paramNames.map .param)).isSome = true ∧
    ∀ args : List Expr, args.length ≠ m.paramNames.length → exec tbl m.name args = none := by
  unfold wellFormed at hw
  simp only [Bool.and_eq_true] at hw
  obtain ⟨⟨⟨hh, _⟩, _⟩, hr⟩ := hw
  constructor
  · unfold symbolicRun at hr
    cases he : exec tbl m.name (m.paramNames.map .param) with
    | none => rw [he] at hr; cases hr
    | some t => rfl
  · intro args hlen
    obtain ⟨rest, hb⟩ := headOk_unpack hh hne
    exact exec_unpack_arity hf hb args hlen

/-! ## relabelling populations -/

/-- the same interpretation, with the arguments of the sampling primitive transformed (`ns` reversed) -/
abbrev Interp.withFinishArgs (I : Interp) (f : List (Name × Val I.S) → List (Name × Val I.S)) : Interp :=
  { I with finish := fun fn φ args => I.finish fn φ (f args) }

/-- equivariance laws: every listed primitive commutes with the relabelling `τ` of the density (the identity on
    one-population densities, the transposition on two-population ones), the sampling primitive with `τOut` when the
    requested sample sizes are relabelled as well (`nsSwap`) -/
structure SwapLawful (I : Interp) (rules : List SwapRule) (τ : I.Φ → I.Φ) (τOut : I.Out → I.Out)
    (nsSwap : List (Name × Val I.S) → List (Name × Val I.S)) : Prop where
  start_eq : ∀ r ∈ rules, ∀ args args', reorder r.ren (args.map (·.1)) args = some args' →
      I.start r.fn' args' = (I.start r.fn args).map τ
  step_eq : ∀ r ∈ rules, ∀ φ args args', reorder r.ren (args.map (·.1)) args = some args' →
      I.step r.fn' (τ φ) args' = (I.step r.fn φ args).map τ
  finish_eq : ∀ r ∈ rules, ∀ φ args args', reorder r.ren (args.map (·.1)) args = some args' →
      I.finish r.fn' (τ φ) args' = (I.finish r.fn φ (nsSwap args)).map τOut

section Swap
variable {I : Interp} (ρ : Name → I.S) (f : List (Name × Val I.S) → List (Name × Val I.S))

theorem withFinishArgs_start : (I.withFinishArgs f).start = I.start := rfl
theorem withFinishArgs_step : (I.withFinishArgs f).step = I.step := rfl
theorem withFinishArgs_finish (fn : Name) (φ : I.Φ) (args : List (Name × Val I.S)) :
    (I.withFinishArgs f).finish fn φ args = I.finish fn φ (f args) := rfl
theorem withFinishArgs_cmp : (I.withFinishArgs f).cmp = I.cmp := rfl

theorem evalS_withFinishArgs (τ : I.S) (e : Expr) :
    evalS (I.withFinishArgs f) ρ τ e = evalS I ρ τ e := by
  induction e with
  | neg e ih => simp only [evalS, ih]
  | add a b iha ihb => simp only [evalS, iha, ihb]
  | sub a b iha ihb => simp only [evalS, iha, ihb]
  | mul a b iha ihb => simp only [evalS, iha, ihb]
  | div a b iha ihb => simp only [evalS, iha, ihb]
  | pow a b iha ihb => simp only [evalS, iha, ihb]
  | call1 g e ih => simp only [evalS, ih]
  | _ => rfl

theorem evalTuple_withFinishArgs (e : Expr) : evalTuple (I.withFinishArgs f) ρ e = evalTuple I ρ e := by
  induction e with
  | tcons h t _ iht => simp only [evalTuple, iht]; congr 1; exact evalS_withFinishArgs ρ f _ h
  | _ => rfl

theorem evalV_withFinishArgs (e : Expr) : evalV (I.withFinishArgs f) ρ e = evalV I ρ e := by
  cases e with
  | lam b => show Val.fn _ = Val.fn _; congr 1; funext τ; exact evalS_withFinishArgs ρ f τ b
  | tnil => rfl
  | tcons h t => show Val.tup _ = Val.tup _; congr 1; exact evalTuple_withFinishArgs ρ f _
  | _ => show Val.scalar _ = Val.scalar _; congr 1 <;> exact evalS_withFinishArgs ρ f _ _

theorem evalArgs_withFinishArgs (args : List (Name × Expr)) :
    evalArgs (I.withFinishArgs f) ρ args = evalArgs I ρ args := by
  induction args with
  | nil => rfl
  | cons a r ih => obtain ⟨k, e⟩ := a; simp only [evalArgs, ih, evalV_withFinishArgs]

theorem runSteps_withFinishArgs (cs : List Call) (φ : I.Φ) :
    runSteps (I.withFinishArgs f) ρ φ cs = runSteps I ρ φ cs := by
  induction cs generalizing φ with
  | nil => rfl
  | cons c rest ih =>
      unfold runSteps
      rw [evalArgs_withFinishArgs, withFinishArgs_step]
      cases I.step c.fn φ (evalArgs I ρ c.args) with
      | none => rfl
      | some φ' => exact ih φ'

theorem Lawful.withFinishArgs {ints : List Name} (hI : Lawful I ints) : Lawful (I.withFinishArgs f) ints :=
  ⟨hI.mul_one_left, hI.mul_one_right, hI.sub_zero, hI.zero_duration⟩

theorem keys_evalArgs (args : List (Name × Expr)) : (evalArgs I ρ args).map (·.1) = args.map (·.1) := by
  induction args with
  | nil => rfl
  | cons a r ih => obtain ⟨k, e⟩ := a; simp only [evalArgs, List.map_cons, ih]

theorem reorder_evalArgs (ren : List (Name × Name)) (ks : List Name) (args args' : List (Name × Expr))
    (h : reorder ren ks args = some args') : reorder ren ks (evalArgs I ρ args) = some (evalArgs I ρ args') := by
  induction ks generalizing args' with
  | nil => simp only [reorder, Option.some.injEq] at h; subst h; rfl
  | cons k ks ih =>
      unfold reorder at h ⊢
      rw [lookup_evalArgs]
      cases hl : args.lookup (renKey ren k) with
      | none => rw [hl] at h; cases h
      | some v =>
          cases hr : reorder ren ks args with
          | none => rw [hl, hr] at h; cases h
          | some r =>
              rw [hl, hr] at h
              simp only [Option.some.injEq] at h
              subst h
              rw [ih r hr]
              rfl

variable {rules : List SwapRule} {τ : I.Φ → I.Φ} {τOut : I.Out → I.Out}

theorem swapCall_spec {c c' : Call} (h : swapCall rules c = some c') :
    ∃ r ∈ rules, r.fn = c.fn ∧ c'.fn = r.fn' ∧
      reorder r.ren ((evalArgs I ρ c.args).map (·.1)) (evalArgs I ρ c.args) = some (evalArgs I ρ c'.args) := by
  unfold swapCall at h
  cases hr : rules.find? (fun r => r.fn == c.fn) with
  | none => rw [hr] at h; cases h
  | some r =>
      rw [hr] at h
      simp only [Option.map_eq_some_iff] at h
      obtain ⟨as, has, rfl⟩ := h
      refine ⟨r, List.mem_of_find?_eq_some hr, by simpa using List.find?_some hr, rfl, ?_⟩
      rw [keys_evalArgs]
      exact reorder_evalArgs ρ r.ren _ c.args as has

variable (hS : SwapLawful I rules τ τOut f)

include hS in
theorem runSteps_swap (cs cs' : List Call) (h : swapCalls rules cs = some cs') (φ : I.Φ) :
    runSteps I ρ (τ φ) cs' = (runSteps I ρ φ cs).map τ := by
  induction cs generalizing cs' φ with
  | nil => simp only [swapCalls, Option.some.injEq] at h; subst h; rfl
  | cons c rest ih =>
      unfold swapCalls at h
      cases hc : swapCall rules c with
      | none => rw [hc] at h; cases h
      | some c' =>
          cases hr : swapCalls rules rest with
          | none => rw [hc, hr] at h; cases h
          | some rest' =>
              rw [hc, hr] at h
              simp only [Option.some.injEq] at h
              subst h
              obtain ⟨r, hm, hfn, hfn', hre⟩ := swapCall_spec ρ hc
              conv => lhs; unfold runSteps
              conv => rhs; unfold runSteps
              rw [hfn', hS.step_eq r hm φ _ _ hre, hfn]
              cases I.step c.fn φ (evalArgs I ρ c.args) with
              | none => rfl
              | some φ' => exact ih rest' hr φ'

include hS in
theorem runRun_swap (r r' : Run) (h : swapRun rules r = some r') :
    runRun I ρ r' = (runRun (I.withFinishArgs f) ρ r).map τOut := by
  unfold swapRun at h
  cases hs : swapCall rules r.start with
  | none => rw [hs] at h; cases h
  | some s' =>
    cases hm : swapCalls rules r.steps with
    | none => rw [hs, hm] at h; cases h
    | some m' =>
      cases hfin : swapCall rules r.fin with
      | none => rw [hs, hm, hfin] at h; cases h
      | some f' =>
        rw [hs, hm, hfin] at h
        simp only [Option.some.injEq] at h
        subst h
        obtain ⟨rs, hms, hfns, hfns', hres⟩ := swapCall_spec ρ hs
        obtain ⟨rf, hmf, hfnf, hfnf', hrefin⟩ := swapCall_spec ρ hfin
        unfold runRun
        simp only [evalArgs_withFinishArgs, runSteps_withFinishArgs]
        rw [hfns', hS.start_eq rs hms _ _ hres, hfns]
        cases I.start r.start.fn (evalArgs I ρ r.start.args) with
        | none => rfl
        | some φ =>
            simp only [Option.map_some]
            rw [runSteps_swap ρ f hS r.steps m' hm φ]
            cases runSteps I ρ φ r.steps with
            | none => rfl
            | some φ' =>
                simp only [Option.map_some]
                rw [hfnf', hS.finish_eq rf hmf φ' _ _ hrefin, hfnf]

include hS in
theorem runTr_swap (t t' : Tr) (h : swapTr rules t = some t') :
    runTr I ρ t' = (runTr (I.withFinishArgs f) ρ t).map τOut := by
  induction t generalizing t' with
  | leaf r =>
      simp only [swapTr, Option.map_eq_some_iff] at h
      obtain ⟨r', hr', rfl⟩ := h
      exact runRun_swap ρ f hS r r' hr'
  | ite c a b iha ihb =>
      unfold swapTr at h
      cases ha : swapTr rules a with
      | none => rw [ha] at h; cases h
      | some a' =>
        cases hb : swapTr rules b with
        | none => rw [ha, hb] at h; cases h
        | some b' =>
          rw [ha, hb] at h
          simp only [Option.some.injEq] at h
          subst h
          unfold runTr
          simp only [evalS_withFinishArgs]
          split
          · exact iha a' ha
          · exact ihb b' hb

end Swap

/-- `swapOK` is a sound test: the model at the permuted parameter expressions `args` is the relabelled model
    (evaluated at the relabelled sample sizes) -/
theorem swapOK_sound {I : Interp} {tbl : List Model} {sigs : List Sig} {rules : List SwapRule}
    (hI : Lawful I (integrators sigs)) {τ : I.Φ → I.Φ} {τOut : I.Out → I.Out}
    {f : List (Name × Val I.S) → List (Name × Val I.S)} (hS : SwapLawful I rules τ τOut f)
    (ρ : Name → I.S) {name : Name} {args : List Expr} (h : swapOK tbl sigs rules name args = true) :
    ∃ m, findModel tbl name = some m ∧
      sem I ρ tbl sigs name args
        = (sem (I.withFinishArgs f) ρ tbl sigs name (m.paramNames.map .param)).map τOut := by
  unfold swapOK at h
  cases hm : findModel tbl name with
  | none => rw [hm] at h; cases h
  | some m =>
    rw [hm] at h
    simp only at h
    refine ⟨m, rfl, ?_⟩
    cases hna : normalForm tbl sigs name args with
    | none => rw [hna] at h; cases h
    | some ta =>
      cases hnb : normalForm tbl sigs name (m.paramNames.map .param) with
      | none => rw [hna, hnb] at h; cases h
      | some tb =>
        rw [hna, hnb] at h
        have hsw : swapTr rules tb = some ta := by simpa using h
        unfold normalForm at hna hnb
        unfold sem
        cases hsa : symbolicRun tbl sigs name args with
        | none => rw [hsa] at hna; cases hna
        | some ta0 =>
          cases hsb : symbolicRun tbl sigs name (m.paramNames.map .param) with
          | none => rw [hsb] at hnb; cases hnb
          | some tb0 =>
            rw [hsa] at hna; rw [hsb] at hnb
            simp only [Option.map_some, Option.some.injEq] at hna hnb
            show runTr I ρ ta0 = (runTr (I.withFinishArgs f) ρ tb0).map τOut
            rw [← runTr_norm hI ρ ta0, ← runTr_norm (hI.withFinishArgs f) ρ tb0, hna, hnb]
            exact runTr_swap ρ f hS tb ta hsw

end DadiVerif.ModelDSL
