import DadiVerif.Model.Demog1D
import Mathlib.Tactic.Ring
import Mathlib.Tactic.FieldSimp
import Mathlib.Tactic.Linarith
import Mathlib.Tactic.Positivity
import Mathlib.Algebra.Order.Field.Rat
import Mathlib.Algebra.BigOperators.Group.List.Basic
/-! Helper lemmas for C01 (library models): the heterozygosity of one epoch in closed form, the time steps of an epoch cover it
    exactly, an epoch leaves the heterozygosity unchanged only at its own fixed point, the neutral time step. -/
namespace DadiVerif.Demog1D

theorem hetStep_sub_fix (κ b dt H : ℚ) (hκ : κ ≠ 0) (h1 : 1 + κ * dt ≠ 0) :
    hetStep κ b dt H - b / κ = (H - b / κ) / (1 + κ * dt) := by
  unfold hetStep
  have h1' : 1 + dt * κ ≠ 0 := by rw [mul_comm]; exact h1
  have e : (H + dt * b) / (1 + κ * dt) - b / κ - (H - b / κ) / (1 + κ * dt) = 0 := by
    rw [mul_comm κ dt]
    field_simp
    ring
  linarith

theorem hetEpoch_cons (κ b d : ℚ) (ds : List ℚ) (H : ℚ) :
    hetEpoch κ b (d :: ds) H = hetEpoch κ b ds (hetStep κ b d H) := rfl

/-- distance to the fixed point b/κ after an epoch: divided by Π(1 + κ·dtᵢ) -/
theorem hetEpoch_sub_fix (κ b : ℚ) (hκ : κ ≠ 0) : ∀ (dts : List ℚ) (H : ℚ), (∀ d ∈ dts, 1 + κ * d ≠ 0) →
    hetEpoch κ b dts H - b / κ = (H - b / κ) / (dts.map fun d => 1 + κ * d).prod := by
  intro dts
  induction dts with
  | nil => intro H _; simp [hetEpoch]
  | cons d ds ih =>
    intro H hne
    have hd : 1 + κ * d ≠ 0 := hne d (List.mem_cons_self)
    rw [hetEpoch_cons, ih _ (fun x hx => hne x (List.mem_cons_of_mem _ hx)), hetStep_sub_fix κ b d H hκ hd]
    simp only [List.map_cons, List.prod_cons]
    rw [div_div]

theorem prod_gt_one (κ : ℚ) (hκ : 0 < κ) : ∀ (dts : List ℚ), dts ≠ [] → (∀ d ∈ dts, 0 < d) →
    1 < (dts.map fun d => 1 + κ * d).prod := by
  intro dts
  induction dts with
  | nil => intro h; exact absurd rfl h
  | cons d ds ih =>
    intro _ hpos
    have hd : 0 < d := hpos d (List.mem_cons_self)
    have h1 : 1 < 1 + κ * d := by have := mul_pos hκ hd; linarith
    simp only [List.map_cons, List.prod_cons]
    by_cases hds : ds = []
    · subst hds; simpa using h1
    · have h2 := ih hds (fun x hx => hpos x (List.mem_cons_of_mem _ hx))
      calc (1 : ℚ) = 1 * 1 := by ring
        _ < (1 + κ * d) * (List.map (fun d => 1 + κ * d) ds).prod := by
            apply mul_lt_mul'' h1 h2 <;> norm_num

/-- an epoch of at least one step of positive length leaves the heterozygosity unchanged **iff** it already is the epoch's own
    stationary value b/κ: only an epoch at equilibrium is a no-op -/
theorem hetEpoch_noop_iff (κ b : ℚ) (hκ : 0 < κ) (dts : List ℚ) (hne : dts ≠ []) (hpos : ∀ d ∈ dts, 0 < d) (H : ℚ) :
    hetEpoch κ b dts H = H ↔ H = b / κ := by
  have hP := prod_gt_one κ hκ dts hne hpos
  have hne0 : ∀ d ∈ dts, 1 + κ * d ≠ 0 := fun d hd => by have := mul_pos hκ (hpos d hd); linarith
  have hfix := hetEpoch_sub_fix κ b (ne_of_gt hκ) dts H hne0
  set P := (dts.map fun d => 1 + κ * d).prod with hPdef
  have hP0 : P ≠ 0 := by linarith
  constructor
  · intro h
    rw [h] at hfix
    have : (H - b / κ) * (P - 1) = 0 := by
      have h2 : (H - b / κ) * P = H - b / κ := by
        conv_lhs => rw [hfix]
        field_simp
      linarith
    rcases mul_eq_zero.mp this with h3 | h3
    · linarith
    · linarith
  · intro h
    have : hetEpoch κ b dts H - b / κ = 0 := by rw [hfix, h]; simp
    linarith

/-! ### the time steps of an epoch -/

theorem fullSteps_spec (T dt : ℚ) (hT : 0 ≤ T) (hdt : 0 < dt) :
    (fullSteps T dt : ℚ) * dt ≤ T ∧ T < ((fullSteps T dt : ℚ) + 1) * dt := by
  unfold fullSteps
  set q := T / dt with hq
  have hq0 : 0 ≤ q := div_nonneg hT (le_of_lt hdt)
  have hf0 : (0 : ℤ) ≤ q.floor := Rat.le_floor_iff.mpr (by simpa using hq0)
  have hcast : ((q.floor.toNat : ℕ) : ℚ) = (q.floor : ℚ) := by
    have : ((q.floor.toNat : ℕ) : ℤ) = q.floor := Int.toNat_of_nonneg hf0
    exact_mod_cast this
  rw [hcast]
  have hle : (q.floor : ℚ) ≤ q := Rat.le_floor_iff.mp (le_refl _)
  have hlt : q < (q.floor : ℚ) + 1 := by
    by_contra hcon
    have hcon := not_lt.mp hcon
    have : q.floor + 1 ≤ q.floor := Rat.le_floor_iff.mpr (by push_cast; exact hcon)
    omega
  have hT' : T = q * dt := by rw [hq]; field_simp
  constructor
  · rw [hT']; exact mul_le_mul_of_nonneg_right hle (le_of_lt hdt)
  · rw [hT']; exact mul_lt_mul_of_pos_right hlt hdt

/-- the steps cover the epoch exactly: their lengths add up to T -/
theorem stepList_sum (T dt : ℚ) (hT : 0 ≤ T) (hdt : 0 < dt) : (stepList T dt).sum = T := by
  obtain ⟨h1, _⟩ := fullSteps_spec T dt hT hdt
  unfold stepList
  rw [List.sum_append, List.sum_replicate, nsmul_eq_mul]
  by_cases h : (fullSteps T dt : ℚ) * dt < T
  · rw [if_pos h]; simp
  · rw [if_neg h]
    have : (fullSteps T dt : ℚ) * dt = T := le_antisymm h1 (not_lt.mp h)
    simp [this]

/-- every step is positive and no longer than dt -/
theorem stepList_pos (T dt : ℚ) (hT : 0 ≤ T) (hdt : 0 < dt) : ∀ d ∈ stepList T dt, 0 < d ∧ d ≤ dt := by
  obtain ⟨_, h2⟩ := fullSteps_spec T dt hT hdt
  intro d hd
  unfold stepList at hd
  rcases List.mem_append.mp hd with h | h
  · have := (List.mem_replicate.mp h).2
    subst this; exact ⟨hdt, le_refl _⟩
  · by_cases hc : (fullSteps T dt : ℚ) * dt < T
    · rw [if_pos hc] at h
      have := List.mem_singleton.mp h
      subst this
      constructor
      · linarith
      · have : ((fullSteps T dt : ℚ) + 1) * dt = (fullSteps T dt : ℚ) * dt + dt := by ring
        linarith
    · rw [if_neg hc] at h; cases h

theorem stepList_ne_nil (T dt : ℚ) (hT : 0 < T) (hdt : 0 < dt) : stepList T dt ≠ [] := by
  intro h
  have := stepList_sum T dt (le_of_lt hT) hdt
  rw [h] at this
  simp at this
  linarith

/-- the closed form the driver evaluates is the step-by-step epoch -/
theorem hetEpochClosed_eq (κ b T dt H : ℚ) (hκ : 0 < κ) (hT : 0 ≤ T) (hdt : 0 < dt) :
    hetEpochClosed κ b T dt H = hetEpoch κ b (stepList T dt) H := by
  have hpos := stepList_pos T dt hT hdt
  have hne0 : ∀ d ∈ stepList T dt, 1 + κ * d ≠ 0 := fun d hd => by have := mul_pos hκ (hpos d hd).1; linarith
  have hfix := hetEpoch_sub_fix κ b (ne_of_gt hκ) (stepList T dt) H hne0
  have hprod : ((stepList T dt).map fun d => 1 + κ * d).prod
      = (1 + κ * dt) ^ fullSteps T dt * (if (fullSteps T dt : ℚ) * dt < T then 1 + κ * (T - (fullSteps T dt : ℚ) * dt) else 1) := by
    unfold stepList
    rw [List.map_append, List.prod_append, List.map_replicate, List.prod_replicate]
    by_cases h : (fullSteps T dt : ℚ) * dt < T
    · simp [if_pos h]
    · simp [if_neg h]
  unfold hetEpochClosed
  simp only []
  rw [← hprod]
  linarith

/-! ### the time step of a neutral one-population epoch -/

theorem computeDt_neutral (tf nu h : ℚ) (hnu : 0 < nu) :
    Gen.Py.computeDt tf nu 0 0 h = some (4 * nu * tf) := by
  have hv : (0 : ℚ) < 1 / 4 / nu := by positivity
  have hmax : Gen.Py.maxVM nu 0 0 h = 1 / 4 / nu := by
    unfold Gen.Py.maxVM ratMax ratAbs
    simp only [lt_self_iff_false, if_false, zero_mul]
    rw [if_neg (not_le.mpr hv), if_neg (not_le.mpr hv)]
  unfold Gen.Py.computeDt
  rw [hmax, if_pos hv]
  congr 1
  field_simp

/-- one epoch as `one_pop` runs it (ν > 0, T > 0, time-step control tf > 0) returns a heterozygosity, and returns the one it was given
    **iff** that is the stationary value b·ν of the epoch's own size -/
theorem hetOnePop_noop_iff (tf b nu T H : ℚ) (htf : 0 < tf) (hnu : 0 < nu) (hT : 0 < T) :
    ∃ H', hetOnePop tf b (nu, T) H = .ok H' ∧ (H' = H ↔ H = b * nu) := by
  have hdt : (0 : ℚ) < 4 * nu * tf := by positivity
  have hκ : (0 : ℚ) < 1 / nu := by positivity
  refine ⟨hetEpochClosed (1 / nu) b T (4 * nu * tf) H, ?_, ?_⟩
  · unfold hetOnePop
    simp only []
    rw [if_neg (ne_of_gt hT), if_neg (not_lt.mpr (le_of_lt hT)), if_neg (not_le.mpr hnu), computeDt_neutral tf nu (1/2) hnu]
    simp only []
    rw [if_neg (not_le.mpr hdt)]
  · rw [hetEpochClosed_eq _ _ _ _ _ hκ (le_of_lt hT) hdt,
        hetEpoch_noop_iff _ _ hκ _ (stepList_ne_nil T _ hT hdt) (fun d hd => (stepList_pos T _ (le_of_lt hT) hdt d hd).1)]
    have : b / (1 / nu) = b * nu := by field_simp
    rw [this]

end DadiVerif.Demog1D
