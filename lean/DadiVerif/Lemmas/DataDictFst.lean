import DadiVerif.Lemmas.DataDictSub
/-! Infrastructure for C13, part 10: Weir & Cockerham (1984) written out from the paper — for ANY number of populations and ANY
    (unequal) sample sizes — as the specification the generated formulas of `Spectrum.Fst` (`fstNc`, `fstPtw`, `fstPbar*`, `fstS2*`,
    `fstA`, `fstD`) are compared with.

    Evolution 38:1358, p. 1360, for one allele, `r` populations with sample sizes `n_i` and sample allele frequencies `p̃_i`:
      n̄ = Σ n_i / r,   n_c = (r n̄ − Σ n_i² / (r n̄)) / (r − 1),   p̄ = Σ n_i p̃_i / (r n̄),   s² = Σ n_i (p̃_i − p̄)² / ((r − 1) n̄),
      a = n̄/n_c · { s² − 1/(n̄ − 1) · [ p̄(1 − p̄) − (r − 1)/r · s² − h̄/4 ] }                                   (eq. 2)
      b = n̄/(n̄ − 1) · [ p̄(1 − p̄) − (r − 1)/r · s² − (2n̄ − 1)/(4n̄) · h̄ ]                                      (eq. 3)
      c = h̄/2                                                                                                  (eq. 4)
      θ̂ = Σ_loci a / Σ_loci (a + b + c)                                                                        (eq. 10)
    A frequency spectrum has no heterozygote counts; dadi assumes random mating, i.e. the within-population component `b` is zero,
    which determines `h̄`; what is left is `a` and `c` (dadi's `a` and `d`). -/
namespace DadiVerif.DataDict
open DadiVerif.Gen.DD

/-! ### the specification -/

def wcR (ns : List ℕ) : ℚ := (ns.length : ℚ)
def wcNbar (ns : List ℕ) : ℚ := sumMap ns (fun n => (n : ℚ)) / wcR ns
def wcNc (ns : List ℕ) : ℚ :=
  (wcR ns * wcNbar ns - sumMap ns (fun n => (n : ℚ) ^ 2) / (wcR ns * wcNbar ns)) / (wcR ns - 1)
/-- p̄ = Σ n_i p̃_i / (r n̄) with p̃_i = c_i / n_i (c_i = the entry's index along axis i) -/
def wcPbar (ns idx : List ℕ) : ℚ :=
  sumMap (ns.zip idx) (fun nc => (nc.1 : ℚ) * ((nc.2 : ℚ) / (nc.1 : ℚ))) / (wcR ns * wcNbar ns)
def wcS2 (ns idx : List ℕ) : ℚ :=
  sumMap (ns.zip idx) (fun nc => (nc.1 : ℚ) * ((nc.2 : ℚ) / (nc.1 : ℚ) - wcPbar ns idx) ^ 2) / ((wcR ns - 1) * wcNbar ns)
/-- the bracket shared by eqs. 2 and 3 without its h̄ term -/
def wcH (ns idx : List ℕ) : ℚ := wcPbar ns idx * (1 - wcPbar ns idx) - (wcR ns - 1) / wcR ns * wcS2 ns idx
def wcA (ns idx : List ℕ) (hbar : ℚ) : ℚ :=
  wcNbar ns / wcNc ns * (wcS2 ns idx - 1 / (wcNbar ns - 1) * (wcH ns idx - hbar / 4))
def wcB (ns idx : List ℕ) (hbar : ℚ) : ℚ :=
  wcNbar ns / (wcNbar ns - 1) * (wcH ns idx - (2 * wcNbar ns - 1) / (4 * wcNbar ns) * hbar)
def wcC (hbar : ℚ) : ℚ := hbar / 2

/-! ### the model's sums over populations -/

theorem sumPops_eq (ns idx : List ℕ) (t : ℚ → ℚ → ℚ) :
    sumPops ns idx t = sumMap (ns.zip idx) (fun nc => t (nc.1 : ℚ) (nc.2 : ℚ)) := by
  induction ns generalizing idx with
  | nil => simp [sumPops]
  | cons n ns ih =>
    cases idx with
    | nil => simp [sumPops]
    | cons c cs => simp [sumPops, ih]

theorem wcNbar_ge (ns : List ℕ) (hr : ns ≠ []) (h2 : ∀ n ∈ ns, 2 ≤ n) : 2 ≤ wcNbar ns := by
  have hsum : ∀ l : List ℕ, (∀ n ∈ l, 2 ≤ n) → 2 * (l.length : ℚ) ≤ sumMap l (fun n => (n : ℚ)) := by
    intro l hl
    induction l with
    | nil => simp
    | cons a t ih =>
      have ha : (2 : ℚ) ≤ a := by exact_mod_cast hl a (by simp)
      have := ih fun n hn => hl n (by simp [hn])
      simp only [List.length_cons, sumMap_cons]
      push_cast
      linarith
  have hlen : (0 : ℚ) < (ns.length : ℚ) := by
    have : 0 < ns.length := List.length_pos_of_ne_nil hr
    exact_mod_cast this
  unfold wcNbar wcR
  rw [le_div_iff₀ hlen]
  exact hsum ns h2

/-- the h̄ that random mating (b = 0, eq. 3) determines -/
def wcHbar (ns idx : List ℕ) : ℚ := 4 * wcNbar ns / (2 * wcNbar ns - 1) * wcH ns idx

theorem wcB_wcHbar (ns idx : List ℕ) (hr : ns ≠ []) (h2 : ∀ n ∈ ns, 2 ≤ n) : wcB ns idx (wcHbar ns idx) = 0 := by
  have hnb2 := wcNbar_ge ns hr h2
  have hnb0 : wcNbar ns ≠ 0 := by linarith
  have hnb21 : 2 * wcNbar ns - 1 ≠ 0 := by linarith
  have hnb21' : wcNbar ns * 2 - 1 ≠ 0 := by linarith
  unfold wcB wcHbar
  have : wcH ns idx - (2 * wcNbar ns - 1) / (4 * wcNbar ns) * (4 * wcNbar ns / (2 * wcNbar ns - 1) * wcH ns idx) = 0 := by
    field_simp
    ring
  rw [this, mul_zero]

/-- θ̂ of eq. 10 over the SNPs given by their derived-count vectors, each with the h̄ random mating determines -/
def wcTheta (ns : List ℕ) (counts : List (List ℕ)) : ℚ :=
  sumMap counts (fun c => wcA ns c (wcHbar ns c)) /
    sumMap counts (fun c => wcA ns c (wcHbar ns c) + wcB ns c (wcHbar ns c) + wcC (wcHbar ns c))

end DadiVerif.DataDict
