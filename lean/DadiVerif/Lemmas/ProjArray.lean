import DadiVerif.Lemmas.ProjBox
/-! C08, whole arrays, part 2: the d-dimensional model (`Spec.projectAxis`, `Spec.projectAxes`, `Spec.project`,
    `Spec.total`, `Spec.mirror`) described on its index box by the function-level operators of Lemmas/ProjBox.lean. -/
namespace DadiVerif
namespace PBox
open Finset Gen.Proj

/-! ### lists and boxes -/

theorem _root_.DadiVerif.InBox.length {sh idx : List ℕ} (h : InBox sh idx) : idx.length = sh.length :=
  List.Forall₂.length_eq h

theorem _root_.DadiVerif.InBox.set {sh idx : List ℕ} (h : InBox sh idx) : ∀ (k a i : ℕ), i < a → InBox (sh.set k a) (idx.set k i) := by
  unfold InBox at h ⊢
  induction h with
  | nil => intro k a i _; simp
  | @cons i0 s0 is ss h0 _ ih =>
    intro k a i hi
    cases k with
    | zero => exact List.Forall₂.cons hi (by assumption)
    | succ k => exact List.Forall₂.cons h0 (ih k a i hi)

theorem set_getD_self {sh : List ℕ} {k a : ℕ} (hk : k < sh.length) (h : sh.getD k 0 = a) : sh.set k a = sh := by
  apply List.ext_getElem?
  intro i
  rw [List.getElem?_set]
  split_ifs with h1
  · subst h1
    rw [List.getD_eq_getElem?_getD, List.getElem?_eq_getElem hk] at h
    rw [List.getElem?_eq_getElem hk]
    simpa using h.symm
  · rfl

theorem getD_set_self {sh : List ℕ} {k a : ℕ} (hk : k < sh.length) : (sh.set k a).getD k 0 = a := by
  simp [List.getD_eq_getElem?_getD, hk]

theorem getD_set_ne {sh : List ℕ} {k j a : ℕ} (h : k ≠ j) : (sh.set k a).getD j 0 = sh.getD j 0 := by
  simp [List.getD_eq_getElem?_getD, List.getElem?_set_ne h]

theorem getD_one_eq_zero {sh : List ℕ} {k : ℕ} (hk : k < sh.length) : sh.getD k 1 = sh.getD k 0 := by
  simp [List.getD_eq_getElem?_getD, hk]

theorem _root_.DadiVerif.InBox.getD_le {sh idx : List ℕ} {k m : ℕ} (h : InBox (sh.set k (m + 1)) idx) (hk : k < sh.length) :
    idx.getD k 0 ≤ m := by
  have h1 := h.getD_lt k (by simpa using hk)
  rw [getD_set_self hk] at h1
  omega

/-- an in-box index written back at its own position -/
theorem set_getD_idx {idx : List ℕ} {k : ℕ} (hk : k < idx.length) : idx.set k (idx.getD k 0) = idx :=
  set_getD_self hk rfl

/-- moving along axis `k` inside the source box -/
theorem _root_.DadiVerif.InBox.set_back {sh idx : List ℕ} {k a i : ℕ} (h : InBox (sh.set k a) idx) (hk : k < sh.length)
    (hi : i < sh.getD k 0) : InBox sh (idx.set k i) := by
  have := h.set k (sh.getD k 0) i hi
  rwa [List.set_set, set_getD_self hk rfl] at this

/-! ### a spectrum described on its box -/

/-- on the box `sh` the spectrum `O` has data `f` and is masked exactly where `G` holds -/
structure Rel (O : Spec) (sh : List ℕ) (f : List ℕ → ℚ) (G : List ℕ → Prop) : Prop where
  shape : O.shape = sh
  data : ∀ idx, InBox sh idx → O.getD idx = f idx
  mask : ∀ idx, InBox sh idx → (O.getM idx = true ↔ G idx)

theorem Rel.self (S : Spec) : Rel S S.shape S.getD (fun idx => S.getM idx = true) :=
  ⟨rfl, fun _ _ => rfl, fun _ _ => Iff.rfl⟩

theorem Rel.congr {O : Spec} {sh : List ℕ} {f f' : List ℕ → ℚ} {G G' : List ℕ → Prop} (h : Rel O sh f G)
    (hf : ∀ idx, InBox sh idx → f idx = f' idx) (hG : ∀ idx, InBox sh idx → (G idx ↔ G' idx)) : Rel O sh f' G' :=
  ⟨h.shape, fun idx hi => (h.data idx hi).trans (hf idx hi), fun idx hi => (h.mask idx hi).trans (hG idx hi)⟩

/-- two spectra with the same description agree entry by entry -/
theorem Rel.agree {A B : Spec} {sh : List ℕ} {f : List ℕ → ℚ} {G : List ℕ → Prop} (hA : Rel A sh f G) (hB : Rel B sh f G) :
    A.shape = B.shape ∧ ∀ idx, InBox sh idx → A.getD idx = B.getD idx ∧ A.getM idx = B.getM idx := by
  refine ⟨hA.shape.trans hB.shape.symm, fun idx hi => ⟨(hA.data idx hi).trans (hB.data idx hi).symm, ?_⟩⟩
  rw [Bool.eq_iff_iff]
  exact (hA.mask idx hi).trans (hB.mask idx hi).symm

/-! ### one axis -/

/-- `_project_one_axis` of the model = the function-level axis operators, data and mask, on the new box -/
theorem projectAxis_rel {O : Spec} {sh : List ℕ} {f : List ℕ → ℚ} {G : List ℕ → Prop} (hR : Rel O sh f G)
    (k m n : ℕ) (hk : k < sh.length) (hn : sh.getD k 0 = n + 1) (hm : m ≤ n) :
    Rel (O.projectAxis k m) (sh.set k (m + 1)) (PAx k m n f) (MAx k m n G) := by
  have hn1 : O.shape.getD k 1 - 1 = n := by rw [hR.shape, getD_one_eq_zero hk, hn]; omega
  have hnl : (newLen (m:ℤ)).toNat = m + 1 := by simp only [newLen]; omega
  have hsh : (O.projectAxis k m).shape = sh.set k (m + 1) := by
    unfold Spec.projectAxis; simp only [hnl, hR.shape]; rfl
  refine ⟨hsh, ?_, ?_⟩
  · intro idx hbox
    have hj : idx.getD k 0 ≤ m := hbox.getD_le hk
    have hb' : InBox (O.shape.set k (m + 1)) idx := by rw [hR.shape]; exact hbox
    unfold Spec.projectAxis
    simp only [hnl, hn1]
    rw [Spec.ofFn_getD _ _ _ _ idx hb']
    rw [projLineW_eq _ m n _ _ hm hj (fun i hi => by rw [tableW_eq m n i _ hi hj, projW_eq m n i _ hm hi hj])]
    refine Finset.sum_congr rfl (fun i hi => ?_)
    rw [hR.data _ (hbox.set_back hk (by rw [hn]; simpa using hi))]
  · intro idx hbox
    have hj : idx.getD k 0 ≤ m := hbox.getD_le hk
    have hb' : InBox (O.shape.set k (m + 1)) idx := by rw [hR.shape]; exact hbox
    unfold Spec.projectAxis
    simp only [hnl, hn1]
    rw [Spec.ofFn_getM _ _ _ _ idx hb', projLineMask_iff m n _ _ hm hj]
    constructor
    · rintro ⟨i, hi, hb, hh⟩
      exact ⟨i, hi, (hR.mask _ (hbox.set_back hk (by rw [hn]; omega))).mp hb, hh⟩
    · rintro ⟨i, hi, hb, hh⟩
      exact ⟨i, hi, (hR.mask _ (hbox.set_back hk (by rw [hn]; omega))).mpr hb, hh⟩

/-- an axis whose size does not change is skipped by `project`: the identity projection -/
theorem skip_rel {O : Spec} {sh : List ℕ} {f : List ℕ → ℚ} {G : List ℕ → Prop} (hR : Rel O sh f G)
    (k n : ℕ) (hk : k < sh.length) (hn : sh.getD k 0 = n + 1) :
    Rel O (sh.set k (n + 1)) (PAx k n n f) (MAx k n n G) := by
  rw [set_getD_self hk hn]
  refine hR.congr ?_ ?_
  · intro idx hbox
    have hkl : k < idx.length := by rw [hbox.length]; exact hk
    have hj : idx.getD k 0 < n + 1 := by rw [← hn]; exact hbox.getD_lt k hk
    unfold PAx
    rw [Finset.sum_eq_single_of_mem (idx.getD k 0) (by simpa using hj)]
    · rw [hyp_self n _ _ (by omega), if_pos rfl, mul_one, set_getD_idx hkl]
    · intro i hi hne
      rw [hyp_self n i _ (by simp at hi; omega), if_neg hne, mul_zero]
  · intro idx hbox
    have hkl : k < idx.length := by rw [hbox.length]; exact hk
    have hj : idx.getD k 0 < n + 1 := by rw [← hn]; exact hbox.getD_lt k hk
    unfold MAx
    constructor
    · intro hg
      refine ⟨idx.getD k 0, by omega, by rwa [set_getD_idx hkl], ?_⟩
      rw [hyp_self n _ _ (by omega), if_pos rfl]; exact one_ne_zero
    · rintro ⟨i, hi, hg, hh⟩
      have : i = idx.getD k 0 := by
        by_contra hne
        rw [hyp_self n i _ hi, if_neg hne] at hh
        exact hh rfl
      rw [this, set_getD_idx hkl] at hg
      exact hg

/-! ### the per-axis loop -/

theorem foldl_rel (ms ns : List ℕ) : ∀ (ks : List ℕ) (O : Spec) (sh : List ℕ) (f : List ℕ → ℚ) (G : List ℕ → Prop),
    Rel O sh f G → ks.Nodup →
    (∀ k ∈ ks, k < sh.length ∧ sh.getD k 0 = ns.getD k 0 + 1 ∧ ms.getD k 0 ≤ ns.getD k 0) →
    Rel (ks.foldl (fun o k => if doAxis (ms.getD k 0) (ns.getD k 0) then o.projectAxis k (ms.getD k 0) else o) O)
        (ks.foldl (fun sh k => sh.set k (ms.getD k 0 + 1)) sh) (FoldF ks ms ns f) (FoldM ks ms ns G) := by
  intro ks
  induction ks with
  | nil => intro O sh f G hR _ _; exact hR
  | cons k ks ih =>
    intro O sh f G hR hnd hall
    obtain ⟨hk, hn, hm⟩ := hall k (by simp)
    simp only [List.foldl_cons, FoldF, FoldM]
    have hstep : Rel (if doAxis (ms.getD k 0) (ns.getD k 0) then O.projectAxis k (ms.getD k 0) else O)
        (sh.set k (ms.getD k 0 + 1)) (PAx k (ms.getD k 0) (ns.getD k 0) f) (MAx k (ms.getD k 0) (ns.getD k 0) G) := by
      by_cases hd : doAxis ((ms.getD k 0 : ℕ) : ℤ) ((ns.getD k 0 : ℕ) : ℤ) = true
      · rw [if_pos hd]
        exact projectAxis_rel hR k _ _ hk hn hm
      · rw [if_neg hd]
        have e : ms.getD k 0 = ns.getD k 0 := by
          simp only [doAxis, decide_eq_true_eq, not_not] at hd
          exact_mod_cast hd
        rw [e]
        exact skip_rel hR k _ hk hn
    rw [List.nodup_cons] at hnd
    refine ih _ _ _ _ hstep hnd.2 (fun k' hk' => ?_)
    obtain ⟨h1, h2, h3⟩ := hall k' (by simp [hk'])
    have hne : k ≠ k' := fun e => hnd.1 (e ▸ hk')
    exact ⟨by simpa using h1, by rw [getD_set_ne hne]; exact h2, h3⟩

theorem getElem?_foldl_set (g : ℕ → ℕ) : ∀ (ks sh : List ℕ) (j : ℕ),
    (ks.foldl (fun sh k => sh.set k (g k)) sh)[j]? = if j ∈ ks ∧ j < sh.length then some (g j) else sh[j]? := by
  intro ks
  induction ks with
  | nil => intro sh j; simp
  | cons k ks ih =>
    intro sh j
    simp only [List.foldl_cons]
    rw [ih, List.length_set, List.getElem?_set]
    by_cases h1 : j ∈ ks <;> by_cases h2 : j < sh.length <;> by_cases h3 : k = j <;> simp [h1, h2, h3]
    all_goals omega

theorem foldl_set_range (g : ℕ → ℕ) (sh : List ℕ) :
    (List.range sh.length).foldl (fun sh k => sh.set k (g k)) sh = (List.range sh.length).map g := by
  apply List.ext_getElem?
  intro j
  rw [getElem?_foldl_set]
  by_cases hj : j < sh.length
  · simp [hj]
  · simp [hj]

theorem LeL_of_getD : ∀ (ms ns : List ℕ), ms.length = ns.length → (∀ k, k < ns.length → ms.getD k 0 ≤ ns.getD k 0) → LeL ms ns
  | [], [], _, _ => List.Forall₂.nil
  | m :: ms, n :: ns, h1, h2 =>
      List.Forall₂.cons (by simpa using h2 0 (by simp))
        (LeL_of_getD ms ns (by simpa using h1) (fun k hk => by simpa using h2 (k + 1) (by simp; omega)))
  | [], _ :: _, h, _ => by simp at h
  | _ :: _, [], h, _ => by simp at h

theorem box1_getD {ns : List ℕ} {k : ℕ} (hk : k < ns.length) : (box1 ns).getD k 0 = ns.getD k 0 + 1 := by
  simp [box1, List.getD_eq_getElem?_getD, hk]

/-- `enumerate(l)`: the k-th tuple is `(k, l[k])` -/
theorem range_zip_self (l : List ℕ) : (List.range l.length).zip l = (List.range l.length).map (fun k => (k, l.getD k 0)) := by
  apply List.ext_getElem
  · simp
  · intro k h1 h2
    have hk : k < l.length := by simpa using h2
    simp [List.getD_eq_getElem?_getD, hk]

/-- **the generated loop of `project` pairs axis k with the k-th target size, k = 0, 1, …, each axis once**: the fold over
    `axisVisits` / `visitDoes` / `visitCall` (read off the loop header, the loop targets, the test and the call of the current
    source) is the fold over `List.range ns.length` with test `ns[k] ≠ sizes[k]` and call `_project_one_axis(ns[k], k)`. -/
theorem projectAxes_eq_range (S : Spec) (ns sizes : List ℕ) :
    Spec.projectAxes S ns sizes = (List.range ns.length).foldl
      (fun o k => if doAxis (ns.getD k 0) (sizes.getD k 0) then o.projectAxis k (ns.getD k 0) else o) S := by
  unfold Spec.projectAxes axisVisits
  rw [range_zip_self, List.foldl_map]
  rfl

/-- **the whole loop of `Spectrum.project`** on a spectrum with sample sizes `ns`, to sizes `ms ≤ ns`:
    the closed form with the product kernel, data and mask -/
theorem projectAxes_rel {O : Spec} {f : List ℕ → ℚ} {G : List ℕ → Prop} (ms ns : List ℕ) (hR : Rel O (box1 ns) f G)
    (hlen : ms.length = ns.length) (hle : ∀ k, k < ns.length → ms.getD k 0 ≤ ns.getD k 0) :
    Rel (Spec.projectAxes O ms ns) (box1 ms) (closedF ms ns f) (closedM ms ns G) := by
  have h := foldl_rel ms ns (List.range ms.length) O (box1 ns) f G hR List.nodup_range (fun k hk => by
    have hk' : k < ns.length := by rw [← hlen]; simpa using hk
    exact ⟨by simpa using hk', box1_getD hk', hle k hk'⟩)
  have hs : (List.range ms.length).foldl (fun sh k => sh.set k (ms.getD k 0 + 1)) (box1 ns) = box1 ms := by
    have := foldl_set_range (fun k => ms.getD k 0 + 1) (box1 ns)
    rw [box1_length, ← hlen] at this
    rw [this]
    apply List.ext_getElem?
    intro j
    by_cases hj : j < ms.length
    · simp [box1, hj, List.getD_eq_getElem?_getD]
    · simp [box1, hj]
  rw [hs] at h
  rw [projectAxes_eq_range]
  refine h.congr ?_ ?_
  · intro idx hbox
    have hl : idx.length = ns.length := by rw [hbox.length, box1_length, hlen]
    rw [hlen]
    exact FoldF_range ms ns f idx hlen hl
  · intro idx hbox
    have hl : idx.length = ns.length := by rw [hbox.length, box1_length, hlen]
    rw [hlen]
    exact FoldM_range ms ns G idx hlen hl

/-! ### `Spectrum.project` -/

theorem all_pos_shape {sh : List ℕ} (hpos : ∀ s ∈ sh, 0 < s) : box1 (sh.map (· - 1)) = sh := by
  induction sh with
  | nil => rfl
  | cons s ss ih =>
    have h1 : 0 < s := hpos s (by simp)
    simp only [List.map_cons, box1_cons, ih (fun t ht => hpos t (by simp [ht]))]
    congr 1; omega

/-- what `project` returns when it does not refuse, and that it only accepts admissible sizes -/
theorem project_ok {S P : Spec} {ns : List ℕ} (h : S.project ns = .ok P) :
    ns.length = S.shape.length ∧ (∀ k, k < S.sampleSizes.length → ns.getD k 0 ≤ S.sampleSizes.getD k 0) ∧
    P = (if S.folded then (Spec.projectAxes S.unfold ns S.sampleSizes).fold else Spec.projectAxes S ns S.sampleSizes) := by
  unfold Spec.project at h
  simp only at h
  split_ifs at h with h1 h2 h3
  all_goals
    have hl : ns.length = S.shape.length := by simpa using h1
    have hsl : S.sampleSizes.length = S.shape.length := by simp [Spec.sampleSizes]
    have hup : ∀ k, k < S.sampleSizes.length → ns.getD k 0 ≤ S.sampleSizes.getD k 0 := by
      intro k hk
      have hk1 : k < ns.length := by omega
      rw [Bool.not_eq_true, List.any_eq_false] at h2
      have hk2 : k < (List.zipWith (fun (a b : ℕ) => upRefusedAt a b) ns S.sampleSizes).length := by
        simp; omega
      have := h2 _ (List.getElem_mem hk2)
      simp only [List.getElem_zipWith, id, upRefusedAt, decide_eq_true_eq, not_lt] at this
      simp only [List.getD_eq_getElem?_getD, List.getElem?_eq_getElem hk1, List.getElem?_eq_getElem hk, Option.getD_some]
      exact_mod_cast this
  · injection h with h
    exact ⟨hl, hup, by simp [h3, ← h]⟩
  · injection h with h
    exact ⟨hl, hup, by simp [h3, ← h]⟩

/-- `project` on an unfolded spectrum with positive extents: closed form on the box of the new sizes -/
theorem project_rel {S P : Spec} {ns : List ℕ} (hf : S.folded = false) (hpos : ∀ s ∈ S.shape, 0 < s)
    (h : S.project ns = .ok P) :
    LeL ns S.sampleSizes ∧
    Rel P (box1 ns) (closedF ns S.sampleSizes S.getD) (closedM ns S.sampleSizes (fun idx => S.getM idx = true)) := by
  obtain ⟨hl, hup, hP⟩ := project_ok h
  have hsl : S.sampleSizes.length = S.shape.length := by simp [Spec.sampleSizes]
  have hR : Rel S (box1 S.sampleSizes) S.getD (fun idx => S.getM idx = true) := by
    have := Rel.self S
    rwa [← all_pos_shape hpos] at this
  rw [hf] at hP
  simp only [Bool.false_eq_true, if_false] at hP
  rw [hP]
  exact ⟨LeL_of_getD _ _ (by omega) hup, projectAxes_rel ns S.sampleSizes hR (by omega) hup⟩

/-! ### totals -/

/-- the executable total (sum of the flat data array) is the sum over the box -/
theorem total_eq_sumBox (S : Spec) : S.total = sumBox S.shape S.getD := by
  unfold Spec.total
  rw [sumL_map_range, ← sumBox_flat S.shape (fun k => S.data.getD k 0)]
  rfl

theorem sumBox_congr_InBox (sh : List ℕ) (f g : List ℕ → ℚ) (h : ∀ idx, InBox sh idx → f idx = g idx) :
    sumBox sh f = sumBox sh g :=
  sumBox_congr sh f g (fun idx hi => h idx ((inBox_iff sh idx).mp hi))

theorem Rel.total {O : Spec} {sh : List ℕ} {f : List ℕ → ℚ} {G : List ℕ → Prop} (h : Rel O sh f G) :
    O.total = sumBox sh f := by
  rw [total_eq_sumBox, h.shape]
  exact sumBox_congr_InBox sh _ _ h.data

end PBox
end DadiVerif
