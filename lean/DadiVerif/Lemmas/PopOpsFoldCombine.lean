import DadiVerif.Lemmas.PopOpsFoldReorder
import DadiVerif.Lemmas.PopOpsMixF
/-! C10 (round 5): `project` commutes with `combine_two_pops` (on the untouched populations) on FOLDED input, under `ObsF`.
    Needs the folded spectrum to be a genuine one: standard mask (folded-out entries and corners) and ZERO data under the
    folded-out mask — `combine_two_pops` skips masked entries whereas `unfold` reads them. -/
namespace DadiVerif.PopOps
open Finset

/-- every cell of the merged box has a contributor -/
theorem merge2_fibre_nonempty (a b : Nat) (sh : List Nat) (hab : a < b) (hb : b < sh.length) (hpos : ∀ s ∈ sh, 1 ≤ s)
    (j : Idx) (hj : j ∈ boxIdx (mergeShape a b sh)) : ∃ i ∈ boxIdx sh, merge2 a b i = j := by
  have hjl : j.length = sh.length - 1 := by rw [mem_box_length _ _ hj, mergeShape_length a b sh hb]
  have hja := getD_lt_of_mem_box _ j hj a (by rw [mergeShape_length a b sh hb]; omega)
  rw [mergeShape_explicit a b sh hab hb hpos, getD_eraseIdx_lt _ _ _ _ hab, getD_set_self _ _ _ _ (by omega)] at hja
  have hsb : 1 ≤ sh.getD b 0 := by
    have : sh.getD b 0 = sh[b]'hb := by simp [List.getD_eq_getElem?_getD, List.getElem?_eq_getElem hb]
    rw [this]; exact hpos _ (List.getElem_mem _)
  have hsa : 1 ≤ sh.getD a 0 := by
    have : sh.getD a 0 = sh[a]'(by omega) := by simp [List.getD_eq_getElem?_getD, List.getElem?_eq_getElem (show a < sh.length by omega)]
    rw [this]; exact hpos _ (List.getElem_mem _)
  refine ⟨unmerge a b j (min (j.getD a 0) (sh.getD a 0 - 1)) (j.getD a 0 - min (j.getD a 0) (sh.getD a 0 - 1)),
    unmerge_mem_box a b sh hab hb hpos j hj _ _ (by omega) (by omega), merge2_unmerge a b j _ _ hab (by omega) (by omega)⟩

theorem anyL_mirror (shA shB : List Nat) (f : Idx → Idx) (m : Idx → Bool)
    (_hbox : ∀ i ∈ boxIdx shA, f i ∈ boxIdx shB)
    (hmir : ∀ i ∈ boxIdx shA, f (mirror shA i) = mirror shB (f i))
    (j : Idx) (hj : j ∈ boxIdx shB) :
    anyL (boxIdx shA) f (fun i => m (mirror shA i)) j = anyL (boxIdx shA) f m (mirror shB j) := by
  rw [Bool.eq_iff_iff, anyL_iff, anyL_iff]
  constructor
  · rintro ⟨i, hi, hij, hm⟩
    exact ⟨mirror shA i, mirror_mem_box shA i hi, by rw [hmir i hi, hij], hm⟩
  · rintro ⟨i, hi, hij, hm⟩
    refine ⟨mirror shA i, mirror_mem_box shA i hi, by rw [hmir i hi, hij, mirror_mirror shB j hj], ?_⟩
    show m (mirror shA (mirror shA i)) = true
    rw [mirror_mirror shA i hi]; exact hm

theorem foldedOut_merge2 (a b : Nat) (sh : List Nat) (hab : a < b) (i : Idx) :
    foldedOut (mergeShape a b sh) (merge2 a b i) = foldedOut sh i := by
  unfold foldedOut
  rw [nTotal_mergeShape a b sh hab, merge2_sum a b hab]

theorem foldCore_dat_eq (X : FS) : (foldCore X).dat = foldDat X.shape X.dat := rfl

/-- **merging a folded spectrum = folding the merged spectrum**, under `ObsF` (any mask) -/
theorem combineTwoCore_foldCore (a b : Nat) (X : FS) (hab : a < b) (hb : b < X.ndim) (hpos : ∀ s ∈ X.shape, 1 ≤ s) :
    ObsF (combineTwoCore a b (foldCore X)) (foldCore (combineTwoCore a b X)) := by
  have hb0 : b < X.shape.length := hb
  have hbox : ∀ i ∈ boxIdx X.shape, merge2 a b i ∈ boxIdx (mergeShape a b X.shape) := fun i hi => merge2_mem_box a b X.shape i hi
  have hmir : ∀ i ∈ boxIdx X.shape, merge2 a b (mirror X.shape i) = mirror (mergeShape a b X.shape) (merge2 a b i) :=
    fun i hi => (merge2_mirror a b X.shape hab i hi).symm
  have hsum : ∀ i ∈ boxIdx X.shape, (merge2 a b i).sum = i.sum := fun i _ => merge2_sum a b hab i
  have hT : nTotal X.shape = nTotal (mergeShape a b X.shape) := (nTotal_mergeShape a b X.shape hab).symm
  refine ⟨rfl, fun j hj => ?_⟩
  have hj' : j ∈ boxIdx (mergeShape a b X.shape) := hj
  have hmj := mirror_mem_box _ j hj'
  obtain ⟨i0, hi0, hi0j⟩ := merge2_fibre_nonempty a b X.shape hab hb0 hpos j hj'
  have hfo : ∀ i, merge2 a b i = j → foldedOut X.shape i = foldedOut (mergeShape a b X.shape) j := fun i hij => by
    rw [← hij, foldedOut_merge2 a b X.shape hab]
  -- the two masks, written out
  have hL : (combineTwoCore a b (foldCore X)).msk j
      = (anyL (boxIdx X.shape) (merge2 a b) X.msk j || anyL (boxIdx X.shape) (merge2 a b) X.msk (mirror (mergeShape a b X.shape) j)
          || foldedOut (mergeShape a b X.shape) j || isCorner (mergeShape a b X.shape) j) := by
    rw [combineTwoCore_msk]
    show (anyL (boxIdx X.shape) (merge2 a b)
        (fun i => X.msk i || X.msk (mirror X.shape i) || foldedOut X.shape i || isCorner X.shape i) j
        || isCorner (mergeShape a b X.shape) j) = _
    rw [anyL_or, anyL_or, anyL_or, anyL_mirror X.shape _ (merge2 a b) X.msk hbox hmir j hj']
    have e1 : anyL (boxIdx X.shape) (merge2 a b) (foldedOut X.shape) j = foldedOut (mergeShape a b X.shape) j := by
      rw [Bool.eq_iff_iff, anyL_iff]
      constructor
      · rintro ⟨i, _, hij, h⟩; rw [← hfo i hij]; exact h
      · intro h; exact ⟨i0, hi0, hi0j, by rw [hfo i0 hi0j]; exact h⟩
    have e2 : anyL (boxIdx X.shape) (merge2 a b) (isCorner X.shape) j = true → isCorner (mergeShape a b X.shape) j = true := by
      rw [anyL_iff]
      rintro ⟨i, _, hij, h⟩
      rw [← hij]; exact isCorner_merge2 a b X.shape i h
    rw [e1]
    revert e2
    cases anyL (boxIdx X.shape) (merge2 a b) (isCorner X.shape) j <;> cases isCorner (mergeShape a b X.shape) j <;> simp
  have hR : (foldCore (combineTwoCore a b X)).msk j
      = (anyL (boxIdx X.shape) (merge2 a b) X.msk j || anyL (boxIdx X.shape) (merge2 a b) X.msk (mirror (mergeShape a b X.shape) j)
          || foldedOut (mergeShape a b X.shape) j || isCorner (mergeShape a b X.shape) j) := by
    show ((combineTwoCore a b X).msk j || (combineTwoCore a b X).msk (mirror (mergeShape a b X.shape) j)
        || foldedOut (mergeShape a b X.shape) j || isCorner (mergeShape a b X.shape) j) = _
    rw [combineTwoCore_msk, combineTwoCore_msk, isCorner_mirror _ j hj']
    unfold FS.box
    generalize anyL (boxIdx X.shape) (merge2 a b) X.msk j = p
    generalize anyL (boxIdx X.shape) (merge2 a b) X.msk (mirror (mergeShape a b X.shape) j) = q
    generalize foldedOut (mergeShape a b X.shape) j = r
    generalize isCorner (mergeShape a b X.shape) j = c
    cases p <;> cases q <;> cases r <;> cases c <;> rfl
  refine ⟨by rw [hL, hR], fun hm => ?_⟩
  have hjb : j ∈ (combineTwoCore a b X).box := hj'
  rw [foldCore_dat_closed (combineTwoCore a b X) j hjb]
  show pushL (boxIdx X.shape) (merge2 a b) (foldCore X).val j
    = foldCoef (nTotal (mergeShape a b X.shape)) j.sum *
        (pushL (boxIdx X.shape) (merge2 a b) X.val j + pushL (boxIdx X.shape) (merge2 a b) X.val (mirror (mergeShape a b X.shape) j))
  cases hfoj : foldedOut (mergeShape a b X.shape) j
  · -- folded-in and unmasked: every contributor (of j and of its mirror) is unmasked
    have hm' : (combineTwoCore a b (foldCore X)).msk j = false := by
      have : (combineTwoCore a b (foldCore X)).msk j = foldedOut (mergeShape a b X.shape) j := hm
      rw [this, hfoj]
    rw [hL, hfoj] at hm'
    simp only [Bool.or_eq_false_iff, Bool.or_false] at hm'
    obtain ⟨⟨hA, hAm⟩, hC⟩ := hm'
    rw [anyL_false_iff] at hA hAm
    have hcorner : ∀ i ∈ boxIdx X.shape, merge2 a b i = j → isCorner X.shape i = false := by
      intro i _ hij
      by_contra hc
      have := isCorner_merge2 a b X.shape i (by simpa using hc)
      rw [hij, hC] at this; exact absurd this (by simp)
    have hAm' : ∀ i ∈ boxIdx X.shape, merge2 a b i = j → X.msk (mirror X.shape i) = false := by
      intro i hi hij
      exact hAm _ (mirror_mem_box _ i hi) (by rw [hmir i hi, hij])
    have e1 : pushL (boxIdx X.shape) (merge2 a b) (foldCore X).val j = pushL (boxIdx X.shape) (merge2 a b) (foldDat X.shape X.dat) j := by
      apply pushL_congr
      intro i hi hij
      have : (foldCore X).msk i = false := by
        show (X.msk i || X.msk (mirror X.shape i) || foldedOut X.shape i || isCorner X.shape i) = false
        rw [hA i hi hij, hAm' i hi hij, hfo i hij, hfoj, hcorner i hi hij]; rfl
      simp only [FS.val, this]; rfl
    have e2 : pushL (boxIdx X.shape) (merge2 a b) X.val j = pushL (boxIdx X.shape) (merge2 a b) X.dat j :=
      pushL_congr _ _ _ _ _ (fun i hi hij => by simp [FS.val, hA i hi hij])
    have e3 : pushL (boxIdx X.shape) (merge2 a b) X.val (mirror (mergeShape a b X.shape) j)
        = pushL (boxIdx X.shape) (merge2 a b) X.dat (mirror (mergeShape a b X.shape) j) :=
      pushL_congr _ _ _ _ _ (fun i hi hij => by simp [FS.val, hAm i hi hij])
    rw [e1, e2, e3, ← fold_push_comm X.shape _ (merge2 a b) X.dat hbox hsum hT hmir j hj', foldDat_closed _ _ j hj']
  · -- folded-out: both sides are 0
    rw [foldedOut_coef _ j hfoj, zero_mul]
    unfold pushL
    apply List.sum_eq_zero
    intro v hv
    rw [List.mem_map] at hv
    obtain ⟨i, hi, rfl⟩ := hv
    rw [List.mem_filter] at hi
    have hij : merge2 a b i = j := by simpa using hi.2
    have : (foldCore X).msk i = true := by
      show (X.msk i || X.msk (mirror X.shape i) || foldedOut X.shape i || isCorner X.shape i) = true
      rw [hfo i hij, hfoj]; simp
    simp [FS.val, this]

/-- the merge of a genuine folded spectrum has the standard folded mask again -/
theorem combineTwoCore_stdFolded (a b : Nat) (F : FS) (hab : a < b) (hb : b < F.ndim) (hpos : ∀ s ∈ F.shape, 1 ≤ s)
    (hmask : ∀ i ∈ F.box, F.msk i = (foldedOut F.shape i || isCorner F.shape i))
    (j : Idx) (hj : j ∈ boxIdx (mergeShape a b F.shape)) :
    (combineTwoCore a b F).msk j = (foldedOut (mergeShape a b F.shape) j || isCorner (mergeShape a b F.shape) j) := by
  obtain ⟨i0, hi0, hi0j⟩ := merge2_fibre_nonempty a b F.shape hab hb hpos j hj
  rw [combineTwoCore_msk]
  have e0 : anyL F.box (merge2 a b) F.msk j = anyL (boxIdx F.shape) (merge2 a b) (fun i => foldedOut F.shape i || isCorner F.shape i) j :=
    anyL_congr _ _ _ _ _ (fun i hi _ => hmask i hi)
  rw [e0, anyL_or]
  have e1 : anyL (boxIdx F.shape) (merge2 a b) (foldedOut F.shape) j = foldedOut (mergeShape a b F.shape) j := by
    rw [Bool.eq_iff_iff, anyL_iff]
    constructor
    · rintro ⟨i, _, hij, h⟩; rw [← hij, foldedOut_merge2 a b F.shape hab]; exact h
    · intro h; exact ⟨i0, hi0, hi0j, by rw [← foldedOut_merge2 a b F.shape hab i0, hi0j]; exact h⟩
  have e2 : anyL (boxIdx F.shape) (merge2 a b) (isCorner F.shape) j = true → isCorner (mergeShape a b F.shape) j = true := by
    rw [anyL_iff]
    rintro ⟨i, _, hij, h⟩
    rw [← hij]; exact isCorner_merge2 a b F.shape i h
  rw [e1]
  revert e2
  cases anyL (boxIdx F.shape) (merge2 a b) (isCorner F.shape) j <;> cases isCorner (mergeShape a b F.shape) j <;> simp

theorem pushL_half_add (box : List Idx) (f : Idx → Idx) (x y : Idx → ℚ) (j : Idx) :
    pushL box f (fun i => (x i + y i) / 2) j = (pushL box f x j + pushL box f y j) / 2 := by
  have : (fun i => (x i + y i) / 2) = fun i => (x i + y i) * (1 / 2) := by funext i; ring
  rw [this, pushL_mul_const', pushL_add]; ring

/-- **unfolding the merged folded spectrum = merging the unfolded one**, for a genuine folded spectrum (standard mask, zeros
    under the folded-out mask — `combine_two_pops` skips masked entries, `unfold` reads them) -/
theorem unfoldCore_combineTwoCore (a b : Nat) (F : FS) (hab : a < b) (hb : b < F.ndim) (hpos : ∀ s ∈ F.shape, 1 ≤ s)
    (hmask : ∀ i ∈ F.box, F.msk i = (foldedOut F.shape i || isCorner F.shape i))
    (hzero : ∀ i ∈ F.box, foldedOut F.shape i = true → F.dat i = 0) :
    Obs (unfoldCore (combineTwoCore a b F)) (combineTwoCore a b (unfoldCore F)) := by
  have hb0 : b < F.shape.length := hb
  have hbox : ∀ i ∈ boxIdx F.shape, merge2 a b i ∈ boxIdx (mergeShape a b F.shape) := fun i hi => merge2_mem_box a b F.shape i hi
  have hmir : ∀ i ∈ boxIdx F.shape, merge2 a b (mirror F.shape i) = mirror (mergeShape a b F.shape) (merge2 a b i) :=
    fun i hi => (merge2_mirror a b F.shape hab i hi).symm
  have hVstd : StdMask (unfoldCore F) := stdMask_unfoldCore F hpos hmask
  refine ⟨rfl, fun j hj => ?_⟩
  have hj' : j ∈ boxIdx (mergeShape a b F.shape) := hj
  have hmj := mirror_mem_box _ j hj'
  have hc4 := isCorner_mirror _ j hj'
  -- left mask = corner
  have hLm : (unfoldCore (combineTwoCore a b F)).msk j = isCorner (mergeShape a b F.shape) j := by
    show (Bool.xor ((combineTwoCore a b F).msk j) (foldedOut (mergeShape a b F.shape) j)
        || Bool.xor ((combineTwoCore a b F).msk (mirror (mergeShape a b F.shape) j)) (foldedOut (mergeShape a b F.shape) (mirror (mergeShape a b F.shape) j))
        || isCorner (mergeShape a b F.shape) j) = _
    rw [combineTwoCore_stdFolded a b F hab hb hpos hmask j hj', combineTwoCore_stdFolded a b F hab hb hpos hmask _ hmj, hc4]
    generalize foldedOut (mergeShape a b F.shape) j = r
    generalize foldedOut (mergeShape a b F.shape) (mirror (mergeShape a b F.shape) j) = r'
    generalize isCorner (mergeShape a b F.shape) j = c
    cases r <;> cases r' <;> cases c <;> rfl
  -- right mask = corner
  have hRm : (combineTwoCore a b (unfoldCore F)).msk j = isCorner (mergeShape a b F.shape) j := by
    rw [combineTwoCore_msk]
    show (anyL (boxIdx F.shape) (merge2 a b) (unfoldCore F).msk j || isCorner (mergeShape a b F.shape) j) = _
    have e : anyL (boxIdx F.shape) (merge2 a b) (unfoldCore F).msk j = true → isCorner (mergeShape a b F.shape) j = true := by
      rw [anyL_iff]
      rintro ⟨i, hi, hij, h⟩
      rw [← hij]; exact isCorner_merge2 a b F.shape i (hVstd.2 i hi h)
    revert e
    cases anyL (boxIdx F.shape) (merge2 a b) (unfoldCore F).msk j <;> cases isCorner (mergeShape a b F.shape) j <;> simp
  refine ⟨by rw [hLm, hRm], fun hm => ?_⟩
  rw [hLm] at hm
  -- data at a non-corner cell
  have hval : ∀ i ∈ boxIdx F.shape, isCorner F.shape i = false → F.val i = F.dat i := by
    intro i hi hc
    unfold FS.val
    rw [hmask i hi, hc, Bool.or_false]
    cases hfo : foldedOut F.shape i
    · simp
    · simp [hzero i hi hfo]
  show ((combineTwoCore a b F).dat j + (combineTwoCore a b F).dat (mirror (mergeShape a b F.shape) j)) / 2
    = pushL (boxIdx F.shape) (merge2 a b) (unfoldCore F).val j
  show (pushL (boxIdx F.shape) (merge2 a b) F.val j + pushL (boxIdx F.shape) (merge2 a b) F.val (mirror (mergeShape a b F.shape) j)) / 2 = _
  rw [← pushL_mirror F.shape _ (merge2 a b) F.val hbox hmir j hj', ← pushL_half_add]
  apply pushL_congr
  intro i hi hij
  have hci : isCorner F.shape i = false := by
    by_contra hc
    have := isCorner_merge2 a b F.shape i (by simpa using hc)
    rw [hij, hm] at this; exact absurd this (by simp)
  have hmi := mirror_mem_box F.shape i hi
  have hcmi : isCorner F.shape (mirror F.shape i) = false := by rw [isCorner_mirror F.shape i hi]; exact hci
  have hVm : (unfoldCore F).msk i = false := by
    by_contra hc
    have h2 : isCorner F.shape i = true := hVstd.2 i hi (by simpa using hc)
    rw [hci] at h2; exact absurd h2 (by simp)
  rw [hval i hi hci, hval _ hmi hcmi]
  simp only [FS.val, hVm]
  rfl

/-- **combine_two_pops ∘ project = project ∘ combine_two_pops on FOLDED input** (public functions; the two merged populations keep
    their sizes): for a genuine folded spectrum — standard mask, zeros under the folded-out mask (what `fold` produces) — both sides
    succeed and are `ObsF`-equal, same labels, both folded. -/
theorem combineTwo_project_folded (p q : Nat) (ms : List Nat) (F : FS) (hf : F.folded = true) (hpos : ∀ s ∈ F.shape, 1 ≤ s)
    (hmask : ∀ i ∈ F.box, F.msk i = (foldedOut F.shape i || isCorner F.shape i))
    (hzero : ∀ i ∈ F.box, foldedOut F.shape i = true → F.dat i = 0)
    (hp : 1 ≤ p ∧ p ≤ F.ndim) (hq : 1 ≤ q ∧ q ≤ F.ndim) (hpq : p ≠ q) (hadm : AdmSizes ms F.shape)
    (hmp : ms.getD (p - 1) 0 + 1 = F.shape.getD (p - 1) 0) (hmq : ms.getD (q - 1) 0 + 1 = F.shape.getD (q - 1) 0) :
    ∃ A B, (project ms F).bind (combineTwo p q) = some A ∧
      (combineTwo p q F).bind (project (merge2 (min p q - 1) (max p q - 1) ms)) = some B ∧
      ObsF A B ∧ A.labels = B.labels ∧ A.folded = true ∧ B.folded = true := by
  set a := min p q - 1 with ha
  set b := max p q - 1 with hb
  have hab : a < b := by omega
  have hbd : b < F.ndim := by omega
  have hma : ms.getD a 0 + 1 = F.shape.getD a 0 := by
    rcases Nat.le_total p q with h | h
    · rw [ha, Nat.min_eq_left h]; exact hmp
    · rw [ha, Nat.min_eq_right h]; exact hmq
  have hmb : ms.getD b 0 + 1 = F.shape.getD b 0 := by
    rcases Nat.le_total p q with h | h
    · rw [hb, Nat.max_eq_right h]; exact hmq
    · rw [hb, Nat.max_eq_left h]; exact hmp
  set V := unfoldCore F with hV
  obtain ⟨hVsym, hVcm⟩ := sym_unfoldCore F hpos
  obtain ⟨hPsym, _⟩ := sym_projectCore ms (show AdmSizes ms V.shape from hadm) hVsym hVcm
  set X : FS := { projectCore ms V with folded := false, labels := F.labels } with hX
  have hXnd : X.ndim = F.ndim := projectCore_ndim ms V
  have hXnd' : (foldCore X).ndim = F.ndim := projectCore_ndim ms V
  have hcondP : ¬ (p = 0 ∨ q = 0 ∨ p = q ∨ (foldCore X).ndim < p ∨ (foldCore X).ndim < q) := by rw [hXnd']; omega
  have hcondS : ¬ (p = 0 ∨ q = 0 ∨ p = q ∨ F.ndim < p ∨ F.ndim < q) := by omega
  have hA : combineTwo p q (foldCore X) = some (combineTwoCore a b (foldCore X)) := by rw [combineTwo, if_neg hcondP, c2Pair_eq]
  have hC : combineTwo p q F = some (combineTwoCore a b F) := by rw [combineTwo, if_neg hcondS, c2Pair_eq]
  have hadm' : AdmSizes (merge2 a b ms) (combineTwoCore a b F).shape := hadm.merge a b hab hbd hma hmb
  have hCf : (combineTwoCore a b F).folded = true := by
    show (Gen.c2PropagatesFolded && F.folded) = true
    rw [hf]; decide
  have hB := project_folded (merge2 a b ms) (combineTwoCore a b F) hCf hadm'
  refine ⟨combineTwoCore a b (foldCore X),
    foldCore { projectCore (merge2 a b ms) (unfoldCore (combineTwoCore a b F)) with folded := false, labels := (combineTwoCore a b F).labels },
    by rw [project_folded ms F hf hadm]; exact hA, by rw [hC]; exact hB, ?_, rfl, by show (Gen.c2PropagatesFolded && true) = true; decide, rfl⟩
  refine (combineTwoCore_foldCore a b X hab (by rw [hXnd]; exact hbd) hPsym.1).trans (obs_foldCore ?_)
  refine (obs_combineTwoCore a b (obs_update _ _ _)).trans ?_
  refine (combineTwoCore_projectCore a b ms V hab hbd hadm hma hmb).trans ?_
  exact (obs_projectCore _ (unfoldCore_combineTwoCore a b F hab hbd hpos hmask hzero).symm).trans (obs_update _ _ _).symm

end DadiVerif.PopOps
