import Mathlib.Data.Nat.Choose.Vandermonde
import Mathlib.Data.Nat.Choose.Basic
import DadiVerif.Lemmas.PopOps
/-! C10: binomials of the model are Mathlib's, multivariate Vandermonde, and the re-dealing weights sum to one -/
namespace DadiVerif.PopOps
open Finset

theorem chooseN_eq (n k : Nat) : chooseN n k = Nat.choose n k := by
  induction k with
  | zero => simp [chooseN]
  | succ k ih =>
    have : chooseN n (k + 1) = chooseN n k * (n - k) / (k + 1) := by
      simp [chooseN, List.range_succ, List.foldl_append]
    rw [this, ih, ← Nat.choose_succ_right_eq]
    exact Nat.mul_div_cancel _ (Nat.succ_pos k)

theorem sum_flatMap_nat {α β : Type} (l : List α) (g : α → List β) (f : β → ℕ) :
    ((l.flatMap g).map f).sum = (l.map fun a => ((g a).map f).sum).sum := by
  induction l with
  | nil => simp
  | cons a l ih => simp [List.flatMap_cons, ih]

theorem vandermonde_range (n N t : ℕ) :
    ((List.range (n + 1)).map fun i => if i ≤ t then n.choose i * N.choose (t - i) else 0).sum = (n + N).choose t := by
  rw [Nat.add_choose_eq, Finset.Nat.sum_antidiagonal_eq_sum_range_succ (fun i j => n.choose i * N.choose j)]
  rw [← List.sum_toFinset _ (List.nodup_range), List.toFinset_range]
  have e1 : ∑ i ∈ range (n + 1), (if i ≤ t then n.choose i * N.choose (t - i) else 0)
      = ∑ i ∈ range (n + 1 + (t + 1)), (if i ≤ t then n.choose i * N.choose (t - i) else 0) := by
    apply Finset.sum_subset
    · intro i hi; simp at hi ⊢; omega
    · intro i _ hi
      simp at hi
      rw [Nat.choose_eq_zero_of_lt (by omega)]; simp
  have e2 : ∑ i ∈ range (t + 1), n.choose i * N.choose (t - i)
      = ∑ i ∈ range (n + 1 + (t + 1)), (if i ≤ t then n.choose i * N.choose (t - i) else 0) := by
    have hsub : range (t + 1) ⊆ range (n + 1 + (t + 1)) := by
      intro i hi; simp at hi ⊢; omega
    rw [← Finset.sum_subset hsub (f := fun i => if i ≤ t then n.choose i * N.choose (t - i) else 0)]
    · apply Finset.sum_congr rfl
      intro i hi; simp at hi
      rw [if_pos (by omega)]
    · intro i _ hi
      simp at hi
      rw [if_neg (by omega)]
  rw [e1, e2]

/-- multivariate Vandermonde over the index box: Σ_{c ≤ ns, Σc = t} Π C(n_l, c_l) = C(Σ ns, t) -/
theorem vandermonde_box (ns : List ℕ) (t : ℕ) :
    ((boxIdx (ns.map (· + 1))).map fun c => if c.sum = t then prodN (List.zipWith Nat.choose ns c) else 0).sum
      = ns.sum.choose t := by
  induction ns generalizing t with
  | nil =>
    cases t <;> simp [boxIdx, prodN]
  | cons n ns ih =>
    simp only [List.map_cons, boxIdx]
    rw [sum_flatMap_nat]
    simp only [List.map_map, List.sum_cons]
    rw [← vandermonde_range n ns.sum t]
    congr 1
    apply List.map_congr_left
    intro c0 _
    by_cases hc : c0 ≤ t
    · rw [if_pos hc, ← ih (t - c0), ← List.sum_map_mul_left]
      congr 1
      apply List.map_congr_left
      intro c _
      show (if c0 + c.sum = t then n.choose c0 * prodN (List.zipWith Nat.choose ns c) else 0)
          = n.choose c0 * (if c.sum = t - c0 then prodN (List.zipWith Nat.choose ns c) else 0)
      by_cases h : c.sum = t - c0
      · have h' : c0 + c.sum = t := by omega
        rw [if_pos h', if_pos h]
      · have h' : ¬ (c0 + c.sum = t) := by omega
        rw [if_neg h', if_neg h, Nat.mul_zero]
    · rw [if_neg hc]
      apply List.sum_eq_zero
      intro v hv
      rw [List.mem_map] at hv
      obtain ⟨c, _, rfl⟩ := hv
      have h' : ¬ (c0 + c.sum = t) := by omega
      show (if c0 + c.sum = t then prodN (List.zipWith Nat.choose (n :: ns) (c0 :: c)) else 0) = 0
      rw [if_neg h']



theorem hypW_eq (ns : List ℕ) (c : Idx) :
    hypW ns c = (prodN (List.zipWith Nat.choose ns c) : ℚ) / (ns.sum.choose c.sum : ℚ) := by
  have : chooseN = Nat.choose := by funext n k; exact chooseN_eq n k
  unfold hypW; rw [this]

theorem pushL_mul_const (box : List Idx) (f : Idx → Idx) (y : Idx → ℚ) (k : ℚ) (j : Idx) :
    pushL box f (fun c => y c * k) j = pushL box f y j * k := by
  unfold pushL
  rw [← List.sum_map_mul_right]

/-- the multivariate hypergeometric weights of one allele-count class sum to one -/
theorem hyp_fibre_sum (ns : List ℕ) (t : ℕ) (ht : t ≤ ns.sum) :
    pushL (boxIdx (ns.map (· + 1))) (fun c => [c.sum]) (hypW ns) [t] = 1 := by
  unfold pushL
  rw [filter_map_sum]
  have hd : (ns.sum.choose t : ℚ) ≠ 0 := by
    exact_mod_cast (Nat.choose_pos ht).ne'
  have : ∀ c : Idx, (if ([c.sum] == [t]) = true then hypW ns c else 0)
      = ((if c.sum = t then prodN (List.zipWith Nat.choose ns c) else 0 : ℕ) : ℚ) * (ns.sum.choose t : ℚ)⁻¹ := by
    intro c
    by_cases h : c.sum = t
    · simp [h, hypW_eq, div_eq_mul_inv]
    · simp [h]
  simp_rw [this]
  rw [List.sum_map_mul_right]
  have h2 := vandermonde_box ns t
  have h3 : ((boxIdx (ns.map (· + 1))).map fun c => ((if c.sum = t then prodN (List.zipWith Nat.choose ns c) else 0 : ℕ) : ℚ)).sum
      = ((ns.sum.choose t : ℕ) : ℚ) := by
    rw [← h2, Nat.cast_list_sum, List.map_map]; rfl
  rw [h3]
  exact mul_inv_cancel₀ hd

theorem boxIdx_single (m : ℕ) : boxIdx [m] = (List.range m).map (fun t => [t]) := by
  simp only [boxIdx, List.map_cons, List.map_nil]
  induction (List.range m) with
  | nil => rfl
  | cons a l ih => simp [List.flatMap_cons, ih]

theorem shape_of_ns (sh : List ℕ) (h : ∀ s ∈ sh, 1 ≤ s) : (sh.map (· - 1)).map (· + 1) = sh := by
  rw [List.map_map]
  conv_rhs => rw [← List.map_id sh]
  apply List.map_congr_left
  intro s hs; have := h s hs; simp; omega

/-- scrambling conserves the total (Vandermonde) -/
theorem scrambleCore_total (mc : Bool) (S : FS) (hsh : ∀ s ∈ S.shape, 1 ≤ s) :
    (S.box.map (scrambleCore mc S).dat).sum = (S.box.map S.val).sum := by
  set ns := S.shape.map (· - 1) with hns
  have hbox : S.box = boxIdx (ns.map (· + 1)) := by rw [hns, shape_of_ns _ hsh]; rfl
  have hN : ns.sum = nTotal S.shape := rfl
  have htot : ∀ a ∈ S.box, (fun c : Idx => [c.sum]) a ∈ boxIdx [nTotal S.shape + 1] := fun a ha => total_mem_box S.shape a ha
  rw [← pushL_total S.box (boxIdx [nTotal S.shape + 1]) (nodup_boxIdx _) (nodup_boxIdx _) (fun c => [c.sum]) htot]
  rw [← pushL_total S.box (boxIdx [nTotal S.shape + 1]) (nodup_boxIdx _) (nodup_boxIdx _) (fun c => [c.sum]) htot S.val]
  congr 1
  rw [boxIdx_single]
  simp only [List.map_map]
  apply List.map_congr_left
  intro t ht
  rw [List.mem_range] at ht
  simp only [Function.comp]
  have e1 : pushL S.box (fun c => [c.sum]) (scrambleCore mc S).dat [t]
      = pushL S.box (fun c => [c.sum]) (fun c => hypW ns c * pool S t) [t] := by
    apply pushL_congr
    intro c _ hc
    have : c.sum = t := by simpa using hc
    simp [scrambleCore, this, hns]
  rw [e1, pushL_mul_const, hbox, hyp_fibre_sum ns t (by omega), one_mul]
  rw [← hbox]; rfl

end DadiVerif.PopOps
