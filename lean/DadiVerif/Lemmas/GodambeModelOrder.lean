import DadiVerif.Lemmas.GodambeStencilOrder
set_option autoImplicit false
set_option linter.unusedVariables false
namespace DadiVerif
namespace Godambe
namespace Order
open Real Gen.Godambe Finset

section Line
variable {ι : Type} (s : Finset ι) (A β γ d lg : ι → ℝ)

/-- the Poisson log-likelihood `Σ llBin(mᵢ, dᵢ, log mᵢ, lgamᵢ)` (generated per-entry expression) of a model affine along one coordinate -/
noncomputable def llLine (a : ℝ) : ℝ := ∑ i ∈ s, cell1 (A i) (β i) (d i) (lg i) a
/-- … affine along two coordinates -/
noncomputable def llPlane (a b : ℝ) : ℝ := ∑ i ∈ s, cell2 (A i) (β i) (γ i) (d i) (lg i) a b
/-- its exact first derivative (the score) … -/
noncomputable def scoreLine (x : ℝ) : ℝ := ∑ i ∈ s, (-(β i) + d i * β i / (A i + x * β i))
/-- … its exact second derivative along the coordinate … -/
noncomputable def d2Line (x : ℝ) : ℝ := ∑ i ∈ s, -(d i * β i ^ 2 / (A i + x * β i) ^ 2)
/-- … and its exact mixed second derivative -/
noncomputable def d2Plane (x y : ℝ) : ℝ := ∑ i ∈ s, -(d i * β i * γ i / (A i + x * β i + y * γ i) ^ 2)

theorem llLine_hasDerivAt (x : ℝ) (hm : ∀ i ∈ s, A i + x * β i ≠ 0) :
    HasDerivAt (llLine s A β d lg) (scoreLine s A β d x) x := by
  unfold llLine scoreLine
  apply HasDerivAt.fun_sum
  intro i hi
  have h1 : HasDerivAt (fun a : ℝ => A i + a * β i) (β i) x := by
    simpa using ((hasDerivAt_id x).mul_const (β i)).const_add (A i)
  have h2 := h1.log (hm i hi)
  have h3 := ((h1.neg).add (h2.const_mul (d i))).sub_const (lg i)
  have hfun : cell1 (A i) (β i) (d i) (lg i) = fun a : ℝ => (-(A i + a * β i) + d i * Real.log (A i + a * β i)) - lg i := by
    funext a; simp [cell1, llBin]
  rw [hfun]
  refine h3.congr_deriv ?_
  ring

theorem scoreLine_hasDerivAt (x : ℝ) (hm : ∀ i ∈ s, A i + x * β i ≠ 0) :
    HasDerivAt (scoreLine s A β d) (d2Line s A β d x) x := by
  unfold scoreLine d2Line
  apply HasDerivAt.fun_sum
  intro i hi
  have h1 : HasDerivAt (fun a : ℝ => A i + a * β i) (β i) x := by
    simpa using ((hasDerivAt_id x).mul_const (β i)).const_add (A i)
  have h2 := ((h1.inv (hm i hi)).const_mul (d i * β i)).const_add (-(β i))
  have e : (fun a : ℝ => -(β i) + d i * β i / (A i + a * β i)) = fun a => -(β i) + d i * β i * (fun a => A i + a * β i)⁻¹ a := by
    funext a; simp [div_eq_mul_inv]
  rw [e]
  refine h2.congr_deriv ?_
  ring

theorem sum_bound_mul (f : ι → ℝ) (c : ℝ) : ∑ i ∈ s, f i * c = (∑ i ∈ s, f i) * c := (Finset.sum_mul _ _ _).symm

/-- **central gradient stencil**: second order, explicit constant -/
theorem gradC_order (x h μ : ℝ) (hh : h ≠ 0) (hμ : 0 < μ) (hb : ∀ i ∈ s, μ ≤ A i + x * β i - |h * β i|) :
    |gradC (llLine s A β d lg) x h - scoreLine s A β d x| ≤ (∑ i ∈ s, |d i| * |β i| ^ 3) / μ ^ 3 * h ^ 2 := by
  unfold llLine scoreLine
  rw [gradC_sum]
  refine (abs_sum_sub_le s _ _ (fun i => |d i| * |β i| ^ 3 / μ ^ 3 * h ^ 2)
    (fun i hi => gradC_cell (A i) (β i) (d i) (lg i) x h μ hh hμ (hb i hi))).trans (le_of_eq ?_)
  rw [Finset.sum_div, Finset.sum_mul]

/-- **one-sided gradient stencil**: first order (second order with the three-point formula) -/
theorem grad1_order (x h μ : ℝ) (hh : h ≠ 0) (hμ : 0 < μ) (hb : ∀ i ∈ s, μ ≤ A i + x * β i - 2 * |h * β i|) :
    |grad1 (llLine s A β d lg) x h - scoreLine s A β d x|
      ≤ if twoPtDerivTest then 6 * (∑ i ∈ s, |d i| * |β i| ^ 3) / μ ^ 3 * h ^ 2 else (∑ i ∈ s, |d i| * β i ^ 2) / μ ^ 2 * |h| := by
  unfold llLine scoreLine
  rw [grad1_sum]
  refine (abs_sum_sub_le s _ _ _ (fun i hi => grad1_cell (A i) (β i) (d i) (lg i) x h μ hh hμ (hb i hi))).trans (le_of_eq ?_)
  split
  · rw [Finset.mul_sum, Finset.sum_div, Finset.sum_mul]
    refine Finset.sum_congr rfl (fun i _ => ?_); ring
  · rw [Finset.sum_div, Finset.sum_mul]

/-- **central diagonal second difference**: second order -/
theorem hessDiagC_order (x h μ : ℝ) (hh : h ≠ 0) (hμ : 0 < μ) (hb : ∀ i ∈ s, μ ≤ A i + x * β i - |h * β i|) :
    |hessDiagC (llLine s A β d lg) (llLine s A β d lg x) x h - d2Line s A β d x| ≤ (∑ i ∈ s, |d i| * β i ^ 4) / μ ^ 4 * h ^ 2 := by
  unfold llLine d2Line
  rw [hessDiagC_sum]
  refine (abs_sum_sub_le s _ _ (fun i => |d i| * β i ^ 4 / μ ^ 4 * h ^ 2)
    (fun i hi => hessDiagC_cell (A i) (β i) (d i) (lg i) x h μ hh hμ (hb i hi))).trans (le_of_eq ?_)
  rw [Finset.sum_div, Finset.sum_mul]

/-- **one-sided diagonal second difference**: first order -/
theorem hessDiag1_order (x h μ : ℝ) (hh : h ≠ 0) (hμ : 0 < μ) (hb : ∀ i ∈ s, μ ≤ A i + x * β i - 2 * |h * β i|) :
    |hessDiag1 (llLine s A β d lg) (llLine s A β d lg x) x h - d2Line s A β d x| ≤ 10 * (∑ i ∈ s, |d i| * |β i| ^ 3) / μ ^ 3 * |h| := by
  unfold llLine d2Line
  rw [hessDiag1_sum]
  refine (abs_sum_sub_le s _ _ (fun i => 10 * |d i| * |β i| ^ 3 / μ ^ 3 * |h|)
    (fun i hi => hessDiag1_cell (A i) (β i) (d i) (lg i) x h μ hh hμ (hb i hi))).trans (le_of_eq ?_)
  rw [Finset.mul_sum, Finset.sum_div, Finset.sum_mul]
  refine Finset.sum_congr rfl (fun i _ => ?_); ring

/-- **central mixed second difference**: fourth order in the steps over `h·k`, i.e. second order when both steps are proportional to eps -/
theorem hessOffC_order (x y h k μ : ℝ) (hh : h ≠ 0) (hk : k ≠ 0) (hμ : 0 < μ)
    (hb : ∀ i ∈ s, μ ≤ A i + x * β i + y * γ i - (|h * β i| + |k * γ i|)) :
    |hessOffC (llPlane s A β γ d lg) (llPlane s A β γ d lg x y) x y h k - d2Plane s A β γ d x y|
      ≤ (∑ i ∈ s, |d i| * (|h * β i| + |k * γ i|) ^ 4) / (2 * |h| * |k| * μ ^ 4) := by
  unfold llPlane d2Plane
  rw [hessOffC_sum]
  refine (abs_sum_sub_le s _ _ (fun i => |d i| * (|h * β i| + |k * γ i|) ^ 4 / (2 * |h| * |k| * μ ^ 4))
    (fun i hi => hessOffC_cell (A i) (β i) (γ i) (d i) (lg i) x y h k μ hh hk hμ (hb i hi))).trans (le_of_eq ?_)
  rw [Finset.sum_div]

/-- **forward mixed second difference**: third order in the steps over `h·k`, i.e. first order in eps -/
theorem hessOff1_order (x y h k μ : ℝ) (hh : h ≠ 0) (hk : k ≠ 0) (hμ : 0 < μ)
    (hb : ∀ i ∈ s, μ ≤ A i + x * β i + y * γ i - (|h * β i| + |k * γ i|)) :
    |hessOff1 (llPlane s A β γ d lg) (llPlane s A β γ d lg x y) x y h k - d2Plane s A β γ d x y|
      ≤ 3 * (∑ i ∈ s, |d i| * (|h * β i| + |k * γ i|) ^ 3) / (|h| * |k| * μ ^ 3) := by
  unfold llPlane d2Plane
  rw [hessOff1_sum]
  refine (abs_sum_sub_le s _ _ (fun i => 3 * |d i| * (|h * β i| + |k * γ i|) ^ 3 / (|h| * |k| * μ ^ 3))
    (fun i hi => hessOff1_cell (A i) (β i) (γ i) (d i) (lg i) x y h k μ hh hk hμ (hb i hi))).trans (le_of_eq ?_)
  rw [Finset.mul_sum, Finset.sum_div]
  refine Finset.sum_congr rfl (fun i _ => ?_); ring
end Line

/-! ### Poisson log-likelihood of a model affine in n parameters; `get_hess` / `get_grad` applied to it -/
section Model
variable {ι : Type} (s : Finset ι) (n : ℕ) (B0 : ι → ℝ) (B : ℕ → ι → ℝ) (d lg : ι → ℝ)

/-- expected spectrum, entry `c`: `B0 c + Σ_{k<n} p k · B k c` (a model LINEAR in its parameters, with a fixed offset) -/
def affModel (p : ℕ → ℝ) (c : ι) : ℝ := B0 c + ∑ k ∈ range n, p k * B k c

/-- `Inference.ll(model(p), data)` over the entries `s` that enter (C19_ll_sum_joint): the generated `llBin` with the true logarithm -/
noncomputable def poissonLL (p : ℕ → ℝ) : ℝ :=
  ∑ c ∈ s, llBin (affModel n B0 B p c) (d c) (Real.log (affModel n B0 B p c)) (lg c)

/-- closed forms: score and (negative) observed information of the linear Poisson model -/
noncomputable def scoreExact (p : ℕ → ℝ) (i : ℕ) : ℝ := ∑ c ∈ s, (-(B i c) + d c * B i c / affModel n B0 B p c)
noncomputable def d2Exact (p : ℕ → ℝ) (i j : ℕ) : ℝ := ∑ c ∈ s, -(d c * B i c * B j c / affModel n B0 B p c ^ 2)

theorem affModel_line (p0 : ℕ → ℝ) (i : ℕ) (hi : i < n) (a : ℝ) (c : ι) :
    affModel n B0 B (upd p0 i a) c = (affModel n B0 B p0 c - p0 i * B i c) + a * B i c := by
  unfold affModel upd
  have h : ∀ k, (if k = i then a else p0 k) * B k c = p0 k * B k c + (if k = i then (a - p0 i) * B i c else 0) := by
    intro k; split_ifs with hk
    · subst hk; ring
    · ring
  simp_rw [h]
  rw [Finset.sum_add_distrib, Finset.sum_ite_eq' (range n) i]
  simp only [Finset.mem_range, hi, if_true]
  ring

theorem affModel_plane (p0 : ℕ → ℝ) (i j : ℕ) (hij : i ≠ j) (hi : i < n) (hj : j < n) (a b : ℝ) (c : ι) :
    affModel n B0 B (upd (upd p0 i a) j b) c = (affModel n B0 B p0 c - p0 i * B i c - p0 j * B j c) + a * B i c + b * B j c := by
  rw [affModel_line n B0 B _ j hj, affModel_line n B0 B _ i hi]
  have : upd p0 i a j = p0 j := by unfold upd; rw [if_neg (fun q => hij q.symm)]
  rw [this]; ring

theorem poissonLL_line (p0 : ℕ → ℝ) (i : ℕ) (hi : i < n) :
    (fun a => poissonLL s n B0 B d lg (upd p0 i a))
      = llLine s (fun c => affModel n B0 B p0 c - p0 i * B i c) (B i) d lg := by
  funext a
  unfold poissonLL llLine cell1
  refine Finset.sum_congr rfl (fun c _ => ?_)
  simp only [affModel_line n B0 B p0 i hi]

theorem poissonLL_plane (p0 : ℕ → ℝ) (i j : ℕ) (hij : i ≠ j) (hi : i < n) (hj : j < n) :
    (fun a b => poissonLL s n B0 B d lg (upd (upd p0 i a) j b))
      = llPlane s (fun c => affModel n B0 B p0 c - p0 i * B i c - p0 j * B j c) (B i) (B j) d lg := by
  funext a b
  unfold poissonLL llPlane cell2
  refine Finset.sum_congr rfl (fun c _ => ?_)
  simp only [affModel_plane n B0 B p0 i j hij hi hj]

/-- the regime in which `get_hess`/`get_grad` use central stencils with the relative step `eps·p` -/
def Central (p e : ℝ) : Prop := p ≠ 0 ∧ ¬ p * e < 1 / 1000000

theorem central_facts (p e : ℝ) (h : Central p e) :
    hessStep p e = e * p ∧ hessOneSided p e = false ∧ gradStep p e = e * p ∧ gradOneSided p e = false
    ∧ hessDiagCentralCond p false = true ∧ gradCentralCond p false = true := by
  obtain ⟨hp, hl⟩ := h
  rw [one_div] at hl
  refine ⟨?_, ?_, ?_, ?_, ?_, ?_⟩
  · simp [hessStep, hp, hl]
  · simp [hessOneSided, hp, hl]
  · simp [gradStep, hp, hl]
  · simp [gradOneSided, hp, hl]
  · simp [hessDiagCentralCond, hp]
  · simp [gradCentralCond, hp]


/-- `get_grad(ll, p0, eps)[i]` in the central regime: second order in eps with an explicit constant -/
theorem getGrad_order (p0 : ℕ → ℝ) (e μ : ℝ) (i : ℕ) (hi : i < n) (he : e ≠ 0) (hc : Central (p0 i) e) (hμ : 0 < μ)
    (hb : ∀ c ∈ s, μ ≤ affModel n B0 B p0 c - |e * p0 i * B i c|) :
    |getGradEntry (poissonLL s n B0 B d lg) p0 e i - scoreExact s n B0 B d p0 i|
      ≤ (∑ c ∈ s, |d c| * |B i c| ^ 3) * p0 i ^ 2 / μ ^ 3 * e ^ 2 := by
  obtain ⟨_, _, hs, hos, _, hcc⟩ := central_facts (p0 i) e hc
  unfold getGradEntry
  rw [hos, hcc, if_pos rfl, hs, poissonLL_line s n B0 B d lg p0 i hi]
  have hh : e * p0 i ≠ 0 := mul_ne_zero he hc.1
  have key := gradC_order s (fun c => affModel n B0 B p0 c - p0 i * B i c) (B i) d lg (p0 i) (e * p0 i) μ hh hμ
    (fun c hc' => by have := hb c hc'; linarith)
  have e1 : scoreLine s (fun c => affModel n B0 B p0 c - p0 i * B i c) (B i) d (p0 i) = scoreExact s n B0 B d p0 i := by
    unfold scoreLine scoreExact
    refine Finset.sum_congr rfl (fun c _ => ?_)
    simp only [sub_add_cancel]
  rw [e1] at key
  refine key.trans (le_of_eq ?_)
  ring

/-- `get_hess(ll, p0, eps)[i][i]` in the central regime -/
theorem getHess_diag_order (p0 : ℕ → ℝ) (e μ : ℝ) (i : ℕ) (hi : i < n) (he : e ≠ 0) (hc : Central (p0 i) e) (hμ : 0 < μ)
    (hb : ∀ c ∈ s, μ ≤ affModel n B0 B p0 c - |e * p0 i * B i c|) :
    |getHessEntry (poissonLL s n B0 B d lg) p0 e i i - d2Exact s n B0 B d p0 i i|
      ≤ (∑ c ∈ s, |d c| * B i c ^ 4) * p0 i ^ 2 / μ ^ 4 * e ^ 2 := by
  obtain ⟨hs, hos, _, _, hcc, _⟩ := central_facts (p0 i) e hc
  unfold getHessEntry hessElem
  simp only [min_self, max_self, if_true]
  rw [hos, hcc, if_pos rfl, hs, poissonLL_line s n B0 B d lg p0 i hi]
  have hh : e * p0 i ≠ 0 := mul_ne_zero he hc.1
  have key := hessDiagC_order s (fun c => affModel n B0 B p0 c - p0 i * B i c) (B i) d lg (p0 i) (e * p0 i) μ hh hμ
    (fun c hc' => by have := hb c hc'; linarith)
  have e0 : poissonLL s n B0 B d lg p0 = llLine s (fun c => affModel n B0 B p0 c - p0 i * B i c) (B i) d lg (p0 i) := by
    have := congrFun (poissonLL_line s n B0 B d lg p0 i hi) (p0 i)
    simp only [upd_self] at this; exact this
  have e1 : d2Line s (fun c => affModel n B0 B p0 c - p0 i * B i c) (B i) d (p0 i) = d2Exact s n B0 B d p0 i i := by
    unfold d2Line d2Exact
    refine Finset.sum_congr rfl (fun c _ => ?_)
    simp only [sub_add_cancel]; ring
  rw [e1, ← e0] at key
  refine key.trans (le_of_eq ?_)
  ring

/-- `get_hess(ll, p0, eps)[i][j]`, i < j, both parameters in the central regime -/
theorem getHess_off_order (p0 : ℕ → ℝ) (e μ : ℝ) (i j : ℕ) (hij : i < j) (hj : j < n) (he : e ≠ 0)
    (hci : Central (p0 i) e) (hcj : Central (p0 j) e) (hμ : 0 < μ)
    (hb : ∀ c ∈ s, μ ≤ affModel n B0 B p0 c - (|e * p0 i * B i c| + |e * p0 j * B j c|)) :
    |getHessEntry (poissonLL s n B0 B d lg) p0 e i j - d2Exact s n B0 B d p0 i j|
      ≤ (∑ c ∈ s, |d c| * (|p0 i * B i c| + |p0 j * B j c|) ^ 4) / (2 * |p0 i| * |p0 j| * μ ^ 4) * e ^ 2 := by
  have hi : i < n := hij.trans hj
  have hne : i ≠ j := ne_of_lt hij
  obtain ⟨hsi, hosi, _, _, _, _⟩ := central_facts (p0 i) e hci
  obtain ⟨hsj, hosj, _, _, _, _⟩ := central_facts (p0 j) e hcj
  unfold getHessEntry hessElem
  rw [min_eq_left hij.le, max_eq_right hij.le, if_neg hne]
  have hcond : hessOffCentralCond (p0 i) (p0 j) (hessOneSided (p0 i) e) (hessOneSided (p0 j) e) = true := by
    rw [hosi, hosj]; simp [hessOffCentralCond, hci.1, hcj.1]
  simp only [hcond, if_true, hsi, hsj]
  rw [poissonLL_plane s n B0 B d lg p0 i j hne hi hj]
  have hh : e * p0 i ≠ 0 := mul_ne_zero he hci.1
  have hk : e * p0 j ≠ 0 := mul_ne_zero he hcj.1
  have key := hessOffC_order s (fun c => affModel n B0 B p0 c - p0 i * B i c - p0 j * B j c) (B i) (B j) d lg (p0 i) (p0 j)
    (e * p0 i) (e * p0 j) μ hh hk hμ (fun c hc' => by have := hb c hc'; linarith)
  have e0 : poissonLL s n B0 B d lg p0
      = llPlane s (fun c => affModel n B0 B p0 c - p0 i * B i c - p0 j * B j c) (B i) (B j) d lg (p0 i) (p0 j) := by
    have := congrFun (congrFun (poissonLL_plane s n B0 B d lg p0 i j hne hi hj) (p0 i)) (p0 j)
    simp only [upd_self] at this; exact this
  have e1 : d2Plane s (fun c => affModel n B0 B p0 c - p0 i * B i c - p0 j * B j c) (B i) (B j) d (p0 i) (p0 j) = d2Exact s n B0 B d p0 i j := by
    unfold d2Plane d2Exact
    refine Finset.sum_congr rfl (fun c _ => ?_)
    have : affModel n B0 B p0 c - p0 i * B i c - p0 j * B j c + p0 i * B i c + p0 j * B j c = affModel n B0 B p0 c := by ring
    simp only [this]
  rw [e1, ← e0] at key
  refine key.trans (le_of_eq ?_)
  have he' : |e| ≠ 0 := abs_ne_zero.mpr he
  have hpi : |p0 i| ≠ 0 := abs_ne_zero.mpr hci.1
  have hpj : |p0 j| ≠ 0 := abs_ne_zero.mpr hcj.1
  have hsum : ∑ c ∈ s, |d c| * (|e * p0 i * B i c| + |e * p0 j * B j c|) ^ 4
      = |e| ^ 4 * ∑ c ∈ s, |d c| * (|p0 i * B i c| + |p0 j * B j c|) ^ 4 := by
    rw [Finset.mul_sum]
    refine Finset.sum_congr rfl (fun c _ => ?_)
    rw [mul_assoc e, mul_assoc e, abs_mul e, abs_mul e]; ring
  rw [hsum, abs_mul e, abs_mul e, ← sq_abs e]
  field_simp
end Model
end Order
end Godambe
end DadiVerif
