import DadiVerif.Lemmas.Positivity
import DadiVerif.Lemmas.Sweep
import Mathlib.Algebra.Order.BigOperators.Group.Finset
/-!
# ℓ¹-stability of the implicit step

Under the M-matrix condition (non-negative flux coefficients and absorbing terms, dt > 0, increasing grid) one implicit step
is a contraction in the trapezoid-weighted ℓ¹ norm  ‖φ‖ = Σ_j w_j |φ_j|:   ‖step φ‖ ≤ ‖φ‖   for every φ (any sign).
Proof: the step is linear (`step_linear`), positivity preserving (`Line.stepFn_nonneg`) and does not increase the mass of a
non-negative density (`Line.line_mass`: mass' = mass − dt·Σ w·bc·φ'); split φ into positive and negative part.
Together with consistency (`Lemmas/Consistency.lean`) this is the stability half of the convergence argument for the scheme.
-/
namespace DadiVerif
open Gen Finset

namespace Line

/-- trapezoid-weighted ℓ¹ norm of a density on the line -/
def l1 (L : Line) (φ : ℕ → ℚ) : ℚ := ∑ j ∈ range L.N, L.w j * |φ j|

/-- trapezoid mass -/
def mass (L : Line) (φ : ℕ → ℚ) : ℚ := ∑ j ∈ range L.N, L.w j * φ j

theorem w_nonneg (L : Line) (h2 : 2 ≤ L.N) (hinc : ∀ j, j + 1 < L.N → L.x j < L.x (j+1)) (j : ℕ) (hj : j < L.N) :
    0 ≤ L.w j := by
  unfold Line.w
  have := L.weights_pos h2 hinc j hj
  linarith

/-- a non-negative density does not gain mass in one step -/
theorem mass_step_le (L : Line) (h2 : 2 ≤ L.N) (hinc : ∀ j, j + 1 < L.N → L.x j < L.x (j+1)) (hdt : 0 < L.dt)
    (hA : ∀ k, 1 ≤ k → k + 1 ≤ L.N → 0 ≤ L.At k) (hC : ∀ k, 1 ≤ k → k + 1 ≤ L.N → 0 ≤ L.Ct k)
    (hbc : ∀ j, 0 ≤ L.bc j) (φ : ℕ → ℚ) (hφ : ∀ j < L.N, 0 ≤ φ j) :
    L.mass (L.stepFn φ) ≤ L.mass φ := by
  have hp := L.pivotsOk_of_nonneg hinc hdt hA hC hbc φ
  have hsolve := L.step_solves φ hp
  have hw : ∀ j < L.N, L.dxL j + L.dxR j ≠ 0 := fun j hj => ne_of_gt (L.weights_pos h2 hinc j hj)
  have hm := L.line_mass φ (L.stepFn φ) (ne_of_gt hdt) hw hsolve
  unfold mass
  rw [hm]
  have hnn : 0 ≤ ∑ j ∈ range L.N, L.w j * L.bc j * L.stepFn φ j := by
    apply Finset.sum_nonneg
    intro j hj
    have hjN := mem_range.mp hj
    have h1 := L.w_nonneg h2 hinc j hjN
    have h3 : 0 ≤ L.stepFn φ j := L.stepFn_nonneg hinc hdt hA hC hbc φ hφ j
    exact mul_nonneg (mul_nonneg h1 (hbc j)) h3
  nlinarith [mul_nonneg (le_of_lt hdt) hnn]

/-- pointwise linearity of the step for a difference -/
theorem stepFn_sub (L : Line) (p n : ℕ → ℚ) (j : ℕ) :
    L.stepFn (fun i => p i - n i) j = L.stepFn p j - L.stepFn n j := by
  have h := step_linear L 1 (-1) p n
  have e : (fun i => p i - n i) = (fun i => 1 * p i + (-1) * n i) := by funext i; ring
  unfold stepFn
  rw [e, h]
  have hl : (L.step p).length = (L.step n).length := by rw [L.step_length, L.step_length]
  have := listGetD_zipWith_lin 1 (-1) (L.step p) (L.step n) hl j
  unfold listGetD at this
  rw [this]; ring

/-- **ℓ¹-contraction**: ‖step φ‖ ≤ ‖φ‖ for every density, under the M-matrix condition -/
theorem step_l1_contraction (L : Line) (h2 : 2 ≤ L.N) (hinc : ∀ j, j + 1 < L.N → L.x j < L.x (j+1)) (hdt : 0 < L.dt)
    (hA : ∀ k, 1 ≤ k → k + 1 ≤ L.N → 0 ≤ L.At k) (hC : ∀ k, 1 ≤ k → k + 1 ≤ L.N → 0 ≤ L.Ct k)
    (hbc : ∀ j, 0 ≤ L.bc j) (φ : ℕ → ℚ) :
    L.l1 (L.stepFn φ) ≤ L.l1 φ := by
  set p : ℕ → ℚ := fun j => max (φ j) 0 with hp
  set n : ℕ → ℚ := fun j => max (-φ j) 0 with hn
  have hpn : φ = fun i => p i - n i := by
    funext i
    simp only [hp, hn]
    rcases le_total 0 (φ i) with h | h
    · rw [max_eq_left h, max_eq_right (by linarith)]; ring
    · rw [max_eq_right h, max_eq_left (by linarith)]; ring
  have hp0 : ∀ j < L.N, 0 ≤ p j := fun j _ => le_max_right _ _
  have hn0 : ∀ j < L.N, 0 ≤ n j := fun j _ => le_max_right _ _
  have habs : ∀ j, |φ j| = p j + n j := by
    intro j
    simp only [hp, hn]
    rcases le_total 0 (φ j) with h | h
    · rw [abs_of_nonneg h, max_eq_left h, max_eq_right (by linarith)]; ring
    · rw [abs_of_nonpos h, max_eq_right h, max_eq_left (by linarith)]; ring
  have hsp := L.stepFn_nonneg hinc hdt hA hC hbc p hp0
  have hsn := L.stepFn_nonneg hinc hdt hA hC hbc n hn0
  have hmp := L.mass_step_le h2 hinc hdt hA hC hbc p hp0
  have hmn := L.mass_step_le h2 hinc hdt hA hC hbc n hn0
  calc L.l1 (L.stepFn φ)
      = ∑ j ∈ range L.N, L.w j * |L.stepFn p j - L.stepFn n j| := by
        unfold l1
        refine Finset.sum_congr rfl (fun j _ => ?_)
        rw [hpn, L.stepFn_sub p n j]
    _ ≤ ∑ j ∈ range L.N, L.w j * (L.stepFn p j + L.stepFn n j) := by
        apply Finset.sum_le_sum
        intro j hj
        have hjN := mem_range.mp hj
        apply mul_le_mul_of_nonneg_left _ (L.w_nonneg h2 hinc j hjN)
        have a := hsp j; have b := hsn j
        unfold listGetD at a b
        unfold stepFn
        rw [abs_le]; constructor <;> linarith
    _ = L.mass (L.stepFn p) + L.mass (L.stepFn n) := by
        unfold mass; rw [← Finset.sum_add_distrib]
        exact Finset.sum_congr rfl (fun j _ => by ring)
    _ ≤ L.mass p + L.mass n := add_le_add hmp hmn
    _ = L.l1 φ := by
        unfold mass l1; rw [← Finset.sum_add_distrib]
        exact Finset.sum_congr rfl (fun j _ => by rw [habs j]; ring)

end Line
end DadiVerif
