import DadiVerif.Model.DemesConv
import Mathlib.Tactic.Ring
import Mathlib.Tactic.FieldSimp
import Mathlib.Tactic.Linarith
import Mathlib.Algebra.Order.Field.Basic
import Mathlib.Data.List.Basic
/-! C16 — helper lemmas about times, scaling and the small list functions of `Model/DemesConv.lean`. -/
namespace DadiVerif.DemesConv
open Gen.Demes

theorem tval_tscale (c : ℚ) (a : ETime) : tval (tscale c a) = c * tval a := by
  cases a <;> simp [tval, tscale]

theorem isInf_tscale (c : ℚ) (a : ETime) : isInf (tscale c a) = isInf a := by
  cases a <;> simp [isInf, tscale]

theorem teq_tscale {c : ℚ} (hc : c ≠ 0) (a b : ETime) : teq (tscale c a) (tscale c b) = teq a b := by
  cases a <;> cases b <;> simp [teq, tscale, hc]

theorem tge_tscale {c : ℚ} (hc : 0 < c) (a b : ETime) : tge (tscale c a) (tscale c b) = tge a b := by
  cases a <;> cases b <;> simp [tge, tscale, hc]

/-- value of a pair of size expressions -/
def evalPair (ex lg : ℚ → ℚ) (pw : ℚ → ℚ → ℚ) (p : Sym × Sym) : ℚ × ℚ := (p.1.eval ex lg pw, p.2.eval ex lg pw)


theorem sizesAt_scale (ex lg : ℚ → ℚ) (pw : ℚ → ℚ → ℚ) {c : ℚ} (hc : c ≠ 0) (fn : SizeFn) (ss es : ℚ) (st et : ETime) (span : ℚ)
    (i0 i1 : ETime) :
    (sizesAt fn (c * ss) (c * es) (tscale c st) (tscale c et) (c * span) (tscale c i0) (tscale c i1)).map (evalPair ex lg pw)
      = (sizesAt fn ss es st et span i0 i1).map (fun p => (c * (evalPair ex lg pw p).1, c * (evalPair ex lg pw p).2)) := by
  have h1 : c * es / (c * ss) = es / ss := mul_div_mul_left _ _ hc
  have h2 : ∀ x a b : ℚ, x * (c * a - c * b) / (c * span) = x * (a - b) / span := by
    intro x a b
    rw [← mul_sub, ← mul_assoc, mul_comm x c, mul_assoc, mul_div_mul_left _ _ hc]
  have h3 : ∀ a b : ℚ, (c * a - c * b) / (c * span) = (a - b) / span := by
    intro a b
    rw [← mul_sub, mul_div_mul_left _ _ hc]
  cases fn <;> cases h5 : teq st i0 <;> cases h6 : teq et i1 <;>
    simp [sizesAt, teq_tscale hc, tval_tscale, h5, h6, evalPair, Sym.eval, h1, h2, h3] <;> (try constructor) <;> ring

/-! ### `_make_sorted_proportions_list` -/

theorem foldl_set_length (pairs : List (ℕ × ℚ)) (l0 : List ℚ) :
    (pairs.foldl (fun l p => l.set p.1 p.2) l0).length = l0.length := by
  induction pairs generalizing l0 with
  | nil => rfl
  | cons p ps ih => simp [List.foldl_cons, ih]

theorem foldl_set_other (pairs : List (ℕ × ℚ)) (l0 : List ℚ) (k : ℕ) (hk : k ∉ pairs.map Prod.fst) :
    (pairs.foldl (fun l p => l.set p.1 p.2) l0).getD k 0 = l0.getD k 0 := by
  induction pairs generalizing l0 with
  | nil => rfl
  | cons p ps ih =>
    simp only [List.map_cons, List.mem_cons, not_or] at hk
    rw [List.foldl_cons, ih _ hk.2]
    simp [List.getD_eq_getElem?_getD, Ne.symm hk.1]

theorem foldl_set_mem (pairs : List (ℕ × ℚ)) (l0 : List ℚ) (hnd : (pairs.map Prod.fst).Nodup)
    (hlt : ∀ p ∈ pairs, p.1 < l0.length) (p : ℕ × ℚ) (hp : p ∈ pairs) :
    (pairs.foldl (fun l p => l.set p.1 p.2) l0).getD p.1 0 = p.2 := by
  induction pairs generalizing l0 with
  | nil => cases hp
  | cons q qs ih =>
    simp only [List.map_cons, List.nodup_cons] at hnd
    rw [List.foldl_cons]
    rcases List.mem_cons.1 hp with rfl | hp'
    · rw [foldl_set_other _ _ _ hnd.1]
      have := hlt p (List.mem_cons_self)
      simp [List.getD_eq_getElem?_getD, this]
    · exact ih _ hnd.2 (fun r hr => by simpa using hlt r (List.mem_cons_of_mem _ hr)) hp'

/-- the list built by `_make_sorted_proportions_list` before the destination is removed: population `src[i]` carries
    `props[i]`, every other population 0 -/
theorem placeProps_spec (n : ℕ) (src : List ℕ) (props : List ℚ) (hnd : src.Nodup) (hlen : src.length = props.length)
    (hlt : ∀ s ∈ src, s < n) :
    (placeProps n src props).length = n
    ∧ (∀ i (hi : i < src.length), (placeProps n src props).getD (src[i]) 0 = props[i]'(hlen ▸ hi))
    ∧ (∀ k, k ∉ src → (placeProps n src props).getD k 0 = 0) := by
  have hfst : (src.zip props).map Prod.fst = src := by
    rw [List.map_fst_zip]; omega
  refine ⟨by simp [placeProps, foldl_set_length], ?_, ?_⟩
  · intro i hi
    have hmem : (src[i], props[i]'(hlen ▸ hi)) ∈ src.zip props := by
      rw [List.mem_iff_getElem]
      exact ⟨i, by simp [List.length_zip, ← hlen, hi], by simp⟩
    have := foldl_set_mem (src.zip props) (List.replicate n 0) (by rw [hfst]; exact hnd)
      (fun p hp => by
        have : p.1 ∈ src := by rw [← hfst]; exact List.mem_map_of_mem hp
        simpa using hlt _ this) _ hmem
    simpa [placeProps] using this
  · intro k hk
    have := foldl_set_other (src.zip props) (List.replicate n 0) k (by rw [hfst]; exact hk)
    rw [placeProps, this]
    simp only [List.getD_eq_getElem?_getD, List.getElem?_replicate]
    split_ifs <;> rfl

theorem eraseIdx_getD (l : List ℚ) (d k : ℕ) :
    (l.eraseIdx d).getD k 0 = if k < d then l.getD k 0 else l.getD (k + 1) 0 := by
  simp only [List.getD_eq_getElem?_getD, List.getElem?_eraseIdx]
  split_ifs <;> rfl


/-! ### end times, final order -/

theorem endTimes_cons (d d' : ℚ) (rest : List ℚ) :
    endTimes (d :: d' :: rest) = (d' :: rest).sum :: endTimes (d' :: rest) := by
  induction rest generalizing d d' with
  | nil => simp [endTimes, olderEndTime, lastEndTime]
  | cons e es ih =>
    rw [endTimes, ih d' e]
    simp [olderEndTime, add_comm]

theorem endTimes_length (durs : List ℚ) : (endTimes durs).length = durs.length := by
  induction durs with
  | nil => rfl
  | cons d ds ih =>
    cases ds with
    | nil => rfl
    | cons d' rest => rw [endTimes_cons]; simp [ih]

theorem endTimes_getD (durs : List ℚ) (i : ℕ) (hi : i < durs.length) :
    (endTimes durs).getD i 0 = (durs.drop (i + 1)).sum := by
  induction durs generalizing i with
  | nil => cases hi
  | cons d ds ih =>
    cases ds with
    | nil =>
      have : i = 0 := by simpa using hi
      subst this; simp [endTimes, lastEndTime]
    | cons d' rest =>
      rw [endTimes_cons]
      cases i with
      | zero => simp
      | succ j =>
        have := ih j (by simpa using hi)
        simpa using this

theorem applyOrder_newOrder (current sampled : List ℕ) (h : ∀ p ∈ sampled, p ∈ current) :
    applyOrder current (newOrder current sampled) = sampled := by
  unfold applyOrder newOrder
  rw [List.map_map]
  conv_rhs => rw [← List.map_id sampled]
  apply List.map_congr_left
  intro p hp
  have hlt := List.idxOf_lt_length_iff.2 (h p hp)
  simp [List.getD_eq_getElem?_getD, List.getElem?_eq_getElem hlt]


end DadiVerif.DemesConv
