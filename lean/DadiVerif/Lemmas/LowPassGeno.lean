import DadiVerif.Lemmas.LowPassSums
/-! C18 helper lemmas: the single-individual genotype probabilities under inbreeding.  The generated
    `Gen.LowPass.inbP00/01/11` are either exp(BetaBinomln(k, 2, α, β)) with α = p(1−F)/F, β = (1−p)(1−F)/F (evaluated
    by the model as a ratio of rising factorials) or closed expressions in p and F; `inbP_closed` identifies them
    with the classical polynomials in either case. -/
set_option linter.unusedSimpArgs false
set_option linter.unreachableTactic false
set_option linter.unusedTactic false
namespace DadiVerif.LowPass
open Finset

/-- genotype probabilities of one individual under inbreeding F at allele frequency p (polynomials in F) -/
def g00 (p F : ℚ) : ℚ := (1 - p) ^ 2 + F * p * (1 - p)
def g01 (p F : ℚ) : ℚ := 2 * p * (1 - p) * (1 - F)
def g11 (p F : ℚ) : ℚ := p ^ 2 + F * p * (1 - p)

theorem g_sum (p F : ℚ) : g00 p F + g01 p F + g11 p F = 1 := by unfold g00 g01 g11; ring

/-- exp(BetaBinomln(k, 2, α, β)) with α = p(1−F)/F, β = (1−p)(1−F)/F, for F ∉ {0, 1} (any p) -/
theorem betaBinom_closed (p F : ℚ) (hF0 : F ≠ 0) (hF1 : F ≠ 1) :
    betaBinom 0 2 (p * (((1 : ℚ) - F) / F)) (((1 : ℚ) - p) * (((1 : ℚ) - F) / F)) = g00 p F ∧
    betaBinom 1 2 (p * (((1 : ℚ) - F) / F)) (((1 : ℚ) - p) * (((1 : ℚ) - F) / F)) = g01 p F ∧
    betaBinom 2 2 (p * (((1 : ℚ) - F) / F)) (((1 : ℚ) - p) * (((1 : ℚ) - F) / F)) = g11 p F := by
  have h1F : (1 - F) ≠ 0 := sub_ne_zero.mpr (Ne.symm hF1)
  have hs : p * (((1 : ℚ) - F) / F) + ((1 : ℚ) - p) * (((1 : ℚ) - F) / F) = (1 - F) / F := by ring
  have hs1 : (1 - F) / F + 1 = 1 / F := by field_simp; ring
  have hden : rising (p * (((1 : ℚ) - F) / F) + ((1 : ℚ) - p) * (((1 : ℚ) - F) / F)) 2 = (1 - F) / F * (1 / F) := by
    simp only [rising, hs]
    rw [← hs1]; push_cast; ring
  have hden0 : (1 - F) / F * (1 / F) ≠ 0 := by positivity
  refine ⟨?_, ?_, ?_⟩
  · unfold betaBinom
    rw [hden]
    simp only [rising, choose_eq, Nat.choose_zero_right, Nat.reduceSub, Nat.sub_self, Nat.sub_zero, g00]
    field_simp
    ring
  · unfold betaBinom
    rw [hden]
    simp only [rising, choose_eq, Nat.choose_one_right, Nat.reduceSub, Nat.sub_self, Nat.sub_zero, g01]
    field_simp
    ring
  · unfold betaBinom
    rw [hden]
    simp only [rising, choose_eq, Nat.choose_self, Nat.reduceSub, Nat.sub_self, Nat.sub_zero, g11]
    field_simp
    ring

/-- the generated genotype probabilities are the classical ones for every F ∉ {0, 1}: first alternative = the
    beta-binomial route of the source, second = closed expressions in the source -/
theorem inbP_closed (p F : ℚ) (hF0 : F ≠ 0) (hF1 : F ≠ 1) :
    Gen.LowPass.inbP00 p F = g00 p F ∧ Gen.LowPass.inbP01 p F = g01 p F ∧ Gen.LowPass.inbP11 p F = g11 p F := by
  have h2 : Int.toNat 2 = 2 := rfl
  first
  | exact betaBinom_closed p F hF0 hF1
  | (refine ⟨?_, ?_, ?_⟩ <;>
      simp only [Gen.LowPass.inbP00, Gen.LowPass.inbP01, Gen.LowPass.inbP11, zpowR, g00, g01, g11] <;>
      norm_num [h2] <;> ring)

theorem g_pos (p F : ℚ) (hp0 : 0 < p) (hp1 : p < 1) (hF0 : 0 ≤ F) (hF1 : F < 1) :
    0 < g00 p F ∧ 0 < g01 p F ∧ 0 < g11 p F := by
  have h1 : 0 < 1 - p := by linarith
  have h2 : 0 < 1 - F := by linarith
  unfold g00 g01 g11
  refine ⟨?_, ?_, ?_⟩
  · have : 0 ≤ F * p * (1 - p) := by positivity
    have : 0 < (1 - p) ^ 2 := by positivity
    linarith
  · positivity
  · have : 0 ≤ F * p * (1 - p) := by positivity
    have : 0 < p ^ 2 := by positivity
    linarith

end DadiVerif.LowPass
