import DadiVerif.Model.LowPass
import Mathlib.Data.Nat.Choose.Vandermonde
import Mathlib.Data.Nat.Choose.Sum
import Mathlib.Algebra.Order.Field.Rat
import Mathlib.Algebra.BigOperators.Ring.Finset
import Mathlib.Algebra.BigOperators.Field
import Mathlib.Algebra.BigOperators.Intervals
import Mathlib.Algebra.Order.BigOperators.Ring.Finset
import Mathlib.Tactic.FieldSimp
import Mathlib.Tactic.Ring
import Mathlib.Tactic.Linarith
import Mathlib.Tactic.Positivity
/-! C18 helper lemmas, part 1: the model's sums as `Finset` sums, binomial coefficients, the binomial and
    hypergeometric distributions sum to one, integer powers. -/
namespace DadiVerif.LowPass
open Finset

theorem sumTo_eq (n : ℕ) (f : ℕ → ℚ) : sumTo n f = ∑ k ∈ range n, f k := by
  induction n with
  | zero => simp [sumTo]
  | succ n ih => rw [sumTo, ih, Finset.sum_range_succ]

@[simp] theorem lsum_nil : lsum [] = 0 := rfl
@[simp] theorem lsum_cons (a : ℚ) (l : List ℚ) : lsum (a :: l) = a + lsum l := rfl

theorem lsum_eq_sum (l : List ℚ) : lsum l = l.sum := by
  induction l with
  | nil => rfl
  | cons a l ih => simp [ih]

theorem lsum_append (l₁ l₂ : List ℚ) : lsum (l₁ ++ l₂) = lsum l₁ + lsum l₂ := by
  simp [lsum_eq_sum]

theorem lsum_map_div {α : Type} (l : List α) (w : α → ℚ) (t : ℚ) :
    lsum (l.map fun g => w g / t) = lsum (l.map w) / t := by
  induction l with
  | nil => simp
  | cons a l ih => simp [ih, add_div]

theorem lsum_map_mul_right {α : Type} (l : List α) (w : α → ℚ) (t : ℚ) :
    lsum (l.map fun g => w g * t) = lsum (l.map w) * t := by
  induction l with
  | nil => simp
  | cons a l ih => simp [ih, add_mul]

theorem lsum_map_nonneg {α : Type} (l : List α) (w : α → ℚ) (h : ∀ g ∈ l, 0 ≤ w g) : 0 ≤ lsum (l.map w) := by
  induction l with
  | nil => simp
  | cons a l ih =>
    simp only [List.map_cons, lsum_cons]
    have := h a (List.mem_cons_self)
    have := ih (fun g hg => h g (List.mem_cons_of_mem _ hg))
    linarith

theorem lsum_map_pos {α : Type} (l : List α) (w : α → ℚ) (hne : l ≠ []) (h : ∀ g ∈ l, 0 < w g) :
    0 < lsum (l.map w) := by
  cases l with
  | nil => exact absurd rfl hne
  | cons a l =>
    simp only [List.map_cons, lsum_cons]
    have := h a (List.mem_cons_self)
    have := lsum_map_nonneg l w (fun g hg => (h g (List.mem_cons_of_mem _ hg)).le)
    linarith

theorem lsum_map_le {α : Type} (l : List α) (w v : α → ℚ) (h : ∀ g ∈ l, w g ≤ v g) :
    lsum (l.map w) ≤ lsum (l.map v) := by
  induction l with
  | nil => simp
  | cons a l ih =>
    simp only [List.map_cons, lsum_cons]
    have := h a (List.mem_cons_self)
    have := ih (fun g hg => h g (List.mem_cons_of_mem _ hg))
    linarith

theorem lsum_map_congr {α : Type} (l : List α) (w v : α → ℚ) (h : ∀ g ∈ l, w g = v g) :
    lsum (l.map w) = lsum (l.map v) := by
  rw [List.map_congr_left h]

/-- Σ_j Σ_g = Σ_g Σ_j -/
theorem sum_lsum_swap {α : Type} (l : List α) (m : ℕ) (f : α → ℕ → ℚ) :
    ∑ j ∈ range m, lsum (l.map fun g => f g j) = lsum (l.map fun g => ∑ j ∈ range m, f g j) := by
  induction l with
  | nil => simp
  | cons a l ih => simp [Finset.sum_add_distrib, ih]

/-- a list sum as a sum over positions -/
theorem lsum_eq_range (l : List ℚ) : lsum l = ∑ k ∈ range l.length, l.getD k 0 := by
  induction l with
  | nil => simp
  | cons a l ih =>
    rw [List.length_cons, Finset.sum_range_succ', lsum_cons, ih]
    simp [add_comm]

theorem getD_drop_one (l : List ℚ) (k : ℕ) : (l.drop 1).getD k 0 = l.getD (k + 1) 0 := by
  cases l with
  | nil => simp
  | cons a l => simp

/-! ### binomial coefficients -/

theorem fact_eq (n : ℕ) : fact n = n.factorial := by
  induction n with
  | zero => rfl
  | succ n ih => rw [fact, ih, Nat.factorial_succ]

theorem fact_pos (n : ℕ) : 0 < fact n := by rw [fact_eq]; exact Nat.factorial_pos n

theorem choose_eq (n k : ℕ) : choose n k = Nat.choose n k := by
  unfold choose
  split_ifs with h
  · rw [fact_eq, fact_eq, fact_eq, Nat.choose_eq_factorial_div_factorial h]
  · rw [Nat.choose_eq_zero_of_lt (by omega)]

/-- the binomial distribution sums to one -/
theorem binomPmf_sum (n : ℕ) (p : ℚ) : ∑ k ∈ range (n + 1), binomPmf k n p = 1 := by
  have h := add_pow p (1 - p) n
  rw [show p + (1 - p) = 1 by ring, one_pow] at h
  rw [h]
  refine Finset.sum_congr rfl (fun k hk => ?_)
  have hk' : k ≤ n := by simp at hk; omega
  simp only [binomPmf, if_pos hk', choose_eq]
  ring

theorem binomPmf_nonneg (k n : ℕ) (p : ℚ) (h0 : 0 ≤ p) (h1 : p ≤ 1) : 0 ≤ binomPmf k n p := by
  unfold binomPmf
  split_ifs
  · have : 0 ≤ 1 - p := by linarith
    positivity
  · exact le_refl _

/-- with error probability 0 the binomial is the point mass at 0 -/
theorem binomPmf_zero_p (k n : ℕ) (hk : k ≤ n) : binomPmf k n 0 = if k = 0 then 1 else 0 := by
  unfold binomPmf
  rw [if_pos hk]
  by_cases h : k = 0
  · subst h; simp [choose_eq]
  · simp [h]

/-! ### hypergeometric rows -/

theorem vandermonde_range (m r i : ℕ) :
    ∑ j ∈ range (i + 1), m.choose j * r.choose (i - j) = (m + r).choose i := by
  rw [Nat.add_choose_eq, Finset.Nat.sum_antidiagonal_eq_sum_range_succ_mk]

theorem hypW_nonneg (m n i j : ℕ) : 0 ≤ hypW m n i j := by
  unfold hypW; split_ifs
  · positivity
  · exact le_refl _

/-- rows of the F = 0 projection matrix sum to one over the stored entries j = 0..m -/
theorem hypW_rowsum (m n i : ℕ) (hm : m ≤ n) (hi : i ≤ n) : ∑ j ∈ range (m + 1), hypW m n i j = 1 := by
  have hpos : ((choose n i : ℕ) : ℚ) ≠ 0 := by
    rw [choose_eq]; exact_mod_cast (Nat.choose_pos hi).ne'
  -- extend / restrict the range to 0..i
  have hsw : ∑ j ∈ range (m + 1), hypW m n i j = ∑ j ∈ range (i + 1), hypW m n i j := by
    rcases le_total i m with him | hmi
    · symm
      apply Finset.sum_subset
      · intro x hx; simp at hx ⊢; omega
      · intro x _ hx2
        have : ¬ x ≤ i := by simp at hx2; omega
        simp [hypW, this]
    · apply Finset.sum_subset
      · intro x hx; simp at hx ⊢; omega
      · intro x hx1 hx2
        have h1 : x ≤ i := by simp at hx1; omega
        have h2 : m < x := by simp at hx2; omega
        simp [hypW, h1, choose_eq, Nat.choose_eq_zero_of_lt h2]
  rw [hsw]
  have h1 : ∀ j ∈ range (i + 1), hypW m n i j
      = ((m.choose j * (n - m).choose (i - j) : ℕ) : ℚ) / ((choose n i : ℕ) : ℚ) := by
    intro j hj
    have : j ≤ i := by simp at hj; omega
    simp [hypW, this, choose_eq]
  rw [Finset.sum_congr rfl h1, ← Finset.sum_div, div_eq_one_iff_eq hpos]
  have h := vandermonde_range m (n - m) i
  rw [Nat.add_sub_cancel' hm] at h
  rw [choose_eq]
  exact_mod_cast h

/-! ### integer powers -/

theorem zpowR_natCast (x : ℚ) (k : ℕ) : zpowR x ((k : ℕ) : ℤ) = x ^ k := by
  unfold zpowR
  rw [if_pos (by omega)]
  simp

theorem zpowR_pred (x : ℚ) (k : ℕ) (hk : 0 < k) : zpowR x (((k : ℕ) : ℤ) - 1) = x ^ (k - 1) := by
  have : (((k : ℕ) : ℤ) - 1) = ((k - 1 : ℕ) : ℤ) := by omega
  rw [this, zpowR_natCast]

/-- p^a + a·q·p^(a−1) ≤ 1: "no success or exactly one success among a" for a trial with P(0)=p, P(1)=q -/
theorem two_term_le_one (p q : ℚ) (hp : 0 ≤ p) (hq : 0 ≤ q) (hpq : p + q ≤ 1) (a : ℕ) :
    p ^ a + (a : ℚ) * q * p ^ (a - 1) ≤ 1 := by
  have hp1 : p ≤ 1 := by linarith
  induction a with
  | zero => simp
  | succ a ih =>
    have hpa : p ^ a ≤ 1 := pow_le_one₀ hp hp1
    have hpa0 : 0 ≤ p ^ a := pow_nonneg hp a
    rcases Nat.eq_zero_or_pos a with h0 | hpos
    · subst h0; simp; linarith
    · have e : p ^ (a + 1 - 1) = p * p ^ (a - 1) := by
        rw [Nat.add_sub_cancel, ← pow_succ']
        congr 1; omega
      rw [e]
      have : p ^ (a + 1) + ((a + 1 : ℕ) : ℚ) * q * (p * p ^ (a - 1))
          = p * (p ^ a + (a : ℚ) * q * p ^ (a - 1)) + q * (p * p ^ (a - 1)) := by
        push_cast; ring
      rw [this]
      have e2 : p * p ^ (a - 1) = p ^ a := by
        rw [← pow_succ']; congr 1; omega
      rw [e2]
      nlinarith [mul_le_mul_of_nonneg_left ih hp, mul_le_mul_of_nonneg_left hpa hq]

theorem two_term_nonneg (p q : ℚ) (hp : 0 ≤ p) (hq : 0 ≤ q) (a : ℕ) :
    0 ≤ p ^ a + (a : ℚ) * q * p ^ (a - 1) := by positivity

end DadiVerif.LowPass
