import DadiVerif.Lemmas.ProjFold
/-! C08, whole arrays, part 4: the array-level statements about `Spec.projectAxis` / `Spec.project` assembled from
    parts 1–3 (Props/C08.lean restates them under the `C08_` names). -/
namespace DadiVerif
namespace PBox
open Finset Gen.Proj

/-! ### `project`: acceptance, flags -/

theorem sampleSizes_length (S : Spec) : S.sampleSizes.length = S.shape.length := by simp [Spec.sampleSizes]

/-- `project` accepts exactly the admissible sizes -/
theorem project_eq_ok (S : Spec) (ns : List ℕ) (hd : ns.length = S.shape.length)
    (hup : ∀ k, k < S.sampleSizes.length → ns.getD k 0 ≤ S.sampleSizes.getD k 0) :
    S.project ns = .ok (if S.folded then (Spec.projectAxes S.unfold ns S.sampleSizes).fold
                        else Spec.projectAxes S ns S.sampleSizes) := by
  have hsl := sampleSizes_length S
  have hany : (List.zipWith (fun (a b : ℕ) => upRefusedAt a b) ns S.sampleSizes).any id = false := by
    rw [List.any_eq_false]
    intro x hx
    obtain ⟨k, hk, rfl⟩ := List.mem_iff_getElem.mp hx
    have hk1 : k < ns.length := by simp at hk; omega
    have hk2 : k < S.sampleSizes.length := by simp at hk; omega
    have := hup k hk2
    simp only [List.getD_eq_getElem?_getD, List.getElem?_eq_getElem hk1, List.getElem?_eq_getElem hk2,
      Option.getD_some] at this
    simp only [List.getElem_zipWith, id, upRefusedAt, decide_eq_true_eq, not_lt]
    exact_mod_cast this
  unfold Spec.project
  simp only [hd, ne_eq, not_true_eq_false, if_false, hany, Bool.false_eq_true]
  cases S.folded <;> simp

theorem projectAxes_folded (ms ns : List ℕ) (O : Spec) (h : O.folded = false) : (Spec.projectAxes O ms ns).folded = false := by
  rw [projectAxes_eq_range]
  generalize List.range ms.length = ks
  induction ks generalizing O with
  | nil => exact h
  | cons k ks ih =>
    simp only [List.foldl_cons]
    apply ih
    split_ifs
    · rfl
    · exact h

theorem rel_self_box (S : Spec) (hpos : ∀ s ∈ S.shape, 0 < s) :
    Rel S (box1 S.sampleSizes) S.getD (fun idx => S.getM idx = true) := by
  have := Rel.self S
  rwa [← all_pos_shape hpos] at this

theorem shape_eq_box (S : Spec) (hpos : ∀ s ∈ S.shape, 0 < s) : S.shape = box1 S.sampleSizes :=
  (all_pos_shape hpos).symm

theorem _root_.DadiVerif.InBox.inBox {sh idx : List ℕ} (h : InBox sh idx) : inBox sh idx := (inBox_iff _ _).mpr h

/-! ### totals -/

theorem PAx_shift (k m n : ℕ) (f : List ℕ → ℚ) (i0 : ℕ) :
    (fun r => PAx (k + 1) m n f (i0 :: r)) = PAx k m n (fun r => f (i0 :: r)) := by
  funext r
  simp [PAx]

/-- one projected axis conserves the sum over the box -/
theorem sumBox_PAx (m n : ℕ) (hm : m ≤ n) : ∀ (sh : List ℕ) (k : ℕ) (f : List ℕ → ℚ), k < sh.length → sh.getD k 0 = n + 1 →
    sumBox (sh.set k (m + 1)) (PAx k m n f) = sumBox sh f
  | [], _, _, h, _ => by simp at h
  | s :: ss, 0, f, _, hs => by
      have hs' : s = n + 1 := by simpa using hs
      subst hs'
      simp only [List.set_cons_zero, sumBox, PAx, List.getD_cons_zero]
      have e : ∀ j ∈ range (m + 1), sumBox ss (fun r => ∑ i ∈ range (n + 1), f (i :: r) * hyp m n i j)
          = ∑ i ∈ range (n + 1), sumBox ss (fun r => f (i :: r)) * hyp m n i j := by
        intro j _
        rw [sumBox_sum]
        exact Finset.sum_congr rfl (fun i _ => sumBox_mul_right ss _ _)
      rw [Finset.sum_congr rfl e, Finset.sum_comm]
      refine Finset.sum_congr rfl (fun i hi => ?_)
      rw [← Finset.mul_sum, hyp_rowsum m n i hm (by simp at hi; omega), mul_one]
  | s :: ss, k + 1, f, hk, hs => by
      simp only [List.set_cons_succ, sumBox]
      refine Finset.sum_congr rfl (fun i0 _ => ?_)
      rw [PAx_shift]
      exact sumBox_PAx m n hm ss k _ (by simpa using hk) (by simpa using hs)

theorem projectAxis_total (S : Spec) (ax m : ℕ) (hax : ax < S.shape.length) (hpos : 0 < S.shape.getD ax 0)
    (hm : m ≤ S.shape.getD ax 1 - 1) : (S.projectAxis ax m).total = S.total := by
  have hn : S.shape.getD ax 0 = (S.shape.getD ax 1 - 1) + 1 := by rw [getD_one_eq_zero hax]; omega
  have hR := projectAxis_rel (Rel.self S) ax m _ hax hn hm
  rw [hR.total, sumBox_PAx m _ hm S.shape ax S.getD hax hn, total_eq_sumBox]

theorem projectAxes_total {O : Spec} (ms ns : List ℕ) (hsh : O.shape = box1 ns) (hlen : ms.length = ns.length)
    (hle : ∀ k, k < ns.length → ms.getD k 0 ≤ ns.getD k 0) : (Spec.projectAxes O ms ns).total = O.total := by
  have hR : Rel O (box1 ns) O.getD (fun idx => O.getM idx = true) := by
    have := Rel.self O
    rwa [hsh] at this
  rw [(projectAxes_rel ms ns hR hlen hle).total, closedF_total (LeL_of_getD ms ns hlen hle), total_eq_sumBox, hsh]

theorem project_total {S P : Spec} {ns : List ℕ} (hpos : ∀ s ∈ S.shape, 0 < s) (h : S.project ns = .ok P) :
    P.total = S.total := by
  obtain ⟨hl, hup, hP⟩ := project_ok h
  have hsl := sampleSizes_length S
  rw [hP]
  cases hf : S.folded
  · simp only [Bool.false_eq_true, if_false]
    exact projectAxes_total ns S.sampleSizes (shape_eq_box S hpos) (by omega) hup
  · simp only [if_true]
    rw [fold_total, projectAxes_total ns S.sampleSizes (by rw [unfold_shape]; exact shape_eq_box S hpos) (by omega) hup,
      unfold_total]

/-! ### two stages -/

theorem box1_sampleSizes {P : Spec} {ns : List ℕ} (h : P.shape = box1 ns) : P.sampleSizes = ns := by
  unfold Spec.sampleSizes
  rw [h, box1_pred]

theorem box1_pos (ns : List ℕ) : ∀ s ∈ box1 ns, 0 < s := by
  intro s hs
  simp only [box1, List.mem_map] at hs
  obtain ⟨a, _, rfl⟩ := hs
  omega

theorem leL_getD {ms ns : List ℕ} (h : LeL ms ns) : ms.length = ns.length ∧ ∀ k, k < ns.length → ms.getD k 0 ≤ ns.getD k 0 := by
  induction h with
  | nil => exact ⟨rfl, fun k hk => by simp at hk⟩
  | @cons m n ms ns hmn _ ih =>
    refine ⟨by simp [ih.1], fun k hk => ?_⟩
    cases k with
    | zero => simpa using hmn
    | succ k => simpa using ih.2 k (by simpa using hk)

theorem LeL.trans {ks ms ns : List ℕ} (h1 : LeL ks ms) (h2 : LeL ms ns) : LeL ks ns := by
  obtain ⟨l1, g1⟩ := leL_getD h1
  obtain ⟨l2, g2⟩ := leL_getD h2
  exact LeL_of_getD ks ns (by omega) (fun k hk => le_trans (g1 k (by omega)) (g2 k hk))

/-- two stages on an unfolded spectrum described by (f, G): the description of the one-stage projection -/
theorem two_stage_rel {O : Spec} {f : List ℕ → ℚ} {G : List ℕ → Prop} (ks ms ns : List ℕ) (hR : Rel O (box1 ns) f G)
    (h1 : LeL ks ms) (h2 : LeL ms ns) :
    Rel (Spec.projectAxes (Spec.projectAxes O ms ns) ks ms) (box1 ks) (closedF ks ns f) (closedM ks ns G) := by
  obtain ⟨l1, g1⟩ := leL_getD h1
  obtain ⟨l2, g2⟩ := leL_getD h2
  have hA := projectAxes_rel ms ns hR l2 g2
  have hB := projectAxes_rel ks ms hA l1 g1
  exact hB.congr (fun idx hb => closedF_compose h1 h2 f idx hb.inBox) (fun idx hb => closedM_compose h1 h2 G idx hb.inBox)

/-! ### fold ∘ project -/

theorem fold_def (S : Spec) : ∃ (fD : List ℕ → ℚ) (fM : List ℕ → Bool), S.fold = Spec.ofFn S.shape fD fM true := by
  unfold Spec.fold
  exact ⟨_, _, rfl⟩

/-- two folds with the same description are the same spectrum -/
theorem fold_eq_of_fold_rel {A B : Spec} {sh : List ℕ} {F : List ℕ → ℚ} {G : List ℕ → Prop}
    (hA : Rel A.fold sh F G) (hB : Rel B.fold sh F G) : A.fold = B.fold := by
  obtain ⟨hs, hall⟩ := hA.agree hB
  obtain ⟨fA, gA, eA⟩ := fold_def A
  obtain ⟨fB, gB, eB⟩ := fold_def B
  have hsA : A.shape = sh := hA.shape
  have hsB : B.shape = sh := hB.shape
  rw [eA, eB, hsA, hsB] at hall
  rw [eA, eB, hsA, hsB]
  apply Spec.ofFn_congr
  intro idx hbox
  have := hall idx hbox
  rwa [Spec.ofFn_getD _ _ _ _ idx hbox, Spec.ofFn_getD _ _ _ _ idx hbox, Spec.ofFn_getM _ _ _ _ idx hbox,
    Spec.ofFn_getM _ _ _ _ idx hbox] at this

/-- fold ∘ project ∘ unfold ∘ fold = fold ∘ project, on descriptions -/
theorem fold_project_unfold_fold {O : Spec} {f : List ℕ → ℚ} {G : List ℕ → Prop} (ms ns : List ℕ)
    (hR : Rel O (box1 ns) f G) (h : LeL ms ns) :
    (Spec.projectAxes O.fold.unfold ms ns).fold = (Spec.projectAxes O ms ns).fold := by
  obtain ⟨l, g⟩ := leL_getD h
  have hY := unfold_fold_rel hR
  have hA := fold_rel (projectAxes_rel ms ns hY l g)
  have hB := fold_rel (projectAxes_rel ms ns hR l g)
  refine fold_eq_of_fold_rel (hA.congr ?_ ?_) hB
  · intro idx hbox
    have hb := hbox.inBox
    have hloc := loc_box hbox
    refine (Fold.sfold_congr (closedF_sym h f idx hb) ?_).trans (sfold_of_sym (closedF ms ns f) hloc)
    rw [closedF_sym h f _ hbox.rev.inBox]
  · intro idx hbox
    have hb := hbox.inBox
    have hbr := hbox.rev.inBox
    have e : ∀ t, inBox (box1 ms) t →
        (closedM ms ns (fun idx => G idx ∨ G (Spec.revIdx (box1 ns) idx) ∨ Spec.isCorner (box1 ns) idx = true) t
          ↔ closedM ms ns G t ∨ closedM ms ns G (Spec.revIdx (box1 ms) t) ∨ Spec.isCorner (box1 ms) t = true) := by
      intro t ht
      rw [closedM_or, closedM_or, closedM_mirror h G t ht, closedM_corner h t ht]
    simp only [foldG]
    rw [e idx hb, e _ hbr, hbox.invol, isCorner_rev hbox]
    tauto

/-- fold ∘ project ∘ mirror = fold ∘ project, on descriptions -/
theorem fold_project_mirror {O : Spec} {f : List ℕ → ℚ} {G : List ℕ → Prop} (ms ns : List ℕ)
    (hR : Rel O (box1 ns) f G) (h : LeL ms ns) :
    (Spec.projectAxes O.mirror ms ns).fold = (Spec.projectAxes O ms ns).fold := by
  obtain ⟨l, g⟩ := leL_getD h
  have hA := fold_rel (projectAxes_rel ms ns (mirror_rel hR) l g)
  have hB := fold_rel (projectAxes_rel ms ns hR l g)
  refine fold_eq_of_fold_rel (hA.congr ?_ ?_) hB
  · intro idx hbox
    have hloc := loc_box hbox
    have e := Fold.sfold_mirror_arg (closedF ms ns f) hloc
    rw [← e]
    exact Fold.sfold_congr (closedF_mirror h f idx hbox.inBox) (closedF_mirror h f _ hbox.rev.inBox)
  · intro idx hbox
    simp only [foldG]
    rw [closedM_mirror h G idx hbox.inBox, closedM_mirror h G _ hbox.rev.inBox, hbox.invol]
    tauto

/-- projecting the mirrored spectrum gives the mirrored projection, on descriptions -/
theorem project_mirror_rel {O : Spec} {f : List ℕ → ℚ} {G : List ℕ → Prop} (ms ns : List ℕ)
    (hR : Rel O (box1 ns) f G) (h : LeL ms ns) :
    Rel (Spec.projectAxes O.mirror ms ns) (box1 ms) (fun idx => closedF ms ns f (Spec.revIdx (box1 ms) idx))
      (fun idx => closedM ms ns G (Spec.revIdx (box1 ms) idx)) := by
  obtain ⟨l, g⟩ := leL_getD h
  exact (projectAxes_rel ms ns (mirror_rel hR) l g).congr
    (fun idx hb => closedF_mirror h f idx hb.inBox) (fun idx hb => closedM_mirror h G idx hb.inBox)

/-! ### assembled statements -/

/-- two stages = one stage, for folded and unfolded spectra -/
theorem compose_array {S P1 P12 : Spec} {ns1 ns2 : List ℕ} (hpos : ∀ s ∈ S.shape, 0 < s)
    (h1 : S.project ns1 = .ok P1) (h12 : P1.project ns2 = .ok P12) :
    ∃ P2, S.project ns2 = .ok P2 ∧ P12.shape = P2.shape ∧ P12.folded = P2.folded ∧
      ∀ idx, InBox P2.shape idx → P12.getD idx = P2.getD idx ∧ P12.getM idx = P2.getM idx := by
  obtain ⟨l1, up1, hP1⟩ := project_ok h1
  obtain ⟨l12, up12, hP12⟩ := project_ok h12
  have hsl := sampleSizes_length S
  have hL1 : LeL ns1 S.sampleSizes := LeL_of_getD _ _ (by omega) up1
  cases hf : S.folded
  · -- unfolded
    rw [hf] at hP1
    simp only [Bool.false_eq_true, if_false] at hP1
    have hR := rel_self_box S hpos
    have hRP1 := projectAxes_rel ns1 S.sampleSizes hR (by omega) up1
    rw [← hP1] at hRP1
    have hss : P1.sampleSizes = ns1 := box1_sampleSizes hRP1.shape
    have hfl1 : P1.folded = false := by rw [hP1]; exact projectAxes_folded _ _ S hf
    rw [hfl1, hss] at hP12
    simp only [Bool.false_eq_true, if_false] at hP12
    have hL2 : LeL ns2 ns1 := by
      rw [hss] at up12
      exact LeL_of_getD _ _ (by rw [l12, hRP1.shape, box1_length]) up12
    obtain ⟨l3, g3⟩ := leL_getD (hL2.trans hL1)
    refine ⟨Spec.projectAxes S ns2 S.sampleSizes, ?_, ?_⟩
    · rw [project_eq_ok S ns2 (by omega) g3, hf]; rfl
    · have hA := two_stage_rel ns2 ns1 S.sampleSizes hR hL2 hL1
      rw [← hP1, ← hP12] at hA
      have hB := projectAxes_rel ns2 S.sampleSizes hR l3 g3
      obtain ⟨e1, e2⟩ := hA.agree hB
      refine ⟨e1, ?_, fun idx hb => e2 idx (by rw [← hB.shape]; exact hb)⟩
      rw [hP12, projectAxes_folded _ _ P1 hfl1, projectAxes_folded _ _ S hf]
  · -- folded: through fold ∘ project ∘ unfold ∘ fold = fold ∘ project
    rw [hf] at hP1
    simp only [if_true] at hP1
    have hU : Rel S.unfold (box1 S.sampleSizes) S.unfold.getD (fun idx => S.unfold.getM idx = true) := by
      have := Rel.self S.unfold
      rwa [unfold_shape, shape_eq_box S hpos] at this
    have hX := projectAxes_rel ns1 S.sampleSizes hU (by omega) up1
    have hsh1 : P1.shape = box1 ns1 := by rw [hP1, fold_shape]; exact hX.shape
    have hss : P1.sampleSizes = ns1 := box1_sampleSizes hsh1
    have hfl1 : P1.folded = true := by rw [hP1]; rfl
    rw [hfl1, hss] at hP12
    simp only [if_true] at hP12
    have hL2 : LeL ns2 ns1 := by
      rw [hss] at up12
      exact LeL_of_getD _ _ (by rw [l12, hsh1, box1_length]) up12
    obtain ⟨l3, g3⟩ := leL_getD (hL2.trans hL1)
    refine ⟨(Spec.projectAxes S.unfold ns2 S.sampleSizes).fold, ?_, ?_⟩
    · rw [project_eq_ok S ns2 (by omega) g3, hf]; rfl
    · have e : P12 = (Spec.projectAxes S.unfold ns2 S.sampleSizes).fold := by
        rw [hP12, hP1, fold_project_unfold_fold ns2 ns1 hX hL2]
        exact fold_eq_of_rel (two_stage_rel ns2 ns1 S.sampleSizes hU hL2 hL1) (projectAxes_rel ns2 S.sampleSizes hU l3 g3)
      rw [e]
      exact ⟨rfl, rfl, fun _ _ => ⟨rfl, rfl⟩⟩

/-- `_project_one_axis` on two different axes commutes, entry by entry, in any dimension -/
theorem axes_commute_array (S : Spec) (a b m₁ m₂ : ℕ) (hab : a ≠ b) (ha : a < S.shape.length) (hb : b < S.shape.length)
    (hpa : 0 < S.shape.getD a 0) (hpb : 0 < S.shape.getD b 0)
    (h₁ : m₁ ≤ S.shape.getD a 1 - 1) (h₂ : m₂ ≤ S.shape.getD b 1 - 1) :
    ((S.projectAxis a m₁).projectAxis b m₂).shape = ((S.projectAxis b m₂).projectAxis a m₁).shape ∧
    ∀ idx, InBox ((S.projectAxis a m₁).projectAxis b m₂).shape idx →
      ((S.projectAxis a m₁).projectAxis b m₂).getD idx = ((S.projectAxis b m₂).projectAxis a m₁).getD idx ∧
      ((S.projectAxis a m₁).projectAxis b m₂).getM idx = ((S.projectAxis b m₂).projectAxis a m₁).getM idx := by
  have hna : S.shape.getD a 0 = (S.shape.getD a 1 - 1) + 1 := by rw [getD_one_eq_zero ha]; omega
  have hnb : S.shape.getD b 0 = (S.shape.getD b 1 - 1) + 1 := by rw [getD_one_eq_zero hb]; omega
  have RA1 := projectAxis_rel (Rel.self S) a m₁ _ ha hna h₁
  have RA2 := projectAxis_rel RA1 b m₂ _ (by simpa using hb) (by rw [getD_set_ne hab]; exact hnb) h₂
  have RB1 := projectAxis_rel (Rel.self S) b m₂ _ hb hnb h₂
  have RB2 := projectAxis_rel RB1 a m₁ _ (by simpa using ha) (by rw [getD_set_ne hab.symm]; exact hna) h₁
  rw [List.set_comm _ _ hab.symm, ← PAx_comm a b _ _ _ _ hab] at RB2
  have RB3 := RB2.congr (fun _ _ => rfl) (fun idx _ => (MAx_comm a b _ _ _ _ hab _ idx).symm)
  obtain ⟨e1, e2⟩ := RA2.agree RB3
  exact ⟨e1, fun idx hbx => e2 idx (by rw [← RA2.shape]; exact hbx)⟩

end PBox
end DadiVerif
