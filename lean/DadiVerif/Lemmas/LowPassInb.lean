import DadiVerif.Lemmas.LowPassPart
/-! C18 helper lemmas, part 6: the inbreeding (beta-binomial) genotype probabilities in closed form and their
    F → 0 limit. -/
set_option linter.unusedSimpArgs false
namespace DadiVerif.LowPass
open Finset

/-- the un-normalised partition weight as a polynomial in F -/
def polyWeight (g : List ℕ) (F : ℚ) : ℚ :=
  (fact g.length : ℚ) / ((fact (g.count 0) : ℚ) * (fact (g.count 1) : ℚ) * (fact (g.count 2) : ℚ))
    * g00 (pOf g) F ^ (g.count 0) * g01 (pOf g) F ^ (g.count 1) * g11 (pOf g) F ^ (g.count 2)

/-- for 0 < F < 1 the code's weight (beta-binomial through α, β → ∞ as F → 0) *is* the polynomial -/
theorem inbWeightOf_poly (g : List ℕ) (hguard : g.sum ≠ 0 ∧ g.sum ≠ 2 * g.length)
    (F : ℚ) (hF0 : 0 < F) (hF1 : F < 1) : inbWeightOf g F = polyWeight g F := by
  obtain ⟨e0, e1, e2⟩ := inbP_closed (pOf g) F hF0.ne' hF1.ne
  rw [inbWeightOf_eq g F hguard, e0, e1, e2, polyWeight]

/-- at F = 0 the polynomial is the Hardy–Weinberg weight: ways · p^x (1−p)^(2n−x) -/
theorem polyWeight_zero (g : List ℕ) (hb : ∀ v ∈ g, v ≤ 2) :
    polyWeight g 0 = waysOf g * (pOf g ^ g.sum * (1 - pOf g) ^ (2 * g.length - g.sum)) := by
  have hs := sum_eq_counts g hb
  have hl := length_eq_counts g hb
  have e : 2 * g.length - g.sum = 2 * g.count 0 + g.count 1 := by omega
  rw [waysOf_eq, polyWeight, e, hs, hl]
  unfold g00 g01 g11 multinom3
  simp only [zero_mul, add_zero, sub_zero, mul_one]
  simp only [mul_pow, pow_add, pow_mul]
  ring

/-- **F → 0**: normalising the polynomial weights at F = 0 gives exactly the F = 0 branch's probabilities
    (the common factor p^x (1−p)^(2n−x) cancels) -/
theorem poly_limit_eq (x n : ℕ) (hx0 : 0 < x) (hx1 : x < 2 * n) (g : List ℕ) (hg : g ∈ part x n 0 2) :
    polyWeight g 0 / lsum ((part x n 0 2).map fun g' => polyWeight g' 0)
      = partWeight 0 g / lsum ((part x n 0 2).map (partWeight 0)) := by
  set κ : ℚ := ((x : ℚ) / ((2 * n : ℕ) : ℚ)) ^ x * (1 - (x : ℚ) / ((2 * n : ℕ) : ℚ)) ^ (2 * n - x) with hκ
  have hn : (0:ℚ) < ((2 * n : ℕ) : ℚ) := by exact_mod_cast (by omega : 0 < 2 * n)
  have hp0 : (0:ℚ) < (x : ℚ) / ((2 * n : ℕ) : ℚ) := div_pos (by exact_mod_cast hx0) hn
  have hp1 : (x : ℚ) / ((2 * n : ℕ) : ℚ) < 1 := by
    rw [div_lt_one hn]; exact_mod_cast hx1
  have hκpos : 0 < κ := by
    have : 0 < 1 - (x : ℚ) / ((2 * n : ℕ) : ℚ) := by linarith
    positivity
  have hw : ∀ g' ∈ part x n 0 2, polyWeight g' 0 = partWeight 0 g' * κ := by
    intro g' hg'
    obtain ⟨hl, hs, hb, hxc, _⟩ := part_facts hg'
    rw [polyWeight_zero g' hb, pOf_eq, hl, hs]
    have : (2 * g'.count 2 + g'.count 1 : ℕ) = x := by omega
    rw [this]
    simp [partWeight, hκ]
  rw [hw g hg, lsum_map_congr _ _ _ hw, lsum_map_mul_right]
  have htot := pw_total_pos x n (by omega) 0 (le_refl _) (by norm_num)
  field_simp

end DadiVerif.LowPass
