import DadiVerif.Lemmas.FromPhi
/-! C05 — d dimensions.  Everything is proved for an arbitrary list of line operators (one per axis) that are linear,
    read only the grid points they are given and (for totals / marginals) have a mass law; the concrete operators of the
    semi-analytic, direct and inbreeding paths are instances (end of this file).  Also: the tabulated array version run by
    the driver agrees with the pointwise definition entry by entry. -/
namespace DadiVerif.FromPhi
open Finset Gen.FromPhi

/-! ### tabulated arrays: `ofFn` followed by `get` inside the box -/

/-- `idx` is a valid multi-index of the box `shape` -/
def InBox (shape idx : List ℕ) : Prop := List.Forall₂ (fun i s => i < s) idx shape

theorem flatIdx_lt : ∀ (sh idx : List ℕ), InBox sh idx → flatIdx sh idx < prodL sh := by
  intro sh idx h
  induction h with
  | nil => simp [flatIdx, prodL]
  | @cons i s is ss his _ ih =>
    simp only [flatIdx, prodL]
    calc i * prodL ss + flatIdx ss is < i * prodL ss + prodL ss := by omega
      _ = (i + 1) * prodL ss := by ring
      _ ≤ s * prodL ss := Nat.mul_le_mul_right _ his

theorem unflat_flatIdx : ∀ (sh idx : List ℕ), InBox sh idx → unflat sh (flatIdx sh idx) = idx := by
  intro sh idx h
  induction h with
  | nil => simp [unflat]
  | @cons i s is ss his hrest ih =>
    have hr := flatIdx_lt ss is hrest
    have hP : 0 < prodL ss := by omega
    simp only [flatIdx, unflat]
    have e1 : (i * prodL ss + flatIdx ss is) / prodL ss = i := by
      rw [Nat.add_comm, Nat.add_mul_div_right _ _ hP, Nat.div_eq_of_lt hr, zero_add]
    have e2 : (i * prodL ss + flatIdx ss is) % prodL ss = flatIdx ss is := by
      rw [Nat.add_comm, Nat.add_mul_mod_self_right, Nat.mod_eq_of_lt hr]
    rw [e1, e2, ih]

theorem get_ofFn (sh : List ℕ) (f : List ℕ → ℚ) (idx : List ℕ) (h : InBox sh idx) : (ND.ofFn sh f).get idx = f idx := by
  have hlt := flatIdx_lt sh idx h
  simp [ND.get, ND.ofFn, Array.getD, hlt, unflat_flatIdx sh idx h]

/-! ### properties of a line operator -/

/-- reads the density only at the grid points it is given -/
def LineOp.Local (op : LineOp) : Prop :=
  ∀ f g : ℕ → ℚ, (∀ k, k < op.nIn → f k = g k) → ∀ i, op.app f i = op.app g i

def LineOp.Linear (op : LineOp) : Prop :=
  ∀ (a b : ℚ) (f g : ℕ → ℚ) (i : ℕ), op.app (fun k => a * f k + b * g k) i = a * op.app f i + b * op.app g i

/-- Σ over the outputs = Σ_k w_k f_k -/
def LineOp.Mass (op : LineOp) (w : ℕ → ℚ) : Prop :=
  ∀ f : ℕ → ℚ, ∑ i ∈ range op.nOut, op.app f i = ∑ k ∈ range op.nIn, w k * f k

theorem LineOp.Linear.zero {op : LineOp} (h : op.Linear) (i : ℕ) : op.app (fun _ => 0) i = 0 := by
  have := h 0 0 (fun _ => 0) (fun _ => 0) i
  simpa using this

theorem LineOp.Linear.sum {op : LineOp} (h : op.Linear) (m : ℕ) (c : ℕ → ℚ) (F : ℕ → ℕ → ℚ) (i : ℕ) :
    op.app (fun k => ∑ t ∈ range m, c t * F t k) i = ∑ t ∈ range m, c t * op.app (F t) i := by
  induction m with
  | zero => simpa using h.zero i
  | succ m ih =>
    have e : (fun k => ∑ t ∈ range (m+1), c t * F t k) = fun k => 1 * (∑ t ∈ range m, c t * F t k) + c m * F m k := by
      funext k; rw [Finset.sum_range_succ]; ring
    rw [e, h, ih, Finset.sum_range_succ]; ring

/-! ### `sampleND` -/

@[simp] theorem sampleND_nil (φ : List ℕ → ℚ) (idx : List ℕ) : sampleND [] φ idx = φ [] := rfl

@[simp] theorem sampleND_cons (op : LineOp) (rest : List LineOp) (φ : List ℕ → ℚ) (i : ℕ) (is : List ℕ) :
    sampleND (op :: rest) φ (i :: is) = op.app (fun k => sampleND rest (fun js => φ (k :: js)) is) i := rfl

theorem sampleND_congr (ops : List LineOp) (hL : ∀ op ∈ ops, op.Local) :
    ∀ (φ ψ : List ℕ → ℚ), (∀ js, InBox (ops.map (·.nIn)) js → φ js = ψ js) → ∀ idx, sampleND ops φ idx = sampleND ops ψ idx := by
  induction ops with
  | nil =>
    intro φ ψ h idx
    exact h [] List.Forall₂.nil
  | cons op rest ih =>
    intro φ ψ h idx
    unfold sampleND
    apply hL op (List.mem_cons_self ..)
    intro k hk
    apply ih (fun o ho => hL o (List.mem_cons_of_mem _ ho))
    intro js hjs
    exact h (k :: js) (List.Forall₂.cons hk hjs)

/-- the array version run by the driver is the pointwise definition -/
theorem sampleFast_get (ops : List LineOp) (hL : ∀ op ∈ ops, op.Local) :
    ∀ (T : ND), T.shape = ops.map (·.nIn) → ∀ idx, InBox (ops.map (·.nOut)) idx →
      (sampleFast ops T).get idx = sampleND ops T.get idx := by
  induction ops with
  | nil =>
    intro T _ idx hidx
    cases hidx
    rfl
  | cons op rest ih =>
    intro T hs idx hidx
    have hL' : ∀ o ∈ rest, o.Local := fun o ho => hL o (List.mem_cons_of_mem _ ho)
    cases hidx with
    | @cons i _ is _ hi his =>
      unfold sampleFast
      rw [get_ofFn _ _ _ (List.Forall₂.cons hi his)]
      simp only [List.tail_cons, List.headD_cons, sampleND_cons]
      apply hL op (List.mem_cons_self ..)
      intro k hk
      have hsub : (Array.ofFn (n := op.nIn) fun k => sampleFast rest (slice T k.val)).getD k ⟨[], #[]⟩
          = sampleFast rest (slice T k) := by
        simp [Array.getD, hk]
      rw [hsub]
      have hshape : (slice T k).shape = rest.map (·.nIn) := by
        simp [slice, ND.ofFn, hs]
      rw [ih hL' (slice T k) hshape is his]
      apply sampleND_congr rest hL'
      intro js hjs
      unfold slice
      rw [get_ofFn]
      rw [hs]; simpa using hjs

theorem sampleND_linear (ops : List LineOp) (hlin : ∀ op ∈ ops, op.Linear) :
    ∀ (a b : ℚ) (φ ψ : List ℕ → ℚ) (idx : List ℕ),
      sampleND ops (fun js => a * φ js + b * ψ js) idx = a * sampleND ops φ idx + b * sampleND ops ψ idx := by
  induction ops with
  | nil => intro a b φ ψ idx; rfl
  | cons op rest ih =>
    intro a b φ ψ idx
    unfold sampleND
    have e : (fun k => sampleND rest (fun js => a * φ (k :: js) + b * ψ (k :: js)) idx.tail)
        = fun k => a * sampleND rest (fun js => φ (k :: js)) idx.tail + b * sampleND rest (fun js => ψ (k :: js)) idx.tail := by
      funext k
      exact ih (fun o ho => hlin o (List.mem_cons_of_mem _ ho)) a b _ _ _
    rw [e]
    exact hlin op (List.mem_cons_self ..) a b _ _ _

theorem sampleND_sum (ops : List LineOp) (hlin : ∀ op ∈ ops, op.Linear) (m : ℕ) (c : ℕ → ℚ)
    (Φ : ℕ → List ℕ → ℚ) (idx : List ℕ) :
    sampleND ops (fun js => ∑ t ∈ range m, c t * Φ t js) idx = ∑ t ∈ range m, c t * sampleND ops (Φ t) idx := by
  induction m with
  | zero =>
    have := sampleND_linear ops hlin 0 0 (fun _ => 0) (fun _ => 0) idx
    simpa using this
  | succ m ih =>
    have e : (fun js => ∑ t ∈ range (m+1), c t * Φ t js) = fun js => 1 * (∑ t ∈ range m, c t * Φ t js) + c m * Φ m js := by
      funext js; rw [Finset.sum_range_succ]; ring
    rw [e, sampleND_linear ops hlin, ih, Finset.sum_range_succ]; ring

/-! ### totals -/

/-- Σ over a box of multi-indices -/
def boxSum : List ℕ → (List ℕ → ℚ) → ℚ
  | [], f => f []
  | s :: ss, f => ∑ i ∈ range s, boxSum ss (fun is => f (i :: is))

/-- Σ over a box with product weights -/
def wSum : List (ℕ × (ℕ → ℚ)) → (List ℕ → ℚ) → ℚ
  | [], f => f []
  | (N, w) :: r, f => ∑ k ∈ range N, w k * wSum r (fun ks => f (k :: ks))

theorem boxSum_congr (sh : List ℕ) : ∀ (f g : List ℕ → ℚ), (∀ is, f is = g is) → boxSum sh f = boxSum sh g := by
  intro f g h
  have : f = g := funext h
  rw [this]

/-- total of the spectrum = weighted total of the density, whatever the (mass-law) operators -/
theorem sampleND_total : ∀ (ops : List LineOp) (ws : List (ℕ → ℚ)), ops.length = ws.length →
    (∀ p ∈ ops.zip ws, p.1.Mass p.2) → ∀ φ : List ℕ → ℚ,
    boxSum (ops.map (·.nOut)) (sampleND ops φ) = wSum ((ops.map (·.nIn)).zip ws) φ := by
  intro ops
  induction ops with
  | nil =>
    intro ws hl _ φ
    cases ws with
    | nil => rfl
    | cons _ _ => simp at hl
  | cons op rest ih =>
    intro ws hl hm φ
    cases ws with
    | nil => simp at hl
    | cons w ws' =>
      simp only [List.map_cons, boxSum, List.zip_cons_cons, wSum, sampleND_cons]
      have hl' : rest.length = ws'.length := by simpa using hl
      have hm' : ∀ p ∈ rest.zip ws', p.1.Mass p.2 := fun p hp => hm p (by simp [hp])
      have hop : op.Mass w := hm (op, w) (by simp)
      -- push the sum over the remaining axes inside the first operator (it is a finite sum of applications)
      have key : ∀ (sh : List ℕ) (G : ℕ → List ℕ → ℚ),
          ∑ i ∈ range op.nOut, boxSum sh (fun is => op.app (fun k => G k is) i)
            = boxSum sh (fun is => ∑ i ∈ range op.nOut, op.app (fun k => G k is) i) := by
        intro sh
        induction sh with
        | nil => intro G; rfl
        | cons s ss ihs =>
          intro G
          simp only [boxSum]
          rw [Finset.sum_comm]
          exact Finset.sum_congr rfl fun j _ => ihs (fun k is => G k (j :: is))
      rw [key (rest.map (·.nOut)) (fun k is => sampleND rest (fun js => φ (k :: js)) is)]
      have h2 : ∀ is, ∑ i ∈ range op.nOut, op.app (fun k => sampleND rest (fun js => φ (k :: js)) is) i
          = ∑ k ∈ range op.nIn, w k * sampleND rest (fun js => φ (k :: js)) is := fun is => hop _
      rw [boxSum_congr _ _ _ h2]
      -- Σ_is Σ_k = Σ_k Σ_is
      have key2 : ∀ (sh : List ℕ) (N : ℕ) (u : ℕ → ℚ) (G : ℕ → List ℕ → ℚ),
          boxSum sh (fun is => ∑ k ∈ range N, u k * G k is) = ∑ k ∈ range N, u k * boxSum sh (G k) := by
        intro sh
        induction sh with
        | nil => intro N u G; rfl
        | cons s ss ihs =>
          intro N u G
          simp only [boxSum]
          rw [Finset.sum_congr rfl fun j _ => ihs N u (fun k is => G k (j :: is))]
          rw [Finset.sum_comm]
          exact Finset.sum_congr rfl fun k _ => by rw [Finset.mul_sum]
      rw [key2]
      exact Finset.sum_congr rfl fun k _ => by rw [ih ws' hl' hm']

/-! ### changing one axis: projection, marginalisation -/

/-- if the outputs of a replacement operator are a fixed linear combination of the outputs of the operator of axis `a`,
    the whole d-dimensional result is that linear combination along axis `a` -/
theorem sampleND_set : ∀ (ops : List LineOp), (∀ o ∈ ops, o.Linear) → ∀ (a : ℕ) (op op' : LineOp) (c : ℕ → ℕ → ℚ),
    ops[a]? = some op → (∀ f j, op'.app f j = ∑ i ∈ range op.nOut, c i j * op.app f i) →
    ∀ (φ : List ℕ → ℚ) (idx : List ℕ), a < idx.length →
    sampleND (ops.set a op') φ idx = ∑ i ∈ range op.nOut, c i (idx.getD a 0) * sampleND ops φ (idx.set a i) := by
  intro ops
  induction ops with
  | nil => intro _ a op op' c h; simp at h
  | cons o rest ih =>
    intro hlin a op op' c hget hrel φ idx ha
    cases idx with
    | nil => simp at ha
    | cons i0 is =>
      cases a with
      | zero =>
        simp only [List.getElem?_cons_zero, Option.some.injEq] at hget
        subst hget
        simp only [List.set_cons_zero, sampleND_cons, List.getD_cons_zero, hrel]
      | succ a =>
        simp only [List.getElem?_cons_succ] at hget
        have ha' : a < is.length := by simpa using ha
        simp only [List.set_cons_succ, sampleND_cons, List.getD_cons_succ]
        have e : (fun k => sampleND (rest.set a op') (fun js => φ (k :: js)) is)
            = fun k => ∑ i ∈ range op.nOut, c i (is.getD a 0) * sampleND rest (fun js => φ (k :: js)) (is.set a i) := by
          funext k
          exact ih (fun o' ho => hlin o' (List.mem_cons_of_mem _ ho)) a op op' c hget hrel _ is ha'
        rw [e]
        exact (hlin o (List.mem_cons_self ..)).sum op.nOut _ (fun i k => sampleND rest (fun js => φ (k :: js)) (is.set a i)) i0

/-- summing the spectrum over axis `a` = sampling the density integrated (with the operator's weights) over axis `a` -/
theorem sampleND_marginal : ∀ (ops : List LineOp), (∀ o ∈ ops, o.Linear) → ∀ (a : ℕ) (op : LineOp) (w : ℕ → ℚ),
    ops[a]? = some op → op.Mass w → ∀ (φ : List ℕ → ℚ) (idx : List ℕ), a < idx.length →
    ∑ i ∈ range op.nOut, sampleND ops φ (idx.set a i)
      = sampleND (ops.eraseIdx a) (fun js => ∑ k ∈ range op.nIn, w k * φ (js.insertIdx a k)) (idx.eraseIdx a) := by
  intro ops
  induction ops with
  | nil => intro _ a op w h; simp at h
  | cons o rest ih =>
    intro hlin a op w hget hmass φ idx ha
    have hlin' : ∀ o' ∈ rest, o'.Linear := fun o' ho => hlin o' (List.mem_cons_of_mem _ ho)
    cases idx with
    | nil => simp at ha
    | cons i0 is =>
      cases a with
      | zero =>
        simp only [List.getElem?_cons_zero, Option.some.injEq] at hget
        subst hget
        simp only [List.set_cons_zero, sampleND_cons, List.eraseIdx_cons_zero, List.insertIdx_zero]
        rw [hmass, sampleND_sum rest hlin']
      | succ a =>
        simp only [List.getElem?_cons_succ] at hget
        have ha' : a < is.length := by simpa using ha
        simp only [List.set_cons_succ, sampleND_cons, List.eraseIdx_cons_succ, List.insertIdx_succ_cons]
        have hs := (hlin o (List.mem_cons_self ..)).sum op.nOut (fun _ => 1)
          (fun i k => sampleND rest (fun js => φ (k :: js)) (is.set a i)) i0
        simp only [one_mul] at hs
        rw [← hs]
        congr 1
        funext k
        exact ih hlin' a op w hget hmass _ is ha'

/-! ### the trapezoid rule as node weights -/

/-- node weights of numpy `trapz` on N grid points -/
def tw (N : ℕ) (x : ℕ → ℚ) (k : ℕ) : ℚ :=
  (if k + 1 < N then (x (k+1) - x k) / 2 else 0) + (if 0 < k ∧ k < N then (x k - x (k-1)) / 2 else 0)

theorem trapz_eq_nodes (N : ℕ) (x f : ℕ → ℚ) : trapz N x f = ∑ k ∈ range N, tw N x k * f k := by
  unfold trapz
  rw [sumRange_eq]
  cases N with
  | zero => simp
  | succ M =>
    simp only [Nat.add_sub_cancel, tw, add_mul, Finset.sum_add_distrib]
    have h1 : ∑ k ∈ range (M+1), (if k + 1 < M + 1 then (x (k+1) - x k) / 2 else 0) * f k
        = ∑ k ∈ range M, (x (k+1) - x k) / 2 * f k := by
      rw [Finset.sum_range_succ]
      simp only [lt_self_iff_false, if_false, zero_mul, add_zero]
      refine Finset.sum_congr rfl fun k hk => ?_
      have : k + 1 < M + 1 := by have := mem_range.mp hk; omega
      simp [this]
    have h2 : ∑ k ∈ range (M+1), (if 0 < k ∧ k < M + 1 then (x k - x (k-1)) / 2 else 0) * f k
        = ∑ k ∈ range M, (x (k+1) - x k) / 2 * f (k+1) := by
      rw [Finset.sum_range_succ']
      simp only [lt_self_iff_false, false_and, if_false, zero_mul, add_zero]
      refine Finset.sum_congr rfl fun k hk => ?_
      have : 0 < k + 1 ∧ k + 1 < M + 1 := by have := mem_range.mp hk; omega
      simp [this]
    rw [h1, h2, ← Finset.sum_add_distrib]
    exact Finset.sum_congr rfl fun k _ => by ring

theorem trapzAt_eq (dim a N : ℕ) (x f : ℕ → ℚ) : trapzAt dim a N x f = trapz N x f := by
  unfold trapzAt trapz3 trapz4 trapz
  split_ifs <;> simp only [trapTerm3, halfDx3, trapTerm4, halfDx4, sumRange_eq] <;>
    exact Finset.sum_congr rfl fun k _ => by ring

theorem trapz_congr (N : ℕ) (x f g : ℕ → ℚ) (h : ∀ k, k < N → f k = g k) : trapz N x f = trapz N x g := by
  rw [trapz_eq_nodes, trapz_eq_nodes]
  exact Finset.sum_congr rfl fun k hk => by rw [h k (mem_range.mp hk)]

/-! ### sampling probabilities sum to one -/

theorem bern_sum (n : ℕ) (x : ℚ) : ∑ i ∈ range (n+1), bern n i x = 1 := by
  have := congrArg (fun P : Polynomial ℚ => P.eval x) (bernsteinPolynomial.sum ℚ n)
  simp only [Polynomial.eval_finsetSum, Polynomial.eval_one] at this
  rw [← this]
  exact Finset.sum_congr rfl fun i _ => bern_eq_eval n i x

/-- (dimension, axis) pairs for which a direct function exists -/
def ValidAxis (dim a : ℕ) : Prop := 1 ≤ dim ∧ dim ≤ 4 ∧ a < dim

theorem directFactor_eq (dim a : ℕ) (h : ValidAxis dim a) (n i : ℕ) (x : ℚ) : directFactor dim a n i x = bern n i x := by
  obtain ⟨h1, h4, ha⟩ := h
  have hd : dim = 1 ∨ dim = 2 ∨ dim = 3 ∨ dim = 4 := by omega
  rcases hd with rfl | rfl | rfl | rfl
  · have : a = 0 := by omega
    subst this; simp only [directFactor, bern]
  · have : a = 0 ∨ a = 1 := by omega
    rcases this with rfl | rfl <;> simp only [directFactor, bern]
  · have : a = 0 ∨ a = 1 ∨ a = 2 := by omega
    rcases this with rfl | rfl | rfl <;> simp only [directFactor, bern]
  · have : a = 0 ∨ a = 1 ∨ a = 2 ∨ a = 3 := by omega
    rcases this with rfl | rfl | rfl | rfl <;> simp only [directFactor, bern]

theorem hetFactor_eq (dim a : ℕ) (h : ValidAxis dim a) (x : ℚ) : hetFactor dim a x = x * (1 - x) := by
  obtain ⟨h1, h4, ha⟩ := h
  have hd : dim = 1 ∨ dim = 2 ∨ dim = 3 ∨ dim = 4 := by omega
  rcases hd with rfl | rfl | rfl | rfl
  · have : a = 0 := by omega
    subst this; simp only [hetFactor]
  · have : a = 0 ∨ a = 1 := by omega
    rcases this with rfl | rfl <;> simp only [hetFactor]
  · have : a = 0 ∨ a = 1 ∨ a = 2 := by omega
    rcases this with rfl | rfl | rfl <;> simp only [hetFactor]
  · have : a = 0 ∨ a = 1 ∨ a = 2 ∨ a = 3 := by omega
    rcases this with rfl | rfl | rfl | rfl <;> simp only [hetFactor]

/-- ascertainment multiplier of the direct path as a number (1 without ascertainment) -/
def hetMult (het : Bool) (x : ℚ) : ℚ := if het then x * (1 - x) else 1

theorem directWeight_eq (dim a : ℕ) (h : ValidAxis dim a) (n : ℕ) (het : Bool) (xk : ℚ) (i : ℕ) :
    directWeight dim a n het xk i = bern n i xk * hetMult het xk := by
  unfold directWeight hetMult
  cases het <;> simp [directFactor_eq dim a h, hetFactor_eq dim a h]

theorem directWeight_sum (dim a : ℕ) (h : ValidAxis dim a) (n : ℕ) (het : Bool) (xk : ℚ) :
    ∑ i ∈ range (n+1), directWeight dim a n het xk i = hetMult het xk := by
  simp only [directWeight_eq dim a h, ← Finset.sum_mul, bern_sum, one_mul]

/-! ### the concrete operators -/

theorem directOp_app (dim a n N : ℕ) (het : Bool) (x φ : ℕ → ℚ) (i : ℕ) :
    (directOp dim a n N het x).app φ i = trapz N x (fun k => directWeight dim a n het (x k) i * φ k) := by
  simp only [directOp, directLine, trapzAt_eq]

theorem directOp_local (dim a n N : ℕ) (het : Bool) (x : ℕ → ℚ) : (directOp dim a n N het x).Local := by
  intro f g h i
  have h' : ∀ k, k < N → f k = g k := h
  rw [directOp_app, directOp_app]
  exact trapz_congr N x _ _ fun k hk => by rw [h' k hk]

theorem directOp_linear (dim a n N : ℕ) (het : Bool) (x : ℕ → ℚ) : (directOp dim a n N het x).Linear := by
  intro c d f g i
  simp only [directOp_app, trapz_eq_nodes, Finset.mul_sum, ← Finset.sum_add_distrib]
  exact Finset.sum_congr rfl fun k _ => by ring

/-- Σ_i (direct path) = trapezoid of (ascertainment multiplier · density) -/
theorem directOp_mass (dim a n N : ℕ) (h : ValidAxis dim a) (het : Bool) (x : ℕ → ℚ) :
    (directOp dim a n N het x).Mass (fun k => tw N x k * hetMult het (x k)) := by
  intro f
  show ∑ i ∈ range (n+1), (directOp dim a n N het x).app f i = ∑ k ∈ range N, _
  simp only [directOp_app, trapz_eq_nodes]
  rw [Finset.sum_comm]
  refine Finset.sum_congr rfl fun k _ => ?_
  rw [← Finset.mul_sum]
  have : ∑ i ∈ range (n+1), directWeight dim a n het (x k) i * f k = hetMult het (x k) * f k := by
    rw [← Finset.sum_mul, directWeight_sum dim a h]
  rw [this]; ring

theorem directOpFast_eq (dim a n N : ℕ) (het : Bool) (x : ℕ → ℚ) : directOpFast dim a n N het x = directOp dim a n N het x := by
  simp only [directOpFast, directOp, tabGetF_memoTab]
  rfl

theorem inbOp_app (dim a n P N : ℕ) (F : ℚ) (het : Bool) (x φ : ℕ → ℚ) (i : ℕ) :
    (inbOp dim a n P N F het x).app φ i = trapz N x (fun k => inbWeight dim a n P N F het x k i * φ k) := by
  simp only [inbOp, inbLine, trapzAt_eq]

theorem inbOp_local (dim a n P N : ℕ) (F : ℚ) (het : Bool) (x : ℕ → ℚ) : (inbOp dim a n P N F het x).Local := by
  intro f g h i
  have h' : ∀ k, k < N → f k = g k := h
  rw [inbOp_app, inbOp_app]
  exact trapz_congr N x _ _ fun k hk => by rw [h' k hk]

theorem inbOp_linear (dim a n P N : ℕ) (F : ℚ) (het : Bool) (x : ℕ → ℚ) : (inbOp dim a n P N F het x).Linear := by
  intro c d f g i
  simp only [inbOp_app, trapz_eq_nodes, Finset.mul_sum, ← Finset.sum_add_distrib]
  exact Finset.sum_congr rfl fun k _ => by ring

theorem inbOpFast_eq (dim a n P N : ℕ) (F : ℚ) (het : Bool) (x : ℕ → ℚ) :
    inbOpFast dim a n P N F het x = inbOp dim a n P N F het x := by
  simp only [inbOpFast, inbOp, tabGetF_memoTab]
  rfl

theorem analyticOp_app (a n N : ℕ) (ha : a < 5) (x φ : ℕ → ℚ) (d : ℕ) :
    (analyticOp a n N x).app φ d = ∑ k ∈ range (N - 1), entryG n d x (fun k => clamp (x k)) φ k :=
  linalgLine_eq a n N ha x φ d

theorem analyticOpFast_eq (a n N : ℕ) (x : ℕ → ℚ) : analyticOpFast a n N x = analyticOp a n N x := by
  simp only [analyticOpFast, analyticOp, tabGetF_memoTab]

theorem entryG_congr (n d : ℕ) (xs xb f g : ℕ → ℚ) (k : ℕ) (h0 : f k = g k) (h1 : f (k+1) = g (k+1)) :
    entryG n d xs xb f k = entryG n d xs xb g k := by
  simp only [entryG, h0, h1]

theorem analyticOp_local (a n N : ℕ) (ha : a < 5) (x : ℕ → ℚ) : (analyticOp a n N x).Local := by
  intro f g h i
  have h' : ∀ k, k < N → f k = g k := h
  rw [analyticOp_app a n N ha, analyticOp_app a n N ha]
  refine Finset.sum_congr rfl fun k hk => ?_
  have hk' : k < N - 1 := mem_range.mp hk
  exact entryG_congr n i x _ f g k (h' k (by omega)) (h' (k+1) (by omega))

theorem entryG_linear (n d : ℕ) (xs xb f g : ℕ → ℚ) (c e : ℚ) (k : ℕ) :
    entryG n d xs xb (fun k => c * f k + e * g k) k = c * entryG n d xs xb f k + e * entryG n d xs xb g k := by
  simp only [entryG, c1, c2, s]
  ring

theorem analyticOp_linear (a n N : ℕ) (ha : a < 5) (x : ℕ → ℚ) : (analyticOp a n N x).Linear := by
  intro c e f g i
  simp only [analyticOp_app a n N ha, entryG_linear, Finset.sum_add_distrib, Finset.mul_sum]

/-- Σ_d (semi-analytic path) = trapezoid of the density, for a grid inside [0,1] with distinct nodes -/
theorem analyticOp_mass (a n N : ℕ) (ha : a < 5) (x : ℕ → ℚ) (hx : ∀ k, clamp (x k) = x k)
    (hd : ∀ k, k + 1 < N → x (k+1) ≠ x k) : (analyticOp a n N x).Mass (tw N x) := by
  intro f
  show ∑ i ∈ range (n+1), (analyticOp a n N x).app f i = ∑ k ∈ range N, tw N x k * f k
  simp only [analyticOp_app a n N ha]
  rw [Finset.sum_comm, ← trapz_eq_nodes]
  unfold trapz
  rw [sumRange_eq]
  refine Finset.sum_congr rfl fun k hk => ?_
  have hk' : k < N - 1 := mem_range.mp hk
  have e : (fun k => clamp (x k)) = x := funext hx
  rw [e]
  exact entryG_sum_trapz n x f k (hd k (by omega))

/-- sample n then project the axis to m = sample m (the operators of one axis) -/
theorem analyticOp_project (a m n N : ℕ) (ha : a < 5) (hm : m ≤ n) (x f : ℕ → ℚ) (j : ℕ) (hj : j ≤ m) :
    (analyticOp a m N x).app f j = ∑ i ∈ range (n+1), hypW m n i j * (analyticOp a n N x).app f i := by
  simp only [analyticOp_app _ _ N ha, Finset.mul_sum]
  rw [Finset.sum_comm]
  refine Finset.sum_congr rfl fun k _ => ?_
  have hB : ∑ i ∈ range (n+1), Polynomial.C (hypW m n i j) * bernsteinPolynomial ℚ n i
      = ∑ j' ∈ range (m+1), Polynomial.C (if j' = j then (1 : ℚ) else 0) * bernsteinPolynomial ℚ m j' := by
    rw [bernstein_project m n j hm hj]
    rw [Finset.sum_eq_single j]
    · simp
    · intro b _ hb; simp [hb]
    · intro hn; exact absurd (mem_range.mpr (by omega)) hn
  have t := transfer_entry n m (fun i => hypW m n i j) (fun j' => if j' = j then 1 else 0) hB x (fun k => clamp (x k)) f k
  rw [t, Finset.sum_eq_single j]
  · simp
  · intro b _ hb; simp [hb]
  · intro hn; exact absurd (mem_range.mpr (by omega)) hn

end DadiVerif.FromPhi
