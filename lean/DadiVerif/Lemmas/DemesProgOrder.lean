import DadiVerif.Lemmas.DemesProgDict
/-! C16 (round 5) — the two orderings `_get_demographic_events` builds with Python containers: the integration intervals (`sorted` set of
    break points, reversed slices, `zip`) and the order in which demes are visited (`deme_start_times`: a dict keyed by start time, read in
    descending key order = the stable arrangement by descending start time). -/
namespace DadiVerif.DemesConv
open Gen.Demes

/-! ### break points and intervals -/

theorem foldl_append_flatMap {α β : Type} (f : α → List β) (l : List α) (init : List β) :
    l.foldl (fun acc x => acc ++ f x) init = init ++ l.flatMap f := by
  induction l generalizing init with
  | nil => simp
  | cons a t ih => simp [List.foldl_cons, ih, List.flatMap_cons, List.append_assoc]

theorem revDropFirst_reverse {α : Type} (s : List α) : pyRevDropFirst s.reverse = s.dropLast := by
  unfold pyRevDropFirst
  rw [List.drop_one, List.tail_reverse, List.reverse_reverse]

theorem revDropLast_reverse {α : Type} (s : List α) : pyRevDropLast s.reverse = s.tail := by
  unfold pyRevDropLast
  rw [List.dropLast_reverse, List.reverse_reverse]

theorem zip_dropLast_tail {α : Type} (s : List α) : List.zip s.dropLast s.tail = List.zip s s.tail := by
  induction s with
  | nil => rfl
  | cons a t ih =>
    cases t with
    | nil => rfl
    | cons b u =>
      simp only [List.dropLast_cons₂, List.tail_cons, List.zip_cons_cons] at ih ⊢
      rw [ih]

/-- `integration_times` of the source = `intervals` of the model -/
theorem integrationTimes_eq (bp : List ETime) :
    ((List.zip (pyRevDropFirst (pySortedSet bp)) (pyRevDropLast (pySortedSet bp))).map fun (x12 : ETime × ETime) => (x12.1, x12.2))
      = (sortDesc bp).zip (sortDesc bp).tail := by
  unfold pySortedSet
  rw [revDropFirst_reverse, revDropLast_reverse, zip_dropLast_tail]
  simp

/-- consecutive pairs of a strictly descending list are strictly descending (lexicographically) -/
theorem zip_tail_desc (s : List ETime) (h : DescT s) : (s.zip s.tail).Pairwise fun a b => ivw b < ivw a := by
  induction s with
  | nil => simp
  | cons a t ih =>
    cases t with
    | nil => simp
    | cons b u =>
      have ha := List.pairwise_cons.1 h
      simp only [List.tail_cons, List.zip_cons_cons]
      refine List.pairwise_cons.2 ⟨?_, ?_⟩
      · intro p hp
        have hp1 : p.1 ∈ b :: u := (List.of_mem_zip hp).1
        unfold ivw
        rw [Prod.Lex.toLex_lt_toLex]
        exact Or.inl (ha.1 p.1 hp1)
      · have := ih ha.2
        simpa using this

theorem mem_zip_tail_fst {s : List ETime} {p : ETime × ETime} (hp : p ∈ s.zip s.tail) : p.1 ∈ s := (List.of_mem_zip hp).1

/-! ### the order in which the demes are visited -/

/-- insertion after the last element whose key is not smaller (the step of `orderDemes`, on (key, value) pairs) -/
def insAfterGE {β : Type} (p : ETime × β) : List (ETime × β) → List (ETime × β)
  | [] => [p]
  | x :: xs => if tge x.1 p.1 then x :: insAfterGE p xs else p :: x :: xs

def stableDesc {β : Type} (l : List (ETime × β)) : List (ETime × β) := l.foldl (fun acc p => insAfterGE p acc) []

theorem insAfterGE_skip {β : Type} (p : ETime × β) (A B : List (ETime × β)) (hA : ∀ a ∈ A, tge a.1 p.1 = true) :
    insAfterGE p (A ++ B) = A ++ insAfterGE p B := by
  induction A with
  | nil => rfl
  | cons a t ih =>
    simp only [List.cons_append, insAfterGE, hA a List.mem_cons_self, if_true, ih (fun x hx => hA x (List.mem_cons_of_mem _ hx))]

theorem insAfterGE_front {β : Type} (p : ETime × β) (B : List (ETime × β)) (hB : ∀ b ∈ B, tge b.1 p.1 = false) : insAfterGE p B = p :: B := by
  cases B with
  | nil => rfl
  | cons b t => simp [insAfterGE, hB b List.mem_cons_self]

/-- adding one pair to the groups read in descending key order = inserting it after the last pair whose key is not smaller -/
theorem groups_snoc {β : Type} (l : List (ETime × β)) (p : ETime × β) (K : List ETime) (hK : DescT K) (hp : p.1 ∈ K) :
    K.flatMap (fun k => (l ++ [p]).filter fun q => decide (q.1 = k)) = insAfterGE p (K.flatMap fun k => l.filter fun q => decide (q.1 = k)) := by
  induction K with
  | nil => cases hp
  | cons k K' ih =>
    have hk := List.pairwise_cons.1 hK
    simp only [List.flatMap_cons]
    rw [List.filter_append]
    by_cases hpk : p.1 = k
    · -- `p` joins the first group; the later groups (smaller keys) are unchanged
      have h1 : ([p].filter fun q => decide (q.1 = k)) = [p] := by simp [hpk]
      have h2 : K'.flatMap (fun k' => (l ++ [p]).filter fun q => decide (q.1 = k'))
          = K'.flatMap fun k' => l.filter fun q => decide (q.1 = k') := by
        apply List.flatMap_congr
        intro k' hk'
        have : ¬ p.1 = k' := by
          intro e
          have := hk.1 k' hk'
          rw [← e, hpk] at this
          exact lt_irrefl _ this
        simp [List.filter_append, this]
      rw [h1, h2, insAfterGE_skip p _ _ ?_, insAfterGE_front p _ ?_]
      · simp
      · intro b hb
        rw [List.mem_flatMap] at hb
        obtain ⟨k', hk', hb⟩ := hb
        have hbk : b.1 = k' := by simpa using (List.mem_filter.1 hb).2
        have hlt : tw k' < tw k := hk.1 k' hk'
        rw [← Bool.not_eq_true, tge_iff, hbk, hpk, not_le]
        exact hlt
      · intro a ha
        have hak : a.1 = k := by simpa using (List.mem_filter.1 ha).2
        rw [tge_iff, hak, hpk]
    · have hpK' : p.1 ∈ K' := by
        rcases List.mem_cons.1 hp with h | h
        · exact absurd h hpk
        · exact h
      have h1 : ([p].filter fun q => decide (q.1 = k)) = [] := by simp [hpk]
      rw [h1, List.append_nil, ih hk.2 hpK', insAfterGE_skip]
      intro a ha
      have hak : a.1 = k := by simpa using (List.mem_filter.1 ha).2
      rw [tge_iff, hak]
      exact le_of_lt (hk.1 p.1 hpK')

theorem groups_eq_stableDesc {β : Type} (l : List (ETime × β)) (K : List ETime) (hK : DescT K) (hsub : ∀ q ∈ l, q.1 ∈ K) :
    K.flatMap (fun k => l.filter fun q => decide (q.1 = k)) = stableDesc l := by
  induction l using List.reverseRecOn with
  | nil =>
    unfold stableDesc
    simp
  | append_singleton t p ih =>
    unfold stableDesc
    rw [List.foldl_append, List.foldl_cons, List.foldl_nil]
    rw [groups_snoc t p K hK (hsub p (by simp))]
    congr 1
    exact ih (fun q hq => hsub q (by simp [hq]))

theorem insByStart_map (d : GDeme InEpoch) (l : List (GDeme InEpoch)) :
    (insByStart d l).map (fun x => (x.start, x.name)) = insAfterGE (d.start, d.name) (l.map fun x => (x.start, x.name)) := by
  induction l with
  | nil => rfl
  | cons x xs ih =>
    simp only [insByStart, List.map_cons, insAfterGE]
    split_ifs
    · simp [ih]
    · rfl

theorem orderDemes_map (ds : List (GDeme InEpoch)) :
    (orderDemes ds).map (fun x => (x.start, x.name)) = stableDesc (ds.map fun x => (x.start, x.name)) := by
  unfold orderDemes stableDesc
  have : ∀ (acc : List (GDeme InEpoch)), (ds.foldl (fun acc d => insByStart d acc) acc).map (fun x => (x.start, x.name))
      = (ds.map fun x => (x.start, x.name)).foldl (fun acc p => insAfterGE p acc) (acc.map fun x => (x.start, x.name)) := by
    induction ds with
    | nil => intro acc; rfl
    | cons d t ih =>
      intro acc
      simp only [List.foldl_cons, List.map_cons]
      rw [ih, insByStart_map]
  exact this []

theorem perm_insByStart (d : GDeme InEpoch) (l : List (GDeme InEpoch)) : (insByStart d l).Perm (d :: l) := by
  induction l with
  | nil => exact List.Perm.refl _
  | cons x xs ih =>
    unfold insByStart
    split_ifs
    · exact (List.Perm.cons x ih).trans (List.Perm.swap d x xs)
    · exact List.Perm.refl _

theorem perm_orderDemes (ds : List (GDeme InEpoch)) : (orderDemes ds).Perm ds := by
  unfold orderDemes
  have : ∀ (acc : List (GDeme InEpoch)), (ds.foldl (fun acc d => insByStart d acc) acc).Perm (ds.reverse ++ acc) := by
    induction ds with
    | nil => intro acc; simp
    | cons d t ih =>
      intro acc
      simp only [List.foldl_cons, List.reverse_cons, List.append_assoc, List.singleton_append]
      exact (ih _).trans (List.Perm.append_left _ (perm_insByStart d acc))
  have := this []
  simp only [List.append_nil] at this
  exact this.trans (List.reverse_perm ds)

end DadiVerif.DemesConv
