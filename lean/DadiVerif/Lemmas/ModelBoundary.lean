import DadiVerif.Model.ModelBoundary
import DadiVerif.Lemmas.ModelDSL
/-!
# Lemmas for C15: the boundary normaliser is sound (core Lean only)

In every interpretation that is `Lawful` (Lemmas/ModelDSL.lean) and `BoundaryLawful` (below), at every valuation of the parameters
that lies *on* the boundary of a comparison (its two sides have the same value) and gives every size parameter an invertible
value, a trace and its boundary normal form mean the same; hence two branches with the same boundary normal form mean the same
there (`boundaryTr_sound`).
-/
namespace DadiVerif.ModelDSL

/-- a size function that is constant vs the constant size: the relation between argument values under which a primitive
    must give the same result -/
inductive ValEq {S : Type} : Val S → Val S → Prop
  | refl (v : Val S) : ValEq v v
  | const (f : S → S) (c : S) (h : ∀ τ, f τ = c) : ValEq (.fn f) (.scalar c)

inductive ArgsEq {S : Type} : List (Name × Val S) → List (Name × Val S) → Prop
  | nil : ArgsEq [] []
  | cons (k : Name) (v w : Val S) (r r' : List (Name × Val S)) (hv : ValEq v w) (hr : ArgsEq r r') :
      ArgsEq ((k, v) :: r) ((k, w) :: r')

/-- the laws the boundary normaliser relies on, beyond `Lawful`: `x - x = 0`, `x*0 = 0*x = 0`, `0/x = 0`, `1**x = 1`,
    `exp(0) = 1`, and every primitive gives the same result for a size function that is constant and for the constant
    (dadi/Integration.py evaluates `nu(t)` at every step when `nu` is callable and uses the number otherwise) -/
structure BoundaryLawful (I : Interp) : Prop where
  sub_self : ∀ x, I.sub x x = I.lit 0 1
  mul_zero : ∀ x, I.mul x (I.lit 0 1) = I.lit 0 1
  zero_mul : ∀ x, I.mul (I.lit 0 1) x = I.lit 0 1
  zero_div : ∀ x, I.div (I.lit 0 1) x = I.lit 0 1
  one_pow : ∀ x, I.pow (I.lit 1 1) x = I.lit 1 1
  exp_zero : I.call1 (nm! "numpy.exp") (I.lit 0 1) = I.lit 1 1
  const_start : ∀ fn args args', ArgsEq args args' → I.start fn args = I.start fn args'
  const_step : ∀ fn φ args args', ArgsEq args args' → I.step fn φ args = I.step fn φ args'
  const_finish : ∀ fn φ args args', ArgsEq args args' → I.finish fn φ args = I.finish fn φ args'

section Bnd
variable {I : Interp} {ints : List Name} (hI : Lawful I ints) (hB : BoundaryLawful I) (ρ : Name → I.S)

/-! ### time-free expressions -/

theorem timeFree_scalarShape (e : Expr) (h : timeFree e = true) : scalarShape e = true := by
  cases e <;> first | rfl | (simp [timeFree] at h)

theorem evalS_timeFree (τ τ' : I.S) (e : Expr) (h : timeFree e = true) : evalS I ρ τ e = evalS I ρ τ' e := by
  induction e with
  | param n => rfl
  | lit a b => rfl
  | sym s => rfl
  | neg e ih => simp only [timeFree] at h; simp only [evalS, ih h]
  | add a b iha ihb => simp only [timeFree, Bool.and_eq_true] at h; simp only [evalS, iha h.1, ihb h.2]
  | sub a b iha ihb => simp only [timeFree, Bool.and_eq_true] at h; simp only [evalS, iha h.1, ihb h.2]
  | mul a b iha ihb => simp only [timeFree, Bool.and_eq_true] at h; simp only [evalS, iha h.1, ihb h.2]
  | div a b iha ihb => simp only [timeFree, Bool.and_eq_true] at h; simp only [evalS, iha h.1, ihb h.2]
  | pow a b iha ihb => simp only [timeFree, Bool.and_eq_true] at h; simp only [evalS, iha h.1, ihb h.2]
  | call1 f e ih => simp only [timeFree] at h; simp only [evalS, ih h]
  | tvar => simp [timeFree] at h
  | lam b _ => simp [timeFree] at h
  | app f a _ _ => simp [timeFree] at h
  | tnil => simp [timeFree] at h
  | tcons hd tl _ _ => simp [timeFree] at h

/-! ### substitution of a parameter by an expression that has its value -/

section Subst
variable (n : Name) (a : Expr) (ha : scalarShape a = true) (hn : ∀ τ, evalS I ρ τ a = ρ n)

include hn in
theorem evalS_substP (τ : I.S) (e : Expr) : evalS I ρ τ (substP n a e) = evalS I ρ τ e := by
  induction e with
  | param k =>
      simp only [substP]
      split
      · next h => rw [hn τ, h]; rfl
      · rfl
  | neg e ih => simp only [substP, evalS, ih]
  | add x y ihx ihy => simp only [substP, evalS, ihx, ihy]
  | sub x y ihx ihy => simp only [substP, evalS, ihx, ihy]
  | mul x y ihx ihy => simp only [substP, evalS, ihx, ihy]
  | div x y ihx ihy => simp only [substP, evalS, ihx, ihy]
  | pow x y ihx ihy => simp only [substP, evalS, ihx, ihy]
  | call1 f e ih => simp only [substP, evalS, ih]
  | lam b _ => rfl
  | app f x _ _ => rfl
  | tcons h t _ _ => rfl
  | tvar => rfl
  | lit x y => rfl
  | sym s => rfl
  | tnil => rfl

include ha in
theorem scalarShape_substP (e : Expr) : scalarShape (substP n a e) = scalarShape e := by
  cases e <;> try rfl
  case param k =>
    simp only [substP]
    split
    · rw [ha]; rfl
    · rfl

include ha hn in
theorem evalTuple_substP (e : Expr) : evalTuple I ρ (substP n a e) = evalTuple I ρ e := by
  induction e with
  | tcons h t _ iht => simp only [substP, evalTuple]; rw [evalS_substP ρ n a hn, iht]
  | param k =>
      rw [evalTuple_of_scalarShape ρ _ (by rw [scalarShape_substP n a ha]; rfl)]; rfl
  | lam b _ => rfl
  | tnil => rfl
  | neg e _ => rfl
  | add x y _ _ => rfl
  | sub x y _ _ => rfl
  | mul x y _ _ => rfl
  | div x y _ _ => rfl
  | pow x y _ _ => rfl
  | call1 f e _ => rfl
  | app f x _ _ => rfl
  | tvar => rfl
  | lit x y => rfl
  | sym s => rfl

include ha hn in
theorem evalV_substP (e : Expr) : evalV I ρ (substP n a e) = evalV I ρ e := by
  by_cases h : scalarShape e = true
  · rw [evalV_of_scalarShape ρ _ (by rw [scalarShape_substP n a ha]; exact h), evalV_of_scalarShape ρ _ h,
      evalS_substP ρ n a hn]
  · cases e <;> try (simp [scalarShape] at h)
    case lam b =>
      show Val.fn _ = Val.fn _
      congr 1; funext τ; exact evalS_substP ρ n a hn τ b
    case tnil => rfl
    case tcons hd tl =>
      show Val.tup (evalTuple I ρ (substP n a (.tcons hd tl))) = Val.tup (evalTuple I ρ (.tcons hd tl))
      rw [evalTuple_substP ρ n a ha hn]

end Subst

/-! ### the boundary normaliser on expressions -/

section Simp
variable (hsz : ∀ k, isSizeParam k = true → I.div (ρ k) (ρ k) = I.lit 1 1)

theorem evalS_zero (τ : I.S) : evalS I ρ τ zero = I.lit 0 1 := rfl
theorem evalS_one (τ : I.S) : evalS I ρ τ one = I.lit 1 1 := rfl

include hI hB in
theorem evalS_bSub (τ : I.S) (a b : Expr) : evalS I ρ τ (bSub a b) = I.sub (evalS I ρ τ a) (evalS I ρ τ b) := by
  unfold bSub
  split
  · next h => rw [h, evalS_zero, hB.sub_self]
  · exact evalS_mkSub hI ρ τ a b

include hI hB in
theorem evalS_bMul (τ : I.S) (a b : Expr) : evalS I ρ τ (bMul a b) = I.mul (evalS I ρ τ a) (evalS I ρ τ b) := by
  unfold bMul
  split
  · next h =>
      rcases h with h | h
      · rw [h, evalS_zero, hB.zero_mul]
      · rw [h, evalS_zero, hB.mul_zero]
  · exact evalS_mkMul hI ρ τ a b

theorem sizeSelfDiv_spec {a b : Expr} (h : sizeSelfDiv a b = true) :
    ∃ n, a = .param n ∧ b = .param n ∧ isSizeParam n = true := by
  cases a <;> cases b <;> first
    | (simp only [sizeSelfDiv, Bool.and_eq_true, beq_iff_eq] at h; exact ⟨_, rfl, by rw [h.1], h.2⟩)
    | (simp [sizeSelfDiv] at h)

include hB hsz in
theorem evalS_bDiv (τ : I.S) (a b : Expr) : evalS I ρ τ (bDiv a b) = I.div (evalS I ρ τ a) (evalS I ρ τ b) := by
  unfold bDiv
  split
  · next h => rw [h, evalS_zero, hB.zero_div]
  · split
    · next h =>
        obtain ⟨n, rfl, rfl, hs⟩ := sizeSelfDiv_spec h
        rw [evalS_one]; exact (hsz n hs).symm
    · rfl

include hB in
theorem evalS_bPow (τ : I.S) (a b : Expr) : evalS I ρ τ (bPow a b) = I.pow (evalS I ρ τ a) (evalS I ρ τ b) := by
  unfold bPow
  split
  · next h => rw [h, evalS_one, hB.one_pow]
  · rfl

include hB in
theorem evalS_bCall (τ : I.S) (f : Name) (e : Expr) : evalS I ρ τ (bCall f e) = I.call1 f (evalS I ρ τ e) := by
  unfold bCall
  split
  · next h => rw [h.1, h.2, evalS_zero, evalS_one, hB.exp_zero]
  · rfl

include hI hB hsz in
theorem evalS_bsimp (τ : I.S) (e : Expr) : evalS I ρ τ (bsimp e) = evalS I ρ τ e := by
  induction e with
  | neg e ih => simp only [bsimp, evalS, ih]
  | add a b iha ihb => simp only [bsimp, evalS, iha, ihb]
  | sub a b iha ihb => simp only [bsimp]; rw [evalS_bSub hI hB]; simp only [evalS, iha, ihb]
  | mul a b iha ihb => simp only [bsimp]; rw [evalS_bMul hI hB]; simp only [evalS, iha, ihb]
  | div a b iha ihb => simp only [bsimp]; rw [evalS_bDiv hB ρ hsz]; simp only [evalS, iha, ihb]
  | pow a b iha ihb => simp only [bsimp]; rw [evalS_bPow hB]; simp only [evalS, iha, ihb]
  | call1 f e ih => simp only [bsimp]; rw [evalS_bCall hB]; simp only [evalS, ih]
  | lam b _ => rfl
  | app f a _ _ => rfl
  | tcons h t _ _ => rfl
  | param n => rfl
  | tvar => rfl
  | lit a b => rfl
  | sym s => rfl
  | tnil => rfl

theorem scalarShape_bSub (a b : Expr) : scalarShape (bSub a b) = true := by
  unfold bSub; split
  · rfl
  · exact scalarShape_mkSub a b

theorem scalarShape_bMul (a b : Expr) : scalarShape (bMul a b) = true := by
  unfold bMul; split
  · rfl
  · exact scalarShape_mkMul a b

theorem scalarShape_bDiv (a b : Expr) : scalarShape (bDiv a b) = true := by
  unfold bDiv; split
  · rfl
  · split <;> rfl

theorem scalarShape_bPow (a b : Expr) : scalarShape (bPow a b) = true := by
  unfold bPow; split <;> rfl

theorem scalarShape_bCall (f : Name) (e : Expr) : scalarShape (bCall f e) = true := by
  unfold bCall; split <;> rfl

theorem scalarShape_bsimp (e : Expr) : scalarShape (bsimp e) = scalarShape e := by
  cases e <;> try rfl
  case sub a b => simp only [bsimp]; rw [scalarShape_bSub]; rfl
  case mul a b => simp only [bsimp]; rw [scalarShape_bMul]; rfl
  case div a b => simp only [bsimp]; rw [scalarShape_bDiv]; rfl
  case pow a b => simp only [bsimp]; rw [scalarShape_bPow]; rfl
  case call1 f e => simp only [bsimp]; rw [scalarShape_bCall]; rfl

include hI hB hsz in
theorem evalTuple_bsimp (e : Expr) : evalTuple I ρ (bsimp e) = evalTuple I ρ e := by
  induction e with
  | tcons h t _ iht => simp only [bsimp, evalTuple]; rw [evalS_bsimp hI hB ρ hsz, iht]
  | sub a b _ _ => rw [evalTuple_of_scalarShape ρ _ (by rw [scalarShape_bsimp]; rfl)]; rfl
  | mul a b _ _ => rw [evalTuple_of_scalarShape ρ _ (by rw [scalarShape_bsimp]; rfl)]; rfl
  | div a b _ _ => rw [evalTuple_of_scalarShape ρ _ (by rw [scalarShape_bsimp]; rfl)]; rfl
  | pow a b _ _ => rw [evalTuple_of_scalarShape ρ _ (by rw [scalarShape_bsimp]; rfl)]; rfl
  | call1 f e _ => rw [evalTuple_of_scalarShape ρ _ (by rw [scalarShape_bsimp]; rfl)]; rfl
  | lam b _ => rfl
  | tnil => rfl
  | neg e _ => rfl
  | add a b _ _ => rfl
  | app f a _ _ => rfl
  | param n => rfl
  | tvar => rfl
  | lit a b => rfl
  | sym s => rfl

include hI hB hsz in
theorem evalV_bsimp (e : Expr) : evalV I ρ (bsimp e) = evalV I ρ e := by
  by_cases h : scalarShape e = true
  · rw [evalV_of_scalarShape ρ _ (by rw [scalarShape_bsimp]; exact h), evalV_of_scalarShape ρ _ h, evalS_bsimp hI hB ρ hsz]
  · cases e <;> try (simp [scalarShape] at h)
    case lam b =>
      show Val.fn _ = Val.fn _
      congr 1; funext τ; exact evalS_bsimp hI hB ρ hsz τ b
    case tnil => rfl
    case tcons hd tl =>
      show Val.tup (evalTuple I ρ (bsimp (.tcons hd tl))) = Val.tup (evalTuple I ρ (.tcons hd tl))
      rw [evalTuple_bsimp hI hB ρ hsz]

/-- a function of time whose body is time-free vs that body -/
theorem valEq_constLam (e : Expr) : ValEq (evalV I ρ e) (evalV I ρ (constLam e)) := by
  cases e with
  | lam b =>
      by_cases h : timeFree b = true
      · simp only [constLam, h, if_true]
        rw [evalV_of_scalarShape ρ b (timeFree_scalarShape b h)]
        exact ValEq.const _ _ (fun τ => evalS_timeFree ρ τ _ b h)
      · simp only [constLam, h]
        exact ValEq.refl _
  | _ => exact ValEq.refl _

/-! ### arguments, calls, runs -/

variable (n : Name) (a : Expr) (ha : scalarShape a = true) (hn : ∀ τ, evalS I ρ τ a = ρ n)

include hI hB hsz ha hn in
theorem argsEq_bArgs (args : List (Name × Expr)) : ArgsEq (evalArgs I ρ args) (evalArgs I ρ (bArgs n a args)) := by
  induction args with
  | nil => exact ArgsEq.nil
  | cons x r ih =>
      obtain ⟨k, e⟩ := x
      simp only [bArgs, evalArgs]
      refine ArgsEq.cons k _ _ _ _ ?_ ih
      have h1 : evalV I ρ (bsimp (substP n a e)) = evalV I ρ e := by
        rw [evalV_bsimp hI hB ρ hsz, evalV_substP ρ n a ha hn]
      rw [← h1]
      exact valEq_constLam ρ _

include hI hB hsz ha hn in
theorem step_bCallN (c : Call) (φ : I.Φ) :
    I.step c.fn φ (evalArgs I ρ (bCallN n a c).args) = I.step c.fn φ (evalArgs I ρ c.args) :=
  (hB.const_step c.fn φ _ _ (argsEq_bArgs hI hB ρ hsz n a ha hn c.args)).symm

include hI in
theorem step_zeroDur' (c : Call) (h : isZeroDur ints c = true) (φ : I.Φ) :
    I.step c.fn φ (evalArgs I ρ c.args) = some φ := by
  simp only [isZeroDur, Bool.and_eq_true, List.contains_iff_mem, beq_iff_eq] at h
  obtain ⟨⟨hm, hT⟩, hi⟩ := h
  apply hI.zero_duration _ hm
  · rw [lookup_evalArgs, hT]; rfl
  · rw [lookup_evalArgs, hi]; rfl

include hI hB hsz ha hn in
theorem runSteps_bSteps (cs : List Call) (φ : I.Φ) :
    runSteps I ρ φ (bSteps ints n a cs) = runSteps I ρ φ cs := by
  induction cs generalizing φ with
  | nil => rfl
  | cons c rest ih =>
      unfold bSteps
      split
      · next hz =>
          rw [ih]
          conv => rhs; unfold runSteps
          rw [← step_bCallN hI hB ρ hsz n a ha hn c φ]
          have := step_zeroDur' hI ρ (bCallN n a c) hz φ
          rw [show (bCallN n a c).fn = c.fn from rfl] at this
          rw [this]
      · conv => lhs; unfold runSteps
        conv => rhs; unfold runSteps
        rw [show (bCallN n a c).fn = c.fn from rfl, step_bCallN hI hB ρ hsz n a ha hn c φ]
        cases I.step c.fn φ (evalArgs I ρ c.args) with
        | none => rfl
        | some φ' => exact ih φ'

include hI hB hsz ha hn in
theorem runRun_bRun (r : Run) : runRun I ρ (bRun ints n a r) = runRun I ρ r := by
  have hs : I.start r.start.fn (evalArgs I ρ (bCallN n a r.start).args) = I.start r.start.fn (evalArgs I ρ r.start.args) :=
    (hB.const_start r.start.fn _ _ (argsEq_bArgs hI hB ρ hsz n a ha hn r.start.args)).symm
  unfold runRun bRun
  simp only
  rw [show (bCallN n a r.start).fn = r.start.fn from rfl, show (bCallN n a r.fin).fn = r.fin.fn from rfl, hs]
  cases I.start r.start.fn (evalArgs I ρ r.start.args) with
  | none => rfl
  | some φ =>
      simp only
      rw [runSteps_bSteps hI hB ρ hsz n a ha hn]
      cases runSteps I ρ φ r.steps with
      | none => rfl
      | some φ' =>
          simp only
          exact (hB.const_finish r.fin.fn φ' _ _ (argsEq_bArgs hI hB ρ hsz n a ha hn r.fin.args)).symm

include hI hB hsz ha hn in
/-- **the boundary normal form preserves the meaning of a trace at every valuation on the boundary** -/
theorem runTr_bnormTr (t : Tr) : runTr I ρ (bnormTr ints n a t) = runTr I ρ t := by
  induction t with
  | leaf r => exact runRun_bRun hI hB ρ hsz n a ha hn r
  | ite c x y ihx ihy =>
      simp only [bnormTr, runTr, evalS_bsimp hI hB ρ hsz, evalS_substP ρ n a hn, ihx, ihy]

end Simp

/-! ### pruning -/

theorem runTr_prune (c : Cond) (v : Bool)
    (hc : I.cmp c.op (evalS I ρ (I.sym (nm! "t")) c.lhs) (evalS I ρ (I.sym (nm! "t")) c.rhs) = v) (t : Tr) :
    runTr I ρ (prune c v t) = runTr I ρ t := by
  induction t with
  | leaf r => rfl
  | ite c' x y ihx ihy =>
      unfold prune
      split
      · next h =>
          subst h
          conv => rhs; unfold runTr
          rw [hc]
          cases v with
          | true => simpa using ihx
          | false => simpa using ihy
      · simp only [runTr, ihx, ihy]

end Bnd

/-! ### the boundary of a comparison -/

theorem boundarySubst_spec {c : Cond} {n : Name} {e : Expr} (h : boundarySubst c = some (n, e)) :
    timeFree e = true ∧ ((c.rhs = .param n ∧ c.lhs = e) ∨ (c.lhs = .param n ∧ c.rhs = e)) := by
  unfold boundarySubst at h
  split at h
  · next r hr =>
      split at h
      · next ht =>
          simp only [Option.some.injEq, Prod.mk.injEq] at h
          obtain ⟨rfl, rfl⟩ := h
          exact ⟨ht, Or.inl ⟨hr, rfl⟩⟩
      · cases h
  · split at h
    · next l hl =>
        split at h
        · next ht =>
            simp only [Option.some.injEq, Prod.mk.injEq] at h
            obtain ⟨rfl, rfl⟩ := h
            exact ⟨ht, Or.inr ⟨hl, rfl⟩⟩
        · cases h
    · cases h

/-- a valuation lies on the boundary of a comparison: its two sides have the same value -/
def OnBoundary (I : Interp) (ρ : Name → I.S) (c : Cond) : Prop :=
  evalS I ρ (I.sym (nm! "t")) c.lhs = evalS I ρ (I.sym (nm! "t")) c.rhs

/-- every size parameter has an invertible value (sizes are positive) -/
def SizesInvertible (I : Interp) (ρ : Name → I.S) : Prop :=
  ∀ k, isSizeParam k = true → I.div (ρ k) (ρ k) = I.lit 1 1

/-- `boundaryNodeOK` is a sound test: on the boundary of the comparison, the `then` formula and the `else` formula (in each, a
    nested `if` on the same comparison decided accordingly) have the same meaning -/
theorem boundaryNodeOK_sound {I : Interp} {ints : List Name} (hI : Lawful I ints) (hB : BoundaryLawful I)
    {c : Cond} {a b : Tr} (h : boundaryNodeOK ints c a b = true) (ρ : Name → I.S) (hb : OnBoundary I ρ c)
    (hsz : SizesInvertible I ρ) :
    runTr I ρ (prune c true a) = runTr I ρ (prune c false b) := by
  unfold boundaryNodeOK at h
  cases hs : boundarySubst c with
  | none => rw [hs] at h; cases h
  | some p =>
      obtain ⟨n, e⟩ := p
      rw [hs] at h
      have heq : bnormTr ints n e (prune c true a) = bnormTr ints n e (prune c false b) := by simpa using h
      obtain ⟨ht, hside⟩ := boundarySubst_spec hs
      have hn : ∀ τ, evalS I ρ τ e = ρ n := by
        intro τ
        rw [evalS_timeFree ρ τ (I.sym (nm! "t")) e ht]
        unfold OnBoundary at hb
        rcases hside with ⟨hr, hl⟩ | ⟨hl, hr⟩
        · rw [hr, hl] at hb; exact hb
        · rw [hr, hl] at hb; exact hb.symm
      have ha := timeFree_scalarShape e ht
      rw [← runTr_bnormTr hI hB ρ hsz n e ha hn (prune c true a), ← runTr_bnormTr hI hB ρ hsz n e ha hn (prune c false b), heq]

/-- `ite c a b` occurs in the trace -/
inductive IsNode : Tr → Cond → Tr → Tr → Prop
  | here (c : Cond) (a b : Tr) : IsNode (.ite c a b) c a b
  | inThen (c : Cond) (a b : Tr) (c' : Cond) (x y : Tr) : IsNode a c' x y → IsNode (.ite c a b) c' x y
  | inElse (c : Cond) (a b : Tr) (c' : Cond) (x y : Tr) : IsNode b c' x y → IsNode (.ite c a b) c' x y

theorem boundaryTr_node {ints : List Name} {t : Tr} (h : boundaryTr ints t = true) {c : Cond} {a b : Tr}
    (hn : IsNode t c a b) : boundaryNodeOK ints c a b = true := by
  induction hn with
  | here c a b => simp only [boundaryTr, Bool.and_eq_true] at h; exact h.1.1
  | inThen c a b c' x y _ ih => simp only [boundaryTr, Bool.and_eq_true] at h; exact ih h.1.2
  | inElse c a b c' x y _ ih => simp only [boundaryTr, Bool.and_eq_true] at h; exact ih h.2

/-- **soundness of the boundary check**: for every comparison `if c` of a trace that passes `boundaryTr`, in every lawful and
    boundary-lawful interpretation, at every valuation on the boundary of `c` with invertible sizes:
    * the two branch formulas mean the same;
    * so whichever branch the comparison selects there, the program means what the *other* formula means there — a model
      that is continuous on each side of the boundary is continuous across it. -/
theorem boundaryTr_sound {I : Interp} {ints : List Name} (hI : Lawful I ints) (hB : BoundaryLawful I)
    {t : Tr} (h : boundaryTr ints t = true) {c : Cond} {a b : Tr} (hn : IsNode t c a b)
    (ρ : Name → I.S) (hb : OnBoundary I ρ c) (hsz : SizesInvertible I ρ) :
    runTr I ρ (prune c true a) = runTr I ρ (prune c false b)
    ∧ runTr I ρ (.ite c a b) = runTr I ρ (prune c true a)
    ∧ runTr I ρ (.ite c a b) = runTr I ρ (prune c false b) := by
  have h1 := boundaryNodeOK_sound hI hB (boundaryTr_node h hn) ρ hb hsz
  have h2 : runTr I ρ (.ite c a b) = runTr I ρ (prune c true a) := by
    conv => lhs; unfold runTr
    split
    · next hc => exact (runTr_prune ρ c true hc a).symm
    · next hc =>
        rw [h1]
        exact (runTr_prune ρ c false (by simpa using hc) b).symm
  exact ⟨h1, h2, h2.trans h1⟩

end DadiVerif.ModelDSL
