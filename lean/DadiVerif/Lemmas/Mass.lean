import DadiVerif.Lemmas.Sweep
/-! Helper lemmas for C04: trapezoid mass balance of one kernel sweep, line by line. -/
namespace DadiVerif
open Gen Finset

/-- strictly increasing grid with at least two points -/
def GridOk (xs : Array ℚ) : Prop := 2 ≤ xs.size ∧ ∀ j, j + 1 < xs.size → xs.getD j 0 < xs.getD (j+1) 0

theorem axisLine_N (xs : Array ℚ) (P : AxisParams) (ys : List ℚ) (use : Bool) (eps : ℕ → ℚ) (dt : ℚ) :
    (axisLine xs P ys use eps dt).N = xs.size := rfl
theorem axisLine_x (xs : Array ℚ) (P : AxisParams) (ys : List ℚ) (use : Bool) (eps : ℕ → ℚ) (dt : ℚ) (j : ℕ) :
    (axisLine xs P ys use eps dt).x j = xs.getD j 0 := rfl
theorem axisLine_dt (xs : Array ℚ) (P : AxisParams) (ys : List ℚ) (use : Bool) (eps : ℕ → ℚ) (dt : ℚ) :
    (axisLine xs P ys use eps dt).dt = dt := rfl

theorem Line.weights_pos (L : Line) (h2 : 2 ≤ L.N) (hinc : ∀ j, j + 1 < L.N → L.x j < L.x (j+1)) :
    ∀ j < L.N, 0 < L.dxL j + L.dxR j := by
  intro j hj
  unfold Line.dxL Line.dxR
  by_cases h0 : j = 0
  · subst h0
    have h01 : 0 + 1 < L.N := by omega
    have := hinc 0 h01
    rw [if_pos rfl, if_pos h01]
    linarith
  · have hprev : L.x (j-1) < L.x j := by
      have := hinc (j-1) (by omega)
      rwa [Nat.sub_add_cancel (by omega)] at this
    rw [if_neg h0]
    by_cases h1 : j + 1 < L.N
    · have := hinc j h1
      rw [if_pos h1]; linarith
    · rw [if_neg h1]; linarith

/-- trapezoid weights of a strictly increasing grid are positive, so `dfactor` is well defined -/
theorem weights_ne_zero (xs : Array ℚ) (hg : GridOk xs) (P : AxisParams) (ys : List ℚ) (use : Bool)
    (eps : ℕ → ℚ) (dt : ℚ) :
    ∀ j < (axisLine xs P ys use eps dt).N,
      (axisLine xs P ys use eps dt).dxL j + (axisLine xs P ys use eps dt).dxR j ≠ 0 := by
  intro j hj
  exact ne_of_gt (Line.weights_pos _ hg.1 hg.2 j hj)

/-- the absorbing coefficients of a line whose other coordinates are neither all 0 nor all 1 vanish -/
theorem axisLine_bc_noncorner (xs : Array ℚ) (P : AxisParams) (ys : List ℚ) (use : Bool) (eps : ℕ → ℚ) (dt : ℚ)
    (h0 : ys.all (· == 0) = false) (h1 : ys.all (· == 1) = false) (j : ℕ) :
    (axisLine xs P ys use eps dt).bc j = 0 := by
  simp only [axisLine, mkLine, h0, h1]
  simp

/-- mass balance of one line of one kernel sweep (any dimension, any axis) -/
theorem stepFam_line_mass {ι : Type} (mk : ι → Line) (φ : ι → ℕ → ℚ) (i : ι)
    (hdt : (mk i).dt ≠ 0) (hw : ∀ j < (mk i).N, (mk i).dxL j + (mk i).dxR j ≠ 0)
    (hp : PivotsOk 1 0 ((mk i).rows (φ i))) :
    ∑ j ∈ range (mk i).N, (mk i).w j * stepFam mk φ i j
      = ∑ j ∈ range (mk i).N, (mk i).w j * φ i j
        - (mk i).dt * ∑ j ∈ range (mk i).N, (mk i).w j * (mk i).bc j * stepFam mk φ i j := by
  have hs := (mk i).step_solves (φ i) hp
  exact (mk i).line_mass (φ i) ((mk i).stepFn (φ i)) hdt hw hs

/-- …hence exactly conserved on every non-corner line -/
theorem stepFam_line_conserved {ι : Type} (mk : ι → Line) (φ : ι → ℕ → ℚ) (i : ι)
    (hdt : (mk i).dt ≠ 0) (hw : ∀ j < (mk i).N, (mk i).dxL j + (mk i).dxR j ≠ 0)
    (hp : PivotsOk 1 0 ((mk i).rows (φ i))) (hbc : ∀ j, (mk i).bc j = 0) :
    ∑ j ∈ range (mk i).N, (mk i).w j * stepFam mk φ i j = ∑ j ∈ range (mk i).N, (mk i).w j * φ i j := by
  rw [stepFam_line_mass mk φ i hdt hw hp]
  simp [hbc]

end DadiVerif
