import Mathlib.Data.Nat.Choose.Vandermonde
import Mathlib.Data.Nat.Choose.Sum
import Mathlib.Algebra.Order.Field.Rat
import Mathlib.Algebra.BigOperators.Ring.Finset
import Mathlib.Algebra.BigOperators.Field
import Mathlib.Algebra.BigOperators.Intervals
import Mathlib.Tactic.FieldSimp
import Mathlib.Tactic.Ring
import Mathlib.Tactic.Linarith
/-! Hypergeometric weights over ℚ: row sums, composition (Vandermonde), one-step weights, mirror symmetry,
    support.  Pure mathematics, no model definitions (those are connected in Lemmas/Projection.lean).
    Argument order everywhere as in the code: `hyp m n i j` = probability of seeing `j` derived alleles in a
    subsample of size `m` drawn without replacement from `n` chromosomes of which `i` are derived
    (m = proj_to, n = proj_from, i = hits). -/
namespace DadiVerif
open Finset

/-- C(m,j)·C(n−m,i−j)/C(n,i), with the guard `j ≤ i` that truncated subtraction needs -/
def hyp (m n i j : ℕ) : ℚ :=
  if j ≤ i then ((m.choose j * (n - m).choose (i - j) : ℕ) : ℚ) / (n.choose i : ℕ) else 0

theorem hyp_of_le {m n i j : ℕ} (h : j ≤ i) :
    hyp m n i j = ((m.choose j * (n - m).choose (i - j) : ℕ) : ℚ) / (n.choose i : ℕ) := by
  simp [hyp, h]

theorem hyp_of_lt {m n i j : ℕ} (h : i < j) : hyp m n i j = 0 := by
  simp [hyp, Nat.not_le.mpr h]

theorem hyp_of_gt_m {m n i j : ℕ} (h : m < j) : hyp m n i j = 0 := by
  unfold hyp; split_ifs <;> simp [Nat.choose_eq_zero_of_lt h]

theorem choose_pos_q {n i : ℕ} (hi : i ≤ n) : ((n.choose i : ℕ) : ℚ) ≠ 0 := by
  have := Nat.choose_pos hi
  exact_mod_cast this.ne'

theorem vandermonde_range (m r i : ℕ) :
    ∑ j ∈ range (i+1), m.choose j * r.choose (i - j) = (m + r).choose i := by
  rw [Nat.add_choose_eq, Finset.Nat.sum_antidiagonal_eq_sum_range_succ_mk]

/-- integer core of composition: Σ_{j=l}^{i} C(p, i−j)·C(q, j−l) = C(p+q, i−l)  (Vandermonde, shifted) -/
theorem vandermonde_shift (p q i l : ℕ) (hl : l ≤ i) :
    ∑ j ∈ Icc l i, p.choose (i - j) * q.choose (j - l) = (p + q).choose (i - l) := by
  rw [Nat.add_choose_eq, Finset.Nat.sum_antidiagonal_eq_sum_range_succ_mk]
  have : ∑ j ∈ Icc l i, p.choose (i - j) * q.choose (j - l)
      = ∑ t ∈ range (i - l + 1), p.choose (i - l - t) * q.choose t := by
    rw [Finset.range_eq_Ico, Finset.sum_Ico_eq_sum_range]
    have hIcc : Icc l i = Ico l (i+1) := by ext x; simp
    rw [hIcc, Finset.sum_Ico_eq_sum_range]
    have e : i + 1 - l = i - l + 1 - 0 := by omega
    rw [e]
    refine Finset.sum_congr rfl (fun t ht => ?_)
    have : t < i - l + 1 := by simpa using ht
    congr 2 <;> omega
  rw [this, ← Finset.sum_range_reflect]
  refine Finset.sum_congr rfl (fun t ht => ?_)
  have : t < i - l + 1 := mem_range.mp ht
  congr 2 <;> omega

/-- a sum of `hyp m n i ·` over any range that contains both `0..i` and … is the sum over `0..i` -/
theorem sum_hyp_range {m n i : ℕ} (N : ℕ) (hN : i + 1 ≤ N) (f : ℕ → ℚ) :
    ∑ j ∈ range N, hyp m n i j * f j = ∑ j ∈ range (i+1), hyp m n i j * f j := by
  symm
  apply Finset.sum_subset
  · intro x hx; simp at hx ⊢; omega
  · intro x _ hx2
    have : i < x := by simp at hx2; omega
    rw [hyp_of_lt this, zero_mul]

/-- rows sum to one over `0..i` -/
theorem hyp_rowsum_i (m n i : ℕ) (hm : m ≤ n) (hi : i ≤ n) :
    ∑ j ∈ range (i+1), hyp m n i j = 1 := by
  have h1 : ∀ j ∈ range (i+1), hyp m n i j
      = ((m.choose j * (n - m).choose (i - j) : ℕ) : ℚ) / (n.choose i : ℕ) := by
    intro j hj
    exact hyp_of_le (by simp at hj; omega)
  rw [Finset.sum_congr rfl h1, ← Finset.sum_div]
  rw [div_eq_one_iff_eq (choose_pos_q hi)]
  have h := vandermonde_range m (n - m) i
  rw [Nat.add_sub_cancel' hm] at h
  exact_mod_cast h

/-- rows sum to one over the row `0..m` the code stores -/
theorem hyp_rowsum (m n i : ℕ) (hm : m ≤ n) (hi : i ≤ n) :
    ∑ j ∈ range (m+1), hyp m n i j = 1 := by
  have key : ∀ N, m + 1 ≤ N → ∑ j ∈ range N, hyp m n i j = ∑ j ∈ range (m+1), hyp m n i j := by
    intro N hN
    symm
    apply Finset.sum_subset
    · intro x hx; simp at hx ⊢; omega
    · intro x _ hx2
      have : m < x := by simp at hx2; omega
      exact hyp_of_gt_m this
  have key2 : ∀ N, i + 1 ≤ N → ∑ j ∈ range N, hyp m n i j = ∑ j ∈ range (i+1), hyp m n i j := by
    intro N hN
    have := sum_hyp_range (m := m) (n := n) (i := i) N hN (fun _ => 1)
    simpa using this
  rw [← key (max m i + 1) (by omega), key2 (max m i + 1) (by omega)]
  exact hyp_rowsum_i m n i hm hi

/-- pointwise core of composition on `l ≤ j ≤ i` -/
theorem hyp_mul_hyp {k m n i j l : ℕ} (hkm : k ≤ m) (hi : i ≤ n) (hlk : l ≤ k) (hlj : l ≤ j) (hji : j ≤ i) :
    hyp m n i j * hyp k m j l
      = ((k.choose l : ℕ) : ℚ) / (n.choose i : ℕ) * (((n - m).choose (i - j) * (m - k).choose (j - l) : ℕ) : ℚ) := by
  rw [hyp_of_le hji, hyp_of_le hlj]
  by_cases hjm : j ≤ m
  · have h1 := choose_pos_q hjm
    have h2 := choose_pos_q hi
    push_cast
    field_simp
  · have hjm' : m < j := Nat.not_le.mp hjm
    have hz : (m - k).choose (j - l) = 0 := Nat.choose_eq_zero_of_lt (by omega)
    rw [Nat.choose_eq_zero_of_lt hjm', hz]
    simp

/-- two-stage weights compose: Σ_j hyp(n→m) i j · hyp(m→k) j l = hyp(n→k) i l -/
theorem hyp_compose (k m n i l : ℕ) (hkm : k ≤ m) (hmn : m ≤ n) (hi : i ≤ n) (hl : l ≤ k) :
    ∑ j ∈ range (m+1), hyp m n i j * hyp k m j l = hyp k n i l := by
  -- extend to a common range, then restrict to Icc l i
  have ext1 : ∑ j ∈ range (m+1), hyp m n i j * hyp k m j l
      = ∑ j ∈ range (max m i + 1), hyp m n i j * hyp k m j l := by
    apply Finset.sum_subset
    · intro x hx; simp at hx ⊢; omega
    · intro x _ hx2
      have : m < x := by simp at hx2; omega
      rw [hyp_of_gt_m this, zero_mul]
  have ext2 : ∑ j ∈ range (max m i + 1), hyp m n i j * hyp k m j l
      = ∑ j ∈ Icc l i, hyp m n i j * hyp k m j l := by
    symm
    apply Finset.sum_subset
    · intro x hx; simp at hx ⊢; omega
    · intro x _ hx2
      simp only [mem_Icc, not_and_or, not_le] at hx2
      rcases hx2 with h | h
      · rw [hyp_of_lt (m := k) h, mul_zero]
      · rw [hyp_of_lt (m := m) h, zero_mul]
  rw [ext1, ext2]
  by_cases hli : l ≤ i
  · have h3 : ∀ j ∈ Icc l i, hyp m n i j * hyp k m j l
        = ((k.choose l : ℕ) : ℚ) / (n.choose i : ℕ) * (((n - m).choose (i - j) * (m - k).choose (j - l) : ℕ) : ℚ) := by
      intro j hj
      rw [mem_Icc] at hj
      exact hyp_mul_hyp hkm hi hl hj.1 hj.2
    rw [Finset.sum_congr rfl h3, ← Finset.mul_sum, ← Nat.cast_sum, vandermonde_shift (n - m) (m - k) i l hli]
    have e : n - m + (m - k) = n - k := by omega
    rw [e, hyp_of_le hli]
    push_cast
    ring
  · have : Icc l i = ∅ := by
      apply Finset.Icc_eq_empty; omega
    rw [this, Finset.sum_empty, hyp_of_lt (Nat.not_le.mp hli)]

/-- one-step weight, same count: (n+1−i)/(n+1) -/
theorem hyp_step_same (n i : ℕ) (hi : i ≤ n) : hyp n (n+1) i i = ((n + 1 - i : ℕ) : ℚ) / ((n + 1 : ℕ) : ℚ) := by
  rw [hyp_of_le (le_refl i)]
  have h := Nat.choose_mul_succ_eq n i
  have hpos := choose_pos_q (n := n+1) (i := i) (by omega)
  have e : n + 1 - n = 1 := by omega
  rw [e, Nat.sub_self, Nat.choose_zero_right, Nat.mul_one]
  have hq : ((n.choose i : ℕ) : ℚ) * ((n + 1 : ℕ) : ℚ) = (((n+1).choose i : ℕ) : ℚ) * ((n + 1 - i : ℕ) : ℚ) := by
    exact_mod_cast h
  have hn1 : ((n + 1 : ℕ) : ℚ) ≠ 0 := by positivity
  rw [div_eq_div_iff hpos hn1]
  linarith

/-- one-step weight, one derived allele dropped: (i+1)/(n+1) -/
theorem hyp_step_drop (n i : ℕ) (hi : i ≤ n) : hyp n (n+1) (i+1) i = ((i + 1 : ℕ) : ℚ) / ((n + 1 : ℕ) : ℚ) := by
  rw [hyp_of_le (Nat.le_succ i)]
  have h := Nat.add_one_mul_choose_eq n i
  have hpos := choose_pos_q (n := n+1) (i := i+1) (by omega)
  have e : n + 1 - n = 1 := by omega
  have e2 : i + 1 - i = 1 := by omega
  rw [e, e2, Nat.choose_self, Nat.mul_one]
  have hq : ((n + 1 : ℕ) : ℚ) * ((n.choose i : ℕ) : ℚ) = (((n+1).choose (i+1) : ℕ) : ℚ) * ((i + 1 : ℕ) : ℚ) := by
    exact_mod_cast h
  have hn1 : ((n + 1 : ℕ) : ℚ) ≠ 0 := by positivity
  rw [div_eq_div_iff hpos hn1]
  linarith

/-- one step reaches only j = i and j = i−1 -/
theorem hyp_step_zero (n i j : ℕ) (h : i < j ∨ j + 1 < i) : hyp n (n+1) i j = 0 := by
  rcases h with h | h
  · exact hyp_of_lt h
  · unfold hyp
    split_ifs
    · have e : n + 1 - n = 1 := by omega
      rw [e, Nat.choose_eq_zero_of_lt (by omega : 1 < i - j)]
      simp
    · rfl

/-- support: the weight is non-zero exactly on the window -/
theorem hyp_ne_zero_iff (m n i j : ℕ) (_hm : m ≤ n) (hi : i ≤ n) (hj : j ≤ m) :
    hyp m n i j ≠ 0 ↔ (j ≤ i ∧ i - j ≤ n - m) := by
  constructor
  · intro h
    by_cases hji : j ≤ i
    · refine ⟨hji, ?_⟩
      by_contra hc
      apply h
      rw [hyp_of_le hji, Nat.choose_eq_zero_of_lt (Nat.not_le.mp hc)]
      simp
    · exact absurd (hyp_of_lt (Nat.not_le.mp hji)) h
  · rintro ⟨hji, hw⟩
    rw [hyp_of_le hji]
    have h1 : 0 < m.choose j := Nat.choose_pos hj
    have h2 : 0 < (n - m).choose (i - j) := Nat.choose_pos hw
    have h3 : 0 < n.choose i := Nat.choose_pos hi
    have : (0 : ℚ) < ((m.choose j * (n - m).choose (i - j) : ℕ) : ℚ) / (n.choose i : ℕ) := by
      apply div_pos
      · exact_mod_cast Nat.mul_pos h1 h2
      · exact_mod_cast h3
    exact this.ne'

theorem hyp_nonneg (m n i j : ℕ) : 0 ≤ hyp m n i j := by
  unfold hyp; split_ifs
  · exact div_nonneg (Nat.cast_nonneg _) (Nat.cast_nonneg _)
  · exact le_refl 0

/-- mirror symmetry: relabelling derived ↔ ancestral -/
theorem hyp_mirror (m n i j : ℕ) (hm : m ≤ n) (hi : i ≤ n) (hj : j ≤ m) :
    hyp m n (n - i) (m - j) = hyp m n i j := by
  by_cases hw : j ≤ i ∧ i - j ≤ n - m
  · obtain ⟨hji, hw⟩ := hw
    rw [hyp_of_le hji, hyp_of_le (by omega : m - j ≤ n - i)]
    rw [Nat.choose_symm hj, Nat.choose_symm hi]
    have e : n - i - (m - j) = (n - m) - (i - j) := by omega
    rw [e, Nat.choose_symm hw]
  · have h0 : hyp m n i j = 0 := by
      by_contra hc
      exact hw ((hyp_ne_zero_iff m n i j hm hi hj).mp hc)
    rw [h0]
    by_contra hc
    have := (hyp_ne_zero_iff m n (n - i) (m - j) hm (by omega) (by omega)).mp hc
    apply hw
    omega

end DadiVerif
