import DadiVerif.Model.PDFs
import Mathlib.Tactic.Ring
import Mathlib.Tactic.Linarith
import Mathlib.Data.Nat.ModEq
/-! Loop lemmas for C17 (compiled bivariate densities): what a counted loop of writes leaves in a flat buffer, and that
    the row-major index map is injective on the box it is used on.  Nothing here depends on the generated files'
    content (only on the definitions of Model/PDFs.lean), so a change of the source cannot break this file. -/
namespace DadiVerif.PDFs

variable {α : Type}

theorem rowFill_succ (C : ℕ) (idx : ℕ → ℕ) (val : ℕ → α) (buf : ℕ → Option α) :
    rowFill (C + 1) idx val buf = write (rowFill C idx val buf) (idx C) (val C) := rfl

theorem rowFill_zero (idx : ℕ → ℕ) (val : ℕ → α) (buf : ℕ → Option α) : rowFill 0 idx val buf = buf := rfl

/-- a position no iteration writes keeps its content -/
theorem rowFill_of_not_mem (C : ℕ) (idx : ℕ → ℕ) (val : ℕ → α) (buf : ℕ → Option α) (t : ℕ)
    (h : ∀ jj < C, idx jj ≠ t) : rowFill C idx val buf t = buf t := by
  induction C with
  | zero => rfl
  | succ k ih =>
    rw [rowFill_succ, write, if_neg (fun e => h k (Nat.lt_succ_self k) e.symm)]
    exact ih fun jj hj => h jj (Nat.lt_succ_of_lt hj)

/-- a position written by exactly one iteration holds that iteration's value -/
theorem rowFill_of_inj (C : ℕ) (idx : ℕ → ℕ) (val : ℕ → α) (buf : ℕ → Option α) (jj : ℕ) (hjj : jj < C)
    (h : ∀ j' < C, j' ≠ jj → idx j' ≠ idx jj) : rowFill C idx val buf (idx jj) = some (val jj) := by
  induction C with
  | zero => exact absurd hjj (Nat.not_lt_zero _)
  | succ k ih =>
    rw [rowFill_succ, write]
    by_cases e : jj = k
    · subst e; rw [if_pos rfl]
    · have hk : jj < k := by omega
      rw [if_neg (fun e' => h k (Nat.lt_succ_self k) (fun e'' => e e''.symm) e'.symm)]
      exact ih hk fun j' hj' hne => h j' (Nat.lt_succ_of_lt hj') hne

theorem fill2_succ (R C : ℕ) (idx : ℕ → ℕ → ℕ) (val : ℕ → ℕ → α) :
    fill2 (R + 1) C idx val = rowFill C (idx R) (val R) (fill2 R C idx val) := rfl

theorem fill2_of_not_mem (R C : ℕ) (idx : ℕ → ℕ → ℕ) (val : ℕ → ℕ → α) (t : ℕ)
    (h : ∀ ii < R, ∀ jj < C, idx ii jj ≠ t) : fill2 R C idx val t = none := by
  induction R with
  | zero => rfl
  | succ k ih =>
    rw [fill2_succ, rowFill_of_not_mem _ _ _ _ _ (h k (Nat.lt_succ_self k))]
    exact ih fun ii hi => h ii (Nat.lt_succ_of_lt hi)

theorem fill2_of_inj (R C : ℕ) (idx : ℕ → ℕ → ℕ) (val : ℕ → ℕ → α) (ii jj : ℕ) (hii : ii < R) (hjj : jj < C)
    (h : ∀ i' < R, ∀ j' < C, (i' ≠ ii ∨ j' ≠ jj) → idx i' j' ≠ idx ii jj) :
    fill2 R C idx val (idx ii jj) = some (val ii jj) := by
  induction R with
  | zero => exact absurd hii (Nat.not_lt_zero _)
  | succ k ih =>
    rw [fill2_succ]
    by_cases e : ii = k
    · subst e
      exact rowFill_of_inj C (idx ii) (val ii) _ jj hjj fun j' hj' hne => h ii (Nat.lt_succ_self ii) j' hj' (Or.inr hne)
    · have hk : ii < k := by omega
      rw [rowFill_of_not_mem _ _ _ _ _ fun j' hj' => h k (Nat.lt_succ_self k) j' hj' (Or.inl fun e' => e e'.symm)]
      exact ih hk fun i' hi' j' hj' hne => h i' (Nat.lt_succ_of_lt hi') j' hj' hne

/-- `ii·C + jj` determines (ii, jj) when jj < C -/
theorem rowMajor_inj {C i j i' j' : ℕ} (hj : j < C) (hj' : j' < C) (h : i' * C + j' = i * C + j) : i' = i ∧ j' = j := by
  have hC : 0 < C := by omega
  have h1 : (i' * C + j') / C = i' := by
    rw [Nat.add_comm, Nat.add_mul_div_right _ _ hC, Nat.div_eq_of_lt hj', Nat.zero_add]
  have h2 : (i * C + j) / C = i := by
    rw [Nat.add_comm, Nat.add_mul_div_right _ _ hC, Nat.div_eq_of_lt hj, Nat.zero_add]
  have hi : i' = i := by rw [← h1, ← h2, h]
  subst hi
  exact ⟨rfl, by omega⟩

/-- the nested loop with the row-major index map fills exactly the cells of an R×C array, each with its own value -/
theorem fill2_rowMajor (R C : ℕ) (val : ℕ → ℕ → α) :
    (∀ i < R, ∀ j < C, fill2 R C (fun ii jj => ii * C + jj) val (rowMajor R C i j) = some (val i j)) ∧
    (∀ k, R * C ≤ k → fill2 R C (fun ii jj => ii * C + jj) val k = none) := by
  constructor
  · intro i hi j hj
    exact fill2_of_inj R C (fun ii jj => ii * C + jj) val i j hi hj fun i' _ j' hj' hne e => by
      obtain ⟨a, b⟩ := rowMajor_inj hj hj' e
      rcases hne with h | h
      · exact h a
      · exact h b
  · intro k hk
    refine fill2_of_not_mem R C _ val k fun ii hii jj hjj e => ?_
    have : ii * C + jj < R * C := by
      calc ii * C + jj < ii * C + C := by omega
        _ = (ii + 1) * C := by ring
        _ ≤ R * C := Nat.mul_le_mul_right C (by omega)
    omega

end DadiVerif.PDFs
