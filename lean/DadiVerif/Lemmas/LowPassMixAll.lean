import DadiVerif.Lemmas.LowPassRep
import DadiVerif.Lemmas.LowPassHW
import DadiVerif.Lemmas.LowPassAxis
/-! C18 helper lemmas, part 17: **the two branches of `projection_matrix` agree at F = 0, for every size.**
    The Hardy–Weinberg mixture over the genotype configurations of the individual-subsampling rows
    (`projMix0`, the limit of the F > 0 branch as F → 0⁺) is the hypergeometric row of the F = 0 branch (`hypW`):

      Σ_g ways(g)·#{m-subsets of g with allele count s} = C(N,m)·C(2m,s)·C(2N−2m, x−s),   Σ_g ways(g) = C(2N, x)

    (`hw_convolution`, `hwT_eq`), with the sums over `Numerics.part` turned into sums over the number of alternative
    homozygotes (`lsum_part`) and the subset counts of `projection_inbreeding` in closed form (`cntS_rep`). -/
set_option linter.unusedSimpArgs false
namespace DadiVerif.LowPass
open Finset

/-- the F = 0 "ways" of a sorted configuration is its Hardy–Weinberg weight -/
theorem waysOf_rep (N x a : ℕ) (h1 : 2 * a ≤ x) (h2 : x - a ≤ N) :
    waysOf (rep (N - (x - a)) (x - 2 * a) a) = ((hwW N x a : ℕ) : ℚ) := by
  obtain ⟨h, rfl⟩ : ∃ h, x = 2 * a + h := ⟨x - 2 * a, by omega⟩
  obtain ⟨r, rfl⟩ : ∃ r, N = r + h + a := ⟨N - (2 * a + h - a), by omega⟩
  have e1 : r + h + a - (2 * a + h - a) = r := by omega
  have e2 : 2 * a + h - 2 * a = h := by omega
  have e3 : r + h + a - a = r + h := by omega
  rw [waysOf_eq, hwW, if_pos h1, e1, e2, e3]
  simp only [rep_count0, rep_count1, rep_count2, multinom3, fact_eq]
  have c1 : ((r + h + a).choose a : ℚ) = ((r + h + a).factorial : ℚ) / ((a.factorial : ℚ) * ((r + h).factorial : ℚ)) := by
    rw [Nat.cast_choose ℚ (by omega : a ≤ r + h + a), e3]
  have c2 : ((r + h).choose h : ℚ) = ((r + h).factorial : ℚ) / ((h.factorial : ℚ) * (r.factorial : ℚ)) := by
    rw [Nat.cast_choose ℚ (by omega : h ≤ r + h), Nat.add_sub_cancel]
  push_cast
  rw [c1, c2]
  have := fun k : ℕ => (Nat.cast_ne_zero (R := ℚ)).mpr (Nat.factorial_ne_zero k)
  field_simp

theorem waysOf_rep' (N x a : ℕ) (h1 : a ∈ range (x / 2 + 1)) :
    (if x - a ≤ N then waysOf (rep (N - (x - a)) (x - 2 * a) a) else 0) = ((hwW N x a : ℕ) : ℚ) := by
  have h1' : 2 * a ≤ x := by simp only [mem_range] at h1; omega
  split_ifs with h2
  · exact waysOf_rep N x a h1' h2
  · rw [hwW_eq_zero_of_lt (Or.inr (Or.inr (by omega)))]; simp

/-- Σ over the configurations of the F = 0 "ways" = C(2N, x): the normalisation of the F = 0 partition probabilities -/
theorem ways_total (x N : ℕ) : lsum ((part x N 0 2).map waysOf) = (((2 * N).choose x : ℕ) : ℚ) := by
  rw [lsum_part, Finset.sum_congr rfl (fun a ha => waysOf_rep' N x a ha), ← hwT_eq, hwT]
  push_cast; rfl

/-- `projection_inbreeding(g, 2m)[s]` for a configuration of N ≥ m individuals: subset count / C(N, m) -/
theorem projInb_eq_cntS (g : List ℕ) (hb : ∀ v ∈ g, v ≤ 2) (m s : ℕ) :
    projInb g (2 * m) s = ((cntS m g s : ℕ) : ℚ) / ((g.length.choose m : ℕ) : ℚ) := by
  unfold projInb inbFromSums
  rw [half_two_mul]
  have hle := combSums_le g hb (2 * m)
  rw [half_two_mul] at hle
  have : (combSums m g).countP (fun t => decide (t ≤ 2 * m)) = (combSums m g).length := by
    rw [List.countP_eq_length]
    intro t ht; simpa using hle t ht
  rw [this]
  simp only [combSums, List.length_map, combs_length]
  rfl

/-- **`projMix0 = hypW` for every size** -/
theorem projMix0_eq_hypW (N m af j : ℕ) (hm : m ≤ N) (haf : af ≤ 2 * N) :
    projMix0 (2 * N) (2 * m) af j = hypW (2 * m) (2 * N) af j := by
  have hW : lsum ((part af N 0 2).map (partWeight 0)) = (((2 * N).choose af : ℕ) : ℚ) := by
    have : (part af N 0 2).map (partWeight 0) = (part af N 0 2).map waysOf := by
      apply List.map_congr_left; intro g _; simp [partWeight]
    rw [this, ways_total]
  have hWpos : (((2 * N).choose af : ℕ) : ℚ) ≠ 0 := by exact_mod_cast (Nat.choose_pos haf).ne'
  have hCpos : ((N.choose m : ℕ) : ℚ) ≠ 0 := by exact_mod_cast (Nat.choose_pos hm).ne'
  -- the mixture as one sum over configurations
  have h1 : projMix0 (2 * N) (2 * m) af j
      = lsum ((part af N 0 2).map fun g => ((cntS m g j : ℕ) : ℚ) * waysOf g) / (((N.choose m : ℕ) : ℚ) * (((2 * N).choose af : ℕ) : ℚ)) := by
    unfold projMix0
    rw [half_two_mul, pw, List.map_map, hW, ← lsum_map_div]
    apply lsum_map_congr
    intro g hg
    obtain ⟨hl, _, hb, _, _⟩ := part_facts hg
    simp only [Function.comp_apply, Gen.LowPass.projAccum, projInb_eq_cntS g hb, hl, partWeight, if_true]
    field_simp
  rw [h1, lsum_part]
  -- configuration by configuration: weight × subset count
  have h2 : ∀ a ∈ range (af / 2 + 1),
      (if af - a ≤ N then ((cntS m (rep (N - (af - a)) (af - 2 * a) a) j : ℕ) : ℚ) * waysOf (rep (N - (af - a)) (af - 2 * a) a) else 0)
        = ((hwW N af a * hwQ (N - (af - a)) (af - 2 * a) a m j : ℕ) : ℚ) := by
    intro a ha
    have : ((hwW N af a * hwQ (N - (af - a)) (af - 2 * a) a m j : ℕ) : ℚ)
        = ((cntS m (rep (N - (af - a)) (af - 2 * a) a) j : ℕ) : ℚ) * ((hwW N af a : ℕ) : ℚ) := by
      rw [cntS_rep, hwQ]; push_cast; ring
    rw [this, ← waysOf_rep' N af a ha]
    split_ifs <;> simp
  rw [Finset.sum_congr rfl h2, ← Nat.cast_sum]
  by_cases hj : j ≤ af
  · rw [hw_convolution N m af j hm hj]
    unfold hypW
    rw [if_pos hj]
    simp only [choose_eq]
    have e : 2 * N - 2 * m = 2 * (N - m) := by omega
    rw [e]
    push_cast
    field_simp
  · -- more alleles in the subsample than in the sample: both sides vanish
    unfold hypW
    rw [if_neg hj, Finset.sum_eq_zero, Nat.cast_zero, zero_div]
    intro a ha
    simp only [mem_range] at ha
    rw [hwQ, Finset.sum_eq_zero, mul_zero]
    intro a' ha'
    simp only [mem_range] at ha'
    split_ifs with hc
    · rw [Nat.choose_eq_zero_of_lt (by omega : af - 2 * a < j - 2 * a')]; simp
    · rfl

end DadiVerif.LowPass
