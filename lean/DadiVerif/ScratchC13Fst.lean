import DadiVerif.Lemmas.DataDictFst
namespace DadiVerif
open DataDict Gen.DD

theorem C13_fst_wc (ns idx : List ℕ) (hr : 2 ≤ ns.length) (h2 : ∀ n ∈ ns, 2 ≤ n) (hbar : ℚ)
    (hb : wcB ns idx hbar = 0) :
    fstAAt ns idx = wcA ns idx hbar ∧ fstDAt ns idx = wcC hbar := by
  have hne : ns ≠ [] := by intro e; rw [e] at hr; simp at hr
  have hr0 : wcR ns ≠ 0 := by
    unfold wcR
    have : 0 < ns.length := by omega
    positivity
  have hnb2 := wcNbar_ge ns hne h2
  have hnb0 : wcNbar ns ≠ 0 := by linarith
  have hnb1 : wcNbar ns - 1 ≠ 0 := by linarith
  have hnb21 : 2 * wcNbar ns - 1 ≠ 0 := by linarith
  -- the model's constants are the paper's
  have hR : (fstConsts ns).r = wcR ns := rfl
  have hNbar : (fstConsts ns).nbar = wcNbar ns := rfl
  have hNsum : (fstConsts ns).nsum = wcR ns * wcNbar ns := by
    show ratSumNat ns = _
    unfold wcNbar ratSumNat
    field_simp
  have hNc : (fstConsts ns).nc = wcNc ns := by
    show fstNc (ratSumNat ns) _ _ = _
    have : ratSumNat ns = wcR ns * wcNbar ns := hNsum
    unfold fstNc wcNc
    rw [this]; rfl
  have hP : fstPbar ns idx = wcPbar ns idx := by
    unfold fstPbar wcPbar
    rw [hNsum, hR, sumPops_eq]
    unfold fstPbarOuter fstPbarTerm fstPtw
    congr 1
    apply sumMap_congr
    intro nc _
    ring
  have hS : fstS2 ns idx = wcS2 ns idx := by
    unfold fstS2 wcS2
    simp only [hP, hR, hNbar, sumPops_eq]
    unfold fstS2Outer fstS2Term fstPtw
    congr 1
    apply sumMap_congr
    intro nc _
    ring
  -- random mating: b = 0 fixes h̄
  have hH : hbar = 4 * wcNbar ns / (2 * wcNbar ns - 1) * wcH ns idx := by
    unfold wcB at hb
    have h1 : wcNbar ns / (wcNbar ns - 1) ≠ 0 := div_ne_zero hnb0 hnb1
    have h3 := (mul_eq_zero.mp hb).resolve_left h1
    field_simp at h3 ⊢
    linarith
  have key : 1 / (wcNbar ns - 1) * (wcH ns idx - 4 * wcNbar ns / (2 * wcNbar ns - 1) * wcH ns idx / 4)
      = 1 / (2 * wcNbar ns - 1) * wcH ns idx := by
    field_simp
    ring
  constructor
  · unfold fstAAt wcA
    simp only [hR, hNbar, hNc, hP, hS]
    rw [hH, key]
    unfold fstA wcH
    rfl
  · unfold fstDAt wcC
    simp only [hR, hNbar, hP, hS]
    rw [hH]
    unfold fstD wcH
    ring
end DadiVerif
