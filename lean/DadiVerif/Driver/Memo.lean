import DadiVerif.Model.Memo
import DadiVerif.Generated.Effects
/- driver ops for the memo tables (C20).  The model of one memo table of the library is `Memo.runOps key id`, where an argument
   is the tuple of ALL inputs of the cached computation (the `usedParams` of the generated table, in that order, coded as
   naturals) and `key` keeps the components the source's key expression records (`keyParams`): the value returned for a call is
   the argument tuple whose computation produced it — its own on a miss, an earlier one on a hit.
   c20.inputs <cache>               -> ok <usedParams,…> <keyParams,…>      | err nocache
   c20.memo <cache> <t;t;…>         -> ok <t;t;…>    (t = n,n,… ; for every call the tuple whose value is returned)
                                       err nocache | err arity -/
namespace DadiVerif.Driver.Memo
open DadiVerif

def parseTuple (s : String) : Option (List Nat) := (s.splitOn ",").mapM String.toNat?
def parseOps (s : String) : Option (List (List Nat)) := (s.splitOn ";").mapM parseTuple

def findCache (name : String) : Option Gen.Effects.CacheInfo :=
  Gen.Effects.caches.find? (fun c => c.cache == name && c.memo)

/-- which inputs of the cached computation the key records -/
def maskOf (c : Gen.Effects.CacheInfo) : List Bool := c.usedParams.map (fun p => c.keyParams.contains p)

/-- the key of an argument tuple: the recorded components -/
def project : List Bool → List Nat → List Nat
  | b :: bs, x :: xs => if b then x :: project bs xs else project bs xs
  | _, _ => []

def showTuple (t : List Nat) : String := ",".intercalate (t.map toString)

/-- the run of one memo table over a history of argument tuples -/
def run (mask : List Bool) (ops : List (List Nat)) : List (List Nat) :=
  (Memo.runOps (project mask) (fun t => t) [] ops).2

def handle (toks : List String) : Option String :=
  match toks with
  | ["c20.inputs", name] =>
      match findCache name with
      | some c => some ("ok " ++ ",".intercalate c.usedParams ++ " " ++ ",".intercalate c.keyParams)
      | none => some "err nocache"
  | ["c20.memo", name, ops] => do
      let ops ← parseOps ops
      match findCache name with
      | none => some "err nocache"
      | some c =>
        if ops.any (fun t => t.length != c.usedParams.length) then some "err arity"
        else some ("ok " ++ ";".intercalate ((run (maskOf c) ops).map showTuple))
  | _ => none

end DadiVerif.Driver.Memo
