import DadiVerif.Model.Memo
import DadiVerif.Generated.Effects
/- driver ops for the memo tables (C20).  The model of one memo table of the library is `Memo.runOps key id`, where an argument
   is the tuple of ALL inputs of the cached computation (the `usedParams` of the generated table, in that order, coded as
   naturals) and `key` keeps the components the source's key expression records (`keyParams`): the value returned for a call is
   the argument tuple whose computation produced it — its own on a miss, an earlier one on a hit.
   c20.inputs <cache>               -> ok <usedParams,…> <keyParams,…>      | err nocache
   c20.memo <cache> <t;t;…>         -> ok <t;t;…>    (t = n,n,… ; for every call the tuple whose value is returned)
                                       err nocache | err arity
   c20.flow <function>              -> ok <params,…> <params the alias-flow analysis says may be modified,… | ->   | err noflow
   c20.maskwrite <method> <p,p,…> <bits>  -> ok <bits>   (the memory block of a mask — one character 0/1 per byte — after the in-place
                                       writes of the method, for the mask whose logical element k lives at byte p_k of the block)
                                       err nofn | err pos | err index
   c20.arrwrite <direct|flat|ravel|flatten> <all|i> <0|1> <p,p,…> <bits>  -> ok <bits>   (one store through the given handle: the
                                       primitives of the array model against numpy itself) -/
namespace DadiVerif.Driver.Memo
open DadiVerif

def parseTuple (s : String) : Option (List Nat) := (s.splitOn ",").mapM String.toNat?
def parseOps (s : String) : Option (List (List Nat)) := (s.splitOn ";").mapM parseTuple

def findCache (name : String) : Option Gen.Effects.CacheInfo :=
  Gen.Effects.caches.find? (fun c => c.cache == name && c.memo)

/-- which inputs of the cached computation the key records -/
def maskOf (c : Gen.Effects.CacheInfo) : List Bool := c.usedParams.map (fun p => c.keyParams.contains p)

/-- the key of an argument tuple: the recorded components -/
def project : List Bool → List Nat → List Nat
  | b :: bs, x :: xs => if b then x :: project bs xs else project bs xs
  | _, _ => []

def showTuple (t : List Nat) : String := ",".intercalate (t.map toString)

/-- the run of one memo table over a history of argument tuples -/
def run (mask : List Bool) (ops : List (List Nat)) : List (List Nat) :=
  (Memo.runOps (project mask) (fun t => t) [] ops).2

/-! ### argument-alias flow (effect analysis of the demes front end)

`Gen.Effects.Flow` is the control-flow skeleton of a function with respect to ONE tracked argument object: which local names are
rebound to a fresh value (`fresh`), to a value that may be the object some other names hold (`alias`), through which names the
object is written (`mutate`: item store, in-place method, call of a helper whose summary says it modifies that parameter), with
`seq` / `ite` / `loop` / `stop` (return, raise).  `arun` is the forward may-alias analysis: the state is the set of names that may
hold the tracked object; branches are joined by union; a loop is iterated to a post-fixpoint (checked — if it is not reached within
the fuel the verdict is "may modify").  `C20_flow_sound` (Props/C20.lean) proves it against the path semantics `Exec`. -/
/-- union of two sets of names (no duplicates added: the sets stay as small as the number of names) -/
def junion (S T : List Nat) : List Nat := S ++ T.filter (fun x => !S.contains x)

/-- `k` rounds of `S ↦ S ∪ step S` -/
def iterJoin (step : List Nat → List Nat) : Nat → List Nat → List Nat
  | 0, S => S
  | k + 1, S => iterJoin step k (junion S (step S))

open Gen.Effects in
/-- may-alias analysis: (names that may hold the tracked object after the statement, may the object have been modified) -/
def arun (fuel : Nat) : Flow → List Nat → List Nat × Bool
  | .fresh x, S => (S.filter (· != x), false)
  | .alias x ys, S => (if ys.any (S.contains ·) then x :: S.filter (· != x) else S.filter (· != x), false)
  | .mutate x, S => (S, S.contains x)
  | .skip, S => (S, false)
  | .stop, _ => ([], false)
  | .seq a b, S =>
      match arun fuel a S with
      | (S1, f1) => match arun fuel b S1 with
        | (S2, f2) => (S2, f1 || f2)
  | .ite a b, S =>
      match arun fuel a S, arun fuel b S with
      | (S1, f1), (S2, f2) => (junion S1 S2, f1 || f2)
  | .loop a, S =>
      match arun fuel a (iterJoin (fun acc => (arun fuel a acc).1) fuel S) with
      | (S1, f1) => if S1.all ((iterJoin (fun acc => (arun fuel a acc).1) fuel S).contains ·) then (iterJoin (fun acc => (arun fuel a acc).1) fuel S, f1) else ([], true)

/-- rounds of `S ↦ S ∪ body(S)` before the post-fixpoint test of a loop (a may-alias set grows by whole names: the skeletons of the
    library need one or two rounds; if the test fails the verdict is "may modify") -/
def flowFuel : Nat := 3

open Gen.Effects in
/-- parameters (by position) of a tabled function that the analysis says may be modified: parameter `p` is tracked by starting from
    the state `{p}` (names `0 … k-1` are the parameters) -/
def flowMutated (f : FlowInfo) : List String :=
  (f.params.zipIdx.filter (fun pi => (arun flowFuel f.body [pi.2]).2)).map (·.1)

/-! ### in-place writes into a strided array (the mask of a spectrum)

`Arr` is a numpy array as its methods see it: a memory block `buf` and, for every logical (row-major) element `k`, the position
`pos[k]` of that element in the block — a C-ordered array has `pos = [o, o+1, …]`, a transposed / Fortran-ordered / reversed / sliced
one any other injective list.  The generated rows `Gen.Effects.maskWrites` (one per in-place store of a Spectrum method into its own
mask) are executed by `applyWrite`: `x.flat[i] = v` and `x[...] = v` address logical elements; `h = x.ravel(); h[i] = v` writes
into `x` only when `x` is C-contiguous (`ravel` copies otherwise and the temporary is dropped); `x.flatten()` always copies. -/
structure Arr where
  buf : List Bool
  pos : List Nat
deriving Repr

def Arr.size (a : Arr) : Nat := a.pos.length
/-- the array's content in logical order -/
def Arr.logical (a : Arr) : List Bool := a.pos.map (fun p => a.buf.getD p false)
/-- numpy's C-contiguity: logical element `k` lives at `pos[0] + k` -/
def Arr.contig (a : Arr) : Bool := a.pos == List.range' (a.pos.headD 0) a.pos.length
def Arr.setLogical (a : Arr) (k : Nat) (v : Bool) : Arr := { a with buf := a.buf.set (a.pos.getD k 0) v }
def Arr.setAll (a : Arr) (v : Bool) : Arr := { a with buf := a.pos.foldl (fun b p => b.set p v) a.buf }

/-- a Python index into a sequence of length `n` (negative: from the end); `none` = IndexError -/
def pyIndex (n : Nat) (i : Int) : Option Nat :=
  if 0 ≤ i then (if i.toNat < n then some i.toNat else none)
  else (if (-i).toNat ≤ n then some (n - (-i).toNat) else none)

open Gen.Effects in
/-- one generated in-place store executed on the array (`none`: the real statement raises, or the row is outside the model) -/
def applyWrite (w : MaskWrite) (a : Arr) : Option Arr :=
  match w.index, w.handle with
  | .all, .direct => some (a.setAll w.value)
  | .all, .flat => some (a.setAll w.value)
  | .all, .ravel => some (if a.contig then a.setAll w.value else a)
  | .all, .flatten => some a
  | .idx _, .direct => none
  | _, .other => none
  | .idx i, .flat => (pyIndex a.size i).map (fun k => a.setLogical k w.value)
  | .idx i, .ravel => (pyIndex a.size i).map (fun k => if a.contig then a.setLogical k w.value else a)
  | .idx i, .flatten => (pyIndex a.size i).map (fun _ => a)

open Gen.Effects in
def applyWrites : List MaskWrite → Arr → Option Arr
  | [], a => some a
  | w :: ws, a => match applyWrite w a with
    | some a' => applyWrites ws a'
    | none => none

open Gen.Effects in
/-- what the same store does to a plain list holding the logical content (the layout-free specification) -/
def writeLogical (w : MaskWrite) (l : List Bool) : Option (List Bool) :=
  match w.index with
  | .all => some (l.map (fun _ => w.value))
  | .idx i => (pyIndex l.length i).map (fun k => l.set k w.value)

open Gen.Effects in
def writesLogical : List MaskWrite → List Bool → Option (List Bool)
  | [], l => some l
  | w :: ws, l => match writeLogical w l with
    | some l' => writesLogical ws l'
    | none => none

/-- the generated rows of one method writing into the attribute `attr` -/
def writesOf (fn attr : String) : List Gen.Effects.MaskWrite := Gen.Effects.maskWrites.filter (fun w => w.fn == fn && w.attr == attr)

def parseBits (s : String) : Option (List Bool) := s.toList.mapM (fun c => if c == '0' then some false else if c == '1' then some true else none)
def showBits (l : List Bool) : String := String.ofList (l.map (fun b => if b then '1' else '0'))

def findFlow (name : String) : Option Gen.Effects.FlowInfo := Gen.Effects.flows.find? (fun f => f.fn == name)

def handle (toks : List String) : Option String :=
  match toks with
  | ["c20.flow", name] =>
      match findFlow name with
      | some f => some ("ok " ++ ",".intercalate f.params ++ " " ++ (if (flowMutated f).isEmpty then "-" else ",".intercalate (flowMutated f)))
      | none => some "err noflow"
  | ["c20.maskwrite", name, pos, bits] => do
      let pos ← parseTuple pos
      let buf ← parseBits bits
      let ws := writesOf name "mask"
      if ws.isEmpty then some "err nofn"
      else if pos.any (fun p => p ≥ buf.length) || pos.isEmpty then some "err pos"
      else match applyWrites ws { buf := buf, pos := pos } with
        | some a => some ("ok " ++ showBits a.buf)
        | none => some "err index"
  | ["c20.arrwrite", h, ix, v, pos, bits] => do
      let pos ← parseTuple pos
      let buf ← parseBits bits
      let handle ← (match h with
        | "direct" => some Gen.Effects.Handle.direct | "flat" => some .flat | "ravel" => some .ravel | "flatten" => some .flatten | _ => none)
      let index ← (if ix == "all" then some Gen.Effects.WIndex.all else ix.toInt?.map Gen.Effects.WIndex.idx)
      let value ← (if v == "1" then some true else if v == "0" then some false else none)
      if pos.any (fun p => p ≥ buf.length) || pos.isEmpty then some "err pos"
      else match applyWrite { fn := "", attr := "", handle := handle, index := index, value := value } { buf := buf, pos := pos } with
        | some a => some ("ok " ++ showBits a.buf)
        | none => some "err index"
  | ["c20.inputs", name] =>
      match findCache name with
      | some c => some ("ok " ++ ",".intercalate c.usedParams ++ " " ++ ",".intercalate c.keyParams)
      | none => some "err nocache"
  | ["c20.memo", name, ops] => do
      let ops ← parseOps ops
      match findCache name with
      | none => some "err nocache"
      | some c =>
        if ops.any (fun t => t.length != c.usedParams.length) then some "err arity"
        else some ("ok " ++ ";".intercalate ((run (maskOf c) ops).map showTuple))
  | _ => none

end DadiVerif.Driver.Memo
