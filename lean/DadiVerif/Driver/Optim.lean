import DadiVerif.Model.Proto
import DadiVerif.Model.Optim
/- driver ops for the optimiser plumbing (C12).
   Vectors are `a,b,c` (`-` = empty); lists with absent entries use `n` (`1/2,n,3`); a whole argument that is Python `None`
   is `N`; a list of vectors is `v;v;v` (`=` = no vector); likelihood values may be `nan`; a function table (exp, log) is
   `x1,x2,…;y1,y2,…` (`-;-` = empty).

   c12.table                                   -> ok name|optimizer|objLog|negated|maximize|boundsToObj|hasStart|optBounded|llScale ; …
   c12.flags                                   -> ok <objectFuncShapeOk> <objectFuncLogShapeOk> <projectShapeOk> <perturbNoneIsInf>
                                                     <perturbMutatesBounds> <perturbDrawShapeOk> <optReexported> <outOfBoundsVal> <skipped,…>
   c12.down <optvec> <fixed|N>                 -> ok <optvec>            | err ValueError
   c12.up <vec> <fixed|N> <int|float>          -> ok <vec>               | err IndexError       (element type of <vec>)
   c12.obj <params> <lower|N> <upper|N> <fixed|N> <llscale> <keys> <vals> <int|float>           (element type of <params>)
                                               -> ok <value> <point evaluated | ->   | err IndexError | err missing_model_entry
   c12.trace <wrapper> <p0> <lower|N> <upper|N> <fixed|N> <llscale> <queries> <xopt> <fopt> <keys> <vals> <exptab> <logtab> <tol> <vtol>
             <int|float: p0> <int|float: queries> <int|float: xopt>
                                               -> ok <start|N> <optLower|N> <optUpper|N> <values> <evals> <result|N> <reported|N> <failed clauses | -> <answer is an evaluated pair 0|1>
                                                  | err unknown_wrapper | err ValueError | err IndexError | err missing_table_entry | err missing_model_entry
   c12.points  <same arguments as c12.trace>   -> ok <vectors whose likelihood c12.trace will look up> (the likelihood table given is ignored)
   c12.perturb <params> <factors> <lower|N> <upper|N>  -> ok <vec>       | err shape
   c12.perturbexp <fold> <us>                  -> ok <exponents of 2, one per variate>           (generated `perturbExponent`)
   c12.perturbfold <params> <fold> <us> <lower|N> <upper|N> <pow2tab>
                                               -> ok <vec>               | err shape | err missing_table_entry
   c12.args                                    -> ok <signature of _object_func after params: a,b,…> <required: a,b,…>
                                                     wrapper|own,own,…|param=arg,param=arg,… ; …
   c12.grid <wrapper> <slices> <fixed|N> <keys> <vals> <0|1: points only>
             slices: `c:a:b:m` (a:b:mj) or `s:a:b:step:0|1` (a:b:step, 1 = written with integers only), joined by `;`
                                               -> ok <int|float: element type of the queries> <evaluation points, in order> <values, in order>
                                                     <returned vector|N> <reported|N> <brute's xmin|N>
                                                  | err unknown_wrapper | err ValueError (empty grid) | err IndexError | err missing_model_entry
-/
namespace DadiVerif.Driver.Optim
open DadiVerif DadiVerif.Proto DadiVerif.Optim

def parseOptEntry (s : String) : Option (Option Rat) :=
  if s = "n" then some none else (parseRat s).map some

def parseOptVec (s : String) : Option (List (Option Rat)) :=
  if s = "-" then some [] else (s.splitOn ",").mapM parseOptEntry

/-- `N` = Python None -/
def parseOptBounds (s : String) : Option (Option (List (Option Rat))) :=
  if s = "N" then some none else (parseOptVec s).map some

def parseVecs (s : String) : Option (List (List Rat)) :=
  if s = "=" then some [] else (s.splitOn ";").mapM parseList

def parseLLs (s : String) : Option (List (Option Rat)) :=
  if s = "-" then some [] else (s.splitOn ",").mapM fun t => if t = "nan" then some none else (parseRat t).map some

abbrev Tab := List (Rat × Rat)

def parseTab (s : String) : Option Tab :=
  match s.splitOn ";" with
  | [xs, ys] => do
      let xs ← parseList xs; let ys ← parseList ys
      if xs.length = ys.length then some (xs.zip ys) else none
  | _ => none

def Tab.fn (t : Tab) (dflt : Rat) (x : Rat) : Rat := ((t.find? (fun p => p.1 == x)).map (·.2)).getD dflt

def showOptVec (l : List (Option Rat)) : String :=
  if l.isEmpty then "-" else ",".intercalate (l.map fun | none => "n" | some x => showRat x)

def showOptBounds : Option (List (Option Rat)) → String
  | none => "N"
  | some l => showOptVec l

def showBV : BV → String
  | .absent => "n"
  | .val r => showRat r
  | .nan => "nan"
  | .winf => "winf"

def showBVs : Option (List BV) → String
  | none => "N"
  | some l => if l.isEmpty then "-" else ",".intercalate (l.map showBV)

def showVecs (l : List (List Rat)) : String :=
  if l.isEmpty then "=" else ";".intercalate (l.map showList)

def showOptList : Option (List Rat) → String
  | none => "N"
  | some l => showList l

abbrev MTab := List (List Rat × Option Rat)

def MTab.fn (t : MTab) : ModelFn := fun v => ((t.find? (fun p => p.1 == v)).map (·.2)).join
def MTab.has (t : MTab) (v : List Rat) : Bool := t.any (fun p => p.1 == v)

def parseMTab (keys vals : String) : Option MTab := do
  let ks ← parseVecs keys; let vs ← parseLLs vals
  if ks.length = vs.length then some (ks.zip vs) else none

def b01 (b : Bool) : String := if b then "1" else "0"

/-- the real code raises ValueError when a projected-down list does not have the length of `fixed_params` -/
def lenOk {α : Type} (l : List α) : Option Fixed → Bool
  | none => true
  | some fx => l.length == fx.length

def freeLenOk (l : List Rat) : Option Fixed → Bool
  | none => true
  | some fx => decide (nFree fx ≤ l.length)

def parseDType (s : String) : Option DType :=
  if s = "int" then some .int else if s = "float" then some .float else none

def traceOp (pointsOnly : Bool) (w : Wrapper) (pb : Problem) (qs : List (List Rat)) (xopt : List Rat) (fopt : Rat) (mt : MTab)
    (expT logT : Tab) (tol vtol : Rat) (dp dq da : DType) : String :=
  -- what the real code refuses
  if !(lenOk pb.p0 pb.fixed) then "err ValueError" else
  if !((match pb.lower with | none => true | some l => lenOk l pb.fixed) && (match pb.upper with | none => true | some l => lenOk l pb.fixed))
     && (w.optLower.isSome || w.optUpper.isSome) then "err ValueError" else
  if !(qs.all (freeLenOk · pb.fixed)) || !(freeLenOk xopt pb.fixed) then "err IndexError" else
  let render (d : Rat) : String × WrapperRun :=
    let expF := expT.fn d; let logF := logT.fn d
    let r := runWrapperT dp dq da w expF logF pb mt.fn (replay qs (xopt, fopt)) (qs.length + 1)
    let failed := checkTrace w expF logF pb mt.fn tol vtol r
    (s!"{showOptList r.start} {showBVs r.optLower} {showBVs r.optUpper} {showList (r.run.history.map (·.2))} " ++
     s!"{showVecs r.run.evals} {showOptList r.result} {match r.reported with | none => "N" | some f => showRat f} " ++
     (if failed.isEmpty then "-" else ",".intercalate failed) ++ (if answerEvaluated vtol r.run then " 1" else " 0"), r)
  let (s0, r0) := render 0
  let (s1, _) := render 1
  if s0 != s1 then "err missing_table_entry" else
  -- every point whose likelihood the answer depends on must be in the table of recorded likelihoods
  let lo := w.objLower.bind (evalBObj (expT.fn 0) (logT.fn 0) pb true)
  let up := w.objUpper.bind (evalBObj (expT.fn 0) (logT.fn 0) pb false)
  let wouldEval (v : List Rat) : Bool := (objectFunc lo up none 1 mt.fn v).2.isSome
  let extra := (r0.result.toList ++ (if w.maximize && w.start.isSome then [startFull pb] else [])).filter wouldEval
  if pointsOnly then "ok " ++ showVecs (r0.run.evals ++ extra) else
  if !((r0.run.evals ++ extra).all mt.has) then "err missing_model_entry" else
  "ok " ++ s0

def parseSlice (s : String) : Option GridSlice :=
  match s.splitOn ":" with
  | ["c", a, b, m] => do
      let a ← parseRat a; let b ← parseRat b; let m ← m.toNat?
      some (.count a b m)
  | ["s", a, b, st, lit] => do
      let a ← parseRat a; let b ← parseRat b; let st ← parseRat st
      if lit = "1" then some (.step a b st true) else if lit = "0" then some (.step a b st false) else none
  | _ => none

def parseSlices (s : String) : Option (List GridSlice) := (s.splitOn ";").mapM parseSlice

def showDType : DType → String
  | .int => "int"
  | .float => "float"

def gridOp (pointsOnly : Bool) (w : Wrapper) (sl : List GridSlice) (fx : Option Fixed) (mt : MTab) : String :=
  let pts := gridPoints sl
  if pts.isEmpty then "err ValueError" else
  if !(pts.all (freeLenOk · fx)) then "err IndexError" else
  let pb : Problem := ⟨[], none, none, fx, 1⟩
  let r := runGridT w id id pb mt.fn sl
  if pointsOnly then s!"ok {showDType (gridDType sl)} {showVecs r.run.evals}" else
  if !(r.run.evals.all mt.has) then "err missing_model_entry" else
  s!"ok {showDType (gridDType sl)} {showVecs r.run.evals} {showList (r.run.history.map (·.2))} {showOptList r.result} " ++
  s!"{match r.reported with | none => "N" | some f => showRat f} {showOptList (r.run.final.map (·.1))}"

def handle (toks : List String) : Option String :=
  match toks with
  | ["c12.table"] =>
      some ("ok " ++ ";".intercalate (Gen.Optim.wrappers.map fun w =>
        s!"{w.name}|{w.optimizer}|{b01 w.objLog}|{b01 w.negated}|{b01 w.maximize}|{b01 (w.objLower.isSome && w.objUpper.isSome)}|" ++
        s!"{b01 w.start.isSome}|{b01 (w.optLower.isSome || w.optUpper.isSome)}|{b01 w.objLlScale}"))
  | ["c12.flags"] =>
      some (s!"ok {b01 Gen.Optim.objectFuncShapeOk} {b01 Gen.Optim.objectFuncLogShapeOk} {b01 Gen.Optim.projectShapeOk} " ++
            s!"{b01 Gen.Optim.perturbNoneIsInf} {b01 Gen.Optim.perturbMutatesBounds} {b01 Gen.Optim.perturbDrawShapeOk} " ++
            s!"{b01 Gen.Optim.optReexported} {showRat Gen.Optim.outOfBoundsVal} " ++
            (if Gen.Optim.skippedWrappers.isEmpty then "-" else ",".intercalate Gen.Optim.skippedWrappers))
  | ["c12.down", v, fx] => do
      let v ← parseOptVec v; let fx ← parseOptBounds fx
      if !(lenOk v fx) then some "err ValueError" else some ("ok " ++ showOptVec (projectDownO v fx))
  | ["c12.up", v, fx, dt] => do
      let v ← parseList v; let fx ← parseOptBounds fx; let dt ← parseDType dt
      if !(freeLenOk v fx) then some "err IndexError" else some ("ok " ++ showList (projectUpTO dt v fx))
  | ["c12.obj", params, lo, up, fx, sc, keys, vals, dt] => do
      let params ← parseList params; let lo ← parseOptBounds lo; let up ← parseOptBounds up; let fx ← parseOptBounds fx
      let sc ← parseRat sc; let mt ← parseMTab keys vals; let dt ← parseDType dt
      if !(freeLenOk params fx) then some "err IndexError" else
      let r := objectFuncT dt lo up fx sc mt.fn params
      match r.2 with
      | some pu => if mt.has pu then some s!"ok {showRat r.1} {showList pu}" else some "err missing_model_entry"
      | none => some s!"ok {showRat r.1} N"
  | ["c12.trace", wn, p0, lo, up, fx, sc, qs, xopt, fopt, keys, vals, expT, logT, tol, vtol, dp, dq, da] => do
      let dp ← parseDType dp; let dq ← parseDType dq; let da ← parseDType da
      let p0 ← parseList p0; let lo ← parseOptBounds lo; let up ← parseOptBounds up; let fx ← parseOptBounds fx
      let sc ← parseRat sc; let qs ← parseVecs qs; let xopt ← parseList xopt; let fopt ← parseRat fopt
      let mt ← parseMTab keys vals; let expT ← parseTab expT; let logT ← parseTab logT
      let tol ← parseRat tol; let vtol ← parseRat vtol
      match Gen.Optim.wrappers.find? (fun w => w.name == wn) with
      | none => some "err unknown_wrapper"
      | some w => some (traceOp false w ⟨p0, lo, up, fx, sc⟩ qs xopt fopt mt expT logT tol vtol dp dq da)
  | ["c12.points", wn, p0, lo, up, fx, sc, qs, xopt, fopt, keys, vals, expT, logT, tol, vtol, dp, dq, da] => do
      let dp ← parseDType dp; let dq ← parseDType dq; let da ← parseDType da
      let p0 ← parseList p0; let lo ← parseOptBounds lo; let up ← parseOptBounds up; let fx ← parseOptBounds fx
      let sc ← parseRat sc; let qs ← parseVecs qs; let xopt ← parseList xopt; let fopt ← parseRat fopt
      let mt ← parseMTab keys vals; let expT ← parseTab expT; let logT ← parseTab logT
      let tol ← parseRat tol; let vtol ← parseRat vtol
      match Gen.Optim.wrappers.find? (fun w => w.name == wn) with
      | none => some "err unknown_wrapper"
      | some w => some (traceOp true w ⟨p0, lo, up, fx, sc⟩ qs xopt fopt mt expT logT tol vtol dp dq da)
  | ["c12.perturb", params, factors, lo, up] => do
      let params ← parseList params; let factors ← parseList factors
      let lo ← parseOptBounds lo; let up ← parseOptBounds up
      let okLen (b : Option Bounds) : Bool := match b with | none => true | some l => l.length == params.length
      if params.length != factors.length || !(okLen lo) || !(okLen up) then some "err shape"
      else some ("ok " ++ showList (perturb params factors lo up))
  | ["c12.perturbexp", fold, us] => do
      let fold ← parseRat fold; let us ← parseList us
      some ("ok " ++ showList (us.map (Gen.Optim.perturbExponent fold)))
  | ["c12.perturbfold", params, fold, us, lo, up, tab] => do
      let params ← parseList params; let fold ← parseRat fold; let us ← parseList us
      let lo ← parseOptBounds lo; let up ← parseOptBounds up; let tab ← parseTab tab
      let okLen (b : Option Bounds) : Bool := match b with | none => true | some l => l.length == params.length
      if params.length != us.length || !(okLen lo) || !(okLen up) then some "err shape" else
      let r0 := perturbFold (tab.fn 0) params fold us lo up
      let r1 := perturbFold (tab.fn 1) params fold us lo up
      if r0 != r1 then some "err missing_table_entry" else some ("ok " ++ showList r0)
  | ["c12.args"] =>
      some (s!"ok {",".intercalate Gen.Optim.objectFuncParams} {",".intercalate Gen.Optim.objectFuncRequired} " ++
        ";".intercalate (Gen.Optim.objCalls.map fun c =>
          s!"{c.wrapper}|{",".intercalate c.own}|{",".intercalate (c.binding.map fun pa => pa.1 ++ "=" ++ pa.2)}"))
  | ["c12.grid", wn, sl, fx, keys, vals, po] => do
      let sl ← parseSlices sl; let fx ← parseOptBounds fx; let mt ← parseMTab keys vals
      match Gen.Optim.wrappers.find? (fun w => w.name == wn) with
      | none => some "err unknown_wrapper"
      | some w => some (gridOp (po == "1") w sl fx mt)
  | _ => none

end DadiVerif.Driver.Optim
