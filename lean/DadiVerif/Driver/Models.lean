import DadiVerif.Model.ModelDSL
import DadiVerif.Generated.Models
import DadiVerif.Model.ModelPairs
import DadiVerif.Model.ModelPerm
import DadiVerif.Model.ModelUnits
import DadiVerif.Model.ModelBoundary
/- driver ops for the library-model table (C15).  Every op runs the definitions the theorems are about
   (ModelDSL.exec / canonTr / wellFormed / normalForm / nestOK / swapOK) on the generated table.
   c15.table                      -> ok <json [[name,[paramNames],[argNames]],...]>
   c15.ms                         -> ok <json [[name,[paramNames],[argNames],[unpackNames]],...]>
   c15.sigs                       -> ok <json [[fn,kind,dimIn,dimOut,zeroDurationIdentity,[[param,default|null],...]],...]>
   c15.wf <model>                 -> ok 1|0            (wellFormed)     | err unknown-model
   c15.trace <model> <args>       -> ok <json trace>   (symbolicRun: executed, arguments bound to the signatures, defaults
                                                        filled in) | err arity | err stuck
   c15.norm <model> <args>        -> ok <json trace>   (normalForm) | err stuck
   c15.nest <A> <B> <args>        -> ok 1|0
   c15.pairs                      -> ok <json [[group,[[A,B,[arg Expr…],nestOK 1|0],…]],…]>   (the hand table Model/ModelPairs.lean)
   c15.symmetric                  -> ok <json [[A,[arg Expr…],swapOK 1|0],…]>
   c15.branchpairs                -> ok <json [[A,[argsA…],[path 1|0…],B,[argsB…],nestOKAt 1|0,[[op,lhs,rhs,outcome]…]],…]>
   c15.wiring <model>             -> ok <wiringOK 1|0> <number of branches>   (symbolic run at the model's own parameters)
   c15.swap <A> <args>            -> ok 1|0
   c15.permsym                    -> ok <json [[A,[perm…],[arg Expr…],permOK 1|0],…]>        (hand table Pairs.permSymmetric)
   c15.perm <A> <perm> <args>     -> ok 1|0            (permOK; <perm> = dot separated images, e.g. 0.2.1)
   c15.units <model>              -> ok <json {"lenient":1|0,"strict":1|0,"refexplicit":1|0,
                                                "errors":[[fn,kw,Expr,unit found,unit expected],…]   (reference-size convention)
                                                "refsites":[[fn,kw],…]}>                             (refSites)
   c15.kwunits                    -> ok <json [[fn,[[kw,expected unit|null],…]],…]>   (kwExpected on every generated signature)
   c15.boundary <model>           -> ok <json {"ok":1|0,"nodes":[[op,lhs Expr,rhs Expr,boundaryNodeOK 1|0,substituted parameter|null],…]}>
                                     (boundaryTr on the symbolic run at the model's own parameters: every comparison of the trace)
   <args>: `-` (empty) or comma separated: `name` (a parameter), `#n/d` or `#-n/d` (an exact literal).
   json: Expr = ["p",name] | ["t"] | ["lit",n,d] | ["sym",s] | ["neg",e] | [op,a,b] | ["call",f,e] | ["lam",b] | ["app",f,a] | ["tup",e…]
         Call = {"fn":…,"args":[[k,e],…]}   Tr = {"start":c,"steps":[c…],"fin":c} | {"if":[op,l,r],"then":t,"else":t} -/
namespace DadiVerif.Driver.Models
open DadiVerif DadiVerif.ModelDSL Gen.Models

def q (s : String) : String := "\"" ++ s ++ "\""
def arr (l : List String) : String := "[" ++ ",".intercalate l ++ "]"

/-- name on the wire -> code (the same base-256 value `nm!` computes) -/
def encodeName (s : String) : Name := s.toUTF8.foldl (fun acc b => acc * 256 + b.toNat) 0
def qn (n : Name) : String := q (decodeName n)

partial def tupItems : Expr → List Expr
  | .tcons h t => h :: tupItems t
  | _ => []

partial def jE : Expr → String
  | .param n => arr [q "p", qn n]
  | .tvar => arr [q "t"]
  | .lit a b => arr [q "lit", toString a, toString b]
  | .sym s => arr [q "sym", qn s]
  | .neg e => arr [q "neg", jE e]
  | .add a b => arr [q "add", jE a, jE b]
  | .sub a b => arr [q "sub", jE a, jE b]
  | .mul a b => arr [q "mul", jE a, jE b]
  | .div a b => arr [q "div", jE a, jE b]
  | .pow a b => arr [q "pow", jE a, jE b]
  | .call1 f e => arr [q "call", qn f, jE e]
  | .lam b => arr [q "lam", jE b]
  | .app f a => arr [q "app", jE f, jE a]
  | .tnil => arr [q "tup"]
  | .tcons h t => arr (q "tup" :: (tupItems (.tcons h t)).map jE)

def jCall (c : Call) : String :=
  "{" ++ q "fn" ++ ":" ++ qn c.fn ++ "," ++ q "args" ++ ":" ++ arr (c.args.map fun (k, e) => arr [qn k, jE e]) ++ "}"

def jTr : Tr → String
  | .leaf r => "{" ++ q "start" ++ ":" ++ jCall r.start ++ "," ++ q "steps" ++ ":" ++ arr (r.steps.map jCall) ++ ","
               ++ q "fin" ++ ":" ++ jCall r.fin ++ "}"
  | .ite c a b => "{" ++ q "if" ++ ":" ++ arr [qn c.op, jE c.lhs, jE c.rhs] ++ "," ++ q "then" ++ ":" ++ jTr a ++ ","
                  ++ q "else" ++ ":" ++ jTr b ++ "}"

def jStrs (l : List Name) : String := arr (l.map fun n => q (decodeName n))


def parseArg (s : String) : Option Expr :=
  if s.startsWith "#" then
    let body := (s.drop 1).toString
    let (neg, body) := if body.startsWith "-" then (true, (body.drop 1).toString) else (false, body)
    let mk (n d : Nat) : Option Expr :=
      if d = 0 then none else
        let g := Nat.gcd n d
        let g := if g = 0 then 1 else g
        let e := Expr.lit (n / g) (d / g)
        some (if neg then .neg e else e)
    match body.splitOn "/" with
    | [n] => n.toNat?.bind fun n => mk n 1
    | [n, d] => n.toNat?.bind fun n => d.toNat?.bind fun d => mk n d
    | _ => none
  else if s.isEmpty then none else some (.param (encodeName s))

def parseArgs (s : String) : Option (List Expr) :=
  if s = "-" then some [] else (s.splitOn ",").mapM parseArg

def kindStr : Kind → String
  | .start => "start" | .step => "step" | .finish => "finish"

def showU (u : U) : String :=
  let part (n : String) (e : Int) : List String := if e == 0 then [] else if e == 1 then [n] else [n ++ "^" ++ toString e]
  let l := part "Size" u.size ++ part "Time" u.time ++ part "Rate" u.rate ++ part "Sel" u.sel ++ part "Theta" u.theta
  if l.isEmpty then "dimensionless" else "*".intercalate l

def showUT : Option UT → String
  | some .poly => "any (zero)"
  | some (.u x) => showU x
  | none => "not a well-united number"

def showKw (r : Bool) : Option KwKind → String
  | some (.num u) => showU (u.ref r)
  | some .tupleDimless => "tuple of dimensionless numbers"
  | some .other => "not a number (density, grid, flag, id)"
  | none => "unclassified keyword"

def parsePerm (s : String) : Option (List Nat) := (s.splitOn ".").mapM (·.toNat?)

/-- units are displayed strictly (Size is shown as Size also when the check is made under the reference-size convention) -/
def jErr (r : Bool) (x : UnitErr) : String :=
  let got := match argUnit false x.e with
    | some u => showUT (some u)
    | none => showUT (argUnit r x.e)
  arr [qn x.fn, qn x.kw, jE x.e,
       q (if x.kw == nm! "if" then "the two sides have different units" else got),
       q (if x.kw == nm! "if" then "equal units" else showKw false (kwExpected x.kw))]

def handle (toks : List String) : Option String :=
  match toks with
  | ["c15.permsym"] =>
      some ("ok " ++ arr (Pairs.permSymmetric.map fun p =>
        arr [qn p.name, arr (p.perm.map toString), arr (p.args.map jE),
             if permOK table sigs permRules permPairs permFin p.name p.perm p.args then "1" else "0"]))
  | ["c15.perm", a, pi, as] => do
      let as ← parseArgs as
      let pi ← parsePerm pi
      some (if permOK table sigs permRules permPairs permFin (encodeName a) pi as then "ok 1" else "ok 0")
  | ["c15.units", m] =>
      match findModel table (encodeName m) with
      | none => some "err unknown-model"
      | some md =>
        match symbolicRun table sigs md.name (md.paramNames.map .param) with
        | none => some "err stuck"
        | some t =>
          let b (x : Bool) : String := if x then "1" else "0"
          some ("ok {" ++ q "lenient" ++ ":" ++ b (unitsTr true t) ++ "," ++ q "strict" ++ ":" ++ b (unitsTr false t) ++ ","
                ++ q "refexplicit" ++ ":" ++ b (unitsTr false (refExplicit t)) ++ ","
                ++ q "errors" ++ ":" ++ arr ((unitErrors true t).map (jErr true)) ++ ","
                ++ q "refsites" ++ ":" ++ arr ((refSites table sigs md).map fun p => arr [qn p.1, qn p.2]) ++ "}")
  | ["c15.boundary", m] =>
      match findModel table (encodeName m) with
      | none => some "err unknown-model"
      | some md =>
        match symbolicRun table sigs md.name (md.paramNames.map .param) with
        | none => some "err stuck"
        | some t =>
          let ints := integrators sigs
          some ("ok {" ++ q "ok" ++ ":" ++ (if boundaryTr ints t then "1" else "0") ++ "," ++ q "nodes" ++ ":"
                ++ arr ((boundaryNodes ints t).map fun (c, ok) =>
                     arr [qn c.op, jE c.lhs, jE c.rhs, (if ok then "1" else "0"),
                          match boundarySubst c with | some (n, _) => qn n | none => "null"]) ++ "}")
  | ["c15.kwunits"] =>
      some ("ok " ++ arr (sigs.map fun s => arr [qn s.fn, arr (s.params.map fun (k, _) =>
              arr [qn k, match kwExpected k with | some kk => q (showKw false (some kk)) | none => "null"])]))
  | ["c15.table"] =>
      some ("ok " ++ arr (table.map fun m => arr [qn m.name, jStrs m.paramNames, jStrs m.argNames]))
  | ["c15.ms"] =>
      some ("ok " ++ arr (msTable.map fun m => arr [qn m.name, jStrs m.paramNames, jStrs m.argNames, jStrs m.unpackNames,
                                                      if msWellFormed m then "1" else "0"]))
  | ["c15.sigs"] =>
      some ("ok " ++ arr (sigs.map fun s => arr [qn s.fn, q (kindStr s.kind), toString s.dimIn, toString s.dimOut,
              (if s.zeroDurationIdentity then "1" else "0"),
              arr (s.params.map fun (k, d) => arr [qn k, match d with | some e => jE e | none => "null"])]))
  | ["c15.wf", m] =>
      match findModel table (encodeName m) with
      | some md => some (if wellFormed table sigs md then "ok 1" else "ok 0")
      | none => some "err unknown-model"
  | ["c15.trace", m, as] => do
      let as ← parseArgs as
      match findModel table (encodeName m) with
      | none => some "err unknown-model"
      | some md =>
        match symbolicRun table sigs (encodeName m) as with
        | some t => some ("ok " ++ jTr t)
        | none => some (if md.paramNames ≠ [] ∧ as.length ≠ md.paramNames.length then "err arity" else "err stuck")
  | ["c15.norm", m, as] => do
      let as ← parseArgs as
      match normalForm table sigs (encodeName m) as with
      | some t => some ("ok " ++ jTr t)
      | none => some "err stuck"
  | ["c15.pairs"] =>
      some ("ok " ++ arr (Pairs.nesting.map fun (g, ps) => arr [q g, arr (ps.map fun p =>
        arr [qn p.a, qn p.b, arr (p.args.map jE), if nestOK table sigs p.a p.b p.args then "1" else "0"])]))
  | ["c15.symmetric"] =>
      some ("ok " ++ arr (Pairs.symmetric.map fun p =>
        arr [qn p.name, arr (p.args.map jE), if swapOK table sigs swapRules12 p.name p.args then "1" else "0"]))
  | ["c15.branchpairs"] =>
      some ("ok " ++ arr (Pairs.branch.map fun p =>
        let conds := match normalForm table sigs p.a p.argsA with
          | some t => pathConds p.path t
          | none => []
        arr [qn p.a, arr (p.argsA.map jE), arr (p.path.map fun b => if b then "1" else "0"), qn p.b, arr (p.argsB.map jE),
             (if nestOKAt table sigs p.a p.argsA p.path p.b p.argsB then "1" else "0"),
             arr (conds.map fun (c, b) => arr [qn c.op, jE c.lhs, jE c.rhs, if b then "1" else "0"])]))
  | ["c15.wiring", m] =>
      match findModel table (encodeName m) with
      | none => some "err unknown-model"
      | some md =>
        match symbolicRun table sigs md.name (md.paramNames.map .param) with
        | some t => some s!"ok {if wiringOK (integrators sigs) t then 1 else 0} {branchCount t}"
        | none => some "err stuck"
  | ["c15.nest", a, b, as] => do
      let as ← parseArgs as
      some (if nestOK table sigs (encodeName a) (encodeName b) as then "ok 1" else "ok 0")
  | ["c15.swap", a, as] => do
      let as ← parseArgs as
      some (if swapOK table sigs swapRules12 (encodeName a) as then "ok 1" else "ok 0")
  | _ => none

end DadiVerif.Driver.Models
