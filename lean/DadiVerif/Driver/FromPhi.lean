import DadiVerif.Model.Proto
import DadiVerif.Model.FromPhi
/- driver ops for sampling a spectrum from φ (C05)

   betainc a b x                                   -> ok v                 binomial tail = scipy betainc at integer a, b
   bern n d x                                      -> ok v
   dbeta n grid                                    -> ok rows1|rows2       `cached_dbeta(n, grid)` (rows `;`-separated)
   analytic1d n grid phi                           -> ok list              `_from_phi_1D_analytic`
   fromphi het force ns grids phi props            -> ok <function> <extrap_x> <nd> | err <kind>     `Spectrum.from_phi`
   call fname het ns grids phi props               -> ok <nd> | err <kind>                             a private function by name
   inbreeding het force ns grids phi props Fs pls  -> ok <function> <extrap_x> <nd> | err <kind>     `from_phi_inbreeding`
   betabinom P i a b                               -> ok v                 exp(BetaBinomln(i, P, a, b))
   bbconv i nInd a b P                             -> ok v                 `BetaBinomConvolution`
   part x n lo hi                                  -> ok p;p;…             `Numerics.part`
   specnd kind …                                   -> ok <nd>              the pointwise (un-tabulated) definitions, small inputs
   marginalize over nd                             -> ok <kept positions> <nd> | err AxisError | err IndexError   `Spectrum.marginalize(over)`
   het = - | xx | yy | zz | aa ; force = 0 | 1 ; props = - | <nd matrix> ; grids = g1;g2;… -/
namespace DadiVerif.Driver.FromPhi
open DadiVerif DadiVerif.Proto DadiVerif.FromPhi

def hetOf (s : String) : String := if s = "-" then "" else s

def parseProps (s : String) : Option (Option ND) :=
  if s = "-" then some none else (parseND s).map some

def showTab (t : Array (Array Rat)) : String := ";".intercalate (t.toList.map fun r => showList r.toList)

def showRes (r : Except String (String × Rat × ND)) : String :=
  match r with
  | .ok (f, ex, R) => "ok " ++ f ++ " " ++ showRat ex ++ " " ++ showND R
  | .error e => "err " ++ e

/-- pointwise definitions (what the theorems are stated about), for cross-checking the tabulated versions -/
def specOps (kind : String) (het : String) (ns : List Nat) (grids : List (Array Rat)) (Fs : List Rat)
    (pls : List Nat) : List LineOp :=
  if kind = "linalg" then linalgOps ns grids
  else if kind = "direct" then directOps het ns grids
  else inbOps het ns grids Fs pls

def handle (toks : List String) : Option String :=
  match toks with
  | ["betainc", a, b, x] => do
      let a ← a.toNat?; let b ← b.toNat?; let x ← parseRat x
      some ("ok " ++ showRat (betaI a b x))
  | ["bern", n, d, x] => do
      let n ← n.toNat?; let d ← d.toNat?; let x ← parseRat x
      some ("ok " ++ showRat (bern n d x))
  | ["dbeta", n, g] => do
      let n ← n.toNat?; let g ← parseList g
      let x := gridFn g.toArray
      some ("ok " ++ showTab (memoTab (Gen.FromPhi.dbCount n) (g.length - 1) (dbeta1 n x)) ++ "|"
              ++ showTab (memoTab (Gen.FromPhi.dbCount n) (g.length - 1) (dbeta2 n x)))
  | ["analytic1d", n, g, phi] => do
      let n ← n.toNat?; let g ← parseList g; let phi ← parseList phi
      if g.length ≠ phi.length then some "err shape"
      else some ("ok " ++ showList (fromPhi1DFast n g.length (gridFn g.toArray) (gridFn phi.toArray)).toList)
  | ["fromphi", het, force, ns, grids, phi, props] => do
      let force ← parseBool force; let ns ← parseNatList ns; let grids ← parseGrids grids
      let T ← parseND phi; let p ← parseProps props
      some (showRes (fromPhi (hetOf het) force ns grids p T))
  | ["call", fname, het, ns, grids, phi, props] => do
      let ns ← parseNatList ns; let grids ← parseGrids grids
      let T ← parseND phi; let p ← parseProps props
      match runPath fname (hetOf het) ns grids p T with
      | .ok R => some ("ok " ++ showND R)
      | .error e => some ("err " ++ e)
  | ["inbreeding", het, force, ns, grids, phi, props, Fs, pls] => do
      let force ← parseBool force; let ns ← parseNatList ns; let grids ← parseGrids grids
      let T ← parseND phi; let p ← parseProps props; let Fs ← parseList Fs; let pls ← parseNatList pls
      some (showRes (fromPhiInb (hetOf het) force ns grids p Fs pls T))
  | ["betabinom", P, i, a, b] => do
      let P ← P.toNat?; let i ← i.toNat?; let a ← parseRat a; let b ← parseRat b
      if rising (a + b) P = 0 then some "err div0" else some ("ok " ++ showRat (betaBinom P i a b))
  | ["bbconv", i, n, a, b, P] => do
      let i ← i.toNat?; let n ← n.toNat?; let a ← parseRat a; let b ← parseRat b; let P ← P.toNat?
      if rising (a + b) P = 0 then some "err div0" else some ("ok " ++ showRat (betaBinomConv i n a b P))
  | ["part", x, n, lo, hi] => do
      let x ← x.toNat?; let n ← n.toNat?; let lo ← lo.toNat?; let hi ← hi.toNat?
      let ps := part n x lo hi
      some ("ok " ++ (if ps.isEmpty then "-" else ";".intercalate (ps.map fun q =>
        if q.isEmpty then "e" else ",".intercalate (q.map toString))))
  | ["specnd", kind, het, ns, grids, phi, Fs, pls] => do
      let ns ← parseNatList ns; let grids ← parseGrids grids; let T ← parseND phi
      let Fs ← parseList Fs; let pls ← parseNatList pls
      let d := grids.length
      if T.shape ≠ grids.map (·.size) ∨ ns.length ≠ d then some "err shape"
      else
        let ops := specOps kind (hetOf het) ns grids Fs pls
        some ("ok " ++ showND (ND.ofFn (ns.map (· + 1)) (sampleND ops T.get)))
  | ["marginalize", over, nd] => do
      let over ← parseNatList over; let T ← parseND nd
      match marginalize over T with
      | .ok (ids, R) => some ("ok " ++ (if ids.isEmpty then "-" else ",".intercalate (ids.map toString)) ++ " " ++ showND R)
      | .error e => some ("err " ++ e)
  | ["spec1d", n, g, phi] => do
      let n ← n.toNat?; let g ← parseList g; let phi ← parseList phi
      some ("ok " ++ showList ((List.range (n + 1)).map (fromPhi1D n g.length (gridFn g.toArray) (gridFn phi.toArray))))
  | _ => none

end DadiVerif.Driver.FromPhi
