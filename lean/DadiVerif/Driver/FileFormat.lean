import DadiVerif.Model.Proto
import DadiVerif.Model.FileFormat
import DadiVerif.Generated.FileIO
/- driver ops for the file formats and the pickle pair (C14).

   Strings travel as `x<hex of the UTF-8 bytes>` (`x` alone = empty string); lists of strings as `s,s,…` (`-` = empty
   list); an optional list is `none` or a list; shapes as `3x4` (`-` = 0-d); mask bits as a string of `0`/`1` (`-` = none).
   A spectrum is six tokens: `<shape> <data toks> <mask bits> <folded 0|1> <labels> <extrap_x: none | x…>`.

   c14.ws                                                    -> ok 9,10,…            (Python whitespace table of the model)
   c14.split <s> | c14.strip <s> | c14.int <s> | c14.fmti n  -> primitives (tokens / string / n or `err reject` / string)
   c14.tofile <comments> <shape> <folded> <labels> <fmi> <data toks> <mask bits>   -> ok <text>      (GENERATED writer)
   c14.fromfile <mc 0|1> <text>                              -> ok <spectrum> <comments> | err reject   (GENERATED reader)
   c14.arr_to <comments> <shape> <data toks>                 -> ok <text>                             (GENERATED writer)
   c14.arr_from <text>                                       -> ok <shape> <data toks> <comments> | err reject   (GENERATED reader)
   c14.open <fname>                                          -> ok <writer opener> <mode> <reader opener> <mode>   (GENERATED dispatch)
   c14.stripx <l|r|b> <chars | none> <s>                     -> ok <string>   (lstrip/rstrip/strip, optionally with a character set)
   c14.endswith <suffix> <s> | c14.startswith <prefix> <s>   -> ok 0|1
   c14.filled <data toks> <mask bits>                        -> ok <toks>
   c14.reduce <spectrum>                                     -> ok <pyval> … (GENERATED reduce tuple, in order)
   c14.unpickle <pyval> …                                    -> ok <spectrum> | err reject            (GENERATED)
   c14.modes                                                 -> ok toFileGz toFilePlain fromFileGz fromFilePlain arrTo arrFrom
   c14.meta                                                  -> ok reduceFields unpickleParams reduceFunc copyregArgs fills
   c14.new <data> <mask> <mask_corners> <data_folded> <check_folding> <dtype> <copy> <fill_value> <keep_mask> <shrink> <pop_ids> <extrap_x>
                                                             -> ok <object> | err reject     (GENERATED `Spectrum.__new__`)
   c14.newmeta                                               -> ok <params> <name=pyval,…> <numpy masked_array params> <modelled ones>
   c14.method <mask_corners|unmask_all> <mask bits>          -> ok <mask bits> | err reject  (GENERATED methods)
   c14.finalize <self mask> <obj mask> <obj fill> <folded|-> <pop_ids|-> <extrap_x|->   -> ok <object>   (GENERATED __array_finalize__)
   c14.fmtstr <p>                                            -> ok <to_file format> <array_to_file format>   (GENERATED)
   c14.precision <format>                                    -> ok <p> | err reject
   c14.iszero <tok>                                          -> ok 0|1
   c14.rnd <p> <x num/den>                                   -> ok <roundSig p x> <rndModel p x> <roundBin x>   (exact rationals)
   pyval: `N` | `B0` | `B1` | `A<shape>:<toks>` | `M<bits>` | `S<strs>` | `X<x…>` | `K` (nomask) | `T<type name>` | `Y<x…>` (str)
          | `P<shape>;<toks>;<bits>;<0|1>;<labels>;<extrap>` (a Spectrum)
   object: `<shape> <data toks> <mask bits> <fill pyval> <folded pyval|-> <pop_ids pyval|-> <extrap_x pyval|-> <warnings strs>` -/
namespace DadiVerif.Driver.FileFormat
open DadiVerif DadiVerif.Proto DadiVerif.FileFormat

def hexDigit (c : Char) : Option Nat :=
  if '0' ≤ c ∧ c ≤ '9' then some (c.toNat - 48)
  else if 'a' ≤ c ∧ c ≤ 'f' then some (c.toNat - 87)
  else none

def decodeHexAux : List Char → ByteArray → Option ByteArray
  | [], acc => some acc
  | [_], _ => none
  | a :: b :: r, acc => do
    let x ← hexDigit a; let y ← hexDigit b
    decodeHexAux r (acc.push (UInt8.ofNat (x * 16 + y)))

def nib (n : Nat) : Char := if n < 10 then Char.ofNat (48 + n) else Char.ofNat (87 + n)

def decStr (t : String) : Option Str :=
  match t.toList with
  | 'x' :: h => do
    let ba ← decodeHexAux h ByteArray.empty
    let s ← String.fromUTF8? ba
    some s.toList
  | _ => none

def encStr (s : Str) : String :=
  let ba := (String.ofList s).toUTF8
  String.ofList ('x' :: ba.toList.flatMap fun b => [nib (b.toNat / 16), nib (b.toNat % 16)])

def decStrs (t : String) : Option (List Str) :=
  if t = "-" then some [] else (t.splitOn ",").mapM decStr

def encStrs (l : List Str) : String :=
  if l.isEmpty then "-" else ",".intercalate (l.map encStr)

def decOptStrs (t : String) : Option (Option (List Str)) :=
  if t = "none" then some none else (decStrs t).map some

def encOptStrs (o : Option (List Str)) : String := match o with | none => "none" | some l => encStrs l

def decOptStr (t : String) : Option (Option Str) :=
  if t = "none" then some none else (decStr t).map some

def encOptStr (o : Option Str) : String := match o with | none => "none" | some s => encStr s

def decShape (t : String) : Option (List Nat) := parseNatList t "x"
def encShape (l : List Nat) : String := if l.isEmpty then "-" else "x".intercalate (l.map toString)

def decBits (t : String) : Option (List Bool) :=
  if t = "-" then some [] else t.toList.mapM fun c => if c = '1' then some true else if c = '0' then some false else none

def encBits (l : List Bool) : String := if l.isEmpty then "-" else String.ofList (l.map fun b => if b then '1' else '0')

def decSpec (sh d m f l x : String) : Option Spec := do
  let shape ← decShape sh; let data ← decStrs d; let mask ← decBits m; let folded ← parseBool f
  let labels ← decOptStrs l; let ex ← decOptStr x
  some { shape := shape, data := data, mask := mask, folded := folded, popIds := labels, extrapX := ex }

def encSpec (fs : Spec) : String :=
  s!"{encShape fs.shape} {encStrs fs.data} {encBits fs.mask} {if fs.folded then "1" else "0"} {encOptStrs fs.popIds} {encOptStr fs.extrapX}"

def encSpecSemi (fs : Spec) : String :=
  s!"{encShape fs.shape};{encStrs fs.data};{encBits fs.mask};{if fs.folded then "1" else "0"};{encOptStrs fs.popIds};{encOptStr fs.extrapX}"

def encPy : PyVal → String
  | .nomask => "K"
  | .ty n => "T" ++ n
  | .str t => "Y" ++ encStr t
  | .spec fs => "P" ++ encSpecSemi fs
  | .none => "N"
  | .bool b => if b then "B1" else "B0"
  | .arr sh toks => "A" ++ encShape sh ++ ":" ++ encStrs toks
  | .marr bits => "M" ++ encBits bits
  | .strs l => "S" ++ encStrs l
  | .num t => "X" ++ encStr t

def decPy (t : String) : Option PyVal :=
  match t.toList with
  | ['N'] => some .none
  | ['B', '0'] => some (.bool false)
  | ['B', '1'] => some (.bool true)
  | 'A' :: r =>
    match (String.ofList r).splitOn ":" with
    | [sh, toks] => do some (.arr (← decShape sh) (← decStrs toks))
    | _ => none
  | 'M' :: r => (decBits (String.ofList r)).map .marr
  | 'S' :: r => (decStrs (String.ofList r)).map .strs
  | 'X' :: r => (decStr (String.ofList r)).map .num
  | ['K'] => some .nomask
  | 'T' :: r => some (.ty (String.ofList r))
  | 'Y' :: r => (decStr (String.ofList r)).map .str
  | 'P' :: r =>
    match (String.ofList r).splitOn ";" with
    | [sh, d, m, f, l, x] => (decSpec sh d m f l x).map .spec
    | _ => none
  | _ => none

def encOptPy (o : Option PyVal) : String := match o with | none => "-" | some v => encPy v
def decOptPy (t : String) : Option (Option PyVal) := if t = "-" then some none else (decPy t).map some

def encObj (o : Obj) : String :=
  s!"{encShape o.shape} {encStrs o.data} {encBits o.mask} {encPy o.fillValue} {encOptPy o.folded} {encOptPy o.popIds} {encOptPy o.extrapX} {encStrs o.warnings}"

def handle (toks : List String) : Option String :=
  match toks with
  | ["c14.ws"] => some ("ok " ++ ",".intercalate (wsCodes.map toString))
  | ["c14.split", s] => do
      let s ← decStr s
      some ("ok " ++ encStrs (splitWs s))
  | ["c14.strip", s] => do
      let s ← decStr s
      some ("ok " ++ encStr (strip s))
  | ["c14.int", s] => do
      let s ← decStr s
      match parseInt s with
      | some n => some s!"ok {n}"
      | none => some "err reject"
  | ["c14.fmti", n] => do
      let n ← n.toNat?
      some ("ok " ++ encStr (fmtI n))
  | ["c14.tofile", cs, sh, f, l, fmi, d, m] => do
      let cs ← decStrs cs; let sh ← decShape sh; let f ← parseBool f; let l ← decOptStrs l; let fmi ← parseBool fmi
      let d ← decStrs d; let m ← decBits m
      some ("ok " ++ encStr (Gen.FileIO.toFile cs sh f l fmi d m))
  | ["c14.fromfile", mc, text] => do
      let mc ← parseBool mc; let text ← decStr text
      match Gen.FileIO.fromFile mc text with
      | some (fs, comments) => some ("ok " ++ encSpec fs ++ " " ++ encStrs comments)
      | none => some "err reject"
  | ["c14.arr_to", cs, sh, d] => do
      let cs ← decStrs cs; let sh ← decShape sh; let d ← decStrs d
      some ("ok " ++ encStr (Gen.FileIO.arrayToFile cs sh d))
  | ["c14.arr_from", text] => do
      let text ← decStr text
      match Gen.FileIO.arrayFromFile text with
      | some ((sh, d), comments) => some s!"ok {encShape sh} {encStrs d} {encStrs comments}"
      | none => some "err reject"
  | ["c14.open", fname] => do
      let fname ← decStr fname
      let w := Gen.FileIO.toFileOpen fname; let r := Gen.FileIO.fromFileOpen fname
      some s!"ok {w.1} {String.ofList w.2} {r.1} {String.ofList r.2}"
  | ["c14.stripx", kind, cs, s] => do
      let cs ← decOptStr cs; let s ← decStr s
      match kind, cs with
      | "l", none => some ("ok " ++ encStr (lstrip s))
      | "r", none => some ("ok " ++ encStr (rstrip s))
      | "b", none => some ("ok " ++ encStr (strip s))
      | "l", some c => some ("ok " ++ encStr (lstripChars c s))
      | "r", some c => some ("ok " ++ encStr (rstripChars c s))
      | "b", some c => some ("ok " ++ encStr (stripChars c s))
      | _, _ => none
  | ["c14.endswith", a, s] => do
      let a ← decStr a; let s ← decStr s
      some (if endsWith a s then "ok 1" else "ok 0")
  | ["c14.startswith", a, s] => do
      let a ← decStr a; let s ← decStr s
      some (if startsWith a s then "ok 1" else "ok 0")
  | ["c14.filled", d, m] => do
      let d ← decStrs d; let m ← decBits m
      some ("ok " ++ encStrs (filledRow d m))
  | ["c14.reduce", sh, d, m, f, l, x] => do
      let fs ← decSpec sh d m f l x
      some ("ok " ++ " ".intercalate ((Gen.FileIO.reduceArgs fs).map encPy))
  | "c14.unpickle" :: args => do
      let vals ← args.mapM decPy
      match Gen.FileIO.unpickle vals with
      | some fs => some ("ok " ++ encSpec fs)
      | none => some "err reject"
  | ["c14.new", a1, a2, a3, a4, a5, a6, a7, a8, a9, a10, a11, a12] => do
      let v ← [a1, a2, a3, a4, a5, a6, a7, a8, a9, a10, a11, a12].mapM decPy
      match v with
      | [b1, b2, b3, b4, b5, b6, b7, b8, b9, b10, b11, b12] =>
        match Gen.FileIO.spectrumNew b1 b2 b3 b4 b5 b6 b7 b8 b9 b10 b11 b12 with
        | some o => some ("ok " ++ encObj o)
        | none => some "err reject"
      | _ => none
  | ["c14.newmeta"] =>
      some s!"ok {",".intercalate Gen.FileIO.newParams} {",".intercalate (Gen.FileIO.newDefaults.map fun kv => kv.1 ++ "=" ++ encPy kv.2)} {",".intercalate Gen.FileIO.maParams} {",".intercalate Gen.FileIO.maModelled}"
  | ["c14.method", name, m] => do
      let m ← decBits m
      let o : Obj := { shape := [m.length], data := m.map fun _ => ['0'], mask := m, fillValue := .none, folded := none,
                       popIds := none, extrapX := none, warnings := [] }
      let r ← (if name = "mask_corners" then some (Gen.FileIO.maskCornersM o)
               else if name = "unmask_all" then some (Gen.FileIO.unmaskAllM o) else none)
      match r with
      | some o' => some ("ok " ++ encBits o'.mask)
      | none => some "err reject"
  | ["c14.finalize", ms, mo, fill, f, p, x] => do
      let ms ← decBits ms; let mo ← decBits mo; let fill ← decPy fill
      let f ← decOptPy f; let p ← decOptPy p; let x ← decOptPy x
      let self : Obj := { shape := [ms.length], data := ms.map fun _ => ['0'], mask := ms, fillValue := .none, folded := none,
                          popIds := none, extrapX := none, warnings := [] }
      let obj : Obj := { shape := [mo.length], data := mo.map fun _ => ['0'], mask := mo, fillValue := fill, folded := f,
                         popIds := p, extrapX := x, warnings := [] }
      match Gen.FileIO.arrayFinalize self obj with
      | some o => some ("ok " ++ encObj o)
      | none => some "err reject"
  | ["c14.fmtstr", p] => do
      let p ← p.toNat?
      some s!"ok {encStr (Gen.FileIO.toFileFmt p)} {encStr (Gen.FileIO.arrayToFileFmt p)}"
  | ["c14.precision", f] => do
      let f ← decStr f
      match precisionOf f with
      | some p => some s!"ok {p}"
      | none => some "err reject"
  | ["c14.iszero", t] => do
      let t ← decStr t
      some (if tokIsZero t then "ok 1" else "ok 0")
  | ["c14.rnd", p, x] => do
      let p ← p.toNat?; let x ← parseRat x
      some s!"ok {showRat (roundSig p x)} {showRat (rndModel p x)} {showRat (roundBin x)}"
  | ["c14.modes"] =>
      some ("ok " ++ " ".intercalate ([Gen.FileIO.toFileGzMode, Gen.FileIO.toFilePlainMode, Gen.FileIO.fromFileGzMode,
        Gen.FileIO.fromFilePlainMode, Gen.FileIO.arrayToFileMode, Gen.FileIO.arrayFromFileMode].map String.ofList))
  | ["c14.meta"] =>
      some s!"ok {",".intercalate Gen.FileIO.reduceFields} {",".intercalate Gen.FileIO.unpickleParams} {Gen.FileIO.reduceFunc} {",".intercalate Gen.FileIO.copyregArgs} {Gen.FileIO.arrayFillsMasked}"
  | _ => none

end DadiVerif.Driver.FileFormat
