import DadiVerif.Model.Proto
import DadiVerif.Model.DFE
import DadiVerif.Model.PDFs
/- driver ops for DFE integration and cache construction (C17).  Spectra travel entry-wise: `E` rows separated by `;`,
   each row the values of one spectrum entry over the gamma index (1-D caches) or over the row-major (i, j) pairs (2-D).
   c17.cfg                                                     -> ok <shape flags…> <symAtol> <symRtol>
   c17.int1d ext theta xs w wN wD neu S                        -> ok v,…                      (Cache1D.integrate)
   c17.pp1 ext theta npos params xs w wN wD neu gs computed sp -> ok res | gs' | sp' | pdf | ppos | gpos  | err …
   c17.int2d ext theta xs w testout wv C S                     -> ok sym v,…                  (Cache2D.integrate)
   c17.pp2wire pp|spp params rhobind                           -> ok biv p1 g1 p2 g2 rho | err …
   c17.pp2prep p1 p2                                           -> ok <argument of sqrt>
   c17.pp2 theta rho p1 g1 p2 g2 sqrttab gs xs w testout wv C S -> ok v,… | err IndexError
   c17.mixwire mix|mixsym|mixpt params                         -> ok … | err …
   c17.mixcomb mix|mixsym|mixpt p2d fs1 fs2                    -> ok v,…
   c17.vk theta params xs wg wN wD posNeg negPos m2 m5 m6      -> ok v,…
   c17.build N results                                         -> ok table | err TypeError:unpack
   c17.jobs multi G split job                                  -> ok ii:jj,… | err ZeroDivisionError
   c17.merge N cache|cache|…                                   -> ok table | err ValueError:conflict | ValueError:incomplete
   c17.mixfull ext theta p2d xs1 w1 wN wD neu S1 xs2 w2 testout wv C S2 -> ok v,…       (DFE.mixture, both components by the model)
   c17.mixptfull sym|pt theta p2d ppos gpos xs1 w1 wN wD neu gs1 sp1 rho p1 g1 p2 g2 sqrttab gs2 xs2 w2 testout wv C S2
                                                               -> ok v,… | err IndexError    (mixture_(symmetric_)point_pos)
   c17.pdflayout ln|g xs ys                                    -> ok <written beyond the buffer> ii:jj,…   (entry [i,j] row-major; `_` = never written)
   c17.pdfdispatch c_ln|py_ln|c_g|py_g L                       -> ok handled var=k,…  (`_` = keeps its initial value / raises)
   c17.lanczos z                                               -> ok <series x(z-1)> <t>  (gamma_func, main branch, rational part)
   tables: slots separated by `;`, `_` = None, else the values.  results: `k=v,v` or `!` (exception object), `;`-separated. -/
namespace DadiVerif.Driver.DFE
open DadiVerif DadiVerif.Proto DadiVerif.DFE DadiVerif.Gen.DFE DadiVerif.PDFs DadiVerif.Gen.PDFs

def parseRows (s : String) : Option (List (List Rat)) :=
  if s = "-" then some [] else (s.splitOn ";").mapM parseList

def showRows (r : List (List Rat)) : String :=
  if r.isEmpty then "-" else ";".intercalate (r.map showList)

def fn1 (l : List Rat) : Nat → Rat := fun i => l.getD i 0
def fn2 (rows : List (List Rat)) : Nat → Nat → Rat := fun i j => (rows.getD i []).getD j 0
def fnFlat (G : Nat) (l : List Rat) : Nat → Nat → Rat := fun i j => l.getD (i * G + j) 0

def tails (wN wD : Rat) : Reg → Rat
  | .N => wN | .D => wD | .I => 0

/-- `DI;NI;ID;IN` -/
def edgeW (rows : List (List Rat)) : Reg → Reg → Nat → Rat
  | .D, .I, k => (rows.getD 0 []).getD k 0
  | .N, .I, k => (rows.getD 1 []).getD k 0
  | .I, .D, k => (rows.getD 2 []).getD k 0
  | .I, .N, k => (rows.getD 3 []).getD k 0
  | _, _, _ => 0

/-- `NN,DN,ND,DD` -/
def cornerW (l : List Rat) : Reg → Reg → Rat
  | .N, .N => l.getD 0 0
  | .D, .N => l.getD 1 0
  | .N, .D => l.getD 2 0
  | .D, .D => l.getD 3 0
  | _, _ => 0

def parseBind (s : String) : Option ArgBind :=
  if s = "none" then some .isNone else if s = "dflt" then some .dflt
  else match s.splitOn ":" with
    | ["given", v] => (parseRat v).map .given
    | _ => none

def showBind : ArgBind → String
  | .given v => "given:" ++ showRat v
  | .isNone => "none"
  | .dflt => "dflt"

/-- `g=e1,e2,…;g=…` : spectra computed on the fly, by gamma, entry-wise -/
def parseComputed (s : String) : Option (List (Rat × List Rat)) :=
  if s = "-" then some [] else (s.splitOn ";").mapM fun it =>
    match it.splitOn "=" with
    | [g, vs] => do let g ← parseRat g; let vs ← parseList vs; some (g, vs)
    | _ => none

def parseSqrtTab (s : String) : Option (List (Rat × Rat)) :=
  if s = "-" then some [] else (s.splitOn ",").mapM fun it =>
    match it.splitOn ":" with
    | [a, b] => do let a ← parseRat a; let b ← parseRat b; some (a, b)
    | _ => none

/-- a missing table entry yields a poison value (the correspondence then fails loudly) -/
def sqrtOf (tab : List (Rat × Rat)) (q : Rat) : Rat :=
  match tab.find? (fun p => p.1 == q) with
  | some p => p.2
  | none => 1000000000000000000000000000000

def parseSlot (s : String) : Option (Option (List Rat)) :=
  if s = "_" then some none else (parseList s).map some

def parseTable (s : String) : Option (List (Option (List Rat))) :=
  if s = "-" then some [] else (s.splitOn ";").mapM parseSlot

def showSlot : Option (List Rat) → String
  | none => "_"
  | some l => showList l

def showTable (N : Nat) (t : Nat → Option (List Rat)) : String :=
  if N = 0 then "-" else ";".intercalate ((List.range N).map fun k => showSlot (t k))

def parseResults (s : String) : Option (List (Except String (Nat × List Rat))) :=
  if s = "-" then some [] else (s.splitOn ";").mapM fun it =>
    if it = "!" then some (.error "exception") else
    match it.splitOn "=" with
    | [k, vs] => do let k ← k.toNat?; let vs ← parseList vs; some (.ok (k, vs))
    | _ => none

def bstr (b : Bool) : String := if b then "1" else "0"

def nameVal (names : List String) (vals : List Rat) (nm : String) : Option Rat :=
  ((names.zip vals).find? (fun p => p.1 == nm)).map (·.2)

def handle (toks : List String) : Option String :=
  match toks with
  | ["c17.cfg"] =>
      some s!"ok {bstr int1DShapeOk} {bstr pp1ShapeOk} {bstr int2DShapeOk} {bstr pp2ShapeOk} {bstr buildShapeOk} {bstr mergeShapeOk} {bstr vkShapeOk} {bstr pp1_forwardsExterior} {showRat symAtol} {showRat symRtol}"
  | ["c17.int1d", ext, theta, xs, w, wN, wD, neu, S] => do
      let ext ← parseBool ext; let theta ← parseRat theta; let xs ← parseList xs; let w ← parseList w
      let wN ← parseRat wN; let wD ← parseRat wD; let neu ← parseList neu; let S ← parseRows S
      if w.length ≠ xs.length ∨ S.length ≠ neu.length ∨ S.any (·.length ≠ xs.length) then some "err shape" else
      let out := (S.zip neu).map fun (row, ne) => integrate1D ext theta xs.length (fn1 xs) (fn1 w) (fn1 row) ne (tails wN wD)
      some ("ok " ++ showList out)
  | ["c17.pp1", ext, theta, npos, params, xs, w, wN, wD, neu, gs, computed, sp] => do
      let ext ← parseBool ext; let theta ← parseRat theta; let npos ← npos.toNat?; let params ← parseList params
      let xs ← parseList xs; let w ← parseList w; let wN ← parseRat wN; let wD ← parseRat wD
      let neu ← parseList neu; let gs ← parseList gs; let computed ← parseComputed computed; let sp ← parseRows sp
      let n := xs.length
      if w.length ≠ n ∨ sp.length ≠ neu.length ∨ sp.any (·.length ≠ gs.length) ∨ gs.length < n then some "err shape" else
      match pp1Split params npos with
      | .error e => some ("err " ++ e)
      | .ok (pdf, pposL, gposL) =>
        let E := neu.length
        let runs := (List.range E).map fun e =>
          let row := sp.getD e []
          let comp : Rat → Option Rat := fun g => (computed.find? (fun p => p.1 == g)).map fun p => p.2.getD e 0
          integratePointPos1D ext theta comp pposL gposL gs row n (fn1 xs) (fn1 w) (neu.getD e 0) (tails wN wD)
        match runs.mapM (fun r => match r with | .ok v => some v | .error _ => none) with
        | none =>
            let e := runs.findSome? fun r => match r with | .error e => some e | .ok _ => none
            some ("err " ++ e.getD "?")
        | some rs =>
            let gs' := (rs.head?.map (·.2.1)).getD gs
            some ("ok " ++ showList (rs.map (·.1)) ++ " | " ++ showList gs' ++ " | " ++ showRows (rs.map (·.2.2))
                  ++ " | " ++ showList pdf ++ " " ++ showList pposL ++ " " ++ showList gposL)
  | ["c17.int2d", ext, theta, xs, w, testout, wv, C, S] => do
      let ext ← parseBool ext; let theta ← parseRat theta; let xs ← parseList xs; let w ← parseRows w
      let testout ← parseRows testout; let wv ← parseRows wv; let C ← parseList C; let S ← parseRows S
      let n := xs.length
      if w.length ≠ n ∨ w.any (·.length ≠ n) ∨ S.any (·.length ≠ n * n) ∨ testout.length ≠ 3 ∨ testout.any (·.length ≠ 3)
         ∨ wv.length ≠ 4 ∨ wv.any (·.length ≠ n) ∨ C.length ≠ 4 then some "err shape" else
      let sym := symmetricTest (fn2 testout)
      let out := S.map fun row => integrate2D ext sym theta n (fn1 xs) (fn2 w) (fnFlat n row) (edgeW wv) (cornerW C)
      some ("ok " ++ bstr sym ++ " " ++ showList out)
  | ["c17.pp2wire", kind, params, rho] => do
      let params ← parseList params
      let r ← if kind = "pp" then (parseBind rho).map (pp2Wire params)
              else if kind = "spp" then some (sppWire params) else none
      match r with
      | .error e => some ("err " ++ e)
      | .ok (biv, p1, g1, p2, g2, rho) =>
          some s!"ok {showList biv} {showRat p1} {showRat g1} {showRat p2} {showRat g2} {showRat rho}"
  | ["c17.pp2prep", p1, p2] => do
      let p1 ← parseRat p1; let p2 ← parseRat p2
      some ("ok " ++ showRat (p1 * p2))
  | ["c17.pp2", theta, rho, p1, g1, p2, g2, tab, gs, xs, w, testout, wv, C, S] => do
      let theta ← parseRat theta; let rho ← parseRat rho; let p1 ← parseRat p1; let g1 ← parseRat g1
      let p2 ← parseRat p2; let g2 ← parseRat g2; let tab ← parseSqrtTab tab; let gs ← parseList gs
      let xs ← parseList xs; let w ← parseRows w; let testout ← parseRows testout; let wv ← parseRows wv
      let C ← parseList C; let S ← parseRows S
      let n := xs.length; let G := gs.length
      if w.length ≠ n ∨ w.any (·.length ≠ n) ∨ S.any (·.length ≠ G * G) ∨ testout.length ≠ 3 ∨ testout.any (·.length ≠ 3)
         ∨ wv.length ≠ 4 ∨ wv.any (·.length ≠ n) ∨ C.length ≠ 4 ∨ G < n then some "err shape" else
      match maskIdx gs g1, maskIdx gs g2 with
      | [i1], [i2] =>
          let sym := symmetricTest (fn2 testout)
          let out := S.map fun row =>
            integratePointPos2D (sqrtOf tab) sym theta rho n (fn1 xs) (fn2 w) (fnFlat G row) (edgeW wv) (cornerW C) i1 i2 p1 p2
          some ("ok " ++ showList out)
      | [], _ => some "err IndexError"
      | _, [] => some "err IndexError"
      | _, _ => some "err unmodelled"
  | ["c17.mixwire", kind, params] => do
      let params ← parseList params
      if kind = "mix" then
        match mix_wiring params with
        | .error e => some ("err " ++ e)
        | .ok (a, b, p) => some s!"ok {showList a} | {showList b} | {showRat p}"
      else if kind = "mixsym" then
        match mixsym_wiring params with
        | .error e => some ("err " ++ e)
        | .ok (a, np, b, p) => some s!"ok {showList a} | {np} | {showList b} | {showRat p}"
      else if kind = "mixpt" then
        match mixpt_wiring params with
        | .error e => some ("err " ++ e)
        | .ok (a, np, b, r, p) => some s!"ok {showList a} | {np} | {showList b} | {showBind r} | {showRat p}"
      else none
  | ["c17.mixcomb", kind, p2d, fs1, fs2] => do
      let p2d ← parseRat p2d; let fs1 ← parseList fs1; let fs2 ← parseList fs2
      if fs1.length ≠ fs2.length then some "err shape" else
      let f ← if kind = "mix" then some mix_combine else if kind = "mixsym" then some mixsym_combine
              else if kind = "mixpt" then some mixpt_combine else none
      some ("ok " ++ showList ((fs1.zip fs2).map fun (a, b) => f p2d a b))
  | ["c17.vk", theta, params, xs, wg, wN, wD, posNeg, negPos, m2, m5, m6] => do
      let theta ← parseRat theta; let params ← parseList params; let xs ← parseList xs; let wg ← parseList wg
      let wN ← parseRat wN; let wD ← parseRat wD; let posNeg ← parseRows posNeg; let negPos ← parseRows negPos
      let m2 ← parseList m2; let m5 ← parseList m5; let m6 ← parseList m6
      let n := xs.length; let E := m2.length
      if params.length ≠ vk_paramNames.length then some "err ValueError:unpack" else
      if wg.length ≠ n ∨ posNeg.length ≠ E ∨ negPos.length ≠ E ∨ m5.length ≠ E ∨ m6.length ≠ E
         ∨ posNeg.any (·.length ≠ n) ∨ negPos.any (·.length ≠ n) then some "err shape" else
      let pw ← nameVal vk_paramNames params "ppos_wild"
      let pc ← nameVal vk_paramNames params "pchange"
      let pcp ← nameVal vk_paramNames params "pchange_pos"
      let out := (List.range E).map fun e =>
        vourlaki theta n (fn1 xs) (fn1 wg) (tails wN wD) (fn1 (posNeg.getD e [])) (fn1 (negPos.getD e []))
          (m2.getD e 0) (m5.getD e 0) (m6.getD e 0) pw pc pcp
      some ("ok " ++ showList out)
  | ["c17.build", N, results] => do
      let N ← N.toNat?; let results ← parseResults results
      match buildTable results with
      | .error e => some ("err " ++ e)
      | .ok t => some ("ok " ++ showTable N t)
  | ["c17.jobs", multi, G, split, job] => do
      let multi ← parseBool multi; let G ← G.toNat?; let split ← split.toNat?; let job ← job.toNat?
      if split = 0 then some "err ZeroDivisionError" else
      let cells := jobCells multi G split job
      some ("ok " ++ (if cells.isEmpty then "-" else ",".intercalate (cells.map fun (a, b) => s!"{a}:{b}")))
  | ["c17.merge", N, caches] => do
      let N ← N.toNat?
      let cs ← if caches = "-" then some [] else (caches.splitOn "|").mapM parseTable
      if cs.any (·.length ≠ N) then some "err shape" else
      let fs : List (Nat → Option (List Rat)) := cs.map fun c => fun k => (c.getD k none)
      match merge N fs with
      | .error e => some ("err " ++ e)
      | .ok t => some ("ok " ++ showTable N t)
  | ["c17.mixfull", ext, theta, p2d, xs1, w1, wN, wD, neu, S1, xs2, w2, testout, wv, C, S2] => do
      let ext ← parseBool ext; let theta ← parseRat theta; let p2d ← parseRat p2d
      let xs1 ← parseList xs1; let w1 ← parseList w1; let wN ← parseRat wN; let wD ← parseRat wD
      let neu ← parseList neu; let S1 ← parseRows S1
      let xs2 ← parseList xs2; let w2 ← parseRows w2; let testout ← parseRows testout; let wv ← parseRows wv
      let C ← parseList C; let S2 ← parseRows S2
      let n1 := xs1.length; let n2 := xs2.length; let E := neu.length
      if w1.length ≠ n1 ∨ S1.length ≠ E ∨ S1.any (·.length ≠ n1) ∨ S2.length ≠ E
         ∨ w2.length ≠ n2 ∨ w2.any (·.length ≠ n2) ∨ S2.any (·.length ≠ n2 * n2) ∨ testout.length ≠ 3 ∨ testout.any (·.length ≠ 3)
         ∨ wv.length ≠ 4 ∨ wv.any (·.length ≠ n2) ∨ C.length ≠ 4 then some "err shape" else
      let sym := symmetricTest (fn2 testout)
      let out := (List.range E).map fun e =>
        mixtureEntry ext theta p2d n1 (fn1 xs1) (fn1 w1) (fn1 (S1.getD e [])) (neu.getD e 0) (tails wN wD)
          sym n2 (fn1 xs2) (fn2 w2) (fnFlat n2 (S2.getD e [])) (edgeW wv) (cornerW C)
      some ("ok " ++ showList out)
  | ["c17.mixptfull", kind, theta, p2d, ppos, gpos, xs1, w1, wN, wD, neu, gs1, sp1, rho, p1, g1, p2, g2, tab, gs2, xs2, w2, testout, wv, C, S2] => do
      let symm ← if kind = "sym" then some true else if kind = "pt" then some false else none
      let theta ← parseRat theta; let p2d ← parseRat p2d; let ppos ← parseRat ppos; let gpos ← parseRat gpos
      let xs1 ← parseList xs1; let w1 ← parseList w1; let wN ← parseRat wN; let wD ← parseRat wD
      let neu ← parseList neu; let gs1 ← parseList gs1; let sp1 ← parseRows sp1
      let rho ← parseRat rho; let p1 ← parseRat p1; let g1 ← parseRat g1; let p2 ← parseRat p2; let g2 ← parseRat g2
      let tab ← parseSqrtTab tab; let gs2 ← parseList gs2
      let xs2 ← parseList xs2; let w2 ← parseRows w2; let testout ← parseRows testout; let wv ← parseRows wv
      let C ← parseList C; let S2 ← parseRows S2
      let n1 := xs1.length; let n2 := xs2.length; let E := neu.length; let G := gs2.length
      if w1.length ≠ n1 ∨ sp1.length ≠ E ∨ sp1.any (·.length ≠ gs1.length) ∨ gs1.length < n1 ∨ S2.length ≠ E
         ∨ w2.length ≠ n2 ∨ w2.any (·.length ≠ n2) ∨ S2.any (·.length ≠ G * G) ∨ testout.length ≠ 3 ∨ testout.any (·.length ≠ 3)
         ∨ wv.length ≠ 4 ∨ wv.any (·.length ≠ n2) ∨ C.length ≠ 4 ∨ G < n2 then some "err shape" else
      match maskIdx gs2 g1, maskIdx gs2 g2 with
      | [i1], [i2] =>
          let sym := symmetricTest (fn2 testout)
          let runs := (List.range E).map fun e =>
            mixturePointEntry symm (sqrtOf tab) theta p2d ppos gpos gs1 (sp1.getD e []) n1 (fn1 xs1) (fn1 w1) (neu.getD e 0) (tails wN wD)
              sym rho n2 (fn1 xs2) (fn2 w2) (fnFlat G (S2.getD e [])) (edgeW wv) (cornerW C) i1 i2 p1 p2
          match runs.mapM (fun r => match r with | .ok v => some v | .error _ => none) with
          | some vs => some ("ok " ++ showList vs)
          | none => some ("err " ++ (runs.findSome? fun r => match r with | .error e => some e | .ok _ => none).getD "?")
      | [], _ => some "err IndexError"
      | _, [] => some "err IndexError"
      | _, _ => some "err unmodelled"
  | ["c17.pdflayout", which, xs, ys] => do
      let gam ← if which = "g" then some true else if which = "ln" then some false else none
      let xs ← xs.toNat?; let ys ← ys.toNat?
      let val : Nat → Nat → Nat × Nat := fun ii jj => (ii, jj)
      let beyond := writtenBeyond gam xs ys 0 ((xs + ys + 2) * (xs + ys + 2)) val
      let cells := (List.range xs).flatMap fun i => (List.range ys).map fun j =>
        match resultAt gam xs ys 0 val i j with
        | some (a, b) => s!"{a}:{b}"
        | none => "_"
      some s!"ok {beyond} {if cells.isEmpty then "-" else ",".intercalate cells}"
  | ["c17.pdfdispatch", which, L] => do
      let L ← L.toNat?
      let (tab, ok) ← if which = "c_ln" then some (c_ln_dispatch L, c_ln_handled L)
        else if which = "py_ln" then some (py_ln_dispatch L, py_ln_accepts L)
        else if which = "c_g" then some (c_g_dispatch L, c_g_handled L)
        else if which = "py_g" then some (py_g_dispatch L, py_g_accepts L) else none
      let items := tab.map fun (v, k) => match k with
        | some k => s!"{v}={k}"
        | none => s!"{v}=_"
      some s!"ok {bstr ok} {",".intercalate items}"
  | ["c17.lanczos", z] => do
      let z ← parseRat z
      some s!"ok {showRat (lanczosSeries (z - 1))} {showRat (lanczosT (z - 1))} {showRat lanczosReflectBelow}"
  | _ => none

end DadiVerif.Driver.DFE
