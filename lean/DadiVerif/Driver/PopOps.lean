import DadiVerif.Model.Proto
import DadiVerif.Model.PopOps
import DadiVerif.Generated.PopTables
/- driver ops for C10 (population bookkeeping).
   request : `c10 <op> <arg1> <arg2> <shape:data> <mask 0/1 list> <folded 0/1> <labels a,b,c | ->`
   answer  : `ok <shape:data> <mask> <folded> <labels> <nan-cells 0/1 list | ->`  or  `err <kind>` -/
namespace DadiVerif.Driver.PopOps
open DadiVerif DadiVerif.Proto DadiVerif.PopOps

def parseMask (s : String) : Option (List Bool) :=
  if s = "-" then some [] else (s.splitOn ",").mapM parseBool

def parseLabels (s : String) : Option (Option (List String)) :=
  if s = "-" then some none else some (some (s.splitOn ","))

def showMask (l : List Bool) : String :=
  if l.isEmpty then "-" else ",".intercalate (l.map fun b => if b then "1" else "0")

def showLabels : Option (List String) → String
  | none => "-"
  | some l => if l.isEmpty then "-" else ",".intercalate l

def showFS (S : FS) (nan : Option (Idx → Bool) := none) : String :=
  "ok " ++ "x".intercalate (S.shape.map toString) ++ ":" ++ showList (tabDat S) ++ " " ++ showMask (tabMsk S)
    ++ " " ++ (if S.folded then "1" else "0") ++ " " ++ showLabels S.labels ++ " "
    ++ (match nan with | none => "-" | some f => showMask (S.box.map f))

def showOpt : Option FS → String
  | none => "err raises"
  | some S => showFS S

def parseFS (arr mask folded labels : String) : Option FS := do
  let T ← parseND arr
  let m ← parseMask mask
  let f ← parseBool folded
  let l ← parseLabels labels
  if m.length ≠ T.data.size then none
  else if T.shape.any (· == 0) then none
  else match l with
    | some ls => if ls.length ≠ T.shape.length then none else some (ofArrays T.shape T.data m.toArray f l)
    | none => some (ofArrays T.shape T.data m.toArray f l)

def handle (toks : List String) : Option String :=
  match toks with
  | ["c10", op, a1, a2, arr, mask, folded, labels] =>
    match parseFS arr mask folded labels with
    | none => some "err parse"
    | some S =>
      match op with
      | "marg" => (do
          let over ← parseNatList a1; let mc ← parseBool a2
          pure (showOpt (marginalize over mc S))).orElse fun _ => some "err parse"
      | "filter" => (do
          let keep ← parseNatList a1; let mc ← parseBool a2
          pure (showOpt (filterPops keep mc S))).orElse fun _ => some "err parse"
      | "reorder" => (do
          let no ← parseNatList a1
          pure (showOpt (reorderPops no S))).orElse fun _ => some "err parse"
      | "comb2" => (do
          let pq ← parseNatList a1
          match pq with
          | [p, q] => pure (showOpt (combineTwo p q S))
          | _ => none).orElse fun _ => some "err parse"
      | "comb" => (do
          let tc ← parseNatList a1
          pure (showOpt (combinePops tc S))).orElse fun _ => some "err parse"
      | "scramble" => (do
          let mc ← parseBool a1
          pure (showFS (scramble mc S) (some (if S.folded then scrambleNaNFolded S else scrambleNaN S)))).orElse fun _ => some "err parse"
      | "fold" => some (showOpt (foldFS S))
      | "unfold" => some (showOpt (unfoldFS S))
      | "misc" => (do
          let idx ← parseNatList a1
          pure (showOpt (miscCombine Gen.miscRows idx S))).orElse fun _ => some "err parse"
      | "proj1" => (do
          let k ← a1.toNat?; let m ← a2.toNat?
          pure (showOpt (projectOne k m S))).orElse fun _ => some "err parse"
      | "proj" => (do
          let ms ← parseNatList a1
          pure (showOpt (project ms S))).orElse fun _ => some "err parse"
      | "mixsplit" => (do
          -- round 5: closed form of `fs.combine_two_pops([p,q]).project(.. M ..)` (C10_project_merged_mixture)
          let pq ← parseNatList a1; let M ← a2.toNat?
          match pq with
          | [p, q] =>
            if p = 0 ∨ q = 0 ∨ p = q ∨ S.ndim < p ∨ S.ndim < q then pure "err raises"
            else
              let a := (Gen.c2Pair p q).1
              let b := (Gen.c2Pair p q).2
              if (S.shape.getD a 0 - 1) + (S.shape.getD b 0 - 1) < M then pure "err raises"
              else pure (showFS (mixSplit a b M S))
          | _ => none).orElse fun _ => some "err parse"
      | "projscr" => (do
          -- round 5: closed form of `fs.scramble_pop_ids(mc).project(ms)` (C10_project_scramble)
          let ms ← parseNatList a1; let mc ← parseBool a2
          if ms.length ≠ S.ndim || (List.zipWith (fun m s => decide (s < m + 1)) ms S.shape).any id then pure "err raises"
          else pure (showFS (redealProj mc ms S))).orElse fun _ => some "err parse"
      | "total" => some ("ok " ++ showRat (total S))
      | _ => some "err op"
  | _ => none

end DadiVerif.Driver.PopOps
