import DadiVerif.Model.Proto
import DadiVerif.Model.Godambe
/- driver ops for the uncertainty machinery (C19).  Polynomials: `c:e0.e1.e2;c:-;…` (coefficient : exponents, `-` = constant);
   matrices: rows separated by `;`.
   c19.cfg                                   -> ok <generated flags, see below>
   c19.hess <poly> <p0> <eps>                -> ok <n·n entries row-major> <steps> <one-sided bits>     (get_hess)
   c19.grad <poly> <p0> <eps>                -> ok <entries> <steps> <one-sided bits>                   (get_grad)
   c19.elem <poly> <p0> <eps list> <bits> <ii> <jj> -> ok v                                             (hessian_elem, f0 = F(p0))
   c19.step <pval> <eps>                     -> ok <hessStep> <hessOneSided> <gradStep> <gradOneSided>
   c19.stats <H> <g1;g2;…> <diff|->          -> ok J cU GIM varGIM varFIM lrt waldAdj waldOrg scoreOrg scoreAdj   (`E` = singular / not defined)
   c19.aug <p0> <theta>                      -> ok list
   c19.augmodel <poly> <p>                   -> ok v | err IndexError
   c19.scatter <p0> <idx> <vals>             -> ok list | err IndexError | err ValueError
   c19.gather <p0> <idx>                     -> ok list | err IndexError
   c19.cache <impl|id|ref> <obj:id:k;…>      -> ok <obj.k,obj.k,…> <table size>       (which stored spectrum each evaluation used)
   c19.chi2 <weights> <0|1 scalar> <xs> <cdf rows>  -> ok s <v> | ok a <list> | err <kind>
   c19.ll <model mask bits> <data mask bits> <model> <data> <log model> <gammaln(data+1)>  -> ok <ll> <number of entries summed>
   c19.bootmask <mask bits of a bootstrap as given>   -> ok <mask bits as its likelihood sees it>
   c19.bootmasknd <shape> <flat mask bits as given>   -> ok <flat mask bits as seen> <flat index of [0,…,0]> <flat index of [n1,…,nP]>
   c19.cacheadj <impl|fresh|inplace|inplaceskip> <obj:id:k:adj;…> -> ok <obj.k*scale,…> <final table: obj.k*scale,…>   (fs used by every evaluation, what the cache holds afterwards)
   c19.llnd <shape> <data folded 0|1> <model folded 0|1> <model mask bits> <data mask bits> <model> <data> <log of the model as seen> <gammaln(data+1)>
                                             -> ok <ll> <entries summed> <model values as seen> <model mask as seen>
   c19.pairs <weights>                       -> ok <dof:weight;…>    (generated pairing of sum_chi2_ppf)
   Errors: `err zerostep` (a step is 0: the code divides by it), `err shape`. -/
namespace DadiVerif.Driver.Godambe
open DadiVerif DadiVerif.Proto DadiVerif.Godambe

def parseMono (s : String) : Option Mono :=
  match s.splitOn ":" with
  | [c, es] => do
      let c ← parseRat c
      let es ← parseNatList es "."
      some (c, es)
  | _ => none

def parsePoly (s : String) : Option (List Mono) :=
  if s = "-" then some [] else (s.splitOn ";").mapM parseMono

def parseMat (s : String) : Option Mat :=
  if s = "-" then some [] else (s.splitOn ";").mapM parseList

def parseBits (s : String) : Option (List Bool) :=
  if s = "-" then some [] else (s.toList.mapM fun c => if c = '1' then some true else if c = '0' then some false else none)

def showBits (l : List Bool) : String :=
  if l.isEmpty then "-" else String.ofList (l.map fun b => if b then '1' else '0')

def showMat (m : Mat) : String :=
  if m.isEmpty then "-" else ";".intercalate (m.map showList)

def flagsOk (l : List (String × Bool)) : Bool := l.all (·.2)

def optBool : Option Bool → String
  | none => "unbound"
  | some true => "true"
  | some false => "false"

/-- `obj:id:k` -/
def parseCacheOp (s : String) : Option (Nat × Nat × Nat) :=
  match s.splitOn ":" with
  | [o, i, k] => do some ((← o.toNat?), (← i.toNat?), (← k.toNat?))
  | _ => none

/-- `obj:id:k:adj` -/
def parseCacheAdjOp (s : String) : Option (Nat × Nat × Nat × Rat) :=
  match s.splitOn ":" with
  | [o, i, k, a] => do some ((← o.toNat?), (← i.toNat?), (← k.toNat?), (← parseRat a))
  | _ => none

def showScaled (t : Nat × Nat × Rat) : String := s!"{t.1}.{t.2.1}*{showRat t.2.2}"

def handle (toks : List String) : Option String :=
  match toks with
  | ["c19.cfg"] =>
      some s!"ok getHessShapeOk={Gen.Godambe.getHessShapeOk} getGradShapeOk={Gen.Godambe.getGradShapeOk} twoPt={Gen.Godambe.twoPtDerivTest} cacheModule={Gen.Godambe.cacheIsModuleLevel} holdsRef={Gen.Godambe.cacheKeyHoldsRef} keyComplete={Gen.Godambe.cacheKeyComplete} cachePattern={Gen.Godambe.cachePatternOk} godambeShape={flagsOk Gen.Godambe.godambeShape} statsShape={flagsOk Gen.Godambe.statsShape} multinom={flagsOk Gen.Godambe.multinomAug} chi2Scalar={optBool Gen.Godambe.chi2FlagWhenScalar} chi2Array={optBool Gen.Godambe.chi2FlagWhenArray} chi2Shape={Gen.Godambe.chi2ShapeOk} llMaskModel={Gen.Godambe.llMaskModel} llMaskLogDomain={Gen.Godambe.llMaskModelLogDomain} llMaskData={Gen.Godambe.llMaskData} llShape={Gen.Godambe.llShapeOk} bootMaskKept={Gen.Godambe.bootMaskKept} fsFresh={Gen.Godambe.fsFreshProduct} fsSkipsUnit={Gen.Godambe.fsSkipsUnitAdjust} llFoldsModel={Gen.Godambe.llFoldsModel}"
  | ["c19.hess", poly, p0, e] => do
      let ms ← parsePoly poly; let p ← parseList p0; let e ← parseRat e
      let n := p.length
      let v := vecOf p
      let steps := p.map fun x => Gen.Godambe.hessStep x e
      if steps.any (· == 0) then some "err zerostep" else
      let H := getHess (evalPoly ms) v e n
      some ("ok " ++ showList H.flatten ++ " " ++ showList steps ++ " " ++ showBits (p.map fun x => Gen.Godambe.hessOneSided x e))
  | ["c19.grad", poly, p0, e] => do
      let ms ← parsePoly poly; let p ← parseList p0; let e ← parseRat e
      let n := p.length
      let steps := p.map fun x => Gen.Godambe.gradStep x e
      if steps.any (· == 0) then some "err zerostep" else
      some ("ok " ++ showList (getGrad (evalPoly ms) (vecOf p) e n) ++ " " ++ showList steps ++ " "
            ++ showBits (p.map fun x => Gen.Godambe.gradOneSided x e))
  | ["c19.elem", poly, p0, eps, bits, ii, jj] => do
      let ms ← parsePoly poly; let p ← parseList p0; let eps ← parseList eps; let bits ← parseBits bits
      let ii ← ii.toNat?; let jj ← jj.toNat?
      let n := p.length
      if eps.length != n || bits.length != n then some "err shape"
      else if ii ≥ n || jj ≥ n then some "err IndexError"
      else if eps.getD ii 0 == 0 || eps.getD jj 0 == 0 then some "err zerostep"
      else
        let F := evalPoly ms
        some ("ok " ++ showRat (hessElem F (F (vecOf p)) (vecOf p) (vecOf eps) (fun k => bits.getD k false) ii jj))
  | ["c19.step", x, e] => do
      let x ← parseRat x; let e ← parseRat e
      let b := fun (v : Bool) => if v then "1" else "0"
      some s!"ok {showRat (Gen.Godambe.hessStep x e)} {b (Gen.Godambe.hessOneSided x e)} {showRat (Gen.Godambe.gradStep x e)} {b (Gen.Godambe.gradOneSided x e)}"
  | ["c19.stats", H, gs, diff] => do
      let H ← parseMat H; let gs ← parseMat gs; let diff ← parseList diff
      let n := H.length
      if !(isSquare H n) || gs.any (fun g => g.length != n) then some "err shape"
      else if gs.isEmpty then some "err nobootstraps"
      else
        let st := statsOf n H gs diff
        let okH := (minv H).isSome
        let okJ := (minv st.J).isSome
        let okG := okJ && (minv st.GIM).isSome
        let okD := diff.length == n
        let f := fun (c : Bool) (s : String) => if c then s else "E"
        some (" ".intercalate ["ok", showMat st.J, showMat st.cU, f okJ (showMat st.GIM), f okG (showList st.varGIM), f okH (showList st.varFIM),
              f okH (showRat st.lrt), f (okJ && okD) (showRat st.waldAdj), f okD (showRat st.waldOrg), f okH (showRat st.scoreOrg),
              f okJ (showRat st.scoreAdj)])
  | ["c19.aug", p0, th] => do
      let p ← parseList p0; let th ← parseRat th
      some ("ok " ++ showList (Gen.Godambe.augParams p th))
  | ["c19.augmodel", poly, p] => do
      let ms ← parsePoly poly; let p ← parseList p
      match Gen.Godambe.augModel (fun (q : List Rat) => evalPoly ms (vecOf q)) p with
      | some v => some ("ok " ++ showRat v)
      | none => some "err IndexError"
  | ["c19.scatter", p0, idx, vals] => do
      let p ← parseList p0; let idx ← parseNatList idx; let vals ← parseList vals
      if idx.any (· ≥ p.length) then some "err IndexError"
      else if idx.length != vals.length then some "err ValueError"
      else some ("ok " ++ showList (scatter p idx vals))
  | ["c19.gather", p0, idx] => do
      let p ← parseList p0; let idx ← parseNatList idx
      if idx.any (· ≥ p.length) then some "err IndexError" else some ("ok " ++ showList (gather p idx))
  | ["c19.cache", mode, ops] => do
      let ops ← if ops = "-" then some [] else (ops.splitOn ";").mapM parseCacheOp
      let ident : Nat → Nat := fun o => match ops.find? (fun t => t.1 == o) with
        | some t => t.2.1
        | none => 0
      let calls : List (Nat × Nat) := ops.map fun t => (t.1, t.2.2)
      let sem : Nat → Nat → Nat × Nat := fun o k => (o, k)
      let res ← match mode with
        | "impl" => some (let r := runCache (implKey ident) sem [] calls; (r.2, r.1.length))
        | "id" => some (let r := runCache (fun o => (Sum.inr (ident o) : Sum Nat Nat)) sem [] calls; (r.2, r.1.length))
        | "ref" => some (let r := runCache (fun o => (Sum.inl o : Sum Nat Nat)) sem [] calls; (r.2, r.1.length))
        | _ => none
      let toks := res.1.map fun (o, k) => s!"{o}.{k}"
      some s!"ok {if toks.isEmpty then "-" else ",".intercalate toks} {res.2}"
  | ["c19.chi2", w, sc, xs, cdfs] => do
      let w ← parseList w; let sc ← parseBool sc; let xs ← parseList xs; let cdfs ← parseMat cdfs
      if cdfs.length != xs.length || cdfs.any (fun r => r.length + 1 != w.length) then some "err shape"
      else match chi2Mix w sc xs cdfs with
        | .ok (.scalar v) => some ("ok s " ++ showRat v)
        | .ok (.array vs) => some ("ok a " ++ showList vs)
        | .error e => some ("err " ++ e)
  | ["c19.pairs", w] => do
      let w ← parseList w
      let ps := Gen.Godambe.chi2Pairs w
      some ("ok " ++ (if ps.isEmpty then "-" else ";".intercalate (ps.map fun p => s!"{p.1}:{showRat p.2}")))
  | ["c19.cacheadj", mode, ops] => do
      let ops ← if ops = "-" then some [] else (ops.splitOn ";").mapM parseCacheAdjOp
      let ident : Nat → Nat := fun o => match ops.find? (fun t => t.1 == o) with
        | some t => t.2.1
        | none => 0
      let calls : List (Nat × Nat × Rat) := ops.map fun t => (t.1, t.2.2.1, t.2.2.2)
      let sem : Nat → Nat → Nat × Nat × Rat := fun o k => (o, k, 1)
      let smul : Rat → Nat × Nat × Rat → Nat × Nat × Rat := fun a v => (v.1, v.2.1, a * v.2.2)
      let res ← match mode with
        | "impl" => some (runCacheAdj smul (implKey ident) sem [] calls)
        | "fresh" => some (runCacheAdjWith true false smul (implKey ident) sem [] calls)
        | "inplace" => some (runCacheAdjWith false false smul (implKey ident) sem [] calls)
        | "inplaceskip" => some (runCacheAdjWith false true smul (implKey ident) sem [] calls)
        | _ => none
      let used := res.2.map showScaled
      let tab := res.1.reverse.map fun e => showScaled e.2
      some s!"ok {if used.isEmpty then "-" else ",".intercalate used} {if tab.isEmpty then "-" else ",".intercalate tab}"
  | ["c19.bootmasknd", shape, b] => do
      let shape ← parseNatList shape; let b ← parseBits b
      if shape.isEmpty || shape.any (· == 0) || b.length != shape.foldl (· * ·) 1 then some "err shape"
      else some s!"ok {showBits (bootSeenMask b)} {flatIdx shape (shape.map fun _ => 0)} {flatIdx shape (shape.map (· - 1))}"
  | ["c19.llnd", shape, df, mf, mb, db, m, d, lm, lg] => do
      let shape ← parseNatList shape; let df ← parseBool df; let mf ← parseBool mf
      let mb ← parseBits mb; let db ← parseBits db
      let m ← parseList m; let d ← parseList d; let lm ← parseList lm; let lg ← parseList lg
      let n := m.length
      if shape.isEmpty || shape.any (· == 0) || n != shape.foldl (· * ·) 1 || mb.length != n || db.length != n || d.length != n
          || lm.length != n || lg.length != n then some "err shape"
      else if mf && !df then some "err ValueError:folding"      -- Spectrum arithmetic between a folded model and unfolded data is refused
      else
        let seen := llModelSeen shape df mf m mb
        let cells := llCellsND shape df mf m mb db d lm lg
        some s!"ok {showRat (llSum cells)} {llCount cells} {showList (seen.map Prod.fst)} {showBits (seen.map Prod.snd)}"
  | ["c19.bootmask", b] => do
      let b ← parseBits b
      some ("ok " ++ showBits (bootSeenMask b))
  | ["c19.ll", mb, db, m, d, lm, lg] => do
      let mb ← parseBits mb; let db ← parseBits db
      let m ← parseList m; let d ← parseList d; let lm ← parseList lm; let lg ← parseList lg
      let n := m.length
      if mb.length != n || db.length != n || d.length != n || lm.length != n || lg.length != n then some "err shape"
      else
        let cells : List LLCell := (List.range n).map fun i =>
          { mm := mb.getD i false, dm := db.getD i false, m := m.getD i 0, d := d.getD i 0, logm := lm.getD i 0, lgam := lg.getD i 0 }
        some s!"ok {showRat (llSum cells)} {llCount cells}"
  | _ => none

end DadiVerif.Driver.Godambe
