import DadiVerif.Model.Proto
import DadiVerif.Model.DemesConv
/- driver ops for C16 (demes <-> dadi conversion layer).  Every request starts with `c16 <op>`.
   times: `inf` or a rational; size expressions are answered as terms `add(a,b) sub mul div exp(a) log(a) pow(a,b)` over
   rationals (the harness evaluates them in IEEE arithmetic).  Answers: `ok …` | `err <kind>`. -/
namespace DadiVerif.Driver.DemesConv
open DadiVerif DadiVerif.Proto DadiVerif.DemesConv Gen.Demes

def parseTime (s : String) : Option ETime :=
  if s = "inf" then some none else (parseRat s).map some

def parseFn (s : String) : Option SizeFn :=
  match s with
  | "constant" => some SizeFn.constant
  | "exponential" => some SizeFn.exponential
  | "linear" => some SizeFn.linear
  | "other" => some SizeFn.other
  | _ => none

partial def showSym : Sym → String
  | Sym.r q => showRat q
  | Sym.add a b => "add(" ++ showSym a ++ "," ++ showSym b ++ ")"
  | Sym.sub a b => "sub(" ++ showSym a ++ "," ++ showSym b ++ ")"
  | Sym.mul a b => "mul(" ++ showSym a ++ "," ++ showSym b ++ ")"
  | Sym.div a b => "div(" ++ showSym a ++ "," ++ showSym b ++ ")"
  | Sym.ex a => "exp(" ++ showSym a ++ ")"
  | Sym.lg a => "log(" ++ showSym a ++ ")"
  | Sym.pw a b => "pow(" ++ showSym a ++ "," ++ showSym b ++ ")"

def showSlot : Slot → String
  | Slot.phi => "phi" | Slot.xx => "xx" | Slot.T => "T" | Slot.theta => "theta" | Slot.initialT => "initial_t"
  | Slot.demeIds => "deme_ids" | Slot.zero => "zero"
  | Slot.nu k => "nu" ++ toString k
  | Slot.M i j => "M" ++ toString i ++ toString j
  | Slot.gamma k => "gamma" ++ toString k
  | Slot.h k => "h" ++ toString k
  | Slot.frozen k => "frozen" ++ toString k
  | Slot.other s => "other:" ++ s.replace " " "_"

def showNats (l : List Nat) : String := if l.isEmpty then "-" else ",".intercalate (l.map toString)
def showSlots (l : List Slot) : String := if l.isEmpty then "-" else ",".intercalate (l.map showSlot)
def b01 (b : Bool) : String := if b then "1" else "0"

def showEv : Ev → String
  | Ev.initiation b => "init/" ++ b01 b
  | Ev.split i => "split/" ++ toString i
  | Ev.pulse s d p => "pulse/" ++ showNats s ++ "/" ++ toString d ++ "/" ++ showNats p
  | Ev.remove b => "remove/" ++ b01 b
  | Ev.reorder b => "reorder/" ++ b01 b
  | Ev.integConst d s m => "const/" ++ b01 d ++ "/" ++ showSlots s ++ "/" ++ showSlots m
  | Ev.integNonConst s0 m0 s m => "nonconst/" ++ showSlots s0 ++ "/" ++ showSlots m0 ++ "/" ++ showSlots s ++ "/" ++ showSlots m
  | Ev.unknown s => "unknown/" ++ s.replace " " "_"

def showPath (p : PathRec) : String :=
  p.exit ++ ":" ++ b01 p.noop ++ ":" ++ (if p.events.isEmpty then "-" else ";".intercalate (p.events.map showEv))

def handle (toks : List String) : Option String :=
  match toks with
  | "c16" :: rest =>
    match rest with
    | ["T", i0, i1, ne] => (do
        let a ← parseTime i0; let b ← parseTime i1; let n ← parseRat ne
        if n = 0 then pure "err zero_Ne" else
        pure ("ok " ++ showRat (intTime a b n))).orElse fun _ => some "err parse"
    | ["mig", ne, m] => (do
        let n ← parseRat ne; let r ← parseRat m
        pure ("ok " ++ showRat (migEntry n r) ++ " " ++ b01 migRowIsDest)).orElse fun _ => some "err parse"
    | ["sizes", fn, ss, es, st, et, i0, i1] => (do
        let f ← parseFn fn; let a ← parseRat ss; let b ← parseRat es
        let s ← parseTime st; let e ← parseTime et; let x ← parseTime i0; let y ← parseTime i1
        let ep : Epoch := { fn := f, ss := a, es := b, st := s, et := e }
        if !epochCovers s e x y then pure "err epoch_does_not_cover" else
        match epochSizes ep x y with
        | none => pure "err unbound"
        | some (u, v) => pure ("ok " ++ showSym u ++ " " ++ showSym v)).orElse fun _ => some "err parse"
    | ["nu", fn, ac, ss, es, st, et, i0, i1, ne, t] => (do
        let f ← parseFn fn; let c ← parseBool ac; let a ← parseRat ss; let b ← parseRat es
        let s ← parseTime st; let e ← parseTime et; let x ← parseTime i0; let y ← parseTime i1
        let n ← parseRat ne; let tt ← parseRat t
        let ep : Epoch := { fn := f, ss := a, es := b, st := s, et := e }
        if n = 0 then pure "err zero_Ne" else
        match demeNu ep c x y n tt with
        | none => pure "err unbound"
        | some u => pure ("ok " ++ showSym u)).orElse fun _ => some "err parse"
    | ["togen", t, g] => (do
        let a ← parseRat t; let b ← parseRat g
        if b = 0 then pure "err zero_generation_time" else
        pure ("ok " ++ showRat (toGenerations a b))).orElse fun _ => some "err parse"
    | ["wire", n] => (do
        let k ← n.toNat?
        match integCalls.find? (fun (c : IntegCall) => c.npop == k) with
        | none => pure "err no_branch"
        | some c => pure ("ok " ++ c.fn ++ " " ++ ",".intercalate (c.args.map fun (p : Slot × Slot) => showSlot p.1 ++ "=" ++ showSlot p.2))).orElse fun _ => some "err parse"
    | ["split", n, p] => (do
        let k ← n.toNat?; let q ← p.toNat?
        match splitRows.find? (fun (r : SplitRow) => r.npop == k && r.parent == q) with
        | none => pure "err no_row"
        | some r => pure ("ok " ++ r.fn ++ " " ++ showList r.fs)).orElse fun _ => some "err parse"
    | ["admixnew", n] => (do
        let k ← n.toNat?
        match admixNewRows.find? (fun (r : AdmixNewRow) => r.npop == k) with
        | none => pure "err no_row"
        | some r => pure ("ok " ++ r.fn ++ " " ++ showNats r.slots)).orElse fun _ => some "err parse"
    | ["pulse", n, d] => (do
        let k ← n.toNat?; let q ← d.toNat?
        match pulseRows.find? (fun (r : PulseRow) => r.npop == k && r.dest == q) with
        | none => pure "err no_row"
        | some r => pure ("ok " ++ r.fn ++ " " ++ b01 r.sorted ++ " " ++ showNats r.slots)).orElse fun _ => some "err parse"
    | ["sorted", n, src, props, dest] => (do
        let k ← n.toNat?; let s ← parseNatList src; let p ← parseList props
        let d ← (if dest = "-" then some none else dest.toNat?.map some)
        if s.any (· ≥ k) then pure "err index" else
        match d with
        | some dd => if dd ≥ k then pure "err index" else pure ("ok " ++ showList (sortedProps k s p d))
        | none => pure ("ok " ++ showList (sortedProps k s p d))).orElse fun _ => some "err parse"
    | ["events", fn] =>
        match findPaths fn with
        | none => some "err no_function"
        | some f => some ("ok " ++ b01 f.resets ++ " " ++ "|".intercalate (f.paths.map showPath))
    | ["splitprops", i, fs] => (do
        let k ← i.toNat?; let f ← parseList fs
        match splitProps[k]? with
        | none => pure "err no_split"
        | some (nm, g) => pure ("ok " ++ nm ++ " " ++ showList (g f))).orElse fun _ => some "err parse"
    | ["endtimes", ds] => (do
        let d ← parseList ds
        pure ("ok " ++ showList (endTimes d))).orElse fun _ => some "err parse"
    | ["neworder", cur, smp] => (do
        let c ← parseNatList cur; let s ← parseNatList smp
        if s.any (fun p => !c.contains p) then pure "err not_present" else
        let o := newOrder c s
        pure ("ok " ++ showNats o ++ " " ++ showNats (applyOrder c o))).orElse fun _ => some "err parse"
    | ["slice", t, st, eps] => (do
        let tt ← parseRat t; let s0 ← parseTime st
        let es ← (eps.splitOn ";").mapM fun (x : String) =>
          match x.splitOn ":" with
          | [f, a, b, c] => do
              let fn ← parseFn f; let ss ← parseRat a; let e ← parseRat b; let et ← parseRat c
              pure ({ fn := fn, ss := ss, es := e, et := et } : InEpoch)
          | _ => none
        let showFn : SizeFn → String := fun f => match f with
          | SizeFn.constant => "constant" | SizeFn.exponential => "exponential" | SizeFn.linear => "linear" | SizeFn.other => "other"
        let out := shiftEpochs tt s0 es
        let start := match shiftStart tt s0 with | none => "inf" | some x => showRat x
        pure ("ok " ++ start ++ " " ++ ";".intercalate (out.map fun (o : OutEpoch) =>
          showFn o.fn ++ ":" ++ showRat o.ss ++ ":" ++ (match o.es with | none => "none" | some y => showSym y) ++ ":" ++ showRat o.et))).orElse fun _ => some "err parse"
    | ["reordernames", older, no] => (do
        let o ← parseNatList older; let n ← parseNatList no
        if n.any (fun k => k = 0 || k > o.length) || n.length ≠ o.length then pure "err neworder" else
        pure ("ok " ++ showNats (reorderNames o n))).orElse fun _ => some "err parse"
    | ["removenames", older, k] => (do
        let o ← parseNatList older; let r ← k.toNat?
        if r = 0 || r > o.length then pure "err index" else
        pure ("ok " ++ showNats (removeNames o r))).orElse fun _ => some "err parse"
    | ["export", nref, gt, t, nu, m] => (do
        let n ← parseRat nref; let g ← parseRat gt; let a ← parseRat t; let b ← parseRat nu; let c ← parseRat m
        if n = 0 then pure "err zero_Nref" else
        pure ("ok " ++ showRat (expTime n g a) ++ " " ++ showRat (expSize n b) ++ " " ++ showRat (expRate n c))).orElse fun _ => some "err parse"
    | ["flags"] => some ("ok rootNu=" ++ b01 rootNuPassed ++ " migRowIsDest=" ++ b01 migRowIsDest)
    | _ => some "err op"
  | _ => none

end DadiVerif.Driver.DemesConv
