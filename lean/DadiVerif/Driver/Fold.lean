import DadiVerif.Model.Proto
import DadiVerif.Model.Fold
/- driver ops for C09 (fold / unfold / their input afterwards / reverse / misid / arithmetic templates and what an in-place
   template leaves in `self` / slicing / unary operations / the hook sequences / autofold).

   spectrum on the wire = 4 tokens:  <shape:data> <maskbits 0101…> <folded 0|1> <popids>
      popids: `-` = None, `ids:a,b` = ['a','b']
   operand = `S` + spectrum | `M <shape:data> <maskbits>` | `P <shape:data>` | `C <rat>`
   answers: `ok <4 spectrum tokens>` | `raise <Exception>` | `err <why>` -/
namespace DadiVerif.Driver.Fold
open DadiVerif DadiVerif.Proto DadiVerif.Fold

def parseBits (s : String) : Option (Array Bool) :=
  if s = "-" then some #[] else
  (s.toList.mapM fun c => if c = '1' then some true else if c = '0' then some false else none).map List.toArray

def showBits (a : Array Bool) : String :=
  if a.isEmpty then "-" else String.ofList (a.toList.map fun b => if b then '1' else '0')

def parseIds (s : String) : Option (Option (List String)) :=
  if s = "-" then some none
  else if s = "ids:" then some (some [])
  else if s.startsWith "ids:" then some (some ((s.drop 4).toString.splitOn ","))
  else none

def showIds : Option (List String) → String
  | none => "-"
  | some l => "ids:" ++ ",".intercalate l

def parseSpec (nd bits folded ids : String) : Option Spec := do
  let T ← parseND nd
  let m ← parseBits bits
  let f ← parseBool folded
  let p ← parseIds ids
  if m.size ≠ T.data.size then none
  else if T.shape.any (· == 0) then none
  else some { shape := T.shape, data := T.data, mask := m, folded := f, popIds := p }

def showSpec (S : Spec) : String :=
  showND ⟨S.shape, S.data⟩ ++ " " ++ showBits S.mask ++ " " ++ (if S.folded then "1" else "0") ++ " " ++ showIds S.popIds

def showRes : Res → String
  | .ok S => "ok " ++ showSpec S
  | .raise w => "raise " ++ w
  | .undefined w => "err " ++ w

def parseOperand : List String → Option Operand
  | ["S", nd, bits, f, ids] => (parseSpec nd bits f ids).map Operand.spectrum
  | ["M", nd, bits] => do
      let T ← parseND nd; let m ← parseBits bits
      if m.size ≠ T.data.size then none else some (.masked T.data m)
  | ["P", nd] => (parseND nd).map fun T => .plain T.data
  | ["C", c] => (parseRat c).map Operand.scalar
  | _ => none

/-- `start:count:step` or `@k` (integer index) per axis, `;`-separated -/
def parseSel (s : String) : Option (List AxisSel) :=
  (s.splitOn ";").mapM fun t =>
    if t.startsWith "@" then
      (t.drop 1).toString.toNat?.map fun k => { start := k, count := 1, step := 1, drop := true }
    else match t.splitOn ":" with
      | [a, c, st] => do
          let a ← a.toNat?; let c ← c.toNat?; let st ← st.toInt?
          some { start := a, count := c, step := st, drop := false }
      | _ => none

def handle (toks : List String) : Option String :=
  match toks with
  | ["c09.fold", nd, bits, f, ids] => do
      let S ← parseSpec nd bits f ids
      some (showRes (foldSpec S))
  | ["c09.unfold", nd, bits, f, ids] => do
      let S ← parseSpec nd bits f ids
      some (showRes (unfoldSpec S))
  | ["c09.foldself", nd, bits, f, ids] => do
      let S ← parseSpec nd bits f ids
      some ("ok " ++ showSpec (foldSelfAfter S))
  | ["c09.unfoldself", nd, bits, f, ids] => do
      let S ← parseSpec nd bits f ids
      some ("ok " ++ showSpec (unfoldSelfAfter S))
  | ["c09.reverse", nd, bits, f, ids] => do
      let S ← parseSpec nd bits f ids
      some (showRes (.ok (reverseSpec S)))
  | ["c09.misid", p, nd, bits, f, ids] => do
      let p ← parseRat p
      let S ← parseSpec nd bits f ids
      some (showRes (applyMisid S p))
  | ["c09.ctor", mc, nd, bits, f, ids] => do
      let mc ← parseBool mc
      let S ← parseSpec nd bits f ids
      some (showRes (.ok (ctorSpec S mc)))
  | "c09.binop" :: name :: nd :: bits :: f :: ids :: rest => do
      let S ← parseSpec nd bits f ids
      let o ← parseOperand rest
      some (showRes (binop name S o))
  | "c09.inplace" :: name :: nd :: bits :: f :: ids :: rest => do
      let S ← parseSpec nd bits f ids
      let o ← parseOperand rest
      some (showRes (inplace name S o))
  | "c09.inplaceself" :: name :: nd :: bits :: f :: ids :: rest => do
      let S ← parseSpec nd bits f ids
      let o ← parseOperand rest
      match inplaceSelfAfter name S o with
      | some A => some ("ok " ++ showSpec A)
      | none => some "err undefined"
  | ["c09.unary", op, nd, bits, f, ids] => do
      let op ← UnaryOp.ofString op
      let S ← parseSpec nd bits f ids
      some (showRes (unarySpec op S))
  | ["c09.hooks", kind] =>
      let k? : Option ViewKind := match kind with
        | "slice" => some .slice | "ufunc" => some .ufunc | "copy" => some .copy | "deepcopy" => some .deepcopy
        | "view" => some .view | "log" => some .log | _ => none
      match k? with
      | some k => some ("ok " ++ ",".intercalate ((hooksOf k).map Hook.show))
      | none => some "err unknown-kind"
  | ["c09.slice", sel, nd, bits, f, ids] => do
      let sel ← parseSel sel
      let S ← parseSpec nd bits f ids
      some (showRes (sliceSpec S sel))
  | ["c09.autofold", fname, has, df, mf] => do
      let has ← parseBool has; let df ← parseBool df; let mf ← parseBool mf
      match autofold fname has df mf with
      | some b => some ("ok " ++ (if b then "1" else "0"))
      | none => some "err unknown-function"
  | ["c09.sums", nd, bits, f, ids] => do
      let S ← parseSpec nd bits f ids
      some ("ok " ++ showRat (sumData S) ++ " " ++ showRat (sumUnmasked S))
  | ["c09.methods"] =>
      some ("ok " ++ ",".intercalate Gen.Fold.binaryMethods ++ " " ++ ",".intercalate Gen.Fold.inplaceMethods
            ++ " " ++ ",".intercalate Gen.Fold.autofoldFunctions)
  | ["c09.programs"] =>
      some ("ok " ++ toString Gen.Fold.binaryProgram.length ++ " " ++ toString Gen.Fold.inplaceProgram.length
            ++ " " ++ ",".intercalate Gen.Fold.fold_programDefs ++ " " ++ ",".intercalate Gen.Fold.unfold_programDefs)
  | ["c09.family"] =>
      some ("ok " ++ ",".intercalate Gen.Fold.likelihoodFamily ++ " " ++ toString Gen.Fold.likelihoodStoresIntoArgs.length)
  | _ => none

end DadiVerif.Driver.Fold
