import DadiVerif.Model.Proto
import DadiVerif.Model.Step
/- driver ops for the integration core (C01–C04) -/
namespace DadiVerif.Driver.Integ
open DadiVerif DadiVerif.Proto

def handle (toks : List String) : Option String :=
  match toks with
  | ["thomas", a, b, c, r] => do
      let a ← parseList a; let b ← parseList b; let c ← parseList c; let r ← parseList r
      if a.length = b.length ∧ b.length = c.length ∧ c.length = r.length then
        let rows := mkRows a b c r
        if (pivots 1 0 rows).any (· == 0) then some "err zero_pivot"
        else some ("ok " ++ showList (thomas rows))
      else some "err length"
  | ["step", use, dt, ax, nu, gamma, h, beta, ms, grids, eps, phi] => do
      let use ← parseBool use; let dt ← parseRat dt; let ax ← ax.toNat?
      let nu ← parseRat nu; let gamma ← parseRat gamma; let h ← parseRat h
      let beta ← parseOptRat beta; let ms ← parseList ms
      let grids ← parseGrids grids
      let phi ← parseND phi
      let eps ← if eps = "-" then some (ND.ofFn phi.shape fun _ => 1) else parseND eps
      let P : AxisParams := { nu := nu, gamma := gamma, h := h, ms := ms, beta := beta }
      if grids.length ≠ phi.shape.length ∨ ax ≥ grids.length ∨ ms.length + 1 ≠ grids.length then some "err shape"
      else some ("ok " ++ showND (stepAxis grids ax P use eps dt phi))
  | ["precoef", use, ax, nu, gamma, h, beta, ms, grids, eps, shape] => do
      let use ← parseBool use; let ax ← ax.toNat?
      let nu ← parseRat nu; let gamma ← parseRat gamma; let h ← parseRat h
      let beta ← parseOptRat beta; let ms ← parseList ms
      let grids ← parseGrids grids
      let shape ← parseNatList shape "x"
      let eps ← if eps = "-" then some (ND.ofFn shape fun _ => 1) else parseND eps
      let P : AxisParams := { nu := nu, gamma := gamma, h := h, ms := ms, beta := beta }
      match preCoefND grids ax P use eps shape with
      | some (a, b, c) => some ("ok " ++ showND a ++ " " ++ showND b ++ " " ++ showND c)
      | none => some "err unsupported"
  | ["presolve", ax, dt, a, b, c, phi] => do
      let ax ← ax.toNat?; let dt ← parseRat dt
      let a ← parseND a; let b ← parseND b; let c ← parseND c; let phi ← parseND phi
      if a.shape ≠ phi.shape ∨ b.shape ≠ phi.shape ∨ c.shape ≠ phi.shape ∨ ax ≥ phi.shape.length then some "err shape"
      else some ("ok " ++ showND (preSolve ax dt a b c phi))
  | _ => none

end DadiVerif.Driver.Integ
