import DadiVerif.Model.Proto
import DadiVerif.Model.Integrate
import DadiVerif.Model.Kernel
/- driver ops for the integration core (C01–C04) -/
namespace DadiVerif.Driver.Integ
open DadiVerif DadiVerif.Proto

/-- `nu,gamma,h,m,m,…;nu,gamma,h,…` -/
def parsePops (s : String) : Option (List PopParams) :=
  (s.splitOn ";").mapM fun p => do
    let v ← parseList p
    match v with
    | nu :: g :: h :: ms => some { nu := nu, gamma := g, h := h, ms := ms }
    | _ => none

def parseBools (s : String) : Option (List Bool) :=
  if s = "-" then some [] else (s.splitOn ",").mapM parseBool

def showOptRat : Option Rat → String
  | none => "inf"
  | some q => showRat q

/-- parameters that are affine functions of time: value(τ) = c0 + c1·τ, given as two parameter sets -/
def affine (P0 P1 : StepParams) (τ : Rat) : StepParams :=
  { pops := List.zipWith (fun (a b : PopParams) =>
      ({ nu := a.nu + b.nu * τ, gamma := a.gamma + b.gamma * τ, h := a.h + b.h * τ,
         ms := List.zipWith (fun x y => x + y * τ) a.ms b.ms } : PopParams)) P0.pops P1.pops,
    theta0 := P0.theta0 + P1.theta0 * τ,
    beta := match P0.beta, P1.beta with
      | some x, some y => some (x + y * τ)
      | b, _ => b }

/-- `nd|nd|…` (one array of exp values per axis) or `-` -/
def parseEps (s : String) : Option (Option (List ND)) :=
  if s = "-" then some none else ((s.splitOn "|").mapM parseND).map some

def epsOf (e : Option (List ND)) : Nat → ND := fun k =>
  match e with
  | some l => l.getD k (ND.ofFn [] fun _ => 1)
  | none => ND.ofFn [] fun _ => 1

/-- value of a named parameter in a parameter set (what the local of that name holds) -/
def paramOf (P : StepParams) : Gen.Py.Param → Rat
  | .nu k => ((P.pops[k]?).map (·.nu)).getD 0
  | .gamma k => ((P.pops[k]?).map (·.gamma)).getD 0
  | .h k => ((P.pops[k]?).map (·.h)).getD 0
  | .m k l => ((P.pops[k]?).map (fun p => p.ms.getD (if l < k then l else l - 1) 0)).getD 0
  | .theta0 => P.theta0
  | .beta => P.beta.getD 1

/-- the translated body of kernel `name` (Generated/Coeffs.lean `C.kernelProgs`), resolved against its signature entry, statements in
    SOURCE order (`C02_kernel_source_order`: the same as the canonical order the table theorem compares).
    `endAxis = some p`: the C function is called directly with the end of its outermost loop = extent of axis p (what the harness
    does through ctypes on non-cubic arrays) instead of what the Cython wrapper passes. -/
def kernelProgram (name : String) (endAxis : Option Nat) : Option KProg.KProgR := do
  let p ← Gen.C.kernelProgs.find? (·.name == name)
  let K ← Gen.C.kernelSigs.find? (fun K => K.name == p.name && K.d == p.d && K.ax == p.ax && K.pre == p.pre)
  let K' : Gen.C.KernelSig :=
    match endAxis, K.cParams.getLast? with
    | some q, some last =>
        if last.endsWith "end" then { K with pyxCall := K.pyxCall.set (K.cParams.length - 1) (.shape K.rolePhi q) } else K
    | _, _ => K
  some (KProg.resolveSrc K' p)

def progBad (R : KProg.KProgR) : Bool :=
  R.stmts.any (fun st => match st with | .bad _ => true | _ => false)

def parseEndAxis (s : String) : Option (Option Nat) :=
  if s = "-" then some none else s.toNat?.map some

def handle (toks : List String) : Option String :=
  match toks with
  | ["thomas", a, b, c, r] => do
      let a ← parseList a; let b ← parseList b; let c ← parseList c; let r ← parseList r
      if a.length = b.length ∧ b.length = c.length ∧ c.length = r.length then
        let rows := mkRows a b c r
        if (pivots 1 0 rows).any (· == 0) then some "err zero_pivot"
        else some ("ok " ++ showList (thomas rows))
      else some "err length"
  | ["step", use, dt, ax, nu, gamma, h, beta, ms, grids, eps, phi] => do
      let use ← parseBool use; let dt ← parseRat dt; let ax ← ax.toNat?
      let nu ← parseRat nu; let gamma ← parseRat gamma; let h ← parseRat h
      let beta ← parseOptRat beta; let ms ← parseList ms
      let grids ← parseGrids grids
      let phi ← parseND phi
      let eps ← if eps = "-" then some (ND.ofFn phi.shape fun _ => 1) else parseND eps
      let P : AxisParams := { nu := nu, gamma := gamma, h := h, ms := ms, beta := beta }
      if grids.length ≠ phi.shape.length ∨ ax ≥ grids.length ∨ ms.length + 1 ≠ grids.length then some "err shape"
      else some ("ok " ++ showND (stepAxis grids ax P use eps dt phi))
  | ["precoef", use, ax, nu, gamma, h, beta, ms, grids, eps, shape] => do
      let use ← parseBool use; let ax ← ax.toNat?
      let nu ← parseRat nu; let gamma ← parseRat gamma; let h ← parseRat h
      let beta ← parseOptRat beta; let ms ← parseList ms
      let grids ← parseGrids grids
      let shape ← parseNatList shape "x"
      let eps ← if eps = "-" then some (ND.ofFn shape fun _ => 1) else parseND eps
      let P : AxisParams := { nu := nu, gamma := gamma, h := h, ms := ms, beta := beta }
      match preCoefND grids ax P use eps shape with
      | some (a, b, c) => some ("ok " ++ showND a ++ " " ++ showND b ++ " " ++ showND c)
      | none => some "err unsupported"
  | ["presolve", ax, dt, a, b, c, phi] => do
      let ax ← ax.toNat?; let dt ← parseRat dt
      let a ← parseND a; let b ← parseND b; let c ← parseND c; let phi ← parseND phi
      if a.shape ≠ phi.shape ∨ b.shape ≠ phi.shape ∨ c.shape ≠ phi.shape ∨ ax ≥ phi.shape.length then some "err shape"
      else some ("ok " ++ showND (preSolve ax dt a b c phi))
  | ["dt", tf, pops] => do
      let tf ← parseRat tf; let pops ← parsePops pops
      some ("ok " ++ showOptRat (stepDt tf ⟨pops, 0, none⟩))
  | ["inject", dt, frozen, nomut, theta0, grids, phi] => do
      let dt ← parseRat dt; let fr ← parseBools frozen; let nm ← parseBools nomut
      let th ← parseRat theta0; let grids ← parseGrids grids; let phi ← parseND phi
      if grids.length ≠ phi.shape.length then some "err shape"
      else some ("ok " ++ showND (inject grids fr nm dt th phi))
  | ["sweep", dt, frozen, nomut, theta0, beta, pops, grids, phi] => do
      let dt ← parseRat dt; let fr ← parseBools frozen; let nm ← parseBools nomut
      let th ← parseRat theta0; let beta ← parseOptRat beta; let pops ← parsePops pops
      let grids ← parseGrids grids; let phi ← parseND phi
      if grids.length ≠ phi.shape.length ∨ pops.length ≠ grids.length then some "err shape"
      else some ("ok " ++ showND (sweep grids fr nm false (fun _ => ND.ofFn [] fun _ => 1) ⟨pops, th, beta⟩ dt phi))
  | ["integ", "const", tf, T, t0, frozen, nomut, theta0, beta, pops, grids, phi] => do
      let tf ← parseRat tf; let T ← parseRat T; let t0 ← parseRat t0
      let fr ← parseBools frozen; let nm ← parseBools nomut
      let th ← parseRat theta0; let beta ← parseOptRat beta; let pops ← parsePops pops
      let grids ← parseGrids grids; let phi ← parseND phi
      if grids.length ≠ phi.shape.length ∨ pops.length ≠ grids.length then some "err shape"
      else
        let P : StepParams := ⟨pops, th, beta⟩
        let fuel := stepCount (stepDt tf P) t0 T
        if fuel > 8 then some "err too_many_steps" else
        some ("ok " ++ toString fuel ++ " " ++
          showND (integrateConst (sweep grids fr nm false (fun _ => ND.ofFn [] fun _ => 1)) tf P T fuel t0 phi))
  | ["integ", "fn", tf, T, t0, frozen, nomut, theta0, theta1, beta0, beta1, pops0, pops1, grids, phi] => do
      let tf ← parseRat tf; let T ← parseRat T; let t0 ← parseRat t0
      let fr ← parseBools frozen; let nm ← parseBools nomut
      let th0 ← parseRat theta0; let th1 ← parseRat theta1
      let b0 ← parseOptRat beta0; let b1 ← parseOptRat beta1
      let p0 ← parsePops pops0; let p1 ← parsePops pops1
      let grids ← parseGrids grids; let phi ← parseND phi
      if grids.length ≠ phi.shape.length ∨ p0.length ≠ grids.length ∨ p1.length ≠ p0.length then some "err shape"
      else
        let Pf := affine ⟨p0, th0, b0⟩ ⟨p1, th1, b1⟩
        -- fuel: generous bound, the loop stops at T by itself
        some ("ok " ++ showND (integrateFn (sweep grids fr nm false (fun _ => ND.ofFn [] fun _ => 1)) tf Pf T 8 t0 (Pf t0) phi))
  | ["sweep", dt, frozen, nomut, theta0, beta, pops, grids, phi, eps] => do
      -- one full time step with the Chang–Cooper option on: `eps` = exp values per axis
      let dt ← parseRat dt; let fr ← parseBools frozen; let nm ← parseBools nomut
      let th ← parseRat theta0; let beta ← parseOptRat beta; let pops ← parsePops pops
      let grids ← parseGrids grids; let phi ← parseND phi; let eps ← parseEps eps
      if grids.length ≠ phi.shape.length ∨ pops.length ≠ grids.length then some "err shape"
      else some ("ok " ++ showND (sweep grids fr nm eps.isSome (epsOf eps) ⟨pops, th, beta⟩ dt phi))
  | ["integ", "fn", tf, T, t0, frozen, nomut, theta0, theta1, beta0, beta1, pops0, pops1, grids, phi, eps] => do
      let tf ← parseRat tf; let T ← parseRat T; let t0 ← parseRat t0
      let fr ← parseBools frozen; let nm ← parseBools nomut
      let th0 ← parseRat theta0; let th1 ← parseRat theta1
      let b0 ← parseOptRat beta0; let b1 ← parseOptRat beta1
      let p0 ← parsePops pops0; let p1 ← parsePops pops1
      let grids ← parseGrids grids; let phi ← parseND phi; let eps ← parseEps eps
      if grids.length ≠ phi.shape.length ∨ p0.length ≠ grids.length ∨ p1.length ≠ p0.length then some "err shape"
      else
        let Pf := affine ⟨p0, th0, b0⟩ ⟨p1, th1, b1⟩
        some ("ok " ++ showND (integrateFn (sweep grids fr nm eps.isSome (epsOf eps)) tf Pf T 12 t0 (Pf t0) phi))
  | ["integ", "prog", kind, tf, T, t0, frozen, nomut, theta0, theta1, beta0, beta1, pops0, pops1, grids, phi, eps] => do
      -- the TRANSLATED time loop of the driver (Generated/Coeffs.lean `driverPrograms`, resolved), run by the statement semantics
      let tf ← parseRat tf; let T ← parseRat T; let t0 ← parseRat t0
      let fr ← parseBools frozen; let nm ← parseBools nomut
      let th0 ← parseRat theta0; let th1 ← parseRat theta1
      let b0 ← parseOptRat beta0; let b1 ← parseOptRat beta1
      let p0 ← parsePops pops0; let p1 ← parsePops pops1
      let grids ← parseGrids grids; let phi ← parseND phi; let eps ← parseEps eps
      if grids.length ≠ phi.shape.length ∨ p0.length ≠ grids.length ∨ p1.length ≠ p0.length then some "err shape"
      else
        let const := kind == "const"
        let d := grids.length
        match (Gen.Py.driverPrograms.map Prog.resolve).find? (fun R => R.d == d && R.const == const) with
        | none => some "err no_program"
        | some R =>
          if R.body.any (fun st => match st with | .bad _ => true | _ => false) then some "err unresolved" else
          let Pf := affine ⟨p0, th0, b0⟩ ⟨p1, th1, b1⟩
          let E : Prog.PEnv := { tf := tf, T := T, t0 := t0, pf := fun p τ => paramOf (Pf τ) p,
                                 frozen := fun k => fr.getD k false, nomut := fun k => nm.getD k false }
          some ("ok " ++ showND (Prog.run (Prog.semND grids eps.isSome (epsOf eps)) E R 12 (paramOf (Pf t0)) phi))
  | ["kprog", name, endAxis, use, dt, nu, gamma, h, beta, ms, grids, eps, phi] => do
      -- the TRANSLATED body of an on-the-fly C kernel, run by the statement semantics of Model/Kernel.lean on the flat array
      let endAxis ← parseEndAxis endAxis
      let use ← parseBool use; let dt ← parseRat dt
      let nu ← parseRat nu; let gamma ← parseRat gamma; let h ← parseRat h
      let beta ← parseOptRat beta; let ms ← parseList ms
      let grids ← parseGrids grids
      let phi ← parseND phi
      let eps ← if eps = "-" then some (ND.ofFn phi.shape fun _ => 1) else parseND eps
      match kernelProgram name endAxis with
      | none => some "err no_program"
      | some R =>
        if progBad R || R.pre then some "err unresolved" else
        if grids.length ≠ phi.shape.length ∨ R.d ≠ grids.length ∨ ms.length + 1 ≠ grids.length then some "err shape" else
        let env : KProg.KEnv :=
          { shape := phi.shape, grids := grids, coefs := [], P := { nu := nu, gamma := gamma, h := h, ms := ms, beta := beta },
            use := use, dt := dt, eps := fun vals j => eps.get (vals.insertIdx R.ax j) }
        some ("ok " ++ showND ⟨phi.shape, KProg.run R env phi.data⟩)
  | ["kprogpre", name, endAxis, dt, a, b, c, phi] => do
      let endAxis ← parseEndAxis endAxis
      let dt ← parseRat dt
      let a ← parseND a; let b ← parseND b; let c ← parseND c; let phi ← parseND phi
      match kernelProgram name endAxis with
      | none => some "err no_program"
      | some R =>
        if progBad R || !R.pre then some "err unresolved" else
        if a.shape ≠ phi.shape ∨ b.shape ≠ phi.shape ∨ c.shape ≠ phi.shape ∨ R.d ≠ phi.shape.length then some "err shape" else
        let env : KProg.KEnv :=
          { shape := phi.shape, grids := [], coefs := [a.data, b.data, c.data], P := { nu := 1, gamma := 0, h := 0, ms := [], beta := none },
            use := false, dt := dt, eps := fun _ _ => 1 }
        some ("ok " ++ showND ⟨phi.shape, KProg.run R env phi.data⟩)
  | ["kprogtable"] =>
      -- does every resolved kernel body equal the program the model stands for?  (what `C02_kernel_program_table` decides)
      some ("ok " ++ " ".intercalate (((KProg.resolvedAll.map KProg.stripAllocs).zip KProg.expectedAll).map fun (p : KProg.KProgR × KProg.KProgR) =>
        p.1.name ++ "=" ++ (if p.1 == p.2 then "1" else "0")))
  | _ => none

end DadiVerif.Driver.Integ
