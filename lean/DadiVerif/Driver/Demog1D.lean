import DadiVerif.Model.Proto
import DadiVerif.Model.Demog1D
/- driver ops for the library's one-population models (C01).
   c01.models                                   -> ok name:nparams:nepochs;...          (the generated table)
   c01.calls <model> <params>                   -> ok T|nu|gamma;...   (`-` = no call)   nu = a rational or `func:<name>`
                                                   err unknown-model | err arity
   c01.het <model> <tf> <x1> <theta0> <H0> <params>
                                                -> ok H | err raises:<what> | err outside | err unknown-model
      heterozygosity of the density the model hands to the sampler, from the heterozygosity H0 of its start density, for a neutral
      piecewise-constant model (time step control tf, first interior grid point x1). -/
namespace DadiVerif.Driver.Demog1D
open DadiVerif DadiVerif.Proto DadiVerif.Demog1D

def showCall (c : Call) : String :=
  showRat c.T ++ "|" ++ (match c.nu with | .inl q => showRat q | .inr f => "func:" ++ f) ++ "|" ++ showRat c.gamma

def handle (toks : List String) : Option String :=
  match toks with
  | ["c01.models"] =>
      some ("ok " ++ ";".intercalate (Gen.Demog1D.models.map fun m => s!"{m.name}:{m.params.length}:{m.epochs.length}"))
  | ["c01.calls", name, ps] => do
      let ps ← parseList ps
      match lookup name with
      | none => some "err unknown-model"
      | some m => match calls m ps with
        | none => some "err arity"
        | some cs => some ("ok " ++ (if cs.isEmpty then "-" else ";".intercalate (cs.map showCall)))
  | ["c01.het", name, tf, x1, th, h0, ps] => do
      let tf ← parseRat tf; let x1 ← parseRat x1; let th ← parseRat th; let h0 ← parseRat h0
      let ps ← parseList ps
      match lookup name with
      | none => some "err unknown-model"
      | some m => match hetModel m tf x1 th h0 ps with
        | .ok H => some ("ok " ++ showRat H)
        | .raises w => some ("err raises:" ++ w)
        | .outside => some "err outside"
  | _ => none

end DadiVerif.Driver.Demog1D
