import DadiVerif.Model.Proto
import DadiVerif.Model.Admix
import DadiVerif.Model.AdmixFloat
/- driver ops for C06 (splits, admixture, pulses, removal, reordering on phi).
   request : `c06 fn <python function name> <proportions f1,f2,..> <grids g1;g2;..> <phi shape:data>`
             `c06 split1 <grid> <phi>`            phi_1D_to_2D
             `c06 split2 <1|2> <grid> <phi>`      phi_2D_to_3D_split_1 / _2
             `c06 remove <popnum> <grid> <phi>`   remove_pop
             `c06 filter <tokeep a,b,..> <grid> <phi>`
             `c06 reorder <neworder a,b,..> <phi>`
             `c06 cell <zz> <phi> <adz>`          one cell of _admixture_intermediates: lower upper frac_lower frac_upper norm
             `c06 guard <python function name> <proportions>`   1 = the generated guard raises
             `c06 mass <grids> <phi>`             full trapezoid sum (iterated Numerics.trapz), exact
             `c06 guardfl <python function name> <seq|neumaier> <proportions>`   the generated FLOAT guard with binary64
                                                  rounding and the given `sum` algorithm: 1 = raises
             `c06 fsum <seq|neumaier> <numbers>`  that `sum` in binary64, exact value of the resulting double
             `c06 rnd <number>`                   binary64 round-to-nearest-even of an exact rational
             `c06 fnview <python function name> <proportions> <grids> <offset> <strides s1,s2,..> <shape n1,n2,..> <memory N:data>`
                                                  the function on the array OBJECT (offset / strides in elements, any sign) over
                                                  the flat memory: `ok <returned density> <memory afterwards N:data>`
   answer  : `ok <shape:data>` | `err raises` | `err domain` | `err parse` -/
namespace DadiVerif.Driver.Admix
open DadiVerif DadiVerif.Proto DadiVerif.Admix

def showRes : Res → String
  | .ok P => "ok " ++ showND (toND P)
  | .raises => "err raises"
  | .bad => "err domain"

def showOpt : Option Dens → String
  | some P => "ok " ++ showND (toND P)
  | none => "err raises"

def ratInt? (q : Rat) : Option Int := if q.den = 1 then some q.num else none

def handle (toks : List String) : Option String :=
  match toks with
  | ["c06", "fn", name, props, grids, phi] => some <| (do
      let f ← parseList props
      let gs ← parseGrids grids
      let T ← parseND phi
      match findRow name, findLoop name with
      | some _, some _ => pure (showRes (applyByName name f gs (ofND T)))
      | _, _ => pure "err domain").getD "err parse"
  | ["c06", "split1", grid, phi] => some <| (do
      let g ← parseList grid
      let T ← parseND phi
      if T.shape ≠ [g.length] then pure "err domain" else pure ("ok " ++ showND (toND (split1D g.toArray (ofND T))))).getD "err parse"
  | ["c06", "split2", which, grid, phi] => some <| (do
      let w ← which.toNat?
      let g ← parseList grid
      let T ← parseND phi
      pure (showRes (split2 w g.toArray (ofND T)))).getD "err parse"
  | ["c06", "remove", popnum, grid, phi] => some <| (do
      let p ← popnum.toNat?
      let g ← parseList grid
      let T ← parseND phi
      pure (showOpt (removePop g.toArray p (ofND T)))).getD "err parse"
  | ["c06", "filter", keep, grid, phi] => some <| (do
      let k ← parseNatList keep
      let g ← parseList grid
      let T ← parseND phi
      pure (showOpt (filterPops g.toArray k (ofND T)))).getD "err parse"
  | ["c06", "reorder", order, phi] => some <| (do
      let o ← parseNatList order
      let T ← parseND phi
      pure (showOpt (reorderPops o (ofND T)))).getD "err parse"
  | ["c06", "cell", zz, phi, adz] => some <| (do
      let g ← parseList zz
      let p ← parseRat phi
      let a ← parseRat adz
      let z := g.toArray
      if z.size < 2 then pure "err domain" else
      pure ("ok " ++ toString (Gen.Admix.lowerIdx z p a) ++ " " ++ toString (Gen.Admix.upperIdx z p a) ++ " "
            ++ showRat (Gen.Admix.fracLower z p a) ++ " " ++ showRat (Gen.Admix.fracUpper z p a) ++ " " ++ showRat (Gen.Admix.norm z p a))).getD "err parse"
  | ["c06", "guard", name, props] => some <| (do
      let f ← parseList props
      match findRow name with
      | none => pure "err domain"
      | some r => if f.length ≠ r.nf then pure "err domain" else pure ("ok " ++ (if r.guard f then "1" else "0"))).getD "err parse"
  | ["c06", "mass", grids, phi] => some <| (do
      let gs ← parseGrids grids
      let T ← parseND phi
      if T.shape ≠ gs.map Array.size then pure "err domain" else pure ("ok " ++ showRat (totalMass gs (ofND T)))).getD "err parse"
  | ["c06", "guardfl", name, alg, props] => some <| (do
      let f ← parseList props
      match findFl name with
      | none => pure "err domain"
      | some r =>
        if f.length ≠ r.nf then pure "err domain"
        else if alg == "seq" then pure ("ok " ++ (if r.guardFl rndDouble (seqSum rndDouble) f then "1" else "0"))
        else if alg == "neumaier" then pure ("ok " ++ (if r.guardFl rndDouble (neumaierSum rndDouble) f then "1" else "0"))
        else pure "err domain").getD "err parse"
  | ["c06", "fsum", alg, props] => some <| (do
      let f ← parseList props
      if alg == "seq" then pure ("ok " ++ showRat (seqSum rndDouble f))
      else if alg == "neumaier" then pure ("ok " ++ showRat (neumaierSum rndDouble f))
      else pure "err domain").getD "err parse"
  | ["c06", "rnd", x] => some <| (do
      let a ← parseRat x
      pure ("ok " ++ showRat (rndDouble a))).getD "err parse"
  | ["c06", "fnview", name, props, grids, off, strides, shape, mem] => some <| (do
      let f ← parseList props
      let gs ← parseGrids grids
      let o ← (parseRat off).bind ratInt?
      let st ← (← parseList strides).mapM ratInt?
      let sh ← parseNatList shape
      let B ← parseND mem
      let n := B.data.size
      let b : Buf := fun a => if 0 ≤ a ∧ a < (n : Int) then B.data.getD a.toNat 0 else 0
      let v : View := ⟨o, st, sh⟩
      if B.shape ≠ [n] || st.length ≠ sh.length then pure "err domain"
      else if !(boxIdx sh).all (fun idx => decide (0 ≤ v.addr idx) && decide (v.addr idx < (n : Int))) then pure "err domain"
      else match applyInPlaceByName name f gs b v with
        | .ok b' out => pure ("ok " ++ showND (toND out) ++ " " ++ showND (ND.ofFn [n] fun i => b' ((i.getD 0 0 : Nat) : Int)))
        | .raises => pure "err raises"
        | .bad => pure "err domain").getD "err parse"
  | "c06" :: _ => some "err parse"
  | _ => none

end DadiVerif.Driver.Admix
