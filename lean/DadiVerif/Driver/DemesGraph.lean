import DadiVerif.Model.Proto
import DadiVerif.Model.DemesConv
import DadiVerif.Driver.DemesConv
import DadiVerif.Generated.DemesProg
/- driver ops for C16, graph level (round 4).  Every request starts with `c16g <op>`.

   Wire format (no blanks inside a token; `_` = empty):
     name   : `<nat>` or `<nat>~<rat>~<rat>…` (the stamps `_augment_with_ancient_samples` appends)
     time   : `inf` or a rational
     deme   : `name@start@anc+anc@prop+prop@fn:ss:es:et&fn:ss:es:et…`          demes joined by `;`
     mig    : `source@dest@sym@rate@start@end`   (sym = `_` or names joined by `+`)  joined by `;`
     pulse  : `src+src@dest@prop+prop@time`                                            joined by `;`
     graph  : `demes|migs|pulses`
     event  : `time@kind@a@b@c`                                                        joined by `;`
   Sizes of sliced graphs are answered as terms (see Driver/DemesConv.lean). -/
namespace DadiVerif.Driver.DemesGraph
open DadiVerif DadiVerif.Proto DadiVerif.DemesConv Gen.Demes DadiVerif.Driver.DemesConv

def splitE (s : String) (sep : String) : List String := if s = "_" then [] else s.splitOn sep

def parseName (s : String) : Option DName :=
  match s.splitOn "~" with
  | [] => none
  | b :: st => do
      let n ← b.toNat?
      let xs ← st.mapM parseRat
      pure { base := n, stamps := xs }

def parseNames (s : String) : Option (List DName) := (splitE s "+").mapM parseName
def parseRats (s : String) : Option (List Rat) := (splitE s "+").mapM parseRat

def parseInEpoch (s : String) : Option InEpoch :=
  match s.splitOn ":" with
  | [f, a, b, c] => do
      let fn ← parseFn f; let ss ← parseRat a; let es ← parseRat b; let et ← parseRat c
      pure { fn := fn, ss := ss, es := es, et := et }
  | _ => none

def parseDeme (s : String) : Option (GDeme InEpoch) :=
  match s.splitOn "@" with
  | [n, st, an, pr, ep] => do
      let name ← parseName n; let start ← parseTime st; let anc ← parseNames an; let props ← parseRats pr
      let eps ← (splitE ep "&").mapM parseInEpoch
      pure { name := name, start := start, ancestors := anc, proportions := props, epochs := eps }
  | _ => none

def parseMig (s : String) : Option GMig :=
  match s.splitOn "@" with
  | [a, b, sy, r, st, et] => do
      let src ← parseName a; let dst ← parseName b
      let sym ← (if sy = "_" then some none else (parseNames sy).map some)
      let rate ← parseRat r; let s0 ← parseTime st; let e0 ← parseRat et
      pure { source := src, dest := dst, sym := sym, rate := rate, st := s0, et := e0 }
  | _ => none

def parsePulse (s : String) : Option GPulse :=
  match s.splitOn "@" with
  | [so, d, pr, t] => do
      let srcs ← parseNames so; let dst ← parseName d; let props ← parseRats pr; let tm ← parseRat t
      pure { sources := srcs, dest := dst, props := props, time := tm }
  | _ => none

def parseGraph (s : String) : Option (Graph InEpoch) :=
  match s.splitOn "|" with
  | [d, m, p] => do
      let ds ← (splitE d ";").mapM parseDeme
      let ms ← (splitE m ";").mapM parseMig
      let ps ← (splitE p ";").mapM parsePulse
      pure { demes := ds, migs := ms, pulses := ps }
  | _ => none

def parseEvent (s : String) : Option (Rat × DEvt) :=
  match s.splitOn "@" with
  | [t, k, a, b, c] => do
      let tm ← parseRat t
      match k with
      | "pulses" => do let so ← parseNames a; let d ← parseName b; let pr ← parseRats c; pure (tm, DEvt.pulses so d pr)
      | "branch" => do let p ← parseName a; let ch ← parseName b; pure (tm, DEvt.branch p ch)
      | "merge" => do let ps ← parseNames a; let ch ← parseName b; let pr ← parseRats c; pure (tm, DEvt.merge ps pr ch)
      | "admix" => do let ps ← parseNames a; let ch ← parseName b; let pr ← parseRats c; pure (tm, DEvt.admix ps pr ch)
      | "split" => do let p ← parseName a; let cs ← parseNames b; pure (tm, DEvt.split p cs)
      | "marginalize" => do let d ← parseName a; pure (tm, DEvt.marginalize d)
      | _ => none
  | _ => none

def parseEvents (s : String) : Option (List (Rat × DEvt)) := (splitE s ";").mapM parseEvent

def showName (n : DName) : String := "~".intercalate (toString n.base :: n.stamps.map showRat)
def showNames (l : List DName) : String := if l.isEmpty then "_" else "+".intercalate (l.map showName)
def showRats (l : List Rat) : String := if l.isEmpty then "_" else "+".intercalate (l.map showRat)
def showTime : ETime → String
  | none => "inf"
  | some x => showRat x
def showFn : SizeFn → String
  | SizeFn.constant => "constant" | SizeFn.exponential => "exponential" | SizeFn.linear => "linear" | SizeFn.other => "other"

def showOutEpoch (o : OutEpoch) : String :=
  showFn o.fn ++ ":" ++ showRat o.ss ++ ":" ++ (match o.es with | none => "none" | some y => showSym y) ++ ":" ++ showRat o.et

def showDeme (d : GDeme OutEpoch) : String :=
  "@".intercalate [showName d.name, showTime d.start, showNames d.ancestors, showRats d.proportions,
    if d.epochs.isEmpty then "_" else "&".intercalate (d.epochs.map showOutEpoch)]

def showMig (m : GMig) : String :=
  "@".intercalate [showName m.source, showName m.dest, (match m.sym with | none => "_" | some l => showNames l), showRat m.rate, showTime m.st, showRat m.et]

def showPulse (p : GPulse) : String := "@".intercalate [showNames p.sources, showName p.dest, showRats p.props, showRat p.time]

def joinE (l : List String) (sep : String) : String := if l.isEmpty then "_" else sep.intercalate l

def showGraph (g : Graph OutEpoch) : String :=
  joinE (g.demes.map showDeme) ";" ++ "|" ++ joinE (g.migs.map showMig) ";" ++ "|" ++ joinE (g.pulses.map showPulse) ";"

def showEvt : DEvt → String
  | DEvt.pulses so d pr => "pulses@" ++ showNames so ++ "@" ++ showName d ++ "@" ++ showRats pr
  | DEvt.branch p c => "branch@" ++ showName p ++ "@" ++ showName c ++ "@_"
  | DEvt.merge ps pr c => "merge@" ++ showNames ps ++ "@" ++ showName c ++ "@" ++ showRats pr
  | DEvt.admix ps pr c => "admix@" ++ showNames ps ++ "@" ++ showName c ++ "@" ++ showRats pr
  | DEvt.split p cs => "split@" ++ showName p ++ "@" ++ showNames cs ++ "@_"
  | DEvt.marginalize d => "marginalize@" ++ showName d ++ "@_@_"

def showBools (l : List Bool) : String := if l.isEmpty then "_" else String.join (l.map b01)

def showRow (r : PlanRow) : String :=
  "@".intercalate [showRat r.T, showNames r.live, showBools r.frozen, b01 r.allConst, joinE (r.M.map showRats) ","]

def showStep : Step → String
  | Step.integrate r => "I@" ++ showRat r.T ++ "@" ++ showNames r.live ++ "@" ++ showBools r.frozen
  | Step.event ids e => "E@" ++ showNames ids ++ "@" ++ showEvt e
  | Step.reorder o => "R@" ++ (if o.isEmpty then "_" else "+".intercalate (o.map toString))
  | Step.fail => "F"

def graphTimesOk (g : Graph InEpoch) : Bool := g.demes.all fun d => !d.epochs.isEmpty

/-! ### round 5: the GENERATED programs of `Generated/DemesProg.lean` -/

/-- the five lists of `discrete_demographic_events()` from the wire list (kind order kept within each kind) -/
def libOf (l : List (Rat × DEvt)) : LibEvents :=
  { pulses := l.filterMap fun (p : Rat × DEvt) => match p.2 with
      | DEvt.pulses so d pr => some { sources := so, dest := d, proportions := pr, time := p.1 }
      | _ => none
    branches := l.filterMap fun (p : Rat × DEvt) => match p.2 with
      | DEvt.branch a b => some { parent := a, child := b, time := p.1 }
      | _ => none
    mergers := l.filterMap fun (p : Rat × DEvt) => match p.2 with
      | DEvt.merge ps pr c => some { parents := ps, proportions := pr, child := c, time := p.1 }
      | _ => none
    admixtures := l.filterMap fun (p : Rat × DEvt) => match p.2 with
      | DEvt.admix ps pr c => some { parents := ps, proportions := pr, child := c, time := p.1 }
      | _ => none
    splits := l.filterMap fun (p : Rat × DEvt) => match p.2 with
      | DEvt.split a cs => some { parent := a, children := cs, time := p.1 }
      | _ => none }

def showMat (m : List (List Rat)) : String := joinE (m.map showRats) ","

/-- a size argument at the fractions `fracs` of the integration time `T` -/
def showNuAt (fracs : List Rat) (T : Rat) (e : NuEntry) : String := "|".intercalate (fracs.map fun (f : Rat) => showSym (e.at (f * T)))

def showCall (fracs : List Rat) : PCall NuEntry → String
  | PCall.phi1D nu th ga h ids => "P@" ++ (match nu with | none => "none" | some e => showSym (e.at 0)) ++ "@" ++ showRat th ++ "@" ++ showRat ga ++ "@" ++ showRat h ++ "@" ++ showNames ids
  | PCall.integrate r => "I@" ++ r.fn ++ "@" ++ showRat r.T ++ "@" ++ showNames r.ids ++ "@" ++ showBools r.frozen ++ "@" ++ showMat r.m ++ "@"
      ++ joinE (r.nu.map (showNuAt fracs r.T)) "+" ++ "@" ++ showRats r.gamma ++ "@" ++ showRats r.h ++ "@" ++ showRat r.theta
  | PCall.removePop k => "X@" ++ toString k
  | PCall.split ids p n => "S@" ++ showNames ids ++ "@" ++ showName p ++ "@" ++ showNames n
  | PCall.admixNew pr ids ps n => "N@" ++ showRats pr ++ "@" ++ showNames ids ++ "@" ++ showNames ps ++ "@" ++ showNames n
  | PCall.admix pr ids so d => "A@" ++ showRats pr ++ "@" ++ showNames ids ++ "@" ++ showNames so ++ "@" ++ showName d
  | PCall.reorder o => "R@" ++ (if o.isEmpty then "_" else "+".intercalate (o.map toString))
  | PCall.fromPhi ids => "F@" ++ showNames ids

def showCallNat : PCall Nat → String
  | PCall.integrate r => "I@" ++ r.fn ++ "@" ++ showRat r.T ++ "@" ++ showNames r.ids ++ "@" ++ showBools r.frozen ++ "@" ++ showMat r.m ++ "@"
      ++ joinE (r.nu.map toString) "+" ++ "@" ++ showRats r.gamma ++ "@" ++ showRats r.h ++ "@" ++ showRat r.theta
  | PCall.removePop k => "X@" ++ toString k
  | PCall.split ids p n => "S@" ++ showNames ids ++ "@" ++ showName p ++ "@" ++ showNames n
  | PCall.admixNew pr ids ps n => "N@" ++ showRats pr ++ "@" ++ showNames ids ++ "@" ++ showNames ps ++ "@" ++ showNames n
  | PCall.admix pr ids so d => "A@" ++ showRats pr ++ "@" ++ showNames ids ++ "@" ++ showNames so ++ "@" ++ showName d
  | PCall.reorder o => "R@" ++ (if o.isEmpty then "_" else "+".intercalate (o.map toString))
  | PCall.fromPhi ids => "F@" ++ showNames ids
  | PCall.phi1D _ _ _ _ ids => "P@" ++ showNames ids

def parseOptRat (s : String) : Option (Option Rat) := if s = "none" then some none else (parseRat s).map some

def parseBits (s : String) : Option (List Bool) :=
  if s = "_" then some [] else s.toList.mapM fun (c : Char) => if c = '1' then some true else if c = '0' then some false else none

def parseMat (s : String) : Option (List (List Rat)) := (splitE s ",").mapM parseRats

def handle (toks : List String) : Option String :=
  match toks with
  | "c16g" :: rest =>
    match rest with
    | ["migrate", ms, a, b, i0, i1] => (do
        let migs ← (splitE ms ";").mapM parseMig
        let src ← parseName a; let dst ← parseName b; let x ← parseTime i0; let y ← parseTime i1
        pure ("ok " ++ showRat (migRate migs src dst x y))).orElse fun _ => some "err parse"
    | ["epochsel", d, i0, i1] => (do
        let dm ← parseDeme d; let x ← parseTime i0; let y ← parseTime i1
        match epochSearch (epochsOf dm.start dm.epochs) x y with
        | none => pure "err unbound_epoch"
        | some e =>
          match demeSizes dm x y with
          | none => pure ("err unbound " ++ showTime e.st ++ " " ++ showTime e.et)
          | some (fn, u, v) => pure ("ok " ++ showTime e.st ++ " " ++ showTime e.et ++ " " ++ showFn fn ++ " " ++ showSym u ++ " " ++ showSym v)).orElse fun _ => some "err parse"
    | ["slicegraph", t, g] => (do
        let tt ← parseRat t; let gr ← parseGraph g
        if sliceRejects tt then pure "err rejected" else
        pure ("ok " ++ showGraph (sliceGraph tt gr))).orElse fun _ => some "err parse"
    | ["augment", g, sd, ts] => (do
        let gr ← parseGraph g; let names ← parseNames sd; let times ← parseRats ts
        if names.length ≠ times.length || times.isEmpty then pure "err lengths" else
        if sliceRejects (listMin times) then pure "err rejected" else
        let a := augment gr names times
        pure ("ok " ++ showGraph { demes := a.demes, migs := a.migs, pulses := a.pulses } ++ " " ++ showNames a.sampled ++ " " ++ showNames a.frozen)).orElse fun _ => some "err parse"
    | ["prepare", ig, gt, g, sd, ts] => (do
        let isGen ← parseBool ig; let gtime ← parseRat gt
        let gr ← parseGraph g; let names ← parseNames sd; let times ← parseRats ts
        if names.length ≠ times.length || times.isEmpty then pure "err lengths" else
        if gtime = 0 then pure "err zero_generation_time" else
        if sliceRejects (listMin times) then pure "err rejected" else
        let r := sfsPrepare isGen gtime gr names times
        pure ("ok " ++ showGraph r.1 ++ " " ++ showNames r.2.1 ++ " " ++ showNames r.2.2.1 ++ " " ++ showRats r.2.2.2)).orElse fun _ => some "err parse"
    | ["intervals", g] => (do
        let gr ← parseGraph g
        if !graphTimesOk gr then pure "err empty_deme" else
        pure ("ok " ++ joinE ((demesPresent gr).map fun (p : (ETime × ETime) × List (GDeme InEpoch)) => showTime p.1.1 ++ ":" ++ showTime p.1.2 ++ ":" ++ showNames (p.2.map fun (d : GDeme InEpoch) => d.name)) ";")).orElse fun _ => some "err parse"
    | ["plan", g, fz, ne] => (do
        let gr ← parseGraph g; let frozen ← parseNames fz
        if !graphTimesOk gr then pure "err empty_deme" else
        let n ← (if ne = "auto" then rootNe gr else parseRat ne)
        if n = 0 then pure "err zero_Ne" else
        pure ("ok " ++ showRat n ++ " " ++ joinE ((plan gr frozen n).map showRow) ";")).orElse fun _ => some "err parse"
    | ["plannu", g, ne, fr] => (do
        let gr ← parseGraph g; let n ← parseRat ne; let f ← parseRat fr
        if !graphTimesOk gr then pure "err empty_deme" else
        if n = 0 then pure "err zero_Ne" else
        pure ("ok " ++ joinE ((planNu gr n f).map fun (row : List (Option Sym)) => joinE (row.map fun (o : Option Sym) => match o with | none => "none" | some y => showSym y) "+") ";")).orElse fun _ => some "err parse"
    | ["demoevents", g, lib, sd] => (do
        let gr ← parseGraph g; let evs ← parseEvents lib; let names ← parseNames sd
        pure ("ok " ++ joinE ((demoEvents gr evs names).map fun (p : ETime × DEvt) => showTime p.1 ++ "@" ++ showEvt p.2) ";")).orElse fun _ => some "err parse"
    | ["steps", g, lib, sd, fz, ne] => (do
        let gr ← parseGraph g; let evs ← parseEvents lib; let names ← parseNames sd; let frozen ← parseNames fz
        if !graphTimesOk gr then pure "err empty_deme" else
        let n ← (if ne = "auto" then rootNe gr else parseRat ne)
        if n = 0 then pure "err zero_Ne" else
        pure ("ok " ++ joinE ((importSteps gr evs names frozen n).map showStep) ";")).orElse fun _ => some "err parse"
    | ["applyevent", ids, ev] => (do
        let l ← parseNames ids; let e ← parseEvent ev
        match applyEventIds l e.2 with
        | none => pure "err raises"
        | some r => pure ("ok " ++ showNames r)).orElse fun _ => some "err parse"
    | ["classify", g] => (do
        let gr ← parseGraph g
        if !graphTimesOk gr then pure "err empty_deme" else
        let l := classifyEvents gr
        pure ("ok " ++ joinE (l.toList.map fun (p : Rat × DEvt) => showRat p.1 ++ "@" ++ showEvt p.2) ";")).orElse fun _ => some "err parse"
    | ["gevents", g, lib, sd] => (do
        let gr ← parseGraph g; let evs ← parseEvents lib; let names ← parseNames sd
        if !graphTimesOk gr then pure "err empty_deme" else
        match Gen.DemesProg.getDemographicEvents gr (libOf evs) names with
        | none => pure "err raises"
        | some (r : PyDD ETime DEvt × PyDD (ETime × ETime) DName) =>
          pure ("ok " ++ joinE (r.1.map fun (p : ETime × List DEvt) => showTime p.1 ++ "=" ++ joinE (p.2.map showEvt) ",") ";" ++ " "
            ++ joinE (r.2.map fun (p : (ETime × ETime) × List DName) => showTime p.1.1 ++ ":" ++ showTime p.1.2 ++ ":" ++ showNames p.2) ";")).orElse fun _ => some "err parse"
    | ["gparams", g, lib, sd, fz, ne, fr] => (do
        let gr ← parseGraph g; let evs ← parseEvents lib; let names ← parseNames sd; let frozen ← parseNames fz
        let n ← parseOptRat ne; let fracs ← parseRats fr
        if !graphTimesOk gr then pure "err empty_deme" else
        if n == some 0 then pure "err zero_Ne" else
        match Gen.DemesProg.getDemographicEvents gr (libOf evs) names with
        | none => pure "err raises_events"
        | some (r : PyDD ETime DEvt × PyDD (ETime × ETime) DName) =>
          match Gen.DemesProg.getIntegrationParameters gr r.2 frozen n with
          | none => pure "err raises"
          | some (q : List (List NuEntry) × List (List (List Rat)) × List Rat × List (List Bool)) =>
            let rows := (q.2.2.1.zip (q.1.zip (q.2.1.zip q.2.2.2))).map fun (x : Rat × List NuEntry × List (List Rat) × List Bool) =>
              showRat x.1 ++ "@" ++ joinE (x.2.1.map (showNuAt fracs x.1)) "+" ++ "@" ++ showMat x.2.2.1 ++ "@" ++ showBools x.2.2.2
            pure ("ok " ++ joinE rows ";")).orElse fun _ => some "err parse"
    | ["gimport", g, lib, sd, fz, ne, th, ga, hh, fr] => (do
        let gr ← parseGraph g; let evs ← parseEvents lib; let names ← parseNames sd; let frozen ← parseNames fz
        let n ← parseOptRat ne; let theta ← parseRat th; let gam ← parseOptRat ga; let h ← parseOptRat hh; let fracs ← parseRats fr
        if !graphTimesOk gr then pure "err empty_deme" else
        if n == some 0 then pure "err zero_Ne" else
        match Gen.DemesProg.sfsImport (libOf evs) gr names frozen n theta gam h with
        | none => pure "err raises"
        | some (t : Trace NuEntry) => pure ("ok " ++ joinE (t.map (showCall fracs)) ";")).orElse fun _ => some "err parse"
    | ["gapply", ids, ev] => (do
        let l ← parseNames ids; let e ← parseEvent ev
        match Gen.DemesProg.applyEvent ([] : Trace Nat) l e.2 (some e.1) [] with
        | none => pure "err raises"
        | some (r : Trace Nat × List DName) => pure ("ok " ++ joinE (r.1.map showCallNat) ";" ++ " " ++ showNames r.2)).orElse fun _ => some "err parse"
    | ["gintegrate", nus, t, m, ga, hh, th, fz, ids] => (do
        let nu ← (splitE nus "+").mapM String.toNat?; let tt ← parseRat t; let mm ← parseMat m; let gam ← parseRats ga; let h ← parseRats hh
        let theta ← parseRat th; let fr ← parseBits fz; let names ← parseNames ids
        match Gen.DemesProg.integratePhi ([] : Trace Nat) { nu := nu, T := tt, M := mm, gamma := gam, h := h, theta := theta, frozen := fr } names with
        | none => pure "err raises"
        | some (r : Trace Nat) => pure ("ok " ++ joinE (r.map showCallNat) ";")).orElse fun _ => some "err parse"
    | ["admixargs", n, src, props] => (do
        let k ← n.toNat?; let s ← parseNatList src; let p ← parseList props
        match admixNewRows.find? (fun (r : AdmixNewRow) => r.npop == k) with
        | none => pure "err no_row"
        | some r => if s.any (· ≥ k) then pure "err index" else pure ("ok " ++ r.fn ++ " " ++ showList (admixArgs r s p))).orElse fun _ => some "err parse"
    | _ => some "err op"
  | _ => none

end DadiVerif.Driver.DemesGraph
