import DadiVerif.Model.Proto
import DadiVerif.Model.LowPass
/- driver ops for the low-pass calling model (C18).  `cov` = comma list of depth probabilities (depth 0,1,…),
   F = exact rational, sizes in haplotypes.

   lp_part x n minv maxv          -> ok g;g;…            Numerics.part(x, n, minv, maxv) (`none` = no partition; the empty partition of n = 0 prints as `-`)
   lp_partprobs x n F             -> ok p,p,…            partition probabilities (same order)
   lp_projinb g k                 -> ok r0,…,rk          projection_inbreeding(g, k)
   lp_projmat nseq nsub F         -> ok row;row;…        projection_matrix
   lp_heterr cov                  -> ok e                prob_het_err
   lp_callmat cov nsub F          -> ok row;row;…        calling_error_matrix
   lp_nocall cov nseq F           -> ok q0,…,qnseq       probability_of_no_call_1D_GATK_multisample
   lp_enough cov nseq nsub        -> ok pe               probability_enough_individuals_covered
   lp_usesim thr pops             -> ok <nd 0/1>         use_sim_mat          (pops = cov@nseq@nsub@F;cov@nseq@nsub@F;…)
   lp_corrected thr pops model sims -> ok <nd>           output of lowpass_func (model = nd with masked entries 0,
                                                         sims = `-` | i.i.i=v,v,…;… one flattened sim_output per simulated index)
   lp_projected pops model        -> ok <nd>             the plain projection of the model through projection_matrix (refAxesOf)
   lp_deepbound pops              -> ok D,bound,eps,delta  deepDepth, deepBound and its two constants (C18_deep_coverage)
   lp_deepentry pops              -> ok D,bound          deepDepth and the entry-wise constant deepEntryBound (C18_deep_coverage_entrywise)
   lp_projmix0 nseq nsub          -> ok row;row;…|maxdiff  Hardy–Weinberg mixture of individual-subsampling rows (limit of the F > 0 branch of
                                                         projection_matrix at F = 0⁺) and its exact largest distance from the hypergeometric rows
   lp_defined cov nseq nsub       -> ok a,b,c            nocallOk, hetErrOk, probEnoughOk as 0/1 (generated definedness conditions)
   lp_simtable pops af nsim blocks -> ok <nd>|n,n,…|fit   simulate_GATK_multisample_calling(cov, af, nseq, nsub, nsim, Fx) as a function of the recorded
                                                         random draws; n = int(nsim·probability) per aggregate partition; fit = drawsFit as 0/1
                                                         (af = a.b.…; blocks = block|block|…, one per aggregate partition in itertools.product order;
                                                          block = loci#sels; loci = locus;locus;… or `-`; locus = pop/pop/…; pop = d:b,d:b,… (depth : binomial
                                                          draw, one per individual); sels = pop/pop/…; pop = sel,sel,… or `-`; sel = i.i.… positions among the
                                                          sorted called genotypes, in the order subsample_genotypes_1D returns its rows)
   lp_corrected_draws thr pops model tables -> ok <nd>   output of lowpass_func with the simulated tables computed by the model from recorded draws:
                                                         corrected (axesOf pops) thr model (fun i => simTable pops i (draws i)) — the object of C18_total_le_simulated
                                                         (tables = `-` | af=blocks!af=blocks!…, af and blocks as for lp_simtable)
   errors: err odd (odd haplotype number), err F (F = 1 or outside [0,1)), err size, err cov, err missing-sim,
           err nan (a generated definedness condition fails: the code would evaluate 0 ** -1 or x / 0; lp_simtable: no locus simulated, 0/0),
           err draws (lp_simtable: the draws do not have the shape the sizes require) -/
namespace DadiVerif.Driver.LowPass
open DadiVerif DadiVerif.Proto DadiVerif.LowPass

def showNatList (l : List Nat) : String := if l.isEmpty then "-" else ",".intercalate (l.map toString)

def showRows (rows : List (List Rat)) : String := ";".intercalate (rows.map showList)

def okF (F : Rat) : Bool := decide (0 ≤ F) && decide (F < 1)

def okCov (c : List Rat) : Bool := !c.isEmpty && c.all (fun v => decide (0 ≤ v))

def parsePop (s : String) : Option Pop :=
  match s.splitOn "@" with
  | [c, nseq, nsub, F] => do
      let c ← parseList c; let nseq ← nseq.toNat?; let nsub ← nsub.toNat?; let F ← parseRat F
      some { c := c, nseq := nseq, nsub := nsub, F := F }
  | _ => none

def popErr (p : Pop) : Option String :=
  if !okCov p.c then some "err cov"
  else if p.nseq % 2 ≠ 0 ∨ p.nsub % 2 ≠ 0 then some "err odd"
  else if p.nsub > p.nseq ∨ p.nsub = 0 then some "err size"
  else if !okF p.F then some "err F"
  else if !(nocallOk p.c p.nseq && hetErrOk p.c && probEnoughOk p.c p.nseq p.nsub) then some "err nan"
  else none

def b2s (b : Bool) : String := if b then "1" else "0"

def parseIdx (s : String) : Option (List Nat) := parseNatList s "."

def parseSims (s : String) : Option (List (List Nat × Array Rat)) :=
  if s = "-" then some [] else
    (s.splitOn ";").mapM fun e =>
      match e.splitOn "=" with
      | [i, v] => do
          let i ← parseIdx i; let v ← parseList v
          some (i, v.toArray)
      | _ => none

def parseInd (s : String) : Option IndDraw :=
  match s.splitOn ":" with
  | [d, b] => do let d ← d.toNat?; let b ← b.toNat?; some (d, b)
  | _ => none

def parseLocus (s : String) : Option (List (List IndDraw)) :=
  (s.splitOn "/").mapM fun p => (p.splitOn ",").mapM parseInd

def parseSels (s : String) : Option (List (List (List Nat))) :=
  (s.splitOn "/").mapM fun p => if p = "-" then some [] else (p.splitOn ",").mapM fun sel => parseNatList sel "."

def parseBlock (s : String) : Option BlockDraw :=
  match s.splitOn "#" with
  | [loci, sels] => do
      let loci ← if loci = "-" then some [] else (loci.splitOn ";").mapM parseLocus
      let sels ← parseSels sels
      some { loci := loci, sels := sels }
  | _ => none

def parseDrawTables (s : String) : Option (List (List Nat × List BlockDraw)) :=
  if s = "-" then some [] else
    (s.splitOn "!").mapM fun e =>
      match e.splitOn "=" with
      | [i, b] => do
          let i ← parseIdx i
          let b ← (b.splitOn "|").mapM parseBlock
          some (i, b)
      | _ => none

def handle (toks : List String) : Option String :=
  match toks with
  | ["lp_corrected_draws", thr, pops, model, tables] => do
      let thr ← parseRat thr
      let pops ← (pops.splitOn ";").mapM parsePop
      let M ← parseND model
      let draws ← parseDrawTables tables
      match pops.findSome? popErr with
      | some e => some e
      | none =>
        let A := axesOf pops
        let shapeIn := A.map (·.nIn)
        let shapeOut := A.map (·.nOut)
        if M.shape ≠ shapeIn then some "err size" else
        let need := (boxIdx shapeIn).filter fun i => Gen.LowPass.useSim (pncND A i) thr
        if need.any (fun i => !(draws.any fun s => s.1 == i)) then some "err missing-sim" else
        -- each simulated table computed once: simTable pops i blocks j = tableOf binned j
        let tabs := draws.map fun d => (d.1, (simBinned pops d.1 d.2).map fun binned => (binned.isEmpty, (ND.ofFn shapeOut (tableOf binned)).data))
        if tabs.any (fun t => t.2.isNone) then some "err draws"
        else if tabs.any (fun t => match t.2 with | some (e, _) => e | none => false) then some "err nan" else
        let sim : List Nat → List Nat → Rat := fun i j =>
          match tabs.find? (fun s => s.1 == i) with
          | some (_, some (_, arr)) => arr.getD (flatIdx shapeOut j) 0
          | _ => 0
        some ("ok " ++ showND (ND.ofFn shapeOut (corrected A thr M.get sim)))
  | ["lp_simtable", pops, af, nsim, blocks] => do
      let pops ← (pops.splitOn ";").mapM parsePop
      let af ← parseNatList af "."
      let nsim ← parseRat nsim
      let blocks ← (blocks.splitOn "|").mapM parseBlock
      match pops.findSome? popErr with
      | some e => some e
      | none =>
        if af.length ≠ pops.length then some "err size" else
        match simBinned pops af blocks with
        | none => some "err draws"
        | some binned =>
          if binned.isEmpty then some "err nan" else
          let shapeOut := pops.map fun p => p.nsub + 1
          some ("ok " ++ showND (ND.ofFn shapeOut (tableOf binned)) ++ "|" ++
            ",".intercalate ((simCounts pops af nsim).map toString) ++ "|" ++ b2s (drawsFit pops af blocks))
  | ["lp_part", x, n, minv, maxv] => do
      let x ← x.toNat?; let n ← n.toNat?; let minv ← minv.toNat?; let maxv ← maxv.toNat?
      let G := part x n minv maxv
      some ("ok " ++ (if G.isEmpty then "none" else ";".intercalate (G.map showNatList)))
  | ["lp_partprobs", x, n, F] => do
      let x ← x.toNat?; let n ← n.toNat?; let F ← parseRat F
      if !okF F then some "err F" else
      some ("ok " ++ showList (partProbs x n F))
  | ["lp_projinb", g, k] => do
      let g ← parseNatList g; let k ← k.toNat?
      if k / 2 > g.length then some "err size" else
      some ("ok " ++ showList ((List.range (k + 1)).map (projInb g k)))
  | ["lp_projmat", nseq, nsub, F] => do
      let nseq ← nseq.toNat?; let nsub ← nsub.toNat?; let F ← parseRat F
      if !okF F then some "err F"
      else if F ≠ 0 ∧ nseq % 2 ≠ 0 then some "err odd"
      else if nsub > nseq then some "err size"
      else some ("ok " ++ showRows ((List.range (nseq + 1)).map (projRow nseq nsub F)))
  | ["lp_heterr", c] => do
      let c ← parseList c
      if !okCov c then some "err cov" else if !hetErrOk c then some "err nan" else some ("ok " ++ showRat (hetErr c))
  | ["lp_callmat", c, nsub, F] => do
      let c ← parseList c; let nsub ← nsub.toNat?; let F ← parseRat F
      if !okCov c then some "err cov" else if !okF F then some "err F" else if !hetErrOk c then some "err nan" else
      let e := hetErr c
      some ("ok " ++ showRows ((List.range (nsub + 1)).map fun i => (List.range (nsub + 1)).map (callEntryE e nsub F i)))
  | ["lp_nocall", c, nseq, F] => do
      let c ← parseList c; let nseq ← nseq.toNat?; let F ← parseRat F
      if !okCov c then some "err cov" else if !okF F then some "err F" else if !nocallOk c nseq then some "err nan" else
      some ("ok " ++ showList ((List.range (nseq + 1)).map (nocall c nseq F)))
  | ["lp_enough", c, nseq, nsub] => do
      let c ← parseList c; let nseq ← nseq.toNat?; let nsub ← nsub.toNat?
      if !okCov c then some "err cov" else if !probEnoughOk c nseq nsub then some "err nan"
      else some ("ok " ++ showRat (probEnough c nseq nsub))
  | ["lp_usesim", thr, pops] => do
      let thr ← parseRat thr
      let pops ← (pops.splitOn ";").mapM parsePop
      match pops.findSome? popErr with
      | some e => some e
      | none =>
        let A := axesOf pops
        let shape := A.map (·.nIn)
        some ("ok " ++ showND (ND.ofFn shape fun i => b2r (Gen.LowPass.useSim (pncND A i) thr)))
  | ["lp_corrected", thr, pops, model, sims] => do
      let thr ← parseRat thr
      let pops ← (pops.splitOn ";").mapM parsePop
      let M ← parseND model
      let sims ← parseSims sims
      match pops.findSome? popErr with
      | some e => some e
      | none =>
        let A := axesOf pops
        let shapeIn := A.map (·.nIn)
        let shapeOut := A.map (·.nOut)
        if M.shape ≠ shapeIn then some "err size" else
        -- every index the model decides to simulate must come with a simulated output
        let need := (boxIdx shapeIn).filter fun i => Gen.LowPass.useSim (pncND A i) thr
        if need.any (fun i => !(sims.any fun s => s.1 == i)) then some "err missing-sim" else
        let sim : List Nat → List Nat → Rat := fun i j =>
          match sims.find? (fun s => s.1 == i) with
          | some s => s.2.getD (flatIdx shapeOut j) 0
          | none => 0
        some ("ok " ++ showND (ND.ofFn shapeOut (corrected A thr M.get sim)))
  | ["lp_projected", pops, model] => do
      let pops ← (pops.splitOn ";").mapM parsePop
      let M ← parseND model
      match pops.findSome? popErr with
      | some e => some e
      | none =>
        let B := refAxesOf pops
        if M.shape ≠ B.map (·.nIn) then some "err size" else
        some ("ok " ++ showND (ND.ofFn (B.map (·.nOut)) (projected B M.get)))
  | ["lp_deepbound", pops] => do
      let pops ← (pops.splitOn ";").mapM parsePop
      match pops.findSome? popErr with
      | some e => some e
      | none =>
        let D := deepDepth pops
        some ("ok " ++ showList [(D : Rat), deepBound pops, deepEps D (maxOf (pops.map (·.nseq))), deepDelta D (maxOf (pops.map (·.nsub)))])
  | ["lp_deepentry", pops] => do
      let pops ← (pops.splitOn ";").mapM parsePop
      match pops.findSome? popErr with
      | some e => some e
      | none => some ("ok " ++ showList [((deepDepth pops : Nat) : Rat), deepEntryBound pops])
  | ["lp_projmix0", nseq, nsub] => do
      let nseq ← nseq.toNat?; let nsub ← nsub.toNat?
      if nseq % 2 ≠ 0 then some "err odd"
      else if nsub > nseq then some "err size"
      else
        let rows := (List.range (nseq + 1)).map (projMixRow0 nseq nsub)
        let hyp := (List.range (nseq + 1)).map (projRow nseq nsub 0)
        let diffs := (rows.zip hyp).flatMap fun rh => (rh.1.zip rh.2).map fun ab => if ab.1 ≥ ab.2 then ab.1 - ab.2 else ab.2 - ab.1
        let mx := diffs.foldl (fun a b => if a ≥ b then a else b) 0
        some ("ok " ++ showRows rows ++ "|" ++ showRat mx)
  | ["lp_defined", c, nseq, nsub] => do
      let c ← parseList c; let nseq ← nseq.toNat?; let nsub ← nsub.toNat?
      if !okCov c then some "err cov" else
      some ("ok " ++ ",".intercalate [b2s (nocallOk c nseq), b2s (hetErrOk c), b2s (probEnoughOk c nseq nsub)])
  | _ => none

end DadiVerif.Driver.LowPass
