import DadiVerif.Model.Proto
import DadiVerif.Model.Extrap
/- driver ops for grid extrapolation (C07).
   c07.table                      -> ok k:name:points;...            (the generated dispatch table)
   c07.cfg                        -> ok <fallbackMinLen> <defaultFailMag> <shape flags>
   c07.formula <ys> <xs>          -> ok v | err <kind>               (generated dispatch on one entry)
   c07.dispatch <y;y;...> <xs>    -> ok v,v,...                      (k flattened results, entry-wise dispatch, no fallback)
   c07.full <m> <y;y;...> <xs>    -> ok v,v,... f,f,... n,n,...      (with fallback for a whole number m of decades;
                                                                      f = fell back, n = ratio within 1e-6 of a threshold)
   c07.argmin <xs>                -> ok i
   c07.xsel <explicit> <attrs> <k>            -> ok x,x,...            (the x list the pipeline uses for k grids: generated `xSelect`
                                                                       + how it is consumed; explicit = `none` or a list; attrs = one
                                                                       token per result: `m` no attribute, `n` None, or a rational)
   c07.xdispatch <explicit> <attrs> <y;y;...> -> as c07.dispatch, x values chosen by the model
   c07.xfull <m> <explicit> <attrs> <y;y;...> -> as c07.full, x values chosen by the model
   c07.binding                                -> ok p=v;p=v;...        (make_extrap_log_func -> make_extrap_func argument binding)
   c07.mask <corner 0|1> <b,b,...>            -> ok 0|1                (mask bit of one entry of the extrapolated Spectrum from the mask
                                                                       bits of that entry in the k results: generated dispatch + formulas
                                                                       run on mask bits with the generated `specArithMask`)
   Errors: `err NameError:<fn>` `err ValueError:count` `err ValueError:unpack` `err nondistinct` `err shape`. -/
namespace DadiVerif.Driver.Extrap
open DadiVerif DadiVerif.Proto DadiVerif.Extrap

def parseRows (s : String) : Option (List (List Rat)) :=
  if s = "-" then some [] else (s.splitOn ";").mapM parseList

def showBools (l : List Bool) : String :=
  if l.isEmpty then "-" else ",".intercalate (l.map fun b => if b then "1" else "0")

/-- the formulas divide by differences of x values: with two equal x values the real code produces inf/nan (or raises
    ZeroDivisionError for Python floats); the model refuses instead of using Lean's `x/0 = 0`. -/
def needsDistinct (k : Nat) (xs : List Rat) : Bool := k ≥ 2 && !(distinct xs)

def parseExplicit (s : String) : Option (Option (List Rat)) :=
  if s = "none" then some none else (parseList s).map some

def parseAttrs (s : String) : Option (List (Gen.Extrap.XAttr Rat)) :=
  if s = "-" then some [] else (s.splitOn ",").mapM fun t =>
    if t = "m" then some .missing else if t = "n" then some .pyNone else (parseRat t).map .val

def handle (toks : List String) : Option String :=
  match toks with
  | ["c07.table"] =>
      some ("ok " ++ ";".intercalate (Gen.Extrap.formulaTable.map fun (k, nm, p) => s!"{k}:{nm}:{p}")
            ++ " " ++ ",".intercalate (Gen.Extrap.identityCounts.map toString))
  | ["c07.cfg"] =>
      some s!"ok {Gen.Extrap.fallbackMinLen} {Gen.Extrap.defaultFailMag} {Gen.Extrap.resultsPerGridShapeOk} {Gen.Extrap.fallbackShapeOk} {Gen.Extrap.logWrapShapeOk} {Gen.Extrap.xSourceShapeOk}"
  | ["c07.formula", ys, xs] => do
      let ys ← parseList ys; let xs ← parseList xs
      if needsDistinct ys.length xs then some "err nondistinct"
      else match Gen.Extrap.dispatch ys xs with
        | .ok v => some ("ok " ++ showRat v)
        | .error e => some ("err " ++ e)
  | ["c07.dispatch", yss, xs] => do
      let yss ← parseRows yss; let xs ← parseList xs
      if needsDistinct yss.length xs then some "err nondistinct"
      else match dispatchArray yss xs with
        | .ok vs => some ("ok " ++ showList vs)
        | .error e => some ("err " ++ e)
  | ["c07.full", m, yss, xs] => do
      let m ← m.toNat?
      let yss ← parseRows yss; let xs ← parseList xs
      if needsDistinct yss.length xs then some "err nondistinct"
      else match extrapArray m yss xs with
        | .ok rs => some ("ok " ++ showList (rs.map (·.1)) ++ " " ++ showBools (rs.map (·.2.1)) ++ " " ++ showBools (rs.map (·.2.2)))
        | .error e => some ("err " ++ e)
  | ["c07.xsel", ex, ats, k] => do
      let ex ← parseExplicit ex; let ats ← parseAttrs ats; let k ← k.toNat?
      match xsFor ex ats k with
      | .ok xs => some ("ok " ++ showList xs)
      | .error e => some ("err " ++ e)
  | ["c07.xdispatch", ex, ats, yss] => do
      let ex ← parseExplicit ex; let ats ← parseAttrs ats; let yss ← parseRows yss
      match xsFor ex ats yss.length with
      | .error e => some ("err " ++ e)
      | .ok xs =>
        if needsDistinct yss.length xs then some "err nondistinct"
        else match dispatchArray yss xs with
          | .ok vs => some ("ok " ++ showList vs)
          | .error e => some ("err " ++ e)
  | ["c07.xfull", m, ex, ats, yss] => do
      let m ← m.toNat?
      let ex ← parseExplicit ex; let ats ← parseAttrs ats; let yss ← parseRows yss
      match xsFor ex ats yss.length with
      | .error e => some ("err " ++ e)
      | .ok xs =>
        if needsDistinct yss.length xs then some "err nondistinct"
        else match extrapArray m yss xs with
          | .ok rs => some ("ok " ++ showList (rs.map (·.1)) ++ " " ++ showBools (rs.map (·.2.1)) ++ " " ++ showBools (rs.map (·.2.2)))
          | .error e => some ("err " ++ e)
  | ["c07.binding"] =>
      some ("ok " ++ ";".intercalate (Gen.Extrap.logWrapperBinding.map fun (p, v) => s!"{p}={v}"))
  | ["c07.mask", c, bits] => do
      let c ← (if c = "1" then some true else if c = "0" then some false else none)
      let bs ← (if bits = "-" then some [] else (bits.splitOn ",").mapM fun t =>
        if t = "1" then some true else if t = "0" then some false else none)
      match maskResult c bs with
      | some m => some (if m then "ok 1" else "ok 0")
      | none => some "err refused"
  | ["c07.argmin", xs] => do
      let xs ← parseList xs
      if xs.isEmpty then some "err ValueError:empty" else some s!"ok {argminIdx xs}"
  | _ => none

end DadiVerif.Driver.Extrap
