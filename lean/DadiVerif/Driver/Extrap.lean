import DadiVerif.Model.Proto
import DadiVerif.Model.Extrap
/- driver ops for grid extrapolation (C07).
   c07.table                      -> ok k:name:points;...            (the generated dispatch table)
   c07.cfg                        -> ok <fallbackMinLen> <defaultFailMag> <shape flags>
   c07.formula <ys> <xs>          -> ok v | err <kind>               (generated dispatch on one entry)
   c07.dispatch <y;y;...> <xs>    -> ok v,v,...                      (k flattened results, entry-wise dispatch, no fallback)
   c07.full <m> <y;y;...> <xs>    -> ok v,v,... f,f,... n,n,...      (with fallback for a whole number m of decades;
                                                                      f = fell back, n = ratio within 1e-6 of a threshold)
   c07.argmin <xs>                -> ok i
   Errors: `err NameError:<fn>` `err ValueError:count` `err ValueError:unpack` `err nondistinct` `err shape`. -/
namespace DadiVerif.Driver.Extrap
open DadiVerif DadiVerif.Proto DadiVerif.Extrap

def parseRows (s : String) : Option (List (List Rat)) :=
  if s = "-" then some [] else (s.splitOn ";").mapM parseList

def showBools (l : List Bool) : String :=
  if l.isEmpty then "-" else ",".intercalate (l.map fun b => if b then "1" else "0")

/-- the formulas divide by differences of x values: with two equal x values the real code produces inf/nan (or raises
    ZeroDivisionError for Python floats); the model refuses instead of using Lean's `x/0 = 0`. -/
def needsDistinct (k : Nat) (xs : List Rat) : Bool := k ≥ 2 && !(distinct xs)

def handle (toks : List String) : Option String :=
  match toks with
  | ["c07.table"] =>
      some ("ok " ++ ";".intercalate (Gen.Extrap.formulaTable.map fun (k, nm, p) => s!"{k}:{nm}:{p}")
            ++ " " ++ ",".intercalate (Gen.Extrap.identityCounts.map toString))
  | ["c07.cfg"] =>
      some s!"ok {Gen.Extrap.fallbackMinLen} {Gen.Extrap.defaultFailMag} {Gen.Extrap.resultsPerGridShapeOk} {Gen.Extrap.fallbackShapeOk} {Gen.Extrap.logWrapShapeOk}"
  | ["c07.formula", ys, xs] => do
      let ys ← parseList ys; let xs ← parseList xs
      if needsDistinct ys.length xs then some "err nondistinct"
      else match Gen.Extrap.dispatch ys xs with
        | .ok v => some ("ok " ++ showRat v)
        | .error e => some ("err " ++ e)
  | ["c07.dispatch", yss, xs] => do
      let yss ← parseRows yss; let xs ← parseList xs
      if needsDistinct yss.length xs then some "err nondistinct"
      else match dispatchArray yss xs with
        | .ok vs => some ("ok " ++ showList vs)
        | .error e => some ("err " ++ e)
  | ["c07.full", m, yss, xs] => do
      let m ← m.toNat?
      let yss ← parseRows yss; let xs ← parseList xs
      if needsDistinct yss.length xs then some "err nondistinct"
      else match extrapArray m yss xs with
        | .ok rs => some ("ok " ++ showList (rs.map (·.1)) ++ " " ++ showBools (rs.map (·.2.1)) ++ " " ++ showBools (rs.map (·.2.2)))
        | .error e => some ("err " ++ e)
  | ["c07.argmin", xs] => do
      let xs ← parseList xs
      if xs.isEmpty then some "err ValueError:empty" else some s!"ok {argminIdx xs}"
  | _ => none

end DadiVerif.Driver.Extrap
