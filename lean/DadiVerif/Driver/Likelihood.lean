import DadiVerif.Model.Proto
import DadiVerif.Model.Likelihood
/- driver ops for the likelihood functions (C11).
   A spectrum is four tokens: `<shape 4x5> <values a,b,…> <mask bits 0110…> <folded 0|1>`.
   A function table (log, gammaln, sqrt) is `x1,x2,…;y1,y2,…` (`-;-` = empty); the power table is
   `e1,…;x1,…;y1,…` (value of `x^e`).  A visible entry whose argument is missing from a table is an error
   (`err missing_table_entry`), never defaulted.
   Entries are printed as `--` (masked), `nf` (non-finite in floating point: division by an exact zero) or `num/den`.
   Round 4: `lik_fold` (the model's `Spectrum.fold`, hand-written and through the C09 fold model), `lik_cellop` (the mask rule of one
   primitive of the masked-cell algebra: `log`, `sqrt`, `gammaln1`, `mapow:n/d` = numpy.ma.power, `spow:n/d` = Spectrum `**`),
   `lik_flags` (generated facts about the zeros of the Anscombe residual). -/
namespace DadiVerif.Driver.Likelihood
open DadiVerif DadiVerif.Proto DadiVerif.Lik

def parseBits (s : String) : Option (List Bool) :=
  if s = "-" then some [] else
  s.toList.mapM fun c => if c = '1' then some true else if c = '0' then some false else none

def parseSpec (sh vals bits folded : String) : Option (MSpec Rat) := do
  let shape ← parseNatList sh "x"
  let vs ← parseList vals
  let ms ← parseBits bits
  let f ← parseBool folded
  if vs.length = ms.length then
    some ⟨shape, List.zipWith (fun v m => (⟨v, m, false⟩ : Cell Rat)) vs ms, f⟩
  else none

abbrev Tab := List (Rat × Rat)

def parseTab (s : String) : Option Tab :=
  match s.splitOn ";" with
  | [xs, ys] => do
      let xs ← parseList xs; let ys ← parseList ys
      if xs.length = ys.length then some (xs.zip ys) else none
  | _ => none

abbrev PTab := List (Rat × Rat × Rat)

def parsePTab (s : String) : Option PTab :=
  match s.splitOn ";" with
  | [es, xs, ys] => do
      let es ← parseList es; let xs ← parseList xs; let ys ← parseList ys
      if es.length = xs.length ∧ xs.length = ys.length then some (es.zip (xs.zip ys)) else none
  | _ => none

/-- table look-up; `dflt` is returned for a missing argument (the handlers evaluate twice, with defaults 0 and 1,
    and refuse to answer when a visible entry depends on the default) -/
def Tab.fn (t : Tab) (dflt : Rat) (x : Rat) : Rat := ((t.find? (fun p => p.1 == x)).map (·.2)).getD dflt
def expOf (n : Int) (d : Nat) : Rat := (n : Rat) / (d : Rat)
def PTab.fn (t : PTab) (dflt : Rat) (n : Int) (d : Nat) (x : Rat) : Rat :=
  ((t.find? (fun p => p.1 == expOf n d && p.2.1 == x)).map (·.2.2)).getD dflt

def showCell (c : Cell Rat) : String :=
  if c.mask then "--" else if c.bad then "nf" else showRat c.val
def showCells (cs : List (Cell Rat)) : String :=
  if cs.isEmpty then "-" else ",".intercalate (cs.map showCell)

/-- no visible entry depends on the default of a missing table argument -/
def covered (res0 res1 : List (Cell Rat)) : Bool :=
  (List.zipWith (fun (a b : Cell Rat) => a.mask || a == b) res0 res1).all id

/-- the spectrum whose entries are fed to `log` by `ll_per_bin` -/
def effModel (M D : MSpec Rat) : MSpec Rat := autofold Gen.Lik.autofold_ll_per_bin M D

def llOp (multinom perbin : Bool) (s1 v1 b1 f1 s2 v2 b2 f2 logT lgamT : String) : Option String := do
  let M ← parseSpec s1 v1 b1 f1; let D ← parseSpec s2 v2 b2 f2
  let logT ← parseTab logT; let lgamT ← parseTab lgamT
  if !wellFormed M D then some "err shape" else
  let θ := optimalScaling M D
  if multinom && θ.mask then some "err empty_joint_set" else
  if multinom && θ.bad then some "err zero_model_sum" else
  let M1 := if multinom then scaleSpec θ M else M
  if foldingClash Gen.Lik.autofold_ll_per_bin M1 D then some "err folding" else
  let run (z : Rat) := if multinom then llMultinomPerBin (logT.fn z) (lgamT.fn z) M D else llPerBin (logT.fn z) (lgamT.fn z) M D
  let res := run 0
  if !covered res (run 1) then some "err missing_table_entry" else
  if perbin then some ("ok " ++ showCells res)
  else some ("ok " ++ showCell (if multinom then llMultinom (logT.fn 0) (lgamT.fn 0) M D else ll (logT.fn 0) (lgamT.fn 0) M D))

def showBits (bs : List Bool) : String := if bs.isEmpty then "-" else String.ofList (bs.map fun b => if b then '1' else '0')

def parseFrac (s : String) : Option (Int × Nat) :=
  match s.splitOn "/" with
  | [a, b] => do
      let q ← parseRat a; let d ← parseRat b
      if q.den = 1 ∧ d.den = 1 ∧ d.num > 0 then some (q.num, d.num.toNat) else none
  | _ => none

/-- mask of the result of one primitive applied entry-wise (the value functions are irrelevant for the mask) -/
def cellOp (op : String) (cs : List (Cell Rat)) : Option (List Bool) :=
  let idf : Rat → Rat := fun x => x
  match op.splitOn ":" with
  | ["log"] => some (cs.map fun c => (Cell.maLog idf c).mask)
  | ["sqrt"] => some (cs.map fun c => (Cell.maSqrt idf c).mask)
  | ["gammaln1"] => some (cs.map fun c => (Cell.map idf (Cell.add c (Cell.nat 1))).mask)
  | ["mapow", e] => do
      let (n, d) ← parseFrac e
      -- the rule of `Cell.maPower` is the one for fractional exponents (an integer power of a negative base is finite)
      if (n % (d : Int)) = 0 then none else
      some (cs.map fun c => (Cell.maPower idf (decide (n < 0)) c).mask)
  | ["spow", _] => some (cs.map fun c => (Cell.map idf c).mask)
  | _ => none

def handle (toks : List String) : Option String :=
  match toks with
  | ["lik_fold", s1, v1, b1, f1] => do
      let M ← parseSpec s1 v1 b1 f1
      if M.cells.length != prodL M.shape then some "err shape" else
      if M.folded then some "err folded" else
      let A := foldSpec M
      match foldViaC09 M with
      | none => some "err c09_raises"
      | some B =>
        some ("ok " ++ showList (A.cells.map Cell.val) ++ " " ++ showBits (A.cells.map Cell.mask) ++ " " ++ (if A.folded then "1" else "0")
              ++ " " ++ showList (B.cells.map Cell.val) ++ " " ++ showBits (B.cells.map Cell.mask) ++ " " ++ (if B.folded then "1" else "0"))
  | ["lik_cellop", op, vals, bits] => do
      let vs ← parseList vals
      let ms ← parseBits bits
      if vs.length ≠ ms.length then none else
      let r ← cellOp op (List.zipWith (fun v m => (⟨v, m, false⟩ : Cell Rat)) vs ms)
      some ("ok " ++ showBits r)
  | ["lik_flags"] =>
      some ("ok " ++ (if Gen.Lik.anscombeZeroMasked "data" then "1" else "0") ++ " "
            ++ (if Gen.Lik.anscombeZeroMasked "model" then "1" else "0"))
  | ["lik_prep", kind, s1, v1, b1, f1, s2, v2, b2, f2] => do
      let M ← parseSpec s1 v1 b1 f1; let D ← parseSpec s2 v2 b2 f2
      if !wellFormed M D then some "err shape" else
      match kind with
      | "plain" => some ("ok " ++ showList ((effModel M D).cells.map Cell.val))
      | "multinom" => some ("ok " ++ showList ((effModel (scaleSpec (optimalScaling M D) M) D).cells.map Cell.val))
      | "resid" => some ("ok " ++ showList ((autofold Gen.Lik.autofold_linear_Poisson_residual M D).cells.map Cell.val))
      | _ => none
  | ["lik_ll_per_bin", s1, v1, b1, f1, s2, v2, b2, f2, logT, lgamT] => llOp false true s1 v1 b1 f1 s2 v2 b2 f2 logT lgamT
  | ["lik_ll", s1, v1, b1, f1, s2, v2, b2, f2, logT, lgamT] => llOp false false s1 v1 b1 f1 s2 v2 b2 f2 logT lgamT
  | ["lik_ll_multinom_per_bin", s1, v1, b1, f1, s2, v2, b2, f2, logT, lgamT] => llOp true true s1 v1 b1 f1 s2 v2 b2 f2 logT lgamT
  | ["lik_ll_multinom", s1, v1, b1, f1, s2, v2, b2, f2, logT, lgamT] => llOp true false s1 v1 b1 f1 s2 v2 b2 f2 logT lgamT
  | ["lik_exponents"] =>
      some ("ok " ++ ",".intercalate (Gen.Lik.anscombeExponents.map fun p => toString p.1 ++ "/" ++ toString p.2))
  | ["lik_theta", s1, v1, b1, f1, s2, v2, b2, f2] => do
      let M ← parseSpec s1 v1 b1 f1; let D ← parseSpec s2 v2 b2 f2
      if !wellFormed M D then some "err shape" else
      some ("ok " ++ showCell (optimalScaling M D))
  | ["lik_scaled", s1, v1, b1, f1, s2, v2, b2, f2] => do
      let M ← parseSpec s1 v1 b1 f1; let D ← parseSpec s2 v2 b2 f2
      if !wellFormed M D then some "err shape" else
      let R := optimallyScaled M D
      some ("ok " ++ (if R.folded then "1 " else "0 ") ++ showCells R.cells)
  | ["lik_linres", s1, v1, b1, f1, s2, v2, b2, f2, mask, sqrtT] => do
      let M ← parseSpec s1 v1 b1 f1; let D ← parseSpec s2 v2 b2 f2
      let mask ← parseOptRat mask; let sqrtT ← parseTab sqrtT
      if !wellFormed M D then some "err shape" else
      if foldingClash Gen.Lik.autofold_linear_Poisson_residual M D then some "err folding" else
      let res := linResid (sqrtT.fn 0) mask M D
      if !covered res (linResid (sqrtT.fn 1) mask M D) then some "err missing_table_entry" else
      some ("ok " ++ showCells res)
  | ["lik_anscombe", s1, v1, b1, f1, s2, v2, b2, f2, mask, pwT] => do
      let M ← parseSpec s1 v1 b1 f1; let D ← parseSpec s2 v2 b2 f2
      let mask ← parseOptRat mask; let pwT ← parsePTab pwT
      if !wellFormed M D then some "err shape" else
      if foldingClash Gen.Lik.autofold_Anscombe_Poisson_residual M D then some "err folding" else
      let res := anscombe (pwT.fn 0) mask M D
      if !covered res (anscombe (pwT.fn 1) mask M D) then some "err missing_table_entry" else
      some ("ok " ++ showCells res)
  | _ => none

end DadiVerif.Driver.Likelihood
