import DadiVerif.Model.Proto
import DadiVerif.Model.DataDict
/- driver ops for the genotype-data path (C13)

   encodings (no spaces inside a token; `-` = empty list / absent value)
     snp   : chrom,pos,info,nseg,a1,a2,out,calls      calls = a:b+a:b+…  (one pair per requested population)
     snps  : snp;snp;…
     site  : chrom,pos,pass,ref,alt,aa,inds           inds = pop:alleles:nodata+…   alleles = digit string (9 = '.')
     sites : site;site;…
     cols  : 0110;0011;…        (one Boolean string per SNP)        mcols : 01|0011;10|0001;…  (per SNP, per population)

   dd_vcf filt popIds sites                 -> ok snps            | err keyerror      make_data_dict_vcf (+ dict semantics)
   subsample filt want draws popIds sites   -> ok snps left       | err keyerror      … with subsample={pop:k}; want = p:k+p:k
   kept filt sites                          -> ok 0110…           line by line: does the line enter the dictionary (`siteKept`)
   mkdict snps                              -> ok snps                                later duplicates replace earlier entries
   spec pol mc proj snps                    -> ok data mask usable total | err dim    Spectrum.from_data_dict
   frag size snps                           -> ok chunk|chunk|…   chunk = chrom:pos:info,…   Misc.fragment_data_dict
   fragspec size pol proj snps              -> ok data|data|…
   boot size pol mc proj choice snps        -> ok data mask       bootstraps_from_dd_chunks with the recorded choice
   stats1 pol n snps                        -> ok S pi watterson thetaL tajvar        (1-D spectrum with projection n)
   tajima sqrtC pol n snps                  -> ok D
   fst pol proj snps                        -> ok asum dsum fst
   direct1 n cols                           -> ok S pi watterson thetaL tajvar | S pi watterson thetaL tajvar   (direct | via spectrum)
   direct_tajima sqrtC n cols               -> ok Ddirect Dspec
   direct_fst ns mcols                      -> ok direct spec
   bsv filt mc pol nboot size want popIds draws choice sites
                                            -> ok data mask left nchunks proj | err …  one replicate of bootstraps_subsample_vcf:
                                               want = the `subsample` dictionary in insertion order (p:k+p:k), popIds = `pop_ids` in the
                                               order given, draws = the recorded draws still unused, choice = the recorded chunk choice
   bsvproj want popIds                      -> ok proj           the generated `bsvProjections`
   sstate proj mask                         -> ok mask | err dim  mask of a spectrum with mask `mask` after `fs.S()` (generated `sBody` run by `sRun`)
   foldmask proj mask                       -> ok mask | err dim  mask of `fs.fold()` for a spectrum with mask `mask` (`foldMask`)
   poltable                                 -> ok og:a1:a2:pol:der;…   the generated decision table of count_data_dict (og, der: - = none)
   polrow out a1 a2                         -> ok pol der         the model's decision for one SNP with arbitrary allele codes (`Snp.polRow`)
   projstats sqrtC m n cols                 -> ok S W thetaL tajvar D | S W thetaL tajvar D   statistics of the spectrum projected from n to m:
                                               by direct counting on the full columns (`sProj`, …) | from the projected spectrum
   corrected fp proj a b tsnps              -> ok data | err valueerror | err keyerror | err dim     Spectrum.from_data_dict_corrected (data, corners included):
                                               tsnps = snp|hasCtx,i0,i2,o0,o1,o2;…  (flank / outgroup-context base codes), the table file holds
                                               a[outgroup base] + b[derived base] for (context, outgroup base), a and b = 4 rationals each (codes 1..4)
   tricls tsnps                             -> ok s|k:f0,der,f2,og|v|e …            `_data_by_tri` SNP by SNP: skipped / kept in class / ValueError / KeyError
   vcflines filt lines                      -> ok s|REF:ALT:AA …   the reader's token-level decisions line by line (`lineKept`, `lineAa`):
                                               lines = FILTER,REF,ALT,INFO;…  each text as the hex of its bytes (`-` = empty); answer per line
                                               `s` (does not enter the dictionary), `e` (IndexError) or the recorded texts in hex
   gtpool want lines                        -> ok n,n,…   sub-sampling branch on the sample texts (generated `vcfSubDrawable`): the sizes of the pools
                                               drawn from, line by line, population by population until one has too few
                                               lines = sample+…;…   sample = pop:gt:ad:dp  (texts in hex, `x` = field absent)
   gtcalls popIds lines                     -> ok r:a+…;…  branch without sub-sampling on the sample texts (generated `vcfNoSubSkip`, stride, tokens)
   projw m n i j / chunkidx size p / shapes -> ok … -/
namespace DadiVerif.Driver.DataDict
open DadiVerif DadiVerif.Proto DadiVerif.DataDict DadiVerif.Gen.DD

def hexVal (c : Char) : Option Nat :=
  if c.isDigit then some (c.toNat - '0'.toNat)
  else if 'a'.toNat ≤ c.toNat && c.toNat ≤ 'f'.toNat then some (c.toNat - 'a'.toNat + 10) else none

def unhexAux : List Char → Option (List Char)
  | [] => some []
  | a :: b :: r => do
      let x ← hexVal a; let y ← hexVal b; let t ← unhexAux r
      some (Char.ofNat (16 * x + y) :: t)
  | _ => none

/-- a text sent as the hex of its (ASCII) bytes; `-` = the empty text -/
def unhex (s : String) : Option (List Char) := if s = "-" then some [] else unhexAux s.toList

def hexDigit (n : Nat) : Char := if n < 10 then Char.ofNat ('0'.toNat + n) else Char.ofNat ('a'.toNat + n - 10)

def tohex (l : List Char) : String :=
  if l.isEmpty then "-" else String.ofList (l.flatMap fun c => [hexDigit (c.toNat / 16), hexDigit (c.toNat % 16)])

def parseVcfText (s : String) : Option VcfText :=
  match s.splitOn "," with
  | [f, r, a, i] => do
      let f ← unhex f; let r ← unhex r; let a ← unhex a; let i ← unhex i
      some { filter := f, ref := r, alt := a, info := i }
  | _ => none

def splitList (s : String) (sep : String) : List String := if s = "-" then [] else s.splitOn sep

def parseOptNat (s : String) : Option (Option Nat) := if s = "-" then some none else s.toNat?.map some

def parsePair (s : String) : Option (Nat × Nat) :=
  match s.splitOn ":" with
  | [a, b] => do let a ← a.toNat?; let b ← b.toNat?; some (a, b)
  | _ => none

def parseSnp (s : String) : Option Snp :=
  match s.splitOn "," with
  | [c, p, i, n, a1, a2, o, calls] => do
      let c ← c.toNat?; let p ← p.toNat?; let i ← i.toNat?; let n ← n.toNat?
      let a1 ← a1.toNat?; let a2 ← a2.toNat?; let o ← parseOptNat o
      let calls ← (splitList calls "+").mapM parsePair
      some { chrom := c, pos := p, info := i, nseg := n, a1 := a1, a2 := a2, out := o, calls := calls }
  | _ => none

def parseSnps (s : String) : Option (List Snp) := (splitList s ";").mapM parseSnp

def showSnp (s : Snp) : String :=
  ",".intercalate [toString s.chrom, toString s.pos, toString s.info, toString s.nseg, toString s.a1, toString s.a2,
    (match s.out with | none => "-" | some o => toString o),
    (if s.calls.isEmpty then "-" else "+".intercalate (s.calls.map fun c => toString c.1 ++ ":" ++ toString c.2))]

def showSnps (l : List Snp) : String := if l.isEmpty then "-" else ";".intercalate (l.map showSnp)

def parseIndiv (s : String) : Option Indiv :=
  match s.splitOn ":" with
  | [p, al, nd] => do
      let p ← parseOptNat p
      let al ← al.toList.mapM fun ch => if ch.isDigit then some (ch.toNat - '0'.toNat) else none
      let nd ← parseBool nd
      some { pop := p, alleles := al, nodata := nd }
  | _ => none

def parseSite (s : String) : Option Site :=
  match s.splitOn "," with
  | [c, p, pass, r, a, aa, inds] => do
      let c ← c.toNat?; let p ← p.toNat?; let pass ← parseBool pass
      let r ← r.toNat?; let a ← a.toNat?; let aa ← parseOptNat aa
      let inds ← (splitList inds "+").mapM parseIndiv
      some { chrom := c, pos := p, pass := pass, ref := r, alt := a, aa := aa, inds := inds }
  | _ => none

def parseSites (s : String) : Option (List Site) := (splitList s ";").mapM parseSite

def parseTriSnp (s : String) : Option TriSnp :=
  match s.splitOn "|" with
  | [a, b] => do
      let snp ← parseSnp a
      match b.splitOn "," with
      | [h, i0, i2, o0, o1, o2] => do
          let h ← parseBool h; let i0 ← i0.toNat?; let i2 ← i2.toNat?; let o0 ← o0.toNat?; let o1 ← o1.toNat?; let o2 ← o2.toNat?
          some { snp := snp, hasCtx := h, i0 := i0, i2 := i2, o0 := o0, o1 := o1, o2 := o2 }
      | _ => none
  | _ => none

def parseTriSnps (s : String) : Option (List TriSnp) := (splitList s ";").mapM parseTriSnp

def parseCol (s : String) : Option (List Bool) :=
  s.toList.mapM fun ch => if ch = '1' then some true else if ch = '0' then some false else none

def parseCols (s : String) : Option (List (List Bool)) := (splitList s ";").mapM parseCol
def parseMCols (s : String) : Option (List (List (List Bool))) :=
  (splitList s ";").mapM fun t => (t.splitOn "|").mapM parseCol

def parseWant (s : String) : Option (List (Nat × Nat)) := (splitList s "+").mapM parsePair
def parseDraws (s : String) : Option (List (List Nat)) :=
  (splitList s ";").mapM fun t => parseNatList t

/-- all multi-indices, row-major -/
def tabulate (shape : List Nat) (f : List Nat → Rat) : ND := ND.ofFn shape f

def showData (proj : List Nat) (f : List Nat → Rat) : String := showND (tabulate (shapeOf proj) f)

def showMask (proj : List Nat) (m : List Nat → Bool) : String :=
  showND (tabulate (shapeOf proj) fun idx => if m idx then 1 else 0)

def lengthsOk (proj : List Nat) (snps : List Snp) : Bool := snps.all fun s => s.calls.length == proj.length

/-- the one-population spectrum as a function of the derived count (`spectrumAt pol [n] snps [i]`, grouped once) -/
def fn1 (pol : Bool) (n : Nat) (snps : List Snp) : Nat → Rat :=
  let cd := countDict snps
  let tab := (List.range (n + 1)).toArray.map fun i => specAt pol [n] cd [i]
  fun i => if i ≤ n then tab.getD i 0 else specAt pol [n] cd [i]

def showStats (S pi w tl tv : Rat) : String :=
  " ".intercalate [showRat S, showRat pi, showRat w, showRat tl, showRat tv]

/-- a text that may be absent: `x` = none, otherwise hex (`-` = empty) -/
def unhexOpt (s : String) : Option (Option (List Char)) := if s = "x" then some none else (unhex s).map some

/-- one sample column on the wire: pop:gt:ad:dp  (pop `-` = not in the popinfo file; texts in hex, `x` = field absent) -/
def parseSampleText (s : String) : Option SampleText :=
  match s.splitOn ":" with
  | [p, gt, ad, dp] => do
      let p ← parseOptNat p; let gt ← unhex gt; let ad ← unhexOpt ad; let dp ← unhexOpt dp
      some { pop := p, gt := gt, ad := ad, dp := dp }
  | _ => none

def showNats (l : List Nat) : String := if l.isEmpty then "-" else ",".intercalate (l.map toString)

def handle (toks : List String) : Option String :=
  match toks with
  | ["dd_vcf", filt, popIds, sites] => do
      let filt ← parseBool filt; let popIds ← parseNatList popIds; let sites ← parseSites sites
      match ddVcf filt popIds sites with
      | some l => some ("ok " ++ showSnps l)
      | none => some "err keyerror"
  | ["subsample", filt, want, draws, popIds, sites] => do
      let filt ← parseBool filt; let want ← parseWant want; let draws ← parseDraws draws
      let popIds ← parseNatList popIds; let sites ← parseSites sites
      match ddSub filt want popIds sites draws [] with
      | some (l, left) => some ("ok " ++ showSnps l ++ " " ++ toString left.length)
      | none => some "err keyerror"
  | ["kept", filt, sites] => do
      let filt ← parseBool filt; let sites ← parseSites sites
      some ("ok " ++ String.mk (sites.map fun st => if siteKept filt st then '1' else '0'))
  | ["mkdict", snps] => do
      let snps ← parseSnps snps
      some ("ok " ++ showSnps (mkDict snps))
  | ["spec", pol, mc, proj, snps] => do
      let pol ← parseBool pol; let mc ← parseBool mc; let proj ← parseNatList proj; let snps ← parseSnps snps
      if !lengthsOk proj snps then some "err dim"
      else
        let cd := countDict snps                 -- `spectrumAt pol proj snps = specAt pol proj (countDict snps)`, grouped once
        let f := specAt pol proj cd
        some ("ok " ++ showData proj f ++ " " ++ showMask proj (maskAt pol mc proj) ++ " "
              ++ toString (countUsable pol proj snps) ++ " " ++ showRat (boxSum (shapeOf proj) f))
  | ["frag", size, snps] => do
      let size ← size.toNat?; let snps ← parseSnps snps
      if size = 0 then some "err size"
      else
        let showChunk (c : List Snp) : String :=
          if c.isEmpty then "-" else ",".intercalate (c.map fun s => toString s.chrom ++ ":" ++ toString s.pos ++ ":" ++ toString s.info)
        some ("ok " ++ "|".intercalate ((fragment size snps).map showChunk))
  | ["fragspec", size, pol, proj, snps] => do
      let size ← size.toNat?; let pol ← parseBool pol; let proj ← parseNatList proj; let snps ← parseSnps snps
      if size = 0 then some "err size"
      else if !lengthsOk proj snps then some "err dim"
      else some ("ok " ++ "|".intercalate ((fragment size snps).map fun c =>
              let cd := countDict c
              showData proj (specAt pol proj cd)))
  | ["boot", size, pol, mc, proj, choice, snps] => do
      let size ← size.toNat?; let pol ← parseBool pol; let mc ← parseBool mc; let proj ← parseNatList proj
      let choice ← parseNatList choice; let snps ← parseSnps snps
      if size = 0 then some "err size"
      else if !lengthsOk proj snps then some "err dim"
      else
        let chunks := fragment size snps
        let cds := chunks.map countDict          -- `bootAt pol proj chunks choice = bootAtCd pol proj (chunks.map countDict) choice`
        if choice.any (· ≥ chunks.length) then some "err choice"
        else some ("ok " ++ showData proj (bootAtCd pol proj cds choice) ++ " " ++ showMask proj (maskAt pol mc proj))
  | ["stats1", pol, n, snps] => do
      let pol ← parseBool pol; let n ← n.toNat?; let snps ← parseSnps snps
      if !lengthsOk [n] snps then some "err dim"
      else
        let f := fn1 pol n snps
        some ("ok " ++ showStats (sOf n f) (piOf n f) (wattersonOf n f) (thetaLOf n f) (tajVarOf n f))
  | ["tajima", sq, pol, n, snps] => do
      let sq ← parseRat sq; let pol ← parseBool pol; let n ← n.toNat?; let snps ← parseSnps snps
      if !lengthsOk [n] snps then some "err dim"
      else some ("ok " ++ showRat (tajimaOf sq n (fn1 pol n snps)))
  | ["fst", pol, proj, snps] => do
      let pol ← parseBool pol; let proj ← parseNatList proj; let snps ← parseSnps snps
      if !lengthsOk proj snps then some "err dim"
      else
        let cd := countDict snps
        let f := specAt pol proj cd
        some ("ok " ++ showRat (fstASum proj f) ++ " " ++ showRat (fstDSum proj f) ++ " " ++ showRat (fstOf proj f))
  | ["direct1", n, cols] => do
      let n ← n.toNat?; let cols ← parseCols cols
      if cols.any (·.length ≠ n) then some "err dim"
      else
        let f := fn1 true n (cols.map fun c => snpOfCols [c])
        some ("ok " ++ showStats (sDirect cols) (piDirect n cols) (wattersonDirect n cols) (thetaLDirect n cols) (tajVarDirect n cols)
              ++ " | " ++ showStats (sOf n f) (piOf n f) (wattersonOf n f) (thetaLOf n f) (tajVarOf n f))
  | ["direct_tajima", sq, n, cols] => do
      let sq ← parseRat sq; let n ← n.toNat?; let cols ← parseCols cols
      if cols.any (·.length ≠ n) then some "err dim"
      else
        let f := fn1 true n (cols.map fun c => snpOfCols [c])
        some ("ok " ++ showRat (tajimaDirect sq n cols) ++ " " ++ showRat (tajimaOf sq n f))
  | ["direct_fst", ns, mcols] => do
      let ns ← parseNatList ns; let mcols ← parseMCols mcols
      if mcols.any (fun cols => cols.map (·.length) ≠ ns) then some "err dim"
      else
        let cd := countDict (mcols.map snpOfCols)
        let f := specAt true ns cd
        some ("ok " ++ showRat (fstDirect ns mcols) ++ " " ++ showRat (fstOf ns f))
  | ["projw", m, n, i, j] => do
      let m ← m.toNat?; let n ← n.toNat?; let i ← i.toNat?; let j ← j.toNat?
      some ("ok " ++ showRat (projWeight m n i j))
  | ["projrow13", m, n, i] => do
      let m ← m.toNat?; let n ← n.toNat?; let i ← i.toNat?
      some ("ok " ++ showList ((List.range (m + 1)).map (projWeight m n i)))
  | ["chunkidx", size, p] => do
      let size ← size.toNat?; let p ← p.toNat?
      some ("ok " ++ toString (chunkIdx size p))
  | ["bsv", filt, mc, pol, nboot, size, want, popIds, draws, choice, sites] => do
      let filt ← parseBool filt; let mc ← parseBool mc; let pol ← parseBool pol
      let nboot ← nboot.toNat?; let size ← size.toNat?; let want ← parseWant want; let popIds ← parseNatList popIds
      let draws ← parseDraws draws; let choice ← parseNatList choice; let sites ← parseSites sites
      if !bsvKeysOk want popIds then some "err keyerror"
      else if bsvFragSize nboot size = 0 then some "err size"
      else match bsvDict filt mc pol want popIds sites draws with
        | none => some "err keyerror"
        | some (dd, left) =>
          let proj := bsvProjections want popIds
          if !lengthsOk proj dd then some "err dim"
          else
            let chunks := bsvChunks nboot size dd
            let cds := chunks.map countDict      -- `bsvReplicateAt … = bootAt … = bootAtCd … (chunks.map countDict) …`
            if choice.any (· ≥ chunks.length) then some "err choice"
            else some ("ok " ++ showData proj (bootAtCd (bsvBootPolarized filt mc pol) proj cds choice) ++ " "
                  ++ showMask proj (bsvMaskAt filt mc pol want popIds) ++ " " ++ toString left.length ++ " "
                  ++ toString chunks.length ++ " " ++ ",".intercalate (proj.map toString))
  | ["bsvproj", want, popIds] => do
      let want ← parseWant want; let popIds ← parseNatList popIds
      if !bsvKeysOk want popIds then some "err keyerror"
      else some ("ok " ++ ",".intercalate ((bsvProjections want popIds).map toString))
  | ["sstate", proj, mask] => do
      let proj ← parseNatList proj; let mask ← parseND mask
      if mask.shape ≠ shapeOf proj then some "err dim"
      else some ("ok " ++ showMask proj (sRun proj (fun _ => 0) (fun idx => mask.get idx != 0)).live)
  | ["foldmask", proj, mask] => do
      let proj ← parseNatList proj; let mask ← parseND mask
      if mask.shape ≠ shapeOf proj then some "err dim"
      else some ("ok " ++ showMask proj (foldMask proj fun idx => mask.get idx != 0))
  | ["poltable"] =>
      let so (o : Option Nat) : String := match o with | none => "-" | some x => toString x
      some ("ok " ++ ";".intercalate (polTable.map fun row =>
        ":".intercalate [so row.1.1, toString row.1.2.1, toString row.1.2.2, (if row.2.1 then "1" else "0"), so row.2.2]))
  | ["polrow", out, a1, a2] => do
      let out ← parseOptNat out; let a1 ← a1.toNat?; let a2 ← a2.toNat?
      let s : Snp := { chrom := 0, pos := 0, info := 0, nseg := 2, a1 := a1, a2 := a2, out := out, calls := [] }
      some ("ok " ++ (if s.polarized then "1" else "0") ++ " " ++ (match s.derivedSel with | none => "-" | some k => toString k))
  | ["projstats", sq, m, n, cols] => do
      let sq ← parseRat sq; let m ← m.toNat?; let n ← n.toNat?; let cols ← parseCols cols
      if cols.any (·.length ≠ n) then some "err dim"
      else if m > n || m < 2 then some "err proj"
      else
        let f := fn1 true m (cols.map fun c => snpOfCols [c])
        some ("ok " ++ " ".intercalate [showRat (sProj m n cols), showRat (wattersonProj m n cols), showRat (thetaLProj m n cols),
                showRat (tajVarProj m n cols), showRat (tajimaProj sq m n cols)]
              ++ " | " ++ " ".intercalate [showRat (sOf m f), showRat (wattersonOf m f), showRat (thetaLOf m f), showRat (tajVarOf m f),
                showRat (tajimaOf sq m f)])
  | ["tricls", ts] => do
      let ts ← parseTriSnps ts
      some ("ok " ++ " ".intercalate (ts.map fun t => match triClassify t with
        | .skip => "s"
        | .keep k => "k:" ++ ",".intercalate [toString k.1.1, toString k.1.2.1, toString k.1.2.2, toString k.2]
        | .valueError => "v"
        | .keyError => "e"))
  | ["corrected", fp, proj, a, b, ts] => do
      let fp ← parseBool fp; let proj ← parseNatList proj; let a ← parseList a; let b ← parseList b; let ts ← parseTriSnps ts
      if a.length ≠ 4 || b.length ≠ 4 then some "err table"
      else if !lengthsOk proj (ts.map (·.snp)) then some "err dim"
      else
        let F : TriKey → Rat := fun k => corrFuxOfFile (a.getD (k.2 - 1) 0 + b.getD (k.1.2.1 - 1) 0)
        match correctedAt proj F fp ts with
        | some u => some ("ok " ++ showData proj u)
        | none =>
          if ts.any (fun t => triClassify t == .valueError) then some "err valueerror" else some "err keyerror"
  | ["vcflines", filt, lines] => do
      let filt ← parseBool filt
      let ls ← (splitList lines ";").mapM parseVcfText
      some ("ok " ++ " ".intercalate (ls.map fun l =>
        if !lineKept filt l then "s"
        else match lineAa l with
          | none => "e"
          | some aa => ":".intercalate [tohex (alleleText l.ref), tohex (alleleText l.alt), tohex aa]))
  | ["gtpool", want, lines] => do
      let want ← parseWant want
      let ls ← (splitList lines ";").mapM fun l => (splitList l "+").mapM parseSampleText
      some ("ok " ++ showNats (ls.flatMap fun l => textPoolSizes l want (textPopOrder l want)))
  | ["gtcalls", popIds, lines] => do
      let popIds ← parseNatList popIds
      let ls ← (splitList lines ";").mapM fun l => (splitList l "+").mapM parseSampleText
      some ("ok " ++ ";".intercalate (ls.map fun l => "+".intercalate (popIds.map fun p =>
        let c := textCallsOfPop l p; toString c.1 ++ ":" ++ toString c.2)))
  | ["shapes13"] =>
      some ("ok " ++ " ".intercalate ([accumulateShapeOk, foldIffUnpolarized, fromDataDictShapeOk, sShapeOk, keyParseShapeOk,
        chunkLoopShapeOk, chunkRebuildShapeOk, bootstrapShapeOk, foldMaskShapeOk, statsSelfWrites.isEmpty, bsvShapeOk,
        triShapeOk, corrLoopShapeOk, corrForcePosShapeOk].map fun (b : Bool) => if b then "1" else "0"))
  | _ => none

end DadiVerif.Driver.DataDict
