import DadiVerif.Model.Proto
import DadiVerif.Model.Projection
import DadiVerif.Model.ProjLowPass
/- driver ops for projection (C08)

   projrow m n i                      -> ok w0,…,wm            row `_cached_projection(m, n, i)`
   projmat m n                        -> ok row0;row1;…;rown   all rows i = 0..n
   window m n i                       -> ok least most         (Int, as the code computes them)
   project folded ns data mask        -> ok <nd data> <nd mask> <folded> | err dim | err up
   project1 ax m folded data mask     -> ok <nd data> <nd mask> <folded> | err up | err axis
   fold data mask / unfold data mask  -> ok <nd data> <nd mask> <folded>
   mirror folded data mask            -> ok <nd data> <nd mask> <folded>     `Numerics.reverse_array` (every axis reversed)
   total folded data mask             -> ok <rat>                            `fs.data.sum()` (raw data)
   ptotal folded ns data mask         -> ok <rat> | err dim | err up         raw total of `project(ns)`
   lpaxes data mats                   -> ok <nd data> | err shape | err mats   the per-population loop of LowPass `lowpass_func`
                                         (generated `loopVisits` / `loopBody`) on the array `data`; mats = P0;H0;P1;H1;… (2-D nd each)
   masks are sent as nd arrays of 0/1 -/
namespace DadiVerif.Driver.Projection
open DadiVerif DadiVerif.Proto

def parseSpec (folded : String) (data mask : String) : Option Spec := do
  let f ← parseBool folded
  let d ← parseND data
  let m ← parseND mask
  if d.shape ≠ m.shape then none
  else if m.data.any (fun v => v ≠ 0 ∧ v ≠ 1) then none
  else some { shape := d.shape, data := d.data, mask := m.data.map (· == 1), folded := f }

def showSpec (S : Spec) : String :=
  showND ⟨S.shape, S.data⟩ ++ " " ++ showND ⟨S.shape, S.mask.map fun b => if b then 1 else 0⟩
    ++ " " ++ (if S.folded then "1" else "0")

def showRow? (r : Option (List Rat)) : Option String := r.map showList

def handle (toks : List String) : Option String :=
  match toks with
  | ["projrow", m, n, i] => do
      let m ← m.toNat?; let n ← n.toNat?; let i ← i.toNat?
      match cachedProjection m n i with
      | some r => some ("ok " ++ showList r)
      | none => some "err nonfinite"
  | ["projmat", m, n] => do
      let m ← m.toNat?; let n ← n.toNat?
      match (List.range (n+1)).mapM (fun i => cachedProjection m n i) with
      | some rows => some ("ok " ++ ";".intercalate (rows.map showList))
      | none => some "err nonfinite"
  | ["window", m, n, i] => do
      let m ← m.toNat?; let n ← n.toNat?; let i ← i.toNat?
      some ("ok " ++ toString (Gen.Proj.least m n i) ++ " " ++ toString (Gen.Proj.most m n i))
  | ["project", folded, ns, data, mask] => do
      let S ← parseSpec folded data mask
      let ns ← parseNatList ns
      match S.project ns with
      | .ok R => some ("ok " ++ showSpec R)
      | .error e => some ("err " ++ e)
  | ["project1", ax, m, folded, data, mask] => do
      let ax ← ax.toNat?; let m ← m.toNat?
      let S ← parseSpec folded data mask
      match S.projectOneAxis m ax with
      | .ok R => some ("ok " ++ showSpec R)
      | .error e => some ("err " ++ e)
  | ["fold", data, mask] => do
      let S ← parseSpec "0" data mask
      some ("ok " ++ showSpec S.fold)
  | ["unfold", data, mask] => do
      let S ← parseSpec "1" data mask
      some ("ok " ++ showSpec S.unfold)
  | ["mirror", folded, data, mask] => do
      let S ← parseSpec folded data mask
      some ("ok " ++ showSpec S.mirror)
  | ["total", folded, data, mask] => do
      let S ← parseSpec folded data mask
      some ("ok " ++ showRat S.total)
  | ["ptotal", folded, ns, data, mask] => do
      let S ← parseSpec folded data mask
      let ns ← parseNatList ns
      match S.project ns with
      | .ok R => some ("ok " ++ showRat R.total)
      | .error e => some ("err " ++ e)
  | ["lpaxes", data, mats] => do
      let T ← parseND data
      let ms ← (mats.splitOn ";").mapM parseND
      let ms ← ms.mapM LPAx.matOfND
      let d := T.shape.length
      let w := Gen.ProjLP.loopMatLists.length
      if ms.length ≠ w * d then some "err mats"
      else
        let M : Nat → Nat → LPAx.Mat := fun k j => ms.getD (w * k + j) ⟨0, 0, fun _ _ => 0⟩
        match LPAx.runLoopTab d M (LPAx.ofND T) with
        | some t => some ("ok " ++ showND (LPAx.toND d t))
        | none => some "err shape"
  | _ => none

end DadiVerif.Driver.Projection
