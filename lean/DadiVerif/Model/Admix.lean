import DadiVerif.Model.ND
import DadiVerif.Generated.Admix
/-
C06 — splits, admixture, pulses, removal and reordering of populations in `PhiManip.py`.

A density is modelled *functionally* (`Dens`: shape + entry function of the multi-index, numpy C order =
`boxIdx shape`); the driver tabulates the result at the end.  Everything numerical comes from
`Generated/Admix.lean` (the per-cell program of `_admixture_intermediates`, the coefficient vectors / guards /
grid wiring of every public function, the summand of `Numerics.trapz`, the diagonal value of `phi_1D_to_2D`).

* `depositAt zz phi adz k`      — what one source cell with density `phi` and mixed frequency `adz` puts at index `k`
                                   of the new axis (`[.., lower] = frac_lower*norm ; [.., upper] += frac_upper*norm`);
* `newPopRaw grids zz coefs P`  — a constructor: new last axis on grid `zz`, mixed frequency Σ coefs[m]·grids[m][i_m];
* `pulseRaw grids zz tg coefs dest P` — a pulse: deposit on a temporary axis (grid `zz`), integrate the old axis `dest`
                                   out with `Numerics.trapz(·, tg)`, the temporary axis takes its place;
* `applyRow r f grids P`        — a public function through its GENERATED row (what K compares with the real code);
* `newPop` / `pulse`            — the *intended* functions (what the theorems of Props/C06 are about; `C06_wiring_*`
                                   state that every generated row is an instance of them);
* `removePop`, `filterPops`, `reorderPops`, `split1D`.
-/
namespace DadiVerif.Admix

abbrev Idx := List Nat

structure Dens where
  shape : List Nat
  f : Idx → Rat

/-- grid value (0 outside, never used inside the box) -/
def gv (g : Array Rat) (k : Nat) : Rat := g.getD k 0

def sumTo : Nat → (Nat → Rat) → Rat
  | 0, _ => 0
  | n + 1, f => sumTo n f + f n

/-- `Numerics.trapz(y, xx)` along one line: Σ_k dx_k·(y_{k+1}+y_k)/2 with the GENERATED summand -/
def trapzLine (xx : Array Rat) (y : Nat → Rat) : Rat :=
  sumTo (xx.size - 1) fun k => Gen.Admix.trapzTerm (gv xx (k + 1) - gv xx k) (y (k + 1)) (y k)

/-- trapezoid weight of node `k` (explicit form; `trapzLine_eq_weights` in Lemmas/Admix) -/
def trapzW (xx : Array Rat) (k : Nat) : Rat :=
  ((if k = 0 then 0 else gv xx k - gv xx (k - 1)) + (if k + 1 < xx.size then gv xx (k + 1) - gv xx k else 0)) / 2

/-- value deposited at index `k` of the new axis by one source cell -/
def depositAt (zz : Array Rat) (phi adz : Rat) (k : Nat) : Rat :=
  (if (k : Int) = Gen.Admix.lowerIdx zz phi adz then Gen.Admix.fracLower zz phi adz * Gen.Admix.norm zz phi adz else 0)
  + (if (k : Int) = Gen.Admix.upperIdx zz phi adz then Gen.Admix.fracUpper zz phi adz * Gen.Admix.norm zz phi adz else 0)

/-- mixed frequency Σ_m coefs[m]·grids[m][idx[m]] -/
def adZ : List (Array Rat) → List Rat → Idx → Rat
  | g :: gs, c :: cs, i :: is => c * gv g i + adZ gs cs is
  | _, _, _ => 0

def newPopRaw (grids : List (Array Rat)) (zz : Array Rat) (coefs : List Rat) (P : Dens) : Dens :=
  { shape := P.shape ++ [zz.size]
    f := fun idx => depositAt zz (P.f idx.dropLast) (adZ grids coefs idx.dropLast) (idx.getLastD 0) }

def pulseRaw (grids : List (Array Rat)) (zz tg : Array Rat) (coefs : List Rat) (dest : Nat) (P : Dens) : Dens :=
  { shape := P.shape
    f := fun idx => trapzLine tg fun j =>
      depositAt zz (P.f (idx.set dest j)) (adZ grids coefs (idx.set dest j)) (idx.getD dest 0) }

/-! ### the intended functions (specification side of the wiring theorems) -/

/-- full coefficient vector: the proportions `f` of the sources in population order, `1 - Σ f` for population `dest` -/
def fullCoefs (dest : Nat) (f : List Rat) : List Rat := f.insertIdx dest (1 - f.sum)

/-- create population d+1 on grid `zz` from proportions f (population d gets 1 - Σ f) -/
def newPop (grids : List (Array Rat)) (zz : Array Rat) (f : List Rat) (P : Dens) : Dens :=
  newPopRaw grids zz (fullCoefs f.length f) P

/-- pulse from all other populations (proportions `f`, in population order) into population `dest` -/
def pulse (grids : List (Array Rat)) (dest : Nat) (f : List Rat) (P : Dens) : Dens :=
  pulseRaw grids (grids.getD dest #[]) (grids.getD dest #[]) (fullCoefs dest f) dest P

/-- the documented acceptance rule: reject iff the proportions sum to more than 1 -/
def rejects (f : List Rat) : Bool := decide (f.sum > 1)

/-! ### public functions through their generated rows -/

def findRow (name : String) : Option Gen.Admix.FnRow := Gen.Admix.rows.find? fun r => r.name == name

inductive Res where
  | ok (P : Dens)
  | raises        -- the code raises ValueError from a proportion guard
  | bad           -- outside the domain of the model (shape / arity mismatch)

def shapesOk (r : Gen.Admix.FnRow) (f : List Rat) (grids : List (Array Rat)) (P : Dens) : Bool :=
  f.length == r.nf && P.shape.length == r.d && grids.length == (if r.isPulse then r.d else r.d + 1)
    && r.gridOrder.length == r.d
    && (List.range r.d).all (fun m => (grids.getD (r.gridOrder.getD m 0) #[]).size == P.shape.getD m 0)
    && decide (r.newGrid < grids.length)
    && (!r.isPulse || (decide (r.trapzGrid < grids.length) && decide (r.dest < r.d)
          && (grids.getD r.newGrid #[]).size == P.shape.getD r.dest 0
          && (grids.getD r.trapzGrid #[]).size == P.shape.getD r.dest 0))

def applyRow (r : Gen.Admix.FnRow) (f : List Rat) (grids : List (Array Rat)) (P : Dens) : Res :=
  if f.length != r.nf then .bad
  else if r.guard f then .raises          -- the guards are evaluated before any array is touched
  else if !shapesOk r f grids P then .bad
  else
    let gs := r.gridOrder.map fun g => grids.getD g #[]
    let zz := grids.getD r.newGrid #[]
    if r.isPulse then .ok (pulseRaw gs zz (grids.getD r.trapzGrid #[]) (r.coefs f) r.dest P)
    else .ok (newPopRaw gs zz (r.coefs f) P)


/-- `phi_1D_to_2D(xx, phi)`: the GENERATED diagonal value at interior points, 0 elsewhere -/
def split1D (xx : Array Rat) (P : Dens) : Dens :=
  { shape := [xx.size, xx.size]
    f := fun idx =>
      let i := idx.getD 0 0
      let j := idx.getD 1 0
      if i = j ∧ 1 ≤ i ∧ i + 1 < xx.size then Gen.Admix.split1Dval (P.f [i]) (gv xx (i - 1)) (gv xx i) (gv xx (i + 1)) else 0 }

/-! ### remove / filter / reorder -/

/-- `Numerics.trapz(phi, xx, axis=ax)` -/
def removeAxis (xx : Array Rat) (ax : Nat) (P : Dens) : Dens :=
  { shape := P.shape.eraseIdx ax
    f := fun j => trapzLine xx fun k => P.f (j.insertIdx ax k) }

/-- `remove_pop(phi, xx, popnum)` (1-based); `none` = outside the domain / `Numerics.trapz` raises on a length mismatch -/
def removePop (xx : Array Rat) (popnum : Nat) (P : Dens) : Option Dens :=
  if popnum = 0 ∨ P.shape.length < popnum ∨ xx.size ≠ P.shape.getD (popnum - 1) 0 then none
  else some (removeAxis xx (popnum - 1) P)

def insertAsc (a : Nat) : List Nat → List Nat
  | [] => [a]
  | b :: l => if a ≤ b then a :: b :: l else b :: insertAsc a l
/-- Python `sorted` -/
def sortAsc (l : List Nat) : List Nat := l.foldr insertAsc []

/-- `toremove = list(range(1, ndim+1)); for p in tokeep: toremove.remove(p)`; `none` = ValueError -/
def toRemove (d : Nat) (tokeep : List Nat) : Option (List Nat) :=
  tokeep.foldlM (fun acc p => if acc.contains p then some (acc.erase p) else none) ((List.range d).map (· + 1))

/-- `filter_pops(phi, xx, tokeep)`: `for p in sorted(toremove)[::-1]: phi = remove_pop(phi, xx, p)` -/
def filterPops (xx : Array Rat) (tokeep : List Nat) (P : Dens) : Option Dens :=
  match toRemove P.shape.length tokeep with
  | none => none
  | some rm => (sortAsc rm).reverse.foldlM (fun acc p => removePop xx p acc) P

/-- numpy `transpose(axes)`: `out[j] = in[i]` with `j[k] = i[axes[k]]`, i.e. `i[a] = j[position of a in axes]` -/
def reorderAxes (axes : List Nat) (P : Dens) : Dens :=
  { shape := axes.map fun a => P.shape.getD a 0
    f := fun j => P.f ((List.range P.shape.length).map fun a => j.getD (axes.idxOf a) 0) }

/-- `reorder_pops(phi, neworder)` (1-based); `none` = ValueError (`sorted(neworder) != [1..ndim]`) -/
def reorderPops (neworder : List Nat) (P : Dens) : Option Dens :=
  if sortAsc neworder = (List.range P.shape.length).map (· + 1) then some (reorderAxes (neworder.map (· - 1)) P) else none

/-! ### the public functions with their GENERATED loop / fancy-indexing structure (`Gen.Admix.loopRows`) -/

def findLoop (name : String) : Option Gen.Admix.LoopRow := Gen.Admix.loopRows.find? fun r => r.name == name

/-- one row of the scratch array (zero before) after the two fancy-index fills, in source order:
    `a[row, i1] (=|+=) v1 ; a[row, i2] (=|+=) v2` — value at column `k`.  (`=` and `+=` agree for the first fill.) -/
def depositFill (L : Gen.Admix.LoopRow) (zz : Array Rat) (phi adz : Rat) (k : Nat) : Rat :=
  let lo := Gen.Admix.lowerIdx zz phi adz
  let up := Gen.Admix.upperIdx zz phi adz
  let vlo := Gen.Admix.fracLower zz phi adz * Gen.Admix.norm zz phi adz
  let vup := Gen.Admix.fracUpper zz phi adz * Gen.Admix.norm zz phi adz
  let i1 := if L.lowerFirst then lo else up
  let v1 := if L.lowerFirst then vlo else vup
  let i2 := if L.lowerFirst then up else lo
  let v2 := if L.lowerFirst then vup else vlo
  let s1 : Rat := if (k : Int) = i1 then v1 else 0
  if (k : Int) = i2 then (if L.secondAdd then s1 + v2 else v2) else s1

/-- a line that the loop nest `for v in range(lo, extent - hiOff)` does not visit keeps the input (the pulses work in place) -/
def skippedByLoops (L : Gen.Admix.LoopRow) (shape : List Nat) (idx : Idx) : Bool :=
  (List.range L.loopPos.length).any fun i =>
    let x := idx.getD (L.loopPos.getD i 0) 0
    let n := shape.getD (L.loopAxes.getD i 0) 0
    decide (x < L.loopLo.getD i 0) || (decide (x < n) && decide (n ≤ x + L.loopHiOff.getD i 0))

def newPopRawL (L : Gen.Admix.LoopRow) (grids : List (Array Rat)) (zz : Array Rat) (coefs : List Rat) (P : Dens) : Dens :=
  { shape := P.shape ++ [zz.size]
    f := fun idx => depositFill L zz (P.f idx.dropLast) (adZ grids coefs idx.dropLast) (idx.getLastD 0) }

/-- scratch array `phi_int[j][k]` = row j (old destination index) filled at the bracket of cell j's mixed frequency;
    `Numerics.trapz(phi_int, tg, axis=trapzAxis)` is written back along the destination axis -/
def pulseRawL (L : Gen.Admix.LoopRow) (grids : List (Array Rat)) (zz tg : Array Rat) (coefs : List Rat) (dest : Nat) (P : Dens) : Dens :=
  { shape := P.shape
    f := fun idx =>
      if skippedByLoops L P.shape idx then P.f idx else
      if L.trapzAxis = 0 then
        trapzLine tg fun j => depositFill L zz (P.f (idx.set dest j)) (adZ grids coefs (idx.set dest j)) (idx.getD dest 0)
      else
        trapzLine tg fun k => depositFill L zz (P.f idx) (adZ grids coefs idx) k }

/-- the loop structures the model evaluates faithfully: one loop per non-destination axis (any nesting order), each loop
    variable used at the position of the axis it ranges over, scratch array destination × destination, zeroed for every
    line, rows indexed by `arange` over the destination extent, `trapz` along axis 0 or 1 -/
def loopsModelled (r : Gen.Admix.FnRow) (L : Gen.Admix.LoopRow) : Bool :=
  L.name == r.name &&
  (if r.isPulse then
     sortAsc L.loopPos == (List.range r.d).eraseIdx r.dest && L.loopAxes == L.loopPos
       && L.loopLo.length == L.loopPos.length && L.loopHiOff.length == L.loopPos.length
       && L.scratchDepth == L.loopPos.length
       && L.scratchRows == r.dest && L.scratchCols == r.dest && L.rowAxis == r.dest
       && decide (L.trapzAxis ≤ 1)
   else L.loopPos.isEmpty && L.trapzAxis == 0)

def applyRowL (r : Gen.Admix.FnRow) (L : Gen.Admix.LoopRow) (f : List Rat) (grids : List (Array Rat)) (P : Dens) : Res :=
  if f.length != r.nf then .bad
  else if r.guard f then .raises
  else if !shapesOk r f grids P then .bad
  else if !loopsModelled r L then .bad
  else
    let gs := r.gridOrder.map fun g => grids.getD g #[]
    let zz := grids.getD r.newGrid #[]
    if r.isPulse then .ok (pulseRawL L gs zz (grids.getD r.trapzGrid #[]) (r.coefs f) r.dest P)
    else .ok (newPopRawL L gs zz (r.coefs f) P)

/-- a public function by name, through its generated row and its generated loop structure (what K compares with the code) -/
def applyByName (name : String) (f : List Rat) (grids : List (Array Rat)) (P : Dens) : Res :=
  match findRow name, findLoop name with
  | some r, some L => applyRowL r L f grids P
  | _, _ => .bad

/-- `phi_2D_to_3D_split_1/2(xx, phi)`: `phi_2D_to_3D_admix(phi, <generated literal>, xx, xx, xx)` -/
def split2 (which : Nat) (xx : Array Rat) (P : Dens) : Res :=
  if which = 1 then applyByName "phi_2D_to_3D_admix" [Gen.Admix.splitF_split_1] [xx, xx, xx] P
  else if which = 2 then applyByName "phi_2D_to_3D_admix" [Gen.Admix.splitF_split_2] [xx, xx, xx] P
  else .bad

/-! ### total mass (full d-dimensional trapezoid sum) -/

/-- iterated `Numerics.trapz`: axis 0 on the first grid, then axis 1 on the second, … of the entry function `F` -/
def massFrom : List (Array Rat) → (Idx → Rat) → Rat
  | [], F => F []
  | g :: gs, F => trapzLine g fun k => massFrom gs fun idx => F (k :: idx)

/-- ∫…∫ φ over all populations (population m on `grids[m]`) -/
def totalMass (grids : List (Array Rat)) (P : Dens) : Rat := massFrom grids P.f

/-! ### round 6: the array OBJECT — a density given as a strided view, in-place execution

numpy hands the functions an array object: a window `View` (offset, one stride per axis — in elements, any sign —, shape) onto
a flat buffer.  `phi[i, j, :] = line` with integers and `:` (basic indexing) stores through that window whatever the strides
are; a name obtained by `reshape` / `ravel` / `ascontiguousarray` is the same memory only for some strides and a copy for the
others.  `Gen.Admix.memRows` records, per function, what the source does to its argument; `memOk` is what the docstrings
promise ("Alters phi in place and returns the new version" for the 14 pulses, a new array for everything else). -/

def findMem (name : String) : Option Gen.Admix.MemRow := Gen.Admix.memRows.find? fun r => r.name == name

/-- pulse: documented in place, exactly one store, into the never re-bound parameter itself, by basic indexing, nothing stored
    through a derived name, the parameter is what is returned.  Any other function: not documented in place, no store at all
    into the argument or into anything derived from it. -/
def memOk (m : Gen.Admix.MemRow) : Bool :=
  if m.isPulse then
    m.docInPlace && !m.paramRebound && m.directStores == 1 && m.aliasStores == 0 && m.basicIndex && m.returnsParam
  else !m.docInPlace && m.directStores == 0 && m.aliasStores == 0

structure View where
  off : Int
  strides : List Int
  shape : List Nat

def dotIS : Idx → List Int → Int
  | i :: is, s :: ss => (i : Int) * s + dotIS is ss
  | _, _ => 0

/-- address (in elements) of entry `idx` -/
def View.addr (v : View) (idx : Idx) : Int := v.off + dotIS idx v.strides

/-- flat memory -/
abbrev Buf := Int → Rat

/-- the density an array object stands for -/
def readView (b : Buf) (v : View) : Dens := { shape := v.shape, f := fun idx => b (v.addr idx) }

/-- the stores `phi[idx] = val idx` for the multi-indices of the list, one after the other -/
def storeList (v : View) (val : Idx → Rat) : List Idx → Buf → Buf
  | [], b => b
  | idx :: l, b => storeList v val l fun a => if a = v.addr idx then val idx else b a

/-- the entries the generated loop nest writes back (all of them when every loop runs over its whole extent) -/
def visited (L : Gen.Admix.LoopRow) (shape : List Nat) : List Idx :=
  (boxIdx shape).filter fun idx => !skippedByLoops L shape idx

inductive ResM where
  | ok (b : Buf) (out : Dens)   -- memory afterwards, returned density
  | raises
  | bad

/-- a public function on an array object `v` over memory `b`.  Everything that is read from the argument (the helper call
    computing indices and contributions) is evaluated before the first store, so the new values are those of the functional
    model on `readView b v`; a pulse stores them through the view (basic indexing) and returns the view, a constructor
    leaves the memory alone and returns a new density.  Functions whose `memRows` entry is not `memOk` are outside the model. -/
def applyInPlace (r : Gen.Admix.FnRow) (L : Gen.Admix.LoopRow) (m : Gen.Admix.MemRow) (f : List Rat) (grids : List (Array Rat))
    (b : Buf) (v : View) : ResM :=
  if m.name != r.name || m.isPulse != r.isPulse || !memOk m || v.strides.length != v.shape.length then .bad
  else match applyRowL r L f grids (readView b v) with
    | .raises => .raises
    | .bad => .bad
    | .ok Q =>
      if r.isPulse then
        let b' := storeList v Q.f (visited L v.shape) b
        .ok b' (readView b' v)
      else .ok b Q

def applyInPlaceByName (name : String) (f : List Rat) (grids : List (Array Rat)) (b : Buf) (v : View) : ResM :=
  match findRow name, findLoop name, findMem name with
  | some r, some L, some m => applyInPlace r L m f grids b v
  | _, _, _ => .bad

/-! ### tabulation (driver side) -/

def ofND (T : ND) : Dens := { shape := T.shape, f := T.get }
def toND (P : Dens) : ND := ND.ofFn P.shape P.f

end DadiVerif.Admix
