import DadiVerif.Model.Step
/-
Kernel programs — the bodies of the C kernels `implicit_{d}D{x,y,z,a,b}` and `implicit_precalc_{d}D{x,y,z}`, translated statement
by statement (Generated/Coeffs.lean `C.kernelProgs`), resolved by NAME against `C.kernelSigs` (which C parameter is the density,
a grid, ν, a migration rate, dt, …; which extent the Cython wrapper passes for every `int` parameter), the program the model
stands for (`expected`), and the SEMANTICS of a resolved program on a flat row-major array (`run`).  Core Lean only: the
driver executes `run` on the translated programs (correspondence with the compiled C functions), `Lemmas/Kernel*.lean` prove
that `run (expected …)` is `stepAxis` / `preSolve`.
-/
namespace DadiVerif
open Gen
namespace KProg

/-! ### resolved programs -/
inductive WArr where
  | dx | dfactor | xInt | V | VInt | MInt | delj | a | b | c | r | sol
deriving DecidableEq, Repr
inductive WSc where
  | Mfirst | Mlast
deriving DecidableEq, Repr
/-- a scalar by its role -/
inductive RScalar where
  | nu | mig (i : Nat) | gamma | h | beta | dt | deljSw | loc (s : WSc) | unknown (name : String)
deriving DecidableEq, Repr
/-- an array by its role: grid of axis p, work array, the density, the k-th pre-computed coefficient array -/
inductive RRef where
  | grid (p : Nat) | work (w : WArr) | phi | coef (i : Nat) | unknown (name : String)
deriving DecidableEq, Repr
/-- an `int` expression by what the Cython wrapper passes: a literal, or the extent of axis p of the density minus a literal -/
inductive RBound where
  | lit (n : Nat) | dim (p minus : Nat) | unknown (name : String)
deriving DecidableEq, Repr
inductive RIx where
  | var (v : C.KVar) (plus : Nat) | bnd (b : RBound)
deriving DecidableEq, Repr
/-- loop variable times the product of the extents of the listed axes -/
structure RTerm where
  var : C.KVar
  strides : List Nat
deriving DecidableEq, Repr
inductive RExpr where
  | num (n d : Nat) | sc (s : RScalar) | arr (r : RRef) (ix : RIx) | flat (r : RRef) (idx : List RTerm)
  | neg (e : RExpr) | add (a b : RExpr) | sub (a b : RExpr) | mul (a b : RExpr) | div (a b : RExpr)
deriving DecidableEq, Repr
inductive RArg where
  | ptr (r : RRef) | ext (b : RBound) | val (e : RExpr) | bad
deriving DecidableEq, Repr
inductive RCmp where
  | eq (e : RExpr) (n : Nat) | le0 (e : RExpr) | ge0 (e : RExpr)
deriving DecidableEq, Repr
inductive RFn where
  | Vfunc | VfuncBeta | Mfunc (d : Nat) | unknown (name : String)
deriving DecidableEq, Repr
inductive RProc where
  | computeDx | computeDfactor | computeXInt | computeDelj | computeAbc | solve | tridiagMalloc | unknown (name : String)
deriving DecidableEq, Repr
inductive RStmt where
  | proc (p : RProc) (args : List RArg)
  | setSc (s : WSc) (fn : RFn) (args : List RExpr)
  | tab (w : WArr) (lo hi : RBound) (fn : Option RFn) (args : List RExpr)
  | store (lo hi : RBound) (r : RRef) (idx : List RTerm) (e : RExpr)
  | bc (cond : List RCmp) (w : WArr) (ix : RIx) (e : RExpr)
  | bad (why : String)
deriving DecidableEq, Repr
structure KProgR where
  name : String
  d : Nat
  ax : Nat
  pre : Bool
  allocs : List (WArr × RBound)      -- work arrays (the solver's output excepted) and their allocated lengths, canonical order
  solAllocOk : Bool                  -- a separate solver output array, if there is one, has the length of the line
  migAxes : List Nat                 -- coordinate axis the i-th migration rate is paired with (`kernelSigs.roleMig`)
  nest : List (RBound × RBound)
  stmts : List RStmt
deriving DecidableEq, Repr

/-! ### resolution by name -/
def insertBy {α : Type} (r : α → Nat) (x : α) : List α → List α
  | [] => [x]
  | y :: ys => if r x < r y then x :: y :: ys else y :: insertBy r x ys
/-- stable insertion sort by rank -/
def sortBy {α : Type} (r : α → Nat) (l : List α) : List α := l.foldr (insertBy r) []

def workOf : String → Option WArr
  | "dx" => some .dx | "dfactor" => some .dfactor | "xInt" => some .xInt | "V" => some .V | "VInt" => some .VInt
  | "MInt" => some .MInt | "delj" => some .delj | "a" => some .a | "b" => some .b | "c" => some .c | "r" => some .r
  | "sol" => some .sol | _ => none

def wRank : WArr → Nat
  | .dx => 0 | .dfactor => 1 | .xInt => 2 | .V => 3 | .VInt => 4 | .MInt => 5 | .delj => 6 | .a => 7 | .b => 8 | .c => 9 | .r => 10 | .sol => 11

/-- what reaches `int` parameter `name` of the C function: the wrapper's argument at that position -/
def resolveBound (K : C.KernelSig) : C.KBound → RBound
  | .lit n => .lit n
  | .par name minus =>
    match K.cParams.idxOf? name with
    | none => .unknown name
    | some j =>
      match K.pyxCall[j]? with
      | some (.shape n p) => if n == K.rolePhi then .dim p minus else .unknown name
      | some (.lit v) => if minus == 0 && v ≥ 0 then .lit v.toNat else .unknown name
      | _ => .unknown name

def resolveRef (K : C.KernelSig) : C.KRef → RRef
  | .par name =>
    if name == K.rolePhi then .phi
    else match K.roleGrids.idxOf? name with
      | some p => .grid p
      | none => match K.roleCoef.idxOf? name with
        | some i => .coef i
        | none => .unknown name
  | .loc role => match workOf role with
    | some w => .work w
    | none => .unknown role

def resolveScalar (K : C.KernelSig) : C.KRef → RScalar
  | .par name =>
    if name == K.roleNu then .nu else if name == K.roleGamma then .gamma else if name == K.roleH then .h
    else if K.roleBeta == some name then .beta else if name == K.roleDt then .dt else if name == K.roleDelj then .deljSw
    else match (K.roleMig.map (·.1)).idxOf? name with
      | some i => .mig i
      | none => .unknown name
  | .loc "Mfirst" => .loc .Mfirst
  | .loc "Mlast" => .loc .Mlast
  | .loc role => .unknown role

def resolveIx (K : C.KernelSig) : C.KIx → RIx
  | .var v plus => .var v plus
  | .bnd b => .bnd (resolveBound K b)

/-- an extent name inside a flat index: the axis whose extent it is (999 if it is none) -/
def strideAxis (K : C.KernelSig) (name : String) : Nat :=
  match resolveBound K (.par name 0) with
  | .dim p 0 => p
  | _ => 999

/-- products commute: the extents of a term in ascending axis order; sums commute: terms by decreasing number of factors -/
def resolveIdx (K : C.KernelSig) (ts : List C.KTerm) : List RTerm :=
  sortBy (fun t => 1000 - t.strides.length) (ts.map fun t => ⟨t.var, sortBy id (t.strides.map (strideAxis K))⟩)

def isFlat : RRef → Bool
  | .phi => true | .coef _ => true | _ => false

def resolveExpr (K : C.KernelSig) : C.KExpr → RExpr
  | .num n d => .num n d
  | .sc r => .sc (resolveScalar K r)
  | .arr r ix =>
    let r' := resolveRef K r
    match isFlat r', ix with
    | true, .var v 0 => .flat r' [⟨v, []⟩]        -- one-dimensional density: `phi[ii]`
    | _, _ => .arr r' (resolveIx K ix)
  | .flat r idx => .flat (resolveRef K r) (resolveIdx K idx)
  | .neg e => .neg (resolveExpr K e)
  | .add a b => .add (resolveExpr K a) (resolveExpr K b)
  | .sub a b => .sub (resolveExpr K a) (resolveExpr K b)
  | .mul a b => .mul (resolveExpr K a) (resolveExpr K b)
  | .div a b => .div (resolveExpr K a) (resolveExpr K b)

def cmpRank : RCmp → Nat
  | .eq (.arr (.grid p) _) _ => p
  | .eq _ _ => 500
  | .le0 _ => 1000
  | .ge0 _ => 1001

def resolveCmp (K : C.KernelSig) : C.KCmp → RCmp
  | .eq e n => .eq (resolveExpr K e) n
  | .le0 e => .le0 (resolveExpr K e)
  | .ge0 e => .ge0 (resolveExpr K e)

def fnOf : String → RFn
  | "Vfunc" => .Vfunc
  | "Vfunc_beta" => .VfuncBeta
  | "Mfunc1D" => .Mfunc 1 | "Mfunc2D" => .Mfunc 2 | "Mfunc3D" => .Mfunc 3 | "Mfunc4D" => .Mfunc 4 | "Mfunc5D" => .Mfunc 5
  | s => .unknown s

def procOf : String → RProc
  | "compute_dx" => .computeDx | "compute_dfactor" => .computeDfactor | "compute_xInt" => .computeXInt
  | "compute_delj" => .computeDelj | "compute_abc_nobc" => .computeAbc | "tridiag_malloc" => .tridiagMalloc
  | "tridiag_premalloc" => .solve | "tridiag" => .solve
  | s => .unknown s

def resolveArg (K : C.KernelSig) : C.KArg → RArg
  | .ptr r => .ptr (resolveRef K r)
  | .ext b => .ext (resolveBound K b)
  | .val e => .val (resolveExpr K e)
  | .addr _ _ => .bad

def itTerm : RTerm := ⟨.it, []⟩

/-- The solver `tridiag_premalloc(a, b, c, r, u, n)` reads four arrays of length n and writes the solution to `u[0..n)`.
    An argument `&arr[base]` is the line `arr[base + j]`, j < n: an input of that form is the tabulation `w[j] = arr[base + j]`,
    an output of that form the store `arr[base + j] = sol[j]`. -/
def resolveSolve (K : C.KernelSig) (args : List C.KArg) : List RStmt :=
  match args with
  | [a, b, c, r, u, .ext n] =>
    let n' := resolveBound K n
    let inp (x : C.KArg) (w : WArr) : List RStmt × RArg :=
      match x with
      | .addr ref base => ([.tab w (.lit 0) n' none [.flat (resolveRef K ref) (resolveIdx K base ++ [itTerm])]], .ptr (.work w))
      | y => ([], resolveArg K y)
    let (sa, a') := inp a .a; let (sb, b') := inp b .b; let (sc, c') := inp c .c; let (sr, r') := inp r .r
    let (post, u') : List RStmt × RArg :=
      match u with
      | .addr ref base => ([.store (.lit 0) n' (resolveRef K ref) (resolveIdx K base ++ [itTerm]) (.arr (.work .sol) (.var .it 0))], .ptr (.work .sol))
      | y => ([], resolveArg K y)
    sa ++ sb ++ sc ++ sr ++ [.proc .solve [a', b', c', r', u', .ext n']] ++ post
  | _ => [.bad "solver call"]

def resolveStmt (K : C.KernelSig) : C.KStmt → List RStmt
  | .proc fn args =>
    match procOf fn with
    | .solve => resolveSolve K args
    | p => [.proc p (args.map (resolveArg K))]
  | .setSc role fn args =>
    match role with
    | "Mfirst" => [.setSc .Mfirst (fnOf fn) (args.map (resolveExpr K))]
    | "Mlast" => [.setSc .Mlast (fnOf fn) (args.map (resolveExpr K))]
    | _ => [.bad "scalar"]
  | .tab role lo hi fn args =>
    match workOf role with
    | some w => [.tab w (resolveBound K lo) (resolveBound K hi) (fn.map fnOf) (args.map (resolveExpr K))]
    | none => [.bad "tabulated array"]
  | .store lo hi r idx e => [.store (resolveBound K lo) (resolveBound K hi) (resolveRef K r) (resolveIdx K idx) (resolveExpr K e)]
  | .bc cond role ix e =>
    match workOf role with
    | some w => [.bc (sortBy cmpRank (cond.map (resolveCmp K))) w (resolveIx K ix) (resolveExpr K e)]
    | none => [.bad "updated array"]

/-! #### canonical statement order: only statements that touch disjoint data are exchanged -/
inductive Res where
  | arr (r : RRef) | sc (s : WSc)
deriving DecidableEq, Repr

def exprReads : RExpr → List Res
  | .num _ _ => []
  | .sc (.loc s) => [.sc s]
  | .sc _ => []
  | .arr r _ => [.arr r]
  | .flat r _ => [.arr r]
  | .neg e => exprReads e
  | .add a b => exprReads a ++ exprReads b
  | .sub a b => exprReads a ++ exprReads b
  | .mul a b => exprReads a ++ exprReads b
  | .div a b => exprReads a ++ exprReads b

def argRefs : RArg → List Res
  | .ptr r => [.arr r]
  | .val e => exprReads e
  | _ => []

/-- number of trailing output arguments of a procedure (`ext` arguments do not count) -/
def procOuts : RProc → List Nat
  | .computeDx => [2] | .computeDfactor => [2] | .computeXInt => [2] | .computeDelj => [4] | .computeAbc => [7, 8, 9]
  | .solve => [4] | _ => []

def cmpReads : RCmp → List Res
  | .eq e _ => exprReads e | .le0 e => exprReads e | .ge0 e => exprReads e

def stmtWrites : RStmt → List Res
  | .proc p args => (procOuts p).flatMap fun i => argRefs (args.getD i .bad)
  | .setSc s _ _ => [.sc s]
  | .tab w _ _ _ _ => [.arr (.work w)]
  | .store _ _ r _ _ => [.arr r]
  | .bc _ w _ _ => [.arr (.work w)]
  | .bad _ => []

/-- what a statement may read (for a procedure: every array it is handed, outputs included — conservative) -/
def stmtReads : RStmt → List Res
  | .proc _ args => args.flatMap argRefs
  | .setSc _ _ args => args.flatMap exprReads
  | .tab _ _ _ _ args => args.flatMap exprReads
  | .store _ _ r _ e => .arr r :: exprReads e
  | .bc cond w _ e => cond.flatMap cmpReads ++ [.arr (.work w)] ++ exprReads e
  | .bad _ => []

def disjoint (a b : List Res) : Bool := a.all fun x => !b.contains x

def indep (s t : RStmt) : Bool :=
  match s, t with
  | .bad _, _ => false
  | _, .bad _ => false
  | _, _ => disjoint (stmtWrites s) (stmtReads t ++ stmtWrites t) && disjoint (stmtWrites t) (stmtReads s)

def hasLe0 (c : List RCmp) : Bool := c.any fun x => match x with | .le0 _ => true | _ => false

def stmtRank : RStmt → Nat
  | .proc .tridiagMalloc _ => 0
  | .proc .computeDx _ => 1
  | .proc .computeDfactor _ => 2
  | .proc .computeXInt _ => 3
  | .tab .V _ _ _ _ => 4
  | .tab .VInt _ _ _ _ => 5
  | .setSc .Mfirst _ _ => 6
  | .setSc .Mlast _ _ => 7
  | .tab .MInt _ _ _ _ => 8
  | .proc .computeDelj _ => 9
  | .proc .computeAbc _ => 10
  | .tab .a _ _ _ _ => 11
  | .tab .b _ _ _ _ => 12
  | .tab .c _ _ _ _ => 13
  | .tab .r _ _ _ _ => 14
  | .bc c _ _ _ => if hasLe0 c then 15 else 16
  | .proc .solve _ => 17
  | .store _ _ _ _ _ => 18
  | _ => 50

/-- put `s` behind the statements `acc` (given last-first): it moves forward past a statement of higher rank only if the two touch
    disjoint data -/
def placeStmt (s : RStmt) : List RStmt → List RStmt
  | [] => [s]
  | t :: rest => if stmtRank s < stmtRank t && indep s t then t :: placeStmt s rest else s :: t :: rest

def canonOrder (l : List RStmt) : List RStmt := (l.foldl (fun acc s => placeStmt s acc) []).reverse

def resolveAllocs (K : C.KernelSig) (l : List (String × C.KBound)) : List (WArr × RBound) :=
  sortBy (fun e => wRank e.1) (l.filterMap fun (role, b) =>
    match workOf role with
    | some .sol => none
    | some w => some (w, resolveBound K b)
    | none => none)

/-- the translated body with every name resolved, statements in SOURCE order -/
def resolveSrc (K : C.KernelSig) (p : C.KernelProg) : KProgR :=
  { name := p.name, d := p.d, ax := p.ax, pre := p.pre,
    allocs := resolveAllocs K p.allocs,
    solAllocOk := p.allocs.all fun (role, b) => role != "sol" || resolveBound K b == .dim p.ax 0,
    migAxes := K.roleMig.map (·.2),
    nest := p.nest.map fun (lo, hi) => (resolveBound K lo, resolveBound K hi),
    stmts := p.stmts.flatMap (resolveStmt K) }

/-- …and in canonical order (`Lemmas/KernelOrder.lean`: running the two is the same) -/
def resolve (K : C.KernelSig) (p : C.KernelProg) : KProgR :=
  { resolveSrc K p with stmts := canonOrder (resolveSrc K p).stmts }

/-- the signature table entry of a translated kernel body -/
def sigOf (p : C.KernelProg) : Option C.KernelSig :=
  C.kernelSigs.find? (fun K => K.name == p.name && K.d == p.d && K.ax == p.ax && K.pre == p.pre)

/-- every translated kernel body, resolved against the signature table entry of the same name -/
def resolvedAll : List KProgR :=
  C.kernelProgs.map fun p =>
    match sigOf p with
    | some K => resolve K p
    | none => { name := p.name, d := p.d, ax := p.ax, pre := p.pre, allocs := [], solAllocOk := false, migAxes := [], nest := [],
                stmts := [.bad "no signature"] }

/-! ### the program the model stands for -/
def others (d k : Nat) : List Nat := (List.range d).filter (· ≠ k)

/-- the loop variable that runs over axis p in kernel (·, ax): the line variable for p = ax, else the variable of the loop of the
    nest at the position of p among the other axes -/
def axVar (ax p : Nat) : C.KVar := if p = ax then .it else .outer (if p < ax then p else p - 1)

/-- row-major flat index of the multi-index (…, loop variable of axis p, …): Σ_p var_p · Π_{q > p} extent_q -/
def expIdx (d ax : Nat) : List RTerm := (List.range d).map fun p => ⟨axVar ax p, (List.range d).drop (p + 1)⟩

/-- Known finding F-02 (Cython wrappers, cannot be regenerated here): the extent handed over as END of the outermost loop of the
    2-D/3-D kernels is the extent of the SOLVED axis (`phi.shape[ax]`), except `implicit_3Dx` which gets `phi.shape[1]`.  It is the
    extent of the loop's own axis only when the two extents coincide (always, in the public API: one grid for all axes). -/
def wrapperEndAxis (d ax : Nat) (pre : Bool) : Nat := if d = 3 ∧ ax = 0 ∧ pre = false then 1 else ax

/-- axis whose extent bounds the i-th loop of the nest, as the wrapper calls the C function -/
def nestEndAxis (d ax : Nat) (pre : Bool) (i p : Nat) : Nat := if i = 0 ∧ d ≤ 3 then wrapperEndAxis d ax pre else p

def expNest (d ax : Nat) (pre : Bool) : List (RBound × RBound) :=
  (others d ax).zipIdx.map fun (p, i) => (.lit 0, .dim (nestEndAxis d ax pre i p) 0)

def half : RExpr := .num 1 2
/-- `(0.5/nu - Mfirst)*2./dx[0]` -/
def bcFirstExpr : RExpr :=
  .div (.mul (.sub (.div half (.sc .nu)) (.sc (.loc .Mfirst))) (.num 2 1)) (.arr (.work .dx) (.bnd (.lit 0)))
/-- `-(-0.5/nu - Mlast)*2./dx[E-2]` -/
def bcLastExpr (ax : Nat) : RExpr :=
  .div (.mul (.neg (.sub (.div (.neg half) (.sc .nu)) (.sc (.loc .Mlast)))) (.num 2 1)) (.arr (.work .dx) (.bnd (.dim ax 2)))

def wk (w : WArr) : RArg := .ptr (.work w)

def coordArgs (d ax : Nat) : List RExpr := (others d ax).map fun p => .arr (.grid p) (.var (axVar ax p) 0)
def migArgs (d : Nat) : List RExpr := (List.range (d - 1)).map fun i => .sc (.mig i)
def mArgs (d ax : Nat) (x : RExpr) : List RExpr := x :: (coordArgs d ax ++ migArgs d ++ [.sc .gamma, .sc .h])
def vFn (d : Nat) : RFn := if d = 1 then .VfuncBeta else .Vfunc
def vArgs (d : Nat) (x : RExpr) : List RExpr := if d = 1 then [x, .sc .nu, .sc .beta] else [x, .sc .nu]
def guardCmps (d ax n : Nat) : List RCmp := (others d ax).map fun p => .eq (.arr (.grid p) (.var (axVar ax p) 0)) n

/-- statements of the on-the-fly kernel (d, ax), canonical order -/
def expStmts (d ax : Nat) : List RStmt :=
  let E : RBound := .dim ax 0
  let E1 : RBound := .dim ax 1
  let G : RRef := .grid ax
  (if d = 1 then [] else [.proc .tridiagMalloc [.ext E]]) ++
  [ .proc .computeDx [.ptr G, .ext E, wk .dx],
    .proc .computeDfactor [wk .dx, .ext E, wk .dfactor],
    .proc .computeXInt [.ptr G, .ext E, wk .xInt],
    .tab .V (.lit 0) E (some (vFn d)) (vArgs d (.arr G (.var .it 0))),
    .tab .VInt (.lit 0) E1 (some (vFn d)) (vArgs d (.arr (.work .xInt) (.var .it 0))),
    .setSc .Mfirst (.Mfunc d) (mArgs d ax (.arr G (.bnd (.lit 0)))),
    .setSc .Mlast (.Mfunc d) (mArgs d ax (.arr G (.bnd E1))),
    .tab .MInt (.lit 0) E1 (some (.Mfunc d)) (mArgs d ax (.arr (.work .xInt) (.var .it 0))),
    .proc .computeDelj [wk .dx, wk .MInt, wk .VInt, .ext E, wk .delj, .val (.sc .deljSw)],
    .proc .computeAbc [wk .dx, wk .dfactor, wk .delj, wk .MInt, wk .V, .val (.sc .dt), .ext E, wk .a, wk .b, wk .c],
    .tab .r (.lit 0) E none [.div (.flat .phi (expIdx d ax)) (.sc .dt)],
    .bc (guardCmps d ax 0 ++ [.le0 (.sc (.loc .Mfirst))]) .b (.bnd (.lit 0)) bcFirstExpr,
    .bc (guardCmps d ax 1 ++ [.ge0 (.sc (.loc .Mlast))]) .b (.bnd E1) (bcLastExpr ax),
    .proc .solve [wk .a, wk .b, wk .c, wk .r, wk .sol, .ext E],
    .store (.lit 0) E .phi (expIdx d ax) (.arr (.work .sol) (.var .it 0)) ]

/-- statements of the pre-computed-coefficient kernel (d, ax) -/
def expPreStmts (d ax : Nat) : List RStmt :=
  let E : RBound := .dim ax 0
  let at_ (r : RRef) : RExpr := .flat r (expIdx d ax)
  [ .proc .tridiagMalloc [.ext E],
    .tab .a (.lit 0) E none [at_ (.coef 0)],
    .tab .b (.lit 0) E none [.add (at_ (.coef 1)) (.div (.num 1 1) (.sc .dt))],
    .tab .c (.lit 0) E none [at_ (.coef 2)],
    .tab .r (.lit 0) E none [.mul (.div (.num 1 1) (.sc .dt)) (at_ .phi)],
    .proc .solve [wk .a, wk .b, wk .c, wk .r, wk .sol, .ext E],
    .store (.lit 0) E .phi (expIdx d ax) (.arr (.work .sol) (.var .it 0)) ]

def expAllocs (ax : Nat) : List (WArr × RBound) :=
  [(.dx, .dim ax 1), (.dfactor, .dim ax 0), (.xInt, .dim ax 1), (.V, .dim ax 0), (.VInt, .dim ax 1), (.MInt, .dim ax 1),
   (.delj, .dim ax 1), (.a, .dim ax 0), (.b, .dim ax 0), (.c, .dim ax 0), (.r, .dim ax 0)]

def kernelName (d ax : Nat) (pre : Bool) : String :=
  (if pre then "implicit_precalc_" else "implicit_") ++ toString d ++ "D" ++ (["x", "y", "z", "a", "b"].getD ax "?")

def expected (d ax : Nat) (pre : Bool) : KProgR :=
  { name := kernelName d ax pre, d := d, ax := ax, pre := pre,
    allocs := if pre then [] else expAllocs ax, solAllocOk := true,
    migAxes := if pre then [] else others d ax,
    nest := expNest d ax pre,
    stmts := if pre then expPreStmts d ax else expStmts d ax }

/-- the allocation table of a pre-computed-coefficient kernel is not compared (some pass slices of the coefficient arrays straight
    to the solver and allocate fewer work arrays); its entries must have the length of the line -/
def preAllocsOk (R : KProgR) : Bool := R.allocs.all fun e => e.2 == .dim R.ax 0

def stripAllocs (R : KProgR) : KProgR := if R.pre then { R with allocs := [] } else R

def expectedAll : List KProgR :=
  ((List.range 5).flatMap fun d => (List.range (d + 1)).map fun ax => expected (d + 1) ax false)
  ++ ([2, 3].flatMap fun d => (List.range d).map fun ax => expected d ax true)

/-! ### semantics on a flat row-major array -/
structure KEnv where
  shape : List Nat
  grids : List (Array Rat)
  coefs : List (Array Rat)
  P : AxisParams
  use : Bool
  dt : Rat
  /-- supplied values of exp(w/V) of the line whose outer loop variables have the given values -/
  eps : List Nat → Nat → Rat

structure WState where
  arr : WArr → Nat → Rat
  sc : WSc → Rat
  phi : Array Rat

def WState.setArr (s : WState) (w : WArr) (f : Nat → Rat) : WState := { s with arr := fun w' => if w' = w then f else s.arr w' }
def WState.setSc (s : WState) (w : WSc) (v : Rat) : WState := { s with sc := fun w' => if w' = w then v else s.sc w' }

def evalBound (env : KEnv) : RBound → Nat
  | .lit n => n
  | .dim p m => env.shape.getD p 0 - m
  | .unknown _ => 0

def evalVar (vals : List Nat) (j : Nat) : C.KVar → Nat
  | .outer l => vals.getD l 0
  | .it => j

def evalIx (env : KEnv) (vals : List Nat) (j : Nat) : RIx → Nat
  | .var v plus => evalVar vals j v + plus
  | .bnd b => evalBound env b

def strideProd (env : KEnv) (ss : List Nat) : Nat := (ss.map (env.shape.getD · 0)).foldr (· * ·) 1

def evalIdx (env : KEnv) (vals : List Nat) (j : Nat) (ts : List RTerm) : Nat :=
  (ts.map fun t => evalVar vals j t.var * strideProd env t.strides).foldr (· + ·) 0

def evalSc (env : KEnv) (s : WState) : RScalar → Rat
  | .nu => env.P.nu
  | .mig i => env.P.ms.getD i 0
  | .gamma => env.P.gamma
  | .h => env.P.h
  | .beta => env.P.beta.getD 1
  | .dt => env.dt
  | .deljSw => if env.use then 1 else 0
  | .loc w => s.sc w
  | .unknown _ => 0

def lookRef (env : KEnv) (s : WState) : RRef → Nat → Rat
  | .grid p => fun i => (env.grids.getD p #[]).getD i 0
  | .work w => s.arr w
  | .phi => fun i => s.phi.getD i 0
  | .coef k => fun i => (env.coefs.getD k #[]).getD i 0
  | .unknown _ => fun _ => 0

def evalExpr (env : KEnv) (vals : List Nat) (s : WState) (j : Nat) : RExpr → Rat
  | .num n d => (n : Rat) / (d : Rat)
  | .sc x => evalSc env s x
  | .arr r ix => lookRef env s r (evalIx env vals j ix)
  | .flat r idx => lookRef env s r (evalIdx env vals j idx)
  | .neg e => - evalExpr env vals s j e
  | .add a b => evalExpr env vals s j a + evalExpr env vals s j b
  | .sub a b => evalExpr env vals s j a - evalExpr env vals s j b
  | .mul a b => evalExpr env vals s j a * evalExpr env vals s j b
  | .div a b => evalExpr env vals s j a / evalExpr env vals s j b

/-- `Vfunc(x, nu)`, `Vfunc_beta(x, nu, beta)`, `Mfunc{d}D(x, y…, m…, gamma, h)`: the generated C functions, arguments by position -/
def callFn (fn : RFn) (args : List Rat) : Rat :=
  match fn with
  | .Vfunc => C.Vfunc (args.getD 0 0) (args.getD 1 0)
  | .VfuncBeta => C.Vfunc_beta (args.getD 0 0) (args.getD 1 0) (args.getD 2 0)
  | .Mfunc d =>
    let rest := args.drop 1
    (Mkernel (args.getD 0 0) ((rest.drop (d - 1)).take (d - 1)) (rest.take (d - 1)) (rest.getD (2 * (d - 1)) 0)
      (rest.getD (2 * (d - 1) + 1) 0)).getD 0
  | .unknown _ => 0

def evalCmp (env : KEnv) (vals : List Nat) (s : WState) : RCmp → Bool
  | .eq e n => evalExpr env vals s 0 e == (n : Rat)
  | .le0 e => decide (evalExpr env vals s 0 e ≤ 0)
  | .ge0 e => decide (evalExpr env vals s 0 e ≥ 0)

def RArg.ref : RArg → RRef
  | .ptr r => r
  | _ => .unknown ""
def RArg.bound : RArg → RBound
  | .ext b => b
  | _ => .unknown ""
def RArg.expr : RArg → RExpr
  | .val e => e
  | _ => .num 0 1
def RArg.out : RArg → Option WArr
  | .ptr (.work w) => some w
  | _ => none

/-- `compute_dfactor(dx, N, dfactor)` read pointwise (`C.dfactorShapeOk`) -/
def dfactorOf (dx : Nat → Rat) (N : Nat) (j : Nat) : Rat :=
  if j = 0 then 2 / dx 0 else if j + 1 = N then 2 / dx (N - 2) else 2 / (dx j + dx (j - 1))

/-- `compute_abc_nobc(dx, dfactor, delj, MInt, V, dt, N, a, b, c)` read pointwise (`C.abcShapeOk`, `C.atemp`, `C.ctemp`) -/
def abcA (dx df delj MInt V : Nat → Rat) (j : Nat) : Rat :=
  if j = 0 then 0 else - df j * C.atemp (MInt (j-1)) (delj (j-1)) (V (j-1)) (V j) (dx (j-1))
def abcC (dx df delj MInt V : Nat → Rat) (N : Nat) (j : Nat) : Rat :=
  if j + 1 < N then - df j * C.ctemp (MInt j) (delj j) (V j) (V (j+1)) (dx j) else 0
def abcB (dx df delj MInt V : Nat → Rat) (dt : Rat) (N : Nat) (j : Nat) : Rat :=
  1 / dt + (if j + 1 < N then df j * C.atemp (MInt j) (delj j) (V j) (V (j+1)) (dx j) else 0)
    + (if j = 0 then 0 else df j * C.ctemp (MInt (j-1)) (delj (j-1)) (V (j-1)) (V j) (dx (j-1)))

def execProc (env : KEnv) (vals : List Nat) (s : WState) (p : RProc) (args : List RArg) : WState :=
  let A (i : Nat) : Nat → Rat := lookRef env s (args.getD i .bad).ref
  let out (i : Nat) (f : Nat → Rat) (s : WState) : WState :=
    match (args.getD i .bad).out with
    | some w => s.setArr w f
    | none => s
  match p with
  | .computeDx => out 2 (fun i => A 0 (i + 1) - A 0 i) s
  | .computeDfactor => out 2 (dfactorOf (A 0) (evalBound env (args.getD 1 .bad).bound)) s
  | .computeXInt => out 2 (fun i => (1/2 : Rat) * (A 0 (i + 1) + A 0 i)) s
  | .computeDelj =>
      out 4 (deljC (evalExpr env vals s 0 (args.getD 5 .bad).expr != 0) (env.eps vals) (A 1) (A 2) (A 0)) s
  | .computeAbc =>
      let N := evalBound env (args.getD 6 .bad).bound
      let dt := evalExpr env vals s 0 (args.getD 5 .bad).expr
      out 9 (abcC (A 0) (A 1) (A 2) (A 3) (A 4) N)
        (out 8 (abcB (A 0) (A 1) (A 2) (A 3) (A 4) dt N) (out 7 (abcA (A 0) (A 1) (A 2) (A 3) (A 4)) s))
  | .solve =>
      let N := evalBound env (args.getD 5 .bad).bound
      let rows : List Row := (List.range N).map fun j => ⟨A 0 j, A 1 j, A 2 j, A 3 j⟩
      let sol := thomas rows
      out 4 (fun j => listGetD sol j) s
  | _ => s

def execStmt (env : KEnv) (vals : List Nat) (s : WState) : RStmt → WState
  | .proc p args => execProc env vals s p args
  | .setSc w fn args => s.setSc w (callFn fn (args.map (evalExpr env vals s 0)))
  | .tab w _ _ fn args =>
      s.setArr w fun j =>
        match fn with
        | some f => callFn f (args.map (evalExpr env vals s j))
        | none => evalExpr env vals s j (args.headD (.num 0 1))
  | .store lo hi r idx e =>
      match r with
      | .phi =>
        let l := evalBound env lo
        let phi' := (List.range (evalBound env hi - l)).foldl
          (fun a j => a.setIfInBounds (evalIdx env vals (l + j) idx) (evalExpr env vals s (l + j) e)) s.phi
        { s with phi := phi' }
      | _ => s
  | .bc cond w ix e =>
      let ok := cond.all (evalCmp env vals s)
      let k := evalIx env vals 0 ix
      let v := evalExpr env vals s 0 e
      s.setArr w fun j => s.arr w j + (if ok && (j == k) then v else 0)
  | .bad _ => s

def initState (phi : Array Rat) : WState := ⟨fun _ _ => 0, fun _ => 0, phi⟩

/-- everything the kernel does for ONE line (values `vals` of the loop variables of the nest) -/
def lineExec (R : KProgR) (env : KEnv) (vals : List Nat) (phi : Array Rat) : Array Rat :=
  (R.stmts.foldl (execStmt env vals) (initState phi)).phi

/-- the loop nest: `for(v0 = lo0; v0 < hi0; v0++) for(v1 = …) … body(v0, v1, …)` -/
def nestFold {α : Type} : List (Nat × Nat) → (List Nat → α → α) → α → α
  | [], body, a => body [] a
  | (lo, hi) :: rest, body, a =>
      (List.range (hi - lo)).foldl (fun a i => nestFold rest (fun is => body ((lo + i) :: is)) a) a

/-- running a resolved kernel program on the flat density -/
def run (R : KProgR) (env : KEnv) (phi : Array Rat) : Array Rat :=
  nestFold (R.nest.map fun b => (evalBound env b.1, evalBound env b.2)) (lineExec R env) phi

end KProg
end DadiVerif
