import DadiVerif.Model.ND
/-
Frequency spectra as the code sees them: a row-major array of rationals (`.data`, including the
values under masked cells), a boolean mask of the same shape and the `folded` flag.
Only what `Spectrum.project` needs is modelled here: construction by tabulation, corner masking,
`fold`, `unfold` (dadi/Spectrum_mod.py `mask_corners`, `fold`, `unfold`, `_total_per_entry`,
`Numerics.reverse_array`).  All operations are *pointwise* definitions (`Spec.ofFn`): entry `idx` of the
result is a closed expression in entries of the argument.  Core Lean only.
-/
namespace DadiVerif

structure Spec where
  shape  : List Nat
  data   : Array Rat
  mask   : Array Bool
  folded : Bool

def sumNat (l : List Nat) : Nat := l.foldl (· + ·) 0

namespace Spec

def getD (S : Spec) (idx : List Nat) : Rat := S.data.getD (flatIdx S.shape idx) 0
def getM (S : Spec) (idx : List Nat) : Bool := S.mask.getD (flatIdx S.shape idx) false

/-- tabulate data and mask over the box `shape` (row-major) -/
def ofFn (shape : List Nat) (f : List Nat → Rat) (g : List Nat → Bool) (folded : Bool) : Spec :=
  { shape := shape
    data := Array.ofFn (n := prodL shape) fun k => f (unflat shape k.val)
    mask := Array.ofFn (n := prodL shape) fun k => g (unflat shape k.val)
    folded := folded }

/-- `sample_sizes = shape - 1` -/
def sampleSizes (S : Spec) : List Nat := S.shape.map (· - 1)

/-- `reverse_array`: index reversed along every axis -/
def revIdx (shape idx : List Nat) : List Nat := List.zipWith (fun s i => s - 1 - i) shape idx

/-- `numpy.sum(self.sample_sizes)` -/
def totalSamples (shape : List Nat) : Nat := sumNat (shape.map (· - 1))

/-- `_total_per_entry` -/
def totalPerEntry (idx : List Nat) : Nat := sumNat idx

/-- `where_folded_out = total_per_entry > int(total_samples/2)` -/
def foldedOut (shape idx : List Nat) : Bool := decide (totalPerEntry idx > totalSamples shape / 2)

/-- `where_ambiguous = (total_per_entry == total_samples/2.)` -/
def ambiguous (shape idx : List Nat) : Bool := 2 * totalPerEntry idx == totalSamples shape

/-- `mask.flat[0] = mask.flat[-1] = True` -/
def isCorner (shape idx : List Nat) : Bool := idx.all (· == 0) || idx == shape.map (· - 1)

/-- `Spectrum.fold` (data under the mask included; the constructor masks the corners) -/
def fold (S : Spec) : Spec :=
  let sh := S.shape
  ofFn sh
    (fun idx =>
      let r := revIdx sh idx
      let base := if foldedOut sh idx then 0
                  else S.getD idx + (if foldedOut sh r then S.getD r else 0)
      let amb := (-(1/2 : Rat)) * (if ambiguous sh idx then S.getD idx else 0)
                 + (1/2 : Rat) * (if ambiguous sh r then S.getD r else 0)
      base + amb)
    (fun idx => S.getM idx || S.getM (revIdx sh idx) || foldedOut sh idx || isCorner sh idx)
    true

/-- `Spectrum.unfold` -/
def unfold (S : Spec) : Spec :=
  let sh := S.shape
  let nm : List Nat → Bool := fun idx => xor (S.getM idx) (foldedOut sh idx)
  ofFn sh
    (fun idx => (S.getD idx + S.getD (revIdx sh idx)) / 2)
    (fun idx => nm idx || nm (revIdx sh idx) || isCorner sh idx)
    false

/-- `Numerics.reverse_array(fs)` = `fs[::-1, ::-1, …]`: every axis reversed (data and mask), flag kept -/
def mirror (S : Spec) : Spec :=
  let sh := S.shape
  ofFn sh (fun idx => S.getD (revIdx sh idx)) (fun idx => S.getM (revIdx sh idx)) S.folded

/-- `fs.data.sum()`: the sum of the raw data array (values under masked cells included) -/
def total (S : Spec) : Rat := sumL ((List.range (prodL S.shape)).map fun k => S.data.getD k 0)

end Spec
end DadiVerif
