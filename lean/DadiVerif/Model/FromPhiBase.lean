/- Core-only arithmetic helpers shared by Generated/FromPhi.lean and Model/FromPhi.lean (C05). -/
namespace DadiVerif.FromPhi

def fact : Nat → Nat
  | 0 => 1
  | n+1 => (n+1) * fact n

/-- binomial coefficient (what `scipy.special.comb(n, k)` returns for integers, 0 outside 0 ≤ k ≤ n) -/
def choose (n k : Nat) : Nat := if k ≤ n then fact n / (fact k * fact (n - k)) else 0

/-- Σ_{i<n} f i -/
def sumRange : Nat → (Nat → Rat) → Rat
  | 0, _ => 0
  | n+1, f => sumRange n f + f n

/-- Python `sorted(l)` on a list of axis numbers -/
def sortNat (l : List Nat) : List Nat := l.mergeSort (fun a b => decide (a ≤ b))

end DadiVerif.FromPhi
