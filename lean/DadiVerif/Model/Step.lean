import DadiVerif.Model.Line
import DadiVerif.Model.ND
import DadiVerif.Generated.Coeffs
/-
M2/M4 — one implicit step along one axis of a d-population density, generic in d.
The coefficient formulas are the *generated* ones (Generated/Coeffs.lean, translated from
integration_shared.c / integration{1..5}D.c / Integration.py on every run).
-/
namespace DadiVerif
open Gen

/-- canonical advection term: Σ_k m_k (y_k − x) + 2γ (h + (1−2h)x) x (1−x) -/
def Mgen (x : Rat) (ms ys : List Rat) (gamma h : Rat) : Rat :=
  sumL (List.zipWith (fun m y => m * (y - x)) ms ys) + gamma * 2 * (h + (1 - 2*h) * x) * x * (1 - x)

/-- the C kernels' M function at dimension 1 + |ys| (generated); `none` outside 1..5 -/
def Mkernel (x : Rat) (ms ys : List Rat) (gamma h : Rat) : Option Rat :=
  match ms, ys with
  | [], [] => some (C.Mfunc1D x gamma h)
  | [m1], [y] => some (C.Mfunc2D x y m1 gamma h)
  | [m1, m2], [y, z] => some (C.Mfunc3D x y z m1 m2 gamma h)
  | [m1, m2, m3], [y, z, a] => some (C.Mfunc4D x y z a m1 m2 m3 gamma h)
  | [m1, m2, m3, m4], [y, z, a, b] => some (C.Mfunc5D x y z a b m1 m2 m3 m4 gamma h)
  | _, _ => none

structure AxisParams where
  nu    : Rat
  gamma : Rat
  h     : Rat
  ms    : List Rat      -- migration into this population from each other one, in axis order
  beta  : Option Rat    -- `some β` only for the 1-D kernel (Vfunc_beta)
deriving Repr

def AxisParams.V (P : AxisParams) (x : Rat) : Rat :=
  match P.beta with
  | some β => C.Vfunc_beta x P.nu β
  | none => C.Vfunc x P.nu

/-- Chang–Cooper delj of `compute_delj`; `eps i` is the supplied value of exp(wj/VInt) -/
def deljC (use : Bool) (eps : Nat → Rat) (MInt VInt dx : Nat → Rat) (i : Nat) : Rat :=
  if !use then 1/2 else
    let wj := C.delj_wj (MInt i) (dx i)
    if C.delj_guard (eps i) wj then C.delj_quot (eps i) wj (VInt i) else 1/2

/-- Build the `Line` of one C kernel call.  `M` is the advection function along the line,
`zero`/`one` say whether all other coordinates are exactly 0 / exactly 1. -/
def mkLine (xs : Array Rat) (V M : Rat → Rat) (delj : Nat → Rat) (nu : Rat) (zero one : Bool)
    (dt : Rat) : Line :=
  let x : Nat → Rat := fun j => xs.getD j 0
  let N := xs.size
  let dx : Nat → Rat := fun i => x (i+1) - x i
  let xInt : Nat → Rat := fun i => (1/2 : Rat) * (x (i+1) + x i)
  { N := N, x := x, dt := dt,
    At := fun k => C.atemp (M (xInt (k-1))) (delj (k-1)) (V (x (k-1))) (V (x k)) (dx (k-1)),
    Ct := fun k => C.ctemp (M (xInt (k-1))) (delj (k-1)) (V (x (k-1))) (V (x k)) (dx (k-1)),
    bc := fun j =>
      (if j = 0 ∧ zero = true ∧ M (x 0) ≤ 0 then C.bcFirst nu (M (x 0)) (dx 0) else 0)
      + (if j + 1 = N ∧ one = true ∧ M (x (N-1)) ≥ 0 then C.bcLast nu (M (x (N-1))) (dx (N-2)) else 0) }

/-- the line for axis parameters `P` at other-coordinates `ys` (generic d, canonical M) -/
def axisLine (xs : Array Rat) (P : AxisParams) (ys : List Rat) (use : Bool) (eps : Nat → Rat)
    (dt : Rat) : Line :=
  let x : Nat → Rat := fun j => xs.getD j 0
  let M : Rat → Rat := fun u => (Mkernel u P.ms ys P.gamma P.h).getD (Mgen u P.ms ys P.gamma P.h)
  let xInt : Nat → Rat := fun i => (1/2 : Rat) * (x (i+1) + x i)
  let dx : Nat → Rat := fun i => x (i+1) - x i
  let delj := deljC use eps (fun i => M (xInt i)) (fun i => P.V (xInt i)) dx
  mkLine xs P.V M delj P.nu (ys.all (· == 0)) (ys.all (· == 1)) dt

/-- family form: every line `i : ι` advanced by its own `Line` -/
def stepFam {ι : Type} (mk : ι → Line) (φ : ι → Nat → Rat) : ι → Nat → Rat :=
  fun i j => listGetD ((mk i).step (φ i)) j

/-- coordinates of the other axes for a multi-index with axis `k` erased -/
def otherCoords (grids : List (Array Rat)) (k : Nat) (i : List Nat) : List Rat :=
  List.zipWith (fun (g : Array Rat) j => g.getD j 0) (grids.eraseIdx k) i

/-- kernel `implicit_{d}D{axis k}` on the functional form of the density -/
def stepAxisFn (grids : List (Array Rat)) (k : Nat) (P : AxisParams) (use : Bool)
    (eps : List Nat → Nat → Rat) (dt : Rat) (T : List Nat → Rat) : List Nat → Rat :=
  fun idx =>
    stepFam (fun i => axisLine (grids.getD k #[]) P (otherCoords grids k i) use (eps i) dt)
      (fun i j => T (i.insertIdx k j)) (idx.eraseIdx k) (idx.getD k 0)

/-- executable: tabulate -/
def stepAxis (grids : List (Array Rat)) (k : Nat) (P : AxisParams) (use : Bool)
    (eps : ND) (dt : Rat) (T : ND) : ND :=
  ND.ofFn T.shape (stepAxisFn grids k P use (fun i j => eps.get (i.insertIdx k j)) dt T.get)

/-! ### Pre-computed coefficient path (`_one/_two/_three_pops_const_params` + `implicit_precalc_*`)
    a, b, c are assembled once from the Python formulas (generated `Py.pre*`) without 1/dt; the
    C kernel adds 1/dt to b and solves. -/
structure PreCoef where
  a : Nat → Rat
  b : Nat → Rat
  c : Nat → Rat

/-- which generated Python update expressions to use: (a_hi, b_lo, b_hi, c_lo) -/
structure PreFormulas where
  a_hi : Rat → Rat → Rat → Rat → Rat → Rat → Rat → Rat
  b_lo : Rat → Rat → Rat → Rat → Rat → Rat → Rat → Rat
  b_hi : Rat → Rat → Rat → Rat → Rat → Rat → Rat → Rat
  c_lo : Rat → Rat → Rat → Rat → Rat → Rat → Rat → Rat

def preFormulas (d ax : Nat) : Option PreFormulas :=
  match d, ax with
  | 1, 0 => some ⟨Py.pre1D_a_hi, Py.pre1D_b_lo, Py.pre1D_b_hi, Py.pre1D_c_lo⟩
  | 2, 0 => some ⟨Py.pre2Dx_a_hi, Py.pre2Dx_b_lo, Py.pre2Dx_b_hi, Py.pre2Dx_c_lo⟩
  | 2, 1 => some ⟨Py.pre2Dy_a_hi, Py.pre2Dy_b_lo, Py.pre2Dy_b_hi, Py.pre2Dy_c_lo⟩
  | 3, 0 => some ⟨Py.pre3Dx_a_hi, Py.pre3Dx_b_lo, Py.pre3Dx_b_hi, Py.pre3Dx_c_lo⟩
  | 3, 1 => some ⟨Py.pre3Dy_a_hi, Py.pre3Dy_b_lo, Py.pre3Dy_b_hi, Py.pre3Dy_c_lo⟩
  | 3, 2 => some ⟨Py.pre3Dz_a_hi, Py.pre3Dz_b_lo, Py.pre3Dz_b_hi, Py.pre3Dz_c_lo⟩
  | _, _ => none

/-- pointwise reading of the numpy slice updates:
    `a[1:] += F_a_hi(i)` puts interval i = j-1 on node j; `b[:-1] += F_b_lo(i)` puts interval j on node j;
    `b[1:] += F_b_hi(i)` interval j-1 on node j; `c[:-1] += F_c_lo(i)` interval j on node j. -/
def preCoef (F : PreFormulas) (xs : Array Rat) (V M : Rat → Rat) (delj : Nat → Rat)
    (bcFirst bcLast : Rat) : PreCoef :=
  let x : Nat → Rat := fun j => xs.getD j 0
  let N := xs.size
  let dx : Nat → Rat := fun i => x (i+1) - x i
  let xInt : Nat → Rat := fun i => (x i + x (i+1)) / 2
  let dfac : Nat → Rat := fun j =>
    if j = 0 then 2 / dx 0 else if j + 1 = N then 2 / dx (N-2) else 2 / (dx (j-1) + dx j)
  let ev (f : Rat → Rat → Rat → Rat → Rat → Rat → Rat → Rat) (i : Nat) : Rat :=
    f (M (xInt i)) (delj i) (dx i) (V (x i)) (V (x (i+1))) (dfac i) (dfac (i+1))
  { a := fun j => if j = 0 then 0 else ev F.a_hi (j-1),
    c := fun j => if j + 1 < N then ev F.c_lo j else 0,
    b := fun j => (if j + 1 < N then ev F.b_lo j else 0) + (if j = 0 then 0 else ev F.b_hi (j-1))
           + (if j = 0 then bcFirst else 0) + (if j + 1 = N then bcLast else 0) }

def PreCoef.rows (C : PreCoef) (N : Nat) (dt : Rat) (φ : Nat → Rat) : List Row :=
  (List.range N).map fun j => ⟨C.a j, C.b j + 1 / dt, C.c j, φ j / dt⟩


/-- Python-side M (generated `Py._Mfunc{1,2,3}D`) -/
def MkernelPy (x : Rat) (ms ys : List Rat) (gamma h : Rat) : Option Rat :=
  match ms, ys with
  | [], [] => some (Py.Mfunc1D x gamma h)
  | [m1], [y] => some (Py.Mfunc2D x y m1 gamma h)
  | [m1, m2], [y, z] => some (Py.Mfunc3D x y z m1 m2 gamma h)
  | _, _ => none

/-- coefficients of one line as `_one/_two/_three_pops_const_params` assemble them.
    `first`/`last`: the line is the `[0,…,0]` / `[-1,…,-1]` line of the other axes (that is where the
    Python code puts its boundary terms). -/
def preLine (d ax : Nat) (xs : Array Rat) (P : AxisParams) (ys : List Rat) (use : Bool)
    (eps : Nat → Rat) (first last : Bool) : Option PreCoef := do
  let F ← preFormulas d ax
  let x : Nat → Rat := fun j => xs.getD j 0
  let N := xs.size
  let _ ← MkernelPy 0 P.ms ys P.gamma P.h
  let M : Rat → Rat := fun u => (MkernelPy u P.ms ys P.gamma P.h).getD 0
  let V : Rat → Rat := fun u => Py.Vfunc u P.nu (P.beta.getD 1)
  let xInt : Nat → Rat := fun i => (x i + x (i+1)) / 2
  let dx : Nat → Rat := fun i => x (i+1) - x i
  let delj := deljC use eps (fun i => M (xInt i)) (fun i => V (xInt i)) dx
  let Mf := M (x 0); let Ml := M (x (N-1))
  let bcF := if first ∧ Py.pre1D_bcFirstGuard Mf Ml then Py.pre1D_bcFirst P.nu Mf Ml (dx 0) (dx (N-2)) else 0
  let bcL := if last ∧ Py.pre1D_bcLastGuard Mf Ml then Py.pre1D_bcLast P.nu Mf Ml (dx 0) (dx (N-2)) else 0
  some (preCoef F xs V M delj bcF bcL)

/-- a, b, c arrays of the pre-computed path, tabulated (shape of φ) -/
def preCoefND (grids : List (Array Rat)) (k : Nat) (P : AxisParams) (use : Bool) (eps : ND)
    (shape : List Nat) : Option (ND × ND × ND) := do
  let d := grids.length
  let xs := grids.getD k #[]
  let _ ← preFormulas d k
  let _ ← MkernelPy 0 P.ms (otherCoords grids k ((shape.eraseIdx k).map fun _ => 0)) P.gamma P.h
  let coef (idx : List Nat) : PreCoef :=
    let i := idx.eraseIdx k
    let oshape := shape.eraseIdx k
    let first := i.all (· == 0)
    let last := (List.zipWith (fun s j => j + 1 == s) oshape i).all id
    (preLine d k xs P (otherCoords grids k i) use (fun j => eps.get (i.insertIdx k j)) first last).getD ⟨fun _ => 0, fun _ => 0, fun _ => 0⟩
  some (ND.ofFn shape (fun idx => (coef idx).a (idx.getD k 0)),
        ND.ofFn shape (fun idx => (coef idx).b (idx.getD k 0)),
        ND.ofFn shape (fun idx => (coef idx).c (idx.getD k 0)))

/-- `implicit_precalc_{d}D{axis k}`: along every line solve (a, b + 1/dt, c) x = φ/dt -/
def preSolve (k : Nat) (dt : Rat) (a b c : ND) (T : ND) : ND :=
  let N := T.shape.getD k 0
  ND.ofFn T.shape fun idx =>
    let i := idx.eraseIdx k
    let rows := (List.range N).map fun j =>
      let ix := i.insertIdx k j
      (⟨a.get ix, b.get ix + 1 / dt, c.get ix, T.get ix / dt⟩ : Row)
    listGetD (thomas rows) (idx.getD k 0)

end DadiVerif
