/-
M3 — tridiagonal systems and the Thomas sweep of `dadi/tridiag.c` (`tridiag_premalloc`),
exact rational arithmetic.  Core Lean only (no Mathlib) so the driver can run it.

`solveAux β cp up rows` carries the state of the C loop: `β` = `bet` of the previous row,
`cp` = `c[j-1]`, `up` = `u[j-1]` (after the forward pass).  `gam[j] = c[j-1]/bet`.
The back-substitution `u[j] -= gam[j+1]*u[j+1]` is the `u - (row.c / bet) * next` below.
The first row is handled by starting with β = 1, cp = 0, up = 0:
`bet = b[0] - a[0]*0 = b[0]`, `u[0] = (r[0] - a[0]*0)/bet = r[0]/bet`, as in the C code
(which never reads a[0]).
-/
namespace DadiVerif

structure Row where
  a : Rat
  b : Rat
  c : Rat
  r : Rat
deriving Repr

def solveAux (β cp up : Rat) : List Row → List Rat
  | [] => []
  | row :: rest =>
    let bet := row.b - row.a * (cp / β)
    let u := (row.r - row.a * up) / bet
    let us := solveAux bet row.c u rest
    (u - (row.c / bet) * us.headD 0) :: us

def thomas (rows : List Row) : List Rat := solveAux 1 0 0 rows

/-- the pivots `bet` met by the forward sweep; the C code divides by each of them -/
def pivots (β cp : Rat) : List Row → List Rat
  | [] => []
  | row :: rest => (row.b - row.a * (cp / β)) :: pivots (row.b - row.a * (cp / β)) row.c rest

/-- build rows from four coefficient lists (as the Cython wrapper `tridiag(a,b,c,r)` receives them) -/
def mkRows : List Rat → List Rat → List Rat → List Rat → List Row
  | a :: as, b :: bs, c :: cs, r :: rs => ⟨a, b, c, r⟩ :: mkRows as bs cs rs
  | _, _, _, _ => []

end DadiVerif

namespace DadiVerif
/-- no pivot of the forward sweep vanishes (what the C code needs in order not to divide by 0) -/
def PivotsOk (β cp : Rat) : List Row → Prop
  | [] => True
  | row :: rest => (row.b - row.a * (cp / β)) ≠ 0 ∧ PivotsOk (row.b - row.a * (cp / β)) row.c rest

/-- `xs` solves the tridiagonal system `rows` (unknown before the first row = `xprev`, after the last = 0) -/
def Solves (xprev : Rat) : List Row → List Rat → Prop
  | [], [] => True
  | row :: rs, x :: xs => row.a * xprev + row.b * x + row.c * xs.headD 0 = row.r ∧ Solves x rs xs
  | _, _ => False

/-- index form of `Solves` -/
def SolvesIdx (xprev : Rat) (rows : List Row) (xs : List Rat) : Prop :=
  rows.length = xs.length ∧
  ∀ j, (hj : j < rows.length) →
    rows[j].a * (if j = 0 then xprev else xs.getD (j-1) 0) + rows[j].b * xs.getD j 0
      + rows[j].c * xs.getD (j+1) 0 = rows[j].r
end DadiVerif
