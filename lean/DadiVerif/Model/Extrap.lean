import DadiVerif.Generated.Extrap
/-!
Executable model of `Numerics.make_extrap_func` for one array entry and for whole (flattened) arrays.
Core Lean only.  The k-point formulas, the `len(pts_l)` dispatch, the guard of the fallback and the fallback test are the
*generated* definitions of `Generated/Extrap.lean`; this file only adds what the source does with loops / numpy calls:
`numpy.argmin`, the entry-wise replacement, and an exact-rational form of the decades test for an integer `fail_mag`
(proved equivalent to the generated test at `Real.logb 10` in Props/C07.lean).
-/
namespace DadiVerif
namespace Extrap
open Gen.Extrap

/-- `numpy.argmin` on a list: scan keeping (best value, best index); a later element wins only if strictly smaller. -/
def argminAux (bv : Rat) (bi : Nat) (i : Nat) : List Rat → Nat
  | [] => bi
  | x :: xs => if x < bv then argminAux x i (i + 1) xs else argminAux bv bi (i + 1) xs

def argminIdx : List Rat → Nat
  | [] => 0
  | x :: xs => argminAux x 0 1 xs

/-- pairwise distinct x values (the formulas divide by every difference) -/
def distinct : List Rat → Bool
  | [] => true
  | x :: xs => (xs.all (fun y => x != y)) && distinct xs

/-- Exact form of `abs(log10(ex/best)) > m` for a whole number `m` of decades.  For a positive ratio it is the
    threshold test `ex/best > 10^m ∨ ex/best < 10^-m`; the other branches mirror IEEE/numpy: `x/0 = ±inf`, `0/0 = nan`,
    `log10(negative) = nan`, `log10(0) = -inf`, `log10(inf) = inf`, and every comparison with nan is False. -/
def failedExact (ex best : Rat) (m : Nat) : Bool :=
  if best == 0 then decide (0 < ex)
  else
    let r := ex / best
    if r < 0 then false
    else if r == 0 then true
    else decide ((10 : Rat) ^ m < r) || decide (r < 1 / (10 : Rat) ^ m)

/-- the ratio is within a relative 1e-6 of one of the two thresholds: float rounding may decide either way -/
def nearThreshold (ex best : Rat) (m : Nat) : Bool :=
  if best == 0 then false
  else
    let r := ex / best
    let hi := (10 : Rat) ^ m
    let lo := 1 / (10 : Rat) ^ m
    let tol : Rat := 1 / 1000000
    decide (ratAbs (r - hi) ≤ tol * hi) || decide (ratAbs (r - lo) ≤ tol * lo)

/-- One array entry through the linear-mode pipeline: dispatch, then (for more than `fallbackMinLen` grids) the fallback to
    the value at the smallest x.  Returns (value, fell back?, near a threshold?). -/
def extrapEntry (m : Nat) (ys xs : List Rat) : Except String (Rat × Bool × Bool) := do
  let ex ← dispatch ys xs
  if ys.length > fallbackMinLen then
    let best := ys.getD (argminIdx xs) 0
    let f := failedExact ex best m
    pure (if f then best else ex, f, nearThreshold ex best m)
  else pure (ex, false, false)

/-- entry `i` of each of the k flattened results -/
def column (yss : List (List Rat)) (i : Nat) : List Rat := yss.map (fun ys => ys.getD i 0)

/-- all entries of an array-valued model; `yss` = the k results, each flattened to `n` entries -/
def extrapArray (m : Nat) (yss : List (List Rat)) (xs : List Rat) : Except String (List (Rat × Bool × Bool)) :=
  match yss with
  | [] => .error "ValueError:count"
  | y0 :: _ =>
    if yss.all (fun ys => ys.length == y0.length) then
      (List.range y0.length).mapM (fun i => extrapEntry m (column yss i) xs)
    else .error "shape"

/-- dispatch only (no fallback), entry-wise -/
def dispatchArray (yss : List (List Rat)) (xs : List Rat) : Except String (List Rat) :=
  match yss with
  | [] => .error "ValueError:count"
  | y0 :: _ =>
    if yss.all (fun ys => ys.length == y0.length) then
      (List.range y0.length).mapM (fun i => dispatch (column yss i) xs)
    else .error "shape"

/-! ### which x values the extrapolation runs in
`xSelect` (generated from the statements of `extrap_func` that assign `x_l`) decides between the explicit `extrap_x_l`
argument, the `.extrap_x` attributes of the results, and an error.  What follows is how the rest of the code consumes `x_l`. -/

/-- the k-point formulas unpack `x_l` and do arithmetic with its entries: `None` (as a whole or as an entry) is a
    TypeError, a name that was never assigned an UnboundLocalError -/
def xValues {α : Type} : XVal α → Except String (List α)
  | .unbound => .error "UnboundLocalError"
  | .pyNone => .error "TypeError:None"
  | .list l => if l.all Option.isSome then .ok (l.filterMap id) else .error "TypeError:None"

/-- counts whose dispatch branch calls a formula, i.e. reads `x_l` -/
def usesX (k : Nat) : Bool := formulaTable.any (fun t => t.1 == k)

/-- for the other counts `x_l` is carried along but never read (one grid: identity, no fallback; outside the table:
    ValueError before any use); the numbers it holds, for the record -/
def xLoose {α : Type} : XVal α → List α
  | .list l => l.filterMap id
  | _ => []

/-- the x list the pipeline works with for `k` grids: explicit argument / attributes of the results / error -/
def xsFor {α : Type} (explicit : Option (List α)) (attrs : List (XAttr α)) (k : Nat) : Except String (List α) :=
  match xSelect explicit attrs with
  | .error e => .error e
  | .ok xv => if usesX k then xValues xv else .ok (xLoose xv)

/-- one entry: choose the x values, then the `len(pts_l)` dispatch -/
def xdispatch {α : Type} [Add α] [Sub α] [Mul α] [Div α] [Neg α] [NatCast α]
    (explicit : Option (List α)) (attrs : List (XAttr α)) (ys : List α) : Except String α :=
  match xsFor explicit attrs ys.length with
  | .error e => .error e
  | .ok xs => dispatch ys xs

/-! ### the mask of a Spectrum-valued extrapolation
The k-point formulas are polymorphic, so the very same generated `dispatch` can be run on *mask bits* instead of numbers:
`MaskV corner` is what one entry of an operand looks like to the arithmetic of `Spectrum` (a Spectrum entry with its mask
bit, or a plain number such as an x value), and every operation is the generated `specArithMask` (the binary-arithmetic
template of dadi/Spectrum_mod.py; a number on the left reaches the reflected method of the Spectrum on the right). -/

inductive MaskV (corner : Bool) where
  | fs : Bool → MaskV corner
  | num : MaskV corner
deriving DecidableEq, Repr

def MaskV.op {c : Bool} : MaskV c → MaskV c → MaskV c
  | .fs a, .fs b => .fs (specArithMask c a (some b))
  | .fs a, .num => .fs (specArithMask c a none)
  | .num, .fs b => .fs (specArithMask c b none)
  | .num, .num => .num

instance {c : Bool} : Add (MaskV c) := ⟨MaskV.op⟩
instance {c : Bool} : Sub (MaskV c) := ⟨MaskV.op⟩
instance {c : Bool} : Mul (MaskV c) := ⟨MaskV.op⟩
instance {c : Bool} : Div (MaskV c) := ⟨MaskV.op⟩
instance {c : Bool} : Neg (MaskV c) := ⟨id⟩
instance {c : Bool} : NatCast (MaskV c) := ⟨fun _ => .num⟩

/-- mask bit of one entry (a corner or not) of the extrapolation of k Spectrum-valued results whose mask bits at that entry
    are `masks`, the x values being plain numbers: the generated dispatch and formulas, run on mask bits.
    `none`: the call is refused (count outside the table) or the result is not a Spectrum. -/
def maskResult (corner : Bool) (masks : List Bool) : Option Bool :=
  match dispatch (α := MaskV corner) (masks.map MaskV.fs) (masks.map fun _ => MaskV.num) with
  | .ok (.fs m) => some m
  | _ => none

end Extrap
end DadiVerif
