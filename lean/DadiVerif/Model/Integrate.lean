import DadiVerif.Model.Step
/-
M5/M6 — mutation injection, one full time step ("sweep") in d populations, and the two drivers
(constant parameters: dt computed once; time-dependent: parameters re-evaluated at the next time).
Generic in d; the injection increments and `computeDt` are the generated ones.
-/
namespace DadiVerif
open Gen

structure PopParams where
  nu    : Rat
  gamma : Rat
  h     : Rat
  ms    : List Rat     -- migration rates into this population from every other one, axis order
deriving Repr

structure StepParams where
  pops   : List PopParams
  theta0 : Rat
  beta   : Option Rat   -- one-population drivers only
deriving Repr

def PopParams.axis (p : PopParams) (beta : Option Rat) : AxisParams :=
  { nu := p.nu, gamma := p.gamma, h := p.h, ms := p.ms, beta := beta }

/-- generated increment of `_inject_mutations_{d}D` for population k (none outside 1..5) -/
def injectAmt (d k : Nat) (dt theta0 : Rat) (g : Nat → Nat → Rat) : Option Rat :=
  match d, k with
  | 1, 0 => some (Py.inject1D_0 dt theta0 (g 0))
  | 2, 0 => some (Py.inject2D_0 dt theta0 (g 0) (g 1))
  | 2, 1 => some (Py.inject2D_1 dt theta0 (g 0) (g 1))
  | 3, 0 => some (Py.inject3D_0 dt theta0 (g 0) (g 1) (g 2))
  | 3, 1 => some (Py.inject3D_1 dt theta0 (g 0) (g 1) (g 2))
  | 3, 2 => some (Py.inject3D_2 dt theta0 (g 0) (g 1) (g 2))
  | 4, 0 => some (Py.inject4D_0 dt theta0 (g 0) (g 1) (g 2) (g 3))
  | 4, 1 => some (Py.inject4D_1 dt theta0 (g 0) (g 1) (g 2) (g 3))
  | 4, 2 => some (Py.inject4D_2 dt theta0 (g 0) (g 1) (g 2) (g 3))
  | 4, 3 => some (Py.inject4D_3 dt theta0 (g 0) (g 1) (g 2) (g 3))
  | 5, 0 => some (Py.inject5D_0 dt theta0 (g 0) (g 1) (g 2) (g 3) (g 4))
  | 5, 1 => some (Py.inject5D_1 dt theta0 (g 0) (g 1) (g 2) (g 3) (g 4))
  | 5, 2 => some (Py.inject5D_2 dt theta0 (g 0) (g 1) (g 2) (g 3) (g 4))
  | 5, 3 => some (Py.inject5D_3 dt theta0 (g 0) (g 1) (g 2) (g 3) (g 4))
  | 5, 4 => some (Py.inject5D_4 dt theta0 (g 0) (g 1) (g 2) (g 3) (g 4))
  | _, _ => none

/-- canonical increment: dt/x_k[1] · θ0/2 · 2^d / ((x_k[2] − x_k[0]) · Π_{l≠k} x_l[1]) -/
def injectCanon (d k : Nat) (dt theta0 : Rat) (g : Nat → Nat → Rat) : Rat :=
  dt / (g k 1) * theta0 / 2 * (2 : Rat)^d /
    ((g k 2 - g k 0) * (((List.range d).filter (· ≠ k)).map (fun l => g l 1)).foldl (· * ·) 1)

/-- unit multi-index e_k of length d -/
def unitIdx (d k : Nat) : List Nat := (List.range d).map fun l => if l = k then 1 else 0

/-- does population k receive new mutations?  (table `Py.injectTerms`: frozen guards everywhere, nomut only in 2-D) -/
def injectOn (d k : Nat) (frozen nomut : List Bool) : Bool :=
  !(frozen.getD k false) && !(d == 2 && nomut.getD k false)

def injectFn (grids : List (Array Rat)) (frozen nomut : List Bool) (dt theta0 : Rat)
    (T : List Nat → Rat) : List Nat → Rat :=
  let d := grids.length
  let g : Nat → Nat → Rat := fun l j => (grids.getD l #[]).getD j 0
  fun idx =>
    T idx + sumL ((List.range d).map fun k =>
      if idx = unitIdx d k ∧ injectOn d k frozen nomut then (injectAmt d k dt theta0 g).getD 0 else 0)

def inject (grids : List (Array Rat)) (frozen nomut : List Bool) (dt theta0 : Rat) (T : ND) : ND :=
  ND.ofFn T.shape (injectFn grids frozen nomut dt theta0 T.get)

/-- one axis of the sweep on tabulated arrays; `eps k` supplies the exp values for axis k (only read when `use`) -/
def sweepAxis (grids : List (Array Rat)) (frozen : List Bool) (use : Bool) (eps : Nat → ND)
    (pops : List PopParams) (beta : Option Rat) (dt : Rat) (acc : ND) (k : Nat) : ND :=
  if frozen.getD k false then acc
  else match pops[k]? with
    | some p => stepAxis grids k (p.axis beta) use (eps k) dt acc
    | none => acc

/-- one full time step with the on-the-fly kernels: inject, then every non-frozen axis in order. -/
def sweep (grids : List (Array Rat)) (frozen nomut : List Bool) (use : Bool) (eps : Nat → ND)
    (P : StepParams) (dt : Rat) (T : ND) : ND :=
  (List.range grids.length).foldl (sweepAxis grids frozen use eps P.pops P.beta dt)
    (inject grids frozen nomut dt P.theta0 T)

/-- one axis of the sweep on the functional form -/
def sweepAxisFn (grids : List (Array Rat)) (frozen : List Bool) (use : Bool) (eps : Nat → List Nat → Nat → Rat)
    (pops : List PopParams) (beta : Option Rat) (dt : Rat) (acc : List Nat → Rat) (k : Nat) : List Nat → Rat :=
  if frozen.getD k false then acc
  else match pops[k]? with
    | some p => stepAxisFn grids k (p.axis beta) use (eps k) dt acc
    | none => acc

/-- the same sweep on the functional form of the density (no tabulation) -/
def sweepFn (grids : List (Array Rat)) (frozen nomut : List Bool) (use : Bool) (eps : Nat → List Nat → Nat → Rat)
    (P : StepParams) (dt : Rat) (T : List Nat → Rat) : List Nat → Rat :=
  (List.range grids.length).foldl (sweepAxisFn grids frozen use eps P.pops P.beta dt)
    (injectFn grids frozen nomut dt P.theta0 T)

/-- dt of `_compute_dt` for one population; `none` = +∞ -/
def popDt (tf : Rat) (p : PopParams) : Option Rat :=
  Py.computeDt tf p.nu (if p.ms.isEmpty then 0 else sumL p.ms) p.gamma p.h

def optMin : Option Rat → Option Rat → Option Rat
  | none, b => b
  | a, none => a
  | some a, some b => some (ratMin a b)

/-- `min(_compute_dt(...) for every population)` -/
def stepDt (tf : Rat) (P : StepParams) : Option Rat := (P.pops.map (popDt tf)).foldl optMin none

def thisDt (dt : Option Rat) (rem : Rat) : Rat :=
  match dt with
  | none => rem
  | some d => ratMin d rem

/-- constant-parameter driver: dt once, `while current_t < T: this_dt = min(dt, T - current_t); step; current_t += this_dt` -/
def integrateConst {σ : Type} (step : StepParams → Rat → σ → σ) (tf : Rat) (P : StepParams) (T : Rat) :
    Nat → Rat → σ → σ
  | 0, _, φ => φ
  | fuel + 1, t, φ =>
    if t < T then
      let dt := thisDt (stepDt tf P) (T - t)
      integrateConst step tf P T fuel (t + dt) (step P dt φ)
    else φ

/-- time-dependent driver: dt from the *current* parameters, step with the parameters at `next_t` -/
def integrateFn {σ : Type} (step : StepParams → Rat → σ → σ) (tf : Rat) (Pf : Rat → StepParams) (T : Rat) :
    Nat → Rat → StepParams → σ → σ
  | 0, _, _, φ => φ
  | fuel + 1, t, Pcur, φ =>
    if t < T then
      let dt := thisDt (stepDt tf Pcur) (T - t)
      let nt := t + dt
      let Pn := Pf nt
      integrateFn step tf Pf T fuel nt Pn (step Pn dt φ)
    else φ

/-- number of steps the drivers take (exact arithmetic) — used as fuel -/
def stepCount (dt : Option Rat) (t T : Rat) : Nat :=
  if t ≥ T then 0 else
  match dt with
  | none => 1
  | some d => if d ≤ 0 then 0 else ((T - t) / d).ceil.toNat

end DadiVerif
