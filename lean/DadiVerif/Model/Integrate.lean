import DadiVerif.Model.Step
/-
M5/M6 — mutation injection, one full time step ("sweep") in d populations, and the two drivers
(constant parameters: dt computed once; time-dependent: parameters re-evaluated at the next time).
Generic in d; the injection increments and `computeDt` are the generated ones.
-/
namespace DadiVerif
open Gen

structure PopParams where
  nu    : Rat
  gamma : Rat
  h     : Rat
  ms    : List Rat     -- migration rates into this population from every other one, axis order
deriving Repr

structure StepParams where
  pops   : List PopParams
  theta0 : Rat
  beta   : Option Rat   -- one-population drivers only
deriving Repr

def PopParams.axis (p : PopParams) (beta : Option Rat) : AxisParams :=
  { nu := p.nu, gamma := p.gamma, h := p.h, ms := p.ms, beta := beta }

/-- generated increment of `_inject_mutations_{d}D` for population k (none outside 1..5) -/
def injectAmt (d k : Nat) (dt theta0 : Rat) (g : Nat → Nat → Rat) : Option Rat :=
  match d, k with
  | 1, 0 => some (Py.inject1D_0 dt theta0 (g 0))
  | 2, 0 => some (Py.inject2D_0 dt theta0 (g 0) (g 1))
  | 2, 1 => some (Py.inject2D_1 dt theta0 (g 0) (g 1))
  | 3, 0 => some (Py.inject3D_0 dt theta0 (g 0) (g 1) (g 2))
  | 3, 1 => some (Py.inject3D_1 dt theta0 (g 0) (g 1) (g 2))
  | 3, 2 => some (Py.inject3D_2 dt theta0 (g 0) (g 1) (g 2))
  | 4, 0 => some (Py.inject4D_0 dt theta0 (g 0) (g 1) (g 2) (g 3))
  | 4, 1 => some (Py.inject4D_1 dt theta0 (g 0) (g 1) (g 2) (g 3))
  | 4, 2 => some (Py.inject4D_2 dt theta0 (g 0) (g 1) (g 2) (g 3))
  | 4, 3 => some (Py.inject4D_3 dt theta0 (g 0) (g 1) (g 2) (g 3))
  | 5, 0 => some (Py.inject5D_0 dt theta0 (g 0) (g 1) (g 2) (g 3) (g 4))
  | 5, 1 => some (Py.inject5D_1 dt theta0 (g 0) (g 1) (g 2) (g 3) (g 4))
  | 5, 2 => some (Py.inject5D_2 dt theta0 (g 0) (g 1) (g 2) (g 3) (g 4))
  | 5, 3 => some (Py.inject5D_3 dt theta0 (g 0) (g 1) (g 2) (g 3) (g 4))
  | 5, 4 => some (Py.inject5D_4 dt theta0 (g 0) (g 1) (g 2) (g 3) (g 4))
  | _, _ => none

/-- canonical increment: dt/x_k[1] · θ0/2 · 2^d / ((x_k[2] − x_k[0]) · Π_{l≠k} x_l[1]) -/
def injectCanon (d k : Nat) (dt theta0 : Rat) (g : Nat → Nat → Rat) : Rat :=
  dt / (g k 1) * theta0 / 2 * (2 : Rat)^d /
    ((g k 2 - g k 0) * (((List.range d).filter (· ≠ k)).map (fun l => g l 1)).foldl (· * ·) 1)

/-- unit multi-index e_k of length d -/
def unitIdx (d k : Nat) : List Nat := (List.range d).map fun l => if l = k then 1 else 0

/-- does population k receive new mutations?  (table `Py.injectTerms`: frozen guards everywhere, nomut only in 2-D) -/
def injectOn (d k : Nat) (frozen nomut : List Bool) : Bool :=
  !(frozen.getD k false) && !(d == 2 && nomut.getD k false)

def injectFn (grids : List (Array Rat)) (frozen nomut : List Bool) (dt theta0 : Rat)
    (T : List Nat → Rat) : List Nat → Rat :=
  let d := grids.length
  let g : Nat → Nat → Rat := fun l j => (grids.getD l #[]).getD j 0
  fun idx =>
    T idx + sumL ((List.range d).map fun k =>
      if idx = unitIdx d k ∧ injectOn d k frozen nomut then (injectAmt d k dt theta0 g).getD 0 else 0)

def inject (grids : List (Array Rat)) (frozen nomut : List Bool) (dt theta0 : Rat) (T : ND) : ND :=
  ND.ofFn T.shape (injectFn grids frozen nomut dt theta0 T.get)

/-- one axis of the sweep on tabulated arrays; `eps k` supplies the exp values for axis k (only read when `use`) -/
def sweepAxis (grids : List (Array Rat)) (frozen : List Bool) (use : Bool) (eps : Nat → ND)
    (pops : List PopParams) (beta : Option Rat) (dt : Rat) (acc : ND) (k : Nat) : ND :=
  if frozen.getD k false then acc
  else match pops[k]? with
    | some p => stepAxis grids k (p.axis beta) use (eps k) dt acc
    | none => acc

/-- one full time step with the on-the-fly kernels: inject, then every non-frozen axis in order. -/
def sweep (grids : List (Array Rat)) (frozen nomut : List Bool) (use : Bool) (eps : Nat → ND)
    (P : StepParams) (dt : Rat) (T : ND) : ND :=
  (List.range grids.length).foldl (sweepAxis grids frozen use eps P.pops P.beta dt)
    (inject grids frozen nomut dt P.theta0 T)

/-- one axis of the sweep on the functional form -/
def sweepAxisFn (grids : List (Array Rat)) (frozen : List Bool) (use : Bool) (eps : Nat → List Nat → Nat → Rat)
    (pops : List PopParams) (beta : Option Rat) (dt : Rat) (acc : List Nat → Rat) (k : Nat) : List Nat → Rat :=
  if frozen.getD k false then acc
  else match pops[k]? with
    | some p => stepAxisFn grids k (p.axis beta) use (eps k) dt acc
    | none => acc

/-- the same sweep on the functional form of the density (no tabulation) -/
def sweepFn (grids : List (Array Rat)) (frozen nomut : List Bool) (use : Bool) (eps : Nat → List Nat → Nat → Rat)
    (P : StepParams) (dt : Rat) (T : List Nat → Rat) : List Nat → Rat :=
  (List.range grids.length).foldl (sweepAxisFn grids frozen use eps P.pops P.beta dt)
    (injectFn grids frozen nomut dt P.theta0 T)

/-- dt of `_compute_dt` for one population; `none` = +∞ -/
def popDt (tf : Rat) (p : PopParams) : Option Rat :=
  Py.computeDt tf p.nu (if p.ms.isEmpty then 0 else sumL p.ms) p.gamma p.h

def optMin : Option Rat → Option Rat → Option Rat
  | none, b => b
  | a, none => a
  | some a, some b => some (ratMin a b)

/-- `min(_compute_dt(...) for every population)` -/
def stepDt (tf : Rat) (P : StepParams) : Option Rat := (P.pops.map (popDt tf)).foldl optMin none

def thisDt (dt : Option Rat) (rem : Rat) : Rat :=
  match dt with
  | none => rem
  | some d => ratMin d rem

/-- constant-parameter driver: dt once, `while current_t < T: this_dt = min(dt, T - current_t); step; current_t += this_dt` -/
def integrateConst {σ : Type} (step : StepParams → Rat → σ → σ) (tf : Rat) (P : StepParams) (T : Rat) :
    Nat → Rat → σ → σ
  | 0, _, φ => φ
  | fuel + 1, t, φ =>
    if t < T then
      let dt := thisDt (stepDt tf P) (T - t)
      integrateConst step tf P T fuel (t + dt) (step P dt φ)
    else φ

/-- time-dependent driver: dt from the *current* parameters, step with the parameters at `next_t` -/
def integrateFn {σ : Type} (step : StepParams → Rat → σ → σ) (tf : Rat) (Pf : Rat → StepParams) (T : Rat) :
    Nat → Rat → StepParams → σ → σ
  | 0, _, _, φ => φ
  | fuel + 1, t, Pcur, φ =>
    if t < T then
      let dt := thisDt (stepDt tf Pcur) (T - t)
      let nt := t + dt
      let Pn := Pf nt
      integrateFn step tf Pf T fuel nt Pn (step Pn dt φ)
    else φ

/-- number of steps the drivers take (exact arithmetic) — used as fuel -/
def stepCount (dt : Option Rat) (t T : Rat) : Nat :=
  if t ≥ T then 0 else
  match dt with
  | none => 1
  | some d => if d ≤ 0 then 0 else ((T - t) / d).ceil.toNat


/-! ### Driver programs

`Gen.Py.driverPrograms` (Generated/Coeffs.lean) are the time loops of `one_pop … five_pops` and `_one/_two/_three_pops_const_params`
translated statement by statement, call arguments as written.  `Prog.resolve` binds every call against the callee's SIGNATURE
(`_compute_dt`, `_inject_mutations_<d>D`, the Cython wrapper of each kernel, the C function behind it and the role each C
parameter plays in the kernel body — all generated name tables), normalises what does not change the schedule (`min`/`+` are
commutative, consecutive parameter evaluations commute, Demes bookkeeping is dropped) and yields a program over roles.
`Prog.exec`/`Prog.runLoop` is the semantics of that language; `Prog.expected d const` is the schedule the model stands for.
(Props/C02: the resolved generated programs ARE the expected ones and those run as `integrateFn`/`integrateConst` of `sweep`.) -/
namespace Prog
open Gen.Py

def allDistinct : List String → Bool
  | [] => true
  | x :: xs => !(xs.contains x) && allDistinct xs

/-- Python's argument binding: positionals in order, then keywords by name.  `none` if a positional follows a keyword, there are
    too many positionals, a keyword is not a parameter or a parameter is bound twice. -/
def bindArgs (sig : List String) (args : List CallArg) : Option (List (String × CallArg)) :=
  let pos := args.takeWhile (·.kw.isNone)
  let kws := args.dropWhile (·.kw.isNone)
  let b := List.zip sig pos ++ kws.filterMap fun a => a.kw.map fun k => (k, a)
  if pos.length ≤ sig.length && kws.all (·.kw.isSome) && allDistinct (b.map Prod.fst) && (b.map Prod.fst).all sig.contains
  then some b else none

def scalarOf (a : CallArg) : Option Arg :=
  if a.isList then none else match a.vals with
    | [x] => some x
    | _ => none

def bound (b : List (String × CallArg)) (name : String) : Option Arg := (b.lookup name).bind scalarOf

structure DtCallR where
  dx : Arg
  nu : Arg
  ms : List Arg
  gamma : Arg
  h : Arg
deriving DecidableEq, Repr

structure InjectR where
  dim : Nat
  phi : Arg
  dt : Arg
  grids : List Arg
  theta0 : Arg
  frozen : List Arg
  nomut : List Arg
deriving DecidableEq, Repr

structure KernelR where
  guard : Option Arg
  d : Nat
  ax : Nat
  pre : Bool                    -- pre-computed coefficient kernel (constant-parameter drivers)
  phi : Arg
  grids : List Arg
  nu : Arg
  ms : List (Arg × Nat)         -- (rate, coordinate axis it is paired with), in the order of the coordinate axes
  gamma : Arg
  h : Arg
  beta : Option Arg
  dt : Arg
  delj : Option Arg
deriving DecidableEq, Repr

inductive StmtR where
  | computeDt (calls : List DtCallR)
  | capDt (args : List TExp)
  | setNext (e : TExp)
  | eval (p : Param) (t : TExp)
  | check (what : String) (args : List Arg)
  | inject (i : InjectR)
  | kernel (k : KernelR)
  | advance (e : TExp)
  | bad (why : String)
deriving DecidableEq, Repr

structure ProgramR where
  fn : String
  d : Nat
  const : Bool
  wraps : List Param
  prologue : List StmtR
  cond : LoopCond
  body : List StmtR
  returnsPhi : Bool
deriving DecidableEq, Repr

/-! #### normalisation -/
def paramRank : Param → Nat
  | .nu k => k
  | .gamma k => 100 + k
  | .h k => 200 + k
  | .m k l => 300 + 10 * k + l
  | .theta0 => 1000
  | .beta => 1001

def argRank : Arg → Nat
  | .tEnd => 0
  | .slot p => 1 + paramRank p
  | .raw p => 1 + paramRank p
  | _ => 5000

def insertBy {α : Type} (r : α → Nat) (x : α) : List α → List α
  | [] => [x]
  | y :: ys => if r x < r y then x :: y :: ys else y :: insertBy r x ys

/-- stable insertion sort by rank -/
def sortBy {α : Type} (r : α → Nat) (l : List α) : List α := l.foldr (insertBy r) []

/-- `dt + t` → `t + dt` -/
def normT : TExp → TExp
  | .add (.dtv v) (.tv w) => .add (.tv w) (.dtv v)
  | .add (.dtv v) .tEnd => .add .tEnd (.dtv v)
  | e => e

def texpRank : TExp → Nat
  | .dtv _ => 0
  | _ => 1

def normCond (c : LoopCond) : LoopCond :=
  match c.op with
  | .gt => ⟨c.rhs, .lt, c.lhs⟩
  | .ge => ⟨c.rhs, .le, c.lhs⟩
  | _ => c

def evalRank : StmtR → Nat
  | .eval p _ => paramRank p
  | _ => 0

/-- consecutive evaluations of parameter functions commute: put each run in canonical order -/
def sortEvalRuns : List StmtR → List StmtR → List StmtR
  | run, [] => sortBy evalRank run.reverse
  | run, (.eval p t) :: rest => sortEvalRuns ((.eval p t) :: run) rest
  | run, s :: rest => sortBy evalRank run.reverse ++ s :: sortEvalRuns [] rest

/-! #### binding against the signatures -/
def resolveDt (args : List CallArg) : StmtR ⊕ DtCallR :=
  match bindArgs computeDtSig args with
  | none => .inl (.bad "_compute_dt: binding")
  | some b =>
    match bound b "dx", bound b "nu", b.lookup "ms", bound b "gamma", bound b "h" with
    | some dx, some nu, some ms, some g, some h =>
        if ms.isList && b.length == computeDtSig.length then .inr ⟨dx, nu, ms.vals, g, h⟩ else .inl (.bad "_compute_dt: ms")
    | _, _, _, _, _ => .inl (.bad "_compute_dt: argument missing")

def resolveInject (dim : Nat) (args : List CallArg) : StmtR :=
  match injectSigs.lookup dim with
  | none => .bad "inject: unknown callee"
  | some sig =>
    match bindArgs (sig.map Prod.fst) args with
    | none => .bad "inject: binding"
    | some b =>
      let by_ (m : Arg) : Option Arg := (sig.find? (·.2 == m)).bind fun e => bound b e.1
      let many (p : Arg → Bool) : Option (List Arg) := (sig.filter (fun e => p e.2)).mapM fun e => bound b e.1
      let isFrozen : Arg → Bool := fun a => match a with | .flag (.frozen _) => true | _ => false
      let isNomut : Arg → Bool := fun a => match a with | .flag (.nomut _) => true | _ => false
      -- flags in the order of the population they belong to (the callee's names decide, not the positions)
      let flags (mk : Nat → Arg) (p : Arg → Bool) : Option (List Arg) :=
        if (sig.filter (fun e => p e.2)).isEmpty then some []
        else (List.range dim).mapM fun k => by_ (mk k)
      match by_ .phi, by_ (.dtv .dt), many (· == .grid), by_ (.slot .theta0), flags (fun k => .flag (.frozen k)) isFrozen,
            flags (fun k => .flag (.nomut k)) isNomut with
      | some ph, some dt, some gs, some th, some fr, some nm =>
          if b.length == sig.length then .inject ⟨dim, ph, dt, gs, th, fr, nm⟩ else .bad "inject: argument missing"
      | _, _, _, _, _, _ => .bad "inject: argument missing"

/-- the driver's argument that reaches C parameter `c` of kernel `K`: through the wrapper's parameter it is passed from -/
def reach (K : C.KernelSig) (b : List (String × CallArg)) (c : String) : Option Arg :=
  match K.cParams.idxOf? c with
  | none => none
  | some i =>
    match K.pyxCall[i]? with
    | some (.param w) => bound b w
    | some (.data w) => bound b w
    | _ => none

def dimsOk (K : C.KernelSig) : Bool :=
  (List.zipIdx K.roleDims).all fun (c, i) =>
    match K.cParams.idxOf? c with
    | some j => K.pyxCall[j]? == some (.shape K.rolePhi i) || K.pyxCall[j]? == some (.size "a")
    | none => false

def resolveKernel (guard : Option Arg) (fn : String) (args : List CallArg) : StmtR :=
  match C.kernelSigs.find? (·.name == fn) with
  | none => .bad "kernel: unknown callee"
  | some K =>
    match bindArgs K.pyxParams args with
    | none => .bad "kernel: binding"
    | some b =>
      if b.length != K.pyxParams.length then .bad "kernel: argument missing"
      else if !(dimsOk K) || K.pyxReturns != K.rolePhi && !(K.name == "tridiag") then .bad "kernel: wrapper"
      else if K.pre then
        match reach K b K.rolePhi, K.roleCoef.mapM (reach K b), preParams.find? (fun e => e.1 == K.d && e.2.1 == K.ax) with
        | some ph, some [a, bb, c], some (_, _, nu, ms, g, h, beta) =>
            if K.name == "tridiag" then
              match bb, ph with
              | .bPlusInvDt ax v, .rhs v' =>
                  if a == .coef 0 K.ax && ax == K.ax && c == .coef 2 K.ax && v == v' then
                    .kernel ⟨guard, K.d, K.ax, true, .phi, [], nu, sortBy (·.2) ms, g, h, beta, .dtv v, none⟩
                  else .bad "tridiag: coefficient arrays"
              | _, _ => .bad "tridiag: coefficient arrays"
            else
              match reach K b K.roleDt with
              | some dt =>
                  if a == .coef 0 K.ax && bb == .coef 1 K.ax && c == .coef 2 K.ax then
                    .kernel ⟨guard, K.d, K.ax, true, ph, [], nu, sortBy (·.2) ms, g, h, beta, dt, none⟩
                  else .bad "precalc kernel: coefficient arrays"
              | none => .bad "precalc kernel: dt"
        | _, _, _ => .bad "precalc kernel: argument missing"
      else
        match reach K b K.rolePhi, K.roleGrids.mapM (reach K b), reach K b K.roleNu,
              K.roleMig.mapM (fun e => (reach K b e.1).map fun a => (a, e.2)), reach K b K.roleGamma, reach K b K.roleH,
              K.roleBeta.mapM (reach K b), reach K b K.roleDt, reach K b K.roleDelj with
        | some ph, some gs, some nu, some ms, some g, some h, some beta, some dt, some dj =>
            .kernel ⟨guard, K.d, K.ax, false, ph, gs, nu, sortBy (·.2) ms, g, h, beta, dt, some dj⟩
        | _, _, _, _, _, _, _, _, _ => .bad "kernel: argument missing"

def resolveStmts : List Stmt → List StmtR
  | [] => []
  | .log :: rest => resolveStmts rest
  | .rhsDiv v :: .tridiag args :: rest =>
      (match resolveKernel none "tridiag" args with
       | .kernel k => if k.dt == .dtv v then .kernel k else .bad "tridiag: right-hand side"
       | s => s) :: resolveStmts rest
  | .rhsDiv _ :: rest => .bad "r = phi/dt not followed by the solve" :: resolveStmts rest
  | .tridiag _ :: rest => .bad "solve without r = phi/dt" :: resolveStmts rest
  | .computeDt calls :: rest =>
      (let rs := calls.map resolveDt
       match rs.find? (fun r => match r with | .inl _ => true | .inr _ => false) with
       | some (.inl s) => s
       | _ => .computeDt (rs.filterMap fun r => match r with | .inr c => some c | .inl _ => none)) :: resolveStmts rest
  | .capDt args :: rest => .capDt (sortBy texpRank args) :: resolveStmts rest
  | .setNext e :: rest => .setNext (normT e) :: resolveStmts rest
  | .eval p t :: rest => .eval p t :: resolveStmts rest
  | .check w args :: rest => .check w (sortBy argRank args) :: resolveStmts rest
  | .inject dim args :: rest => resolveInject dim args :: resolveStmts rest
  | .kernel g fn args :: rest => resolveKernel g fn args :: resolveStmts rest
  | .advance e :: rest => .advance (normT e) :: resolveStmts rest

def resolve (P : DriverProgram) : ProgramR :=
  { fn := P.fn, d := P.d, const := P.const, wraps := sortBy paramRank P.wraps,
    prologue := sortEvalRuns [] (resolveStmts P.prologue), cond := normCond P.cond,
    body := sortEvalRuns [] (resolveStmts P.body), returnsPhi := P.returnsPhi }

/-! #### the schedule the model stands for -/
def others (d k : Nat) : List Nat := (List.range d).filter (· ≠ k)

/-- every parameter of a d-population integration, canonical order -/
def paramList (d : Nat) : List Param :=
  (List.range d).map .nu ++ (List.range d).map .gamma ++ (List.range d).map .h
    ++ (List.range d).flatMap (fun k => (others d k).map (.m k)) ++ [.theta0] ++ (if d = 1 then [.beta] else [])

/-- …those the time step depends on (all but θ0) -/
def dtParamList (d : Nat) : List Param :=
  (List.range d).map .nu ++ (List.range d).map .gamma ++ (List.range d).map .h
    ++ (List.range d).flatMap (fun k => (others d k).map (.m k)) ++ (if d = 1 then [.beta] else [])

def expDtCall (d k : Nat) : DtCallR :=
  { dx := .spacing, nu := .slot (.nu k), ms := if d = 1 then [.lit 0] else (others d k).map fun l => .slot (.m k l),
    gamma := .slot (.gamma k), h := .slot (.h k) }

def expInject (d : Nat) : InjectR :=
  { dim := d, phi := .phi, dt := .dtv .thisDt, grids := List.replicate d .grid, theta0 := .slot .theta0,
    frozen := if d = 1 then [] else (List.range d).map fun k => .flag (.frozen k),
    nomut := if d = 2 then (List.range d).map fun k => .flag (.nomut k) else [] }

def expKernel (d ax : Nat) (pre : Bool) : KernelR :=
  { guard := if d = 1 then none else some (.flag (.frozen ax)), d := d, ax := ax, pre := pre, phi := .phi,
    grids := if pre then [] else List.replicate d .grid,
    nu := .slot (.nu ax), ms := (others d ax).map fun l => (.slot (.m ax l), l), gamma := .slot (.gamma ax), h := .slot (.h ax),
    beta := if d = 1 then some (.slot .beta) else none, dt := .dtv .thisDt, delj := if pre then none else some .delj }

def expChecks (d : Nat) : List StmtR :=
  [.check "less" ([.tEnd] ++ (List.range d).map (fun k => .slot (.nu k))
      ++ (List.range d).flatMap (fun k => (others d k).map fun l => .slot (.m k l)) ++ [.slot .theta0]),
   .check "equal" ((List.range d).map fun k => .slot (.nu k))]

def whileBelowT : LoopCond := ⟨.tv .cur, .lt, .tEnd⟩
def capToEnd : StmtR := .capDt [.dtv .dt, .sub .tEnd (.tv .cur)]
def dtFromSlots (d : Nat) : StmtR := .computeDt ((List.range d).map (expDtCall d))

/-- time-dependent driver: `while current_t < T`: dt from the values in the slots; `this_dt = min(dt, T − current_t)`;
    `next_t = current_t + this_dt`; EVERY parameter re-evaluated at `next_t`; guards; injection with `this_dt`; every axis in order,
    guarded by its own `frozen` flag, with `this_dt` and the values just evaluated; `current_t = next_t`. -/
def expectedFnBody (d : Nat) : List StmtR :=
  [dtFromSlots d, capToEnd, .setNext (.add (.tv .cur) (.dtv .thisDt))]
    ++ (paramList d).map (fun p => .eval p (.tv .next))
    ++ expChecks d
    ++ [.inject (expInject d)]
    ++ (List.range d).map (fun ax => .kernel (expKernel d ax false))
    ++ [.advance (.tv .next)]

/-- constant-parameter driver: dt once before the loop; in the loop `this_dt = min(dt, T − current_t)`, injection, every axis,
    `current_t += this_dt` -/
def expectedConstBody (d : Nat) : List StmtR :=
  [capToEnd, .inject (expInject d)] ++ (List.range d).map (fun ax => .kernel (expKernel d ax true))
    ++ [.advance (.add (.tv .cur) (.dtv .thisDt))]

def driverName (d : Nat) (const : Bool) : String :=
  let base := ["one_pop", "two_pops", "three_pops", "four_pops", "five_pops"].getD (d - 1) ""
  if const then "_" ++ base ++ "_const_params" else base

def expected (d : Nat) (const : Bool) : ProgramR :=
  if const then
    { fn := driverName d true, d := d, const := true, wraps := [], prologue := expChecks d ++ [dtFromSlots d],
      cond := whileBelowT, body := expectedConstBody d, returnsPhi := true }
  else
    { fn := driverName d false, d := d, const := false, wraps := paramList d,
      prologue := (dtParamList d).map (fun p => .eval p (.tv .cur)), cond := whileBelowT, body := expectedFnBody d,
      returnsPhi := true }

/-- all ten: the five public drivers (4-D/5-D: constants become constant functions, the same loop), and the three
    constant-parameter drivers -/
def expectedAll : List ProgramR :=
  (List.range 5).map (fun d => expected (d + 1) false) ++ (List.range 3).map (fun d => expected (d + 1) true)

/-! #### semantics -/
structure PSem (σ : Type) where
  inject : Rat → Rat → List Bool → List Bool → σ → σ      -- dt θ0 frozen nomut
  kernel : Nat → AxisParams → Rat → σ → σ                  -- axis, parameters, dt

structure PEnv where
  tf : Rat
  T : Rat
  t0 : Rat
  pf : Param → Rat → Rat
  frozen : Nat → Bool
  nomut : Nat → Bool

structure PSt (σ : Type) where
  cur : Rat
  next : Rat
  dt : Option Rat            -- none = +∞ (`numpy.inf`)
  thisDt : Rat
  vals : Param → Rat
  phi : σ

def optAdd : Option Rat → Option Rat → Option Rat
  | some x, some y => some (x + y)
  | _, _ => none
def optSub : Option Rat → Option Rat → Option Rat
  | some x, some y => some (x - y)
  | _, _ => none

def evalT {σ : Type} (E : PEnv) (s : PSt σ) : TExp → Option Rat
  | .tv .cur => some s.cur
  | .tv .next => some s.next
  | .tv .init => some E.t0
  | .dtv .dt => s.dt
  | .dtv .thisDt => some s.thisDt
  | .tEnd => some E.T
  | .add a b => optAdd (evalT E s a) (evalT E s b)
  | .sub a b => optSub (evalT E s a) (evalT E s b)
  | .other _ => some 0

def evalArg {σ : Type} (E : PEnv) (s : PSt σ) : Arg → Rat
  | .slot p => s.vals p
  | .lit n => (n : Rat)
  | .dtv v => (evalT E s (.dtv v)).getD 0
  | .tEnd => E.T
  | .tInit => E.t0
  | _ => 0

def evalFlag (E : PEnv) : Arg → Bool
  | .flag (.frozen k) => E.frozen k
  | .flag (.nomut k) => E.nomut k
  | _ => false

def condHolds {σ : Type} (E : PEnv) (s : PSt σ) (c : LoopCond) : Bool :=
  match evalT E s c.lhs, evalT E s c.rhs with
  | some a, some b =>
    (match c.op with
     | .lt => decide (a < b)
     | .le => decide (a ≤ b)
     | .gt => decide (b < a)
     | .ge => decide (b ≤ a)
     | .ne => a != b)
  | _, _ => false

def exec {σ : Type} (sem : PSem σ) (E : PEnv) (s : PSt σ) : StmtR → PSt σ
  | .computeDt calls =>
      { s with dt := (calls.map fun c => Gen.Py.computeDt E.tf (evalArg E s c.nu) (sumL (c.ms.map (evalArg E s)))
                        (evalArg E s c.gamma) (evalArg E s c.h)).foldl optMin none }
  | .capDt args => { s with thisDt := ((args.map (evalT E s)).foldl optMin none).getD 0 }
  | .setNext e => { s with next := (evalT E s e).getD 0 }
  | .eval p t => { s with vals := fun q => if q = p then E.pf p ((evalT E s t).getD 0) else s.vals q }
  | .check _ _ => s
  | .inject i =>
      { s with phi := sem.inject (evalArg E s i.dt) (evalArg E s i.theta0) (i.frozen.map (evalFlag E)) (i.nomut.map (evalFlag E)) s.phi }
  | .kernel k =>
      if (k.guard.map (evalFlag E)).getD false then s
      else { s with phi := sem.kernel k.ax
                      { nu := evalArg E s k.nu, gamma := evalArg E s k.gamma, h := evalArg E s k.h,
                        ms := k.ms.map (fun e => evalArg E s e.1), beta := k.beta.map (evalArg E s) }
                      (evalArg E s k.dt) s.phi }
  | .advance e => { s with cur := (evalT E s e).getD 0 }
  | .bad _ => s

def runLoop {σ : Type} (sem : PSem σ) (E : PEnv) (cond : LoopCond) (body : List StmtR) : Nat → PSt σ → PSt σ
  | 0, s => s
  | fuel + 1, s => if condHolds E s cond then runLoop sem E cond body fuel (body.foldl (exec sem E) s) else s

/-- run a driver program from `current_t = initial_t`; `vals0` are the values the slots hold on entry (the constants of a
    constant-parameter driver; irrelevant for the time-dependent ones, which evaluate before they read) -/
def run {σ : Type} (sem : PSem σ) (E : PEnv) (P : ProgramR) (fuel : Nat) (vals0 : Param → Rat) (φ : σ) : σ :=
  (runLoop sem E P.cond P.body fuel (P.prologue.foldl (exec sem E) ⟨E.t0, E.t0, none, 0, vals0, φ⟩)).phi

/-- the parameter set of the model read off the slots -/
def toStep (d : Nat) (v : Param → Rat) : StepParams :=
  { pops := (List.range d).map fun k =>
      { nu := v (.nu k), gamma := v (.gamma k), h := v (.h k), ms := (others d k).map fun l => v (.m k l) },
    theta0 := v .theta0, beta := if d = 1 then some (v .beta) else none }

def frList (d : Nat) (E : PEnv) : List Bool := if d = 1 then [] else (List.range d).map E.frozen
def nmList (d : Nat) (E : PEnv) : List Bool := if d = 2 then (List.range d).map E.nomut else []

/-- one full time step over an abstract kernel semantics: inject, then every non-frozen axis in order -/
def sweepOf {σ : Type} (sem : PSem σ) (d : Nat) (fr nm : List Bool) (P : StepParams) (dt : Rat) (φ : σ) : σ :=
  (List.range d).foldl (fun acc k =>
      if fr.getD k false then acc
      else match P.pops[k]? with
        | some p => sem.kernel k (p.axis P.beta) dt acc
        | none => acc)
    (sem.inject dt P.theta0 fr nm φ)

def semFn (grids : List (Array Rat)) (use : Bool) (eps : Nat → List Nat → Nat → Rat) : PSem (List Nat → Rat) :=
  { inject := fun dt θ fr nm φ => injectFn grids fr nm dt θ φ,
    kernel := fun ax P dt φ => stepAxisFn grids ax P use (eps ax) dt φ }

def semND (grids : List (Array Rat)) (use : Bool) (eps : Nat → ND) : PSem ND :=
  { inject := fun dt θ fr nm T => DadiVerif.inject grids fr nm dt θ T,
    kernel := fun ax P dt T => stepAxis grids ax P use (eps ax) dt T }

/-! #### views of a resolved program (what each property needs of it) and the constant/time-dependent dispatch -/

/-- the schedule: time-step rule, clipping, next time, at which time every parameter is evaluated, which step variable the
    injection and every kernel get, how the loop advances; anything outside the language shows as `bad` -/
inductive SchedItem where
  | dtRule (calls : List DtCallR) | cap (args : List TExp) | next (e : TExp) | eval (p : Param) (t : TExp)
  | stepWith (what : String) (ax : Nat) (dt : Arg) | advance (e : TExp) | bad
deriving DecidableEq, Repr

def schedOf : StmtR → List SchedItem
  | .computeDt c => [.dtRule c]
  | .capDt a => [.cap a]
  | .setNext e => [.next e]
  | .eval p t => [.eval p t]
  | .check _ _ => []
  | .inject i => [.stepWith "inject" i.dim i.dt]
  | .kernel k => [.stepWith "kernel" k.ax k.dt]
  | .advance e => [.advance e]
  | .bad _ => [.bad]

structure SchedView where
  fn : String
  d : Nat
  const : Bool
  prologue : List SchedItem
  cond : LoopCond
  body : List SchedItem
deriving DecidableEq, Repr

def schedule (P : ProgramR) : SchedView :=
  ⟨P.fn, P.d, P.const, P.prologue.flatMap schedOf, P.cond, P.body.flatMap schedOf⟩

/-- flags and sizes: the injection call in full (which flag reaches which `frozen<k>`/`nomut<k>` of the callee), the guard, step
    variable and size argument of every kernel call, and the time at which every parameter is evaluated -/
inductive FlagItem where
  | inject (i : InjectR) | kernel (ax : Nat) (pre : Bool) (guard : Option Arg) (dt nu : Arg) | eval (p : Param) (t : TExp) | bad
deriving DecidableEq, Repr

def flagsOf : StmtR → List FlagItem
  | .inject i => [.inject i]
  | .kernel k => [.kernel k.ax k.pre k.guard k.dt k.nu]
  | .eval p t => [.eval p t]
  | .bad _ => [.bad]
  | _ => []

structure FlagView where
  fn : String
  d : Nat
  const : Bool
  prologue : List FlagItem
  body : List FlagItem
deriving DecidableEq, Repr

def flagView (P : ProgramR) : FlagView :=
  ⟨P.fn, P.d, P.const, P.prologue.flatMap flagsOf, P.body.flatMap flagsOf⟩

/-- `one_pop`/`two_pops`/`three_pops` hand over to the constant-parameter driver when every parameter is a scalar: `vars_to_check`
    is every parameter, and every parameter of the callee receives the caller's argument of the same meaning (bound by NAME against
    the callee's signature) -/
def dispatchOk (D : Dispatch) : Bool :=
  D.fn == driverName D.d false && D.callee == driverName D.d true
    && sortBy argRank D.vars == (paramList D.d).map .raw
    && match constSigs.lookup D.callee with
       | some sig =>
         (match bindArgs (sig.map Prod.fst) D.args with
          | some b => b.length == sig.length && sig.all (fun e => bound b e.1 == some e.2)
          | none => false)
       | none => false

end Prog

end DadiVerif
