import DadiVerif.Model.ND
import DadiVerif.Generated.FromPhi
/-
M9 — sampling a spectrum from φ (C05).  Exact-rational model of `Spectrum.from_phi`,
`Spectrum.from_phi_inbreeding` and `Numerics.BetaBinomConvolution`.

* every closed formula (slopes, `c1`, `c2`, entries, `betainc` arguments, clamps, scale factors of the linear-algebra
  versions, sampling factors, ascertainment multipliers, admixed frequencies, beta-binomial parameters, dispatch)
  is the *generated* one (`Gen.FromPhi`, read off the current source);
* `scipy.special.betainc(a, b, x)` for integer `a, b ≥ 1` is the parameter `betaI` (the binomial tail
  Σ_{j=a}^{a+b-1} C(a+b-1,j) x^j (1-x)^{a+b-1-j}); the harness checks scipy against it;
* `exp(BetaBinomln)` is the ratio of rising factorials `betaBinom`;
* all line operators are written pointwise over functions `Nat → Rat` (the theorems are about these); the
  `…Fast` variants tabulate them in arrays and are what the driver runs on larger inputs — Props/C05.lean proves the
  two agree entry by entry.
Core Lean only.
-/
namespace DadiVerif.FromPhi
open Gen.FromPhi

/-! ### binomial sampling probability and the incomplete beta function at integer arguments -/

/-- C(n,d) x^d (1-x)^(n-d) -/
def bern (n d : Nat) (x : Rat) : Rat := (choose n d : Rat) * x ^ d * (1 - x) ^ (n - d)

/-- `betainc(a, b, x)` for integers a, b ≥ 1: I_x(a,b) = P(Bin(a+b-1, x) ≥ a) -/
def betaI (a b : Nat) (x : Rat) : Rat := sumRange b fun t => bern (a + b - 1) (a + t) x

/-- numpy `trapz(f, x)` over N grid points -/
def trapz (N : Nat) (x f : Nat → Rat) : Rat :=
  sumRange (N - 1) fun k => (x (k+1) - x k) * (f (k+1) + f k) / 2

/-- `numpy.sum(half_dx * (integrand[1:]+integrand[:-1]))` of the 3-D direct function -/
def trapz3 (N : Nat) (x f : Nat → Rat) : Rat :=
  sumRange (N - 1) fun k => trapTerm3 (halfDx3 (x (k+1) - x k)) (f (k+1)) (f k)

/-- … of the 4-D direct function -/
def trapz4 (N : Nat) (x f : Nat → Rat) : Rat :=
  sumRange (N - 1) fun k => trapTerm4 (halfDx4 (x (k+1) - x k)) (f (k+1)) (f k)

/-- the integration used for axis `a` of the `dim`-dimensional direct function -/
def trapzAt (dim a : Nat) (N : Nat) (x f : Nat → Rat) : Rat :=
  if a = 0 ∧ dim = 3 then trapz3 N x f else if a = 0 ∧ dim = 4 then trapz4 N x f else trapz N x f

/-! ### 1-D semi-analytic path -/

/-- the copy of a grid array a statement reads: the clamped copy (`clamped = true`) or the array the caller passed.  Which one
    it is, per statement, is read off the source (`Gen.FromPhi.anGrid*`, `dbGrid*`, table `clampTable`). -/
def gridCopy (clamped : Bool) (cl : Rat → Rat) (x : Nat → Rat) : Nat → Rat :=
  fun k => if clamped then cl (x k) else x k

/-- one interval of `_from_phi_1D_analytic`, with the grid array each of its four statements reads: `xS` in the slope,
    `xC` in `c1`, `xB1` / `xB2` in the two `betainc` calls -/
def entry1Dt (n d : Nat) (xS xC xB1 xB2 φ : Nat → Rat) (k : Nat) : Rat :=
  let sk := s (φ k) (φ (k+1)) (xS k) (xS (k+1))
  entry (c1 (φ k) sk (xC k) n) (c2 sk d n)
    (betaI (beta1A d n).1 (beta1A d n).2 (xB1 (k+1))) (betaI (beta1A d n).1 (beta1A d n).2 (xB1 k))
    (betaI (beta2A d n).1 (beta2A d n).2 (xB2 (k+1))) (betaI (beta2A d n).1 (beta2A d n).2 (xB2 k))

/-- one interval of `_from_phi_1D_analytic` when every statement reads the same (clamped) grid -/
def entry1D (n d : Nat) (xc φ : Nat → Rat) (k : Nat) : Rat := entry1Dt n d xc xc xc xc φ k

/-- `_from_phi_1D_analytic(n, xx, phi)[d]`, N grid points: every statement reads the copy of the grid the source makes it read -/
def fromPhi1D (n N : Nat) (x φ : Nat → Rat) (d : Nat) : Rat :=
  sumRange (N - 1) (entry1Dt n d (gridCopy anGridS clamp x) (gridCopy anGridC1 clamp x)
    (gridCopy anGridB1 clamp x) (gridCopy anGridB2 clamp x) φ)

/-! ### `cached_dbeta` and one stage of the linear-algebra versions -/

def dbeta1 (n : Nat) (x : Nat → Rat) (d k : Nat) : Rat :=
  dbDiff (betaI (db1A d n).1 (db1A d n).2 (gridCopy dbGridB1 dbClamp x (k+1)))
    (betaI (db1A d n).1 (db1A d n).2 (gridCopy dbGridB1 dbClamp x k))

def dbeta2 (n : Nat) (x : Nat → Rat) (d k : Nat) : Rat :=
  dbDiff (betaI (db2A d n).1 (db2A d n).2 (gridCopy dbGridB2 dbClamp x (k+1)))
    (betaI (db2A d n).1 (db2A d n).2 (gridCopy dbGridB2 dbClamp x k))

/-- axis `a` of `_from_phi_{2..5}D_linalg` on one line: `dot(dbeta1[d], c1) + dot(dbeta2[d], s) * scale`
    (slopes and `c1` from the caller's grid, `dbeta` from the clamped one) -/
def linalgLine (a n N : Nat) (x : Nat → Rat) (db1 db2 : Nat → Nat → Rat) (φ : Nat → Rat) (d : Nat) : Rat :=
  sumRange (N - 1) (fun k => db1 d k * linC1 a (φ k) (linS a (φ k) (φ (k+1)) (x k) (x (k+1))) (x k) n)
  + sumRange (N - 1) (fun k => db2 d k * linS a (φ k) (φ (k+1)) (x k) (x (k+1))) * linScale a d n

/-! ### direct (trapezoid) path -/

/-- sampling factor at a grid point, with the ascertainment multiplier if requested -/
def directWeight (dim a n : Nat) (het : Bool) (xk : Rat) (i : Nat) : Rat :=
  if het then directFactor dim a n i xk * hetFactor dim a xk else directFactor dim a n i xk

def directLine (dim a n N : Nat) (het : Bool) (x φ : Nat → Rat) (i : Nat) : Rat :=
  trapzAt dim a N x (fun k => directWeight dim a n het (x k) i * φ k)

/-! ### inbreeding path -/

/-- rising factorial a (a+1) … (a+k-1) -/
def rising (a : Rat) : Nat → Rat
  | 0 => 1
  | k+1 => rising a k * (a + (k : Rat))

/-- exp(`BetaBinomln(i, P, a, b)`) = C(P,i) · B(i+a, P-i+b) / B(a,b) for a, b > 0 -/
def betaBinom (P i : Nat) (a b : Rat) : Rat :=
  (choose P i : Rat) * rising a i * rising b (P - i) / rising (a + b) P

/-- `Numerics.part(x, n, lo, hi)`: non-decreasing vectors of length n, entries in lo..hi, summing to x
    (argument order: n first, for structural recursion) -/
def part : Nat → Nat → Nat → Nat → List (List Nat)
  | 0, x, _, _ => if x = 0 then [[]] else []
  | n+1, x, lo, hi =>
    if (n+1) * lo ≤ x ∧ x ≤ (n+1) * hi then
      (List.range' lo (hi + 1 - lo)).flatMap fun v =>
        if v ≤ x then (part n (x - v) v hi).map (v :: ·) else []
    else []

def listProd (l : List Rat) : Rat := l.foldl (· * ·) 1

/-- multinomial coefficient (Σ c)! / Π c! -/
def multinomial (cs : List Nat) : Nat := fact (cs.foldl (· + ·) 0) / (cs.map fact).foldl (· * ·) 1

/-- exp(Σ_p ln BB(p)·count_p + ln multinomial(counts)) for one partition -/
def convTerm (P : Nat) (bb : Nat → Rat) (prt : List Nat) : Rat :=
  (multinomial ((List.range (P+1)).map fun v => prt.count v) : Rat)
    * listProd ((List.range (P+1)).map fun v => bb v ^ prt.count v)

/-- `BetaBinomConvolution(i, nInd, alpha, beta, ploidy=P)` -/
def betaBinomConv (i nInd : Nat) (a b : Rat) (P : Nat) : Rat :=
  sumL ((part nInd i 0 P).map (convTerm P (fun v => betaBinom P v a b)))

/-- beta-binomial `alpha` at grid point k (first and last points patched as in the code) -/
def inbAlpha (dim a N : Nat) (x : Nat → Rat) (F : Rat) (k : Nat) : Rat :=
  if k + 1 = N then inbAlphaLast dim a F else if k = 0 then inbAlphaFirst dim a F else inbAlphaMid dim a (x k) F

def inbBeta (dim a N : Nat) (x : Nat → Rat) (F : Rat) (k : Nat) : Rat :=
  if k + 1 = N then inbBetaLast dim a F else if k = 0 then inbBetaFirst dim a F else inbBetaMid dim a (x k) F

/-- sampling factor of the inbreeding path at grid point k.  For `F = 0` on this axis (while another axis has F ≠ 0) the
    factor is the one the source returns for `F == 0` where it has such a branch (`inbZeroFHandled`); where it has none the
    pinned code divides by F (inf/nan, see notes/C05.md) and the model uses the F → 0 limit, binomial sampling — the harness
    compares this branch only when the implementation returns finite numbers. -/
def inbWeight (dim a n P N : Nat) (F : Rat) (het : Bool) (x : Nat → Rat) (k i : Nat) : Rat :=
  let base := if F = 0 then (if inbZeroFHandled dim a then inbZeroFactor dim a n i (x k) else directFactor dim a n i (x k))
              else betaBinomConv i (n / P) (inbAlpha dim a N x F k) (inbBeta dim a N x F k) P
  if het then base * inbHetFactor dim a (x k) else base

def inbLine (dim a n P N : Nat) (F : Rat) (het : Bool) (x φ : Nat → Rat) (i : Nat) : Rat :=
  trapzAt dim a N x (fun k => inbWeight dim a n P N F het x k i * φ k)

/-! ### d dimensions: one line operator per axis, last axis innermost (as the code) -/

structure LineOp where
  nOut : Nat
  nIn  : Nat
  app  : (Nat → Rat) → Nat → Rat

/-- result[i₁,…,i_d] = L₁(k₁ ↦ L₂(k₂ ↦ … L_d(φ[k₁,…,k_{d-1},·])(i_d) …)(i₂))(i₁) -/
def sampleND : List LineOp → (List Nat → Rat) → List Nat → Rat
  | [], φ, _ => φ []
  | op :: rest, φ, idx => op.app (fun k => sampleND rest (fun js => φ (k :: js)) idx.tail) (idx.headD 0)

/-- the hyperplane `T[k, …]` -/
def slice (T : ND) (k : Nat) : ND := ND.ofFn T.shape.tail fun js => T.get (k :: js)

/-- array version of `sampleND`: every intermediate array is tabulated once -/
def sampleFast : List LineOp → ND → ND
  | [], T => T
  | op :: rest, T =>
    let subs : Array ND := Array.ofFn (n := op.nIn) fun k => sampleFast rest (slice T k.val)
    ND.ofFn (op.nOut :: rest.map (·.nOut)) fun idx =>
      op.app (fun k => (subs.getD k ⟨[], #[]⟩).get idx.tail) (idx.headD 0)

/-! ### tables (what `cached_dbeta` and the `factor*_cache` dictionaries amount to) -/

def memoTab (R C : Nat) (f : Nat → Nat → Rat) : Array (Array Rat) :=
  Array.ofFn (n := R) fun i => Array.ofFn (n := C) fun k => f i.val k.val

/-- read the table inside its box, evaluate `f` outside -/
def tabGetF (t : Array (Array Rat)) (R C : Nat) (f : Nat → Nat → Rat) (i k : Nat) : Rat :=
  if i < R ∧ k < C then (t.getD i #[]).getD k 0 else f i k

/-- semi-analytic operator of axis `a` (d ≥ 2) -/
def analyticOp (a n N : Nat) (x : Nat → Rat) : LineOp :=
  { nOut := n + 1, nIn := N, app := linalgLine a n N x (dbeta1 n x) (dbeta2 n x) }

def analyticOpFast (a n N : Nat) (x : Nat → Rat) : LineOp :=
  let t1 := memoTab (n + 1) (N - 1) (dbeta1 n x)
  let t2 := memoTab (n + 1) (N - 1) (dbeta2 n x)
  { nOut := n + 1, nIn := N,
    app := linalgLine a n N x (tabGetF t1 (n + 1) (N - 1) (dbeta1 n x)) (tabGetF t2 (n + 1) (N - 1) (dbeta2 n x)) }

def directOp (dim a n N : Nat) (het : Bool) (x : Nat → Rat) : LineOp :=
  { nOut := n + 1, nIn := N, app := directLine dim a n N het x }

def directOpFast (dim a n N : Nat) (het : Bool) (x : Nat → Rat) : LineOp :=
  let w := fun i k => directWeight dim a n het (x k) i
  let t := memoTab (n + 1) N w
  { nOut := n + 1, nIn := N, app := fun φ i => trapzAt dim a N x (fun k => tabGetF t (n + 1) N w i k * φ k) }

def inbOp (dim a n P N : Nat) (F : Rat) (het : Bool) (x : Nat → Rat) : LineOp :=
  { nOut := n + 1, nIn := N, app := inbLine dim a n P N F het x }

def inbOpFast (dim a n P N : Nat) (F : Rat) (het : Bool) (x : Nat → Rat) : LineOp :=
  let w := fun i k => inbWeight dim a n P N F het x k i
  let t := memoTab (n + 1) N w
  { nOut := n + 1, nIn := N, app := fun φ i => trapzAt dim a N x (fun k => tabGetF t (n + 1) N w i k * φ k) }

/-- `_from_phi_1D_analytic` with the incomplete-beta values tabulated once per grid point -/
def fromPhi1DFast (n N : Nat) (x φ : Nat → Rat) : Array Rat :=
  let xS := gridCopy anGridS clamp x
  let xC := gridCopy anGridC1 clamp x
  let xB1 := gridCopy anGridB1 clamp x
  let xB2 := gridCopy anGridB2 clamp x
  let b1 := memoTab (n + 1) N fun d k => betaI (beta1A d n).1 (beta1A d n).2 (xB1 k)
  let b2 := memoTab (n + 1) N fun d k => betaI (beta2A d n).1 (beta2A d n).2 (xB2 k)
  let g1 := tabGetF b1 (n + 1) N fun d k => betaI (beta1A d n).1 (beta1A d n).2 (xB1 k)
  let g2 := tabGetF b2 (n + 1) N fun d k => betaI (beta2A d n).1 (beta2A d n).2 (xB2 k)
  Array.ofFn (n := dCount n) fun d => sumRange (N - 1) fun k =>
    let sk := s (φ k) (φ (k+1)) (xS k) (xS (k+1))
    entry (c1 (φ k) sk (xC k) n) (c2 sk d.val n) (g1 d.val (k+1)) (g1 d.val k) (g2 d.val (k+1)) (g2 d.val k)

/-! ### admixture-proportion path -/

/-- nested numpy `trapz`, last axis innermost -/
def trapzND : List (Nat × (Nat → Rat)) → (List Nat → Rat) → Rat
  | [], f => f []
  | (N, x) :: rest, f => trapz N x (fun k => trapzND rest (fun ks => f (k :: ks)))

/-- Π_r factor_r at the grid point `ks` for the entry `idx` -/
def admixWeight (dim : Nat) (ns : List Nat) (grids : List (Nat × (Nat → Rat))) (p : Nat → Nat → Rat)
    (idx ks : List Nat) : Rat :=
  let coord : Nat → Rat := fun b => (grids.getD b (0, fun _ => 0)).2 (ks.getD b 0)
  listProd ((List.range dim).map fun r => admixFactor dim r (ns.getD r 0) (idx.getD r 0) (admixX dim r p coord))

/-- `_from_phi_{2,3,4}D_admix_props(…)[idx]` -/
def admixND (dim : Nat) (ns : List Nat) (grids : List (Nat × (Nat → Rat))) (p : Nat → Nat → Rat)
    (φ : List Nat → Rat) (idx : List Nat) : Rat :=
  trapzND grids (fun ks => admixWeight dim ns grids p idx ks * φ ks)

/-! ### guards -/

/-- `numpy.allclose(a, b)` on one pair: |a - b| ≤ atol + rtol·|b| with the default tolerances -/
def allclose1 (a b : Rat) : Bool := decide (ratAbs (a - b) ≤ (1 : Rat) / 100000000 + (1 : Rat) / 100000 * ratAbs b)

/-- `len(xx) == len(yy) and np.allclose(xx, yy)` -/
def gridsClose (x y : Array Rat) : Bool :=
  x.size == y.size && (List.range x.size).all fun k => allclose1 (x.getD k 0) (y.getD k 0)

/-! ### the public entry points (dispatch generated from the source) -/

def gridFn (g : Array Rat) : Nat → Rat := fun k => g.getD k 0

def propsFn (p : Option ND) (_dim : Nat) : Nat → Nat → Rat :=
  match p with
  | some M => fun i j => M.get [i, j]
  | none => fun i j => if i = j then 1 else 0      -- `if admix_props is None:` default of the 3-D/4-D functions

/-- one semi-analytic operator per axis (pointwise definition / tabulated version run by the driver) -/
def linalgOps (ns : List Nat) (grids : List (Array Rat)) : List LineOp :=
  (List.range grids.length).map fun a => analyticOp a (ns.getD a 0) (grids.getD a #[]).size (gridFn (grids.getD a #[]))

def linalgOpsFast (ns : List Nat) (grids : List (Array Rat)) : List LineOp :=
  (List.range grids.length).map fun a => analyticOpFast a (ns.getD a 0) (grids.getD a #[]).size (gridFn (grids.getD a #[]))

/-- one direct (trapezoid) operator per axis; `het` switches the ascertainment multiplier on for the axis it names -/
def directOps (het : String) (ns : List Nat) (grids : List (Array Rat)) : List LineOp :=
  (List.range grids.length).map fun a =>
    directOp grids.length a (ns.getD a 0) (grids.getD a #[]).size (het == hetKey grids.length a) (gridFn (grids.getD a #[]))

def directOpsFast (het : String) (ns : List Nat) (grids : List (Array Rat)) : List LineOp :=
  (List.range grids.length).map fun a =>
    directOpFast grids.length a (ns.getD a 0) (grids.getD a #[]).size (het == hetKey grids.length a) (gridFn (grids.getD a #[]))

/-- one inbreeding operator per axis (`Fs` already clamped) -/
def inbOps (het : String) (ns : List Nat) (grids : List (Array Rat)) (Fs : List Rat) (ploidys : List Nat) : List LineOp :=
  (List.range grids.length).map fun a =>
    inbOp grids.length a (ns.getD a 0) (ploidys.getD a 1) (grids.getD a #[]).size (inbFClamp (Fs.getD a 0))
      (het == inbHetKey grids.length a) (gridFn (grids.getD a #[]))

def inbOpsFast (het : String) (ns : List Nat) (grids : List (Array Rat)) (Fs : List Rat) (ploidys : List Nat) : List LineOp :=
  (List.range grids.length).map fun a =>
    inbOpFast grids.length a (ns.getD a 0) (ploidys.getD a 1) (grids.getD a #[]).size (inbFClamp (Fs.getD a 0))
      (het == inbHetKey grids.length a) (gridFn (grids.getD a #[]))

/-- the private integration functions by name -/
def runPath (fname : String) (het : String) (ns : List Nat) (grids : List (Array Rat)) (p : Option ND) (T : ND) :
    Except String ND :=
  let d := grids.length
  let nOf := fun a => ns.getD a 0
  let gOf := fun a => grids.getD a #[]
  let linalg : Unit → Except String ND := fun _ =>
    if !(gridsClose (gOf 0) (gOf 1)) then .error "ValueError:grids-differ"
    else .ok (sampleFast (linalgOpsFast ns grids) T)
  let direct : Unit → Except String ND := fun _ =>
    .ok (sampleFast (directOpsFast het ns grids) T)
  let admix : Unit → Except String ND := fun _ =>
    .ok (ND.ofFn (ns.map (· + 1))
      (admixND d ns (grids.map fun g => (g.size, gridFn g)) (propsFn p d) T.get))
  if ns.length ≠ d ∨ T.shape ≠ grids.map (·.size) then .error "shape"
  else if fname == "_from_phi_1D_analytic" ∧ d = 1 then
    .ok ⟨[dCount (nOf 0)], fromPhi1DFast (nOf 0) (gOf 0).size (gridFn (gOf 0)) (fun k => T.get [k])⟩
  else if fname == "_from_phi_1D_direct" ∧ d = 1 then direct ()
  else if fname == "_from_phi_2D_linalg" ∧ d = 2 then linalg ()
  else if fname == "_from_phi_3D_linalg" ∧ d = 3 then linalg ()
  else if fname == "_from_phi_4D_linalg" ∧ d = 4 then linalg ()
  else if fname == "_from_phi_5D_linalg" ∧ d = 5 then linalg ()
  else if fname == "_from_phi_2D_direct" ∧ d = 2 then direct ()
  else if fname == "_from_phi_3D_direct" ∧ d = 3 then direct ()
  else if fname == "_from_phi_4D_direct" ∧ d = 4 then direct ()
  else if fname == "_from_phi_2D_admix_props" ∧ d = 2 then admix ()
  else if fname == "_from_phi_3D_admix_props" ∧ d = 3 then admix ()
  else if fname == "_from_phi_4D_admix_props" ∧ d = 4 then admix ()
  else .error "unknown-function"

/-- `numpy.allclose(numpy.sum(admix_props, axis=1), 1)` -/
def admixRowsOk (M : ND) : Bool :=
  match M.shape with
  | [r, c] => (List.range r).all fun i => allclose1 (sumRange c fun j => M.get [i, j]) 1
  | _ => false

/-- guards of `from_phi` in source order; `none` = all passed -/
def fromPhiGuards (het : String) (ndim nns ngrids : Nat) (p : Option ND) : Option String :=
  if p.isSome ∧ !(admixRowsOk (p.getD ⟨[], #[]⟩)) then some "ValueError:admix-rows"
  else if ¬ (ndim = nns ∧ nns = ngrids) then some "ValueError:dims"
  else if het ≠ "" ∧ ¬ (het = "xx" ∨ het = "yy" ∨ het = "zz") then some "ValueError:het"
  else if p.isSome ∧ het ≠ "" then some "NotImplementedError"
  else none

/-- `Spectrum.from_phi`: (function that integrated, `extrap_x`, data) -/
def fromPhi (het : String) (force : Bool) (ns : List Nat) (grids : List (Array Rat)) (p : Option ND) (T : ND) :
    Except String (String × Rat × ND) :=
  match fromPhiGuards het T.shape.length ns.length grids.length p with
  | some e => .error e
  | none =>
    match dispatch T.shape.length (het ≠ "") p.isSome force with
    | .error e => .error e
    | .ok none => .error "UnboundLocalError"
    | .ok (some f) =>
      match runPath f het ns grids p T with
      | .error e => .error e
      | .ok R => .ok (f, (grids.getD 0 #[]).getD 1 0, R)

/-- `Spectrum.from_phi_inbreeding` after the delegation test: guards, `Fs` clamp, dispatch on `phi.ndim` -/
def fromPhiInbMain (het : String) (ns : List Nat) (grids : List (Array Rat)) (p : Option ND)
    (Fs : List Rat) (ploidys : List Nat) (T : ND) : Except String (String × Rat × ND) :=
    let d := T.shape.length
    if p.isSome ∧ !(admixRowsOk (p.getD ⟨[], #[]⟩)) then .error "ValueError:admix-rows"
    else if ¬ (d = ns.length ∧ ns.length = grids.length ∧ grids.length = Fs.length ∧ Fs.length = ploidys.length) then
      .error "ValueError:dims"
    else if het ≠ "" ∧ ¬ (het = "xx" ∨ het = "yy" ∨ het = "zz") then .error "ValueError:het"
    else if p.isSome ∧ het ≠ "" then .error "NotImplementedError"
    else match dispatchInb d with
      | .error e => .error e
      | .ok f =>
        if T.shape ≠ grids.map (·.size) then .error "shape"
        else if (List.range d).any (fun a => ploidys.getD a 0 = 0) then .error "ZeroDivisionError"
        else if (List.range d).any (fun a => ns.getD a 0 % ploidys.getD a 1 ≠ 0) then .error "ValueError:ploidy"
        else
          .ok (f, (grids.getD 0 #[]).getD 1 0, sampleFast (inbOpsFast het ns grids Fs ploidys) T)

/-- `Spectrum.from_phi_inbreeding`: when the delegation test read off the source (`Gen.FromPhi.inbDelegates`) holds the whole
    call is handed to `from_phi` with the same options, otherwise the inbreeding functions integrate -/
def fromPhiInb (het : String) (force : Bool) (ns : List Nat) (grids : List (Array Rat)) (p : Option ND)
    (Fs : List Rat) (ploidys : List Nat) (T : ND) : Except String (String × Rat × ND) :=
  if inbDelegates Fs then fromPhi het force ns grids p T
  else fromPhiInbMain het ns grids p Fs ploidys T

/-! ### `Spectrum.marginalize` (populations summed out of a sampled spectrum) -/

/-- `output.sum(axis=a)` pointwise; n = length of axis a -/
def sumAxisFn (n a : Nat) (f : List Nat → Rat) : List Nat → Rat :=
  fun idx => sumRange n fun i => f (idx.insertIdx a i)

/-- `output.sum(axis=a)` -/
def sumAxis (T : ND) (a : Nat) : ND :=
  ND.ofFn (T.shape.eraseIdx a) (sumAxisFn (T.shape.getD a 0) a T.get)

/-- `for axis in <order>: output = output.sum(axis=axis)` — every axis number refers to the array left by the previous sums;
    numpy refuses an axis ≥ ndim -/
def margLoop : List Nat → ND → Except String ND
  | [], T => .ok T
  | a :: as, T => if a < T.shape.length then margLoop as (sumAxis T a) else .error "AxisError"

/-- `for axis in <order>: del pop_ids[axis]` on the list of population positions -/
def delLoop : List Nat → List Nat → Except String (List Nat)
  | [], ids => .ok ids
  | a :: as, ids => if a < ids.length then delLoop as (ids.eraseIdx a) else .error "IndexError"

/-- `Spectrum.marginalize(over)` of an unfolded spectrum: (original positions of the populations left, data); the two
    iteration orders are the generated ones -/
def marginalize (over : List Nat) (T : ND) : Except String (List Nat × ND) :=
  match margLoop (margSumOrder over) T with
  | .error e => .error e
  | .ok R =>
    match delLoop (margIdsOrder over) (List.range T.shape.length) with
    | .error e => .error e
    | .ok ids => .ok (ids, R)

end DadiVerif.FromPhi
