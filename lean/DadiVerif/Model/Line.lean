import DadiVerif.Model.Tridiag
/-
M4 — one implicit step along one grid line, in "face" form.

Nodes 0..N-1, faces 0..N (face k lies between node k-1 and node k; faces 0 and N are the
closed ends).  `At k`, `Ct k` (1 ≤ k ≤ N-1) are the code's `atemp`, `ctemp` of interval
k-1:  flux through face k  =  At k · φ(k-1) − Ct k · φ(k).
`bc j` is the absorbing boundary term added to `b[0]` / `b[N-1]` (zero elsewhere and on
non-corner lines).  `a`, `b`, `c` below are *pointwise* exactly what `compute_abc_nobc`
accumulates (`a[ii+1] = -dfactor[ii+1]*atemp`, `b[ii] += dfactor[ii]*atemp`,
`b[ii+1] += dfactor[ii+1]*ctemp`, `c[ii] = -dfactor[ii]*ctemp`, `b[ii] = 1/dt` initially).
-/
namespace DadiVerif

structure Line where
  N   : Nat
  x   : Nat → Rat
  At  : Nat → Rat
  Ct  : Nat → Rat
  bc  : Nat → Rat
  dt  : Rat

namespace Line
variable (L : Line)

def dxL (j : Nat) : Rat := if j = 0 then 0 else L.x j - L.x (j-1)
def dxR (j : Nat) : Rat := if j + 1 < L.N then L.x (j+1) - L.x j else 0
/-- trapezoid weight of node j -/
def w (j : Nat) : Rat := (L.dxL j + L.dxR j) / 2
/-- `dfactor[j]` of `compute_dfactor` -/
def df (j : Nat) : Rat := 2 / (L.dxL j + L.dxR j)

def G (φ : Nat → Rat) (k : Nat) : Rat :=
  if 1 ≤ k ∧ k + 1 ≤ L.N then L.At k * φ (k-1) - L.Ct k * φ k else 0

def a (j : Nat) : Rat := if j = 0 then 0 else - L.df j * L.At j
def c (j : Nat) : Rat := if j + 1 < L.N then - L.df j * L.Ct (j+1) else 0
def b (j : Nat) : Rat := 1 / L.dt + (if j + 1 < L.N then L.df j * L.At (j+1) else 0)
                      + (if j = 0 then 0 else L.df j * L.Ct j) + L.bc j

def apply (φ : Nat → Rat) (j : Nat) : Rat := L.a j * φ (j-1) + L.b j * φ j + L.c j * φ (j+1)

/-- the tridiagonal system handed to `tridiag`: rows j = 0..N-1, right-hand side φ/dt -/
def rows (φ : Nat → Rat) : List Row :=
  (List.range L.N).map fun j => ⟨L.a j, L.b j, L.c j, φ j / L.dt⟩

/-- one implicit step along the line -/
def step (φ : Nat → Rat) : List Rat := thomas (L.rows φ)

end Line
end DadiVerif
