import DadiVerif.Model.Spectrum
import DadiVerif.Generated.Proj
/-
Exact model of `Numerics._cached_projection`, `Spectrum._project_one_axis`, `Spectrum.project`.

The weights are *evaluated from the generated log-space expression* `Gen.Proj.lncontrib`
(a signed list of `gammaln` terms read off the current source):  exp(gammaln a) = (a-1)! for an
integer a ≥ 1, and gammaln has a pole (+∞) at every integer a ≤ 0, so a pole in a subtracted term
gives exp(−∞) = 0 (this is how the code obtains the zeros outside the hypergeometric support) and a
pole in an added term gives +∞ / nan (`none`: the code raises or returns non-finite values).
Window bounds, guards and loop extents are the generated `least`, `most`, `shortCircuit`,
`oneAxisRefuses`, `upRefusedAt`, `doAxis`, `rowLen`, `zerosLen`, `hitsCount`, `newLen`.
Core Lean only (executed by the driver); the theorems are in Props/C08.lean.
-/
namespace DadiVerif
open Gen.Proj

def fact : Nat → Nat
  | 0 => 1
  | n+1 => (n+1) * fact n

/-- Γ(a) = (a−1)! for an integer a ≥ 1 -/
def gammaInt (a : Int) : Nat := fact (a - 1).toNat

/-- gammaln(a) = +∞ -/
def lgPole (t : LgTerm) : Bool := decide (t.arg ≤ 0)

/-- product of the Γ's of the added terms -/
def lgNum : List LgTerm → Nat
  | [] => 1
  | t :: ts => (if t.pos then gammaInt t.arg else 1) * lgNum ts

/-- product of the Γ's of the subtracted terms -/
def lgDen : List LgTerm → Nat
  | [] => 1
  | t :: ts => (if t.pos then 1 else gammaInt t.arg) * lgDen ts

/-- exact value of exp(Σ ± gammaln(arg)); `none` = the float computation is +∞ or nan -/
def expLnGamma (ts : List LgTerm) : Option Rat :=
  if ts.any (fun t => t.pos && lgPole t) then none
  else if ts.any (fun t => !t.pos && lgPole t) then some 0
  else some ((lgNum ts : Rat) / (lgDen ts : Rat))

/-- entry `j` of `_cached_projection(m, n, i)` on the log-space branch (m = proj_to, n = proj_from, i = hits) -/
def projWeight? (m n i j : Nat) : Option Rat := expLnGamma (lncontrib m n i j)

/-- the weight as a number (0 where the float computation would not be finite; never happens for i ≤ n, m ≤ n) -/
def projW (m n i j : Nat) : Rat := (projWeight? m n i j).getD 0

/-- `_cached_projection(m, n, i)`: the whole row (cache transparency is C20's business; a cache hit returns this row) -/
def cachedProjection (m n i : Nat) : Option (List Rat) :=
  if shortCircuit m n i then some (List.replicate (zerosLen m n i).toNat 0)
  else (List.range (rowLen m n i).toNat).mapM (projWeight? m n i)

/-- `least ≤ j ≤ most`: the slice `to_slice[axis] = slice(least, most+1)` contains j -/
def inWindow (m n i j : Nat) : Bool := decide (least m n i ≤ (j : Int)) && decide ((j : Int) ≤ most m n i)

/-- one line of `_project_one_axis` with an arbitrary weight function: entry j of the new line.
    `pfs.data[to] += self.data[from] * proj[window]` accumulated over `hits`. -/
def projLineW (w : Nat → Nat → Rat) (m n : Nat) (x : Nat → Rat) (j : Nat) : Rat :=
  sumL ((List.range (hitsCount n).toNat).map fun i => if inWindow m n i j then x i * w i j else 0)

/-- …with the code's weights -/
def projLineData (m n : Nat) (x : Nat → Rat) (j : Nat) : Rat := projLineW (projW m n) m n x j

/-- `pfs.mask[to] = logical_or(pfs.mask[to], self.mask[from])` accumulated over `hits` -/
def projLineMask (m n : Nat) (b : Nat → Bool) (j : Nat) : Bool :=
  (List.range (hitsCount n).toNat).any fun i => inWindow m n i j && b i

/-- all weights from n to m, computed once per axis (what the cache amounts to) -/
def weightTable (m n : Nat) : Array (Array Rat) :=
  Array.ofFn (n := n+1) fun i => Array.ofFn (n := m+1) fun j => projW m n i.val j.val

def tableW (tab : Array (Array Rat)) (i j : Nat) : Rat := (tab.getD i #[]).getD j 0

namespace Spec

/-- `_project_one_axis(m, ax)` after its guard: every line along `ax` is projected, data and mask -/
def projectAxis (S : Spec) (ax m : Nat) : Spec :=
  let n := S.shape.getD ax 1 - 1
  let tab := weightTable m n
  Spec.ofFn (S.shape.set ax (newLen m).toNat)
    (fun idx => projLineW (tableW tab) m n (fun i => S.getD (idx.set ax i)) (idx.getD ax 0))
    (fun idx => projLineMask m n (fun i => S.getM (idx.set ax i)) (idx.getD ax 0))
    false

/-- `_project_one_axis(m, ax)` -/
def projectOneAxis (S : Spec) (m ax : Nat) : Except String Spec :=
  if ax ≥ S.shape.length then .error "axis"
  else if oneAxisRefuses m (S.shape.getD ax 1 - 1 : Nat) then .error "up"
  else .ok (S.projectAxis ax m)

/-- the per-axis loop of `project`, run over the *generated* description of the loop: `axisVisits` (the tuples of the
    loop header in visiting order), `visitDoes` (the test, loop targets bound to the tuple), `visitCall` = the
    `(n, axis)` handed to `_project_one_axis`.  Which target size meets which axis, and in which order, is therefore read
    off the source (`Lemmas/ProjArray.lean: projectAxes_eq_range` shows it is "axis k gets ns[k], k = 0, 1, …"). -/
def projectAxes (S : Spec) (ns sizes : List Nat) : Spec :=
  (axisVisits sizes.length ns).foldl
    (fun o t => if visitDoes ns sizes t then o.projectAxis (visitCall ns sizes t).2 (visitCall ns sizes t).1 else o) S

/-- `Spectrum.project(ns)` -/
def project (S : Spec) (ns : List Nat) : Except String Spec :=
  let sizes := S.sampleSizes
  if ns.length ≠ S.shape.length then .error "dim"
  else if (List.zipWith (fun (a b : Nat) => upRefusedAt a b) ns sizes).any id then .error "up"
  else
    let out := projectAxes (if S.folded then S.unfold else S) ns sizes
    .ok (if S.folded then out.fold else out)

end Spec
end DadiVerif
