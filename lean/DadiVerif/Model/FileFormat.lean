/- C14 — executable model of dadi's text file formats and of the pickle reduce/rebuild pair (core Lean only).

   Text is `Str = List Char`.  Numbers are OPAQUE tokens (non-empty, whitespace-free strings): the pair
   `'%.{p}g' % x` / `strtod` is a trusted parameter that harness/c14.py checks numerically; everything else of
   `Spectrum.to_file` / `Spectrum.from_file` / `Numerics.array_to_file` / `Numerics.array_from_file` is modelled:
   comment lines, `str.strip`, `str.split()` (Python's whitespace class), the shape / `folded|unfolded` / quoted-label
   header, `line.split('"')[1::2]`, the data and mask lines, the pre-1.3 format (no flag word, no mask line), universal
   newlines, `readline`, and the part of `Spectrum.__new__` that the readers and the unpickler use (label count check,
   `mask_corners`).

   The WRITERS (`to_file`, `array_to_file`), the READERS (`from_file`, `array_from_file`), the gzip/plain open dispatch and
   the pickle reduce tuple / unpickler call are not written here: they are regenerated from the current source into
   Generated/FileIO.lean (tools/gen_FileIO.py) in terms of the primitives below (`fmtI`, `fmtD`, `strip`, `savetxtRow`,
   `tofileSep`, `readline`, `whileStartsWith`, `whileNotInAppendInt`, `fromstring`, `reshape`, `construct`, `get*`).
   `fromFileSpec` / `arrayFromFileSpec` below are hand-written NORMAL FORMS of the readers; Props/C14.lean proves the
   generated readers equal to them. -/
namespace DadiVerif.FileFormat

abbrev Str := List Char

/-! ## characters -/

/-- the code points for which Python's `str.isspace()` is true (checked against the interpreter over all of Unicode by
    the harness, op `c14.ws`) -/
def wsCodes : List Nat :=
  [9, 10, 11, 12, 13, 28, 29, 30, 31, 32, 133, 160, 5760, 8192, 8193, 8194, 8195, 8196, 8197, 8198, 8199, 8200,
   8201, 8202, 8232, 8233, 8239, 8287, 12288]

def isWs (c : Char) : Bool := wsCodes.contains c.toNat

def NL : Char := Char.ofNat 10
def CR : Char := Char.ofNat 13
def SP : Char := Char.ofNat 32
def QUOTE : Char := Char.ofNat 34
def HASH : Char := Char.ofNat 35
def PLUS : Char := Char.ofNat 43

/-! ## Python string primitives -/

/-- `s.split()`: split on runs of whitespace, no empty tokens -/
def splitAux : Str → Str → List Str
  | [], cur => if cur = [] then [] else [cur.reverse]
  | c :: cs, cur =>
    if isWs c then (if cur = [] then splitAux cs [] else cur.reverse :: splitAux cs [])
    else splitAux cs (c :: cur)

def splitWs (s : Str) : List Str := splitAux s []

/-- `sep.join(toks)` for a one-character separator -/
def joinWith (sep : Char) : List Str → Str
  | [] => []
  | [t] => t
  | t :: ts => t ++ sep :: joinWith sep ts

/-- `s.split(sep)` for a one-character separator: keeps empty pieces -/
def splitOnAux (sep : Char) : Str → Str → List Str
  | [], cur => [cur.reverse]
  | c :: cs, cur => if c = sep then cur.reverse :: splitOnAux sep cs [] else splitOnAux sep cs (c :: cur)

def splitOnC (sep : Char) (s : Str) : List Str := splitOnAux sep s []

/-- `l[1::2]` -/
def odds {α : Type} : List α → List α
  | [] => []
  | [_] => []
  | _ :: b :: r => b :: odds r

def lstrip (s : Str) : Str := s.dropWhile isWs
/-- `s.strip()` -/
def strip (s : Str) : Str := ((lstrip s).reverse.dropWhile isWs).reverse

/-- what a text-mode file object hands out: `\r\n` and lone `\r` become `\n` (universal newlines) -/
def univNLAux : Bool → Str → Str
  | _, [] => []
  | afterCR, c :: cs =>
    if c = CR then NL :: univNLAux true cs
    else if c = NL && afterCR then univNLAux false cs
    else c :: univNLAux false cs

def univNL (s : Str) : Str := univNLAux false s

/-- successive `readline()` results (terminators kept, as Python does) -/
def linesAux : Str → Str → List Str
  | [], cur => if cur = [] then [] else [cur.reverse]
  | c :: cs, cur => if c = NL then (c :: cur).reverse :: linesAux cs [] else linesAux cs (c :: cur)

def linesOf (s : Str) : List Str := linesAux s []

/-! ## integers: `'%i' % n` and `int(tok)` -/

def digitChar (d : Nat) : Char := Char.ofNat (48 + d)

/-- `'%i' % n` for a non-negative integer; `fuel` ≥ number of digits (structural recursion, so that closed instances
    evaluate in the kernel) -/
def fmtIAux : Nat → Nat → Str
  | 0, n => [digitChar (n % 10)]
  | fuel + 1, n => if n < 10 then [digitChar n] else fmtIAux fuel (n / 10) ++ [digitChar (n % 10)]

def fmtI (n : Nat) : Str := fmtIAux n n

def digitVal (c : Char) : Option Nat :=
  if 48 ≤ c.toNat ∧ c.toNat ≤ 57 then some (c.toNat - 48) else none

def parseDigits : Str → Nat → Option Nat
  | [], acc => some acc
  | c :: cs, acc =>
    match digitVal c with
    | some d => parseDigits cs (acc * 10 + d)
    | none => none

/-- `int(tok)` restricted to `[+]digits` (ASCII).  Python accepts more (underscores, other Unicode digits, a minus sign —
    a negative dimension is meaningless); those are rejected here and not exercised. -/
def parseInt (s : Str) : Option Nat :=
  match s with
  | [] => none
  | c :: r => if c = PLUS then (if r = [] then none else parseDigits r 0) else parseDigits s 0

/-- `'%d'` of a mask entry converted with `numpy.asarray(mask, int)` -/
def fmtD (b : Bool) : Str := [digitChar (if b then 1 else 0)]

/-- a mask token read back: the reader converts to float and `masked_array` takes non-zero as True.  Only the two tokens
    the writer produces are modelled; anything else is refused (not exercised). -/
def parseBit (t : Str) : Option Bool :=
  if t = [digitChar 0] then some false else if t = [digitChar 1] then some true else none

/-- `numpy.savetxt(fid, [row], delimiter=' ', fmt=…)` with already formatted entries: one line -/
def savetxtRow (toks : List Str) : Str := joinWith SP toks ++ [NL]
/-- `ndarray.tofile(fid, ' ', fmt)` with already formatted entries: no terminator -/
def tofileSep (toks : List Str) : Str := joinWith SP toks
/-- `os.linesep` on the platform the check runs on (POSIX) -/
def linesep : Str := [NL]

def FOLDED : Str := ['f', 'o', 'l', 'd', 'e', 'd']
def UNFOLDED : Str := ['u', 'n', 'f', 'o', 'l', 'd', 'e', 'd']
def NANTOK : Str := ['n', 'a', 'n']

def prodL : List Nat → Nat
  | [] => 1
  | d :: ds => d * prodL ds

/-! ## the Spectrum object as far as I/O is concerned -/

structure Spec where
  shape : List Nat
  data : List Str          -- formatted entries, C order
  mask : List Bool
  folded : Bool
  popIds : Option (List Str)
  extrapX : Option Str
deriving DecidableEq, Repr

/-- dynamically typed Python values that travel through the reduce tuple / the constructor call -/
inductive PyVal where
  | none
  | bool (b : Bool)
  | arr (shape : List Nat) (toks : List Str)
  | marr (bits : List Bool)
  | strs (l : List Str)
  | num (t : Str)
deriving DecidableEq, Repr

def getData (fs : Spec) : PyVal := .arr fs.shape fs.data
def getMask (fs : Spec) : PyVal := .marr fs.mask
def getFolded (fs : Spec) : PyVal := .bool fs.folded
/-- `None` or a list of labels -/
def labelsVal (p : Option (List Str)) : PyVal := match p with | Option.none => .none | some l => .strs l
/-- `None` or a number -/
def numVal (x : Option Str) : PyVal := match x with | Option.none => .none | some t => .num t
def getPopIds (fs : Spec) : PyVal := labelsVal fs.popIds
def getExtrapX (fs : Spec) : PyVal := numVal fs.extrapX

/-- `Spectrum.mask_corners`: `mask.flat[0] = mask.flat[-1] = True` -/
def maskCorners (m : List Bool) : List Bool := (m.set 0 true).set (m.length - 1) true

/-- `Spectrum.__new__(data, mask, mask_corners, data_folded, check_folding, pop_ids=…, extrap_x=…)` for a plain array
    `data` (the only case the readers and the unpickler produce).  `check_folding` only controls warnings.
    `none` = the call raises (wrong label count, shapes that do not match, wrong argument types). -/
def construct (data mask maskCornersArg dataFolded checkFolding popIds extrapX : PyVal) : Option Spec :=
  match data, maskCornersArg, checkFolding with
  | .arr shape toks, .bool mc, .bool _ =>
    if toks.length ≠ prodL shape then Option.none else
    let m? : Option (List Bool) := match mask with
      | .none => some (List.replicate toks.length false)
      | .marr bits => if bits.length = toks.length then some bits else Option.none
      | _ => Option.none
    let f? : Option Bool := match dataFolded with
      | .none => some false
      | .bool b => some b
      | _ => Option.none
    let p? : Option (Option (List Str)) := match popIds with
      | .none => some Option.none
      | .strs l => if l.length = shape.length then some (some l) else Option.none
      | _ => Option.none
    let x? : Option (Option Str) := match extrapX with
      | .none => some Option.none
      | .num t => some (some t)
      | _ => Option.none
    match m?, f?, p?, x? with
    | some m, some f, some p, some x =>
      some { shape := shape, data := toks, mask := if mc then maskCorners m else m, folded := f, popIds := p, extrapX := x }
    | _, _, _, _ => Option.none
  | _, _, _ => Option.none

/-! ## readers -/

def startsHash (l : Str) : Bool := match l with | c :: _ => c == HASH | [] => false

/-- `comments.append(line[1:].strip())` -/
def commentOf (l : Str) : Str := strip (l.drop 1)

/-- the `while shape_spl[next_ii] not in ['folded','unfolded']` loop (after the unconditional `int(shape_spl[0])`):
    dims, the flag, and the tokens after the flag.  Running off the end is the code's IndexError. -/
def scanDims : List Str → Option (List Nat × Bool × List Str)
  | [] => Option.none
  | t :: ts =>
    if t = FOLDED then some ([], true, ts)
    else if t = UNFOLDED then some ([], false, ts)
    else match parseInt t, scanDims ts with
      | some d, some (ds, f, r) => some (d :: ds, f, r)
      | _, _ => Option.none

/-- header line of `Spectrum.from_file` (the line still carries its `\n`): shape, folded, labels -/
def parseHeader (line : Str) : Option (List Nat × Bool × Option (List Str)) :=
  let toks := splitWs line
  if !(toks.contains FOLDED) && !(toks.contains UNFOLDED) then
    -- old (pre-1.3) format
    match toks.mapM parseInt with
    | some shape => some (shape, false, Option.none)
    | Option.none => Option.none
  else
    match toks with
    | [] => Option.none
    | t0 :: ts =>
      match parseInt t0, scanDims ts with
      | some d0, some (ds, f, after) =>
        some (d0 :: ds, f, if after.isEmpty then Option.none else some (odds (splitOnC QUOTE line)))
      | _, _ => Option.none

/-- `numpy.fromstring(line.strip(), count=prod(shape), sep=' ')` on opaque tokens.  With fewer than `count` tokens numpy
    returns an array whose tail is uninitialised; the model refuses such input (not exercised by the round trip). -/
def readCount (count : Nat) (toks : List Str) : Option (List Str) :=
  if toks.length < count then Option.none else some (toks.take count)

def lineAt (ls : List Str) (i : Nat) : Str := (ls.drop i).headD []

/-- the mask line of `from_file` as the constructor's `mask=` argument: an empty line = no mask (old format) -/
def maskOfLine (count : Nat) (mtoks : List Str) : Option PyVal :=
  if mtoks = [] then some .none
  else match readCount count mtoks with
    | Option.none => Option.none
    | some ts => (ts.mapM parseBit).map PyVal.marr

/-- `Spectrum.from_file(fname, mask_corners, return_comments=True)` on the text of the file
    (hand-written normal form; the driver runs the TRANSLATED `Gen.FileIO.fromFile`, proved equal in Lemmas/FileReaders.lean) -/
def fromFileSpec (mc : Bool) (text : Str) : Option (Spec × List Str) :=
  let ls := linesOf (univNL text)
  let comments := (ls.takeWhile startsHash).map commentOf
  let rest := ls.dropWhile startsHash
  match parseHeader (lineAt rest 0) with
  | Option.none => Option.none
  | some (shape, folded, labels) =>
    if shape = [] then Option.none else     -- numpy.prod(()) is a float: `count=1.0` raises TypeError
    match readCount (prodL shape) (splitWs (lineAt rest 1)) with
    | Option.none => Option.none
    | some data =>
      match maskOfLine (prodL shape) (splitWs (lineAt rest 2)) with
      | Option.none => Option.none
      | some mask =>
        match construct (.arr shape data) mask (.bool mc) (.bool folded) (.bool true)
                (labelsVal labels) .none with
        | Option.none => Option.none
        | some fs => some (fs, comments)

/-- `Numerics.array_from_file(fname, return_comments=True)`: (shape, entries), comments.  `numpy.fromfile(fid, count, sep=' ')`
    reads on across line ends; fewer than `count` entries make the `reshape` raise.
    (hand-written normal form; the driver runs the TRANSLATED `Gen.FileIO.arrayFromFile`, proved equal in Lemmas/FileReaders.lean) -/
def arrayFromFileSpec (text : Str) : Option ((List Nat × List Str) × List Str) :=
  let ls := linesOf (univNL text)
  let comments := (ls.takeWhile startsHash).map commentOf
  let rest := ls.dropWhile startsHash
  match (splitWs (lineAt rest 0)).mapM parseInt with
  | Option.none => Option.none
  | some shape =>
    if shape = [] then Option.none else     -- `count=numpy.prod(())` is a float: TypeError
    let toks := splitWs ((rest.drop 1).flatten)
    if toks.length < prodL shape then Option.none
    else some ((shape, toks.take (prodL shape)), comments)

/-! ## what the TRANSLATED readers are made of

   `tools/gen_FileIO.py` translates the bodies of `Spectrum.from_file` and `Numerics.array_from_file` statement by statement
   into `Gen.FileIO.fromFile` / `Gen.FileIO.arrayFromFile` (Generated/FileIO.lean) in terms of the primitives below: a text-mode
   file object, `readline`, the two `while` loops, `numpy.fromstring` / `numpy.fromfile` / `reshape` on opaque tokens, the
   conversion of constructor arguments.  `fromFileSpec` / `arrayFromFileSpec` above are the hand-written normal forms of the same
   functions; Lemmas/FileReaders.lean proves the generated terms equal to them. -/

/-- a text-mode file object: the lines not yet handed out (universal newlines already applied) -/
abbrev Fid := List Str

/-- `open(fname, 'r')` / `gzip.open(fname, 'rt')` on the text of the file -/
def openText (text : Str) : Fid := linesOf (univNL text)

/-- `fid.readline()`: the next line with its terminator; `''` at end of file -/
def readline : Fid → Str × Fid
  | [] => ([], [])
  | l :: r => (l, r)

/-- `s.startswith(p)` -/
def startsWith (p s : Str) : Bool := p.isPrefixOf s
/-- `s.endswith(suf)` -/
def endsWith (suf s : Str) : Bool := suf.isSuffixOf s

/-- `s.rstrip()` -/
def rstrip (s : Str) : Str := (s.reverse.dropWhile isWs).reverse
/-- `s.lstrip(chars)` -/
def lstripChars (cs s : Str) : Str := s.dropWhile cs.contains
/-- `s.rstrip(chars)` -/
def rstripChars (cs s : Str) : Str := (s.reverse.dropWhile cs.contains).reverse
/-- `s.strip(chars)` -/
def stripChars (cs s : Str) : Str := rstripChars cs (lstripChars cs s)

/-- `l[i]` for `i ≥ 0`; `none` = IndexError -/
def idx {α : Type} (l : List α) (i : Nat) : Option α := l[i]?

/-- `while line.startswith(p): comments.append(f(line)); line = fid.readline()` — state (comments, line, fid).
    At end of file `readline` returns `''`, which starts with no non-empty `p` (the translator refuses an empty `p`). -/
def whileStartsWith (p : Str) (f : Str → Str) : List Str → Str → Fid → List Str × Str × Fid
  | cs, line, [] => if startsWith p line then (cs ++ [f line], [], []) else (cs, line, [])
  | cs, line, l :: r => if startsWith p line then whileStartsWith p f (cs ++ [f line]) l r else (cs, line, l :: r)

/-- `while toks[i] not in stops: acc.append(int(toks[i])); i += 1` on the tokens from position `i` on — state (acc, i);
    `none` = IndexError (ran off the end) or ValueError (`int`) -/
def scanInts (stops : List Str) : List Str → List Nat → Nat → Option (List Nat × Nat)
  | [], _, _ => Option.none
  | t :: ts, acc, i =>
    if stops.contains t then some (acc, i)
    else match parseInt t with
      | some d => scanInts stops ts (acc ++ [d]) (i + 1)
      | Option.none => Option.none

def whileNotInAppendInt (stops : List Str) (toks : List Str) (acc : List Nat) (i : Nat) : Option (List Nat × Nat) :=
  scanInts stops (toks.drop i) acc i

/-- `count=numpy.prod(shape)`: `numpy.prod(())` is the float `1.0`, which `fromstring`/`fromfile` refuse (TypeError) -/
def npProdCount (shape : List Nat) : Option Nat := if shape = [] then Option.none else some (prodL shape)

/-- `numpy.fromstring(s, count=count, sep=' ')`: a flat array of `count` entries -/
def fromstring (s : Str) (count : Nat) : Option (List Str) := readCount count (splitWs s)

/-- `numpy.fromfile(fid, count=count, sep=' ')` on a text file: up to `count` entries, read across line ends (a shorter
    array if the file runs out — the `reshape` that follows raises).  The file position afterwards is not modelled: the
    translator refuses any read of `fid` after this call. -/
def fromfileText (fid : Fid) (count : Nat) : List Str := (splitWs fid.flatten).take count

/-- `a.reshape(*shape)` of a flat array: ValueError unless the sizes agree -/
def reshape (a : List Str) (shape : List Nat) : Option (List Nat × List Str) :=
  if a.length = prodL shape then some (shape, a) else Option.none

/-- a float array (or `None`) passed as `mask=` to the constructor: non-zero = masked.  Only the tokens `0` / `1` are modelled. -/
def maskArg : Option (List Nat × List Str) → Option PyVal
  | Option.none => some PyVal.none
  | some a => (a.2.mapM parseBit).map PyVal.marr

/-- text or binary: `gzip.open` is binary unless the mode has a `t`; `open` is text unless the mode has a `b` -/
def textMode (o : String × Str) : Bool := if o.1 == "gzip.open" then o.2.contains 't' else !(o.2.contains 'b')

/-- entries of a masked array after `data.filled()` (Spectrum's fill value is nan) -/
def filledRow (data : List Str) (mask : List Bool) : List Str :=
  List.zipWith (fun t b => if b then NANTOK else t) data mask

end DadiVerif.FileFormat
