/- C14 — executable model of dadi's text file formats and of the pickle reduce/rebuild pair (core Lean only).

   Text is `Str = List Char`.  Numbers are OPAQUE tokens (non-empty, whitespace-free strings): the pair
   `'%.{p}g' % x` / `strtod` is a trusted parameter that harness/c14.py checks numerically; everything else of
   `Spectrum.to_file` / `Spectrum.from_file` / `Numerics.array_to_file` / `Numerics.array_from_file` is modelled:
   comment lines, `str.strip`, `str.split()` (Python's whitespace class), the shape / `folded|unfolded` / quoted-label
   header, `line.split('"')[1::2]`, the data and mask lines, the pre-1.3 format (no flag word, no mask line), universal
   newlines, `readline`, and the primitives (`maNew`, `asanyarray`, `setFlat`, …) of which the TRANSLATED `Spectrum.__new__`,
   `mask_corners`, `unmask_all`, `__array_finalize__` are made, with `construct` as the constructor's normal form.

   The WRITERS (`to_file`, `array_to_file`), the READERS (`from_file`, `array_from_file`), the gzip/plain open dispatch and
   the pickle reduce tuple / unpickler call are not written here: they are regenerated from the current source into
   Generated/FileIO.lean (tools/gen_FileIO.py) in terms of the primitives below (`fmtI`, `fmtD`, `strip`, `savetxtRow`,
   `tofileSep`, `readline`, `whileStartsWith`, `whileNotInAppendInt`, `fromstring`, `reshape`, `construct`, `get*`).
   `fromFileSpec` / `arrayFromFileSpec` below are hand-written NORMAL FORMS of the readers; Props/C14.lean proves the
   generated readers equal to them. -/
namespace DadiVerif.FileFormat

abbrev Str := List Char

/-! ## characters -/

/-- the code points for which Python's `str.isspace()` is true (checked against the interpreter over all of Unicode by
    the harness, op `c14.ws`) -/
def wsCodes : List Nat :=
  [9, 10, 11, 12, 13, 28, 29, 30, 31, 32, 133, 160, 5760, 8192, 8193, 8194, 8195, 8196, 8197, 8198, 8199, 8200,
   8201, 8202, 8232, 8233, 8239, 8287, 12288]

def isWs (c : Char) : Bool := wsCodes.contains c.toNat

def NL : Char := Char.ofNat 10
def CR : Char := Char.ofNat 13
def SP : Char := Char.ofNat 32
def QUOTE : Char := Char.ofNat 34
def HASH : Char := Char.ofNat 35
def PLUS : Char := Char.ofNat 43

/-! ## Python string primitives -/

/-- `s.split()`: split on runs of whitespace, no empty tokens -/
def splitAux : Str → Str → List Str
  | [], cur => if cur = [] then [] else [cur.reverse]
  | c :: cs, cur =>
    if isWs c then (if cur = [] then splitAux cs [] else cur.reverse :: splitAux cs [])
    else splitAux cs (c :: cur)

def splitWs (s : Str) : List Str := splitAux s []

/-- `sep.join(toks)` for a one-character separator -/
def joinWith (sep : Char) : List Str → Str
  | [] => []
  | [t] => t
  | t :: ts => t ++ sep :: joinWith sep ts

/-- `s.split(sep)` for a one-character separator: keeps empty pieces -/
def splitOnAux (sep : Char) : Str → Str → List Str
  | [], cur => [cur.reverse]
  | c :: cs, cur => if c = sep then cur.reverse :: splitOnAux sep cs [] else splitOnAux sep cs (c :: cur)

def splitOnC (sep : Char) (s : Str) : List Str := splitOnAux sep s []

/-- `l[1::2]` -/
def odds {α : Type} : List α → List α
  | [] => []
  | [_] => []
  | _ :: b :: r => b :: odds r

def lstrip (s : Str) : Str := s.dropWhile isWs
/-- `s.strip()` -/
def strip (s : Str) : Str := ((lstrip s).reverse.dropWhile isWs).reverse

/-- what a text-mode file object hands out: `\r\n` and lone `\r` become `\n` (universal newlines) -/
def univNLAux : Bool → Str → Str
  | _, [] => []
  | afterCR, c :: cs =>
    if c = CR then NL :: univNLAux true cs
    else if c = NL && afterCR then univNLAux false cs
    else c :: univNLAux false cs

def univNL (s : Str) : Str := univNLAux false s

/-- successive `readline()` results (terminators kept, as Python does) -/
def linesAux : Str → Str → List Str
  | [], cur => if cur = [] then [] else [cur.reverse]
  | c :: cs, cur => if c = NL then (c :: cur).reverse :: linesAux cs [] else linesAux cs (c :: cur)

def linesOf (s : Str) : List Str := linesAux s []

/-! ## integers: `'%i' % n` and `int(tok)` -/

def digitChar (d : Nat) : Char := Char.ofNat (48 + d)

/-- `'%i' % n` for a non-negative integer; `fuel` ≥ number of digits (structural recursion, so that closed instances
    evaluate in the kernel) -/
def fmtIAux : Nat → Nat → Str
  | 0, n => [digitChar (n % 10)]
  | fuel + 1, n => if n < 10 then [digitChar n] else fmtIAux fuel (n / 10) ++ [digitChar (n % 10)]

def fmtI (n : Nat) : Str := fmtIAux n n

def digitVal (c : Char) : Option Nat :=
  if 48 ≤ c.toNat ∧ c.toNat ≤ 57 then some (c.toNat - 48) else none

def parseDigits : Str → Nat → Option Nat
  | [], acc => some acc
  | c :: cs, acc =>
    match digitVal c with
    | some d => parseDigits cs (acc * 10 + d)
    | none => none

/-- `int(tok)` restricted to `[+]digits` (ASCII).  Python accepts more (underscores, other Unicode digits, a minus sign —
    a negative dimension is meaningless); those are rejected here and not exercised. -/
def parseInt (s : Str) : Option Nat :=
  match s with
  | [] => none
  | c :: r => if c = PLUS then (if r = [] then none else parseDigits r 0) else parseDigits s 0

/-- `'%d'` of a mask entry converted with `numpy.asarray(mask, int)` -/
def fmtD (b : Bool) : Str := [digitChar (if b then 1 else 0)]

/-- a mask token read back: the reader converts to float and `masked_array` takes non-zero as True.  Only the two tokens
    the writer produces are modelled; anything else is refused (not exercised). -/
def parseBit (t : Str) : Option Bool :=
  if t = [digitChar 0] then some false else if t = [digitChar 1] then some true else none

/-- `numpy.savetxt(fid, [row], delimiter=' ', fmt=…)` with already formatted entries: one line -/
def savetxtRow (toks : List Str) : Str := joinWith SP toks ++ [NL]
/-- `ndarray.tofile(fid, ' ', fmt)` with already formatted entries: no terminator -/
def tofileSep (toks : List Str) : Str := joinWith SP toks
/-- `os.linesep` on the platform the check runs on (POSIX) -/
def linesep : Str := [NL]

def FOLDED : Str := ['f', 'o', 'l', 'd', 'e', 'd']
def UNFOLDED : Str := ['u', 'n', 'f', 'o', 'l', 'd', 'e', 'd']
def NANTOK : Str := ['n', 'a', 'n']

def prodL : List Nat → Nat
  | [] => 1
  | d :: ds => d * prodL ds

/-! ## the Spectrum object as far as I/O is concerned -/

structure Spec where
  shape : List Nat
  data : List Str          -- formatted entries, C order
  mask : List Bool
  folded : Bool
  popIds : Option (List Str)
  extrapX : Option Str
deriving DecidableEq, Repr

/-- dynamically typed Python values that travel through the reduce tuple / the constructor call.
    `nomask` = `numpy.ma.nomask`, `ty` = a type object (`float`), `str` = a Python `str`, `spec` = an existing Spectrum passed
    as `data` (the copy-constructor case of `Spectrum.__new__`). -/
inductive PyVal where
  | none
  | bool (b : Bool)
  | arr (shape : List Nat) (toks : List Str)
  | marr (bits : List Bool)
  | strs (l : List Str)
  | num (t : Str)
  | nomask
  | ty (name : String)
  | str (s : Str)
  | spec (fs : Spec)
deriving DecidableEq, Repr

def getData (fs : Spec) : PyVal := .arr fs.shape fs.data
def getMask (fs : Spec) : PyVal := .marr fs.mask
def getFolded (fs : Spec) : PyVal := .bool fs.folded
/-- `None` or a list of labels -/
def labelsVal (p : Option (List Str)) : PyVal := match p with | Option.none => .none | some l => .strs l
/-- `None` or a number -/
def numVal (x : Option Str) : PyVal := match x with | Option.none => .none | some t => .num t
def getPopIds (fs : Spec) : PyVal := labelsVal fs.popIds
def getExtrapX (fs : Spec) : PyVal := numVal fs.extrapX

/-- `Spectrum.mask_corners`: `mask.flat[0] = mask.flat[-1] = True` (normal form, for a non-empty mask) -/
def maskCorners (m : List Bool) : List Bool := (m.set 0 true).set (m.length - 1) true

/-! ## the object `Spectrum.__new__` builds (what the TRANSLATED constructor is made of)

   `tools/gen_FileIO.py` translates `Spectrum.__new__`, `Spectrum.mask_corners`, `Spectrum.unmask_all` and
   `Spectrum.__array_finalize__` statement by statement into `Gen.FileIO.spectrumNew`, `maskCornersM`, `unmaskAllM`,
   `arrayFinalize` over the primitives below.  numpy's own `MaskedArray.__new__`, `asanyarray`, `make_mask_none`, `ndarray.view`,
   flat / list-of-slices indexing are hand-written primitives (tied by K: ops `c14.new`, `c14.method`). -/

/-- a masked array with the attributes dadi attaches.  An attribute that has not been set is `none` (a plain
    `MaskedArray` has no `folded`); `warnings` = the `logger.warning` calls made while it was built. -/
structure Obj where
  shape : List Nat
  data : List Str
  mask : List Bool
  fillValue : PyVal
  folded : Option PyVal
  popIds : Option PyVal
  extrapX : Option PyVal
  warnings : List Str
deriving DecidableEq, Repr

/-- the attributes of the model's object, in the order of `Obj` -/
def objFields : List String := ["data", "mask", "fill_value", "folded", "pop_ids", "extrap_x"]

def asBool : PyVal → Option Bool
  | .bool b => some b
  | _ => Option.none
/-- `None` or a list of str -/
def asLabels : PyVal → Option (Option (List Str))
  | .none => some Option.none
  | .strs l => some (some l)
  | _ => Option.none
/-- `None` or a number -/
def asNum : PyVal → Option (Option Str)
  | .none => some Option.none
  | .num t => some (some t)
  | _ => Option.none

/-- the typed view the file / pickle theorems use: `folded` must be a bool, `pop_ids` None or a list of str, `extrap_x` None
    or a number (anything else is outside the model; not exercised) -/
def Obj.toSpec (o : Obj) : Option Spec :=
  o.folded.bind fun fv => (asBool fv).bind fun f =>
  o.popIds.bind fun pv => (asLabels pv).bind fun p =>
  o.extrapX.bind fun xv => (asNum xv).bind fun x =>
  some { shape := o.shape, data := o.data, mask := o.mask, folded := f, popIds := p, extrapX := x }

/-- an array-like value: shape, entries, and its own mask and Spectrum attributes if it is a Spectrum -/
def baseOf : PyVal → Option (List Nat × List Str × Option Spec)
  | .arr sh toks => if toks.length = prodL sh then some (sh, toks, Option.none) else Option.none
  | .spec fs => if fs.data.length = prodL fs.shape ∧ fs.mask.length = fs.data.length then some (fs.shape, fs.data, some fs)
                else Option.none
  | _ => Option.none

/-- `numpy.asanyarray(data)`: arrays and Spectrum objects pass through unchanged (lists / scalars are not modelled) -/
def asanyarray (data : PyVal) : Option PyVal := (baseOf data).map fun _ => data

/-- `numpy.ma.make_mask_none(data.shape)` -/
def makeMaskNone (data : PyVal) : Option PyVal := (baseOf data).map fun b => .marr (List.replicate b.2.1.length false)

def isNone (v : PyVal) : Bool := match v with | .none => true | _ => false
def isNomask (v : PyVal) : Bool := match v with | .nomask => true | _ => false

/-- Python `==` on the values the constructor compares (None, bool, lists of str): structural equality -/
def pyEq (a b : PyVal) : Bool := a == b

/-- truth value of `if x:` — `none` = not modelled (arrays raise, numbers depend on their value) -/
def truthy : PyVal → Option Bool
  | .none => some false
  | .bool b => some b
  | .strs l => some (!l.isEmpty)
  | .str s => some (!s.isEmpty)
  | .nomask => some false
  | _ => Option.none

/-- `len(x)` for a list of str; `none` = TypeError / not modelled -/
def pyLen : PyVal → Option Nat
  | .strs l => some l.length
  | .str s => some s.length
  | _ => Option.none

/-- `hasattr(x, name)`: a Spectrum has `folded`, `pop_ids`, `extrap_x`; plain arrays and everything else do not -/
def hasAttr (v : PyVal) (name : String) : Bool :=
  match v with
  | .spec _ => name == "folded" || name == "pop_ids" || name == "extrap_x"
  | _ => false

/-- `x.name`; `none` = AttributeError -/
def getAttr (v : PyVal) (name : String) : Option PyVal :=
  match v with
  | .spec fs => if name == "folded" then some (.bool fs.folded) else if name == "pop_ids" then some (labelsVal fs.popIds)
                else if name == "extrap_x" then some (numVal fs.extrapX) else Option.none
  | _ => Option.none

def UNSPECIFIED : Str := ['u', 'n', 's', 'p', 'e', 'c', 'i', 'f', 'i', 'e', 'd']
def FLOAT_DEFAULT_FILL : Str := ['1', 'e', '+', '2', '0']

/-- the `mask=` argument of `MaskedArray.__new__` for `n` entries: `nomask` → no mask given (`none`), `None` / `False` →
    nothing masked, `True` → everything, an array of the same SIZE is reshaped, one of size 1 is broadcast
    (`numpy.resize`), any other size raises MaskError -/
def maskArgBits (mask : PyVal) (n : Nat) : Option (Option (List Bool)) :=
  match mask with
  | .nomask => some Option.none
  | .none => some (some (List.replicate n false))
  | .bool b => some (some (List.replicate n b))
  | .marr bits =>
    if bits.length = n then some (some bits)
    else match bits with
      | [b] => some (some (List.replicate n b))
      | _ => Option.none
  | _ => Option.none

/-- the mask an array-like value brings along (a plain array: nothing masked) -/
def ownMaskOf (own : Option Spec) (n : Nat) : List Bool :=
  match own with | some fs => fs.mask | Option.none => List.replicate n false

/-- `numpy.ma.masked_array(data, mask=…, dtype=…, copy=…, fill_value=…, keep_mask=…, shrink=…)` (the parameters dadi
    passes; `subok`, `ndmin`, `hard_mask`, `order` at numpy's defaults).  Entries are opaque tokens, so `dtype` must be `float`;
    `copy` and `shrink` do not change any value; `fill_value=None` means numpy's default for floats (1e20), or the fill value of a
    Spectrum passed as `data` (taken to be the constructor's default nan).  With a masked `data` and `keep_mask` the masks are OR-ed.  A Spectrum passed as
    `data` hands its attributes on (`__array_finalize__` of the view numpy takes). -/
def maNew (data mask dtype copy fill_value keep_mask shrink : PyVal) : Option Obj :=
  match copy, keep_mask, shrink with
  | .bool _, .bool keep, .bool _ =>
    let dtypeOk : Bool := match dtype with | .ty name => name == "float" | .none => true | _ => false
    if !dtypeOk then Option.none else
    match baseOf data with
    | Option.none => Option.none
    | some (shape, toks, own) =>
      match maskArgBits mask toks.length with
      | Option.none => Option.none
      | some m? =>
        let ownMask : List Bool := ownMaskOf own toks.length
        let m : List Bool := match m? with
          | Option.none => ownMask
          | some bits => if keep then List.zipWith (· || ·) bits ownMask else bits
        let fill? : Option PyVal := match fill_value with
          | .num t => some (.num t)
          | .none => some (.num (match own with | some _ => NANTOK | Option.none => FLOAT_DEFAULT_FILL))
          | _ => Option.none
        match fill? with
        | Option.none => Option.none
        | some fill =>
          some { shape := shape, data := toks, mask := m, fillValue := fill,
                 folded := own.map fun fs => .bool fs.folded,
                 popIds := own.map fun fs => labelsVal fs.popIds,
                 extrapX := own.map fun fs => numVal fs.extrapX,
                 warnings := [] }
  | _, _, _ => Option.none

/-- `numpy.ma.masked_array.__array_finalize__(self, obj)`: a view takes mask and fill value of the array it views -/
def maFinalize (self obj : Obj) : Obj := { self with mask := obj.mask, fillValue := obj.fillValue }

/-- `a.view(subtype)`: the same array seen as a Spectrum; numpy calls `__array_finalize__(new, a)` (the translated method is
    passed in) on a new object that has none of dadi's attributes yet -/
def viewSubtype (finalize : Obj → Obj → Option Obj) (a : Obj) : Option Obj :=
  finalize { a with folded := Option.none, popIds := Option.none, extrapX := Option.none } a

/-- `getattr(obj, name, default)` on an object -/
def Obj.getAttrD (o : Obj) (name : String) (dflt : PyVal) : PyVal :=
  if name == "folded" then o.folded.getD dflt else if name == "pop_ids" then o.popIds.getD dflt
  else if name == "extrap_x" then o.extrapX.getD dflt else dflt

/-- `logger.warning(msg)` while building `o` -/
def Obj.warn (o : Obj) (msg : Str) : Obj := { o with warnings := o.warnings ++ [msg] }

/-- `a.flat[i] = v` for a Python index (negative = from the end); `none` = IndexError -/
def setFlat (m : List Bool) (i : Int) (v : Bool) : Option (List Bool) :=
  let n : Int := m.length
  let j : Int := if i < 0 then i + n else i
  if 0 ≤ j ∧ j < n then some (m.set j.toNat v) else Option.none

/-- how `a[idx] = v` with `idx` built from `slice(None)` repeated `ndim` times behaves: a TUPLE of slices (or `...`) selects
    everything; a LIST of slices is an IndexError in numpy ≥ 1.23 ("only integers, slices … are valid indices") -/
inductive SliceIdx where
  | listOfSlices
  | tupleOfSlices
  | ellipsis
deriving DecidableEq, Repr

def setAll (m : List Bool) (idx : SliceIdx) (v : Bool) : Option (List Bool) :=
  match idx with
  | .listOfSlices => Option.none
  | .tupleOfSlices => some (List.replicate m.length v)
  | .ellipsis => some (List.replicate m.length v)

/-! ### the folding check of `Spectrum.__new__` (warnings only) -/

/-- `numpy.sum(subarr.sample_sizes)`: Σ (d − 1) -/
def totalSamples (shape : List Nat) : Int := shape.foldr (fun (d : Nat) (acc : Int) => Int.ofNat d - 1 + acc) 0
/-- `int(t / 2)` (true division, then truncation toward zero) -/
def intHalf (t : Int) : Int := t.tdiv 2
/-- `subarr._total_per_entry()`, C order: the sum of the indices of every entry -/
def idxSums : List Nat → List Nat
  | [] => [0]
  | d :: ds => (List.range d).flatMap fun i => (idxSums ds).map (· + i)
/-- `total_per_entry > h` -/
def gtEach (sums : List Nat) (h : Int) : List Bool := sums.map fun (s : Nat) => decide (Int.ofNat s > h)

/-- does a number token denote zero (`float(t) == 0`)?  Decimal (`0`, `-0`, `0.0`, `0e-5`) and C99 hex (`0x0.0p+0`) forms; `nan`,
    `inf` are not zero.  The only interpretation of a token the model makes (tied by K, op `c14.iszero`). -/
def tokIsZero (t : Str) : Bool :=
  let u : Str := match t with | '-' :: r => r | '+' :: r => r | _ => t
  match u with
  | '0' :: 'x' :: r =>
    let mant := r.takeWhile fun c => c != 'p' && c != 'P'
    mant.any (· == '0') && mant.all fun c => c == '0' || c == '.'
  | _ =>
    let mant := u.takeWhile fun c => c != 'e' && c != 'E'
    mant.any (· == '0') && mant.all fun c => c == '0' || c == '.'

/-- `numpy.all(subarr.data[where] == 0)` -/
def allZeroAt (data : List Str) (wh : List Bool) : Bool := (data.zip wh).all fun tw => !tw.2 || tokIsZero tw.1
/-- `numpy.all(subarr.mask[where])` -/
def allTrueAt (mask : List Bool) (wh : List Bool) : Bool := (mask.zip wh).all fun mw => !mw.2 || mw.1

/-- short-circuit `and` / `or` / `not` on conditions that may raise -/
def oAnd (a b : Option Bool) : Option Bool := a.bind fun x => if x then b else some false
def oOr (a b : Option Bool) : Option Bool := a.bind fun x => if x then some true else b
def oNot (a : Option Bool) : Option Bool := a.map (!·)

/-! ### normal form of the constructor -/

/-- the mask of the new object: the `mask=` argument (`None` / `nomask`: nothing, `True`/`False`: everything / nothing, an array
    of the same size, or of size 1 broadcast) OR-ed with the mask `data` brings along -/
def ctorMask (mask : PyVal) (n : Nat) (ownMask : List Bool) : Option (List Bool) :=
  match mask with
  | .none => some ownMask
  | .nomask => some ownMask
  | .bool b => some (List.zipWith (· || ·) (List.replicate n b) ownMask)
  | .marr bits =>
    if bits.length = n then some (List.zipWith (· || ·) bits ownMask)
    else match bits with
      | [b] => some (List.zipWith (· || ·) (List.replicate n b) ownMask)
      | _ => Option.none
  | _ => Option.none

/-- `folded`: the argument, else the status of `data`, else False; a contradiction between the two raises -/
def ctorFolded (dataFolded : PyVal) (own : Option Spec) : Option Bool :=
  match dataFolded, own with
  | .none, Option.none => some false
  | .none, some fs => some fs.folded
  | .bool b, Option.none => some b
  | .bool b, some fs => if b = fs.folded then some b else Option.none
  | _, _ => Option.none

/-- `pop_ids`: the argument (one label per axis, unless it just repeats the labels of `data`), else the labels of `data` -/
def ctorPopIds (popIds : PyVal) (own : Option Spec) (ndim : Nat) : Option (Option (List Str)) :=
  match popIds, own with
  | .none, Option.none => some Option.none
  | .none, some fs => some fs.popIds
  | .strs l, Option.none => if l.length = ndim then some (some l) else Option.none
  | .strs l, some fs => if fs.popIds = some l then some (some l)
                        else if l.length = ndim then some (some l) else Option.none
  | _, _ => Option.none

def ctorExtrap (extrapX : PyVal) : Option (Option Str) := asNum extrapX

/-- `if mask_corners: subarr.mask_corners()` — IndexError on an array without entries -/
def ctorCorners (mc : Bool) (m : List Bool) : Option (List Bool) :=
  if mc then (if m.isEmpty then Option.none else some (maskCorners m)) else some m

/-- `Spectrum.__new__(data, mask, mask_corners, data_folded, check_folding, pop_ids=…, extrap_x=…)`, the other parameters at
    their defaults — hand-written NORMAL FORM; the driver runs the TRANSLATED `Gen.FileIO.spectrumNew`, proved equal on
    well-typed arguments in Props/C14.lean (`C14_construct_translated`).  `data` is a plain array or an existing Spectrum;
    `check_folding` only controls warnings.  `none` = the call raises (wrong label count, mask of another size, a folding status
    that contradicts the one of `data`, `mask_corners` on an array without entries, wrong argument types). -/
def construct (data mask maskCornersArg dataFolded checkFolding popIds extrapX : PyVal) : Option Spec :=
  match maskCornersArg, checkFolding with
  | .bool mc, .bool _ =>
    (baseOf data).bind fun b =>
    (ctorMask mask b.2.1.length (ownMaskOf b.2.2 b.2.1.length)).bind fun m =>
    (ctorFolded dataFolded b.2.2).bind fun f =>
    (ctorPopIds popIds b.2.2 b.1.length).bind fun p =>
    (ctorExtrap extrapX).bind fun x =>
    (ctorCorners mc m).map fun m' =>
      { shape := b.1, data := b.2.1, mask := m', folded := f, popIds := p, extrapX := x }
  | _, _ => Option.none

/-! ## readers -/

def startsHash (l : Str) : Bool := match l with | c :: _ => c == HASH | [] => false

/-- `comments.append(line[1:].strip())` -/
def commentOf (l : Str) : Str := strip (l.drop 1)

/-- the `while shape_spl[next_ii] not in ['folded','unfolded']` loop (after the unconditional `int(shape_spl[0])`):
    dims, the flag, and the tokens after the flag.  Running off the end is the code's IndexError. -/
def scanDims : List Str → Option (List Nat × Bool × List Str)
  | [] => Option.none
  | t :: ts =>
    if t = FOLDED then some ([], true, ts)
    else if t = UNFOLDED then some ([], false, ts)
    else match parseInt t, scanDims ts with
      | some d, some (ds, f, r) => some (d :: ds, f, r)
      | _, _ => Option.none

/-- header line of `Spectrum.from_file` (the line still carries its `\n`): shape, folded, labels -/
def parseHeader (line : Str) : Option (List Nat × Bool × Option (List Str)) :=
  let toks := splitWs line
  if !(toks.contains FOLDED) && !(toks.contains UNFOLDED) then
    -- old (pre-1.3) format
    match toks.mapM parseInt with
    | some shape => some (shape, false, Option.none)
    | Option.none => Option.none
  else
    match toks with
    | [] => Option.none
    | t0 :: ts =>
      match parseInt t0, scanDims ts with
      | some d0, some (ds, f, after) =>
        some (d0 :: ds, f, if after.isEmpty then Option.none else some (odds (splitOnC QUOTE line)))
      | _, _ => Option.none

/-- `numpy.fromstring(line.strip(), count=prod(shape), sep=' ')` on opaque tokens.  With fewer than `count` tokens numpy
    returns an array whose tail is uninitialised; the model refuses such input (not exercised by the round trip). -/
def readCount (count : Nat) (toks : List Str) : Option (List Str) :=
  if toks.length < count then Option.none else some (toks.take count)

def lineAt (ls : List Str) (i : Nat) : Str := (ls.drop i).headD []

/-- the mask line of `from_file` as the constructor's `mask=` argument: an empty line = no mask (old format) -/
def maskOfLine (count : Nat) (mtoks : List Str) : Option PyVal :=
  if mtoks = [] then some .none
  else match readCount count mtoks with
    | Option.none => Option.none
    | some ts => (ts.mapM parseBit).map PyVal.marr

/-- `Spectrum.from_file(fname, mask_corners, return_comments=True)` on the text of the file
    (hand-written normal form; the driver runs the TRANSLATED `Gen.FileIO.fromFile`, proved equal in Lemmas/FileReaders.lean) -/
def fromFileSpec (mc : Bool) (text : Str) : Option (Spec × List Str) :=
  let ls := linesOf (univNL text)
  let comments := (ls.takeWhile startsHash).map commentOf
  let rest := ls.dropWhile startsHash
  match parseHeader (lineAt rest 0) with
  | Option.none => Option.none
  | some (shape, folded, labels) =>
    if shape = [] then Option.none else     -- numpy.prod(()) is a float: `count=1.0` raises TypeError
    match readCount (prodL shape) (splitWs (lineAt rest 1)) with
    | Option.none => Option.none
    | some data =>
      match maskOfLine (prodL shape) (splitWs (lineAt rest 2)) with
      | Option.none => Option.none
      | some mask =>
        match construct (.arr shape data) mask (.bool mc) (.bool folded) (.bool true)
                (labelsVal labels) .none with
        | Option.none => Option.none
        | some fs => some (fs, comments)

/-- `Numerics.array_from_file(fname, return_comments=True)`: (shape, entries), comments.  `numpy.fromfile(fid, count, sep=' ')`
    reads on across line ends; fewer than `count` entries make the `reshape` raise.
    (hand-written normal form; the driver runs the TRANSLATED `Gen.FileIO.arrayFromFile`, proved equal in Lemmas/FileReaders.lean) -/
def arrayFromFileSpec (text : Str) : Option ((List Nat × List Str) × List Str) :=
  let ls := linesOf (univNL text)
  let comments := (ls.takeWhile startsHash).map commentOf
  let rest := ls.dropWhile startsHash
  match (splitWs (lineAt rest 0)).mapM parseInt with
  | Option.none => Option.none
  | some shape =>
    if shape = [] then Option.none else     -- `count=numpy.prod(())` is a float: TypeError
    let toks := splitWs ((rest.drop 1).flatten)
    if toks.length < prodL shape then Option.none
    else some ((shape, toks.take (prodL shape)), comments)

/-! ## what the TRANSLATED readers are made of

   `tools/gen_FileIO.py` translates the bodies of `Spectrum.from_file` and `Numerics.array_from_file` statement by statement
   into `Gen.FileIO.fromFile` / `Gen.FileIO.arrayFromFile` (Generated/FileIO.lean) in terms of the primitives below: a text-mode
   file object, `readline`, the two `while` loops, `numpy.fromstring` / `numpy.fromfile` / `reshape` on opaque tokens, the
   conversion of constructor arguments.  `fromFileSpec` / `arrayFromFileSpec` above are the hand-written normal forms of the same
   functions; Lemmas/FileReaders.lean proves the generated terms equal to them. -/

/-- a text-mode file object: the lines not yet handed out (universal newlines already applied) -/
abbrev Fid := List Str

/-- `open(fname, 'r')` / `gzip.open(fname, 'rt')` on the text of the file -/
def openText (text : Str) : Fid := linesOf (univNL text)

/-- `fid.readline()`: the next line with its terminator; `''` at end of file -/
def readline : Fid → Str × Fid
  | [] => ([], [])
  | l :: r => (l, r)

/-- `s.startswith(p)` -/
def startsWith (p s : Str) : Bool := p.isPrefixOf s
/-- `s.endswith(suf)` -/
def endsWith (suf s : Str) : Bool := suf.isSuffixOf s

/-- `s.rstrip()` -/
def rstrip (s : Str) : Str := (s.reverse.dropWhile isWs).reverse
/-- `s.lstrip(chars)` -/
def lstripChars (cs s : Str) : Str := s.dropWhile cs.contains
/-- `s.rstrip(chars)` -/
def rstripChars (cs s : Str) : Str := (s.reverse.dropWhile cs.contains).reverse
/-- `s.strip(chars)` -/
def stripChars (cs s : Str) : Str := rstripChars cs (lstripChars cs s)

/-- `l[i]` for `i ≥ 0`; `none` = IndexError -/
def idx {α : Type} (l : List α) (i : Nat) : Option α := l[i]?

/-- `while line.startswith(p): comments.append(f(line)); line = fid.readline()` — state (comments, line, fid).
    At end of file `readline` returns `''`, which starts with no non-empty `p` (the translator refuses an empty `p`). -/
def whileStartsWith (p : Str) (f : Str → Str) : List Str → Str → Fid → List Str × Str × Fid
  | cs, line, [] => if startsWith p line then (cs ++ [f line], [], []) else (cs, line, [])
  | cs, line, l :: r => if startsWith p line then whileStartsWith p f (cs ++ [f line]) l r else (cs, line, l :: r)

/-- `while toks[i] not in stops: acc.append(int(toks[i])); i += 1` on the tokens from position `i` on — state (acc, i);
    `none` = IndexError (ran off the end) or ValueError (`int`) -/
def scanInts (stops : List Str) : List Str → List Nat → Nat → Option (List Nat × Nat)
  | [], _, _ => Option.none
  | t :: ts, acc, i =>
    if stops.contains t then some (acc, i)
    else match parseInt t with
      | some d => scanInts stops ts (acc ++ [d]) (i + 1)
      | Option.none => Option.none

def whileNotInAppendInt (stops : List Str) (toks : List Str) (acc : List Nat) (i : Nat) : Option (List Nat × Nat) :=
  scanInts stops (toks.drop i) acc i

/-- `count=numpy.prod(shape)`: `numpy.prod(())` is the float `1.0`, which `fromstring`/`fromfile` refuse (TypeError) -/
def npProdCount (shape : List Nat) : Option Nat := if shape = [] then Option.none else some (prodL shape)

/-- `numpy.fromstring(s, count=count, sep=' ')`: a flat array of `count` entries -/
def fromstring (s : Str) (count : Nat) : Option (List Str) := readCount count (splitWs s)

/-- `numpy.fromfile(fid, count=count, sep=' ')` on a text file: up to `count` entries, read across line ends (a shorter
    array if the file runs out — the `reshape` that follows raises).  The file position afterwards is not modelled: the
    translator refuses any read of `fid` after this call. -/
def fromfileText (fid : Fid) (count : Nat) : List Str := (splitWs fid.flatten).take count

/-- `a.reshape(*shape)` of a flat array: ValueError unless the sizes agree -/
def reshape (a : List Str) (shape : List Nat) : Option (List Nat × List Str) :=
  if a.length = prodL shape then some (shape, a) else Option.none

/-- a float array (or `None`) passed as `mask=` to the constructor: non-zero = masked.  Only the tokens `0` / `1` are modelled. -/
def maskArg : Option (List Nat × List Str) → Option PyVal
  | Option.none => some PyVal.none
  | some a => (a.2.mapM parseBit).map PyVal.marr

/-- text or binary: `gzip.open` is binary unless the mode has a `t`; `open` is text unless the mode has a `b` -/
def textMode (o : String × Str) : Bool := if o.1 == "gzip.open" then o.2.contains 't' else !(o.2.contains 'b')

/-- entries of a masked array after `data.filled()`: masked entries are replaced by the array's fill value -/
def filledRowWith (fill : Str) (data : List Str) (mask : List Bool) : List Str :=
  List.zipWith (fun t b => if b then fill else t) data mask

/-- … for a Spectrum built with the constructor's default `fill_value` (nan: `C14_fill_value_nan`) -/
def filledRow (data : List Str) (mask : List Bool) : List Str := filledRowWith NANTOK data mask

/-! ## the format string of the data line -/

/-- `'%.<p>g'` -/
def gFormat (p : Nat) : Str := ['%', '.'] ++ fmtI p ++ ['g']

/-- the precision a printf conversion `%.<digits>g` asks for (`none`: not of that form) -/
def precisionOf (f : Str) : Option Nat :=
  match f with
  | '%' :: '.' :: r =>
    match r.reverse with
    | 'g' :: ds => if ds.isEmpty then Option.none else parseDigits ds.reverse 0
    | _ => Option.none
  | _ => Option.none

/-! ## an exact model of `'%.{p}g'` followed by `strtod`, on rationals

   A finite double is a dyadic rational.  A correctly rounding `printf('%.{p}g')` prints the decimal with p significant digits
   nearest to it (ties to even): `roundSig p`; a correctly rounding `strtod` returns the double nearest to that decimal (53
   significant bits, ties to even, gradual underflow below 2^-1022): `roundBin`.  `rndModel p = roundBin ∘ roundSig p` is the
   concrete `round_p` of the contract `FmtContract` (Lemmas/FileValues.lean); Lemmas/FileRound.lean proves what can be proved
   about it, K compares it with the real `'%.*g' %` / `float()` chain (op `c14.rnd`). -/

/-- `b^k` for an integer exponent -/
def powB (b : Nat) (k : Int) : Rat := if 0 ≤ k then (b : Rat) ^ k.toNat else 1 / (b : Rat) ^ (-k).toNat

/-- `⌊log_b x⌋` for `x > 0` by stepping from 0 (fuel ≥ |result|) -/
def ilogAux (b : Nat) : Nat → Rat → Int → Int
  | 0, _, e => e
  | f + 1, x, e => if powB b (e + 1) ≤ x then ilogAux b f x (e + 1) else if x < powB b e then ilogAux b f x (e - 1) else e

def ilog (b : Nat) (x : Rat) : Int := ilogAux b (x.num.natAbs + x.den) x 0

/-- round to the nearest integer, ties to even -/
def rhe (x : Rat) : Int :=
  let f := x.floor
  let r := x - (f : Rat)
  if r < 1 / 2 then f else if 1 / 2 < r then f + 1 else if f % 2 = 0 then f else f + 1

/-- `x` rounded to `p` significant base-`b` digits, ties to even; with `emin = some m` no digit below `b^m` is kept (gradual
    underflow) -/
def roundDig (b p : Nat) (emin : Option Int) (x : Rat) : Rat :=
  if x = 0 then 0 else
  let a : Rat := if x < 0 then -x else x
  let e0 : Int := ilog b a - (p : Int) + 1
  let e : Int := match emin with | Option.none => e0 | some m => if e0 < m then m else e0
  let s : Rat := powB b e
  let r : Rat := (rhe (a / s) : Rat) * s
  if x < 0 then -r else r

/-- the decimal with `p` significant digits nearest to `x` — what `'%.{p}g'` prints -/
def roundSig (p : Nat) (x : Rat) : Rat := roundDig 10 p Option.none x
/-- the double nearest to `x` — what `strtod` returns (overflow to ±inf is not modelled) -/
def roundBin (x : Rat) : Rat := roundDig 2 53 (some (-1074)) x
/-- the value a double written with `'%.{p}g'` reads back as -/
def rndModel (p : Nat) (x : Rat) : Rat := roundBin (roundSig p x)

end DadiVerif.FileFormat
