import DadiVerif.Model.Prelude
/-!
C12 — the fixed vocabulary in which `Generated/Optim.lean` (written by tools/gen_Optim.py from dadi/Inference.py,
dadi/NLopt_mod.py and dadi/Misc.py) describes the optimiser wrappers.  Core Lean only.

`VE` is the small language of *vector expressions* the wrappers build between the caller's arguments and the optimiser:
which vector is handed to the optimiser as its start, which bounds it is given, and from which vector the returned
parameters are assembled.  The translator produces these terms by executing the straight-line wrapper bodies
symbolically; the model (Model/Optim.lean) evaluates them; the theorems (Props/C12.lean) are about that evaluation.
-/
namespace DadiVerif.Optim

inductive VE where
  | p0                         -- the caller's `p0`
  | lower                      -- the caller's `lower_bound`
  | upper                      -- the caller's `upper_bound`
  | xopt                       -- the vector returned by the optimiser
  | noneList                   -- `[None] * len(p0)`, `[-inf] * len(p0)`, `[inf] * len(p0)`: no bound on any entry
  | log (e : VE)               -- `numpy.log(e)`
  | exp (e : VE)               -- `numpy.exp(e)`
  | down (e : VE)              -- `_project_params_down(e, fixed_params)`
  | up (e : VE)                -- `_project_params_up(e, fixed_params)`
  | nanToNone (e : VE)         -- `e[numpy.isnan(e)] = None`
  | noneToInf (e : VE)         -- `[_ if _ is not None else ±inf for _ in e]`
  | maxConst (e : VE) (c : Rat) -- `numpy.maximum(e, c)`
  | ifNone (c a b : VE)        -- `a if c is None else b`
  | clip (e lo hi : VE)        -- `numpy.clip(e, lo, hi)`: `e` a vector, `lo` / `hi` bound lists (or `None`)
deriving DecidableEq, Repr

/-- the element type of a numpy array, as far as it matters here: what a STORE into the array keeps of a value.  `_project_params_up`
    allocates its output and stores free and fixed values into it; `Generated/Optim.lean` `upOutDtype` says (from the allocation
    statement) which element type the output gets, as a function of the element type numpy infers for the reduced vector. -/
inductive DType where
  | int                        -- any integer dtype: a store truncates toward zero (0.25 ↦ 0, -1.5 ↦ -1)
  | float                      -- float64: a store keeps the value (the model is exact-rational)
deriving DecidableEq, Repr

/-- `a[i] = x` for an array `a` of this element type -/
def DType.store : DType → Rat → Rat
  | .float, x => x
  | .int, x => ((Int.tdiv x.num (x.den : Int) : Int) : Rat)

/-- one optimiser wrapper as read from the source -/
structure Wrapper where
  name : String              -- `optimize_log`, `opt[log_opt=True]`, …
  optimizer : String         -- `scipy.optimize.fmin_bfgs`, `nlopt.opt`, …
  objLog : Bool              -- the objective applies `numpy.exp` to the optimiser's vector before `_object_func`
  negated : Bool             -- the optimiser is given `-_object_func(...)` (and maximises it)
  maximize : Bool
  objLower : Option VE       -- what is passed to `_object_func` as `lower_bound` (none: `None`)
  objUpper : Option VE
  objFixed : Bool            -- `fixed_params` is passed on to `_object_func`
  objLlScale : Bool          -- the caller's `ll_scale` is passed on (false: the constant 1)
  start : Option VE          -- the start vector handed to the optimiser (none: grid search, no start)
  optLower : Option VE       -- the bounds handed to the optimiser itself (none: not bounded by the optimiser)
  optUpper : Option VE
  result : VE                -- first returned value
  reportsFopt : Bool         -- second returned value (with full output) is the optimiser's reported optimum, unchanged
deriving DecidableEq, Repr

/-- how one wrapper calls `_object_func`: the arguments of the call bound against `_object_func`'s own SIGNATURE (positional `args=(…)`
    tuple of the scipy wrappers, keywords of the closure in `NLopt_mod.opt`) -/
structure ObjCall where
  wrapper : String                       -- function name (`optimize_log`, `opt`, …)
  own : List String                      -- the wrapper's own parameter names (its signature)
  binding : List (String × String)       -- (parameter of `_object_func`, argument expression as written in the wrapper), signature order
deriving DecidableEq, Repr

/-- one axis of the search grid of `optimize_grid`, as `numpy.index_exp` spells it -/
inductive GridSlice where
  | count (a b : Rat) (m : Nat)              -- `a:b:mj`: m points from a to b, both ends included
  | step (a b s : Rat) (intLit : Bool)       -- `a:b:s`: a, a+s, … below b; `intLit`: all three written as integers
deriving DecidableEq, Repr

/-- one clamp statement of `Misc.perturb_params`: which bound list it reads, and the elementwise formula -/
structure PerturbStep where
  usesLower : Bool
  usesUpper : Bool
  f : Rat → Rat → Rat → Rat    -- pnew lower_bound upper_bound ↦ new pnew  (an unused bound is passed as 0)

end DadiVerif.Optim
