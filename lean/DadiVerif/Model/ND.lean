import DadiVerif.Model.Prelude
/-
Row-major d-dimensional arrays of rationals (numpy C order), and the "pointwise" way of
defining array operations: `ND.ofFn shape f` tabulates `f : multi-index → Rat`.
-/
namespace DadiVerif

def prodL : List Nat → Nat
  | [] => 1
  | s :: ss => s * prodL ss

/-- row-major flat index -/
def flatIdx : List Nat → List Nat → Nat
  | s :: ss, i :: is => i * prodL ss + flatIdx ss is
  | _, _ => 0

/-- inverse of `flatIdx` -/
def unflat : List Nat → Nat → List Nat
  | [], _ => []
  | _ :: ss, n => (n / prodL ss) :: unflat ss (n % prodL ss)

structure ND where
  shape : List Nat
  data  : Array Rat
deriving Repr

namespace ND
def get (T : ND) (idx : List Nat) : Rat := T.data.getD (flatIdx T.shape idx) 0
def ofFn (shape : List Nat) (f : List Nat → Rat) : ND :=
  ⟨shape, Array.ofFn (n := prodL shape) fun k => f (unflat shape k.val)⟩
def size (T : ND) : Nat := prodL T.shape
end ND

/-- all multi-indices of a box, row-major order -/
def boxIdx : List Nat → List (List Nat)
  | [] => [[]]
  | s :: ss => (List.range s).flatMap fun i => (boxIdx ss).map (i :: ·)

def sumL (l : List Rat) : Rat := l.foldl (· + ·) 0

def listGetD (l : List Rat) (j : Nat) : Rat := l.getD j 0

end DadiVerif
