import DadiVerif.Model.ND
/- Line-protocol helpers: exact rationals as `num/den`, lists as `a,b,c` (`-` = empty),
   arrays as `3x4:v,v,…`. -/
namespace DadiVerif.Proto

def parseRat (s : String) : Option Rat :=
  match s.splitOn "/" with
  | [n] => n.toInt?.map fun i => (i : Rat)
  | [n, d] => do
      let i ← n.toInt?
      let k ← d.toNat?
      if k = 0 then none else some ((i : Rat) / (k : Rat))
  | _ => none

def parseList (s : String) : Option (List Rat) :=
  if s = "-" then some [] else (s.splitOn ",").mapM parseRat

def parseNatList (s : String) (sep : String := ",") : Option (List Nat) :=
  if s = "-" then some [] else (s.splitOn sep).mapM String.toNat?

def parseND (s : String) : Option ND :=
  match s.splitOn ":" with
  | [sh, dat] => do
      let shape ← parseNatList sh "x"
      let data ← parseList dat
      if data.length = prodL shape then some ⟨shape, data.toArray⟩ else none
  | _ => none

/-- `g1;g2;g3` -/
def parseGrids (s : String) : Option (List (Array Rat)) :=
  (s.splitOn ";").mapM fun g => (parseList g).map List.toArray

def showRat (q : Rat) : String :=
  if q.den = 1 then toString q.num else toString q.num ++ "/" ++ toString q.den

def showList (l : List Rat) : String :=
  if l.isEmpty then "-" else ",".intercalate (l.map showRat)

def showND (T : ND) : String :=
  "x".intercalate (T.shape.map toString) ++ ":" ++ showList T.data.toList

def parseBool (s : String) : Option Bool :=
  if s = "1" then some true else if s = "0" then some false else none

def parseOptRat (s : String) : Option (Option Rat) :=
  if s = "-" then some none else (parseRat s).map some

end DadiVerif.Proto
