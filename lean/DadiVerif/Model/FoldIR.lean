import DadiVerif.Model.Prelude
/-!
Statement language for the two arithmetic-operator templates of `Spectrum` (C09).  Core Lean only.

tools/gen_Fold.py translates the body of each `exec`-template

    def %(method)s(self, other):
        self._check_other_folding(other)
        if isinstance(other, numpy.ma.masked_array):
            newdata = self.data.%(method)s (other.data)
            newmask = numpy.ma.mask_or(self.mask, other.mask)
        else: …

statement by statement into a `List TStmt` (`Gen.Fold.binaryProgram`, `Gen.Fold.inplaceProgram`); the interpreter
`Fold.runT` of Model/Fold.lean executes that list for every kind of operand (Spectrum, masked array, ndarray, scalar).
The order of the statements is the order of the source: a folding check that comes *after* a store into `self.mask`,
or that is handed `other.data` instead of `other`, is executed exactly like that by the model.

The only control structure of the templates is the test `isinstance(other, numpy.ma.masked_array)`, whose value does not
change while the template runs; the translator therefore flattens the two branches into guarded statements (`TCond`).
-/
namespace DadiVerif
namespace Fold

/-- an argument handed to `_check_other_folding` / to the forwarded ndarray method -/
inductive TArg where
  | other                 -- `other`
  | otherData             -- `other.data`
  | var (n : String)      -- a local name bound earlier by `n = other` / `n = other.data` / `n = <name>`
deriving Repr, DecidableEq

/-- a mask expression -/
inductive TMask where
  | selfMask              -- `self.mask`
  | maskOr                -- `numpy.ma.mask_or(self.mask, other.mask)`
deriving Repr, DecidableEq

/-- the branch of `if isinstance(other, numpy.ma.masked_array): … else: …` a statement stands in -/
inductive TCond where
  | always | ifMasked | ifNotMasked
deriving Repr, DecidableEq

inductive TAct where
  | check (a : TArg)                  -- `self._check_other_folding(a)`
  | bind (n : String) (a : TArg)      -- `n = a`
  | newData (a : TArg)                -- `newdata = self.data.<method>(a)`            (binary template)
  | newMask (e : TMask)               -- `newmask = e`                                (binary template)
  | selfData (a : TArg)               -- `self.data.<method>(a)` — updates the data of `self` in place
  | selfMask (e : TMask)              -- `self.mask = e`
deriving Repr, DecidableEq

structure TStmt where
  cond : TCond
  act  : TAct
deriving Repr, DecidableEq

/-- where a hook of the numpy subclass protocol takes one attribute (`folded`, `pop_ids`) of the array it finalises from -/
inductive AttrRule where
  | getattrDefault        -- `self.a = getattr(obj, 'a', <default>)`     (default: `'unspecified'` / `None` — "no proper value")
  | ifHasattr             -- `if hasattr(obj, 'a'): self.a = obj.a`
  | fromSelf              -- `result.a = self.a`                           (`__array_wrap__`, `log`: `self` is the operand)
  | constNone             -- `self.a = None` / `'unspecified'`             (a literal that is not a proper value)
  | constBool (b : Bool)  -- `self.folded = True` / `False`
  | untouched             -- the hook does not assign the attribute
deriving Repr, DecidableEq

/-- expression language of `Numerics.apply_anc_state_misid(fs, p_misid)`: the returned expression (local names substituted),
    built from the spectrum argument, scalar expressions in `p_misid`, `reverse_array`, `numpy.ma.getdata` / `.data`, and
    `+ - *`.  Which Python method an operator reaches (`Spectrum.__add__`, `__radd__`, plain ndarray arithmetic, …) is decided
    by the KIND of value each side evaluates to — see `Fold.evalM` in Model/Fold.lean. -/
inductive MExpr where
  | fs                                  -- the argument `fs`
  | getdata (e : MExpr)                 -- `numpy.ma.getdata(e)` / `e.data`: the data as a plain ndarray (no mask, no attributes)
  | rev (e : MExpr)                     -- `reverse_array(e)`
  | scal (f : Rat → Rat)                -- a scalar expression in `p_misid`
  | add (a b : MExpr)
  | sub (a b : MExpr)
  | mul (a b : MExpr)

end Fold
end DadiVerif
