/-
C16 — primitives that the GENERATED file `Generated/Demes.lean` is written in terms of.  Core Lean only.

* `ETime`   : a demes time, `none` = `math.inf` (start of the root deme / of an eternal migration).
* `Sym`     : size-valued expressions.  `_sizes_at_time` and `_make_nu_func` use `numpy.exp`, `numpy.log` and a
              non-integer power; the translator emits their formulas as `Sym` terms (deep embedding).  The driver prints
              the term (the harness evaluates it in IEEE arithmetic and compares with the implementation), the theorems
              are about `Sym.eval ex lg pw` for ARBITRARY functions `ex lg pw` — so nothing is assumed about the
              transcendental functions.
* `Slot`    : what a keyword of an integrator call is / is fed from (`nu 2` = third population's size, `M 0 3` = entry
              `M[0,3]` resp. parameter `m14`, …), the vocabulary of the wiring tables.
* `Ev`      : one record appended to `dadi.Demes.cache`.
-/
namespace DadiVerif.DemesConv

/-- a demes time; `none` is `math.inf` -/
abbrev ETime := Option Rat

/-- numeric value where the code does arithmetic with a time (never reached with `inf`: guarded by `==` tests) -/
def tval : ETime → Rat
  | none => 0
  | some t => t

def isInf : ETime → Bool
  | none => true
  | some _ => false

/-- Python `==` on times (`inf == inf` is True) -/
def teq (a b : ETime) : Bool :=
  match a, b with
  | none, none => true
  | some x, some y => x == y
  | _, _ => false

/-- Python `>=` / `<=` on times -/
def tge (a b : ETime) : Bool :=
  match a, b with
  | none, _ => true
  | some _, none => false
  | some x, some y => decide (y ≤ x)

def tle (a b : ETime) : Bool := tge b a

def tscale (c : Rat) : ETime → ETime
  | none => none
  | some t => some (c * t)

inductive SizeFn
  | constant | exponential | linear | other
deriving DecidableEq, Repr

/-- size-valued expression with uninterpreted `exp`, `log`, real power -/
inductive Sym
  | r (q : Rat)
  | add (a b : Sym)
  | sub (a b : Sym)
  | mul (a b : Sym)
  | div (a b : Sym)
  | ex (a : Sym)
  | lg (a : Sym)
  | pw (a b : Sym)
deriving Repr, Inhabited

namespace Sym
def eval (ex lg : Rat → Rat) (pw : Rat → Rat → Rat) : Sym → Rat
  | r q => q
  | add a b => eval ex lg pw a + eval ex lg pw b
  | sub a b => eval ex lg pw a - eval ex lg pw b
  | mul a b => eval ex lg pw a * eval ex lg pw b
  | div a b => eval ex lg pw a / eval ex lg pw b
  | Sym.ex a => ex (eval ex lg pw a)
  | Sym.lg a => lg (eval ex lg pw a)
  | Sym.pw a b => pw (eval ex lg pw a) (eval ex lg pw b)

/-- purely rational terms can be folded -/
def ratOnly : Sym → Bool
  | r _ => true
  | add a b | sub a b | mul a b | div a b => ratOnly a && ratOnly b
  | _ => false
end Sym

/-- keyword / source vocabulary of the integrator wiring -/
inductive Slot
  | phi | xx | T | theta | initialT | demeIds | zero
  | nu (k : Nat) | M (i j : Nat) | gamma (k : Nat) | h (k : Nat) | frozen (k : Nat)
  | other (s : String)
deriving DecidableEq, Repr

/-- one call `dadi.Integration.<fn>(...)` in `_integrate_phi`: guard `len(pop_ids) == npop`, callee, and for every
    parameter of the callee that receives an argument (positional ones resolved through the callee's signature)
    the expression it is fed from -/
structure IntegCall where
  npop : Nat
  fn : String
  args : List (Slot × Slot)
deriving DecidableEq, Repr

/-- a record appended to `dadi.Demes.cache` (arguments as far as the export needs them).
    `pulse`: `sources`, `dest` 1-based as written, `props` = index of each proportion in the function's own
    proportion parameters (99 = something else).  `split`: index into the generated list of proportion functions.
    `integ*`: which parameters are logged as sizes / migration rates, in order. -/
inductive Ev
  | initiation (nuIsParam : Bool)
  | split (id : Nat)
  | pulse (sources : List Nat) (dest : Nat) (props : List Nat)
  | remove (argIsPopnum : Bool)
  | reorder (argIsNeworder : Bool)
  | integConst (durationOk : Bool) (sizes : List Slot) (mig : List Slot)
  | integNonConst (sizes0 mig0 sizes mig : List Slot)
  | unknown (s : String)
deriving DecidableEq, Repr

/-- one control-flow path through a function (loops are opaque; `cuda_enabled` is False):
    how it leaves, whether it is one of the two documented no-op exits (`frozen` single population, zero duration),
    and the cache records appended on the way -/
structure PathRec where
  exit : String
  noop : Bool
  events : List Ev
deriving DecidableEq, Repr

structure FnPaths where
  fn : String
  /-- `Demes.cache = [...]` (reset) instead of `.append` -/
  resets : Bool
  paths : List PathRec
deriving DecidableEq, Repr

/-- `_split_phi`, branch `len(pop_ids) == npop`, parent index `parent`: PhiManip function called and the proportion
    arguments it receives (literals) -/
structure SplitRow where
  npop : Nat
  parent : Nat
  fn : String
  fs : List Rat
deriving DecidableEq, Repr

/-- `_admix_new_pop_phi`, branch `len(pop_ids) == npop`: function and which entries of the sorted proportion list
    are passed -/
structure AdmixNewRow where
  npop : Nat
  fn : String
  slots : List Nat
deriving DecidableEq, Repr

/-- `_admix_phi`, branch `len(pop_ids) == npop`, destination index `dest`: pulse function chosen and which entries of
    which list it receives (`sorted = true`: the list made by `_make_sorted_proportions_list`, else the raw
    `proportions`) -/
structure PulseRow where
  npop : Nat
  dest : Nat
  fn : String
  sorted : Bool
  slots : List Nat
deriving DecidableEq, Repr

/-- an epoch as `DemesUtil.slice` sees it in `g.asdict()` (its start time is the previous epoch's end time / the deme's start) -/
structure InEpoch where
  fn : SizeFn
  ss : Rat
  es : Rat
  et : Rat
deriving Repr

/-- … and as `_shift_deme_time` leaves it: `es = none` when `_size_at` has no value for the size function -/
structure OutEpoch where
  fn : SizeFn
  ss : Rat
  es : Option Sym
  et : Rat
deriving Repr

end DadiVerif.DemesConv
