/-
C16 — primitives that the GENERATED file `Generated/Demes.lean` is written in terms of.  Core Lean only.

* `ETime`   : a demes time, `none` = `math.inf` (start of the root deme / of an eternal migration).
* `Sym`     : size-valued expressions.  `_sizes_at_time` and `_make_nu_func` use `numpy.exp`, `numpy.log` and a
              non-integer power; the translator emits their formulas as `Sym` terms (deep embedding).  The driver prints
              the term (the harness evaluates it in IEEE arithmetic and compares with the implementation), the theorems
              are about `Sym.eval ex lg pw` for ARBITRARY functions `ex lg pw` — so nothing is assumed about the
              transcendental functions.
* `Slot`    : what a keyword of an integrator call is / is fed from (`nu 2` = third population's size, `M 0 3` = entry
              `M[0,3]` resp. parameter `m14`, …), the vocabulary of the wiring tables.
* `Ev`      : one record appended to `dadi.Demes.cache`.
-/
namespace DadiVerif.DemesConv

/-- a demes time; `none` is `math.inf` -/
abbrev ETime := Option Rat

/-- numeric value where the code does arithmetic with a time (never reached with `inf`: guarded by `==` tests) -/
def tval : ETime → Rat
  | none => 0
  | some t => t

def isInf : ETime → Bool
  | none => true
  | some _ => false

/-- Python `==` on times (`inf == inf` is True) -/
def teq (a b : ETime) : Bool :=
  match a, b with
  | none, none => true
  | some x, some y => x == y
  | _, _ => false

/-- Python `>=` / `<=` on times -/
def tge (a b : ETime) : Bool :=
  match a, b with
  | none, _ => true
  | some _, none => false
  | some x, some y => decide (y ≤ x)

def tle (a b : ETime) : Bool := tge b a

def tscale (c : Rat) : ETime → ETime
  | none => none
  | some t => some (c * t)

/-- `time -= t` (`inf - t` is `inf`) -/
def tsub : ETime → Rat → ETime
  | none, _ => none
  | some x, t => some (x - t)

/-- a map on finite times -/
def tmapT (f : Rat → Rat) : ETime → ETime
  | none => none
  | some x => some (f x)

inductive SizeFn
  | constant | exponential | linear | other
deriving DecidableEq, Repr

/-- size-valued expression with uninterpreted `exp`, `log`, real power -/
inductive Sym
  | r (q : Rat)
  | add (a b : Sym)
  | sub (a b : Sym)
  | mul (a b : Sym)
  | div (a b : Sym)
  | ex (a : Sym)
  | lg (a : Sym)
  | pw (a b : Sym)
deriving Repr, Inhabited

namespace Sym
def eval (ex lg : Rat → Rat) (pw : Rat → Rat → Rat) : Sym → Rat
  | r q => q
  | add a b => eval ex lg pw a + eval ex lg pw b
  | sub a b => eval ex lg pw a - eval ex lg pw b
  | mul a b => eval ex lg pw a * eval ex lg pw b
  | div a b => eval ex lg pw a / eval ex lg pw b
  | Sym.ex a => ex (eval ex lg pw a)
  | Sym.lg a => lg (eval ex lg pw a)
  | Sym.pw a b => pw (eval ex lg pw a) (eval ex lg pw b)

/-- purely rational terms can be folded -/
def ratOnly : Sym → Bool
  | r _ => true
  | add a b | sub a b | mul a b | div a b => ratOnly a && ratOnly b
  | _ => false
end Sym

/-- keyword / source vocabulary of the integrator wiring -/
inductive Slot
  | phi | xx | T | theta | initialT | demeIds | zero
  | nu (k : Nat) | M (i j : Nat) | gamma (k : Nat) | h (k : Nat) | frozen (k : Nat)
  | other (s : String)
deriving DecidableEq, Repr

/-- one call `dadi.Integration.<fn>(...)` in `_integrate_phi`: guard `len(pop_ids) == npop`, callee, and for every
    parameter of the callee that receives an argument (positional ones resolved through the callee's signature)
    the expression it is fed from -/
structure IntegCall where
  npop : Nat
  fn : String
  args : List (Slot × Slot)
deriving DecidableEq, Repr

/-- a record appended to `dadi.Demes.cache` (arguments as far as the export needs them).
    `pulse`: `sources`, `dest` 1-based as written, `props` = index of each proportion in the function's own
    proportion parameters (99 = something else).  `split`: index into the generated list of proportion functions.
    `integ*`: which parameters are logged as sizes / migration rates, in order. -/
inductive Ev
  | initiation (nuIsParam : Bool)
  | split (id : Nat)
  | pulse (sources : List Nat) (dest : Nat) (props : List Nat)
  | remove (argIsPopnum : Bool)
  | reorder (argIsNeworder : Bool)
  | integConst (durationOk : Bool) (sizes : List Slot) (mig : List Slot)
  | integNonConst (sizes0 mig0 sizes mig : List Slot)
  | unknown (s : String)
deriving DecidableEq, Repr

/-- one control-flow path through a function (loops are opaque; `cuda_enabled` is False):
    how it leaves, whether it is one of the two documented no-op exits (`frozen` single population, zero duration),
    and the cache records appended on the way -/
structure PathRec where
  exit : String
  noop : Bool
  events : List Ev
deriving DecidableEq, Repr

structure FnPaths where
  fn : String
  /-- `Demes.cache = [...]` (reset) instead of `.append` -/
  resets : Bool
  paths : List PathRec
deriving DecidableEq, Repr

/-- `_split_phi`, branch `len(pop_ids) == npop`, parent index `parent`: PhiManip function called and the proportion
    arguments it receives (literals) -/
structure SplitRow where
  npop : Nat
  parent : Nat
  fn : String
  fs : List Rat
deriving DecidableEq, Repr

/-- `_admix_new_pop_phi`, branch `len(pop_ids) == npop`: function and which entries of the sorted proportion list
    are passed -/
structure AdmixNewRow where
  npop : Nat
  fn : String
  /-- the arguments are entries of the list made by `_make_sorted_proportions_list` (false: of the raw `proportions`) -/
  sorted : Bool
  slots : List Nat
deriving DecidableEq, Repr

/-- `_admix_phi`, branch `len(pop_ids) == npop`, destination index `dest`: pulse function chosen and which entries of
    which list it receives (`sorted = true`: the list made by `_make_sorted_proportions_list`, else the raw
    `proportions`) -/
structure PulseRow where
  npop : Nat
  dest : Nat
  fn : String
  sorted : Bool
  slots : List Nat
deriving DecidableEq, Repr

/-- an epoch as `DemesUtil.slice` sees it in `g.asdict()` (its start time is the previous epoch's end time / the deme's start) -/
structure InEpoch where
  fn : SizeFn
  ss : Rat
  es : Rat
  et : Rat
deriving Repr

/-- … and as `_shift_deme_time` leaves it: `es = none` when `_size_at` has no value for the size function -/
structure OutEpoch where
  fn : SizeFn
  ss : Rat
  es : Option Sym
  et : Rat
deriving Repr

/-- the part of a resolved demes epoch the conversion reads (`epoch.start_time` … as attributes of a demes `Epoch`) -/
structure Epoch where
  fn : SizeFn
  ss : Rat
  es : Rat
  st : ETime
  et : ETime
deriving Repr

/-! ### graphs (round 4): what `DemesUtil.slice`, `_augment_with_ancient_samples`, `_get_demographic_events` and
    `_get_integration_parameters` read and write -/

/-- a deme name.  `base` numbers the names of the input graph; every sampled copy made by `_augment_with_ancient_samples`
    (`sd + "_sampled_" + <time>`) appends the time to `stamps` -/
structure DName where
  base : Nat
  stamps : List Rat
deriving DecidableEq, Repr

/-- `sd + f"_sampled_{…(st + t)…}"` -/
def DName.sampledAt (n : DName) (x : Rat) : DName := { base := n.base, stamps := n.stamps ++ [x] }

/-- a deme as in `g.asdict()["demes"]`, epochs of type `ε` (`InEpoch` before, `OutEpoch` after `_shift_deme_time`) -/
structure GDeme (ε : Type) where
  name : DName
  start : ETime
  ancestors : List DName
  proportions : List Rat
  epochs : List ε
deriving Repr

/-- a migration.  `sym = none`: an asymmetric migration (`.source`, `.dest`; the only kind a resolved graph holds);
    `sym = some ds`: an object with `.demes` and no `.source` (the `except AttributeError` branch of
    `_migration_rate_in_interval`) -/
structure GMig where
  source : DName
  dest : DName
  sym : Option (List DName)
  rate : Rat
  st : ETime
  et : Rat
deriving Repr

structure GPulse where
  sources : List DName
  dest : DName
  props : List Rat
  time : Rat
deriving Repr

structure Graph (ε : Type) where
  demes : List (GDeme ε)
  migs : List GMig
  pulses : List GPulse
deriving Repr

/-- epoch types whose times can be re-expressed in another unit -/
class TimeScalable (ε : Type) where
  tmap : (Rat → Rat) → ε → ε

instance : TimeScalable InEpoch := ⟨fun f e => { e with et := f e.et }⟩
instance : TimeScalable OutEpoch := ⟨fun f e => { e with et := f e.et }⟩

def GDeme.tmap {ε : Type} [TimeScalable ε] (f : Rat → Rat) (d : GDeme ε) : GDeme ε :=
  { d with start := tmapT f d.start, epochs := d.epochs.map (TimeScalable.tmap f) }

def GMig.tmap (f : Rat → Rat) (m : GMig) : GMig := { m with st := tmapT f m.st, et := f m.et }

def GPulse.tmap (f : Rat → Rat) (p : GPulse) : GPulse := { p with time := f p.time }

/-- every finite time of the graph mapped by `f` (names, sizes and rates untouched) -/
def Graph.tmap {ε : Type} [TimeScalable ε] (f : Rat → Rat) (g : Graph ε) : Graph ε :=
  { demes := g.demes.map (GDeme.tmap f), migs := g.migs.map (GMig.tmap f), pulses := g.pulses.map (GPulse.tmap f) }

/-- demes' `Graph.in_generations()`: every time divided by the generation time (rates are per generation in every unit) -/
def Graph.inGenerations {ε : Type} [TimeScalable ε] (gt : Rat) (g : Graph ε) : Graph ε := g.tmap (fun x => x / gt)

/-- an untouched epoch seen as the output type of `_shift_deme_time` (`slice(g, 0)` returns `g` itself) -/
def InEpoch.toOut (e : InEpoch) : OutEpoch := { fn := e.fn, ss := e.ss, es := some (Sym.r e.es), et := e.et }

def GDeme.toOut (d : GDeme InEpoch) : GDeme OutEpoch :=
  { name := d.name, start := d.start, ancestors := d.ancestors, proportions := d.proportions, epochs := d.epochs.map InEpoch.toOut }

def Graph.toOut (g : Graph InEpoch) : Graph OutEpoch := { demes := g.demes.map GDeme.toOut, migs := g.migs, pulses := g.pulses }

/-- Python `for x in xs: …; if …: break` whose body appends one element per pass: `step state x = (appended, state', broke)` -/
def loopBreak {σ α β : Type} (step : σ → α → β × σ × Bool) : σ → List α → List β
  | _, [] => []
  | s, x :: rest =>
      let r := step s x
      if r.2.2 then [r.1] else r.1 :: loopBreak step r.2.1 rest

/-- Python `for x in xs: if <c x>: break` (no `else`): afterwards `x` is the first element with `c`, or the LAST element when
    the loop runs to its end (unbound for an empty list) -/
def forBreak {α : Type} (c : α → Bool) (xs : List α) : Option α :=
  match xs.find? c with
  | some x => some x
  | none => xs.getLast?

/-- `min(xs)` of a non-empty list (0 for the empty one; the caller rejects it) -/
def listMin : List Rat → Rat
  | [] => 0
  | x :: xs => xs.foldl (fun a b => if b < a then b else a) x

/-- state of the loop of `_augment_with_ancient_samples`: the builder's data, the (mutated) list of sampled demes, the frozen
    names, the dict `renamed` -/
structure AugSt where
  demes : List (GDeme OutEpoch)
  migs : List GMig
  pulses : List GPulse
  sampled : List DName
  frozen : List DName
  renamed : List (DName × DName)
deriving Repr

/-- `renamed.get(k, dflt)` -/
def dictGet (d : List (DName × DName)) (k dflt : DName) : DName :=
  match d.find? (fun p => p.1 == k) with
  | some p => p.2
  | none => dflt

/-- `renamed[k] = v` (insertion order kept, an existing key overwritten) -/
def dictSet (d : List (DName × DName)) (k v : DName) : List (DName × DName) :=
  if d.any (fun p => p.1 == k) then d.map (fun p => if p.1 == k then (k, v) else p) else d ++ [(k, v)]

/-- one demographic event as `_get_demographic_events` stores it in `demo_events[time]` -/
inductive DEvt
  | pulses (sources : List DName) (dest : DName) (props : List Rat)
  | branch (parent child : DName)
  | merge (parents : List DName) (props : List Rat) (child : DName)
  | admix (parents : List DName) (props : List Rat) (child : DName)
  | split (parent : DName) (children : List DName)
  | marginalize (deme : DName)
deriving DecidableEq, Repr

end DadiVerif.DemesConv
