import DadiVerif.Generated.PDFs
/-!
# C17 — the compiled bivariate densities: loops, buffers, dispatch (core Lean only; run by the driver)

`Generated/PDFs.lean` holds what is read from dadi/DFE/PDFs.c, PDFs_cython.pyx and PDFs.py (loop extents, the flat
index expression, the parameter-count dispatch, the Lanczos coefficients).  This file adds the *meaning* of those
pieces: a counted C loop, a write into a flat buffer of unknown content (`np.empty`), numpy's row-major addressing,
and what the Cython wrapper returns as a 2-D array.  The per-cell real-valued expressions are in
`Generated/PDFsReal.lean` (not executable); here the stored value is an arbitrary function `val ii jj`.
-/
namespace DadiVerif.PDFs
open DadiVerif.Gen.PDFs

/-- `for (k = 0; k < n; k++) s = body k s` -/
def loopTo {σ : Type} : Nat → (Nat → σ → σ) → σ → σ
  | 0, _, s => s
  | k + 1, body, s => body k (loopTo k body s)

/-- `buf[k] = v` on a flat buffer; `none` = never written (the content `np.empty` left there) -/
def write {α : Type} (buf : Nat → Option α) (k : Nat) (v : α) : Nat → Option α :=
  fun t => if t = k then some v else buf t

/-- the inner loop `for (jj < C) output[idx jj] = val jj` -/
def rowFill {α : Type} (C : Nat) (idx : Nat → Nat) (val : Nat → α) (buf : Nat → Option α) : Nat → Option α :=
  loopTo C (fun jj b => write b (idx jj) (val jj)) buf

/-- the nested output loop `for (ii < R) for (jj < C) output[idx ii jj] = val ii jj` on a fresh buffer -/
def fill2 {α : Type} (R C : Nat) (idx : Nat → Nat → Nat) (val : Nat → Nat → α) : Nat → Option α :=
  loopTo R (fun ii buf => rowFill C (idx ii) (val ii) buf) (fun _ => none)

/-- numpy: entry [i, j] of a C-contiguous array of shape (R, C) lives at flat offset i·C + j -/
def rowMajor (_R C i j : Nat) : Nat := i * C + j

/-- the flat buffer after `biv_lognormal` / `biv_ind_gamma` ran with the arguments the Cython wrapper binds for inputs
    of sizes `xs`, `ys`, `ps` (`gam = false`: lognormal) -/
def bufferAfter {α : Type} (gam : Bool) (xs ys ps : Nat) (val : Nat → Nat → α) : Nat → Option α :=
  if gam then
    let n := pyx_g_n xs ys ps; let m := pyx_g_m xs ys ps
    fill2 (c_g_outer n m) (c_g_inner n m) (c_g_index n m) val
  else
    let n := pyx_ln_n xs ys ps; let m := pyx_ln_m xs ys ps
    fill2 (c_ln_outer n m) (c_ln_inner n m) (c_ln_index n m) val

/-- shape of the array the wrapper allocates and returns -/
def resultShape (gam : Bool) (xs ys ps : Nat) : Nat × Nat :=
  if gam then pyx_g_shape xs ys ps else pyx_ln_shape xs ys ps

/-- entry [i, j] of the array the wrapper returns -/
def resultAt {α : Type} (gam : Bool) (xs ys ps : Nat) (val : Nat → Nat → α) (i j : Nat) : Option α :=
  let sh := resultShape gam xs ys ps
  bufferAfter gam xs ys ps val (rowMajor sh.1 sh.2 i j)

/-- number of flat positions at or beyond the end of the allocated buffer that were written, among the first `bound` -/
def writtenBeyond {α : Type} (gam : Bool) (xs ys ps bound : Nat) (val : Nat → Nat → α) : Nat :=
  let sh := resultShape gam xs ys ps
  ((List.range bound).filter fun k => decide (sh.1 * sh.2 ≤ k) && (bufferAfter gam xs ys ps val k).isSome).length

/-- value of a dispatched variable: `some (some k)` = `params[k]`, `some none` = left at its initial value -/
def dispatchOf (table : List (String × Option Nat)) (v : String) : Option (Option Nat) :=
  (table.find? fun p => p.1 == v).map (·.2)

/-- the series part of `gamma_func` for the already decremented argument `z`:
    `x = c0; for (ii < 8) x += p[ii]/(z + ii + 1)` -/
def lanczosSeries (z : Rat) : Rat :=
  (loopTo lanczosCoeffs.length (fun ii x => x + lanczosTerm (lanczosCoeffs.getD ii 0) z (ii : Rat)) lanczosC0)

end DadiVerif.PDFs
