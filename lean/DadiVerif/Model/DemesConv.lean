import DadiVerif.Generated.Demes
/-
C16 — executable model of the demes <-> dadi conversion layer (core Lean only).  The formulas and tables come from
`Generated/Demes.lean` (regenerated from dadi/Demes/Demes.py, dadi/Demes/__init__.py, dadi/PhiManip.py,
dadi/Integration.py); this file composes them the way `_get_integration_parameters` / `_make_nu_func` / `output` do and
states the expected wiring as Boolean specifications.  `Driver/DemesConv.lean` executes these definitions,
`Props/C16.lean` proves theorems about them.
-/
namespace DadiVerif.DemesConv
open Gen.Demes

/-! ### epochs, scaling of a graph -/

/-- the part of a resolved demes epoch the conversion reads -/
structure Epoch where
  fn : SizeFn
  ss : Rat
  es : Rat
  st : ETime
  et : ETime
deriving Repr

/-- demes `Epoch.time_span` = start_time - end_time (infinite for the root epoch; never used there, see `sizesAt`) -/
def Epoch.span (e : Epoch) : Rat := tval e.st - tval e.et

/-- the same history in units where sizes and times are multiplied by `c` -/
def Epoch.scale (c : Rat) (e : Epoch) : Epoch :=
  { fn := e.fn, ss := c * e.ss, es := c * e.es, st := tscale c e.st, et := tscale c e.et }

/-- `_sizes_at_time` on an epoch -/
def epochSizes (e : Epoch) (i0 i1 : ETime) : Option (Sym × Sym) :=
  sizesAt e.fn e.ss e.es e.st e.et e.span i0 i1

/-- `_make_nu_func`, one deme: `allConst` = every live deme is constant on the interval (then a number `s[0]/Ne`),
    otherwise the lambda of the deme's size function evaluated at dadi time `t` -/
def nuFn (fn : SizeFn) (allConst : Bool) (N0 NF : Sym) (Ne T t : Rat) : Option Sym :=
  if allConst then some (nuConstList N0 Ne) else
  match fn with
  | SizeFn.constant => some (nuConstFn N0 NF Ne T t)
  | SizeFn.linear => some (nuLinear N0 NF Ne T t)
  | SizeFn.exponential => some (nuExp N0 NF Ne T t)
  | SizeFn.other => none

/-- relative size of a deme at dadi time `t` (0 ≤ t ≤ T) within the integration interval (i0, i1) -/
def demeNu (e : Epoch) (allConst : Bool) (i0 i1 : ETime) (Ne t : Rat) : Option Sym :=
  match epochSizes e i0 i1 with
  | none => none
  | some (a, b) => nuFn e.fn allConst a b Ne (intTime i0 i1 Ne) t

/-! ### `_make_sorted_proportions_list`, final order -/

/-- zeros of length `n`, then `l[i] = prop for i, prop in zip(src, props)` -/
def placeProps (n : Nat) (src : List Nat) (props : List Rat) : List Rat :=
  (src.zip props).foldl (fun l p => l.set p.1 p.2) (List.replicate n 0)

/-- … then `l.pop(dest)` unless `dest` is None -/
def sortedProps (n : Nat) (src : List Nat) (props : List Rat) (dest : Option Nat) : List Rat :=
  match dest with
  | none => placeProps n src props
  | some d => (placeProps n src props).eraseIdx d

/-- `[current.index(pop)+1 for pop in sampled]` (demes named by numbers) -/
def newOrder (current sampled : List Nat) : List Nat :=
  sampled.map fun p => current.idxOf p + 1

/-- population on each axis after `reorder_pops(phi, order)` (axis k of the result is axis order[k]-1 of the input) -/
def applyOrder (current order : List Nat) : List Nat :=
  order.map fun n => current.getD (n - 1) 0

/-! ### export: end times -/

/-- `output`: durations of the cache records (oldest first) ↦ their end times -/
def endTimes : List Rat → List Rat
  | [] => []
  | [_] => [lastEndTime]
  | _ :: d' :: rest =>
      let tl := endTimes (d' :: rest)
      olderEndTime (tl.headD 0) d' :: tl

/-! ### `DemesUtil.slice`: epochs of one deme -/

/-- `_shift_deme_time`: the loop `for e in v:` over the epochs of a deme, `st` = its start time -/
def shiftEpochs (t : Rat) : ETime → List InEpoch → List OutEpoch
  | _, [] => []
  | st, e :: rest =>
      let r := shiftStep t st e
      if r.2.2 then [r.1] else r.1 :: shiftEpochs t r.2.1 rest

/-- what slicing at `t` must give: epochs older than `t` keep their sizes and are shifted; the epoch that contains `t` ends at 0
    with the size its own size function has at `t` — interpolated between its ORIGINAL start (the previous epoch's original end,
    or the deme's start) and its original end; younger epochs are dropped -/
def sliceSpec (t : Rat) : ETime → List InEpoch → List OutEpoch
  | _, [] => []
  | st, e :: rest =>
      if e.et ≤ t then [{ fn := e.fn, ss := e.ss, es := sliceSizeAt e.fn t e.ss e.es st e.et, et := 0 }]
      else { fn := e.fn, ss := e.ss, es := some (Sym.r e.es), et := e.et - t } :: sliceSpec t (some e.et) rest

/-! ### expected wiring (specifications as Boolean predicates over the generated tables) -/

def look (c : IntegCall) (p : Slot) : Option Slot := c.args.lookup p

def integName : Nat → String
  | 1 => "one_pop" | 2 => "two_pops" | 3 => "three_pops" | 4 => "four_pops" | 5 => "five_pops" | _ => ""

/-- population k receives nu[k], an entry of the (uniform, see `gammaHUniform`) gamma and h lists, and M[k,j] as m_{k+1,j+1} -/
def popWiredNoFrozen (c : IntegCall) (k : Nat) : Bool :=
  look c (Slot.nu k) == some (Slot.nu k)
  && (List.range c.npop).any (fun j => look c (Slot.gamma k) == some (Slot.gamma j))
  && (List.range c.npop).any (fun j => look c (Slot.h k) == some (Slot.h j))
  && (List.range c.npop).all fun j => j == k || look c (Slot.M k j) == some (Slot.M k j)

/-- … and frozen[k] -/
def popWired (c : IntegCall) (k : Nat) : Bool :=
  popWiredNoFrozen c k && look c (Slot.frozen k) == some (Slot.frozen k)

def commonWired (c : IntegCall) : Bool :=
  c.fn == integName c.npop
  && look c Slot.phi == some Slot.phi && look c Slot.xx == some Slot.xx && look c Slot.T == some Slot.T
  && look c Slot.theta == some Slot.theta && look c Slot.demeIds == some Slot.demeIds
  && (look c Slot.initialT == none || look c Slot.initialT == some Slot.zero)
  && c.args.all fun p => match p.1 with
      | Slot.other _ => false
      | _ => true

def wiringOk (c : IntegCall) : Bool :=
  commonWired c && (List.range c.npop).all (popWired c)

def wiringOkNoFrozen (c : IntegCall) : Bool :=
  commonWired c && (List.range c.npop).all (popWiredNoFrozen c)

/-- full proportion vector (remainder appended) a new-population constructor applies for the passed `fs` -/
def fullProps (fs : List Rat) : List Rat := fs ++ [1 - fs.sum]

def unitVec (n k : Nat) : List Rat := (List.range n).map fun i => if i == k then 1 else 0

def newPopName : Nat → String
  | 1 => "phi_1D_to_2D" | 2 => "phi_2D_to_3D_admix" | 3 => "phi_3D_to_4D" | 4 => "phi_4D_to_5D" | _ => ""

/-- a `_split_phi` row makes the new (last) population a copy of population `parent` -/
def splitRowOk (r : SplitRow) : Bool :=
  if r.npop == 1 then r.fn == "phi_1D_to_2D" && r.fs.isEmpty && r.parent == 0
  else fullProps r.fs == unitVec r.npop r.parent
       && (r.fn == newPopName r.npop || (r.npop == 2 && r.fn == (if r.parent == 0 then "phi_2D_to_3D_split_1" else "phi_2D_to_3D_split_2")))

def admixNewRowOk (r : AdmixNewRow) : Bool :=
  r.fn == newPopName r.npop && r.slots == List.range (r.npop - 1)

/-- a pulse function receives the sorted list (destination removed) in order; with two populations the single raw
    proportion is the same thing -/
def pulseRowOk (r : PulseRow) : Bool :=
  r.slots == List.range (r.npop - 1) && (r.sorted || r.npop == 2)

/-- the records a function leaves on the paths that neither raise nor are documented no-ops -/
def liveEvents (f : FnPaths) : List (List Ev) :=
  (f.paths.filter fun p => p.exit != "raise" && !p.noop).map (·.events)

def migOrder (n : Nat) : List Slot :=
  (List.range n).flatMap fun i => ((List.range n).filter (· != i)).map fun j => Slot.M i j

def nuOrder (n : Nat) : List Slot := (List.range n).map Slot.nu

/-- an integrator of `n` populations logs exactly one record per live path, with sizes nu1..nun and the migration
    rates in the dest-major order `output` reads them -/
def integEventsOk (n : Nat) (f : FnPaths) : Bool :=
  !f.resets && !(liveEvents f).isEmpty && (liveEvents f).all fun evs =>
    match evs with
    | [Ev.integConst d s m] => d && s == nuOrder n && m == migOrder n
    | [Ev.integNonConst s0 m0 s m] => s0 == nuOrder n && s == nuOrder n && m0 == migOrder n && m == migOrder n
    | _ => false

def findPaths (name : String) : Option FnPaths := fnPaths.find? (·.fn == name)

/-- a pulse primitive of `PhiManip` with 0-based destination axis `dest`, source axes `srcs` and `nf` proportion
    parameters logs exactly `Pulse(sources = srcs+1, dest = dest+1, proportions = its parameters in order)` -/
def pulseEventsOk (name : String) (dest : Nat) (srcs : List Nat) (nf : Nat) : Bool :=
  match findPaths name with
  | none => false
  | some f => !f.resets && liveEvents f == [[Ev.pulse (srcs.map (· + 1)) (dest + 1) (List.range nf)]]

/-- weaker: whatever pulse record is logged has the right sources and proportions (destination and presence not checked) -/
def pulseEventsWeak (name : String) (srcs : List Nat) (nf : Nat) : Bool :=
  match findPaths name with
  | none => false
  | some f => (liveEvents f).all fun evs => evs.all fun e =>
      match e with
      | Ev.pulse s _ p => s == srcs.map (· + 1) && p == List.range nf
      | _ => false

def splitEventOf (name : String) : Option Nat :=
  match findPaths name with
  | none => none
  | some f => match liveEvents f with
    | [[Ev.split i]] => if f.resets then none else some i
    | _ => none

def simpleEventOk (name : String) (e : Ev) (resets : Bool) : Bool :=
  match findPaths name with
  | none => false
  | some f => f.resets == resets && liveEvents f == [[e]]

end DadiVerif.DemesConv
