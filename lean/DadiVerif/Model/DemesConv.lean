import DadiVerif.Generated.Demes
/-
C16 — executable model of the demes <-> dadi conversion layer (core Lean only).  The formulas and tables come from
`Generated/Demes.lean` (regenerated from dadi/Demes/Demes.py, dadi/Demes/__init__.py, dadi/PhiManip.py,
dadi/Integration.py); this file composes them the way `_get_integration_parameters` / `_make_nu_func` / `output` do and
states the expected wiring as Boolean specifications.  `Driver/DemesConv.lean` executes these definitions,
`Props/C16.lean` proves theorems about them.
-/
namespace DadiVerif.DemesConv
open Gen.Demes

/-! ### epochs, scaling of a graph -/

/-- demes `Epoch.time_span` = start_time - end_time (infinite for the root epoch; never used there, see `sizesAt`) -/
def Epoch.span (e : Epoch) : Rat := tval e.st - tval e.et

/-- the same history in units where sizes and times are multiplied by `c` -/
def Epoch.scale (c : Rat) (e : Epoch) : Epoch :=
  { fn := e.fn, ss := c * e.ss, es := c * e.es, st := tscale c e.st, et := tscale c e.et }

/-- `_sizes_at_time` on an epoch -/
def epochSizes (e : Epoch) (i0 i1 : ETime) : Option (Sym × Sym) :=
  sizesAt e.fn e.ss e.es e.st e.et e.span i0 i1

/-- `_make_nu_func`, one deme: `allConst` = every live deme is constant on the interval (then a number `s[0]/Ne`),
    otherwise the lambda of the deme's size function evaluated at dadi time `t` -/
def nuFn (fn : SizeFn) (allConst : Bool) (N0 NF : Sym) (Ne T t : Rat) : Option Sym :=
  if allConst then some (nuConstList N0 Ne) else
  match fn with
  | SizeFn.constant => some (nuConstFn N0 NF Ne T t)
  | SizeFn.linear => some (nuLinear N0 NF Ne T t)
  | SizeFn.exponential => some (nuExp N0 NF Ne T t)
  | SizeFn.other => none

/-- relative size of a deme at dadi time `t` (0 ≤ t ≤ T) within the integration interval (i0, i1) -/
def demeNu (e : Epoch) (allConst : Bool) (i0 i1 : ETime) (Ne t : Rat) : Option Sym :=
  match epochSizes e i0 i1 with
  | none => none
  | some (a, b) => nuFn e.fn allConst a b Ne (intTime i0 i1 Ne) t

/-! ### `_make_sorted_proportions_list`, final order -/

/-- zeros of length `n`, then `l[i] = prop for i, prop in zip(src, props)` -/
def placeProps (n : Nat) (src : List Nat) (props : List Rat) : List Rat :=
  (src.zip props).foldl (fun l p => l.set p.1 p.2) (List.replicate n 0)

/-- … then `l.pop(dest)` unless `dest` is None -/
def sortedProps (n : Nat) (src : List Nat) (props : List Rat) (dest : Option Nat) : List Rat :=
  match dest with
  | none => placeProps n src props
  | some d => (placeProps n src props).eraseIdx d

/-- `[current.index(pop)+1 for pop in sampled]` (demes named by numbers) -/
def newOrder (current sampled : List Nat) : List Nat :=
  sampled.map fun p => current.idxOf p + 1

/-- population on each axis after `reorder_pops(phi, order)` (axis k of the result is axis order[k]-1 of the input) -/
def applyOrder (current order : List Nat) : List Nat :=
  order.map fun n => current.getD (n - 1) 0

/-! ### export: end times -/

/-- `output`: durations of the cache records (oldest first) ↦ their end times -/
def endTimes : List Rat → List Rat
  | [] => []
  | [_] => [lastEndTime]
  | _ :: d' :: rest =>
      let tl := endTimes (d' :: rest)
      olderEndTime (tl.headD 0) d' :: tl

/-! ### `DemesUtil.slice`: epochs of one deme -/

/-- `_shift_deme_time`: the loop `for e in v:` over the epochs of a deme, `st` = its start time -/
def shiftEpochs (t : Rat) : ETime → List InEpoch → List OutEpoch := loopBreak (shiftStep t)

/-- what slicing at `t` must give: epochs older than `t` keep their sizes and are shifted; the epoch that contains `t` ends at 0
    with the size its own size function has at `t` — interpolated between its ORIGINAL start (the previous epoch's original end,
    or the deme's start) and its original end; younger epochs are dropped -/
def sliceSpec (t : Rat) : ETime → List InEpoch → List OutEpoch
  | _, [] => []
  | st, e :: rest =>
      if e.et ≤ t then [{ fn := e.fn, ss := e.ss, es := sliceSizeAt e.fn t e.ss e.es st e.et, et := 0 }]
      else { fn := e.fn, ss := e.ss, es := some (Sym.r e.es), et := e.et - t } :: sliceSpec t (some e.et) rest

/-! ### graph level (round 4): the import of a whole graph as a table of integration rows and events

`Generated/Demes.lean` holds the translated pieces (`migRateStep`, `epochSearch`, `freezeFlags`, `demePresent`, `marginalizeCond`,
`sliceGraph`, `augment`, `sfsPrepare`); here they are composed the way `_get_demographic_events`, `_get_integration_parameters` and
`_compute_sfs` compose them.  The `demes` library itself (resolution, `discrete_demographic_events`) is not modelled: the list of
split / branch / merge / admix / pulse events is an input (`lib`). -/

/-- `_migration_rate_in_interval(g, source, dest, interval)`: the loop over `g.migrations` (no `break`: the last match wins) -/
def migRate (migs : List GMig) (source dest : DName) (i0 i1 : ETime) : Rat :=
  migs.foldl (fun r m => migRateStep r m source dest i0 i1) migRateInit

/-- the epochs of a deme as demes `Epoch` objects: each knows its start time (the previous epoch's end, or the deme's start) -/
def epochsOf : ETime → List InEpoch → List Epoch
  | _, [] => []
  | st, e :: rest => { fn := e.fn, ss := e.ss, es := e.es, st := st, et := some e.et } :: epochsOf (some e.et) rest

/-- `g[d].end_time` -/
def GDeme.endTime (d : GDeme InEpoch) : ETime :=
  match d.epochs.getLast? with
  | some e => some e.et
  | none => d.start

/-- `_sizes_at_time(g, deme_id, interval)`: epoch search, then the sizes on the interval -/
def demeSizes (d : GDeme InEpoch) (i0 i1 : ETime) : Option (SizeFn × Sym × Sym) :=
  match epochSearch (epochsOf d.start d.epochs) i0 i1 with
  | none => none
  | some e => (epochSizes e i0 i1).map fun p => (e.fn, p.1, p.2)

/-- insertion into a strictly descending list of times (`break_points` is a set) -/
def insDesc (x : ETime) : List ETime → List ETime
  | [] => [x]
  | y :: ys => if teq x y then y :: ys else if tge x y then x :: y :: ys else y :: insDesc x ys

/-- the distinct times in descending order -/
def sortDesc (l : List ETime) : List ETime := l.foldr insDesc []

def breakPoints (g : Graph InEpoch) : List ETime :=
  (g.demes.flatMap fun d => (epochsOf d.start d.epochs).flatMap fun e => [e.st, e.et])
    ++ g.pulses.map (fun p => some p.time) ++ g.migs.flatMap fun m => [m.st, some m.et]

/-- `integration_times`: consecutive pairs of the descending break points -/
def intervals (g : Graph InEpoch) : List (ETime × ETime) :=
  let s := sortDesc (breakPoints g)
  s.zip s.tail

/-- demes by descending start time, graph order within one start time (`deme_start_times`) -/
def insByStart (d : GDeme InEpoch) : List (GDeme InEpoch) → List (GDeme InEpoch)
  | [] => [d]
  | x :: xs => if tge x.start d.start then x :: insByStart d xs else d :: x :: xs

def orderDemes (ds : List (GDeme InEpoch)) : List (GDeme InEpoch) := ds.foldl (fun acc d => insByStart d acc) []

/-- `demes_present[interval]` -/
def liveIn (g : Graph InEpoch) (i0 i1 : ETime) : List (GDeme InEpoch) :=
  (orderDemes g.demes).filter fun d => demePresent d.start d.endTime i0 i1

/-- `sorted(demes_present.items())[::-1]`: only intervals in which some deme lives are keys of the dict -/
def demesPresent (g : Graph InEpoch) : List ((ETime × ETime) × List (GDeme InEpoch)) :=
  (intervals g).filterMap fun iv =>
    let l := liveIn g iv.1 iv.2
    if l.isEmpty then none else some (iv, l)

/-- `_get_root_Ne` -/
def rootNe (g : Graph InEpoch) : Option Rat :=
  match g.demes.find? (fun d => d.ancestors.isEmpty) with
  | none => none
  | some d => d.epochs.head?.map (·.ss)

/-- the migration matrix of an interval: `M[to][from] = 2 Ne m(from -> to)` (position by `migRowIsDest`) -/
def migMatrix (migs : List GMig) (live : List DName) (i0 i1 : ETime) (Ne : Rat) : List (List Rat) :=
  live.map fun rowD => live.map fun colD =>
    if rowD == colD then 0 else
    if migRowIsDest then migEntry Ne (migRate migs colD rowD i0 i1) else migEntry Ne (migRate migs rowD colD i0 i1)

/-- one pass of the loop of `_get_integration_parameters` -/
structure PlanRow where
  T : Rat
  live : List DName
  frozen : List Bool
  M : List (List Rat)
  /-- every live deme is constant on the interval: `nu_func` is a list of numbers -/
  allConst : Bool
deriving Repr, DecidableEq

def planRow (g : Graph InEpoch) (frozenList : List DName) (Ne : Rat) (iv : ETime × ETime) (live : List (GDeme InEpoch)) : PlanRow :=
  { T := intTime iv.1 iv.2 Ne
    live := live.map (·.name)
    frozen := freezeFlags frozenList (live.map (·.name))
    M := migMatrix g.migs (live.map (·.name)) iv.1 iv.2 Ne
    allConst := live.all fun d => match demeSizes d iv.1 iv.2 with
      | some (fn, _, _) => fn == SizeFn.constant
      | none => false }

/-- `_get_integration_parameters`: integration times, frozen flags, migration matrices, oldest interval first -/
def plan (g : Graph InEpoch) (frozenList : List DName) (Ne : Rat) : List PlanRow :=
  (demesPresent g).map fun p => planRow g frozenList Ne p.1 p.2

/-- `nu_funcs[k]` evaluated at the fraction `frac` of the k-th integration time (`t = frac * T`): one (possibly unbound) size
    term per live deme -/
def planNu (g : Graph InEpoch) (Ne frac : Rat) : List (List (Option Sym)) :=
  (demesPresent g).map fun p =>
    let allc := (planRow g [] Ne p.1 p.2).allConst
    let T := intTime p.1.1 p.1.2 Ne
    p.2.map fun d => match demeSizes d p.1.1 p.1.2 with
      | none => none
      | some (fn, a, b) => nuFn fn allc a b Ne T (frac * T)

/-- `demo_events`: the library's events (in the order pulses, branches, mergers, admixtures, splits) followed by the marginalisations -/
def demoEvents (g : Graph InEpoch) (lib : List (Rat × DEvt)) (sampled : List DName) : List (ETime × DEvt) :=
  lib.map (fun p => (some p.1, p.2)) ++
  g.demes.filterMap fun d =>
    let succStarts := (g.demes.filter fun x => x.ancestors.contains d.name).map (·.start)
    if marginalizeCond sampled d.name d.endTime succStarts then some (d.endTime, DEvt.marginalize d.name) else none

/-- `demo_events[time]` -/
def eventsAt (evs : List (ETime × DEvt)) (time : ETime) : List DEvt :=
  (evs.filter fun p => teq p.1 time).map (·.2)

/-- how `_apply_event` updates `pop_ids` (`none`: the code raises) -/
def applyEventIds (ids : List DName) : DEvt → Option (List DName)
  | DEvt.marginalize d => if ids.contains d then some (ids.erase d) else none
  | DEvt.split p cs =>
      if !ids.contains p then none else
      match cs with
      | [c] => some (ids.map fun x => if x == p then c else x)
      | [c1, c2] => some ((ids.map fun x => if x == p then c1 else x) ++ [c2])
      | _ => none
  | DEvt.branch p c => if ids.contains p then some (ids ++ [c]) else none
  | DEvt.admix ps _ c => if ids.contains c || !(ps.all ids.contains) then none else some (ids ++ [c])
  | DEvt.merge ps _ c => if ids.contains c || !(ps.all ids.contains) then none else some (ps.foldl (fun l p => l.erase p) (ids ++ [c]))
  | DEvt.pulses ss d _ => if ids.contains d && ss.all ids.contains then some ids else none

/-- what `_compute_sfs` does, as a list of calls -/
inductive Step
  | integrate (row : PlanRow)
  | event (ids : List DName) (e : DEvt)
  | reorder (order : List Nat)
  | fail
deriving Repr, DecidableEq

def newOrderN (current wanted : List DName) : List Nat := wanted.map fun p => current.idxOf p + 1

/-- population on each axis after `reorder_pops(phi, order)` -/
def applyOrderN (current : List DName) (order : List Nat) : List DName :=
  order.filterMap fun n => current[n - 1]?

/-- the events of one instant applied in turn to `pop_ids`: the ids afterwards (`none`: the code raises) and the calls made -/
def applyEvents (ids : List DName) (es : List DEvt) : Option (List DName) × List Step :=
  es.foldl (fun (acc : Option (List DName) × List Step) e =>
      match acc.1 with
      | none => acc
      | some cur => (applyEventIds cur e, acc.2 ++ [Step.event cur e])) (some ids, [])

/-- the loop of `_compute_sfs` over the rows (each with its interval's end time and the next interval's live demes): the calls made and
    `pop_ids` at the end (`none`: an event could not be applied) -/
def importLoop (evs : List (ETime × DEvt)) : List DName → List (PlanRow × ETime × List DName) → List Step × Option (List DName)
  | ids, [] => ([], some ids)
  | ids, (row, i1, next) :: rest =>
      let s1 := if row.T > 0 then [Step.integrate { row with live := ids }] else []
      let r := applyEvents ids (eventsAt evs i1)
      match r.1 with
      | none => (s1 ++ r.2, none)
      | some cur =>
          if tle i1 (some 0) then
            let k := importLoop evs cur rest
            (s1 ++ r.2 ++ k.1, k.2)
          else if cur == next then
            let k := importLoop evs next rest
            (s1 ++ r.2 ++ k.1, k.2)
          else
            let k := importLoop evs next rest
            (s1 ++ r.2 ++ [Step.reorder (newOrderN cur next)] ++ k.1, k.2)

/-- the rows of the plan with what the loop of `_compute_sfs` reads besides: the end of the interval, the demes of the next one -/
def loopRows (g : Graph InEpoch) (frozenList : List DName) (Ne : Rat) : List (PlanRow × ETime × List DName) :=
  let dp := demesPresent g
  let nexts := (dp.map fun p => p.2.map (·.name)).tail ++ [[]]
  (plan g frozenList Ne).zip ((dp.map fun p => p.1.2).zip nexts)

def firstIds (g : Graph InEpoch) : List DName :=
  match (demesPresent g).head? with
  | some p => p.2.map (·.name)
  | none => []

/-- `SFS` after the preparation: every call of `_compute_sfs` and, last, the final `reorder_pops(phi, new_order)` of `SFS` -/
def importSteps (g : Graph InEpoch) (lib : List (Rat × DEvt)) (sampled frozenList : List DName) (Ne : Rat) : List Step :=
  let r := importLoop (demoEvents g lib sampled) (firstIds g) (loopRows g frozenList Ne)
  match r.2 with
  | some ids => r.1 ++ [Step.reorder (newOrderN ids sampled)]
  | none => r.1 ++ [Step.fail]

/-! ### the same history in other units -/

/-- times multiplied by `a`, sizes by `b`, migration rates divided by `b` (`a = b = c`: another reference size; `b = 1`: another time unit) -/
def InEpoch.rescale (a b : Rat) (e : InEpoch) : InEpoch := { fn := e.fn, ss := b * e.ss, es := b * e.es, et := a * e.et }

def GDeme.rescale (a b : Rat) (d : GDeme InEpoch) : GDeme InEpoch :=
  { name := d.name, start := tscale a d.start, ancestors := d.ancestors, proportions := d.proportions, epochs := d.epochs.map (InEpoch.rescale a b) }

def GMig.rescale (a b : Rat) (m : GMig) : GMig :=
  { source := m.source, dest := m.dest, sym := m.sym, rate := m.rate / b, st := tscale a m.st, et := a * m.et }

def GPulse.rescale (a : Rat) (p : GPulse) : GPulse := { sources := p.sources, dest := p.dest, props := p.props, time := a * p.time }

def Graph.rescale (a b : Rat) (g : Graph InEpoch) : Graph InEpoch :=
  { demes := g.demes.map (GDeme.rescale a b), migs := g.migs.map (GMig.rescale a b), pulses := g.pulses.map (GPulse.rescale a) }

/-! ### expected wiring (specifications as Boolean predicates over the generated tables) -/

def look (c : IntegCall) (p : Slot) : Option Slot := c.args.lookup p

def integName : Nat → String
  | 1 => "one_pop" | 2 => "two_pops" | 3 => "three_pops" | 4 => "four_pops" | 5 => "five_pops" | _ => ""

/-- population k receives nu[k], an entry of the (uniform, see `gammaHUniform`) gamma and h lists, and M[k,j] as m_{k+1,j+1} -/
def popWiredNoFrozen (c : IntegCall) (k : Nat) : Bool :=
  look c (Slot.nu k) == some (Slot.nu k)
  && (List.range c.npop).any (fun j => look c (Slot.gamma k) == some (Slot.gamma j))
  && (List.range c.npop).any (fun j => look c (Slot.h k) == some (Slot.h j))
  && (List.range c.npop).all fun j => j == k || look c (Slot.M k j) == some (Slot.M k j)

/-- … and frozen[k] -/
def popWired (c : IntegCall) (k : Nat) : Bool :=
  popWiredNoFrozen c k && look c (Slot.frozen k) == some (Slot.frozen k)

def commonWired (c : IntegCall) : Bool :=
  c.fn == integName c.npop
  && look c Slot.phi == some Slot.phi && look c Slot.xx == some Slot.xx && look c Slot.T == some Slot.T
  && look c Slot.theta == some Slot.theta && look c Slot.demeIds == some Slot.demeIds
  && (look c Slot.initialT == none || look c Slot.initialT == some Slot.zero)
  && c.args.all fun p => match p.1 with
      | Slot.other _ => false
      | _ => true

def wiringOk (c : IntegCall) : Bool :=
  commonWired c && (List.range c.npop).all (popWired c)

def wiringOkNoFrozen (c : IntegCall) : Bool :=
  commonWired c && (List.range c.npop).all (popWiredNoFrozen c)

/-- full proportion vector (remainder appended) a new-population constructor applies for the passed `fs` -/
def fullProps (fs : List Rat) : List Rat := fs ++ [1 - fs.sum]

def unitVec (n k : Nat) : List Rat := (List.range n).map fun i => if i == k then 1 else 0

def newPopName : Nat → String
  | 1 => "phi_1D_to_2D" | 2 => "phi_2D_to_3D_admix" | 3 => "phi_3D_to_4D" | 4 => "phi_4D_to_5D" | _ => ""

/-- a `_split_phi` row makes the new (last) population a copy of population `parent` -/
def splitRowOk (r : SplitRow) : Bool :=
  if r.npop == 1 then r.fn == "phi_1D_to_2D" && r.fs.isEmpty && r.parent == 0
  else fullProps r.fs == unitVec r.npop r.parent
       && (r.fn == newPopName r.npop || (r.npop == 2 && r.fn == (if r.parent == 0 then "phi_2D_to_3D_split_1" else "phi_2D_to_3D_split_2")))

def admixNewRowOk (r : AdmixNewRow) : Bool :=
  r.fn == newPopName r.npop && r.slots == List.range (r.npop - 1) && r.sorted

/-- the proportion arguments `_admix_new_pop_phi` passes to the constructor of its branch, for parents on the axes `src` (in the
    order of the graph's `ancestors`) with proportions `props` -/
def admixArgs (r : AdmixNewRow) (src : List Nat) (props : List Rat) : List Rat :=
  r.slots.map fun k => (if r.sorted then sortedProps r.npop src props none else props).getD k 0

/-- … and `_admix_phi` to the pulse function of its branch and destination -/
def pulseArgs (r : PulseRow) (src : List Nat) (props : List Rat) : List Rat :=
  r.slots.map fun k => (if r.sorted then sortedProps r.npop src props (some r.dest) else props).getD k 0

/-- the share of its ancestry a new / pulsed deme draws from the population on axis `j`: the proportion of the ancestor that sits
    on that axis, 0 if none does -/
def axisProp (src : List Nat) (props : List Rat) (j : Nat) : Rat :=
  match (src.zip props).find? (fun p => p.1 == j) with
  | some p => p.2
  | none => 0

/-- a pulse function receives the sorted list (destination removed) in order; with two populations the single raw
    proportion is the same thing -/
def pulseRowOk (r : PulseRow) : Bool :=
  r.slots == List.range (r.npop - 1) && (r.sorted || r.npop == 2)

/-- the records a function leaves on the paths that neither raise nor are documented no-ops -/
def liveEvents (f : FnPaths) : List (List Ev) :=
  (f.paths.filter fun p => p.exit != "raise" && !p.noop).map (·.events)

def migOrder (n : Nat) : List Slot :=
  (List.range n).flatMap fun i => ((List.range n).filter (· != i)).map fun j => Slot.M i j

def nuOrder (n : Nat) : List Slot := (List.range n).map Slot.nu

/-- an integrator of `n` populations logs exactly one record per live path, with sizes nu1..nun and the migration
    rates in the dest-major order `output` reads them -/
def integEventsOk (n : Nat) (f : FnPaths) : Bool :=
  !f.resets && !(liveEvents f).isEmpty && (liveEvents f).all fun evs =>
    match evs with
    | [Ev.integConst d s m] => d && s == nuOrder n && m == migOrder n
    | [Ev.integNonConst s0 m0 s m] => s0 == nuOrder n && s == nuOrder n && m0 == migOrder n && m == migOrder n
    | _ => false

def findPaths (name : String) : Option FnPaths := fnPaths.find? (·.fn == name)

/-- a pulse primitive of `PhiManip` with 0-based destination axis `dest`, source axes `srcs` and `nf` proportion
    parameters logs exactly `Pulse(sources = srcs+1, dest = dest+1, proportions = its parameters in order)` -/
def pulseEventsOk (name : String) (dest : Nat) (srcs : List Nat) (nf : Nat) : Bool :=
  match findPaths name with
  | none => false
  | some f => !f.resets && liveEvents f == [[Ev.pulse (srcs.map (· + 1)) (dest + 1) (List.range nf)]]

/-- weaker: whatever pulse record is logged has the right sources and proportions (destination and presence not checked) -/
def pulseEventsWeak (name : String) (srcs : List Nat) (nf : Nat) : Bool :=
  match findPaths name with
  | none => false
  | some f => (liveEvents f).all fun evs => evs.all fun e =>
      match e with
      | Ev.pulse s _ p => s == srcs.map (· + 1) && p == List.range nf
      | _ => false

def splitEventOf (name : String) : Option Nat :=
  match findPaths name with
  | none => none
  | some f => match liveEvents f with
    | [[Ev.split i]] => if f.resets then none else some i
    | _ => none

def simpleEventOk (name : String) (e : Ev) (resets : Bool) : Bool :=
  match findPaths name with
  | none => false
  | some f => f.resets == resets && liveEvents f == [[e]]

end DadiVerif.DemesConv
