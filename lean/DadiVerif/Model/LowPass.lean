import DadiVerif.Model.LowPassBase
import DadiVerif.Generated.LowPass
/-
Exact-rational model of the low-pass (GATK multi-sample) calling correction of dadi/LowPass/LowPass.py (C18).

Loops and list handling are written here; every closed formula is the *generated* definition
(`Gen.LowPass.*`, re-read from the current source on every run): the three `P_case` expressions, `prob_het_err`,
the index arithmetic `afs_after_error`, the `binom.pmf` wiring, the enough-coverage summand and bounds, the
inbreeding weight (p, alpha, beta, guard), the F = 0 "ways", the assembly expressions.

Representation: a coverage distribution is the list `c` of probabilities of depths 0, 1, 2, … (row 1 of the
code's 2×D array; row 0 is assumed to be `arange(D)`, which is what `compute_cov_dist` produces).  A genotype
partition is a sorted `List Nat` over {0,1,2}; `n` individuals = `n_sequenced / 2`.
Core Lean only (executed by the driver); theorems are in Props/C18.lean.
-/
namespace DadiVerif.LowPass
open DadiVerif.Gen.LowPass

/-! ### genotype partitions (Numerics.part / cached_part) -/

/-- `Numerics.part(x, n, minval, maxval)` as a list, in the generator's order -/
def part : (x n minv maxv : Nat) → List (List Nat)
  | x, 0, _, _ => if x = 0 then [[]] else []
  | x, n+1, minv, maxv =>
    if (n+1) * minv ≤ x ∧ x ≤ (n+1) * maxv then
      (List.range' minv (maxv + 1 - minv)).flatMap fun v =>
        if v ≤ x then (part (x - v) n v maxv).map (v :: ·) else []
    else []

/-- `part.count(v)` as the integer the generated formulas expect -/
def cntZ (g : List Nat) (v : Nat) : Int := (g.count v : Nat)

def factZ (k : Int) : Rat := (fact k.toNat : Nat)

/-- F = 0: multinomial ways · 2^het (generated expression; exp(multinomln) evaluated exactly) -/
def waysOf (g : List Nat) : Rat :=
  Gen.LowPass.waysF0 (fun a b c => multinom3 a.toNat b.toNat c.toNat) (cntZ g)

/-- allele frequency p of the partition, as `part_inbreeding_probability` computes it -/
def pOf (g : List Nat) : Rat := inbP (cntZ g) (g.length : Nat)

/-- F ≠ 0: one un-normalised entry of `part_inbreeding_probability` (guard, p, the three single-individual
    genotype probabilities and the multinomial weight are the generated expressions) -/
def inbWeightOf (g : List Nat) (F : Rat) : Rat :=
  if inbGuard ((g.sum : Nat) : Int) ((g.length : Nat) : Int) then
    Gen.LowPass.inbWeight factZ (g.length : Nat) (cntZ g 0) (cntZ g 1) (cntZ g 2)
      (inbP00 (pOf g) F) (inbP01 (pOf g) F) (inbP11 (pOf g) F)
  else inbElse

/-- the `if Fx == 0` dispatch of `partitions_and_probabilities` -/
def partWeight (F : Rat) (g : List Nat) : Rat := if F = 0 then waysOf g else inbWeightOf g F

/-- `zip(partitions, partition_probabilities)` for allele count `x` among `n` individuals:
    weights divided by their sum (both branches of the code normalise this way) -/
def pw (x n : Nat) (F : Rat) : List (List Nat × Rat) :=
  (part x n 0 2).map fun g => (g, partWeight F g / lsum ((part x n 0 2).map (partWeight F)))

def partProbs (x n : Nat) (F : Rat) : List Rat := (pw x n F).map (·.2)

/-! ### projection matrix -/

/-- `itertools.combinations(l, k)` in itertools' order -/
def combs : Nat → List Nat → List (List Nat)
  | 0, _ => [[]]
  | _+1, [] => []
  | k+1, a :: l => (combs k l).map (a :: ·) ++ combs (k+1) l

/-- `[sum(p) for p in combinations(g, k)]` -/
def combSums (k : Nat) (g : List Nat) : List Nat := (combs k g).map List.sum

/-- `result / sum(result)` from the list of combination sums: `result[s]` counts the sums equal to `s`;
    `sum(result)` counts the sums that are valid indices (`≤ k`; anything else is an IndexError in the code) -/
def inbFromSums (S : List Nat) (k s : Nat) : Rat :=
  ((S.countP (· == s) : Nat) : Rat) / ((S.countP (fun t => decide (t ≤ k)) : Nat) : Rat)

/-- `projection_inbreeding(g, k)[s]` -/
def projInb (g : List Nat) (k s : Nat) : Rat := inbFromSums (combSums (k / 2) g) k s

/-- hypergeometric weight `_cached_projection(m, n, i)[j]` = C(m,j)·C(n−m,i−j)/C(n,i) (local definition; K ties it to
    the code's log-gamma evaluation) -/
def hypW (m n i j : Nat) : Rat :=
  if j ≤ i then ((choose m j * choose (n - m) (i - j) : Nat) : Rat) / ((choose n i : Nat) : Rat) else 0

/-- `projection_matrix(n_sequenced, n_subsampling, F)[af, j]` -/
def projEntry (nseq nsub : Nat) (F : Rat) (af j : Nat) : Rat :=
  if F ≠ 0 then lsum ((pw af (nseq / 2) F).map fun gp => projAccum (projInb gp.1 nsub j) gp.2)
  else hypW nsub nseq af j

/-- one row of `projection_matrix`, the combination sums of each partition computed once (what the driver
    evaluates; `projRow_eq` in Lemmas/LowPass: it is the list of `projEntry`s) -/
def projRow (nseq nsub : Nat) (F : Rat) (af : Nat) : List Rat :=
  if F ≠ 0 then
    let tabs := (pw af (nseq / 2) F).map fun gp => (combSums (nsub / 2) gp.1, gp.2)
    (List.range (nsub + 1)).map fun j => lsum (tabs.map fun t => projAccum (inbFromSums t.1 nsub j) t.2)
  else (List.range (nsub + 1)).map (hypW nsub nseq af)

/-- the Hardy–Weinberg mixture of individual-subsampling rows: what the F ≠ 0 branch of `projection_matrix` computes,
    evaluated with the F = 0 partition probabilities (the limit of that branch as F → 0⁺, `C18_F_continuity_matrices_partial`) -/
def projMix0 (nseq nsub af j : Nat) : Rat :=
  lsum ((pw af (nseq / 2) 0).map fun gp => projAccum (projInb gp.1 nsub j) gp.2)

/-- one row of it, combination sums shared (what the driver evaluates) -/
def projMixRow0 (nseq nsub af : Nat) : List Rat :=
  let tabs := (pw af (nseq / 2) 0).map fun gp => (combSums (nsub / 2) gp.1, gp.2)
  (List.range (nsub + 1)).map fun j => lsum (tabs.map fun t => projAccum (inbFromSums t.1 nsub j) t.2)

/-! ### coverage functionals -/

def covAt (c : List Rat) (d : Nat) : Rat := c.getD d 0

/-- `numpy.sum(coverage_distribution[1][1:])` -/
def covTail (c : List Rat) : Rat := lsum (c.drop 1)

/-- `prob_het_err` (generated), depths of the tail = 1, 2, … -/
def hetErr (c : List Rat) : Rat :=
  probHetErr (fun f => sumTo (c.length - 1) f) (fun k => covNorm (covAt c (k + 1)) (covTail c))
    (fun k => ((k + 1 : Nat) : Int))

def pmfZ (k n : Int) (p : Rat) : Rat := binomPmf k.toNat n.toNat p

/-! ### heterozygote calling error -/

/-- contribution of one partition (probability `pr`, allele count `af`) to `trans_matrix[af, t]`: the two nested
    loops of `calling_error_matrix`, each scatter-add term landing at the generated `afsAfterError` -/
def callPart (e : Rat) (af t : Nat) (g : List Nat) (pr : Rat) : Rat :=
  let h : Nat := g.count hetValue
  sumTo (nErrorCount (h : Nat)).toNat fun ne => sumTo (nRefCount (ne : Nat)).toNat fun nr =>
    if afsAfterError (af : Nat) (ne : Nat) (nr : Nat) = ((t : Nat) : Int) then
      callTerm pr (pNerr pmfZ (ne : Nat) (h : Nat) (nr : Nat) e) (pNref pmfZ (ne : Nat) (h : Nat) (nr : Nat) e)
    else 0

/-- `calling_error_matrix`'s `trans_matrix[af, t]` for a given heterozygote error probability `e` -/
def callEntryE (e : Rat) (nsub : Nat) (F : Rat) (af t : Nat) : Rat :=
  lsum ((pw af (nsub / 2) F).map fun gp => callPart e af t gp.1 gp.2)

/-- `calling_error_matrix(coverage_distribution, n_subsampling, Fx)[af, t]` -/
def callEntry (c : List Rat) (nsub : Nat) (F : Rat) (af t : Nat) : Rat := callEntryE (hetErr c) nsub F af t

/-! ### no-call and enough-coverage probabilities -/

/-- P_case0 + P_case1a + P_case1b for one partition of allele count `af`, weighted (generated expressions; the guard of
    `P_case1a` is the generated one and may look at `af`) -/
def nocallPart (c : List Rat) (af : Nat) (g : List Nat) (pr : Rat) : Rat :=
  let sumD := fun f => sumTo c.length f
  let a : Int := ((g.count homAltValue : Nat) : Int)
  let h : Int := ((g.count hetValue : Nat) : Int)
  nocallTerm pr (P_case0 sumD (covAt c) a h) (P_case1a sumD (covAt c) (af : Nat) a h) (P_case1b sumD (covAt c) a h)

/-- `probability_of_no_call_1D_GATK_multisample(cov, n_sequenced, Fx)[af]` -/
def nocall (c : List Rat) (nseq : Nat) (F : Rat) (af : Nat) : Rat :=
  lsum ((pw af (nseq / 2) F).map fun gp => nocallPart c af gp.1 gp.2)

/-- every `**` that the code evaluates for the configuration `g` of allele count `af` is defined (generated conditions, under
    the guards the code uses): no zero base with a negative exponent -/
def nocallDefinedAt (c : List Rat) (af : Nat) (g : List Nat) : Bool :=
  nocallDefined (fun f => sumTo c.length f) (covAt c) (af : Nat) ((g.count homAltValue : Nat) : Int) ((g.count hetValue : Nat) : Int)

/-- … for every allele count and every configuration that `probability_of_no_call_1D_GATK_multisample` visits -/
def nocallOk (c : List Rat) (nseq : Nat) : Bool :=
  (List.range (nseq + 1)).all fun af => (part af (nseq / 2) 0 2).all (nocallDefinedAt c af)

/-- the divisions of `prob_het_err` are defined (the tail of the coverage distribution has non-zero mass) -/
def hetErrOk (c : List Rat) : Bool :=
  (List.range (c.length - 1)).all (fun k => covNormDefined (covAt c (k + 1)) (covTail c)) &&
    probHetErrDefined (fun f => sumTo (c.length - 1) f) (fun k => covNorm (covAt c (k + 1)) (covTail c)) (fun k => ((k + 1 : Nat) : Int))

/-- Σ over `range(lo, hi)` -/
def sumIco (lo hi : Int) (f : Int → Rat) : Rat := sumTo (hi - lo).toNat (fun t => f (lo + (t : Nat)))

/-- `probability_enough_individuals_covered(cov, n_sequenced, n_subsampling)` -/
def probEnough (c : List Rat) (nseq nsub : Nat) : Rat :=
  sumIco (enoughLo (nseq : Nat) (nsub : Nat)) (enoughHi (nseq : Nat) (nsub : Nat))
    (fun k => enoughSummand (covAt c 0) (covTail c) (nseq : Nat) k)

/-- every power in the loop of `probability_enough_individuals_covered` is defined -/
def probEnoughOk (c : List Rat) (nseq nsub : Nat) : Bool :=
  let lo := enoughLo (nseq : Nat) (nsub : Nat)
  (List.range (enoughHi (nseq : Nat) (nsub : Nat) - lo).toNat).all fun t =>
    enoughSummandDefined (covAt c 0) (covTail c) (nseq : Nat) (lo + (t : Nat))

/-! ### the corrected model (any number of populations) -/

/-- per-population data of the analytic correction: sizes, the combined kernel
    (prob_enough·projection) · heterozygote-error, and the 1-D no-call probabilities -/
structure Axis where
  nIn : Nat
  nOut : Nat
  K : Nat → Nat → Rat
  pnc : Nat → Rat

/-- `analytic.dot(proj_mat).dot(heterr_mat)` along one axis, as one kernel:
    K[i,j] = Σ_k (pe·P[i,k])·H[k,j] -/
def kernel (pe : Rat) (P H : Nat → Nat → Rat) (nsub : Nat) (i j : Nat) : Rat :=
  sumTo (nsub + 1) fun k => projScaled pe (P i k) * H k j

def sumIn : List Axis → (List Nat → Rat) → Rat
  | [], f => f []
  | a :: A, f => sumTo a.nIn fun i => sumIn A fun r => f (i :: r)

def sumOut : List Axis → (List Nat → Rat) → Rat
  | [], f => f []
  | a :: A, f => sumTo a.nOut fun j => sumOut A fun r => f (j :: r)

/-- Π_p K_p[i_p, j_p] -/
def kerND : List Axis → List Nat → List Nat → Rat
  | [], _, _ => 1
  | a :: A, i :: is, j :: js => a.K i j * kerND A is js
  | _ :: _, _, _ => 0

/-- `prob_nocall_ND[i]` = Π_p pnc_p[i_p] (`numpy.multiply.outer`) -/
def pncND : List Axis → List Nat → Rat
  | [], _ => 1
  | a :: A, i :: is => a.pnc i * pncND A is
  | _ :: _, [] => 0

def b2r (b : Bool) : Rat := if b then 1 else 0

/-- entry `j` of the output of `lowpass_func`: analytic part (entries not simulated, thinned by the no-call
    probability, pushed through the per-axis kernels) + simulated part (Σ model[af]·sim_outputs[af]).
    `model` has masked entries already replaced by 0 (numpy.ma.dot and the masked constant do exactly that). -/
def corrected (A : List Axis) (thr : Rat) (model : List Nat → Rat) (sim : List Nat → List Nat → Rat)
    (j : List Nat) : Rat :=
  outputEntry
    (sumIn A fun i => analyticEntry (model i) (b2r (useSim (pncND A i) thr)) (pncND A i) * kerND A i j)
    (sumIn A fun i => if useSim (pncND A i) thr then simTerm (model i) (sim i j) else 0)

/-- the plain projection of the model spectrum through matrices `P_p` -/
def projected (A : List Axis) (model : List Nat → Rat) (j : List Nat) : Rat :=
  sumIn A fun i => model i * kerND A i j

/-! ### tables (what the driver evaluates: each matrix computed once) -/

def mkTable (n m : Nat) (f : Nat → Nat → Rat) : Array (Array Rat) :=
  Array.ofFn (n := n) fun i => Array.ofFn (n := m) fun j => f i.val j.val

def tableAt (tab : Array (Array Rat)) (i j : Nat) : Rat := (tab.getD i #[]).getD j 0

def mkVec (n : Nat) (f : Nat → Rat) : Array Rat := Array.ofFn (n := n) fun i => f i.val

def vecAt (v : Array Rat) (i : Nat) : Rat := v.getD i 0

/-- table from a list of rows -/
def tabOfRows (rows : List (List Rat)) : Array (Array Rat) := (rows.map List.toArray).toArray

/-- the axis of one population: everything `low_cov_precalc_…` computes for it, tabulated.
    `peAll` is the product of `probEnough` over *all* populations (as in the code). -/
def mkAxis (c : List Rat) (nseq nsub : Nat) (F peAll : Rat) : Axis :=
  let P := tabOfRows ((List.range (nseq + 1)).map (projRow nseq nsub F))
  let e := hetErr c
  let H := mkTable (nsub + 1) (nsub + 1) (callEntryE e nsub F)
  let K := mkTable (nseq + 1) (nsub + 1) (kernel peAll (tableAt P) (tableAt H) nsub)
  let q := mkVec (nseq + 1) (nocall c nseq F)
  { nIn := nseq + 1, nOut := nsub + 1, K := tableAt K, pnc := vecAt q }

/-- one population of `make_low_pass_func_GATK_multisample`: coverage distribution, sequenced and subsampled
    haplotype numbers, inbreeding coefficient -/
structure Pop where
  c : List Rat
  nseq : Nat
  nsub : Nat
  F : Rat

/-- `prob_enough_covered = numpy.prod([probability_enough_individuals_covered(…) for each population])` -/
def peAll (pops : List Pop) : Rat := pops.foldl (fun acc p => acc * probEnough p.c p.nseq p.nsub) 1

/-- everything `low_cov_precalc_GATK_multisample_GATK_multisample` prepares for the analytic part -/
def axesOf (pops : List Pop) : List Axis :=
  pops.map fun p => mkAxis p.c p.nseq p.nsub p.F (peAll pops)

/-! ### the plain projection and the deep-coverage bound (what `C18_deep_coverage` compares the corrected model with) -/

/-- the reference axis of one population: `projection_matrix(nseq, nsub, F)` alone — no thinning by the no-call probability,
    no enough-coverage factor, no calling error (for F = 0 the hypergeometric projection of `Spectrum.project`) -/
def refAxis (p : Pop) : Axis :=
  let P := tabOfRows ((List.range (p.nseq + 1)).map (projRow p.nseq p.nsub p.F))
  { nIn := p.nseq + 1, nOut := p.nsub + 1, K := tableAt P, pnc := fun _ => 0 }

def refAxesOf (pops : List Pop) : List Axis := pops.map refAxis

/-- the smallest depth with non-zero probability (length of the list if there is none) -/
def minDepth : List Rat → Nat
  | [] => 0
  | v :: c => if v = 0 then minDepth c + 1 else 0

/-- bound on the no-call probability of a polymorphic entry when no depth below `D` has mass -/
def deepEps (D nseqMax : Nat) : Rat := (1 + (nseqMax : Rat) * (D : Rat)) * (1 / 2) ^ D

/-- bound on the ℓ¹ distance of a row of one population's kernel from the row of its projection matrix -/
def deepDelta (D nsubMax : Nat) : Rat := 4 * (nsubMax : Rat) * (1 / 2) ^ D

def maxOf (l : List Nat) : Nat := l.foldl Nat.max 0

def minOf : List Nat → Nat
  | [] => 0
  | a :: l => l.foldl Nat.min a

/-- the smallest depth that has non-zero probability in some population -/
def deepDepth (pops : List Pop) : Nat := minOf (pops.map fun p => minDepth p.c)

/-- Σ_j |corrected_j − projected_j| ≤ (deepBound + σ) · Σ_i |model_i| (`C18_deep_coverage`; σ = deviation of the simulated tables) -/
def deepBound (pops : List Pop) : Rat :=
  deepEps (deepDepth pops) (maxOf (pops.map (·.nseq)))
    + (pops.length : Rat) * deepDelta (deepDepth pops) (maxOf (pops.map (·.nsub)))

/-- entry-wise deep-coverage constant (`C18_deep_coverage_entrywise`): every entry of corrected − projected is at most
    (deepEntryBound + σ)·Σ_i |model_i|; (1 + D)·2^{-D} bounds the no-call probability, nsub_p·2^{-D} the entries of one
    population's kernel minus its projection matrix -/
def deepEntryBound (pops : List Pop) : Rat :=
  (1 + ((deepDepth pops : Nat) : Rat)) * (1 / 2) ^ (deepDepth pops)
    + lsum (pops.map fun p => ((p.nsub : Nat) : Rat) * (1 / 2) ^ (deepDepth pops))

/-! ### the simulated regime: `simulate_GATK_multisample_calling` as a deterministic function of its random draws

Everything random in the simulator is a *draw*: the depth of every individual at every locus (`cov_sampling.rvs`), the number of
alternative reads of every heterozygote (`ss.binom.rvs(depth, 0.5)`) and the permutation `rng.permuted` used to subsample the
called genotypes.  Given the draws, a simulated table is the table of empirical frequencies of the calling procedure: reads →
polymorphism filter → genotype calls → enough-calls filter → subsampling → histogram → division by the total.  The closed
steps are the generated `Gen.LowPass.sim*`; the harness records the draws of the real run and hands them to `simTable`. -/

/-- the draws of one individual at one locus: (depth, binomial draw of alternative reads — used for heterozygotes only) -/
abbrev IndDraw := Nat × Nat

/-- the draws for one aggregate genotype partition (one configuration per population): for every locus and population the
    individuals' draws; for every population the subsampling selections — positions among the sorted called genotypes, one
    list per row that `subsample_genotypes_1D` returns, in the order it returns them -/
structure BlockDraw where
  loci : List (List (List IndDraw))
  sels : List (List (List Nat))

def isum : List Int → Int
  | [] => 0
  | a :: l => a + isum l

/-- genotype calls of one population at one locus (`genotype_calls`), from genotypes and draws -/
def simCalls (gs : List Nat) (rs : List IndDraw) : List Int :=
  List.zipWith (fun g r => simCall (simNRef (g : Nat) (r.1 : Nat) (r.2 : Nat)) (simNAlt (g : Nat) (r.1 : Nat) (r.2 : Nat))) gs rs

/-- alternative reads of one population at one locus -/
def simAlt (gs : List Nat) (rs : List IndDraw) : Int :=
  isum (List.zipWith (fun g r => simNAlt (g : Nat) (r.1 : Nat) (r.2 : Nat)) gs rs)

/-- `numpy.count_nonzero(genotype_calls != 99)` -/
def simCalled (calls : List Int) : Nat := calls.countP (fun v => v != simNoCall)

/-- one surviving locus as seen by one population: number of called individuals, the calls in individual order, and
    `numpy.sort(genotype_calls)[:calls]` -/
structure PopCalls where
  nCalled : Nat
  calls : List Int
  sorted : List Int

def insertInt (a : Int) : List Int → List Int
  | [] => [a]
  | b :: l => if a ≤ b then a :: b :: l else b :: insertInt a l

/-- `numpy.sort` of one row -/
def sortInt (l : List Int) : List Int := l.foldr insertInt []

def mkPopCalls (calls : List Int) : PopCalls :=
  { nCalled := simCalled calls, calls := calls, sorted := (sortInt calls).take (simCalled calls) }

/-- stable insertion of a locus into the list ordered by its number of calls (`for calls in numpy.sort(numpy.unique(n_called))`
    with `sorted_genotype_calls[n_called == calls]` keeps the original order inside a group) -/
def insertByCalled (x : PopCalls) : List PopCalls → List PopCalls
  | [] => [x]
  | y :: l => if x.nCalled ≤ y.nCalled then x :: y :: l else y :: insertByCalled x l

def regroup (l : List PopCalls) : List PopCalls := l.foldr insertByCalled []

/-- the column `called_freqs[:, pop]` of one block: without subsampling the sum of all calls, with subsampling the loci are
    regrouped by number of calls (too few calls: skipped) and the k-th row sums the genotypes at the k-th selection -/
def popFreqs (nseq nsub : Nat) (loci : List PopCalls) (sels : List (List Nat)) : List Int :=
  if simSubsamples (nsub : Nat) (nseq : Nat) then
    let rows := (regroup loci).filter fun x => !simSubSkip (x.nCalled : Nat) (nsub : Nat)
    List.zipWith (fun x sel => isum (sel.map fun k => x.sorted.getD k 0)) rows sels
  else loci.map fun x => isum x.calls

/-- rows of a matrix given by its columns; `none` if the columns have different lengths (numpy would refuse the store) -/
def transposeCols (n : Nat) : List (List Int) → Option (List (List Int))
  | [] => some (List.replicate n [])
  | c :: cs =>
    if c.length ≠ n then none else
      match transposeCols n cs with
      | none => none
      | some rows => some (List.zipWith (fun a r => a :: r) c rows)

/-- the multi-indices one block contributes to `output_freqs` (one per locus; entry 0…0 for a locus without enough alternative
    reads or without enough calls), as integer rows: `none` when the draws do not fit the sizes -/
def blockRows (pops : List Pop) (gss : List (List Nat)) (b : BlockDraw) : Option (List (List Int)) :=
  let zero : List Int := pops.map fun _ => 0
  let talt := fun (loc : List (List IndDraw)) => isum (List.zipWith simAlt gss loc)
  let nDrop := b.loci.countP fun loc => simDrop (talt loc)
  let kept := b.loci.filter fun loc => simKeep (talt loc)
  let callsOf := fun (loc : List (List IndDraw)) => List.zipWith simCalls gss loc
  let enough := fun (loc : List (List IndDraw)) =>
    (List.zipWith (fun (cs : List Int) (p : Pop) => simEnough (simCalled cs : Nat) (p.nsub : Nat)) (callsOf loc) pops).all id
  let nFew := kept.countP fun loc => !enough loc
  let surv := (kept.filter enough).map callsOf
  let cols := (List.range pops.length).map fun k =>
    popFreqs ((pops.getD k ⟨[], 0, 0, 0⟩).nseq) ((pops.getD k ⟨[], 0, 0, 0⟩).nsub)
      (surv.map fun cs => mkPopCalls (cs.getD k [])) (b.sels.getD k [])
  match transposeCols surv.length cols with
  | none => none
  | some rows => some (List.replicate (nDrop + nFew) zero ++ rows)

/-- `numpy.histogramdd(called_freqs, bins=[arange(nsub+2) - 0.5 …])`: a row is counted iff every component is one of 0..nsub -/
def toBoxIdx : List Nat → List Int → Option (List Nat)
  | [], [] => some []
  | n :: ns, v :: vs =>
    if 0 ≤ v ∧ v.toNat < n then (toBoxIdx ns vs).map (v.toNat :: ·) else none
  | _, _ => none

/-- the aggregate partitions of an allele-count tuple: `itertools.product` of the populations' partitions, probabilities multiplied -/
def aggParts : List Pop → List Nat → List (List (List Nat) × Rat)
  | p :: ps, a :: as => (pw a (p.nseq / 2) p.F).flatMap fun gp => (aggParts ps as).map fun r => (gp.1 :: r.1, gp.2 * r.2)
  | _, _ => [([], 1)]

/-- all binned multi-indices of one simulated table (`none`: the draws do not fit) -/
def simBinned (pops : List Pop) (af : List Nat) (blocks : List BlockDraw) : Option (List (List Nat)) :=
  let parts := aggParts pops af
  if parts.length ≠ blocks.length then none else
    let shape := pops.map fun p => p.nsub + 1
    (List.zipWith (fun (gp : List (List Nat) × Rat) b => blockRows pops gp.1 b) parts blocks).foldr
      (fun r acc => match r, acc with
        | some rows, some l => some (rows.filterMap (toBoxIdx shape) ++ l)
        | _, _ => none) (some [])

/-- `output_freqs / numpy.sum(output_freqs)` at entry `j`, from the list of binned multi-indices -/
def tableOf (binned : List (List Nat)) (j : List Nat) : Rat :=
  ((binned.count j : Nat) : Rat) / ((binned.length : Nat) : Rat)

/-- **a simulated table**: `simulate_GATK_multisample_calling(cov, af, nseq, nsub, nsim, Fx)[j]` for the given draws
    (0 everywhere when the draws do not fit or no locus is simulated — the code would return nan) -/
def simTable (pops : List Pop) (af : List Nat) (blocks : List BlockDraw) (j : List Nat) : Rat :=
  match simBinned pops af blocks with
  | some binned => tableOf binned j
  | none => 0

/-- number of loci the code simulates for each aggregate partition: `int(nsim * probability)` -/
def simCounts (pops : List Pop) (af : List Nat) (nsim : Rat) : List Int :=
  (aggParts pops af).map fun gp => simCount nsim gp.2

/-- the draws are possible outcomes of the sampling statements: every depth has positive probability, a heterozygote's
    alternative reads do not exceed its depth, the sizes fit, every selection picks nsub/2 distinct called genotypes -/
def drawsFit (pops : List Pop) (af : List Nat) (blocks : List BlockDraw) : Bool :=
  let parts := aggParts pops af
  parts.length == blocks.length &&
  (List.zipWith (fun (gp : List (List Nat) × Rat) (b : BlockDraw) =>
    b.loci.all (fun loc => loc.length == pops.length &&
      (List.zipWith (fun (p : Pop) (x : List Nat × List IndDraw) => x.1.length == x.2.length &&
        x.2.all (fun r => decide (covAt p.c r.1 ≠ 0) && decide (r.2 ≤ r.1))) pops (List.zip gp.1 loc)).all id) &&
    b.sels.length == pops.length &&
    (List.zipWith (fun (p : Pop) (ss : List (List Nat)) =>
      ss.all (fun sel => sel.length == p.nsub / 2 && sel.eraseDups.length == sel.length)) pops b.sels).all id) parts blocks).all id

end DadiVerif.LowPass
