import DadiVerif.Model.DemesPy
/-
C16 (round 5) — REFERENCE programs: the text `tools/gen_DemesProg.py` emits for the pinned source of `dadi/Demes/Demes.py`, kept here by hand
(names suffixed `Ref`).  `Props/C16.lean` proves `Gen.DemesProg.<f> = <f>Ref` by `rfl` — so a change of the source breaks exactly that theorem —
and the lemma files `Lemmas/DemesProg*.lean` prove what the reference programs compute (closed forms, invariances).  The driver executes the
GENERATED programs.  After a deliberate change of the translator: `python3 tools/gen_DemesProg.py`, copy the definitions, add the suffix.
-/
set_option linter.unusedVariables false
namespace DadiVerif.DemesConv
open Gen.Demes

/-- dadi/Demes/Demes.py:455 `_sizes_at_time(g, deme_id, time_interval)`: the epoch search loop (`epochSearch`), then the translated body (`sizesAt`);
    returns `(start_size, end_size, size_function)` -/
def sizesAtTimeRef (g : Graph InEpoch) (deme_id : DName) (time_interval : ETime × ETime) : Option (Sym × Sym × SizeFn) := do
  let epoch : Epoch ← epochSearch (g.epochsOfName deme_id) time_interval.1 time_interval.2
  let r : Sym × Sym ← sizesAt epoch.fn epoch.ss epoch.es epoch.st epoch.et epoch.span time_interval.1 time_interval.2
  pure (r.1, r.2, epoch.fn)
/-- dadi/Demes/Demes.py:502 `_migration_rate_in_interval(g, source, dest, time_interval)`: `rate = …` (`migRateInit`), one `migRateStep` per element of `g.migrations`, `return rate` -/
def migrationRateInIntervalRef (g : Graph InEpoch) (source dest : DName) (time_interval : ETime × ETime) : Rat :=
  g.migs.foldl (fun rate mig => migRateStep rate mig source dest time_interval.1 time_interval.2) migRateInit
/-- dadi/Demes/Demes.py:424 `_make_nu_func(sizes, T, Ne)`: a number per deme when all are constant on the interval, else one closure per deme (`NuEntry.lam kind N0 NF Ne T`: the lambda of that kind with its captured defaults and the `Ne`, `T` of this call) -/
def makeNuFuncRef (sizes : List (Sym × Sym × SizeFn)) (T : Rat) (Ne : Rat) : Option (List NuEntry) := do
  let nu_func : List NuEntry ← (if (sizes.all fun (x1 : Sym × Sym × SizeFn) => (x1.2.2 == SizeFn.constant)) then (do
      let nu_func : List NuEntry := (sizes.map fun (x2 : Sym × Sym × SizeFn) => (NuEntry.num (nuConstList x2.1 Ne)))
      pure nu_func) else (do
      let nu_func : List NuEntry := []
      let nu_func : List NuEntry ← (sizes).foldlM (fun (nu_func : List NuEntry) (s : Sym × Sym × SizeFn) => do
          let nu_func : List NuEntry ← (if (s.2.2 == SizeFn.constant) then (do
              let nu_func : List NuEntry := nu_func ++ [(NuEntry.lam SizeFn.constant s.1 s.1 Ne T)]
              pure nu_func) else (do
              let nu_func : List NuEntry ← (if (s.2.2 == SizeFn.linear) then (do
                  let nu_func : List NuEntry := nu_func ++ [(NuEntry.lam SizeFn.linear s.1 s.2.1 Ne T)]
                  pure nu_func) else (do
                  let nu_func : List NuEntry ← (if (s.2.2 == SizeFn.exponential) then (do
                      let nu_func : List NuEntry := nu_func ++ [(NuEntry.lam SizeFn.exponential s.1 s.2.1 Ne T)]
                      pure nu_func) else (do
                      let _ : Unit ← (none : Option Unit)
                      pure nu_func))
                  pure nu_func))
              pure nu_func))
          pure nu_func) nu_func
      pure nu_func))
  pure nu_func
/-- dadi/Demes/Demes.py:384 `_get_integration_parameters(g, demes_present, frozen_list, Ne=None)` — statement by statement (`T = …; if T == math.inf: T = 0` is `intTime`) -/
def getIntegrationParametersRef (g : Graph InEpoch) (demes_present : PyDD (ETime × ETime) DName) (frozen_list : List DName) (Ne : Option Rat) : Option ((List (List NuEntry)) × (List (List (List Rat))) × (List Rat) × (List (List Bool))) := do
  let nu_funcs : List (List NuEntry) := []
  let integration_times : List Rat := []
  let migration_matrices : List (List (List Rat)) := []
  let frozen_demes : List (List Bool) := []
  let Ne : Rat ← (match Ne with
      | none => (do
      let t3 : Rat ← rootNe g
      pure t3)
      | some v => some v)
  let r11 : (List Rat) × (List (List Bool)) × (List (List NuEntry)) × (List (List (List Rat))) ← ((pySortedItemsDesc demes_present)).foldlM (fun (acc5 : (List Rat) × (List (List Bool)) × (List (List NuEntry)) × (List (List (List Rat)))) (p4 : (ETime × ETime) × (List DName)) => do
      let integration_times : List Rat := acc5.1
      let frozen_demes : List (List Bool) := acc5.2.1
      let nu_funcs : List (List NuEntry) := acc5.2.2.1
      let migration_matrices : List (List (List Rat)) := acc5.2.2.2
      let T : Rat := intTime p4.1.1 p4.1.2 Ne
      let integration_times : List Rat := integration_times ++ [T]
      let freeze : List Bool := (p4.2.map fun (x6 : DName) => (frozen_list.contains x6))
      let frozen_demes : List (List Bool) := frozen_demes ++ [freeze]
      let sizes : List (Sym × Sym × SizeFn) := []
      let sizes : List (Sym × Sym × SizeFn) ← (p4.2).foldlM (fun (sizes : List (Sym × Sym × SizeFn)) (d : DName) => do
          let t7 : Sym × Sym × SizeFn ← sizesAtTimeRef g d p4.1
          let sizes : List (Sym × Sym × SizeFn) := sizes ++ [t7]
          pure sizes) sizes
      let t8 : List NuEntry ← makeNuFuncRef sizes T Ne
      let nu_func : List NuEntry := t8
      let nu_funcs : List (List NuEntry) := nu_funcs ++ [nu_func]
      let mig_mat : List (List Rat) := (pyZeros p4.2.length p4.2.length)
      let mig_mat : List (List Rat) := ((pyEnumerate p4.2)).foldl (fun (mig_mat : List (List Rat)) (p9 : Nat × DName) => (
          let mig_mat : List (List Rat) := ((pyEnumerate p4.2)).foldl (fun (mig_mat : List (List Rat)) (p10 : Nat × DName) => (
              let mig_mat : List (List Rat) := (if (p9.2 != p10.2) then (
                  let m : Rat := (migrationRateInIntervalRef g p9.2 p10.2 p4.1)
                  let mig_mat : List (List Rat) := (matSet mig_mat p10.1 p9.1 (((2 : Rat) * Ne) * m))
                  mig_mat) else mig_mat)
              mig_mat)) mig_mat
          mig_mat)) mig_mat
      let migration_matrices : List (List (List Rat)) := migration_matrices ++ [mig_mat]
      pure (integration_times, frozen_demes, nu_funcs, migration_matrices)) (integration_times, frozen_demes, nu_funcs, migration_matrices)
  let integration_times : List Rat := r11.1
  let frozen_demes : List (List Bool) := r11.2.1
  let nu_funcs : List (List NuEntry) := r11.2.2.1
  let migration_matrices : List (List (List Rat)) := r11.2.2.2
  pure (nu_funcs, migration_matrices, integration_times, frozen_demes)
/-- dadi/Demes/Demes.py:292 `_get_demographic_events(g, demes_demo_events, sampled_pops)` — statement by statement; returns `(demo_events, demes_present)` -/
def getDemographicEventsRef (g : Graph InEpoch) (demes_demo_events : LibEvents) (sampled_pops : List DName) : Option ((PyDD ETime DEvt) × (PyDD (ETime × ETime) DName)) := do
  let break_points : List ETime := []
  let break_points : List ETime := (g.demes).foldl (fun (break_points : List ETime) (deme : GDeme InEpoch) => (
      let break_points : List ETime := ((epochsOf deme.start deme.epochs)).foldl (fun (break_points : List ETime) (e : Epoch) => (
          let break_points : List ETime := pySetAdd break_points e.st
          let break_points : List ETime := pySetAdd break_points e.et
          break_points)) break_points
      break_points)) break_points
  let break_points : List ETime := (g.pulses).foldl (fun (break_points : List ETime) (pulse : GPulse) => (
      let break_points : List ETime := pySetAdd break_points (some pulse.time)
      break_points)) break_points
  let break_points : List ETime := (g.migs).foldl (fun (break_points : List ETime) (migration : GMig) => (
      let break_points : List ETime := pySetAdd break_points migration.st
      let break_points : List ETime := pySetAdd break_points (some migration.et)
      break_points)) break_points
  let integration_times : List (ETime × ETime) := ((List.zip (pyRevDropFirst (pySortedSet break_points)) (pyRevDropLast (pySortedSet break_points))).map fun (x12 : ETime × ETime) => (x12.1, x12.2))
  let demes_present : PyDD (ETime × ETime) DName := []
  let deme_start_times : PyDD ETime DName := []
  let deme_start_times : PyDD ETime DName := (g.demes).foldl (fun (deme_start_times : PyDD ETime DName) (deme : GDeme InEpoch) => (
      let deme_start_times : PyDD ETime DName := ddAppend deme_start_times deme.start deme.name
      deme_start_times)) deme_start_times
  let _ : Unit ← pyRaiseIf (!((ddKeys deme_start_times).contains (none : ETime)))
  let _ : Unit ← pyRaiseIf ((ddGet deme_start_times (none : ETime)).length != 1)
  let demes_present : PyDD (ETime × ETime) DName := ((pySortedSet (ddKeys deme_start_times)).reverse).foldl (fun (demes_present : PyDD (ETime × ETime) DName) (start_time : ETime) => (
      let demes_present : PyDD (ETime × ETime) DName := ((ddGet deme_start_times start_time)).foldl (fun (demes_present : PyDD (ETime × ETime) DName) (deme_id : DName) => (
          let end_time : ETime := (g.endTimeOf deme_id)
          let demes_present : PyDD (ETime × ETime) DName := (integration_times).foldl (fun (demes_present : PyDD (ETime × ETime) DName) (interval : ETime × ETime) => (
              let demes_present : PyDD (ETime × ETime) DName := (if ((tge start_time interval.1) && (tle end_time interval.2)) then (
                  let demes_present : PyDD (ETime × ETime) DName := ddAppend demes_present interval deme_id
                  demes_present) else demes_present)
              demes_present)) demes_present
          demes_present)) demes_present
      demes_present)) demes_present
  let demo_events : PyDD ETime DEvt := []
  let demo_events : PyDD ETime DEvt := (demes_demo_events.pulses).foldl (fun (demo_events : PyDD ETime DEvt) (pulse : LPulse) => (
      let event : DEvt := (DEvt.pulses pulse.sources pulse.dest pulse.proportions)
      let demo_events : PyDD ETime DEvt := ddAppend demo_events (some pulse.time) event
      demo_events)) demo_events
  let demo_events : PyDD ETime DEvt := (demes_demo_events.branches).foldl (fun (demo_events : PyDD ETime DEvt) (branch : LBranch) => (
      let event : DEvt := (DEvt.branch branch.parent branch.child)
      let demo_events : PyDD ETime DEvt := ddAppend demo_events (some branch.time) event
      demo_events)) demo_events
  let demo_events : PyDD ETime DEvt := (demes_demo_events.mergers).foldl (fun (demo_events : PyDD ETime DEvt) (merge : LMerge) => (
      let event : DEvt := (DEvt.merge merge.parents merge.proportions merge.child)
      let demo_events : PyDD ETime DEvt := ddAppend demo_events (some merge.time) event
      demo_events)) demo_events
  let demo_events : PyDD ETime DEvt := (demes_demo_events.admixtures).foldl (fun (demo_events : PyDD ETime DEvt) (admix : LMerge) => (
      let event : DEvt := (DEvt.admix admix.parents admix.proportions admix.child)
      let demo_events : PyDD ETime DEvt := ddAppend demo_events (some admix.time) event
      demo_events)) demo_events
  let demo_events : PyDD ETime DEvt := (demes_demo_events.splits).foldl (fun (demo_events : PyDD ETime DEvt) (split : LSplit) => (
      let event : DEvt := (DEvt.split split.parent split.children)
      let demo_events : PyDD ETime DEvt := ddAppend demo_events (some split.time) event
      demo_events)) demo_events
  let demo_events : PyDD ETime DEvt := (g.successors).foldl (fun (demo_events : PyDD ETime DEvt) (p13 : DName × (List DName)) => (
      let demo_events : PyDD ETime DEvt := (if ((!(sampled_pops.contains p13.1)) && ((p13.2.length == 0) || (p13.2.all fun (x14 : DName) => (tgt (g.startTimeOf x14) (g.endTimeOf p13.1))))) then (
          let event : DEvt := (DEvt.marginalize p13.1)
          let demo_events : PyDD ETime DEvt := ddAppend demo_events (g.endTimeOf p13.1) event
          demo_events) else demo_events)
      demo_events)) demo_events
  pure (demo_events, demes_present)
/-- dadi/Demes/Demes.py:674 `_integrate_phi(phi, xx, integration_params, pop_ids)`: the first branch `len(pop_ids) == n` of the chain (none: `phi` is returned as it is);
    its call is evaluated by `bindIntegrate`: every parameter of the callee receives the value of the argument expression bound to it
    (table `integCalls`: positional arguments and keywords resolved through the signature of `dadi.Integration.<f>`) -/
def integratePhiRef {ν : Type} (phi : Trace ν) (integration_params : IntegParams ν) (pop_ids : List DName) : Option (Trace ν) :=
  match integCalls.find? (fun c => c.npop == pop_ids.length) with
  | none => some phi
  | some c => (bindIntegrate c integration_params pop_ids).map fun r => phi ++ [PCall.integrate r]
/-- dadi/Demes/Demes.py:612 `_apply_event(phi, xx, pop_ids, event, interval, sample_sizes, demes_present)` — statement by statement; the chain on `event[0]` is a `match`; returns `(phi, pop_ids)` -/
def applyEventRef {ν : Type} (phi : Trace ν) (pop_ids : List DName) (event : DEvt) (interval : ETime) (demes_present : PyDD (ETime × ETime) DName) : Option ((Trace ν) × (List DName)) := do
  let r30 : (Trace ν) × (List DName) ← (match event with
      | DEvt.pulses event_1 event_2 event_3 => (do
        let source : List DName := event_1
        let dest : DName := event_2
        let proportion : List Rat := event_3
        let phi : Trace ν := (phi ++ [PCall.admix proportion pop_ids source dest])
        pure (phi, pop_ids))
      | DEvt.branch event_1 event_2 => (do
        let parent : DName := event_1
        let t15 : Nat ← pyIndex pop_ids parent
        let parent_i : Nat := t15
        let child : DName := event_2
        let children : List DName := [parent, child]
        let t16 : DName ← children[0]?
        let t17 : DName ← children[1]?
        let new_pop_ids : List DName := ((((pop_ids.take parent_i) ++ [t16]) ++ (pop_ids.drop (parent_i + 1))) ++ [t17])
        let phi : Trace ν := (phi ++ [PCall.split pop_ids parent new_pop_ids])
        let t18 : DName ← children[0]?
        let t19 : DName ← children[1]?
        let pop_ids : List DName := ((((pop_ids.take parent_i) ++ [t18]) ++ (pop_ids.drop (parent_i + 1))) ++ [t19])
        pure (phi, pop_ids))
      | DEvt.merge event_1 event_2 event_3 => (do
        let parents : List DName := event_1
        let proportions : List Rat := event_2
        let child : DName := event_3
        let r20 : (List DName) × (Trace ν) ← (if (!(pop_ids.contains child)) then (do
            let pop_ids : List DName := pop_ids ++ [child]
            let _ : Unit ← pyRaiseIf (decide (pop_ids.length > 5))
            let phi : Trace ν := (phi ++ [PCall.admixNew proportions pop_ids.dropLast parents pop_ids])
            pure (pop_ids, phi)) else (do
            /- `sources` is not defined when `phi = _admix_phi(phi, xx, proportions, pop_ids, sources, dest)` runs: NameError -/
            let _ : Unit ← (none : Option Unit)
            pure (pop_ids, phi)))
        let pop_ids : List DName := r20.1
        let phi : Trace ν := r20.2
        let r23 : (List DName) × (Trace ν) ← (parents).foldlM (fun (acc21 : (List DName) × (Trace ν)) (parent : DName) => do
            let pop_ids : List DName := acc21.1
            let phi : Trace ν := acc21.2
            let t22 : Nat ← pyIndex pop_ids parent
            let remove_i : Nat := t22
            let pop_ids : List DName := pop_ids.eraseIdx remove_i
            let phi : Trace ν := (phi ++ [PCall.removePop (remove_i + 1)])
            pure (pop_ids, phi)) (pop_ids, phi)
        let pop_ids : List DName := r23.1
        let phi : Trace ν := r23.2
        pure (phi, pop_ids))
      | DEvt.admix event_1 event_2 event_3 => (do
        let parents : List DName := event_1
        let proportions : List Rat := event_2
        let child : DName := event_3
        let r24 : (List DName) × (Trace ν) ← (if (!(pop_ids.contains child)) then (do
            let pop_ids : List DName := pop_ids ++ [child]
            let _ : Unit ← pyRaiseIf (decide (pop_ids.length > 5))
            let phi : Trace ν := (phi ++ [PCall.admixNew proportions pop_ids.dropLast parents pop_ids])
            pure (pop_ids, phi)) else (do
            /- `sources` is not defined when `phi = _admix_phi(phi, xx, proportions, pop_ids, sources, dest)` runs: NameError -/
            let _ : Unit ← (none : Option Unit)
            pure (pop_ids, phi)))
        let pop_ids : List DName := r24.1
        let phi : Trace ν := r24.2
        pure (phi, pop_ids))
      | DEvt.split event_1 event_2 => (do
        let children : List DName := event_2
        let parent : DName := event_1
        let t25 : Nat ← pyIndex pop_ids parent
        let parent_i : Nat := t25
        let r28 : (List DName) × (Trace ν) ← (if (children.length == 1) then (do
            let pop_ids : List DName := (((pop_ids.take parent_i) ++ children) ++ (pop_ids.drop (parent_i + 1)))
            pure (pop_ids, phi)) else (do
            let _ : Unit ← pyRaiseIf (decide (((children.length + pop_ids.length) - 1) > 5))
            let t26 : DName ← children[0]?
            let t27 : DName ← children[1]?
            let new_pop_ids : List DName := ((((pop_ids.take parent_i) ++ [t26]) ++ (pop_ids.drop (parent_i + 1))) ++ [t27])
            let phi : Trace ν := (phi ++ [PCall.split pop_ids parent new_pop_ids])
            let pop_ids : List DName := new_pop_ids
            pure (pop_ids, phi)))
        let pop_ids : List DName := r28.1
        let phi : Trace ν := r28.2
        pure (phi, pop_ids))
      | DEvt.marginalize event_1 => (do
        let t29 : Nat ← pyIndex pop_ids event_1
        let marginalize_i : Nat := t29
        let phi : Trace ν := (phi ++ [PCall.removePop (marginalize_i + 1)])
        let pop_ids : List DName := pop_ids.eraseIdx marginalize_i
        pure (phi, pop_ids)))
  let phi : Trace ν := r30.1
  let pop_ids : List DName := r30.2
  pure (phi, pop_ids)
/-- dadi/Demes/Demes.py:529 `_compute_sfs(demo_events, demes_present, sample_sizes, nu_funcs, migration_matrices, integration_times, frozen_demes, pts, theta, gamma, h)` — statement by statement; returns `(phi, pop_ids)` (the grid is not modelled) -/
def computeSfsRef {ν : Type} (demo_events : PyDD ETime DEvt) (demes_present : PyDD (ETime × ETime) DName) (nu_funcs : List (List ν)) (migration_matrices : List (List (List Rat))) (integration_times : List Rat) (frozen_demes : List (List Bool)) (theta : Rat) (gamma : Option Rat) (h : Option Rat) : Option ((Trace ν) × (List DName)) := do
  let integration_intervals : List (ETime × ETime) := (pySortedKeysDesc (ddKeys demes_present))
  let t31 : ETime × ETime ← integration_intervals[0]?
  let t32 : DName ← (ddGet demes_present t31)[0]?
  let root_deme : DName := t32
  let gamma : Rat := (match gamma with | none => (0 : Rat) | some v => v)
  let h : Rat := (match h with | none => ((1 : Rat) / 2) | some v => v)
  let t33 : List ν ← nu_funcs[0]?
  let t34 : ν ← t33[0]?
  let phi : Trace ν := [PCall.phi1D (some t34) theta gamma h [root_deme]]
  let pop_ids : List DName := []
  let i : Nat := 0
  let r51 : (List DName) × (Trace ν) ← ((pyZip5 integration_times nu_funcs migration_matrices frozen_demes integration_intervals)).foldlM (fun (acc36 : (List DName) × (Trace ν)) (p35 : Rat × (List ν) × (List (List Rat)) × (List Bool) × (ETime × ETime)) => do
      let pop_ids : List DName := acc36.1
      let phi : Trace ν := acc36.2
      let pop_ids : List DName := (if (pop_ids == []) then (
          let pop_ids : List DName := (ddGet demes_present p35.2.2.2.2)
          pop_ids) else pop_ids)
      let phi : Trace ν ← (if (decide (p35.1 > (0 : Rat))) then (do
          let gamma_int : List Rat := (p35.2.2.2.1.map fun (x37 : Bool) => gamma)
          let h_int : List Rat := (p35.2.2.2.1.map fun (x38 : Bool) => h)
          let integration_params : IntegParams ν := { nu := p35.2.1, T := p35.1, M := p35.2.2.1, gamma := gamma_int, h := h_int, theta := theta, frozen := p35.2.2.2.1 }
          let t39 : Trace ν ← integratePhiRef phi integration_params pop_ids
          let phi : Trace ν := t39
          pure phi) else (do
          pure phi))
      let events : List DEvt := (ddGet demo_events p35.2.2.2.2.2)
      let r42 : (Trace ν) × (List DName) ← (events).foldlM (fun (acc40 : (Trace ν) × (List DName)) (event : DEvt) => do
          let phi : Trace ν := acc40.1
          let pop_ids : List DName := acc40.2
          let t41 : (Trace ν) × (List DName) ← applyEventRef phi pop_ids event p35.2.2.2.2.2 demes_present
          let phi : Trace ν := t41.1
          let pop_ids : List DName := t41.2
          pure (phi, pop_ids)) (phi, pop_ids)
      let phi : Trace ν := r42.1
      let pop_ids : List DName := r42.2
      let r50 : (Trace ν) × (List DName) ← (if (tgt p35.2.2.2.2.2 (some (0 : Rat))) then (do
          let t44 : Nat ← pyIndex (integration_intervals.map fun (x43 : ETime × ETime) => x43.1) p35.2.2.2.2.2
          let t45 : ETime × ETime ← integration_intervals[t44]?
          let next_interval : ETime × ETime := t45
          let next_deme_order : List DName := (ddGet demes_present next_interval)
          let r49 : (Trace ν) × (List DName) ← (if (pop_ids != next_deme_order) then (do
              let t48 : List Nat ← (next_deme_order.mapM fun (x46 : DName) => do
                    let t47 : Nat ← pyIndex pop_ids x46
                    pure (t47 + 1))
              let new_order : List Nat := t48
              let phi : Trace ν := (phi ++ [PCall.reorder new_order])
              let pop_ids : List DName := next_deme_order
              pure (phi, pop_ids)) else (do
              pure (phi, pop_ids)))
          let phi : Trace ν := r49.1
          let pop_ids : List DName := r49.2
          pure (phi, pop_ids)) else (do
          pure (phi, pop_ids)))
      let phi : Trace ν := r50.1
      let pop_ids : List DName := r50.2
      pure (pop_ids, phi)) (pop_ids, phi)
  let pop_ids : List DName := r51.1
  let phi : Trace ν := r51.2
  pure (phi, pop_ids)
/-- dadi/Demes/Demes.py:29 `SFS`, from `demes_demo_events = g.discrete_demographic_events()` (an input: `demes_demo_events_in`) to `return fs`, with `debug = False`; `g`, `sampled_pops`, `list_of_frozen_demes` are what the preparation (`sfsPrepare`) leaves -/
def sfsImportRef (demes_demo_events_in : LibEvents) (g : Graph InEpoch) (sampled_pops : List DName) (list_of_frozen_demes : List DName) (Ne : Option Rat) (theta : Rat) (gamma : Option Rat) (h : Option Rat) : Option (Trace NuEntry) := do
  let demes_demo_events : LibEvents := demes_demo_events_in
  let t52 : (PyDD ETime DEvt) × (PyDD (ETime × ETime) DName) ← getDemographicEventsRef g demes_demo_events sampled_pops
  let demo_events : PyDD ETime DEvt := t52.1
  let demes_present : PyDD (ETime × ETime) DName := t52.2
  let _ : Unit ← (demes_present).foldlM (fun (_ : Unit) (p53 : (ETime × ETime) × (List DName)) => do
      let _ : Unit ← pyRaiseIf (decide (p53.2.length > 5))
      pure ()) ()
  let t54 : (List (List NuEntry)) × (List (List (List Rat))) × (List Rat) × (List (List Bool)) ← getIntegrationParametersRef g demes_present list_of_frozen_demes Ne
  let nu_funcs : List (List NuEntry) := t54.1
  let migration_matrices : List (List (List Rat)) := t54.2.1
  let integration_times : List Rat := t54.2.2.1
  let frozen_demes : List (List Bool) := t54.2.2.2
  let t55 : (Trace NuEntry) × (List DName) ← computeSfsRef demo_events demes_present nu_funcs migration_matrices integration_times frozen_demes theta gamma h
  let phi : Trace NuEntry := t55.1
  let current_demes_order : List DName := t55.2
  let t58 : List Nat ← (sampled_pops.mapM fun (x56 : DName) => do
        let t57 : Nat ← pyIndex current_demes_order x56
        pure (t57 + 1))
  let new_order : List Nat := t58
  let phi : Trace NuEntry := (phi ++ [PCall.reorder new_order])
  let fs : Trace NuEntry := (phi ++ [PCall.fromPhi sampled_pops])
  pure fs

end DadiVerif.DemesConv
